import Avfs.Lemmas.Walk
/-
  C14 — WalkDir of the MemFS model for EVERY caller (plain users too): the branch of `walkDir` in which ReadDir of a
  directory fails (EACCES) and the callback is called a second time for that directory, with the error.

  What the model does (FS/Enum.lean, FS/Step.lean `readDir`, FS/MemFS.lean `openFile` / `searchLoop`):
  * ReadDir(P) = Open(P) read-only, then the listing of the node. Open resolves P: every directory on the way (the
    root of the view included) needs SEARCH permission (x), the directory itself needs READ permission (r) — both
    failures are EACCES. The listing itself (`fileStep … (.readDir (-1))`) takes the Infos straight from the nodes of
    the entries (`fillStat`): it needs no search permission on the directory, no Lstat of the entries.
  * so a directory that is readable but NOT searchable is listed, its entries are visited (with their kinds), and
    every SUB-DIRECTORY among them is unlistable (Open of "P/name" fails on P), whatever its own permission bits.
  * an unlistable directory is reported twice: the ordinary visit (path, 0, no error), then — if the callback
    continued — (path, 0, EACCES); to the second call "continue" and SkipDir both mean: skip this directory, go on
    with the next entry; SkipAll / error end the walk.

  * `PTree` / `treeOfP` / `Store.treeP`: the tree below a node with, on every node, the flag "listable by the caller":
    a directory whose parent directory (in the walk) is searchable and which is itself readable;
  * `specWalkP` / `specWalkTopP`: the contract of WalkDir over such a tree;
  * `walkDirTopP_eq_spec`: `walkDirTop` = `specWalkTopP`, every view, every list of callback answers;
  * `specWalkP_erase` + `treeOfP_admin`: for the administrator every directory is listable and `specWalkP` is `specWalk`
    of the plain tree: `walkDirTop_eq_spec_of_P` re-derives the administrator's theorem;
  * `walkDirTopP_all_cont`: all answers "continue": the entries reachable through listable directories (`descendP`),
    each once, in lexical pre-order, an unlistable directory followed by its error report, nothing below it; nil.
-/
set_option linter.unusedVariables false
set_option linter.unusedSimpArgs false

namespace Avfs.FS
open Avfs.Path

/-! ### the reference -/

/-- the caller may read (list) the directory `i` (false for anything but a directory) -/
def readable (s : Store) (v : View) (i : Ino) : Bool :=
  match s.get i with
  | some (.dir m _) => checkPerm m omRead v
  | _ => false

/-- the caller may search (look names up in) the directory `i` (false for anything but a directory) -/
def searchable (s : Store) (v : View) (i : Ino) : Bool :=
  match s.get i with
  | some (.dir m _) => checkPerm m omLookup v
  | _ => false

/-- a directory tree with, on every node, the flag "the caller can list it" (meaningful on directories) -/
inductive PTree where
  | node (name : Bytes) (kind : Nat) (listable : Bool) (children : List PTree)
  deriving Repr

def PTree.name : PTree → Bytes
  | .node n _ _ _ => n

def PTree.kind : PTree → Nat
  | .node _ k _ _ => k

def PTree.listable : PTree → Bool
  | .node _ _ l _ => l

def PTree.children : PTree → List PTree
  | .node _ _ _ ch => ch

/-- the tree below node `i` entered under the name `name`, as the caller `v` sees it; `ok`: the directory that holds
    the entry (and everything above it) can be searched, so that the path of `i` resolves. A directory is listable when
    its path resolves and it is readable; its entries resolve when it is, moreover, searchable. -/
def treeOfP (s : Store) (v : View) : Nat → Bytes → Ino → Bool → PTree
  | 0, name, i, ok => .node name (kindOf s i) (ok && readable s v i) []
  | fuel + 1, name, i, ok =>
    .node name (kindOf s i) (ok && readable s v i)
      ((s.names i).filterMap fun n => (s.child i n).map fun c => treeOfP s v fuel n c (searchable s v i))

/-- what the walk of a directory hands up for the answer to the report of its ReadDir error: "continue" and SkipDir
    skip the directory, SkipAll and an error end the walk -/
def reportErr : WAct → WErr
  | .cont => .none
  | .skipDir => .none
  | .skipAll => .skipAll
  | .fail => .fail

mutual
/-- filepath.WalkDir's contract on a tree with unlistable directories: as `specWalk`, and a directory that cannot be
    listed, when the callback continued on its visit, is reported a second time with EACCES (one more answer is
    consumed); none of its entries is visited. -/
def specWalkP : PTree → Bytes → List WAct → List Visit × List WAct × WErr
  | .node _ kind li ch, path, acts =>
    let here : Visit := (path, kind, none)
    match acts.headD .cont with
    | .cont =>
      if kind == 0 then
        if li then
          let r := specWalkListP ch path acts.tail
          (here :: r.1, r.2.1, r.2.2)
        else ([here, (path, kind, some .EACCES)], acts.tail.tail, reportErr (acts.tail.headD .cont))
      else ([here], acts.tail, .none)
    | .skipDir => ([here], acts.tail, if kind == 0 then .none else .skipDir)
    | .skipAll => ([here], acts.tail, .skipAll)
    | .fail => ([here], acts.tail, .fail)
def specWalkListP : List PTree → Bytes → List WAct → List Visit × List WAct × WErr
  | [], _, acts => ([], acts, .none)
  | t :: ts, dir, acts =>
    let r := specWalkP t (join .linux [dir, t.name]) acts
    match r.2.2 with
    | .none =>
      let r' := specWalkListP ts dir r.2.1
      (r.1 ++ r'.1, r'.2.1, r'.2.2)
    | .skipDir => (r.1, r.2.1, .none)
    | e => (r.1, r.2.1, e)
end

/-- WalkDir itself: SkipDir / SkipAll of the callback are not handed to the caller -/
def specWalkTopP (t : PTree) (root : Bytes) (acts : List WAct) : List Visit × List WAct × WErr :=
  let r := specWalkP t root acts
  (r.1, r.2.1, if r.2.2 == .skipDir || r.2.2 == .skipAll then .none else r.2.2)

theorem reportErr_no_other (a : WAct) (e : Err) : reportErr a ≠ .other e := by cases a <;> simp [reportErr]

mutual
theorem specWalkP_no_other : ∀ (t : PTree) (P : Bytes) (acts : List WAct) (e : Err), (specWalkP t P acts).2.2 ≠ .other e
  | .node n k li ch, P, acts, e => by
    rw [specWalkP.eq_1]
    have ih := specWalkListP_no_other ch P acts.tail e
    cases h : acts.headD .cont
    · by_cases hk : (k == 0) = true
      · cases li
        · simp only [hk, if_true, Bool.false_eq_true, if_false]; exact reportErr_no_other _ _
        · simp only [hk, if_true]; exact ih
      · simp [hk]
    · by_cases hk : (k == 0) = true <;> simp [hk]
    · simp
    · simp
theorem specWalkListP_no_other : ∀ (ts : List PTree) (P : Bytes) (acts : List WAct) (e : Err),
    (specWalkListP ts P acts).2.2 ≠ .other e
  | [], P, acts, e => by simp [specWalkListP]
  | t :: ts, P, acts, e => by
    rw [specWalkListP.eq_2]
    have h1 := specWalkP_no_other t (join .linux [P, t.name]) acts
    have h2 := specWalkListP_no_other ts P (specWalkP t (join .linux [P, t.name]) acts).2.1 e
    generalize specWalkP t (join .linux [P, t.name]) acts = r at h1 h2
    obtain ⟨vis, rest, er⟩ := r
    cases er with
    | none => exact h2
    | skipDir => simp
    | skipAll => simp
    | fail => simp
    | other e' => exact absurd rfl (h1 e')
end

/-- WalkDir returns nil or the error of the callback — a ReadDir error is handed to the callback, never returned -/
theorem specWalkTopP_result (t : PTree) (P : Bytes) (acts : List WAct) :
    (specWalkTopP t P acts).2.2 = .none ∨ (specWalkTopP t P acts).2.2 = .fail := by
  unfold specWalkTopP
  have h := specWalkP_no_other t P acts
  generalize specWalkP t P acts = r at h ⊢
  obtain ⟨vis, rest, e⟩ := r
  cases e with
  | other e' => exact absurd rfl (h e')
  | _ => simp

/-! ### Open / ReadDir of a resolved directory, by any caller -/

theorem readable_eq {s : Store} {v : View} {i : Ino} {m : Meta} {ch : List (Bytes × Ino)}
    (hg : s.get i = some (.dir m ch)) : readable s v i = checkPerm m omRead v := by
  simp [readable, hg]

theorem searchable_eq {s : Store} {v : View} {i : Ino} {m : Meta} {ch : List (Bytes × Ino)}
    (hg : s.get i = some (.dir m ch)) : searchable s v i = checkPerm m omLookup v := by
  simp [searchable, hg]

/-- ReadDir of a directory whose path resolves: its listing when the caller may read it, EACCES otherwise -/
theorem readDir_foundP {s : Store} {root : Ino} {v : View} (hwf : WF s root)
    (hvr : ∃ m ch, s.get v.root = some (.dir m ch)) (vid : Nat) (cs : List Bytes)
    (hall : ∀ c ∈ cs, c ≠ [] ∧ ∀ x ∈ c, x ≠ SL) (hdots : ∀ c ∈ cs, c ≠ [DOT] ∧ c ≠ [DOT, DOT])
    (par d : Ino) (hw : walkPath s v v.root cs = .found par d) (hd : isDirAt s d = true) :
    readDir s v vid (pathOf cs) =
      if readable s v d then .ok (.infos (entriesOf s d)) else .err .EACCES := by
  obtain ⟨m, ch, hg⟩ := get_of_isDirAt hd
  rw [readable_eq hg]
  have hom : toOpenMode 0 = omRead := by decide
  have hpo : posixOpen s v (toOpenMode 0) (.found par d) =
      if checkPerm m omRead v then .opened d false else .fail .EACCES := by
    simp only [posixOpen, hg, hom]
    cases hp : checkPerm m omRead v
    · have hp' : checkPerm m 4 v = false := hp
      simp [hp', omCreate, omExcl, omWrite, omRead]
    · have hp' : checkPerm m 4 v = true := hp
      simp [hp', omCreate, omExcl, omWrite, omRead]
  have hopen : openFile s v vid (pathOf cs) 0 0 =
      if checkPerm m omRead v then (s, .ok (handleOn d (pathOf cs) (toOpenMode 0) vid)) else (s, .error .EACCES) := by
    by_cases hcs : cs = []
    · subst hcs
      simp only [walkPath, Resolved.found.injEq] at hw
      obtain ⟨rfl, rfl⟩ := hw
      have h := open_root s v hvr vid 0 0
      rw [hpo] at h
      by_cases hp : checkPerm m omRead v = true
      · simp only [hp, if_true] at h ⊢; simpa [pathOf, joinWith] using h
      · simp only [hp, Bool.false_eq_true, if_false] at h ⊢; simpa [pathOf, joinWith] using h
    · have h := open_posix_gen s root v hwf hvr cs hcs hall hdots vid 0 0
      rw [hw, hpo] at h
      by_cases hp : checkPerm m omRead v = true
      · simp only [hp, if_true] at h ⊢; simpa using h
      · simp only [hp, Bool.false_eq_true, if_false] at h ⊢; simpa using h
  unfold readDir
  rw [hopen]
  by_cases hp : checkPerm m omRead v = true
  · simp only [hp, if_true]
    have hneg : ((-1 : Int) ≤ 0) = True := by simp
    simp only [fileStep, handleOn, pathOf, List.isEmpty_cons, Bool.false_eq_true, if_false, hg, hneg, if_true,
      true_or, decide_true, Bool.true_or]
    rw [dirEntriesOf_getD]
    rfl
  · simp [hp]

/-- ReadDir of a path on which a directory may not be searched: EACCES -/
theorem readDir_deniedP {s : Store} {root : Ino} {v : View} (hwf : WF s root)
    (hvr : ∃ m ch, s.get v.root = some (.dir m ch)) (vid : Nat) (cs : List Bytes)
    (hall : ∀ c ∈ cs, c ≠ [] ∧ ∀ x ∈ c, x ≠ SL) (hdots : ∀ c ∈ cs, c ≠ [DOT] ∧ c ≠ [DOT, DOT])
    (hw : walkPath s v v.root cs = .denied) :
    readDir s v vid (pathOf cs) = .err .EACCES := by
  have hcs : cs ≠ [] := by
    intro h; subst h; simp [walkPath] at hw
  have h := open_posix_gen s root v hwf hvr cs hcs hall hdots vid 0 0
  rw [hw] at h
  simp only [posixOpen] at h
  unfold readDir
  simp only [pathOf, h]

/-- descending one more component from a resolved directory to a sub-directory: resolves exactly when the directory
    may be searched -/
theorem walkPath_childP {s : Store} {v : View} (cs : List Bytes) (par i c : Ino) (n : Bytes)
    (hw : walkPath s v v.root cs = .found par i) (hd : isDirAt s i = true) (he : s.child i n = some c)
    (hc : isDirAt s c = true) :
    walkPath s v v.root (cs ++ [n]) = if searchable s v i then .found i c else .denied := by
  obtain ⟨m, ch, hg⟩ := get_of_isDirAt hd
  obtain ⟨mc, chc, hgc⟩ := get_of_isDirAt hc
  rw [walkPath_append s v v.root cs [n] (by simp) par i m ch hw hg, searchable_eq hg]
  by_cases hp : checkPerm m omLookup v = true <;> simp [walkPath, hg, hp, he, hgc]

/-! ### the simulation -/

theorem treeOfP_name (s : Store) (v : View) (f : Nat) (n : Bytes) (i : Ino) (ok : Bool) :
    (treeOfP s v f n i ok).name = n := by
  cases f <;> rfl

theorem treeOfP_kind (s : Store) (v : View) (f : Nat) (n : Bytes) (i : Ino) (ok : Bool) :
    (treeOfP s v f n i ok).kind = kindOf s i := by
  cases f <;> rfl

theorem treeOfP_listable (s : Store) (v : View) (f : Nat) (n : Bytes) (i : Ino) (ok : Bool) :
    (treeOfP s v f n i ok).listable = (ok && readable s v i) := by
  cases f <;> rfl

theorem ptree_eta (t : PTree) : t = .node t.name t.kind t.listable t.children := by
  cases t; rfl

/-- anything but a directory: one visit -/
theorem walkDir_leafP (s : Store) (v : View) (vid f : Nat) (st : WState) (P name : Bytes) (kind : Nat) (li : Bool)
    (ch : List PTree) (hk : kind ≠ 0) :
    walkDir s v vid (f + 1) st P kind = applyRes st (specWalkP (.node name kind li ch) P st.acts) := by
  rw [walkDir.eq_2, specWalkP.eq_1]
  cases h : st.acts.headD .cont <;> simp only [callFn, h] <;> simp [hk, applyRes]

theorem walkDir_leafP' (s : Store) (v : View) (vid f g : Nat) (st : WState) (P name : Bytes) (i : Ino) (ok : Bool)
    (hk : kindOf s i ≠ 0) :
    walkDir s v vid (f + 1) st P (kindOf s i) = applyRes st (specWalkP (treeOfP s v g name i ok) P st.acts) := by
  rw [ptree_eta (treeOfP s v g name i ok), treeOfP_kind]
  exact walkDir_leafP s v vid f st P _ _ _ _ hk

/-- a directory whose ReadDir fails: the visit, then the report of the error -/
theorem walkDir_unlistable (s : Store) (v : View) (vid f : Nat) (st : WState) (P name : Bytes) (ch : List PTree)
    (hr : readDir s v vid P = .err .EACCES) :
    walkDir s v vid (f + 1) st P 0 = applyRes st (specWalkP (.node name 0 false ch) P st.acts) := by
  rw [walkDir.eq_2, specWalkP.eq_1]
  cases h : st.acts.headD .cont
  case cont =>
    simp only [callFn, h, hr]
    cases h2 : st.acts.tail.headD .cont <;> simp [applyRes, reportErr, walkDir.each]
  all_goals simp only [callFn, h] <;> simp [applyRes]

/-- the statement of the simulation for directories whose path resolves, at fuel `g` -/
def SimAtP (s : Store) (v : View) (vid : Nat) (depth : Ino → Nat) (g : Nat) : Prop :=
  ∀ (i : Ino) (name : Bytes) (cs : List Bytes) (par : Ino) (st : WState),
    (∀ c ∈ cs, c ≠ [] ∧ ∀ x ∈ c, x ≠ SL) → (∀ c ∈ cs, c ≠ [DOT] ∧ c ≠ [DOT, DOT]) →
    walkPath s v v.root cs = .found par i → isDirAt s i = true → pot s depth i + 1 ≤ g →
    walkDir s v vid (g + 1) st (pathOf cs) 0 =
      applyRes st (specWalkP (treeOfP s v g name i true) (pathOf cs) st.acts)

theorem each_simP {s : Store} {root : Ino} {v : View} (hwf : WF s root) (hn : NamesOK s) (hdf : DotFree s)
    (hvr : ∃ m ch, s.get v.root = some (.dir m ch)) (vid : Nat) (depth : Ino → Nat)
    (hdepth : ∀ d n c, Edge s d n c → isDirAt s c = true → depth c = depth d + 1)
    (g : Nat) (IH : SimAtP s v vid depth g) (i : Ino) (cs : List Bytes) (par : Ino)
    (hall : ∀ c ∈ cs, c ≠ [] ∧ ∀ x ∈ c, x ≠ SL) (hdots : ∀ c ∈ cs, c ≠ [DOT] ∧ c ≠ [DOT, DOT])
    (hw : walkPath s v v.root cs = .found par i) (hd : isDirAt s i = true) (hpot : pot s depth i ≤ g) :
    ∀ (L : List Bytes) (st : WState), (∀ nm ∈ L, nm ∈ s.names i) →
      walkDir.each s v vid (g + 1) (pathOf cs)
          (L.filterMap fun nm => (s.child i nm).bind fun c => fillStat s c nm) st =
        applyRes st (specWalkListP
          (L.filterMap fun n => (s.child i n).map fun c => treeOfP s v g n c (searchable s v i)) (pathOf cs) st.acts) := by
  intro L
  induction L with
  | nil => intro st _; simp [walkDir.each, specWalkListP, applyRes]
  | cons nm L ih =>
    intro st hL
    have hmem := hL nm (by simp)
    rw [mem_names] at hmem
    obtain ⟨c, hc⟩ := Option.isSome_iff_exists.1 hmem
    have halloc := hwf.alloc i nm c hc
    obtain ⟨inf, hinf⟩ := px_fillStat_some s c nm halloc
    obtain ⟨hkind, hname⟩ := fillStat_kind hinf
    have ih' : ∀ st', _ := fun st' => ih st' (fun x hx => hL x (by simp [hx]))
    have e1 : (nm :: L).filterMap (fun nm => (s.child i nm).bind fun c => fillStat s c nm) =
        inf :: L.filterMap (fun nm => (s.child i nm).bind fun c => fillStat s c nm) := by
      simp [List.filterMap_cons, hc, hinf]
    have e2 : (nm :: L).filterMap (fun n => (s.child i n).map fun c => treeOfP s v g n c (searchable s v i)) =
        treeOfP s v g nm c (searchable s v i) ::
          L.filterMap (fun n => (s.child i n).map fun c => treeOfP s v g n c (searchable s v i)) := by
      simp [List.filterMap_cons, hc]
    rw [e1, e2, walkDir.each.eq_2, specWalkListP.eq_2, treeOfP_name, hname, hkind]
    have hchild : walkDir s v vid (g + 1) st (join .linux [pathOf cs, nm]) (kindOf s c) =
        applyRes st (specWalkP (treeOfP s v g nm c (searchable s v i)) (join .linux [pathOf cs, nm]) st.acts) := by
      by_cases hcd : isDirAt s c = true
      · obtain ⟨hall', hdots'⟩ := good_snoc hn hdf hall hdots hc
        rw [join_child cs nm hall' hdots', kindOf_dir.2 hcd]
        have hwc := walkPath_childP cs par i c nm hw hd hc hcd
        cases hsi : searchable s v i with
        | true =>
          rw [hsi] at hwc
          have hp := pot_edge hwf depth hdepth hc hcd
          exact IH c nm (cs ++ [nm]) i st hall' hdots' (by simpa using hwc) hcd (by omega)
        | false =>
          rw [hsi] at hwc
          have hr := readDir_deniedP hwf hvr vid (cs ++ [nm]) hall' hdots' (by simpa using hwc)
          rw [ptree_eta (treeOfP s v g nm c false), treeOfP_kind, treeOfP_listable, kindOf_dir.2 hcd]
          exact walkDir_unlistable s v vid g st _ _ _ hr
      · exact walkDir_leafP' s v vid g g st _ nm c _ (fun h => hcd (kindOf_dir.1 h))
    rw [hchild]
    generalize specWalkP (treeOfP s v g nm c (searchable s v i)) (join .linux [pathOf cs, nm]) st.acts = r
    obtain ⟨vis, rest, e⟩ := r
    cases e <;> simp [applyRes, ih', List.append_assoc]

theorem walkDir_simP {s : Store} {root : Ino} {v : View} (hwf : WF s root) (hn : NamesOK s) (hdf : DotFree s)
    (hvr : ∃ m ch, s.get v.root = some (.dir m ch)) (vid : Nat) (depth : Ino → Nat)
    (hdepth : ∀ d n c, Edge s d n c → isDirAt s c = true → depth c = depth d + 1) :
    ∀ g, SimAtP s v vid depth g := by
  intro g
  induction g with
  | zero => intro i name cs par st _ _ _ _ hp; omega
  | succ g IH =>
    intro i name cs par st hall hdots hw hd hp
    have hrd := readDir_foundP hwf hvr vid cs hall hdots par i hw hd
    cases hre : readable s v i with
    | false =>
      rw [hre] at hrd
      rw [ptree_eta (treeOfP s v (g + 1) name i true), treeOfP_kind, treeOfP_listable, kindOf_dir.2 hd, hre]
      exact walkDir_unlistable s v vid (g + 1) st _ _ _ (by simpa using hrd)
    | true =>
      rw [hre] at hrd
      simp only [if_true] at hrd
      rw [walkDir.eq_2, treeOfP.eq_2, specWalkP.eq_1, kindOf_dir.2 hd, hre]
      cases h : st.acts.headD .cont
      case cont =>
        simp only [callFn, h, hrd]
        have he := each_simP hwf hn hdf hvr vid depth hdepth g IH i cs par hall hdots hw hd (by omega) (s.names i)
          ⟨st.acts.tail, st.visited ++ [(pathOf cs, 0, none)]⟩ (fun _ h => h)
        simp only [entriesOf]
        simp [he, applyRes]
      all_goals simp only [callFn, h] <;> simp [applyRes]

/-- the tree below node `c` of a heap as the caller `v` sees it, entered under `name` through searchable directories -/
def Store.treeP (s : Store) (v : View) (name : Bytes) (c : Ino) : PTree := treeOfP s v (s.next + 1) name c true

/-- WalkDir of the model = the reference walk (with unlistable directories) of the tree below the root of the walk:
    for EVERY view (administrator or plain user, rooted at any directory), on every well-formed heap without "." / ".."
    entries, for a root given as a clean absolute path that resolves for the caller without meeting a symbolic link,
    and EVERY list of callback answers. -/
theorem walkDirTopP_eq_spec (s : Store) (root : Ino) (v : View) (hwf : WF s root) (hn : NamesOK s) (hdf : DotFree s)
    (hvr : ∃ m ch, s.get v.root = some (.dir m ch)) (vid : Nat) (cs : List Bytes)
    (hall : ∀ c ∈ cs, c ≠ [] ∧ ∀ x ∈ c, x ≠ SL) (hdots : ∀ c ∈ cs, c ≠ [DOT] ∧ c ≠ [DOT, DOT])
    (par c : Ino) (hw : walkPath s v v.root cs = .found par c) (acts : List WAct) :
    walkDirTop s v vid (pathOf cs) acts =
      let r := specWalkTopP (s.treeP v (cs.getLastD []) c) (pathOf cs) acts
      (⟨r.2.1, r.1⟩, r.2.2) := by
  obtain ⟨depth, hdepth⟩ := hwf.depth
  obtain ⟨i, hi, hst⟩ := lstat_found hwf hvr cs hall hdots par c hw .lstat
  obtain ⟨hkind, _⟩ := fillStat_kind hi
  have hwalk : walkDir s v vid (s.next + 1 + 1) ⟨acts, []⟩ (pathOf cs) (kindOf s c) =
      applyRes ⟨acts, []⟩ (specWalkP (treeOfP s v (s.next + 1) (cs.getLastD []) c true) (pathOf cs) acts) := by
    by_cases hcd : isDirAt s c = true
    · rw [kindOf_dir.2 hcd]
      have hp := pot_le s depth c
      exact walkDir_simP hwf hn hdf hvr vid depth hdepth (s.next + 1) c _ cs par ⟨acts, []⟩ hall hdots hw hcd
        (by omega)
    · exact walkDir_leafP' s v vid _ _ ⟨acts, []⟩ _ _ c _ (fun h => hcd (kindOf_dir.1 h))
  unfold walkDirTop
  simp only [hst, hkind, hwalk, specWalkTopP, Store.treeP, applyRes, List.nil_append]
  rfl


/-- the walk of the model, for any caller, never runs out of fuel and returns no error of its own: a ReadDir error goes
    to the callback; the result is nil or the error of the callback -/
theorem walkDirTopP_result (s : Store) (root : Ino) (v : View) (hwf : WF s root) (hn : NamesOK s) (hdf : DotFree s)
    (hvr : ∃ m ch, s.get v.root = some (.dir m ch)) (vid : Nat) (cs : List Bytes)
    (hall : ∀ c ∈ cs, c ≠ [] ∧ ∀ x ∈ c, x ≠ SL) (hdots : ∀ c ∈ cs, c ≠ [DOT] ∧ c ≠ [DOT, DOT])
    (par c : Ino) (hw : walkPath s v v.root cs = .found par c) (acts : List WAct) :
    (walkDirTop s v vid (pathOf cs) acts).2 = .none ∨ (walkDirTop s v vid (pathOf cs) acts).2 = .fail := by
  rw [walkDirTopP_eq_spec s root v hwf hn hdf hvr vid cs hall hdots par c hw acts]
  exact specWalkTopP_result _ _ _

/-- the root of the walk does not resolve for the caller (a directory on the way may not be searched): the callback is
    called once, with the error of Lstat, and its answer decides the result -/
theorem walkDirTop_denied (s : Store) (root : Ino) (v : View) (hwf : WF s root)
    (hvr : ∃ m ch, s.get v.root = some (.dir m ch)) (vid : Nat) (cs : List Bytes)
    (hall : ∀ c ∈ cs, c ≠ [] ∧ ∀ x ∈ c, x ≠ SL) (hdots : ∀ c ∈ cs, c ≠ [DOT] ∧ c ≠ [DOT, DOT])
    (hw : walkPath s v v.root cs = .denied) (acts : List WAct) :
    walkDirTop s v vid (pathOf cs) acts =
      (⟨acts.tail, [(pathOf cs, 9, some .EACCES)]⟩, if acts.headD .cont = .fail then .fail else .none) := by
  have hcs : cs ≠ [] := by
    intro h; subst h; simp [walkPath] at hw
  have h := (stat_posix_gen s root v hwf hvr cs hcs hall hdots .lstat).2
  rw [hw] at h
  simp only at h
  unfold walkDirTop
  simp only [pathOf, h, callFn]
  cases acts.headD .cont <;> simp

/-! ### the administrator: every directory is listable, `specWalkP` is `specWalk` -/

mutual
/-- the tree without the flags -/
def PTree.erase : PTree → Tree
  | .node n k _ ch => .node n k (eraseList ch)
def eraseList : List PTree → List Tree
  | [] => []
  | t :: ts => t.erase :: eraseList ts
end

mutual
/-- every directory of the tree is listable -/
def PTree.allListable : PTree → Bool
  | .node _ k li ch => (k != 0 || li) && allListableList ch
def allListableList : List PTree → Bool
  | [] => true
  | t :: ts => t.allListable && allListableList ts
end

theorem eraseList_eq_map : ∀ (l : List PTree), eraseList l = l.map PTree.erase
  | [] => rfl
  | t :: ts => by rw [eraseList, eraseList_eq_map ts]; rfl

theorem allListableList_eq_all : ∀ (l : List PTree), allListableList l = l.all PTree.allListable
  | [] => rfl
  | t :: ts => by rw [allListableList, allListableList_eq_all ts]; rfl

theorem erase_name (t : PTree) : t.erase.name = t.name := by
  cases t; rfl

mutual
/-- on a tree all of whose directories are listable the two references agree -/
theorem specWalkP_erase : ∀ (t : PTree) (P : Bytes) (acts : List WAct), t.allListable = true →
    specWalkP t P acts = specWalk t.erase P acts
  | .node n k li ch, P, acts, h => by
    rw [PTree.allListable, Bool.and_eq_true] at h
    rw [specWalkP.eq_1, PTree.erase, specWalk.eq_1]
    have ih := specWalkListP_erase ch P acts.tail h.2
    cases ha : acts.headD .cont
    · by_cases hk : (k == 0) = true
      · have hli : li = true := by
          have := h.1
          simp only [beq_iff_eq] at hk
          simpa [hk] using this
        subst hli
        simp only [hk, if_true, ih]
      · simp [hk]
    · rfl
    · rfl
    · rfl
theorem specWalkListP_erase : ∀ (ts : List PTree) (P : Bytes) (acts : List WAct), allListableList ts = true →
    specWalkListP ts P acts = specWalkList (eraseList ts) P acts
  | [], P, acts, _ => by simp [specWalkListP, specWalkList, eraseList]
  | t :: ts, P, acts, h => by
    rw [allListableList, Bool.and_eq_true] at h
    rw [specWalkListP.eq_2, eraseList, specWalkList.eq_2, erase_name, specWalkP_erase t _ acts h.1]
    have ih := fun a => specWalkListP_erase ts P a h.2
    simp only [ih]
    rfl
end

theorem searchable_admin {s : Store} {v : View} {i : Ino} (hadm : v.admin = true) (hd : isDirAt s i = true) :
    searchable s v i = true := by
  obtain ⟨m, ch, hg⟩ := get_of_isDirAt hd
  rw [searchable_eq hg]
  exact checkPerm_admin _ _ _ hadm

theorem readable_admin {s : Store} {v : View} {i : Ino} (hadm : v.admin = true) (hd : isDirAt s i = true) :
    readable s v i = true := by
  obtain ⟨m, ch, hg⟩ := get_of_isDirAt hd
  rw [readable_eq hg]
  exact checkPerm_admin _ _ _ hadm

/-- for the administrator the flagged tree is the plain tree with every directory listable -/
theorem treeOfP_admin {s : Store} {v : View} (hadm : v.admin = true) : ∀ (f : Nat) (n : Bytes) (i : Ino) (ok : Bool),
    (isDirAt s i = true → ok = true) →
    (treeOfP s v f n i ok).erase = treeOf s f n i ∧ (treeOfP s v f n i ok).allListable = true := by
  intro f
  induction f with
  | zero =>
    intro n i ok hok
    refine ⟨by simp [treeOfP, treeOf, PTree.erase, eraseList], ?_⟩
    simp only [treeOfP, PTree.allListable, allListableList, Bool.and_true, Bool.or_eq_true, bne_iff_ne, ne_eq]
    by_cases hd : isDirAt s i = true
    · right; simp [hok hd, readable_admin hadm hd]
    · left; exact fun h => hd (kindOf_dir.1 h)
  | succ f ih =>
    intro n i ok hok
    have hch : ∀ nm c, s.child i nm = some c → (isDirAt s c = true → searchable s v i = true) :=
      fun nm c hc _ => searchable_admin hadm (hr_isDir_of_edge hc)
    constructor
    · rw [treeOfP, PTree.erase, treeOf, eraseList_eq_map, List.map_filterMap]
      congr 1
      apply filterMap_congr'
      intro nm _
      cases hc : s.child i nm with
      | none => rfl
      | some c => simp [(ih nm c _ (hch nm c hc)).1]
    · rw [treeOfP, PTree.allListable, Bool.and_eq_true]
      constructor
      · simp only [Bool.or_eq_true, bne_iff_ne, ne_eq]
        by_cases hd : isDirAt s i = true
        · right; simp [hok hd, readable_admin hadm hd]
        · left; exact fun h => hd (kindOf_dir.1 h)
      · rw [allListableList_eq_all, List.all_eq_true]
        intro t ht
        obtain ⟨nm, _, hnm⟩ := List.mem_filterMap.1 ht
        cases hc : s.child i nm with
        | none => simp [hc] at hnm
        | some c =>
          simp only [hc, Option.map_some, Option.some.injEq] at hnm
          subst hnm
          exact (ih nm c _ (hch nm c hc)).2

/-- `walkDirTop_eq_spec` (the administrator's theorem of Lemmas/Walk.lean) as the special case of
    `walkDirTopP_eq_spec` in which every directory is listable -/
theorem walkDirTop_eq_spec_of_P (s : Store) (root : Ino) (v : View) (hwf : WF s root) (hn : NamesOK s) (hdf : DotFree s)
    (hvr : ∃ m ch, s.get v.root = some (.dir m ch)) (hadm : v.admin = true) (vid : Nat) (cs : List Bytes)
    (hall : ∀ c ∈ cs, c ≠ [] ∧ ∀ x ∈ c, x ≠ SL) (hdots : ∀ c ∈ cs, c ≠ [DOT] ∧ c ≠ [DOT, DOT])
    (par c : Ino) (hw : walkPath s v v.root cs = .found par c) (acts : List WAct) :
    walkDirTop s v vid (pathOf cs) acts =
      let r := specWalkTop (s.tree (cs.getLastD []) c) (pathOf cs) acts
      (⟨r.2.1, r.1⟩, r.2.2) := by
  rw [walkDirTopP_eq_spec s root v hwf hn hdf hvr vid cs hall hdots par c hw acts]
  obtain ⟨h1, h2⟩ := treeOfP_admin (s := s) hadm (s.next + 1) (cs.getLastD []) c true (fun _ => rfl)
  simp only [specWalkTopP, specWalkTop, Store.treeP, Store.tree, specWalkP_erase _ _ _ h2, h1]
  rfl


/-! ### the callback always continues: what is reachable through listable directories, each once, in pre-order -/

/-- descending from node `i` along the names `ds` through directories the caller can list: the node reached and its
    flag "listable". `ok`: the path of `i` resolves for the caller. Looking a name up in `i` needs `i` listable (its
    names are only known from its listing); the entry found resolves when `i` is, moreover, searchable. -/
def descendP (s : Store) (v : View) : Ino → Bool → List Bytes → Option (Ino × Bool)
  | i, ok, [] => some (i, ok && readable s v i)
  | i, ok, n :: ns =>
    if ok && readable s v i then (s.child i n).bind fun c => descendP s v c (searchable s v i) ns else none

/-- the part of `belowP` under the entry `n` of `i` -/
def belowChildP (s : Store) (rec : Ino → List (List Bytes × Ino × Bool)) (i : Ino) (n : Bytes) :
    List (List Bytes × Ino × Bool) :=
  match s.child i n with
  | none => []
  | some c => (rec c).map fun x => (n :: x.1, x.2)

/-- node `i` and everything the caller reaches below it, in pre-order, entries in name order:
    (names leading from `i` to the node, node, the node is a directory the caller can list) -/
def belowP (s : Store) (v : View) : Nat → Ino → Bool → List (List Bytes × Ino × Bool)
  | 0, i, ok => [([], i, ok && readable s v i)]
  | f + 1, i, ok =>
    ([], i, ok && readable s v i) ::
      (if ok && readable s v i then
        (s.names i).flatMap (belowChildP s (fun c => belowP s v f c (searchable s v i)) i)
      else [])

/-- the calls of the callback for one reached entry: the visit and, for a directory that cannot be listed, the report
    of the ReadDir error -/
def visitsP (s : Store) (cs : List Bytes) (x : List Bytes × Ino × Bool) : List Visit :=
  (pathOf (cs ++ x.1), kindOf s x.2.1, none) ::
    (if kindOf s x.2.1 == 0 && !x.2.2 then [(pathOf (cs ++ x.1), kindOf s x.2.1, some .EACCES)] else [])

theorem flatMap_congr' {α β} {f g : α → List β} : ∀ {l : List α}, (∀ a ∈ l, f a = g a) → l.flatMap f = l.flatMap g
  | [], _ => rfl
  | a :: l, h => by
    have ha := h a (by simp)
    have ih := flatMap_congr' (l := l) (fun x hx => h x (by simp [hx]))
    simp only [List.flatMap_cons, ha, ih]

theorem visitsP_child (s : Store) (cs : List Bytes) (nm : Bytes) (l : List (List Bytes × Ino × Bool)) :
    (l.map fun x => (nm :: x.1, x.2)).flatMap (visitsP s cs) = l.flatMap (visitsP s (cs ++ [nm])) := by
  rw [List.flatMap_map]
  apply flatMap_congr'
  intro x _
  simp [visitsP]

theorem readable_dir {s : Store} {v : View} {i : Ino} (h : readable s v i = true) : isDirAt s i = true := by
  unfold readable at h
  unfold isDirAt
  split at h <;> simp_all

theorem ContN.head' {n : Nat} {acts : List WAct} (h : ContN n acts) (hn : 0 < n) : acts.headD .cont = .cont := by
  obtain ⟨k, rfl⟩ : ∃ k, n = k + 1 := ⟨n - 1, by omega⟩
  exact h.head

theorem specWalkP_cont_leaf (n : Bytes) (k : Nat) (li : Bool) (ch : List PTree) (P : Bytes) (acts : List WAct)
    (hh : acts.headD .cont = .cont) (hk : (k == 0) = false) :
    specWalkP (.node n k li ch) P acts = ([(P, k, none)], acts.tail, .none) := by
  rw [specWalkP.eq_1, hh]
  simp [hk]

theorem specWalkP_cont_unl (n : Bytes) (ch : List PTree) (P : Bytes) (acts : List WAct)
    (hh : acts.headD .cont = .cont) (hh2 : acts.tail.headD .cont = .cont) :
    specWalkP (.node n 0 false ch) P acts = ([(P, 0, none), (P, 0, some .EACCES)], acts.tail.tail, .none) := by
  rw [specWalkP.eq_1, hh, hh2]
  simp [reportErr]

theorem specWalkP_cont_list (n : Bytes) (ch : List PTree) (P : Bytes) (acts : List WAct)
    (hh : acts.headD .cont = .cont) :
    specWalkP (.node n 0 true ch) P acts =
      ((P, 0, none) :: (specWalkListP ch P acts.tail).1, (specWalkListP ch P acts.tail).2.1,
        (specWalkListP ch P acts.tail).2.2) := by
  rw [specWalkP.eq_1, hh]
  simp

/-- the statement of `spec_contP` at fuel `f` -/
def ContAtP (s : Store) (v : View) (f : Nat) : Prop :=
  ∀ (i : Ino) (name : Bytes) (cs : List Bytes) (ok : Bool) (acts : List WAct),
    (∀ c ∈ cs, c ≠ [] ∧ ∀ x ∈ c, x ≠ SL) → (∀ c ∈ cs, c ≠ [DOT] ∧ c ≠ [DOT, DOT]) →
    ContN ((belowP s v f i ok).flatMap (visitsP s cs)).length acts →
    specWalkP (treeOfP s v f name i ok) (pathOf cs) acts =
      ((belowP s v f i ok).flatMap (visitsP s cs), acts.drop ((belowP s v f i ok).flatMap (visitsP s cs)).length, .none)

theorem specList_contP {s : Store} {v : View} (hn : NamesOK s) (hdf : DotFree s) (f : Nat) (IH : ContAtP s v f)
    (i : Ino) (ok' : Bool)
    (cs : List Bytes) (hall : ∀ c ∈ cs, c ≠ [] ∧ ∀ x ∈ c, x ≠ SL) (hdots : ∀ c ∈ cs, c ≠ [DOT] ∧ c ≠ [DOT, DOT]) :
    ∀ (L : List Bytes) (acts : List WAct),
      ContN ((L.flatMap (belowChildP s (fun c => belowP s v f c ok') i)).flatMap (visitsP s cs)).length acts →
      specWalkListP (L.filterMap fun n => (s.child i n).map fun c => treeOfP s v f n c ok') (pathOf cs) acts =
        ((L.flatMap (belowChildP s (fun c => belowP s v f c ok') i)).flatMap (visitsP s cs),
          acts.drop ((L.flatMap (belowChildP s (fun c => belowP s v f c ok') i)).flatMap (visitsP s cs)).length,
          .none) := by
  intro L
  induction L with
  | nil => intro acts _; simp [specWalkListP]
  | cons nm L ih =>
    intro acts hc
    cases hch : s.child i nm with
    | none =>
      have e1 : belowChildP s (fun c => belowP s v f c ok') i nm = [] := by simp [belowChildP, hch]
      rw [List.flatMap_cons, e1, List.nil_append] at hc ⊢
      simp only [List.filterMap_cons, hch, Option.map_none]
      exact ih acts hc
    | some c =>
      have e1 : belowChildP s (fun c => belowP s v f c ok') i nm =
          (belowP s v f c ok').map fun x => (nm :: x.1, x.2) := by
        simp [belowChildP, hch]
      rw [List.flatMap_cons, e1, List.flatMap_append, visitsP_child, List.length_append] at hc
      obtain ⟨hc1, hc2⟩ := hc.split
      obtain ⟨hall', hdots'⟩ := good_snoc hn hdf hall hdots hch
      have hchild := IH c nm (cs ++ [nm]) ok' acts hall' hdots' hc1
      simp only [List.filterMap_cons, hch, Option.map_some]
      rw [specWalkListP.eq_2, treeOfP_name, join_child cs nm hall' hdots', hchild]
      simp only [ih _ hc2]
      rw [List.flatMap_cons, e1, List.flatMap_append, visitsP_child, List.length_append, List.drop_drop]

theorem visitsP_one (s : Store) (cs : List Bytes) (x : List Bytes × Ino × Bool) (h : (kindOf s x.2.1 == 0 && !x.2.2) = false) :
    visitsP s cs x = [(pathOf (cs ++ x.1), kindOf s x.2.1, none)] := by
  simp [visitsP, h]

theorem visitsP_two (s : Store) (cs : List Bytes) (x : List Bytes × Ino × Bool) (h : (kindOf s x.2.1 == 0 && !x.2.2) = true) :
    visitsP s cs x = [(pathOf (cs ++ x.1), kindOf s x.2.1, none), (pathOf (cs ++ x.1), kindOf s x.2.1, some .EACCES)] := by
  simp [visitsP, h]

/-- a node that is not a listable directory: itself (and the report, for a directory) -/
theorem spec_contP_end {s : Store} (name : Bytes) (i : Ino) (ch : List PTree) (cs : List Bytes)
    (acts : List WAct) (hc : ContN (visitsP s cs ([], i, false)).length acts) :
    specWalkP (.node name (kindOf s i) false ch) (pathOf cs) acts =
      (visitsP s cs ([], i, false), acts.drop (visitsP s cs ([], i, false)).length, .none) := by
  by_cases hk : kindOf s i = 0
  · have e := visitsP_two s cs ([], i, false) (by simp [hk])
    rw [e] at hc ⊢
    have hc' : ContN 2 acts := hc
    rw [hk, specWalkP_cont_unl _ _ _ _ hc'.head hc'.tail.head]
    cases acts with
    | nil => simp [hk]
    | cons a l => cases l <;> simp [hk]
  · have hkb : (kindOf s i == 0) = false := by simpa using hk
    have e := visitsP_one s cs ([], i, false) (by simp [hkb])
    rw [e] at hc ⊢
    have hc' : ContN 1 acts := hc
    rw [specWalkP_cont_leaf _ _ _ _ _ _ hc'.head hkb]
    simp

theorem spec_contP {s : Store} {v : View} (hn : NamesOK s) (hdf : DotFree s) : ∀ f, ContAtP s v f := by
  intro f
  induction f with
  | zero =>
    intro i name cs ok acts hall hdots hc
    rw [treeOfP]
    cases hli : (ok && readable s v i) with
    | true =>
      have hd : isDirAt s i = true := readable_dir (by simp only [Bool.and_eq_true] at hli; exact hli.2)
      have hk := kindOf_dir.2 hd
      have e : (belowP s v 0 i ok).flatMap (visitsP s cs) = [(pathOf cs, 0, none)] := by
        simp [belowP, hli, visitsP, hk]
      rw [e] at hc ⊢
      have hc' : ContN 1 acts := hc
      rw [hk, specWalkP_cont_list _ _ _ _ hc'.head]
      simp [specWalkListP]
    | false =>
      have e : (belowP s v 0 i ok).flatMap (visitsP s cs) = visitsP s cs ([], i, false) := by
        simp [belowP, hli]
      rw [e] at hc ⊢
      exact spec_contP_end name i [] cs acts hc
  | succ f IH =>
    intro i name cs ok acts hall hdots hc
    rw [treeOfP.eq_2]
    cases hli : (ok && readable s v i) with
    | true =>
      have hd : isDirAt s i = true := readable_dir (by simp only [Bool.and_eq_true] at hli; exact hli.2)
      have hk := kindOf_dir.2 hd
      have e : (belowP s v (f + 1) i ok).flatMap (visitsP s cs) = (pathOf cs, 0, none) ::
          ((s.names i).flatMap (belowChildP s (fun c => belowP s v f c (searchable s v i)) i)).flatMap (visitsP s cs) := by
        simp [belowP, hli, visitsP, hk]
      rw [e] at hc ⊢
      rw [List.length_cons] at hc
      have hl := specList_contP hn hdf f IH i (searchable s v i) cs hall hdots (s.names i) acts.tail hc.tail
      rw [hk, specWalkP_cont_list _ _ _ _ hc.head, hl]
      simp
    | false =>
      have e : (belowP s v (f + 1) i ok).flatMap (visitsP s cs) = visitsP s cs ([], i, false) := by
        simp [belowP, hli]
      rw [e] at hc ⊢
      exact spec_contP_end name i _ cs acts hc


/-! #### membership: `belowP` lists exactly what `descendP` reaches -/

theorem mem_belowChildP {s : Store} {rec : Ino → List (List Bytes × Ino × Bool)} {i : Ino} {n : Bytes}
    {x : List Bytes × Ino × Bool} :
    x ∈ belowChildP s rec i n ↔ ∃ c y, s.child i n = some c ∧ y ∈ rec c ∧ x = (n :: y.1, y.2) := by
  unfold belowChildP
  cases hc : s.child i n with
  | none => simp
  | some c =>
    simp only [List.mem_map, Option.some.injEq]
    constructor
    · rintro ⟨y, hy, rfl⟩; exact ⟨c, y, rfl, hy, rfl⟩
    · rintro ⟨c', y, rfl, hy, rfl⟩; exact ⟨y, hy, rfl⟩

theorem mem_belowP_succ {s : Store} {v : View} {f : Nat} {i : Ino} {ok : Bool} {x : List Bytes × Ino × Bool} :
    x ∈ belowP s v (f + 1) i ok ↔ x = ([], i, ok && readable s v i) ∨
      ((ok && readable s v i) = true ∧
        ∃ n c y, s.child i n = some c ∧ y ∈ belowP s v f c (searchable s v i) ∧ x = (n :: y.1, y.2)) := by
  rw [belowP, List.mem_cons]
  cases hli : (ok && readable s v i) with
  | false => simp
  | true =>
    simp only [if_true, List.mem_flatMap, true_and]
    constructor
    · rintro (h | ⟨n, _, hx⟩)
      · exact Or.inl h
      · obtain ⟨c, y, hc, hy, rfl⟩ := mem_belowChildP.1 hx
        exact Or.inr ⟨n, c, y, hc, hy, rfl⟩
    · rintro (h | ⟨n, c, y, hc, hy, rfl⟩)
      · exact Or.inl h
      · exact Or.inr ⟨n, (mem_names s i n).2 (by simp [hc]), mem_belowChildP.2 ⟨c, y, hc, hy, rfl⟩⟩

/-- whatever the fuel, `belowP` lists only what `descendP` reaches -/
theorem belowP_sound (s : Store) (v : View) : ∀ (f : Nat) (i : Ino) (ok : Bool) (ds : List Bytes) (j : Ino) (fl : Bool),
    (ds, j, fl) ∈ belowP s v f i ok → descendP s v i ok ds = some (j, fl) := by
  intro f
  induction f with
  | zero =>
    intro i ok ds j fl h
    simp only [belowP, List.mem_singleton, Prod.mk.injEq] at h
    obtain ⟨rfl, rfl, rfl⟩ := h
    rfl
  | succ f ih =>
    intro i ok ds j fl h
    rcases mem_belowP_succ.1 h with h | ⟨hli, n, c, y, hc, hy, h⟩
    · simp only [Prod.mk.injEq] at h
      obtain ⟨rfl, rfl, rfl⟩ := h
      rfl
    · obtain ⟨y1, y2, y3⟩ := y
      simp only [Prod.mk.injEq] at h
      obtain ⟨rfl, rfl, rfl⟩ := h
      have := ih c _ _ _ _ hy
      simp [descendP, hli, hc, this]

/-- with enough fuel, `belowP` lists everything `descendP` reaches -/
theorem belowP_complete {s : Store} {root : Ino} (v : View) (hwf : WF s root) (depth : Ino → Nat)
    (hdepth : ∀ d n c, Edge s d n c → isDirAt s c = true → depth c = depth d + 1) :
    ∀ (f : Nat) (i : Ino) (ok : Bool) (ds : List Bytes) (j : Ino) (fl : Bool),
      (isDirAt s i = true → pot s depth i + 1 ≤ f) →
      descendP s v i ok ds = some (j, fl) → (ds, j, fl) ∈ belowP s v f i ok := by
  intro f
  induction f with
  | zero =>
    intro i ok ds j fl hb h
    have hnd : isDirAt s i = false := by
      cases hd : isDirAt s i with
      | false => rfl
      | true => have := hb hd; omega
    cases ds with
    | nil =>
      simp only [descendP, Option.some.injEq, Prod.mk.injEq] at h
      obtain ⟨rfl, rfl⟩ := h
      simp [belowP]
    | cons n ns => simp [descendP, hr_child_of_not_dir hnd] at h
  | succ f ih =>
    intro i ok ds j fl hb h
    cases ds with
    | nil =>
      simp only [descendP, Option.some.injEq, Prod.mk.injEq] at h
      obtain ⟨rfl, rfl⟩ := h
      simp [belowP]
    | cons n ns =>
      cases hli : (ok && readable s v i) with
      | false => simp [descendP, hli] at h
      | true =>
        cases hc : s.child i n with
        | none => simp [descendP, hc] at h
        | some c =>
          simp only [descendP, hli, if_true, hc, Option.bind_some] at h
          refine mem_belowP_succ.2 (Or.inr ⟨hli, n, c, (ns, j, fl), hc, ih c _ ns j fl ?_ h, rfl⟩)
          intro hcd
          have hp := pot_edge hwf depth hdepth hc hcd
          have := hb (hr_isDir_of_edge hc)
          omega

theorem belowP_sorted (s : Store) (v : View) : ∀ (f : Nat) (i : Ino) (ok : Bool),
    (belowP s v f i ok).Pairwise fun x y => compLt x.1 y.1 := by
  intro f
  induction f with
  | zero => intro i ok; simp [belowP]
  | succ f ih =>
    intro i ok
    rw [belowP, List.pairwise_cons]
    cases hli : (ok && readable s v i) with
    | false => simp
    | true =>
      simp only [if_true]
      constructor
      · intro y hy
        obtain ⟨n, _, hy⟩ := List.mem_flatMap.1 hy
        obtain ⟨c, z, _, _, rfl⟩ := mem_belowChildP.1 hy
        simp [compLt]
      · rw [List.pairwise_flatMap]
        constructor
        · intro n _
          unfold belowChildP
          cases s.child i n with
          | none => simp
          | some c =>
            apply List.Pairwise.map _ _ (ih c _)
            intro a b hab
            exact Or.inr ⟨rfl, hab⟩
        · apply List.Pairwise.imp _ (names_sorted s i)
          intro n1 n2 hlt x hx y hy
          obtain ⟨_, z1, _, _, rfl⟩ := mem_belowChildP.1 hx
          obtain ⟨_, z2, _, _, rfl⟩ := mem_belowChildP.1 hy
          exact Or.inl hlt

theorem belowP_head (s : Store) (v : View) (f : Nat) (i : Ino) (ok : Bool) :
    (belowP s v f i ok).head? = some ([], i, ok && readable s v i) := by
  cases f <;> simp [belowP]

/-! #### `descendP`: what it reaches -/

/-- what the caller reaches is an entry: `descendP` is `descend` restricted to listable directories -/
theorem descendP_descend (s : Store) (v : View) : ∀ (ds : List Bytes) (i : Ino) (ok : Bool) (j : Ino) (fl : Bool),
    descendP s v i ok ds = some (j, fl) → descend s i ds = some j := by
  intro ds
  induction ds with
  | nil => intro i ok j fl h; simp only [descendP, Option.some.injEq, Prod.mk.injEq] at h; simp [descend, h.1]
  | cons n ns ih =>
    intro i ok j fl h
    cases hli : (ok && readable s v i) with
    | false => simp [descendP, hli] at h
    | true =>
      cases hc : s.child i n with
      | none => simp [descendP, hc] at h
      | some c =>
        simp only [descendP, hli, if_true, hc, Option.bind_some] at h
        simp [descend, hc, ih c _ j fl h]

theorem descendP_append (s : Store) (v : View) : ∀ (a b : List Bytes) (i : Ino) (ok : Bool),
    descendP s v i ok (a ++ b) = (descendP s v i ok a).bind fun x => descendP s v x.1 x.2 b := by
  intro a
  induction a with
  | nil =>
    intro b i ok
    cases b with
    | nil => simp [descendP]
    | cons n ns => simp [descendP]
  | cons n ns ih =>
    intro b i ok
    simp only [List.cons_append, descendP]
    cases hli : (ok && readable s v i) with
    | false => simp
    | true =>
      simp only [if_true]
      cases s.child i n with
      | none => rfl
      | some c => simp [ih]

/-- an entry is reached exactly when the directory that holds it is reached and listable; the entry is then a listable
    directory when that directory is searchable and the entry is a directory the caller may read -/
theorem descendP_snoc (s : Store) (v : View) (i : Ino) (ok : Bool) (t : List Bytes) (n : Bytes) (j : Ino) (fl : Bool) :
    descendP s v i ok (t ++ [n]) = some (j, fl) ↔
      ∃ d, descendP s v i ok t = some (d, true) ∧ s.child d n = some j ∧ fl = (searchable s v d && readable s v j) := by
  rw [descendP_append]
  cases h : descendP s v i ok t with
  | none => simp
  | some x =>
    obtain ⟨d, fd⟩ := x
    have hfd : (fd && readable s v d) = fd := by
      -- the flag of a reached node already contains its read permission
      have : ∀ (ds : List Bytes) (i : Ino) (ok : Bool), descendP s v i ok ds = some (d, fd) → (fd && readable s v d) = fd := by
        intro ds
        induction ds with
        | nil =>
          intro i ok h
          simp only [descendP, Option.some.injEq, Prod.mk.injEq] at h
          obtain ⟨rfl, rfl⟩ := h
          cases ok <;> cases readable s v i <;> rfl
        | cons m ms ih =>
          intro i ok h
          cases hli : (ok && readable s v i) with
          | false => simp [descendP, hli] at h
          | true =>
            cases hc : s.child i m with
            | none => simp [descendP, hc] at h
            | some c =>
              simp only [descendP, hli, if_true, hc, Option.bind_some] at h
              exact ih c _ h
      exact this t i ok h
    have key : descendP s v d fd [n] =
        if fd then (s.child d n).map (fun c => (c, searchable s v d && readable s v c)) else none := by
      simp only [descendP, hfd]
      cases fd with
      | false => simp
      | true => cases s.child d n <;> simp
    show descendP s v d fd [n] = some (j, fl) ↔ _
    rw [key]
    cases fd with
    | false => simp
    | true =>
      simp only [if_true]
      constructor
      · intro h2
        cases hc : s.child d n with
        | none => simp [hc] at h2
        | some c =>
          simp only [hc, Option.map_some, Option.some.injEq, Prod.mk.injEq] at h2
          obtain ⟨rfl, rfl⟩ := h2
          exact ⟨d, rfl, hc, rfl⟩
      · rintro ⟨d', hd', hcj, rfl⟩
        cases hd'
        simp [hcj]

/-- nothing is reached below a node that is not a listable directory -/
theorem descendP_below_unlistable (s : Store) (v : View) (i : Ino) (ok : Bool) (t e : List Bytes) (j : Ino)
    (h : descendP s v i ok t = some (j, false)) (he : e ≠ []) : descendP s v i ok (t ++ e) = none := by
  rw [descendP_append, h]
  cases e with
  | nil => exact absurd rfl he
  | cons n ns => simp [descendP]

/-- the nodes the caller reaches at and below `c` in the order of the walk: `belowP` with the fuel of `Store.treeP` -/
def Store.belowP (s : Store) (v : View) (c : Ino) : List (List Bytes × Ino × Bool) :=
  Avfs.FS.belowP s v (s.next + 1) c true

/-- With a callback that always continues, WalkDir — by ANY caller, on a well-formed heap, from a clean absolute root
    that resolves for the caller without meeting a link — returns nil, and its calls of the callback are
    `L.flatMap (visitsP s cs)` for the list `L = s.belowP v c` of (names below the root, node, listable), where
    * `L` is exactly the set of triples with `descendP s v c true names = some (node, listable)`: the root and every
      entry reachable below it through directories the caller can list (`descendP_snoc`), symbolic links as entries;
      nothing below an unlistable directory (`descendP_below_unlistable`); a subset of the administrator's walk
      (`descendP_descend`);
    * `L` is strictly increasing in the lexicographic order of the name lists (lexical pre-order), the root first, and
      no path appears twice in it;
    * each element of `L` is visited once (path, kind, no error), and a DIRECTORY of `L` that is not listable is
      reported once more, right after its visit, with EACCES (`visitsP`). -/
theorem walkDirTopP_all_cont (s : Store) (root : Ino) (v : View) (hwf : WF s root) (hn : NamesOK s) (hdf : DotFree s)
    (hvr : ∃ m ch, s.get v.root = some (.dir m ch)) (vid : Nat) (cs : List Bytes)
    (hall : ∀ c ∈ cs, c ≠ [] ∧ ∀ x ∈ c, x ≠ SL) (hdots : ∀ c ∈ cs, c ≠ [DOT] ∧ c ≠ [DOT, DOT])
    (par c : Ino) (hw : walkPath s v v.root cs = .found par c) (acts : List WAct) (hacts : ∀ a ∈ acts, a = .cont) :
    walkDirTop s v vid (pathOf cs) acts =
      (⟨acts.drop ((s.belowP v c).flatMap (visitsP s cs)).length, (s.belowP v c).flatMap (visitsP s cs)⟩, .none) ∧
    (∀ ds j fl, (ds, j, fl) ∈ s.belowP v c ↔ descendP s v c true ds = some (j, fl)) ∧
    (s.belowP v c).Pairwise (fun x y => compLt x.1 y.1) ∧
    (s.belowP v c).head? = some ([], c, readable s v c) ∧
    ((s.belowP v c).map fun x => pathOf (cs ++ x.1)).Nodup := by
  obtain ⟨depth, hdepth⟩ := hwf.depth
  have hmem : ∀ ds j fl, (ds, j, fl) ∈ s.belowP v c ↔ descendP s v c true ds = some (j, fl) := by
    intro ds j fl
    constructor
    · exact belowP_sound s v _ c true ds j fl
    · apply belowP_complete v hwf depth hdepth
      intro _
      have := pot_le s depth c
      omega
  have hsorted := belowP_sorted s v (s.next + 1) c true
  refine ⟨?_, hmem, hsorted, by unfold Store.belowP; rw [belowP_head]; simp, ?_⟩
  · rw [walkDirTopP_eq_spec s root v hwf hn hdf hvr vid cs hall hdots par c hw acts]
    have h := spec_contP (v := v) hn hdf (s.next + 1) c (cs.getLastD []) cs true acts hall hdots (ContN.of_all hacts _)
    simp only [specWalkTopP, Store.treeP, h, Store.belowP]
    rfl
  · unfold List.Nodup
    rw [List.pairwise_map]
    apply List.Pairwise.imp_of_mem _ hsorted
    intro a b ha hb hab heq
    obtain ⟨ga, _⟩ := descend_good hn hdf a.1 c a.2.1 (descendP_descend s v a.1 c true a.2.1 a.2.2 ((hmem a.1 a.2.1 a.2.2).1 ha))
    obtain ⟨gb, _⟩ := descend_good hn hdf b.1 c b.2.1 (descendP_descend s v b.1 c true b.2.1 b.2.2 ((hmem b.1 b.2.1 b.2.2).1 hb))
    have hall2 : ∀ (l : List Bytes), (∀ x ∈ l, x ≠ [] ∧ ∀ y ∈ x, y ≠ SL) → ∀ x ∈ cs ++ l, x ≠ [] ∧ ∀ y ∈ x, y ≠ SL := by
      intro l hl x hx
      rcases List.mem_append.1 hx with h | h
      · exact hall x h
      · exact hl x h
    have := pathOf_inj (hall2 a.1 ga) (hall2 b.1 gb) heq
    have hab' : a.1 = b.1 := List.append_cancel_left this
    rw [hab'] at hab
    exact compLt_irrefl _ hab


/-! ### the flagged tree does not depend on the fuel -/

theorem treeOfP_stable {s : Store} {root : Ino} (v : View) (hwf : WF s root) (depth : Ino → Nat)
    (hdepth : ∀ d n c, Edge s d n c → isDirAt s c = true → depth c = depth d + 1) :
    ∀ (f f' : Nat) (n : Bytes) (i : Ino) (ok : Bool),
      (isDirAt s i = true → pot s depth i + 1 ≤ f ∧ pot s depth i + 1 ≤ f') →
      treeOfP s v f n i ok = treeOfP s v f' n i ok := by
  intro f
  induction f with
  | zero =>
    intro f' n i ok h
    have hnd : isDirAt s i = false := by
      cases hd : isDirAt s i with
      | false => rfl
      | true => have := (h hd).1; omega
    cases f' with
    | zero => rfl
    | succ f' => simp [treeOfP, names_of_not_dir hnd]
  | succ f ih =>
    intro f' n i ok h
    cases f' with
    | zero =>
      have hnd : isDirAt s i = false := by
        cases hd : isDirAt s i with
        | false => rfl
        | true => have := (h hd).2; omega
      simp [treeOfP, names_of_not_dir hnd]
    | succ f' =>
      rw [treeOfP.eq_2, treeOfP.eq_2]
      congr 1
      apply filterMap_congr'
      intro nm hnm
      cases hc : s.child i nm with
      | none => rfl
      | some c =>
        simp only [Option.map_some]
        congr 1
        apply ih
        intro hcd
        have hid : isDirAt s i = true := hr_isDir_of_edge hc
        have hp := pot_edge hwf depth hdepth hc hcd
        have := h hid
        omega

/-- the tree below a node as the caller sees it, without fuel: the node, "listable" = the path resolves and the caller
    may read it, and below it the trees of its entries in name order, whose paths resolve when the caller may search
    the node -/
theorem treeP_unfold {s : Store} {root : Ino} (v : View) (hwf : WF s root) (n : Bytes) (i : Ino) (ok : Bool) :
    treeOfP s v (s.next + 1) n i ok =
      .node n (kindOf s i) (ok && readable s v i)
        ((s.names i).filterMap fun nm => (s.child i nm).map fun c => treeOfP s v (s.next + 1) nm c (searchable s v i)) := by
  obtain ⟨depth, hdepth⟩ := hwf.depth
  rw [treeOfP.eq_2]
  congr 1
  apply filterMap_congr'
  intro nm hnm
  cases hc : s.child i nm with
  | none => rfl
  | some c =>
    simp only [Option.map_some]
    congr 1
    apply treeOfP_stable v hwf depth hdepth
    intro hcd
    have hid : isDirAt s i = true := hr_isDir_of_edge hc
    have hp := pot_edge hwf depth hdepth hc hcd
    have := pot_le s depth i
    omega

end Avfs.FS
