import Avfs.Lemmas.NameiLinks
import Avfs.Lemmas.StepBase
/-
  The hypothesis `LinksOK` of `searchNode_eq_namei` is an INVARIANT of MemFS: every call of the model keeps
  "every symbolic-link node of the heap has an admissible target" (`AllLinksOK`, which implies `LinksOK`), because the
  only link targets ever stored are `Clean(oldname)` (Symlink) and "" (a deleted node).  Hence it holds in every
  state reachable from `memfs.New()`.
-/
set_option linter.unusedVariables false
set_option linter.unusedSimpArgs false

namespace Avfs.FS
open Avfs.Path Avfs.Path.Spec

def nodeOK : Node → Prop
  | .symlink _ t => targetOK t = true
  | _ => True

/-- every node bound in the heap (shadowed bindings included) that is a symbolic link has an admissible target -/
def AllLinksOK (s : Store) : Prop := ∀ e ∈ s.nodes, nodeOK e.2

theorem AllLinksOK.get {s : Store} (h : AllLinksOK s) {i : Ino} {n : Node} (hg : s.get i = some n) : nodeOK n :=
  h (i, n) (AL.lookup_some_mem hg)

theorem AllLinksOK.linksOK {s : Store} (h : AllLinksOK s) : LinksOK s :=
  fun _ _ _ _ _ _ hg => h.get hg

theorem AllLinksOK.set {s : Store} (h : AllLinksOK s) {n : Node} (hn : nodeOK n) (i : Ino) :
    AllLinksOK (s.set i n) := by
  intro e he
  simp only [Store.set, AL.insert, List.mem_cons] at he
  rcases he with rfl | he
  · exact hn
  · exact h e he

theorem AllLinksOK.alloc {s : Store} (h : AllLinksOK s) {n : Node} (hn : nodeOK n) : AllLinksOK (s.alloc n).1 := by
  intro e he
  simp only [Store.alloc, AL.insert, List.mem_cons] at he
  rcases he with rfl | he
  · exact hn
  · exact h e he

theorem AllLinksOK.set_dir {s : Store} (h : AllLinksOK s) (i : Ino) (m : Meta) (ch : List (Bytes × Ino)) :
    AllLinksOK (s.set i (.dir m ch)) := h.set (n := .dir m ch) trivial i

theorem AllLinksOK.set_file {s : Store} (h : AllLinksOK s) (i : Ino) (m : Meta) (d : Bytes) (nl : Int) (id : Nat) :
    AllLinksOK (s.set i (.file m d nl id)) := h.set (n := .file m d nl id) trivial i

theorem AllLinksOK.lastId {s : Store} (h : AllLinksOK s) (k : Nat) : AllLinksOK { s with lastId := k } := h

theorem nodeOK_setMeta {n : Node} (h : nodeOK n) (m : Meta) : nodeOK (n.setMeta m) := by
  cases n <;> exact h

theorem nodeOK_setMode {n n' : Node} {mode : Nat} {v : View} (h : nodeOK n) (hs : setMode n mode v = some n') :
    nodeOK n' := by
  unfold setMode at hs
  split at hs
  · cases hs
  · dsimp only at hs
    split at hs
    · cases hs
    · cases hs; exact nodeOK_setMeta h _

theorem AllLinksOK.addChild {s : Store} (h : AllLinksOK s) (p : Ino) (n : Bytes) (c : Ino) :
    AllLinksOK (addChild s p n c) := by
  unfold Avfs.FS.addChild
  split
  · exact h.set_dir _ _ _
  · exact h

theorem AllLinksOK.removeChild {s : Store} (h : AllLinksOK s) (p : Ino) (n : Bytes) :
    AllLinksOK (removeChild s p n) := by
  unfold Avfs.FS.removeChild
  split
  · exact h.set_dir _ _ _
  · exact h

theorem AllLinksOK.deleteNode {s : Store} (h : AllLinksOK s) (i : Ino) : AllLinksOK (deleteNode s i) := by
  unfold Avfs.FS.deleteNode
  split
  · exact h.set_dir _ _ _
  · exact h.set_file _ _ _ _ _
  · exact h.set (n := .symlink _ []) (by show targetOK [] = true; decide) _
  · exact h

theorem AllLinksOK.createDir {s : Store} (h : AllLinksOK s) (v : View) (p : Ino) (n : Bytes) (perm : Nat) :
    AllLinksOK (createDir s v p n perm).1 := by
  unfold Avfs.FS.createDir
  exact (h.alloc (n := .dir _ []) trivial).addChild _ _ _

theorem AllLinksOK.createFile {s : Store} (h : AllLinksOK s) (v : View) (p : Ino) (n : Bytes) (perm : Nat) :
    AllLinksOK (createFile s v p n perm).1 := by
  unfold Avfs.FS.createFile
  exact ((h.lastId _).alloc (n := .file _ [] 1 _) trivial).addChild _ _ _

theorem AllLinksOK.createSymlink {s : Store} (h : AllLinksOK s) (v : View) (p : Ino) (n t : Bytes)
    (ht : targetOK t = true) : AllLinksOK (createSymlink s v p n t).1 := by
  unfold Avfs.FS.createSymlink
  exact (h.alloc (n := .symlink _ t) ht).addChild _ _ _

/-! ### the calls -/

theorem allOK_mkdir {s : Store} (h : AllLinksOK s) (v : View) (p : Bytes) (perm : Nat) :
    AllLinksOK (mkdir s v p perm).1 := by
  unfold mkdir
  dsimp only
  repeat' split
  all_goals first | exact h | exact h.createDir _ _ _ _

theorem allOK_mkdirAllLoop (v : View) (perm : Nat) : ∀ (fuel : Nat) (s : Store) (dn : Ino) (it : Iter),
    AllLinksOK s → AllLinksOK (mkdirAllLoop v perm fuel s dn it) := by
  intro fuel
  induction fuel with
  | zero => intro s dn it h; exact h
  | succ fuel ih =>
    intro s dn it h
    rw [mkdirAllLoop]
    dsimp only
    repeat' split
    all_goals first | exact h | exact h.createDir _ _ _ _ | exact ih _ _ _ (h.createDir _ _ _ _)

theorem allOK_mkdirAll {s : Store} (h : AllLinksOK s) (v : View) (p : Bytes) (perm : Nat) :
    AllLinksOK (mkdirAll s v p perm).1 := by
  unfold mkdirAll
  dsimp only
  repeat' split
  all_goals first | exact h | exact allOK_mkdirAllLoop _ _ _ _ _ _ h

theorem allOK_openFile {s : Store} (h : AllLinksOK s) (v : View) (vid : Nat) (p : Bytes) (flag perm : Nat) :
    AllLinksOK (openFile s v vid p flag perm).1 := by
  unfold openFile
  dsimp only
  repeat' split
  all_goals first | exact h | exact h.createFile _ _ _ _ | exact h.set_file _ _ _ _ _

theorem allOK_chmod {s : Store} (h : AllLinksOK s) (v : View) (p : Bytes) (mode : Nat) :
    AllLinksOK (chmod s v p mode).1 := by
  unfold chmod
  dsimp only
  repeat' split
  all_goals first | exact h | exact h.set (nodeOK_setMode (h.get (by assumption)) (by assumption)) _

theorem allOK_chown {s : Store} (h : AllLinksOK s) (v : View) (p : Bytes) (uid gid : Int) (m : SlMode) :
    AllLinksOK (chown s v p uid gid m).1 := by
  unfold chown
  dsimp only
  repeat' split
  all_goals first | exact h | exact h.set (nodeOK_setMeta (h.get (by assumption)) _) _

theorem allOK_chtimes {s : Store} (h : AllLinksOK s) (v : View) (p : Bytes) (t : Int) :
    AllLinksOK (chtimes s v p t).1 := by
  unfold chtimes
  dsimp only
  repeat' split
  all_goals first | exact h | exact h.set (nodeOK_setMeta (h.get (by assumption)) _) _

theorem allOK_link {s : Store} (h : AllLinksOK s) (v : View) (o n : Bytes) : AllLinksOK (link s v o n).1 := by
  unfold link
  dsimp only
  repeat' split
  all_goals first | exact h | exact (h.addChild _ _ _).set_file _ _ _ _ _

theorem allOK_symlink {s : Store} (h : AllLinksOK s) (v : View) (o n : Bytes) : AllLinksOK (symlink s v o n).1 := by
  unfold symlink
  dsimp only
  repeat' split
  all_goals first | exact h | exact h.createSymlink _ _ _ _ (targetOK_clean o)

theorem allOK_remove {s : Store} (h : AllLinksOK s) (v : View) (p : Bytes) : AllLinksOK (remove s v p).1 := by
  unfold remove
  dsimp only
  repeat' split
  all_goals first | exact h | exact (h.removeChild _ _).deleteNode _

theorem allOK_removeAllRec (v : View) : ∀ (fuel : Nat) (s : Store) (d : Ino), AllLinksOK s →
    AllLinksOK (removeAllRec v fuel s d).1 := by
  intro fuel
  induction fuel with
  | zero => intro s d h; rw [removeAllRec]; exact h
  | succ fuel ih =>
    intro s d h
    have hgo : ∀ (L : List Bytes) (s : Store), AllLinksOK s → AllLinksOK (removeAllRec.go v fuel d s L).1 := by
      intro L
      induction L with
      | nil => intro s h; rw [removeAllRec.go]; exact h
      | cons nm rest ihL =>
        intro s h
        rw [removeAllRec.go]
        split
        · exact ihL s h
        · split
          · have := ih s ‹Ino› h
            generalize removeAllRec v fuel s ‹Ino› = r at *
            obtain ⟨s1, e⟩ := r
            cases e with
            | some e => exact this
            | none =>
              dsimp only
              split
              · exact this
              · exact ihL _ ((AllLinksOK.deleteNode this _).removeChild _ _)
          · split
            · exact h
            · exact ihL _ ((h.deleteNode _).removeChild _ _)
    rw [removeAllRec]
    split
    · exact h
    · exact hgo _ s h

theorem allOK_ite {β : Type} {c : Prop} [Decidable c] {a b : Store × β} (ha : AllLinksOK a.1) (hb : AllLinksOK b.1) :
    AllLinksOK (if c then a else b).1 := by
  split <;> assumption

theorem allOK_rename {s : Store} (h : AllLinksOK s) (v : View) (o n : Bytes) : AllLinksOK (rename s v o n).1 := by
  unfold rename
  generalize searchNode s v o .lstat = ro
  generalize searchNode s v n .lstat = rn
  dsimp only
  have hmove : AllLinksOK (removeChild (addChild s rn.parent (partOf rn.pi) (ro.child.getD 0)) ro.parent (partOf ro.pi)) :=
    (h.addChild _ _ _).removeChild _ _
  refine allOK_ite h (allOK_ite h (allOK_ite h (allOK_ite h (allOK_ite h (allOK_ite h ?_)))))
  cases ro.child with
  | none => exact h
  | some oc =>
    dsimp only
    refine allOK_ite h (allOK_ite h ?_)
    have hmv : AllLinksOK (removeChild (addChild s rn.parent (partOf rn.pi) oc) ro.parent (partOf ro.pi)) :=
      (h.addChild _ _ _).removeChild _ _
    have hrest : AllLinksOK (match rn.child with
        | none => (removeChild (addChild s rn.parent (partOf rn.pi) oc) ro.parent (partOf ro.pi), Out.ok Val.unit)
        | some nc =>
          if (rn.err == SErr.noent) = true then
            (removeChild (addChild s rn.parent (partOf rn.pi) oc) ro.parent (partOf ro.pi), Out.ok Val.unit)
          else
            match s.get nc with
            | some (Node.file m data nlink id) =>
              if (nc == oc) = true then (s, Out.ok Val.unit)
              else (removeChild (addChild (deleteNode s nc) rn.parent (partOf rn.pi) oc) ro.parent (partOf ro.pi), Out.ok Val.unit)
            | some (Node.symlink m link) =>
              (removeChild (addChild (deleteNode s nc) rn.parent (partOf rn.pi) oc) ro.parent (partOf ro.pi), Out.ok Val.unit)
            | x => (s, Out.err Err.EEXIST)).1 := by
      cases rn.child with
      | none => exact hmv
      | some nc =>
        dsimp only
        refine allOK_ite hmv ?_
        have hdel : AllLinksOK (removeChild (addChild (deleteNode s nc) rn.parent (partOf rn.pi) oc) ro.parent (partOf ro.pi)) :=
          ((h.deleteNode _).addChild _ _ _).removeChild _ _
        cases s.get nc with
        | none => exact h
        | some nd =>
          cases nd with
          | dir _ _ => exact h
          | file _ _ _ _ => exact allOK_ite h hdel
          | symlink _ _ => exact hdel
    cases s.get oc with
    | none => exact h
    | some nd =>
      cases nd with
      | dir _ _ => exact allOK_ite h (allOK_ite h hmv)
      | file _ _ _ _ => exact hrest
      | symlink _ _ => exact hrest

theorem allOK_removeAll {s : Store} (h : AllLinksOK s) (v : View) (p : Bytes) : AllLinksOK (removeAll s v p).1 := by
  unfold removeAll
  generalize searchNode s v p .lstat = r
  dsimp only
  refine allOK_ite h (allOK_ite h ?_)
  cases r.child with
  | none => cases r.err <;> exact h
  | some c =>
    cases r.err <;> try exact h
    dsimp only
    refine allOK_ite h ?_
    have hX : AllLinksOK (if (match s.get c with
          | some (Node.dir m ch) => (alKeys ch).length != 0
          | x => false) = true then removeAllRec v s.next s c else (s, none)).1 :=
      allOK_ite (allOK_removeAllRec v _ s c h) h
    generalize (if (match s.get c with
          | some (Node.dir m ch) => (alKeys ch).length != 0
          | x => false) = true then removeAllRec v s.next s c else (s, none)) = q at hX
    obtain ⟨s1, e⟩ := q
    cases e with
    | some e => exact hX
    | none => exact allOK_ite hX (allOK_ite hX ((AllLinksOK.removeChild hX _ _).deleteNode _))

theorem allOK_truncate {s : Store} (h : AllLinksOK s) (v : View) (p : Bytes) (size : Int) :
    AllLinksOK (truncate s v p size).1 := by
  unfold truncate
  dsimp only
  repeat' split
  all_goals first | exact h | exact h.set_file _ _ _ _ _

theorem allOK_fileStep {s : Store} (h : AllLinksOK s) (v : View) (hd : Handle) (op : FOp) :
    AllLinksOK (fileStep s v hd op).1 := by
  cases op <;> simp only [fileStep] <;> repeat' split
  all_goals first
    | exact h
    | exact h.set_file _ _ _ _ _
    | exact h.set (nodeOK_setMode (h.get (by assumption)) (by assumption)) _
    | exact h.set (nodeOK_setMeta (h.get (by assumption)) _) _

theorem allOK_stat {s : Store} (h : AllLinksOK s) (v : View) (p : Bytes) (m : SlMode) :
    AllLinksOK (stat s v p m).1 := by
  unfold stat
  dsimp only
  repeat' split
  all_goals exact h

theorem allOK_readlink {s : Store} (h : AllLinksOK s) (v : View) (p : Bytes) : AllLinksOK (readlink s v p).1 := by
  unfold readlink
  dsimp only
  repeat' split
  all_goals exact h

theorem allOK_evalSymlinks {s : Store} (h : AllLinksOK s) (v : View) (p : Bytes) :
    AllLinksOK (evalSymlinks s v p).1 := by
  unfold evalSymlinks
  dsimp only
  repeat' split
  all_goals exact h

theorem allOK_registerHandle (st : FSState) {s1 : Store} (h : AllLinksOK s1) (r : Except Err Handle) :
    AllLinksOK (registerHandle st s1 r).1.store := by
  cases r <;> exact h

/-- every call of the model keeps the invariant -/
theorem allOK_step (st : FSState) (vid : Nat) (c : Call) (h : AllLinksOK st.store) :
    AllLinksOK (step st vid c).1.store := by
  cases hv : st.view vid with
  | none => rw [step_none st vid c hv]; exact h
  | some v =>
    rw [step_some st vid v c hv]
    cases c with
    | mkdir p perm => exact allOK_mkdir h v p perm
    | mkdirAll p perm => exact allOK_mkdirAll h v p perm
    | openFile p flag perm => exact allOK_registerHandle st (allOK_openFile h v vid p flag perm) _
    | create p => exact allOK_registerHandle st (allOK_openFile h v vid p _ _) _
    | remove p => exact allOK_remove h v p
    | removeAll p => exact allOK_removeAll h v p
    | rename o n => exact allOK_rename h v o n
    | link o n => exact allOK_link h v o n
    | symlink o n => exact allOK_symlink h v o n
    | truncate p sz => exact allOK_truncate h v p sz
    | chmod p m => exact allOK_chmod h v p m
    | chown p u g => exact allOK_chown h v p u g .eval
    | lchown p u g => exact allOK_chown h v p u g .lstat
    | chtimes p t => exact allOK_chtimes h v p t
    | chdir p => exact h
    | stat p => exact allOK_stat h v p .stat
    | lstat p => exact allOK_stat h v p .lstat
    | readDir p => exact h
    | readFile p => exact h
    | readlink p => exact allOK_readlink h v p
    | evalSymlinks p => exact allOK_evalSymlinks h v p
    | getwd => exact h
    | writeFile p data perm =>
      simp only [stepV, writeFileV]
      have h1 := allOK_openFile h v vid p oWRONLY_CREATE_TRUNC perm
      generalize openFile st.store v vid p oWRONLY_CREATE_TRUNC perm = r at h1
      obtain ⟨s1, e⟩ := r
      cases e with
      | error e => exact h1
      | ok hd => exact allOK_fileStep h1 v hd (.write data)
    | mkdirTemp dir pat rnd =>
      simp only [stepV, mkdirTempV]
      split
      · exact h
      · split
        · rename_i heq
          have h1 := congrArg (fun r => AllLinksOK r.1) heq
          exact h1 ▸ allOK_mkdir h v _ 0o700
        · exact h
        · exact h
    | createTemp dir pat rnd =>
      simp only [stepV, createTempV]
      split
      · exact h
      · exact allOK_registerHandle st (allOK_openFile h v vid _ _ _) _
    | sub p =>
      simp only [stepV]
      split <;> exact h
    | setUser uid gid admin => exact h
    | setUMask m => exact h
    | file hid op =>
      simp only [stepV, fileV]
      split
      · exact h
      · split
        · exact h
        · exact allOK_fileStep h _ _ op

theorem allOK_run : ∀ (calls : List (Nat × Call)) (st : FSState), AllLinksOK st.store →
    AllLinksOK (run st calls).1.store := by
  intro calls
  induction calls with
  | nil => intro st h; exact h
  | cons c cs ih =>
    intro st h
    obtain ⟨vid, c⟩ := c
    simp only [run]
    have h1 := allOK_step st vid c h
    generalize step st vid c = r at h1
    obtain ⟨st1, o⟩ := r
    have h2 := ih st1 h1
    generalize run st1 cs = r2 at h2
    obtain ⟨st2, os⟩ := r2
    exact h2

theorem allOK_init : AllLinksOK initState.store := by
  have h0 : AllLinksOK (initStore 0 0) := by
    intro e he
    simp [initStore] at he
    subst he
    trivial
  unfold initState
  dsimp only
  repeat apply allOK_step
  exact h0

/-- `LinksOK` holds in EVERY state reachable from `memfs.New()` by the calls of the model (any views, any users) -/
theorem linksOK_reachable (calls : List (Nat × Call)) : LinksOK (run initState calls).1.store :=
  (allOK_run calls initState allOK_init).linksOK

end Avfs.FS
