import Avfs.Lemmas.Posix
/-
  C01 (continued): open(2), link(2), truncate(2), chmod(2), chown(2), rename(2) of MemFS against a POSIX-style
  reference on clean absolute paths without symbolic links — same method as Lemmas/Posix.lean: the reference is a small
  function over the component-wise resolution `walkPath` of the path(s); the theorem `<call>_posix` says that the call
  of the model has the outcome and the effect the reference names (`.outside` / `True` when a symbolic link is met).

  Corners where MemFS is not the reference (each excluded by an explicit hypothesis and stated on its own):
  * open: what ToOpenMode makes of O_RDONLY with O_CREAT / O_TRUNC / O_APPEND (write-only description) and with O_EXCL
    (neither readable nor writable): `toOpenMode_rdonly_creat`; all other flag combinations decode as open(2) says
    (`toOpenMode_plain`); `open_posix` itself holds for every flag value, over the decoded mode;
  * chown: whoever is not administrator gets EPERM before the path is looked at (`chown_user`): ENOENT & co. are
    masked (`chown_user_noent`) and the owner's permitted no-op / own-group change is refused (`chown_owner_refused`);
  * rename onto an EXISTING entry — file onto directory (EISDIR), directory onto file (ENOTDIR), directory onto an empty
    directory (replaced), directory onto an entry below itself (EINVAL): EEXIST on MemFS for all four:
    `renameCorner`, `rename_corner_eexist`, `rename_corners`.
  Remark (order of checks that POSIX leaves open, the reference follows MemFS): `rename_same_denied`; Truncate checks
  the length before the path.
  open(2), link(2), truncate(2), chmod(2) need no exclusion (O_CREAT|O_EXCL on an existing entry is EEXIST before the
  permission of the entry is looked at, for a regular file as for a directory: `open_excl_exists`). "/" is covered for open (`open_root`), as the existing path of link
  and for truncate / chmod / chown; it is excluded (`hne…`) as path of rename and as new path of link.
-/
set_option linter.unusedVariables false
set_option linter.unusedSimpArgs false

namespace Avfs.FS
open Avfs.Path

/-! ### 0. what the walk returns besides error, parent and child: the iterator -/

theorem px2_next_path (it : Iter) : (it.next .linux).1.path = it.path := by
  unfold Iter.next
  simp only
  split <;> rfl

/-- the iterator the walk hands back: it stands on the last component (`isLast`) of the unchanged path -/
def IterAgrees (w : Resolved) (p : Bytes) (r : SR) : Prop :=
  match w with
  | .found _ _ => r.pi.isLast = true ∧ r.pi.path = p
  | .missingLast _ _ => r.pi.path = p
  | _ => True

theorem loop_iter_gen {s : Store} {root : Ino} {v : View} (hwf : WF s root) (m : SlMode) :
    ∀ (rest : List Bytes) (c : Bytes) (fuel : Nat) (d : Ino) (it : Iter) (pre : Bytes) (sl : Nat),
      (∀ x ∈ c :: rest, x ≠ [] ∧ ∀ y ∈ x, y ≠ SL) →
      it.path = pre ++ joinWith SL (c :: rest) → it.stop1 = pre.length → fuel ≥ rest.length + 1 →
      isDirAt s d = true →
      (d ≠ v.root → ∀ md ch, s.get d = some (.dir md ch) → checkPerm md omLookup v = true) →
      IterAgrees (walkPath s v d (c :: rest)) it.path (searchLoop s v m v.root fuel d it sl none) := by
  intro rest
  induction rest with
  | nil =>
    intro c fuel d it pre sl hall hp hst hf hdir hperm
    obtain ⟨fuel, rfl⟩ : ∃ k, fuel = k + 1 := ⟨fuel - 1, by simp at hf; omega⟩
    have hc := hall c (by simp)
    obtain ⟨it1, hnext, hpart, hl, _⟩ := next_comp it pre c [] hp hst hc.1 hc.2
    have hl := hl rfl
    have hpath : it1.path = it.path := by
      have := px2_next_path it
      rw [hnext] at this
      exact this
    obtain ⟨md, chd, hgd⟩ := get_of_isDirAt hdir
    rw [searchLoop]
    by_cases hden : checkPerm md omLookup v = true
    · cases hch : s.child d c with
      | none => simp [walkPath, hnext, hpart, hgd, hden, hch, IterAgrees, hl, hpath]
      | some i =>
        have halloc := hwf.alloc d c i hch
        cases hg : s.get i with
        | none => simp [hg] at halloc
        | some n =>
          cases n <;> simp [walkPath, hnext, hpart, hgd, hden, hch, hg, IterAgrees, hl, hpath]
    · have hden' : checkPerm md omLookup v = false := by simpa using hden
      have hdr : d = v.root := Classical.byContradiction fun h => hden (hperm h md chd hgd)
      subst hdr
      simp [walkPath, hnext, hpart, hgd, hden', IterAgrees]
  | cons c2 cs ih =>
    intro c fuel d it pre sl hall hp hst hf hdir hperm
    obtain ⟨fuel, rfl⟩ : ∃ k, fuel = k + 1 := ⟨fuel - 1, by simp at hf; omega⟩
    have hc := hall c (by simp)
    obtain ⟨it1, hnext, hpart, _, hl⟩ := next_comp it pre c (c2 :: cs) hp hst hc.1 hc.2
    obtain ⟨hl, hp1, hsp1⟩ := hl (by simp)
    have hpath : it1.path = it.path := by
      have := px2_next_path it
      rw [hnext] at this
      exact this
    obtain ⟨md, chd, hgd⟩ := get_of_isDirAt hdir
    rw [searchLoop]
    by_cases hden : checkPerm md omLookup v = true
    · cases hch : s.child d c with
      | none => simp [walkPath, hnext, hpart, hgd, hden, hch, IterAgrees, hl]
      | some i =>
        have halloc := hwf.alloc d c i hch
        cases hg : s.get i with
        | none => simp [hg] at halloc
        | some n =>
          cases n with
          | dir mi chi =>
            by_cases hpi : checkPerm mi omLookup v = true
            · have hrec := ih c2 fuel i it1 (pre ++ c ++ [SL]) sl (fun x hx => hall x (by simp at hx ⊢; exact Or.inr hx))
                hp1 hsp1 (by simp at hf ⊢; omega) (isDirAt_of_get hg)
                (fun _ md' ch' hg' => by rw [hg] at hg'; cases hg'; exact hpi)
              have hw : walkPath s v d (c :: c2 :: cs) = walkPath s v i (c2 :: cs) := by
                simp [walkPath, hgd, hden, hch, hg]
              rw [hw, ← hpath]
              simpa [hnext, hpart, hgd, hden, hch, hg, hl, hpi] using hrec
            · have hpi' : checkPerm mi omLookup v = false := by simpa using hpi
              have hw : walkPath s v d (c :: c2 :: cs) = .denied := by
                simp only [walkPath, hgd, hden, hch, hg]
                simpa using walkPath_denied s v i c2 cs mi chi hg hpi'
              rw [hw]
              simp [IterAgrees]
          | file mf df nl id => simp [walkPath, hgd, hden, hch, hg, IterAgrees]
          | symlink ms lk => simp [walkPath, hgd, hden, hch, hg, IterAgrees]
    · have hden' : checkPerm md omLookup v = false := by simpa using hden
      have hdr : d = v.root := Classical.byContradiction fun h => hden (hperm h md chd hgd)
      subst hdr
      simp [walkPath, hgd, hden', IterAgrees]

theorem searchNode_iter_gen (s : Store) (root : Ino) (v : View) (hwf : WF s root)
    (hvr : ∃ m ch, s.get v.root = some (.dir m ch)) (cs : List Bytes) (hne : cs ≠ [])
    (hall : ∀ c ∈ cs, c ≠ [] ∧ ∀ x ∈ c, x ≠ SL) (hdots : ∀ c ∈ cs, c ≠ [DOT] ∧ c ≠ [DOT, DOT]) (m : SlMode) :
    IterAgrees (walkPath s v v.root cs) (SL :: joinWith SL cs) (searchNode s v (SL :: joinWith SL cs) m) := by
  unfold searchNode
  simp only [abs_joined cs v.cwd hall hdots]
  have hfuel := searchFuel_ge s (SL :: joinWith SL cs)
  cases cs with
  | nil => exact absurd rfl hne
  | cons c cs =>
    obtain ⟨mr, chr, hgr⟩ := hvr
    refine loop_iter_gen hwf m cs c (searchFuel s (SL :: joinWith SL (c :: cs))) v.root
      (Iter.new .linux (SL :: joinWith SL (c :: cs))) [SL] 0 hall rfl rfl ?_ (isDirAt_of_get hgr)
      (fun h => absurd rfl h)
    have := length_joinWith_ge SL (c :: cs) (fun x hx => (hall x hx).1)
    simp only [List.length_cons] at this hfuel ⊢
    omega

/-- everything the callers of `searchNode` use, for a path with at least one component, in one statement -/
def WalkFacts (s : Store) (w : Resolved) (last p : Bytes) (r : SR) : Prop :=
  match w with
  | .found par c => r.err = .exists ∧ r.child = some c ∧ r.parent = par ∧ partOf r.pi = last ∧
      r.pi.isLast = true ∧ r.pi.path = p ∧ s.child par last = some c ∧ isDirAt s par = true ∧
      (∀ m l, s.get c ≠ some (.symlink m l)) ∧ (s.get c).isSome = true
  | .missingLast par name => r.err = .noent ∧ r.child = none ∧ r.parent = par ∧ partOf r.pi = last ∧
      r.pi.isLast = true ∧ r.pi.path = p ∧ name = last ∧ s.child par last = none ∧ isDirAt s par = true
  | .missingDir => r.err = .noent ∧ r.pi.isLast = false
  | .notDir => r.err = .notdir
  | .denied => r.err = .acces
  | .viaLink => True

theorem searchNode_facts (s : Store) (root : Ino) (v : View) (hwf : WF s root)
    (hvr : ∃ m ch, s.get v.root = some (.dir m ch)) (cs : List Bytes) (hne : cs ≠ [])
    (hall : ∀ c ∈ cs, c ≠ [] ∧ ∀ x ∈ c, x ≠ SL) (hdots : ∀ c ∈ cs, c ≠ [DOT] ∧ c ≠ [DOT, DOT]) (m : SlMode) :
    WalkFacts s (walkPath s v v.root cs) (cs.getLast hne) (SL :: joinWith SL cs)
      (searchNode s v (SL :: joinWith SL cs) m) := by
  have h := searchNode_eq_walkPath_gen s root v hwf hvr cs hall hdots m
  have hp := searchNode_part_gen s root v hwf hvr cs hne hall hdots m
  have hi := searchNode_iter_gen s root v hwf hvr cs hne hall hdots m
  obtain ⟨c0, rest, rfl⟩ : ∃ c0 rest, cs = c0 :: rest := by
    cases cs with
    | nil => exact absurd rfl hne
    | cons a b => exact ⟨a, b, rfl⟩
  cases hw : walkPath s v v.root (c0 :: rest) with
  | found par c =>
    simp only [hw, Agrees, PartAgrees, IterAgrees] at h hp hi
    obtain ⟨hedge, hpd, hns⟩ := walkPath_found rest c0 v.root par c hw
    exact ⟨h.1, h.2.1, h.2.2, hp, hi.1, hi.2, hedge, hpd, hns, hwf.alloc par _ c hedge⟩
  | missingLast par name =>
    simp only [hw, Agrees, PartAgrees, IterAgrees] at h hp hi
    obtain ⟨hname, hnone, hpd⟩ := walkPath_missingLast rest c0 v.root par name hw
    exact ⟨h.1, h.2.1, h.2.2.1, hp, h.2.2.2, hi, hname, hname ▸ hnone, hpd⟩
  | missingDir =>
    simp only [hw, Agrees] at h
    exact h
  | notDir =>
    simp only [hw, Agrees] at h
    exact h
  | denied =>
    simp only [hw, Agrees] at h
    exact h
  | viaLink => trivial

/-! ### 1. open(2) -/

/-- ToOpenMode sets OpenCreate never without OpenWrite, OpenCreateExcl never without OpenCreate -/
theorem toOpenMode_create_write (flag : Nat) (h : toOpenMode flag &&& omCreate ≠ 0) :
    toOpenMode flag &&& omWrite ≠ 0 := by
  revert h
  unfold toOpenMode
  simp only
  repeat' split
  all_goals decide

theorem toOpenMode_excl_create (flag : Nat) (h : toOpenMode flag &&& omExcl ≠ 0) :
    toOpenMode flag &&& omCreate ≠ 0 := by
  revert h
  unfold toOpenMode
  simp only
  repeat' split
  all_goals decide

/-- open(2) -/
inductive OpenRef
  | fail (e : Err)
  | create (parent : Ino) (name : Bytes)   -- a new empty regular file `name` in `parent`, opened
  | opened (c : Ino) (trunc : Bool)        -- the existing node `c` opened, its content dropped first when `trunc`
  | outside                                 -- a symbolic link on the way: not covered
  deriving DecidableEq, Repr

/-- the reference, over the decoded open mode `om` (access mode: `omRead` / `omWrite`; O_CREAT `omCreate`;
    O_CREAT|O_EXCL `omExcl`; O_TRUNC `omTrunc`).
    * existing entry: O_CREAT|O_EXCL EEXIST; a directory asked for writing EISDIR; the access mode is checked against
      the permission bits of the node (EACCES); O_TRUNC empties a regular file;
    * missing last component: ENOENT without O_CREAT; with it the parent directory must be writable (its search
      permission was used by the resolution) and a regular file is created. -/
def posixOpen (s : Store) (v : View) (om : Nat) : Resolved → OpenRef
  | .found _ c =>
    if om &&& omCreate != 0 && om &&& omExcl != 0 then .fail .EEXIST else
    match s.get c with
    | some (.dir m _) =>
      if om &&& omWrite != 0 then .fail .EISDIR
      else if !checkPerm m om v then .fail .EACCES else .opened c false
    | some (.file m _ _ _) =>
      if !checkPerm m om v then .fail .EACCES else .opened c (om &&& omTrunc != 0)
    | _ => .outside
  | .missingLast par name =>
    if om &&& omCreate == 0 then .fail .ENOENT
    else if !dirPerm s par (omWrite ||| omLookup) v then .fail .EACCES else .create par name
  | .missingDir => .fail .ENOENT
  | .notDir => .fail .ENOTDIR
  | .denied => .fail .EACCES
  | .viaLink => .outside

/-- O_TRUNC on an existing regular file: the content goes, everything else stays -/
def truncated (s : Store) (c : Ino) : Store :=
  match s.get c with
  | some (.file m _ nl id) => s.set c (.file m [] nl id)
  | _ => s

/-- the handle open(2) returns: on node `c`, offset 0, with the decoded open mode, nothing read yet -/
def handleOn (c : Ino) (name : Bytes) (om vid : Nat) : Handle :=
  { nd := some c, name := name, pos := 0, om := om, dirEntries := none, dirNames := none, dirIndex := 0, view := vid }

theorem open_posix_gen (s : Store) (root : Ino) (v : View) (hwf : WF s root)
    (hvr : ∃ m ch, s.get v.root = some (.dir m ch)) (cs : List Bytes) (hne : cs ≠ [])
    (hall : ∀ c ∈ cs, c ≠ [] ∧ ∀ x ∈ c, x ≠ SL) (hdots : ∀ c ∈ cs, c ≠ [DOT] ∧ c ≠ [DOT, DOT])
    (vid flag perm : Nat) :
    match posixOpen s v (toOpenMode flag) (walkPath s v v.root cs) with
    | .fail e => openFile s v vid (SL :: joinWith SL cs) flag perm = (s, .error e)
    | .create par name => name = cs.getLast hne ∧
        openFile s v vid (SL :: joinWith SL cs) flag perm =
          ((createFile s v par name perm).1,
           .ok (handleOn (createFile s v par name perm).2 (SL :: joinWith SL cs) (toOpenMode flag) vid))
    | .opened c tr => openFile s v vid (SL :: joinWith SL cs) flag perm =
        (if tr then truncated s c else s, .ok (handleOn c (SL :: joinWith SL cs) (toOpenMode flag) vid))
    | .outside => True := by
  have hf := searchNode_facts s root v hwf hvr cs hne hall hdots .eval
  have hcw := toOpenMode_create_write flag
  have hec := toOpenMode_excl_create flag
  generalize hom : toOpenMode flag = om at hcw hec ⊢
  cases hw : walkPath s v v.root cs with
  | found par c =>
    simp only [hw, WalkFacts] at hf
    obtain ⟨he, hc, hpar, hpart, hlast, hpath, hedge, hpd, hns, halloc⟩ := hf
    simp only [posixOpen]
    cases hg : s.get c with
    | none => simp [hg] at halloc
    | some n =>
      cases n with
      | symlink ms lk => exact absurd hg (hns ms lk)
      | dir md chd =>
        by_cases hce : (om &&& omCreate != 0 && om &&& omExcl != 0) = true
        · have hx : om &&& omExcl ≠ 0 := by simp at hce; exact hce.2
          simp [hce, openFile, hom, he, hc, hlast, hg, hx]
        · have hx : om &&& omExcl = 0 := by
            apply Classical.byContradiction
            intro h
            exact hce (by simp [h, hec h])
          simp only [hce]
          by_cases hwr : om &&& omWrite = 0
          · by_cases hp : checkPerm md om v = true
            · simp [openFile, hom, he, hc, hlast, hg, hx, hwr, hp, handleOn]
            · simp [openFile, hom, he, hc, hlast, hg, hx, hwr, hp]
          · simp [openFile, hom, he, hc, hlast, hg, hx, hwr]
      | file mf df nl id =>
        by_cases hce : (om &&& omCreate != 0 && om &&& omExcl != 0) = true
        · have hx : om &&& omExcl ≠ 0 := by simp at hce; exact hce.2
          simp [hce, openFile, hom, he, hc, hlast, hg, hx]
        · have hx : om &&& omExcl = 0 := by
            apply Classical.byContradiction
            intro h
            exact hce (by simp [h, hec h])
          simp only [hce]
          by_cases hp : checkPerm mf om v = true
          · by_cases htr : om &&& omTrunc = 0
            · simp [openFile, hom, he, hc, hlast, hg, hx, hp, htr, handleOn]
            · simp [openFile, hom, he, hc, hlast, hg, hx, hp, htr, handleOn, truncated]
          · simp [openFile, hom, he, hc, hlast, hg, hx, hp]
  | missingLast par name =>
    simp only [hw, WalkFacts] at hf
    obtain ⟨he, hc, hpar, hpart, hlast, hpath, hname, hnone, hpd⟩ := hf
    simp only [posixOpen]
    by_cases hcr : om &&& omCreate = 0
    · simp [openFile, hom, he, hlast, hcr]
    · have hwr := hcw hcr
      by_cases hd : dirPerm s par (omWrite ||| omLookup) v = true
      · simp [openFile, hom, he, hlast, hcr, hwr, hd, hpar, hpart, hname, handleOn]
      · simp [openFile, hom, he, hlast, hcr, hwr, hd, hpar]
  | missingDir =>
    simp only [hw, WalkFacts] at hf
    simp [posixOpen, openFile, hom, hf.1, hf.2, SErr.toErr]
  | notDir =>
    simp only [hw, WalkFacts] at hf
    simp [posixOpen, openFile, hom, hf, SErr.toErr]
  | denied =>
    simp only [hw, WalkFacts] at hf
    simp [posixOpen, openFile, hom, hf, SErr.toErr]
  | viaLink => simp [posixOpen]

/-- Open of MemFS is open(2) of the reference, for every flag value (decoded by ToOpenMode): same error; or a new
    regular file made by `createFile` (caller's identity, `perm &^ umask`) in the same directory under the last
    component, and a handle on it; or a handle on the existing node, a regular file being emptied first under O_TRUNC
    and nothing else changing. The handle carries the node, the path as name, offset 0 and the decoded open mode.
    No case is excluded; O_CREAT|O_EXCL on an existing entry is EEXIST whatever the permission of the entry
    (`open_excl_exists`). What ToOpenMode makes of the flags is a separate matter: `toOpenMode_plain`,
    `toOpenMode_rdonly_creat`. -/
theorem open_posix (s : Store) (root : Ino) (v : View) (hwf : WF s root) (hn : NamesOK s) (hv : ViewOK s v)
    (hroot : v.root = root) (cs : List Bytes) (hne : cs ≠ []) (hall : ∀ c ∈ cs, c ≠ [] ∧ ∀ x ∈ c, x ≠ SL)
    (hdots : ∀ c ∈ cs, c ≠ [DOT] ∧ c ≠ [DOT, DOT]) (vid flag perm : Nat) :
    match posixOpen s v (toOpenMode flag) (walkPath s v root cs) with
    | .fail e => openFile s v vid (SL :: joinWith SL cs) flag perm = (s, .error e)
    | .create par name => name = cs.getLast hne ∧
        openFile s v vid (SL :: joinWith SL cs) flag perm =
          ((createFile s v par name perm).1,
           .ok (handleOn (createFile s v par name perm).2 (SL :: joinWith SL cs) (toOpenMode flag) vid))
    | .opened c tr => openFile s v vid (SL :: joinWith SL cs) flag perm =
        (if tr then truncated s c else s, .ok (handleOn c (SL :: joinWith SL cs) (toOpenMode flag) vid))
    | .outside => True := by
  subst hroot
  exact open_posix_gen s v.root v hwf (get_of_isDirAt hwf.rootDir) cs hne hall hdots vid flag perm

/-- the flags of open(2) -/
inductive OAccess | rdonly | wronly | rdwr
  deriving DecidableEq, Repr

structure OFlags where
  acc : OAccess
  creat : Bool
  excl : Bool
  trunc : Bool
  append : Bool
  deriving DecidableEq, Repr

/-- Linux values: O_WRONLY 1, O_RDWR 2, O_CREAT 0x40, O_EXCL 0x80, O_TRUNC 0x200, O_APPEND 0x400 -/
def OFlags.toNat (f : OFlags) : Nat :=
  (match f.acc with | .rdonly => 0 | .wronly => 1 | .rdwr => 2) ||| (if f.creat then 0x40 else 0) |||
  (if f.excl then 0x80 else 0) ||| (if f.trunc then 0x200 else 0) ||| (if f.append then 0x400 else 0)

/-- the open mode open(2) gives the description: readable unless O_WRONLY, writable unless O_RDONLY, plus the
    creation / truncation / append requests (O_EXCL has a meaning only with O_CREAT) -/
def OFlags.om (f : OFlags) : Nat :=
  (if f.acc != .wronly then omRead else 0) ||| (if f.acc != .rdonly then omWrite else 0) |||
  (if f.creat then omCreate else 0) ||| (if f.creat && f.excl then omExcl else 0) |||
  (if f.trunc then omTrunc else 0) ||| (if f.append then omAppend else 0)

/-- ToOpenMode decodes the flags as open(2) does, EXCEPT when O_RDONLY comes with O_CREAT, O_EXCL, O_TRUNC or
    O_APPEND (`toOpenMode_rdonly_creat`) -/
theorem toOpenMode_plain (f : OFlags)
    (h : f.acc = .rdonly → f.creat = false ∧ f.excl = false ∧ f.trunc = false ∧ f.append = false) :
    toOpenMode f.toNat = f.om := by
  obtain ⟨acc, c, e, t, a⟩ := f
  cases acc <;> cases c <;> cases e <;> cases t <;> cases a <;> simp at h <;> decide

/-- DIVERGENCE (recorded): O_RDONLY|O_CREAT, O_RDONLY|O_TRUNC, O_RDONLY|O_APPEND give a WRITE-ONLY description
    (open(2): readable, not writable), and O_RDONLY|O_EXCL one that is neither readable nor writable -/
theorem toOpenMode_rdonly_creat :
    toOpenMode (OFlags.toNat ⟨.rdonly, true, false, false, false⟩) = omCreate ||| omWrite ∧
    toOpenMode (OFlags.toNat ⟨.rdonly, false, false, true, false⟩) = omTrunc ||| omWrite ∧
    toOpenMode (OFlags.toNat ⟨.rdonly, false, false, false, true⟩) = omAppend ||| omWrite ∧
    toOpenMode (OFlags.toNat ⟨.rdonly, false, true, false, false⟩) = 0 := by decide

/-! #### open(2) on the concrete heap of Lemmas/Posix.lean -/

/-- results of `openFile` can be compared (for the `decide` witnesses of this file only) -/
@[instance_reducible] private def decEqOpenResult : DecidableEq (Except Err Handle)
  | .ok a, .ok b => if h : a = b then isTrue (h ▸ rfl) else isFalse (fun h' => h (Except.ok.inj h'))
  | .error a, .error b => if h : a = b then isTrue (h ▸ rfl) else isFalse (fun h' => h (Except.error.inj h'))
  | .ok _, .error _ => isFalse (fun h => nomatch h)
  | .error _, .ok _ => isFalse (fun h => nomatch h)
attribute [local instance] decEqOpenResult

/-- the administrator on the whole volume -/
def px2Adm : View := { root := 0, cwd := [SL], uid := 0, gid := 0, admin := true, umask := 0o022 }

theorem px2Adm_ok : ViewOK pxStore px2Adm := ⟨by decide +kernel, by decide⟩

/-- (a) O_WRONLY|O_CREAT|O_EXCL: OpenFile("/tmp/x", 0xC1, 0644) by the user creates the regular file "x" in /tmp (3),
    the new inode is 10 and the handle is on it: write-only, offset 0 -/
example : openFile pxStore exView 0 [SL, 116, 109, 112, SL, 120] 0xC1 0o644 =
      ((createFile pxStore exView 3 [120] 0o644).1,
       .ok (handleOn 10 [SL, 116, 109, 112, SL, 120] (omCreate ||| omExcl ||| omWrite) 0)) := by
  have h := open_posix pxStore 0 exView pxStore_wf.1 pxStore_wf.2 pxView_ok rfl [cTmp, [120]] (by simp)
    (by decide) (by decide) 0 0xC1 0o644
  have hr : posixOpen pxStore exView (toOpenMode 0xC1) (walkPath pxStore exView 0 [cTmp, [120]]) = .create 3 [120] := by
    decide +kernel
  have hi : (createFile pxStore exView 3 [120] 0o644).2 = 10 := by decide +kernel
  simp only [hr] at h
  rw [hi] at h
  exact h.2

/-- (a) EEXIST on the existing "/tmp/g" (administrator); (c) ENOENT for O_RDONLY on the missing "/tmp/y";
    (d) EISDIR for O_WRONLY on the directory "/tmp/d"; EACCES for O_WRONLY|O_CREAT of "/a/x" (the user may not write
    "/a") and for O_WRONLY on "/a/f" (0644 of the administrator) -/
example : openFile pxStore px2Adm 0 [SL, 116, 109, 112, SL, 103] 0xC1 0o644 = (pxStore, .error .EEXIST) ∧
    openFile pxStore exView 0 [SL, 116, 109, 112, SL, 121] 0 0 = (pxStore, .error .ENOENT) ∧
    openFile pxStore exView 0 [SL, 116, 109, 112, SL, 100] 1 0 = (pxStore, .error .EISDIR) ∧
    openFile pxStore exView 0 [SL, 97, SL, 120] 0x41 0o644 = (pxStore, .error .EACCES) ∧
    openFile pxStore exView 0 [SL, 97, SL, 102] 1 0 = (pxStore, .error .EACCES) := by
  have h1 := open_posix pxStore 0 px2Adm pxStore_wf.1 pxStore_wf.2 px2Adm_ok rfl [cTmp, [103]] (by simp)
    (by decide) (by decide) 0 0xC1 0o644
  have h2 := open_posix pxStore 0 exView pxStore_wf.1 pxStore_wf.2 pxView_ok rfl [cTmp, [121]] (by simp)
    (by decide) (by decide) 0 0 0
  have h3 := open_posix pxStore 0 exView pxStore_wf.1 pxStore_wf.2 pxView_ok rfl [cTmp, [100]] (by simp)
    (by decide) (by decide) 0 1 0
  have h4 := open_posix pxStore 0 exView pxStore_wf.1 pxStore_wf.2 pxView_ok rfl [cA, [120]] (by simp)
    (by decide) (by decide) 0 0x41 0o644
  have h5 := open_posix pxStore 0 exView pxStore_wf.1 pxStore_wf.2 pxView_ok rfl [cA, [102]] (by simp)
    (by decide) (by decide) 0 1 0
  have hr1 : posixOpen pxStore px2Adm (toOpenMode 0xC1) (walkPath pxStore px2Adm 0 [cTmp, [103]]) = .fail .EEXIST := by
    decide +kernel
  have hr2 : posixOpen pxStore exView (toOpenMode 0) (walkPath pxStore exView 0 [cTmp, [121]]) = .fail .ENOENT := by
    decide +kernel
  have hr3 : posixOpen pxStore exView (toOpenMode 1) (walkPath pxStore exView 0 [cTmp, [100]]) = .fail .EISDIR := by
    decide +kernel
  have hr4 : posixOpen pxStore exView (toOpenMode 0x41) (walkPath pxStore exView 0 [cA, [120]]) = .fail .EACCES := by
    decide +kernel
  have hr5 : posixOpen pxStore exView (toOpenMode 1) (walkPath pxStore exView 0 [cA, [102]]) = .fail .EACCES := by
    decide +kernel
  simp only [hr1] at h1
  simp only [hr2] at h2
  simp only [hr3] at h3
  simp only [hr4] at h4
  simp only [hr5] at h5
  exact ⟨h1, h2, h3, h4, h5⟩

/-- (b) O_RDWR|O_CREAT|O_TRUNC on the existing "/a/f" (6) by the administrator opens it and drops its content;
    O_RDONLY by the user opens it read-only and changes nothing -/
example : openFile pxStore px2Adm 0 [SL, 97, SL, 102] 0x242 0o644 =
      (truncated pxStore 6, .ok (handleOn 6 [SL, 97, SL, 102] (omRead ||| omWrite ||| omCreate ||| omTrunc) 0)) ∧
    openFile pxStore exView 0 [SL, 97, SL, 102] 0 0 = (pxStore, .ok (handleOn 6 [SL, 97, SL, 102] omRead 0)) := by
  have h1 := open_posix pxStore 0 px2Adm pxStore_wf.1 pxStore_wf.2 px2Adm_ok rfl [cA, [102]] (by simp)
    (by decide) (by decide) 0 0x242 0o644
  have h2 := open_posix pxStore 0 exView pxStore_wf.1 pxStore_wf.2 pxView_ok rfl [cA, [102]] (by simp)
    (by decide) (by decide) 0 0 0
  have hr1 : posixOpen pxStore px2Adm (toOpenMode 0x242) (walkPath pxStore px2Adm 0 [cA, [102]]) = .opened 6 true := by
    decide +kernel
  have hr2 : posixOpen pxStore exView (toOpenMode 0) (walkPath pxStore exView 0 [cA, [102]]) = .opened 6 false := by
    decide +kernel
  simp only [hr1] at h1
  simp only [hr2] at h2
  exact ⟨h1, h2⟩

/-- Error precedence (witness; formerly a corner: MemFS used to check the permission of an existing regular file before
    O_CREAT|O_EXCL and answered EACCES): OpenFile(…, O_WRONLY|O_CREAT|O_EXCL) by the user 1000 on "/tmp/g", the
    administrator's file of mode 0600, and on the existing DIRECTORY "/a/b" (0700 of the administrator): the reference
    (as open(2) on Linux) says EEXIST for both, and so does MemFS.
    History: memfs.New(); as root WriteFile("/tmp/g", …, 0600), Mkdir("/a", 0755), Mkdir("/a/b", 0700); as user 1000
    OpenFile("/tmp/g", O_WRONLY|O_CREATE|O_EXCL, 0644) = EEXIST, OpenFile("/a/b", same) = EEXIST. -/
theorem open_excl_exists :
    posixOpen pxStore exView (toOpenMode 0xC1) (walkPath pxStore exView 0 [cTmp, [103]]) = .fail .EEXIST ∧
    posixOpen pxStore exView (toOpenMode 0xC1) (walkPath pxStore exView 0 [cA, [98]]) = .fail .EEXIST ∧
    openFile pxStore exView 0 [SL, 116, 109, 112, SL, 103] 0xC1 0o644 = (pxStore, .error .EEXIST) ∧
    openFile pxStore exView 0 [SL, 97, SL, 98] 0xC1 0o644 = (pxStore, .error .EEXIST) := by
  decide +kernel

theorem searchNode_root_isLast (s : Store) (v : View) (m : SlMode) :
    (searchNode s v [SL] m).pi.isLast = true := by
  have habs : abs .linux [SL] v.cwd = [SL] := by
    simpa [joinWith] using abs_joined [] v.cwd (by simp) (by simp)
  unfold searchNode
  simp only [habs]
  have hfuel := searchFuel_ge s [SL]
  obtain ⟨k, hk⟩ : ∃ k, searchFuel s [SL] = k + 1 := ⟨_, (Nat.sub_add_cancel (by omega)).symm⟩
  rw [hk, searchLoop]
  simp [Iter.new, Iter.next, volumeNameLen, Iter.isLast]

/-- open(2) of "/" : the root directory of the view, as any existing directory -/
theorem open_root (s : Store) (v : View) (hvr : ∃ m ch, s.get v.root = some (.dir m ch)) (vid flag perm : Nat) :
    match posixOpen s v (toOpenMode flag) (.found v.root v.root) with
    | .fail e => openFile s v vid [SL] flag perm = (s, .error e)
    | .create _ _ => False
    | .opened c _ => openFile s v vid [SL] flag perm = (s, .ok (handleOn c [SL] (toOpenMode flag) vid))
    | .outside => False := by
  obtain ⟨he, hc, hpar, _⟩ := searchNode_root s v .eval
  have hlast := searchNode_root_isLast s v .eval
  have hec := toOpenMode_excl_create flag
  generalize hom : toOpenMode flag = om at hec ⊢
  obtain ⟨md, chd, hg⟩ := hvr
  simp only [posixOpen, hg]
  by_cases hce : (om &&& omCreate != 0 && om &&& omExcl != 0) = true
  · have hx : om &&& omExcl ≠ 0 := by simp at hce; exact hce.2
    simp [hce, openFile, hom, he, hc, hlast, hg, hx]
  · have hx : om &&& omExcl = 0 := by
      apply Classical.byContradiction
      intro h
      exact hce (by simp [h, hec h])
    simp only [hce]
    by_cases hwr : om &&& omWrite = 0
    · by_cases hp : checkPerm md om v = true
      · simp [openFile, hom, he, hc, hlast, hg, hx, hwr, hp, handleOn]
      · simp [openFile, hom, he, hc, hlast, hg, hx, hwr, hp]
    · simp [openFile, hom, he, hc, hlast, hg, hx, hwr]

/-! ### 2. link(2) -/

inductive LinkRef
  | fail (e : Err)
  | link (node : Ino) (parent : Ino) (name : Bytes)   -- one more entry `name` of `parent` for the file `node`
  | outside
  deriving DecidableEq, Repr

/-- the reference: the existing file is resolved first, then the new name; the new name must be missing in an existing
    directory (EEXIST / ENOENT / ENOTDIR / EACCES) that the caller may write; a directory is not linked (EPERM) -/
def posixLink (s : Store) (v : View) (old new : Resolved) : LinkRef :=
  match old with
  | .found _ oc =>
    match new with
    | .found _ _ => .fail .EEXIST
    | .missingLast par name =>
      if !dirPerm s par omWrite v then .fail .EACCES else
      match s.get oc with
      | some (.file _ _ _ _) => .link oc par name
      | some (.dir _ _) => .fail .EPERM
      | _ => .outside
    | .missingDir => .fail .ENOENT
    | .notDir => .fail .ENOTDIR
    | .denied => .fail .EACCES
    | .viaLink => .outside
  | .missingLast _ _ => .fail .ENOENT
  | .missingDir => .fail .ENOENT
  | .notDir => .fail .ENOTDIR
  | .denied => .fail .EACCES
  | .viaLink => .outside

/-- the effect of link(2): the entry, and one link more on the file; content, attributes and id stay -/
def linked (s : Store) (node par : Ino) (name : Bytes) : Store :=
  match s.get node with
  | some (.file m d nl id) => (addChild s par name node).set node (.file m d (nl + 1) id)
  | _ => s

/-- GENERAL form (view rooted at any directory). The existing path may be "/" (`cso = []`: a directory, EPERM). -/
theorem link_posix_gen (s : Store) (root : Ino) (v : View) (hwf : WF s root)
    (hvr : ∃ m ch, s.get v.root = some (.dir m ch)) (cso csn : List Bytes) (hnen : csn ≠ [])
    (hallo : ∀ c ∈ cso, c ≠ [] ∧ ∀ x ∈ c, x ≠ SL) (hdotso : ∀ c ∈ cso, c ≠ [DOT] ∧ c ≠ [DOT, DOT])
    (halln : ∀ c ∈ csn, c ≠ [] ∧ ∀ x ∈ c, x ≠ SL) (hdotsn : ∀ c ∈ csn, c ≠ [DOT] ∧ c ≠ [DOT, DOT]) :
    match posixLink s v (walkPath s v v.root cso) (walkPath s v v.root csn) with
    | .fail e => link s v (SL :: joinWith SL cso) (SL :: joinWith SL csn) = (s, .err e)
    | .link oc par name => name = csn.getLast hnen ∧
        link s v (SL :: joinWith SL cso) (SL :: joinWith SL csn) = (linked s oc par name, .ok .unit)
    | .outside => True := by
  have ho := searchNode_eq_walkPath_gen s root v hwf hvr cso hallo hdotso .lstat
  have hn := searchNode_facts s root v hwf hvr csn hnen halln hdotsn .lstat
  cases hwo : walkPath s v v.root cso with
  | found opar oc =>
    simp only [hwo, Agrees] at ho
    obtain ⟨hoe, hoc, _⟩ := ho
    cases hwn : walkPath s v v.root csn with
    | found npar nc =>
      simp only [hwn, WalkFacts] at hn
      simp [posixLink, link, hoe, hoc, hn.1, SErr.toErr]
    | missingLast par name =>
      simp only [hwn, WalkFacts] at hn
      obtain ⟨he, hc, hpar, hpart, hlast, hpath, hname, hnone, hpd⟩ := hn
      simp only [posixLink]
      by_cases hd : dirPerm s par omWrite v = true
      · cases hg : s.get oc with
        | none => simp [hd]
        | some n =>
          cases n with
          | dir md chd => simp [hd, link, hoe, hoc, he, hlast, hpar, hg]
          | file mf df nl id => simp [hd, link, hoe, hoc, he, hlast, hpar, hpart, hg, hname, linked]
          | symlink ms lk => simp [hd]
      · simp [hd, link, hoe, hoc, he, hlast, hpar]
    | missingDir =>
      simp only [hwn, WalkFacts] at hn
      simp [posixLink, link, hoe, hoc, hn.1, hn.2, SErr.toErr]
    | notDir =>
      simp only [hwn, WalkFacts] at hn
      simp [posixLink, link, hoe, hoc, hn, SErr.toErr]
    | denied =>
      simp only [hwn, WalkFacts] at hn
      simp [posixLink, link, hoe, hoc, hn, SErr.toErr]
    | viaLink => simp [posixLink]
  | missingLast par name =>
    simp only [hwo, Agrees] at ho
    simp [posixLink, link, ho.1, ho.2.1, SErr.toErr]
  | missingDir =>
    simp only [hwo, Agrees] at ho
    simp [posixLink, link, ho.1, SErr.toErr]
  | notDir =>
    simp only [hwo, Agrees] at ho
    simp [posixLink, link, ho, SErr.toErr]
  | denied =>
    simp only [hwo, Agrees] at ho
    simp [posixLink, link, ho, SErr.toErr]
  | viaLink => simp [posixLink]

/-- Link of MemFS is link(2) of the reference: same error, or one more entry (the last component of the new path, in
    the directory the rest of it resolves to) for the same node, whose link count grows by one; nothing else changes.
    No corner is excluded: the order of the checks (existing file, new name, permission, kind of the file) is the
    one of linkat(2) on Linux. (A symbolic link as source is outside: `.viaLink`.) -/
theorem link_posix (s : Store) (root : Ino) (v : View) (hwf : WF s root) (hn : NamesOK s) (hv : ViewOK s v)
    (hroot : v.root = root) (cso csn : List Bytes) (hnen : csn ≠ [])
    (hallo : ∀ c ∈ cso, c ≠ [] ∧ ∀ x ∈ c, x ≠ SL) (hdotso : ∀ c ∈ cso, c ≠ [DOT] ∧ c ≠ [DOT, DOT])
    (halln : ∀ c ∈ csn, c ≠ [] ∧ ∀ x ∈ c, x ≠ SL) (hdotsn : ∀ c ∈ csn, c ≠ [DOT] ∧ c ≠ [DOT, DOT]) :
    match posixLink s v (walkPath s v root cso) (walkPath s v root csn) with
    | .fail e => link s v (SL :: joinWith SL cso) (SL :: joinWith SL csn) = (s, .err e)
    | .link oc par name => name = csn.getLast hnen ∧
        link s v (SL :: joinWith SL cso) (SL :: joinWith SL csn) = (linked s oc par name, .ok .unit)
    | .outside => True := by
  subst hroot
  exact link_posix_gen s v.root v hwf (get_of_isDirAt hwf.rootDir) cso csn hnen hallo hdotso halln hdotsn

/-- Link("/a/f", "/tmp/h") by the administrator: "h" in /tmp (3) designates inode 6, which now has two links -/
example : link pxStore px2Adm [SL, 97, SL, 102] [SL, 116, 109, 112, SL, 104] = (linked pxStore 6 3 [104], .ok .unit) ∧
    fillStat (linked pxStore 6 3 [104]) 6 [104] = some ⟨[104], 1, 0o644, 0, 0, 2, 2, 1, none⟩ ∧
    (linked pxStore 6 3 [104]).child 3 [104] = some 6 := by
  have h := link_posix pxStore 0 px2Adm pxStore_wf.1 pxStore_wf.2 px2Adm_ok rfl [cA, [102]] [cTmp, [104]] (by simp)
    (by decide) (by decide) (by decide) (by decide)
  have hr : posixLink pxStore px2Adm (walkPath pxStore px2Adm 0 [cA, [102]]) (walkPath pxStore px2Adm 0 [cTmp, [104]])
      = .link 6 3 [104] := by decide +kernel
  simp only [hr] at h
  exact ⟨h.2, by decide +kernel, by decide +kernel⟩

/-- EPERM for the directory "/a/b" and for "/"; EEXIST onto "/tmp/g"; EACCES into "/a" for the user; ENOENT for the
    missing source "/a/q" -/
example : link pxStore px2Adm [SL, 97, SL, 98] [SL, 116, 109, 112, SL, 104] = (pxStore, .err .EPERM) ∧
    link pxStore px2Adm [SL] [SL, 116, 109, 112, SL, 104] = (pxStore, .err .EPERM) ∧
    link pxStore px2Adm [SL, 97, SL, 102] [SL, 116, 109, 112, SL, 103] = (pxStore, .err .EEXIST) ∧
    link pxStore exView [SL, 97, SL, 102] [SL, 97, SL, 104] = (pxStore, .err .EACCES) ∧
    link pxStore exView [SL, 97, SL, 113] [SL, 116, 109, 112, SL, 104] = (pxStore, .err .ENOENT) := by
  have h1 := link_posix pxStore 0 px2Adm pxStore_wf.1 pxStore_wf.2 px2Adm_ok rfl [cA, [98]] [cTmp, [104]] (by simp)
    (by decide) (by decide) (by decide) (by decide)
  have h2 := link_posix pxStore 0 px2Adm pxStore_wf.1 pxStore_wf.2 px2Adm_ok rfl [] [cTmp, [104]] (by simp)
    (by decide) (by decide) (by decide) (by decide)
  have h3 := link_posix pxStore 0 px2Adm pxStore_wf.1 pxStore_wf.2 px2Adm_ok rfl [cA, [102]] [cTmp, [103]] (by simp)
    (by decide) (by decide) (by decide) (by decide)
  have h4 := link_posix pxStore 0 exView pxStore_wf.1 pxStore_wf.2 pxView_ok rfl [cA, [102]] [cA, [104]] (by simp)
    (by decide) (by decide) (by decide) (by decide)
  have h5 := link_posix pxStore 0 exView pxStore_wf.1 pxStore_wf.2 pxView_ok rfl [cA, [113]] [cTmp, [104]] (by simp)
    (by decide) (by decide) (by decide) (by decide)
  have hr1 : posixLink pxStore px2Adm (walkPath pxStore px2Adm 0 [cA, [98]]) (walkPath pxStore px2Adm 0 [cTmp, [104]])
      = .fail .EPERM := by decide +kernel
  have hr2 : posixLink pxStore px2Adm (walkPath pxStore px2Adm 0 []) (walkPath pxStore px2Adm 0 [cTmp, [104]])
      = .fail .EPERM := by decide +kernel
  have hr3 : posixLink pxStore px2Adm (walkPath pxStore px2Adm 0 [cA, [102]]) (walkPath pxStore px2Adm 0 [cTmp, [103]])
      = .fail .EEXIST := by decide +kernel
  have hr4 : posixLink pxStore exView (walkPath pxStore exView 0 [cA, [102]]) (walkPath pxStore exView 0 [cA, [104]])
      = .fail .EACCES := by decide +kernel
  have hr5 : posixLink pxStore exView (walkPath pxStore exView 0 [cA, [113]]) (walkPath pxStore exView 0 [cTmp, [104]])
      = .fail .ENOENT := by decide +kernel
  simp only [hr1] at h1
  simp only [hr2] at h2
  simp only [hr3] at h3
  simp only [hr4] at h4
  simp only [hr5] at h5
  exact ⟨h1, h2, h3, h4, h5⟩

/-! ### 3. truncate(2), chmod(2), chown(2): one node changes -/

/-- a resolved node is allocated and is no symbolic link ("/" included: the root of the view) -/
theorem walkPath_found_node {s : Store} {root : Ino} {v : View} (hwf : WF s root)
    (hvr : ∃ m ch, s.get v.root = some (.dir m ch)) (cs : List Bytes) (par c : Ino)
    (hw : walkPath s v v.root cs = .found par c) :
    (s.get c).isSome = true ∧ ∀ m l, s.get c ≠ some (.symlink m l) := by
  cases cs with
  | nil =>
    simp only [walkPath] at hw
    cases hw
    obtain ⟨m, ch, hg⟩ := hvr
    simp [hg]
  | cons c0 rest =>
    obtain ⟨hedge, _, hns⟩ := walkPath_found rest c0 v.root par c hw
    exact ⟨hwf.alloc par _ c hedge, hns⟩

inductive NodeRef
  | fail (e : Err)
  | update (c : Ino) (n : Node)     -- node `c` becomes `n`; nothing else changes (`Store.set`)
  | outside
  deriving DecidableEq, Repr

/-- truncate(2): EINVAL for a negative length or one above the largest file (POSIX: EINVAL or EFBIG); the path must
    resolve to a regular file (a directory EISDIR) the caller may write (EACCES); the content is cut or zero-filled -/
def posixTruncate (s : Store) (v : View) (size : Int) (w : Resolved) : NodeRef :=
  if size < 0 || size > maxFileSize then .fail .EINVAL else
  match w with
  | .found _ c =>
    match s.get c with
    | some (.file m d nl id) =>
      if !checkPerm m omWrite v then .fail .EACCES else .update c (.file m (truncData d size.toNat) nl id)
    | some (.dir _ _) => .fail .EISDIR
    | _ => .outside
  | .missingLast _ _ => .fail .ENOENT
  | .missingDir => .fail .ENOENT
  | .notDir => .fail .ENOTDIR
  | .denied => .fail .EACCES
  | .viaLink => .outside

theorem truncate_posix_gen (s : Store) (root : Ino) (v : View) (hwf : WF s root)
    (hvr : ∃ m ch, s.get v.root = some (.dir m ch)) (cs : List Bytes)
    (hall : ∀ c ∈ cs, c ≠ [] ∧ ∀ x ∈ c, x ≠ SL) (hdots : ∀ c ∈ cs, c ≠ [DOT] ∧ c ≠ [DOT, DOT]) (size : Int) :
    match posixTruncate s v size (walkPath s v v.root cs) with
    | .fail e => truncate s v (SL :: joinWith SL cs) size = (s, .err e)
    | .update c n => truncate s v (SL :: joinWith SL cs) size = (s.set c n, .ok .unit)
    | .outside => True := by
  have h := searchNode_eq_walkPath_gen s root v hwf hvr cs hall hdots .eval
  simp only [posixTruncate]
  by_cases hsz : (size < 0 || size > maxFileSize) = true
  · simp [hsz, truncate]
  · simp only [hsz]
    cases hw : walkPath s v v.root cs with
    | found par c =>
      obtain ⟨halloc, hns⟩ := walkPath_found_node hwf hvr cs par c hw
      simp only [hw, Agrees] at h
      obtain ⟨he, hc, _⟩ := h
      cases hg : s.get c with
      | none => simp [hg] at halloc
      | some n =>
        cases n with
        | symlink ms lk => exact absurd hg (hns ms lk)
        | dir md chd => simp [truncate, hsz, he, hc, hg]
        | file mf df nl id =>
          by_cases hp : checkPerm mf omWrite v = true
          · simp [truncate, hsz, he, hc, hg, hp]
          · simp [truncate, hsz, he, hc, hg, hp]
    | missingLast par name =>
      simp only [hw, Agrees] at h
      simp [truncate, hsz, h.1, SErr.toErr]
    | missingDir =>
      simp only [hw, Agrees] at h
      simp [truncate, hsz, h.1, SErr.toErr]
    | notDir =>
      simp only [hw, Agrees] at h
      simp [truncate, hsz, h, SErr.toErr]
    | denied =>
      simp only [hw, Agrees] at h
      simp [truncate, hsz, h, SErr.toErr]
    | viaLink => trivial

/-- Truncate of MemFS is truncate(2) of the reference: same error, or the one regular file the path resolves to gets
    its content cut / zero-filled to `size`, keeping mode, owner, link count and id; every other node is untouched.
    "/" is included (`cs = []`: EISDIR). The length is checked before the path, as truncate(2) does for a negative one;
    for a length above `maxFileSize` POSIX leaves the order (and EFBIG / EINVAL) open. -/
theorem truncate_posix (s : Store) (root : Ino) (v : View) (hwf : WF s root) (hn : NamesOK s) (hv : ViewOK s v)
    (hroot : v.root = root) (cs : List Bytes) (hall : ∀ c ∈ cs, c ≠ [] ∧ ∀ x ∈ c, x ≠ SL)
    (hdots : ∀ c ∈ cs, c ≠ [DOT] ∧ c ≠ [DOT, DOT]) (size : Int) :
    match posixTruncate s v size (walkPath s v root cs) with
    | .fail e => truncate s v (SL :: joinWith SL cs) size = (s, .err e)
    | .update c n => truncate s v (SL :: joinWith SL cs) size = (s.set c n, .ok .unit)
    | .outside => True := by
  subst hroot
  exact truncate_posix_gen s v.root v hwf (get_of_isDirAt hwf.rootDir) cs hall hdots size

/-- chmod(2): only the owner of the node or an administrator (EPERM); the permission bits (with set-id and sticky
    bits) are replaced, owner, times and content stay -/
def posixChmod (s : Store) (v : View) (mode : Nat) : Resolved → NodeRef
  | .found _ c =>
    match s.get c with
    | some (.symlink _ _) => .outside
    | some n =>
      if n.meta.uid != v.uid && !v.admin then .fail .EPERM
      else .update c (n.setMeta { n.meta with perm := mode &&& modeMask })
    | none => .outside
  | .missingLast _ _ => .fail .ENOENT
  | .missingDir => .fail .ENOENT
  | .notDir => .fail .ENOTDIR
  | .denied => .fail .EACCES
  | .viaLink => .outside

theorem chmod_posix_gen (s : Store) (root : Ino) (v : View) (hwf : WF s root)
    (hvr : ∃ m ch, s.get v.root = some (.dir m ch)) (cs : List Bytes)
    (hall : ∀ c ∈ cs, c ≠ [] ∧ ∀ x ∈ c, x ≠ SL) (hdots : ∀ c ∈ cs, c ≠ [DOT] ∧ c ≠ [DOT, DOT]) (mode : Nat) :
    match posixChmod s v mode (walkPath s v v.root cs) with
    | .fail e => chmod s v (SL :: joinWith SL cs) mode = (s, .err e)
    | .update c n => chmod s v (SL :: joinWith SL cs) mode = (s.set c n, .ok .unit)
    | .outside => True := by
  have h := searchNode_eq_walkPath_gen s root v hwf hvr cs hall hdots .eval
  cases hw : walkPath s v v.root cs with
  | found par c =>
    obtain ⟨halloc, hns⟩ := walkPath_found_node hwf hvr cs par c hw
    simp only [hw, Agrees] at h
    obtain ⟨he, hc, _⟩ := h
    simp only [posixChmod]
    cases hg : s.get c with
    | none => simp [hg] at halloc
    | some n =>
      cases n with
      | symlink ms lk => exact absurd hg (hns ms lk)
      | dir md chd =>
        by_cases hp : (md.uid != v.uid && !v.admin) = true
        · simp [chmod, he, hc, hg, setMode, Node.meta, hp]
        · simp [chmod, he, hc, hg, setMode, Node.meta, hp]
      | file mf df nl id =>
        by_cases hp : (mf.uid != v.uid && !v.admin) = true
        · simp [chmod, he, hc, hg, setMode, Node.meta, hp]
        · simp [chmod, he, hc, hg, setMode, Node.meta, hp]
  | missingLast par name =>
    simp only [hw, Agrees] at h
    simp [posixChmod, chmod, h.1, SErr.toErr]
  | missingDir =>
    simp only [hw, Agrees] at h
    simp [posixChmod, chmod, h.1, SErr.toErr]
  | notDir =>
    simp only [hw, Agrees] at h
    simp [posixChmod, chmod, h, SErr.toErr]
  | denied =>
    simp only [hw, Agrees] at h
    simp [posixChmod, chmod, h, SErr.toErr]
  | viaLink => trivial

/-- Chmod of MemFS is chmod(2) of the reference: same error, or the one node the path resolves to ("/" included) gets
    the new permission bits and nothing else changes -/
theorem chmod_posix (s : Store) (root : Ino) (v : View) (hwf : WF s root) (hn : NamesOK s) (hv : ViewOK s v)
    (hroot : v.root = root) (cs : List Bytes) (hall : ∀ c ∈ cs, c ≠ [] ∧ ∀ x ∈ c, x ≠ SL)
    (hdots : ∀ c ∈ cs, c ≠ [DOT] ∧ c ≠ [DOT, DOT]) (mode : Nat) :
    match posixChmod s v mode (walkPath s v root cs) with
    | .fail e => chmod s v (SL :: joinWith SL cs) mode = (s, .err e)
    | .update c n => chmod s v (SL :: joinWith SL cs) mode = (s.set c n, .ok .unit)
    | .outside => True := by
  subst hroot
  exact chmod_posix_gen s v.root v hwf (get_of_isDirAt hwf.rootDir) cs hall hdots mode

/-- chown(2) (with _POSIX_CHOWN_RESTRICTED, as on Linux): the path is resolved first; an administrator sets owner and
    group (-1: keep); the owner of the node may "change" the owner to himself and the group to his own group;
    anybody else EPERM -/
def posixChown (s : Store) (v : View) (uid gid : Int) : Resolved → NodeRef
  | .found _ c =>
    match s.get c with
    | some n =>
      if v.admin || (n.meta.uid == v.uid && (uid == -1 || uid == v.uid) && (gid == -1 || gid == v.gid)) then
        .update c (n.setMeta { n.meta with uid := (if uid == -1 then n.meta.uid else uid),
                                            gid := (if gid == -1 then n.meta.gid else gid) })
      else .fail .EPERM
    | none => .outside
  | .missingLast _ _ => .fail .ENOENT
  | .missingDir => .fail .ENOENT
  | .notDir => .fail .ENOTDIR
  | .denied => .fail .EACCES
  | .viaLink => .outside

theorem chown_posix_gen (s : Store) (root : Ino) (v : View) (hwf : WF s root)
    (hvr : ∃ m ch, s.get v.root = some (.dir m ch)) (cs : List Bytes)
    (hall : ∀ c ∈ cs, c ≠ [] ∧ ∀ x ∈ c, x ≠ SL) (hdots : ∀ c ∈ cs, c ≠ [DOT] ∧ c ≠ [DOT, DOT]) (uid gid : Int)
    (m : SlMode) (hcorner : v.admin = true ∨ posixChown s v uid gid (walkPath s v v.root cs) = .fail .EPERM) :
    match posixChown s v uid gid (walkPath s v v.root cs) with
    | .fail e => chown s v (SL :: joinWith SL cs) uid gid m = (s, .err e)
    | .update c n => chown s v (SL :: joinWith SL cs) uid gid m = (s.set c n, .ok .unit)
    | .outside => True := by
  cases hcorner with
  | inr hp => simp only [hp]; cases hadm : v.admin with
    | true =>
      -- an administrator is never refused with EPERM by the reference
      exfalso
      cases hw : walkPath s v v.root cs <;> simp only [hw, posixChown] at hp <;> try cases hp
      split at hp
      · simp [hadm] at hp
      · cases hp
    | false => simp [chown, hadm]
  | inl hadm =>
    have h := searchNode_eq_walkPath_gen s root v hwf hvr cs hall hdots m
    cases hw : walkPath s v v.root cs with
    | found par c =>
      obtain ⟨halloc, hns⟩ := walkPath_found_node hwf hvr cs par c hw
      simp only [hw, Agrees] at h
      obtain ⟨he, hc, _⟩ := h
      simp only [posixChown]
      cases hg : s.get c with
      | none => simp [hg] at halloc
      | some n => simp [chown, hadm, he, hc, hg]
    | missingLast par name =>
      simp only [hw, Agrees] at h
      simp [posixChown, chown, hadm, h.1, SErr.toErr]
    | missingDir =>
      simp only [hw, Agrees] at h
      simp [posixChown, chown, hadm, h.1, SErr.toErr]
    | notDir =>
      simp only [hw, Agrees] at h
      simp [posixChown, chown, hadm, h, SErr.toErr]
    | denied =>
      simp only [hw, Agrees] at h
      simp [posixChown, chown, hadm, h, SErr.toErr]
    | viaLink => trivial

/-- Chown / Lchown of MemFS is chown(2) of the reference — for an administrator, and for any other caller whenever
    the reference refuses with EPERM (`hcorner`): same error, or the one node the path resolves to ("/" included) gets
    the new owner and group and nothing else changes.
    Excluded, because MemFS refuses every caller who is not administrator BEFORE it looks at the path
    (`chown_user`): a path that does not resolve (`chown_user_noent`), and the owner's permitted no-op / change of
    group (`chown_owner_refused`). -/
theorem chown_posix (s : Store) (root : Ino) (v : View) (hwf : WF s root) (hn : NamesOK s) (hv : ViewOK s v)
    (hroot : v.root = root) (cs : List Bytes) (hall : ∀ c ∈ cs, c ≠ [] ∧ ∀ x ∈ c, x ≠ SL)
    (hdots : ∀ c ∈ cs, c ≠ [DOT] ∧ c ≠ [DOT, DOT]) (uid gid : Int) (m : SlMode)
    (hcorner : v.admin = true ∨ posixChown s v uid gid (walkPath s v root cs) = .fail .EPERM) :
    match posixChown s v uid gid (walkPath s v root cs) with
    | .fail e => chown s v (SL :: joinWith SL cs) uid gid m = (s, .err e)
    | .update c n => chown s v (SL :: joinWith SL cs) uid gid m = (s.set c n, .ok .unit)
    | .outside => True := by
  subst hroot
  exact chown_posix_gen s v.root v hwf (get_of_isDirAt hwf.rootDir) cs hall hdots uid gid m hcorner

/-- CORNER (finding): whoever is not administrator gets EPERM from Chown / Lchown whatever the path and the ids -/
theorem chown_user (s : Store) (v : View) (p : Bytes) (uid gid : Int) (m : SlMode) (h : v.admin = false) :
    chown s v p uid gid m = (s, .err .EPERM) := by
  simp [chown, h]

/-! #### truncate / chmod / chown on the concrete heap -/

/-- Truncate("/a/f", 1) by the administrator keeps the first byte of "hi" in inode 6; the user may not write the file
    (EACCES); "/a/b" and "/" are directories (EISDIR); a negative length is EINVAL even on a missing path -/
example : truncate pxStore px2Adm [SL, 97, SL, 102] 1 =
      (pxStore.set 6 (.file ⟨0o644, 0, 0, none⟩ [104] 1 1), .ok .unit) ∧
    truncate pxStore exView [SL, 97, SL, 102] 1 = (pxStore, .err .EACCES) ∧
    truncate pxStore px2Adm [SL, 97, SL, 98] 0 = (pxStore, .err .EISDIR) ∧
    truncate pxStore px2Adm [SL] 0 = (pxStore, .err .EISDIR) ∧
    truncate pxStore px2Adm [SL, 97, SL, 113] (-1) = (pxStore, .err .EINVAL) := by
  have h1 := truncate_posix pxStore 0 px2Adm pxStore_wf.1 pxStore_wf.2 px2Adm_ok rfl [cA, [102]] (by decide)
    (by decide) 1
  have h2 := truncate_posix pxStore 0 exView pxStore_wf.1 pxStore_wf.2 pxView_ok rfl [cA, [102]] (by decide)
    (by decide) 1
  have h3 := truncate_posix pxStore 0 px2Adm pxStore_wf.1 pxStore_wf.2 px2Adm_ok rfl [cA, [98]] (by decide)
    (by decide) 0
  have h4 := truncate_posix pxStore 0 px2Adm pxStore_wf.1 pxStore_wf.2 px2Adm_ok rfl [] (by decide) (by decide) 0
  have h5 := truncate_posix pxStore 0 px2Adm pxStore_wf.1 pxStore_wf.2 px2Adm_ok rfl [cA, [113]] (by decide)
    (by decide) (-1)
  have hr1 : posixTruncate pxStore px2Adm 1 (walkPath pxStore px2Adm 0 [cA, [102]]) =
      .update 6 (.file ⟨0o644, 0, 0, none⟩ [104] 1 1) := by decide +kernel
  have hr2 : posixTruncate pxStore exView 1 (walkPath pxStore exView 0 [cA, [102]]) = .fail .EACCES := by
    decide +kernel
  have hr3 : posixTruncate pxStore px2Adm 0 (walkPath pxStore px2Adm 0 [cA, [98]]) = .fail .EISDIR := by
    decide +kernel
  have hr4 : posixTruncate pxStore px2Adm 0 (walkPath pxStore px2Adm 0 []) = .fail .EISDIR := by decide +kernel
  have hr5 : posixTruncate pxStore px2Adm (-1) (walkPath pxStore px2Adm 0 [cA, [113]]) = .fail .EINVAL := by
    decide +kernel
  simp only [hr1] at h1
  simp only [hr2] at h2
  simp only [hr3] at h3
  simp only [hr4] at h4
  simp only [hr5] at h5
  exact ⟨h1, h2, h3, h4, h5⟩

/-- Chmod("/a/f", 04600) by the administrator (owner): inode 6 gets the bits, keeps the rest; the user is not the
    owner (EPERM); "/a/q" is missing (ENOENT); below "/a/b" the user may not search (EACCES) -/
example : chmod pxStore px2Adm [SL, 97, SL, 102] 0o4600 =
      (pxStore.set 6 (.file ⟨0o4600, 0, 0, none⟩ [104, 105] 1 1), .ok .unit) ∧
    chmod pxStore exView [SL, 97, SL, 102] 0o777 = (pxStore, .err .EPERM) ∧
    chmod pxStore exView [SL, 97, SL, 113] 0o777 = (pxStore, .err .ENOENT) ∧
    chmod pxStore exView [SL, 97, SL, 98, SL, 120] 0o777 = (pxStore, .err .EACCES) := by
  have h1 := chmod_posix pxStore 0 px2Adm pxStore_wf.1 pxStore_wf.2 px2Adm_ok rfl [cA, [102]] (by decide)
    (by decide) 0o4600
  have h2 := chmod_posix pxStore 0 exView pxStore_wf.1 pxStore_wf.2 pxView_ok rfl [cA, [102]] (by decide)
    (by decide) 0o777
  have h3 := chmod_posix pxStore 0 exView pxStore_wf.1 pxStore_wf.2 pxView_ok rfl [cA, [113]] (by decide)
    (by decide) 0o777
  have h4 := chmod_posix pxStore 0 exView pxStore_wf.1 pxStore_wf.2 pxView_ok rfl [cA, [98], [120]] (by decide)
    (by decide) 0o777
  have hr1 : posixChmod pxStore px2Adm 0o4600 (walkPath pxStore px2Adm 0 [cA, [102]]) =
      .update 6 (.file ⟨0o4600, 0, 0, none⟩ [104, 105] 1 1) := by decide +kernel
  have hr2 : posixChmod pxStore exView 0o777 (walkPath pxStore exView 0 [cA, [102]]) = .fail .EPERM := by
    decide +kernel
  have hr3 : posixChmod pxStore exView 0o777 (walkPath pxStore exView 0 [cA, [113]]) = .fail .ENOENT := by
    decide +kernel
  have hr4 : posixChmod pxStore exView 0o777 (walkPath pxStore exView 0 [cA, [98], [120]]) = .fail .EACCES := by
    decide +kernel
  simp only [hr1] at h1
  simp only [hr2] at h2
  simp only [hr3] at h3
  simp only [hr4] at h4
  exact ⟨h1, h2, h3, h4⟩

/-- Chown("/a/f", 1000, -1) by the administrator: inode 6 gets the owner 1000 and keeps its group; "/a/q" is missing
    (ENOENT); the user, who does not own "/a/f", is refused by the reference and by MemFS (EPERM) -/
example : chown pxStore px2Adm [SL, 97, SL, 102] 1000 (-1) .eval =
      (pxStore.set 6 (.file ⟨0o644, 1000, 0, none⟩ [104, 105] 1 1), .ok .unit) ∧
    chown pxStore px2Adm [SL, 97, SL, 113] 1000 (-1) .eval = (pxStore, .err .ENOENT) ∧
    chown pxStore exView [SL, 97, SL, 102] 1000 1000 .lstat = (pxStore, .err .EPERM) := by
  have hr1 : posixChown pxStore px2Adm 1000 (-1) (walkPath pxStore px2Adm 0 [cA, [102]]) =
      .update 6 (.file ⟨0o644, 1000, 0, none⟩ [104, 105] 1 1) := by decide +kernel
  have hr2 : posixChown pxStore px2Adm 1000 (-1) (walkPath pxStore px2Adm 0 [cA, [113]]) = .fail .ENOENT := by
    decide +kernel
  have hr3 : posixChown pxStore exView 1000 1000 (walkPath pxStore exView 0 [cA, [102]]) = .fail .EPERM := by
    decide +kernel
  have h1 := chown_posix pxStore 0 px2Adm pxStore_wf.1 pxStore_wf.2 px2Adm_ok rfl [cA, [102]] (by decide)
    (by decide) 1000 (-1) .eval (Or.inl rfl)
  have h2 := chown_posix pxStore 0 px2Adm pxStore_wf.1 pxStore_wf.2 px2Adm_ok rfl [cA, [113]] (by decide)
    (by decide) 1000 (-1) .eval (Or.inl rfl)
  have h3 := chown_posix pxStore 0 exView pxStore_wf.1 pxStore_wf.2 pxView_ok rfl [cA, [102]] (by decide)
    (by decide) 1000 1000 .lstat (Or.inr hr3)
  simp only [hr1] at h1
  simp only [hr2] at h2
  simp only [hr3] at h3
  exact ⟨h1, h2, h3⟩

/-- CORNER (error precedence, finding): Chown("/a/q", 1000, 1000) by the user 1000 on the missing "/a/q": chown(2)
    says ENOENT, MemFS EPERM. History: memfs.New(); as root Mkdir("/a", 0755); as user 1000 Chown("/a/q", 1000, 1000). -/
theorem chown_user_noent :
    posixChown pxStore exView 1000 1000 (walkPath pxStore exView 0 [cA, [113]]) = .fail .ENOENT ∧
    chown pxStore exView [SL, 97, SL, 113] 1000 1000 .eval = (pxStore, .err .EPERM) := by
  decide +kernel

/-- the heap after OpenFile("/tmp/x", O_WRONLY|O_CREATE|O_EXCL, 0644) by the user 1000 (first example of section 1):
    inode 10 is "/tmp/x", owned by 1000:1000 -/
@[irreducible] def px2Store : Store := (openFile pxStore exView 0 [SL, 116, 109, 112, SL, 120] 0xC1 0o644).1

/-- CORNER (finding): the owner's Chown(path, -1, -1) and Chown(path, own uid, own gid) — permitted by chown(2),
    where they change nothing — are refused with EPERM. History: memfs.New(); as user 1000
    OpenFile("/tmp/x", O_WRONLY|O_CREATE|O_EXCL, 0644), Chown("/tmp/x", -1, -1) = EPERM. -/
theorem chown_owner_refused :
    posixChown px2Store exView (-1) (-1) (walkPath px2Store exView 0 [cTmp, [120]]) =
      .update 10 (.file ⟨0o644, 1000, 1000, none⟩ [] 1 3) ∧
    px2Store.get 10 = some (.file ⟨0o644, 1000, 1000, none⟩ [] 1 3) ∧
    chown px2Store exView [SL, 116, 109, 112, SL, 120] (-1) (-1) .eval = (px2Store, .err .EPERM) ∧
    chown px2Store exView [SL, 116, 109, 112, SL, 120] 1000 1000 .eval = (px2Store, .err .EPERM) := by
  decide +kernel

/-! ### 4. rename(2) -/

/-- a component list is determined by the path it spells -/
theorem px2_sep_split : ∀ (a b x y : Bytes), (∀ z ∈ a, z ≠ SL) → (∀ z ∈ b, z ≠ SL) →
    a ++ SL :: x = b ++ SL :: y → a = b ∧ x = y := by
  intro a
  induction a with
  | nil =>
    intro b x y _ hb h
    cases b with
    | nil => simpa using h
    | cons b0 bs =>
      simp only [List.nil_append, List.cons_append, List.cons.injEq] at h
      exact absurd h.1.symm (hb b0 (by simp))
  | cons a0 as ih =>
    intro b x y ha hb h
    cases b with
    | nil =>
      simp only [List.nil_append, List.cons_append, List.cons.injEq] at h
      exact absurd h.1 (ha a0 (by simp))
    | cons b0 bs =>
      simp only [List.cons_append, List.cons.injEq] at h
      obtain ⟨h0, ht⟩ := h
      obtain ⟨h1, h2⟩ := ih bs x y (fun z hz => ha z (by simp [hz])) (fun z hz => hb z (by simp [hz])) ht
      exact ⟨by rw [h0, h1], h2⟩

theorem px2_no_sep (a b y : Bytes) (ha : ∀ z ∈ a, z ≠ SL) : a ≠ b ++ SL :: y := by
  intro h
  exact ha SL (by rw [h]; simp) rfl

theorem joinWith_inj : ∀ (cs1 cs2 : List Bytes), (∀ c ∈ cs1, c ≠ [] ∧ ∀ x ∈ c, x ≠ SL) →
    (∀ c ∈ cs2, c ≠ [] ∧ ∀ x ∈ c, x ≠ SL) → joinWith SL cs1 = joinWith SL cs2 → cs1 = cs2 := by
  intro cs1
  induction cs1 with
  | nil =>
    intro cs2 _ h2 h
    cases cs2 with
    | nil => rfl
    | cons b bs =>
      cases bs with
      | nil => exact absurd h.symm (h2 b (by simp)).1
      | cons b2 bs => rw [joinWith_cons_cons] at h; simp [joinWith] at h
  | cons a as ih =>
    intro cs2 h1 h2 h
    have ha := h1 a (by simp)
    cases as with
    | nil =>
      cases cs2 with
      | nil => exact absurd h ha.1
      | cons b bs =>
        cases bs with
        | nil => simp only [joinWith] at h; rw [h]
        | cons b2 bs =>
          rw [joinWith_cons_cons] at h
          simp only [joinWith] at h
          exact absurd h (px2_no_sep a b _ ha.2)
    | cons a2 as =>
      rw [joinWith_cons_cons] at h
      cases cs2 with
      | nil => simp [joinWith] at h
      | cons b bs =>
        have hb := h2 b (by simp)
        cases bs with
        | nil =>
          simp only [joinWith] at h
          exact absurd h.symm (px2_no_sep b a _ hb.2)
        | cons b2 bs =>
          rw [joinWith_cons_cons] at h
          obtain ⟨e1, e2⟩ := px2_sep_split a b _ _ ha.2 hb.2 h
          have := ih (b2 :: bs) (fun c hc => h1 c (by simp at hc ⊢; exact Or.inr hc))
            (fun c hc => h2 c (by simp at hc ⊢; exact Or.inr hc)) e2
          rw [e1, this]

theorem joinWith_append_cons : ∀ (as : List Bytes), as ≠ [] → ∀ (b : Bytes) (bs : List Bytes),
    joinWith SL (as ++ b :: bs) = joinWith SL as ++ SL :: joinWith SL (b :: bs) := by
  intro as
  induction as with
  | nil => intro h; exact absurd rfl h
  | cons a as ih =>
    intro _ b bs
    cases as with
    | nil => simp [joinWith]
    | cons a2 as' =>
      have := ih (by simp) b bs
      simp only [List.cons_append] at this ⊢
      rw [joinWith_cons_cons, this, joinWith_cons_cons]
      simp

theorem below_of_prefix : ∀ (cso csn : List Bytes), cso ≠ [] → (∀ c ∈ cso, c ≠ [] ∧ ∀ x ∈ c, x ≠ SL) →
    (∀ c ∈ csn, c ≠ [] ∧ ∀ x ∈ c, x ≠ SL) → ∀ t, joinWith SL cso ++ SL :: t = joinWith SL csn →
    ∃ b bs, csn = cso ++ b :: bs := by
  intro cso
  induction cso with
  | nil => intro _ h; exact absurd rfl h
  | cons a as ih =>
    intro csn _ h1 h2 t h
    have ha := h1 a (by simp)
    cases as with
    | nil =>
      simp only [joinWith] at h
      cases csn with
      | nil => simp [joinWith] at h
      | cons b bs =>
        have hb := h2 b (by simp)
        cases bs with
        | nil =>
          simp only [joinWith] at h
          exact absurd h.symm (px2_no_sep b a t hb.2)
        | cons b2 bs =>
          rw [joinWith_cons_cons] at h
          obtain ⟨e1, _⟩ := px2_sep_split a b _ _ ha.2 hb.2 h
          exact ⟨b2, bs, by rw [e1]; rfl⟩
    | cons a2 as' =>
      rw [joinWith_cons_cons, List.append_assoc, List.cons_append] at h
      cases csn with
      | nil => simp [joinWith] at h
      | cons b bs =>
        have hb := h2 b (by simp)
        cases bs with
        | nil =>
          simp only [joinWith] at h
          exact absurd h.symm (px2_no_sep b a _ hb.2)
        | cons b2 bs =>
          rw [joinWith_cons_cons] at h
          obtain ⟨e1, e2⟩ := px2_sep_split a b _ _ ha.2 hb.2 h
          obtain ⟨x, xs, hx⟩ := ih (b2 :: bs) (by simp) (fun c hc => h1 c (by simp at hc ⊢; exact Or.inr hc))
            (fun c hc => h2 c (by simp at hc ⊢; exact Or.inr hc)) t e2
          exact ⟨x, xs, by rw [e1, hx]; rfl⟩

/-- the test of MemFS "the new path continues the old path and a separator" is: the old components are a proper
    prefix of the new ones -/
theorem below_eq (cso csn : List Bytes) (hne : cso ≠ []) (h1 : ∀ c ∈ cso, c ≠ [] ∧ ∀ x ∈ c, x ≠ SL)
    (h2 : ∀ c ∈ csn, c ≠ [] ∧ ∀ x ∈ c, x ≠ SL) :
    ((SL :: joinWith SL cso) ++ [SL]).isPrefixOf (SL :: joinWith SL csn) = (cso.isPrefixOf csn && cso != csn) := by
  rw [Bool.eq_iff_iff]
  simp only [List.cons_append, List.isPrefixOf_cons_cons, beq_self_eq_true, Bool.true_and, List.isPrefixOf_iff_prefix,
    Bool.and_eq_true, bne_iff_ne, ne_eq]
  constructor
  · rintro ⟨t, ht⟩
    obtain ⟨b, bs, hb⟩ := below_of_prefix cso csn hne h1 h2 t (by simpa using ht)
    refine ⟨⟨b :: bs, hb.symm⟩, ?_⟩
    intro h
    rw [h] at hb
    have := congrArg List.length hb
    simp at this
  · rintro ⟨⟨r, hr⟩, hne'⟩
    cases r with
    | nil => simp at hr; exact absurd hr hne'
    | cons b bs =>
      rw [← hr, joinWith_append_cons cso hne b bs]
      exact ⟨joinWith SL (b :: bs), by simp⟩

inductive RenameRef
  | fail (e : Err)
  | noop                                                  -- success, nothing changes
  | move (opar npar node : Ino) (replaced : Option Ino)   -- the entry of `opar` goes, `npar` gets an entry for `node`,
                                                          -- the node the new name designated before is released
  | outside                                               -- a symbolic link on the way: not covered
  deriving DecidableEq, Repr

/-- the reference. `same`: both paths are the same path; `below`: the old path is a proper prefix of the new one.
    * both paths are resolved, the old one first; the old entry must exist; all but the last component of the new one
      must (ENOENT / ENOTDIR / EACCES);
    * both directories must be writable (EACCES);
    * the same path: success without effect;
    * restricted deletion (S_ISVTX of a directory, `restrictedDeletion`): the entry that leaves the old directory and
      the entry that is replaced in the new one (EPERM);
    * a regular file replaces a regular file — the same file under another name: success without effect —, never a
      directory (EISDIR);
    * a directory does not go below itself (EINVAL); it replaces an empty directory, never a file (ENOTDIR) nor a
      directory with entries (EEXIST, which POSIX allows for ENOTEMPTY). -/
def posixRename (s : Store) (v : View) (same below : Bool) (old new : Resolved) : RenameRef :=
  match old with
  | .found opar oc =>
    match new with
    | .found npar nc =>
      if !dirPerm s opar omWrite v then .fail .EACCES else
      if !dirPerm s npar omWrite v then .fail .EACCES else
      if same then .noop else
      if restrictedDeletion s v opar oc then .fail .EPERM else
      if restrictedDeletion s v npar nc then .fail .EPERM else
      match s.get oc with
      | some (.file _ _ _ _) =>
        match s.get nc with
        | some (.file _ _ _ _) => if nc == oc then .noop else .move opar npar oc (some nc)
        | some (.dir _ _) => .fail .EISDIR
        | _ => .outside
      | some (.dir _ _) =>
        if below then .fail .EINVAL else
        match s.get nc with
        | some (.file _ _ _ _) => .fail .ENOTDIR
        | some (.dir _ ch) => if (alKeys ch).length != 0 then .fail .EEXIST else .move opar npar oc (some nc)
        | _ => .outside
      | _ => .outside
    | .missingLast npar _ =>
      if !dirPerm s opar omWrite v then .fail .EACCES else
      if !dirPerm s npar omWrite v then .fail .EACCES else
      if restrictedDeletion s v opar oc then .fail .EPERM else
      match s.get oc with
      | some (.file _ _ _ _) => .move opar npar oc none
      | some (.dir _ _) => if below then .fail .EINVAL else .move opar npar oc none
      | _ => .outside
    | .missingDir => .fail .ENOENT
    | .notDir => .fail .ENOTDIR
    | .denied => .fail .EACCES
    | .viaLink => .outside
  | .missingLast _ _ => .fail .ENOENT
  | .missingDir => .fail .ENOENT
  | .notDir => .fail .ENOTDIR
  | .denied => .fail .EACCES
  | .viaLink => .outside

/-- the effect of a rename: the replaced node is released once (`deleteNode`: a file loses one link, a directory is
    empty already), the new name designates the moved node, the old name is gone; the moved node itself is untouched -/
def renamed (s : Store) (opar : Ino) (oname : Bytes) (npar : Ino) (nname : Bytes) (node : Ino)
    (replaced : Option Ino) : Store :=
  let s' := match replaced with | some nc => deleteNode s nc | none => s
  removeChild (addChild s' npar nname node) opar oname

/-- CORNERS of MemFS (findings): the new entry EXISTS and the reference answers EISDIR (file onto directory), ENOTDIR
    (directory onto file), EINVAL (directory onto an entry below itself) or lets a directory replace an empty
    directory. In all of them MemFS answers EEXIST (`rename_corner_eexist`). -/
def renameCorner (s : Store) (old new : Resolved) (r : RenameRef) : Bool :=
  match old, new with
  | .found _ oc, .found _ _ =>
    match r with
    | .fail .EISDIR => true
    | .fail .ENOTDIR => true
    | .fail .EINVAL => true
    | .move _ _ _ (some _) => isDirAt s oc
    | _ => false
  | _, _ => false

/-- core: what Rename of MemFS does, case by case of the reference -/
theorem rename_core (s : Store) (root : Ino) (v : View) (hwf : WF s root)
    (hvr : ∃ m ch, s.get v.root = some (.dir m ch)) (cso csn : List Bytes) (hneo : cso ≠ []) (hnen : csn ≠ [])
    (hallo : ∀ c ∈ cso, c ≠ [] ∧ ∀ x ∈ c, x ≠ SL) (hdotso : ∀ c ∈ cso, c ≠ [DOT] ∧ c ≠ [DOT, DOT])
    (halln : ∀ c ∈ csn, c ≠ [] ∧ ∀ x ∈ c, x ≠ SL) (hdotsn : ∀ c ∈ csn, c ≠ [DOT] ∧ c ≠ [DOT, DOT]) :
    if renameCorner s (walkPath s v v.root cso) (walkPath s v v.root csn)
        (posixRename s v (decide (cso = csn)) (cso.isPrefixOf csn && cso != csn)
          (walkPath s v v.root cso) (walkPath s v v.root csn)) = true
    then rename s v (SL :: joinWith SL cso) (SL :: joinWith SL csn) = (s, .err .EEXIST)
    else
    match posixRename s v (decide (cso = csn)) (cso.isPrefixOf csn && cso != csn)
      (walkPath s v v.root cso) (walkPath s v v.root csn) with
    | .fail e => rename s v (SL :: joinWith SL cso) (SL :: joinWith SL csn) = (s, .err e)
    | .noop => rename s v (SL :: joinWith SL cso) (SL :: joinWith SL csn) = (s, .ok .unit)
    | .move opar npar oc repl => rename s v (SL :: joinWith SL cso) (SL :: joinWith SL csn) =
        (renamed s opar (cso.getLast hneo) npar (csn.getLast hnen) oc repl, .ok .unit)
    | .outside => True := by
  have ho := searchNode_facts s root v hwf hvr cso hneo hallo hdotso .lstat
  have hn := searchNode_facts s root v hwf hvr csn hnen halln hdotsn .lstat
  have hsame : (SL :: joinWith SL cso == SL :: joinWith SL csn) = decide (cso = csn) := by
    by_cases h : cso = csn
    · simp [h]
    · have : joinWith SL cso ≠ joinWith SL csn := fun hj => h (joinWith_inj cso csn hallo halln hj)
      simp [h, this]
  have hbelow := below_eq cso csn hneo hallo halln
  generalize (cso.isPrefixOf csn && cso != csn) = bl at hbelow ⊢
  cases hwo : walkPath s v v.root cso with
  | found opar oc =>
    simp only [hwo, WalkFacts] at ho
    obtain ⟨hoe, hoc, hopar, hopart, holast, hopath, hoedge, hopd, hons, hoalloc⟩ := ho
    have hocne : oc ≠ opar := by
      intro h
      exact no_self_edge hwf hopd (n := cso.getLast hneo) (h ▸ hoedge)
    cases hwn : walkPath s v v.root csn with
    | found npar nc =>
      simp only [hwn, WalkFacts] at hn
      obtain ⟨hne, hnc, hnpar, hnpart, hnlast, hnpath, hnedge, hnpd, hnns, hnalloc⟩ := hn
      simp only [posixRename, renameCorner]
      by_cases hd1 : dirPerm s opar omWrite v = true
      · by_cases hd2 : dirPerm s npar omWrite v = true
        · by_cases hs : cso = csn
          · simp [rename, hoe, hne, hopar, hnpar, hd1, hd2, hopath, hnpath, hs]
          · have hs' : (SL :: joinWith SL cso == SL :: joinWith SL csn) = false := by rw [hsame]; simp [hs]
            by_cases hr1 : restrictedDeletion s v opar oc = true
            · simp [rename, hoe, hne, hopar, hnpar, hd1, hd2, hopath, hnpath, hs, hs', hoc, hr1]
            · by_cases hr2 : restrictedDeletion s v npar nc = true
              · simp [rename, hoe, hne, hopar, hnpar, hd1, hd2, hopath, hnpath, hs, hs', hoc, hr1, hnc, hr2]
              · obtain ⟨no, hgo⟩ := Option.isSome_iff_exists.mp hoalloc
                obtain ⟨nn, hgn⟩ := Option.isSome_iff_exists.mp hnalloc
                simp only [hgo, hgn]
                · cases no with
                  | symlink ms lk => exact absurd hgo (hons ms lk)
                  | dir md chd =>
                    have hm : rename s v (SL :: joinWith SL cso) (SL :: joinWith SL csn) = (s, .err .EEXIST) := by
                      simp [rename, hoe, hne, hopar, hnpar, hd1, hd2, hopath, hnpath, hs, hs', hoc, hr1, hnc, hr2,
                        hgo, SErr.toErr]
                    by_cases hb : bl = true
                    · simp [hd1, hd2, hs, hr1, hr2, hb, hm]
                    · cases nn with
                        | symlink ms lk => exact absurd hgn (hnns ms lk)
                        | file mf2 df2 nl2 id2 => simp [hd1, hd2, hs, hr1, hr2, hb, hm]
                        | dir md2 chd2 =>
                          by_cases hemp : (alKeys chd2).length = 0
                          · simp [hd1, hd2, hs, hr1, hr2, hb, hm, hemp, isDirAt, hgo]
                          · simp [hd1, hd2, hs, hr1, hr2, hb, hm, hemp]
                  | file mf df nl id =>
                    · cases nn with
                      | symlink ms lk => exact absurd hgn (hnns ms lk)
                      | dir md chd =>
                        simp [rename, hoe, hne, hopar, hnpar, hd1, hd2, hopath, hnpath, hs, hs', hoc, hr1, hnc, hr2,
                          hgo, hgn, SErr.toErr]
                      | file mf2 df2 nl2 id2 =>
                        by_cases heq : nc = oc
                        · subst heq
                          simp [rename, hoe, hne, hopar, hnpar, hd1, hd2, hopath, hnpath, hs, hs', hoc, hr1, hnc, hr2,
                            hgo]
                        · simp [rename, hoe, hne, hopar, hnpar, hd1, hd2, hopath, hnpath, hs, hs', hoc, hr1, hnc, hr2,
                            hgo, hgn, heq, renamed, hopart, hnpart, isDirAt]
        · have hpne : npar ≠ opar := fun h => hd2 (h ▸ hd1)
          simp [rename, hoe, hne, hopar, hnpar, hd1, hd2, hpne]
      · simp [rename, hoe, hne, hopar, hnpar, hd1]
    | missingLast npar nname =>
      simp only [hwn, WalkFacts] at hn
      obtain ⟨hne, hnc, hnpar, hnpart, hnlast, hnpath, hnname, hnnone, hnpd⟩ := hn
      have hs : cso ≠ csn := by
        intro h
        rw [h, hwn] at hwo
        cases hwo
      have hs' : (SL :: joinWith SL cso == SL :: joinWith SL csn) = false := by rw [hsame]; simp [hs]
      simp only [posixRename, renameCorner]
      by_cases hd1 : dirPerm s opar omWrite v = true
      · by_cases hd2 : dirPerm s npar omWrite v = true
        · by_cases hr1 : restrictedDeletion s v opar oc = true
          · simp [rename, hoe, hne, hopar, hnpar, hd1, hd2, hopath, hnpath, hs', hoc, hr1, hnlast]
          · cases hgo : s.get oc with
            | none => simp [hgo] at hoalloc
            | some no =>
              cases no with
              | symlink ms lk => exact absurd hgo (hons ms lk)
              | dir md chd =>
                by_cases hb : bl = true
                · have hb' : joinWith SL cso ++ [SL] <+: joinWith SL csn := by
                    rw [hb] at hbelow
                    simpa using hbelow
                  simp [rename, hoe, hne, hopar, hnpar, hd1, hd2, hopath, hnpath, hs', hoc, hr1, hnlast, hnc, hgo,
                    hb, hb', hocne]
                · have hb' : bl = false := by simpa using hb
                  have hb'' : ¬ joinWith SL cso ++ [SL] <+: joinWith SL csn := by
                    rw [hb'] at hbelow
                    intro hpre
                    rw [← List.isPrefixOf_iff_prefix] at hpre
                    simp [hpre] at hbelow
                  simp [rename, hoe, hne, hopar, hnpar, hd1, hd2, hopath, hnpath, hs', hoc, hr1, hnlast, hnc, hgo,
                    hb', hb'', hocne, renamed, hopart, hnpart]
              | file mf df nl id =>
                simp [rename, hoe, hne, hopar, hnpar, hd1, hd2, hopath, hnpath, hs', hoc, hr1, hnlast, hnc, hgo,
                  renamed, hopart, hnpart]
        · have hpne : npar ≠ opar := fun h => hd2 (h ▸ hd1)
          simp [rename, hoe, hne, hopar, hnpar, hd1, hd2, hpne, hnlast]
      · simp [rename, hoe, hne, hopar, hnpar, hd1, hnlast]
    | missingDir =>
      simp only [hwn, WalkFacts] at hn
      simp [posixRename, renameCorner, rename, hoe, hn.1, hn.2, SErr.toErr]
    | notDir =>
      simp only [hwn, WalkFacts] at hn
      simp [posixRename, renameCorner, rename, hoe, hn, SErr.toErr]
    | denied =>
      simp only [hwn, WalkFacts] at hn
      simp [posixRename, renameCorner, rename, hoe, hn, SErr.toErr]
    | viaLink => simp [posixRename, renameCorner]
  | missingLast par name =>
    simp only [hwo, WalkFacts] at ho
    simp [posixRename, renameCorner, rename, ho.1, SErr.toErr]
  | missingDir =>
    simp only [hwo, WalkFacts] at ho
    simp [posixRename, renameCorner, rename, ho.1, SErr.toErr]
  | notDir =>
    simp only [hwo, WalkFacts] at ho
    simp [posixRename, renameCorner, rename, ho, SErr.toErr]
  | denied =>
    simp only [hwo, WalkFacts] at ho
    simp [posixRename, renameCorner, rename, ho, SErr.toErr]
  | viaLink => simp [posixRename, renameCorner]

/-- GENERAL form (view rooted at any directory) -/
theorem rename_posix_gen (s : Store) (root : Ino) (v : View) (hwf : WF s root)
    (hvr : ∃ m ch, s.get v.root = some (.dir m ch)) (cso csn : List Bytes) (hneo : cso ≠ []) (hnen : csn ≠ [])
    (hallo : ∀ c ∈ cso, c ≠ [] ∧ ∀ x ∈ c, x ≠ SL) (hdotso : ∀ c ∈ cso, c ≠ [DOT] ∧ c ≠ [DOT, DOT])
    (halln : ∀ c ∈ csn, c ≠ [] ∧ ∀ x ∈ c, x ≠ SL) (hdotsn : ∀ c ∈ csn, c ≠ [DOT] ∧ c ≠ [DOT, DOT])
    (hcorner : renameCorner s (walkPath s v v.root cso) (walkPath s v v.root csn)
      (posixRename s v (decide (cso = csn)) (cso.isPrefixOf csn && cso != csn)
        (walkPath s v v.root cso) (walkPath s v v.root csn)) = false) :
    match posixRename s v (decide (cso = csn)) (cso.isPrefixOf csn && cso != csn)
      (walkPath s v v.root cso) (walkPath s v v.root csn) with
    | .fail e => rename s v (SL :: joinWith SL cso) (SL :: joinWith SL csn) = (s, .err e)
    | .noop => rename s v (SL :: joinWith SL cso) (SL :: joinWith SL csn) = (s, .ok .unit)
    | .move opar npar oc repl => rename s v (SL :: joinWith SL cso) (SL :: joinWith SL csn) =
        (renamed s opar (cso.getLast hneo) npar (csn.getLast hnen) oc repl, .ok .unit)
    | .outside => True := by
  have h := rename_core s root v hwf hvr cso csn hneo hnen hallo hdotso halln hdotsn
  rw [hcorner] at h
  exact h

/-- Rename of MemFS is rename(2) of the reference: same error; or success without effect (same path, or two names of
    the same file); or the entry named by the last component of the old path leaves its directory, the last component
    of the new path designates the moved node in the directory the rest of it resolves to, and the node that name
    designated before is released once (`renamed`). Sources: regular files and directories; the restricted-deletion
    rule of sticky directories is part of the statement (`rename_sticky_refused`).
    Excluded (`hcorner`, see `renameCorner`): an EXISTING new entry for which the reference answers EISDIR, ENOTDIR,
    EINVAL or lets a directory replace an empty directory — MemFS answers EEXIST (`rename_corner_eexist`).
    "/" as old or new path is excluded by `hneo` / `hnen`. -/
theorem rename_posix (s : Store) (root : Ino) (v : View) (hwf : WF s root) (hn : NamesOK s) (hv : ViewOK s v)
    (hroot : v.root = root) (cso csn : List Bytes) (hneo : cso ≠ []) (hnen : csn ≠ [])
    (hallo : ∀ c ∈ cso, c ≠ [] ∧ ∀ x ∈ c, x ≠ SL) (hdotso : ∀ c ∈ cso, c ≠ [DOT] ∧ c ≠ [DOT, DOT])
    (halln : ∀ c ∈ csn, c ≠ [] ∧ ∀ x ∈ c, x ≠ SL) (hdotsn : ∀ c ∈ csn, c ≠ [DOT] ∧ c ≠ [DOT, DOT])
    (hcorner : renameCorner s (walkPath s v root cso) (walkPath s v root csn)
      (posixRename s v (decide (cso = csn)) (cso.isPrefixOf csn && cso != csn)
        (walkPath s v root cso) (walkPath s v root csn)) = false) :
    match posixRename s v (decide (cso = csn)) (cso.isPrefixOf csn && cso != csn)
      (walkPath s v root cso) (walkPath s v root csn) with
    | .fail e => rename s v (SL :: joinWith SL cso) (SL :: joinWith SL csn) = (s, .err e)
    | .noop => rename s v (SL :: joinWith SL cso) (SL :: joinWith SL csn) = (s, .ok .unit)
    | .move opar npar oc repl => rename s v (SL :: joinWith SL cso) (SL :: joinWith SL csn) =
        (renamed s opar (cso.getLast hneo) npar (csn.getLast hnen) oc repl, .ok .unit)
    | .outside => True := by
  subst hroot
  exact rename_posix_gen s v.root v hwf (get_of_isDirAt hwf.rootDir) cso csn hneo hnen hallo hdotso halln hdotsn hcorner

/-- DIVERGENCE (findings, general form): in the corners MemFS answers EEXIST and changes nothing -/
theorem rename_corner_eexist (s : Store) (root : Ino) (v : View) (hwf : WF s root) (hn : NamesOK s) (hv : ViewOK s v)
    (hroot : v.root = root) (cso csn : List Bytes) (hneo : cso ≠ []) (hnen : csn ≠ [])
    (hallo : ∀ c ∈ cso, c ≠ [] ∧ ∀ x ∈ c, x ≠ SL) (hdotso : ∀ c ∈ cso, c ≠ [DOT] ∧ c ≠ [DOT, DOT])
    (halln : ∀ c ∈ csn, c ≠ [] ∧ ∀ x ∈ c, x ≠ SL) (hdotsn : ∀ c ∈ csn, c ≠ [DOT] ∧ c ≠ [DOT, DOT])
    (hcorner : renameCorner s (walkPath s v root cso) (walkPath s v root csn)
      (posixRename s v (decide (cso = csn)) (cso.isPrefixOf csn && cso != csn)
        (walkPath s v root cso) (walkPath s v root csn)) = true) :
    rename s v (SL :: joinWith SL cso) (SL :: joinWith SL csn) = (s, .err .EEXIST) := by
  subst hroot
  have h := rename_core s v.root v hwf (get_of_isDirAt hwf.rootDir) cso csn hneo hnen hallo hdotso halln hdotsn
  rw [hcorner] at h
  exact h

/-! #### rename(2) on concrete heaps -/

def cB : Bytes := [98]
def cF : Bytes := [102]
def cG : Bytes := [103]
def cH : Bytes := [104]
def cD : Bytes := [100]
def cE : Bytes := [101]

/-- by the administrator: Rename("/a/f", "/tmp/h") moves the entry (inode 6) from /a (4) to /tmp (3);
    Rename("/a/f", "/tmp/g") replaces the file "/tmp/g" (9), which is released; Rename("/a/f", "/a/f") does nothing;
    Rename("/a/b", "/tmp/b") moves the directory 5 -/
example : rename pxStore px2Adm [SL, 97, SL, 102] [SL, 116, 109, 112, SL, 104] =
      (renamed pxStore 4 [102] 3 [104] 6 none, .ok .unit) ∧
    rename pxStore px2Adm [SL, 97, SL, 102] [SL, 116, 109, 112, SL, 103] =
      (renamed pxStore 4 [102] 3 [103] 6 (some 9), .ok .unit) ∧
    rename pxStore px2Adm [SL, 97, SL, 102] [SL, 97, SL, 102] = (pxStore, .ok .unit) ∧
    rename pxStore px2Adm [SL, 97, SL, 98] [SL, 116, 109, 112, SL, 98] =
      (renamed pxStore 4 [98] 3 [98] 5 none, .ok .unit) := by
  have h1 := rename_posix pxStore 0 px2Adm pxStore_wf.1 pxStore_wf.2 px2Adm_ok rfl [cA, cF] [cTmp, cH] (by simp)
    (by simp) (by decide) (by decide) (by decide) (by decide) (by decide +kernel)
  have h2 := rename_posix pxStore 0 px2Adm pxStore_wf.1 pxStore_wf.2 px2Adm_ok rfl [cA, cF] [cTmp, cG] (by simp)
    (by simp) (by decide) (by decide) (by decide) (by decide) (by decide +kernel)
  have h3 := rename_posix pxStore 0 px2Adm pxStore_wf.1 pxStore_wf.2 px2Adm_ok rfl [cA, cF] [cA, cF] (by simp)
    (by simp) (by decide) (by decide) (by decide) (by decide) (by decide +kernel)
  have h4 := rename_posix pxStore 0 px2Adm pxStore_wf.1 pxStore_wf.2 px2Adm_ok rfl [cA, cB] [cTmp, cB] (by simp)
    (by simp) (by decide) (by decide) (by decide) (by decide) (by decide +kernel)
  have hr1 : posixRename pxStore px2Adm (decide ([cA, cF] = [cTmp, cH])) (([cA, cF]).isPrefixOf [cTmp, cH] &&
      [cA, cF] != [cTmp, cH]) (walkPath pxStore px2Adm 0 [cA, cF]) (walkPath pxStore px2Adm 0 [cTmp, cH]) =
      .move 4 3 6 none := by decide +kernel
  have hr2 : posixRename pxStore px2Adm (decide ([cA, cF] = [cTmp, cG])) (([cA, cF]).isPrefixOf [cTmp, cG] &&
      [cA, cF] != [cTmp, cG]) (walkPath pxStore px2Adm 0 [cA, cF]) (walkPath pxStore px2Adm 0 [cTmp, cG]) =
      .move 4 3 6 (some 9) := by decide +kernel
  have hr3 : posixRename pxStore px2Adm (decide ([cA, cF] = [cA, cF])) (([cA, cF]).isPrefixOf [cA, cF] &&
      [cA, cF] != [cA, cF]) (walkPath pxStore px2Adm 0 [cA, cF]) (walkPath pxStore px2Adm 0 [cA, cF]) =
      .noop := by decide +kernel
  have hr4 : posixRename pxStore px2Adm (decide ([cA, cB] = [cTmp, cB])) (([cA, cB]).isPrefixOf [cTmp, cB] &&
      [cA, cB] != [cTmp, cB]) (walkPath pxStore px2Adm 0 [cA, cB]) (walkPath pxStore px2Adm 0 [cTmp, cB]) =
      .move 4 3 5 none := by decide +kernel
  rw [hr1] at h1
  rw [hr2] at h2
  rw [hr3] at h3
  rw [hr4] at h4
  exact ⟨h1, h2, h3, h4⟩

/-- errors: the user may not write "/a" (EACCES); "/tmp/y" does not exist (ENOENT); "/a/q/h" has a missing directory
    (ENOENT), "/a/f/h" a file as directory (ENOTDIR); a directory does not go below itself (EINVAL); a directory does
    not replace a directory with entries (EEXIST) -/
example : rename pxStore exView [SL, 97, SL, 102] [SL, 116, 109, 112, SL, 104] = (pxStore, .err .EACCES) ∧
    rename pxStore exView [SL, 116, 109, 112, SL, 121] [SL, 116, 109, 112, SL, 104] = (pxStore, .err .ENOENT) ∧
    rename pxStore px2Adm [SL, 116, 109, 112, SL, 103] [SL, 97, SL, 113, SL, 104] = (pxStore, .err .ENOENT) ∧
    rename pxStore px2Adm [SL, 116, 109, 112, SL, 103] [SL, 97, SL, 102, SL, 104] = (pxStore, .err .ENOTDIR) ∧
    rename pxStore px2Adm [SL, 116, 109, 112, SL, 100] [SL, 116, 109, 112, SL, 100, SL, 101, SL, 104] =
      (pxStore, .err .EINVAL) ∧
    rename pxStore px2Adm [SL, 97, SL, 98] [SL, 116, 109, 112, SL, 100] = (pxStore, .err .EEXIST) := by
  have h1 := rename_posix pxStore 0 exView pxStore_wf.1 pxStore_wf.2 pxView_ok rfl [cA, cF] [cTmp, cH] (by simp)
    (by simp) (by decide) (by decide) (by decide) (by decide) (by decide +kernel)
  have h2 := rename_posix pxStore 0 exView pxStore_wf.1 pxStore_wf.2 pxView_ok rfl [cTmp, [121]] [cTmp, cH] (by simp)
    (by simp) (by decide) (by decide) (by decide) (by decide) (by decide +kernel)
  have h3 := rename_posix pxStore 0 px2Adm pxStore_wf.1 pxStore_wf.2 px2Adm_ok rfl [cTmp, cG] [cA, [113], cH] (by simp)
    (by simp) (by decide) (by decide) (by decide) (by decide) (by decide +kernel)
  have h4 := rename_posix pxStore 0 px2Adm pxStore_wf.1 pxStore_wf.2 px2Adm_ok rfl [cTmp, cG] [cA, cF, cH] (by simp)
    (by simp) (by decide) (by decide) (by decide) (by decide) (by decide +kernel)
  have h5 := rename_posix pxStore 0 px2Adm pxStore_wf.1 pxStore_wf.2 px2Adm_ok rfl [cTmp, cD] [cTmp, cD, cE, cH]
    (by simp) (by simp) (by decide) (by decide) (by decide) (by decide) (by decide +kernel)
  have h6 := rename_posix pxStore 0 px2Adm pxStore_wf.1 pxStore_wf.2 px2Adm_ok rfl [cA, cB] [cTmp, cD]
    (by simp) (by simp) (by decide) (by decide) (by decide) (by decide) (by decide +kernel)
  have hr1 : posixRename pxStore exView (decide ([cA, cF] = [cTmp, cH])) (([cA, cF]).isPrefixOf [cTmp, cH] &&
      [cA, cF] != [cTmp, cH]) (walkPath pxStore exView 0 [cA, cF]) (walkPath pxStore exView 0 [cTmp, cH]) =
      .fail .EACCES := by decide +kernel
  have hr2 : posixRename pxStore exView (decide ([cTmp, [121]] = [cTmp, cH])) (([cTmp, [121]]).isPrefixOf [cTmp, cH] &&
      [cTmp, [121]] != [cTmp, cH]) (walkPath pxStore exView 0 [cTmp, [121]]) (walkPath pxStore exView 0 [cTmp, cH]) =
      .fail .ENOENT := by decide +kernel
  have hr3 : posixRename pxStore px2Adm (decide ([cTmp, cG] = [cA, [113], cH]))
      (([cTmp, cG]).isPrefixOf [cA, [113], cH] && [cTmp, cG] != [cA, [113], cH])
      (walkPath pxStore px2Adm 0 [cTmp, cG]) (walkPath pxStore px2Adm 0 [cA, [113], cH]) =
      .fail .ENOENT := by decide +kernel
  have hr4 : posixRename pxStore px2Adm (decide ([cTmp, cG] = [cA, cF, cH]))
      (([cTmp, cG]).isPrefixOf [cA, cF, cH] && [cTmp, cG] != [cA, cF, cH])
      (walkPath pxStore px2Adm 0 [cTmp, cG]) (walkPath pxStore px2Adm 0 [cA, cF, cH]) =
      .fail .ENOTDIR := by decide +kernel
  have hr5 : posixRename pxStore px2Adm (decide ([cTmp, cD] = [cTmp, cD, cE, cH]))
      (([cTmp, cD]).isPrefixOf [cTmp, cD, cE, cH] && [cTmp, cD] != [cTmp, cD, cE, cH])
      (walkPath pxStore px2Adm 0 [cTmp, cD]) (walkPath pxStore px2Adm 0 [cTmp, cD, cE, cH]) =
      .fail .EINVAL := by decide +kernel
  have hr6 : posixRename pxStore px2Adm (decide ([cA, cB] = [cTmp, cD]))
      (([cA, cB]).isPrefixOf [cTmp, cD] && [cA, cB] != [cTmp, cD])
      (walkPath pxStore px2Adm 0 [cA, cB]) (walkPath pxStore px2Adm 0 [cTmp, cD]) =
      .fail .EEXIST := by decide +kernel
  rw [hr1] at h1
  rw [hr2] at h2
  rw [hr3] at h3
  rw [hr4] at h4
  rw [hr5] at h5
  rw [hr6] at h6
  exact ⟨h1, h2, h3, h4, h5, h6⟩

theorem stickyStore_wf : WF stickyStore 0 ∧ NamesOK stickyStore := wfCheck_sound stickyStore 0 (by decide +kernel)
theorem stickyView_ok : ViewOK stickyStore exView := ⟨by decide +kernel, by decide⟩

/-- `px2Store` (the user's file "/tmp/x", inode 10) after the administrator's Chmod("/tmp", 01777) -/
@[irreducible] def px4Store : Store := (chmod px2Store px2Adm [SL, 116, 109, 112] 0o1777).1

theorem px4Store_wf : WF px4Store 0 ∧ NamesOK px4Store := wfCheck_sound px4Store 0 (by decide +kernel)
theorem px4View_ok : ViewOK px4Store exView := ⟨by decide +kernel, by decide⟩

/-- restricted deletion (S_ISVTX) in rename(2): in "/tmp" with mode 01777 the user 1000
    * may not move the administrator's "/tmp/g" away (EPERM),
    * may not replace it by his own "/tmp/x" (EPERM),
    * may rename his own "/tmp/x" to the free name "/tmp/h".
    History: memfs.New(); as root WriteFile("/tmp/g", …, 0600); as user 1000 OpenFile("/tmp/x", O_WRONLY|O_CREATE|O_EXCL,
    0644); as root Chmod("/tmp", 01777); as user 1000 the three calls. -/
theorem rename_sticky_refused :
    rename stickyStore exView [SL, 116, 109, 112, SL, 103] [SL, 116, 109, 112, SL, 104] = (stickyStore, .err .EPERM) ∧
    rename px4Store exView [SL, 116, 109, 112, SL, 120] [SL, 116, 109, 112, SL, 103] = (px4Store, .err .EPERM) ∧
    rename px4Store exView [SL, 116, 109, 112, SL, 120] [SL, 116, 109, 112, SL, 104] =
      (renamed px4Store 3 [120] 3 [104] 10 none, .ok .unit) := by
  have h1 := rename_posix stickyStore 0 exView stickyStore_wf.1 stickyStore_wf.2 stickyView_ok rfl [cTmp, cG] [cTmp, cH]
    (by simp) (by simp) (by decide) (by decide) (by decide) (by decide) (by decide +kernel)
  have h2 := rename_posix px4Store 0 exView px4Store_wf.1 px4Store_wf.2 px4View_ok rfl [cTmp, [120]] [cTmp, cG]
    (by simp) (by simp) (by decide) (by decide) (by decide) (by decide) (by decide +kernel)
  have h3 := rename_posix px4Store 0 exView px4Store_wf.1 px4Store_wf.2 px4View_ok rfl [cTmp, [120]] [cTmp, cH]
    (by simp) (by simp) (by decide) (by decide) (by decide) (by decide) (by decide +kernel)
  have hr1 : posixRename stickyStore exView (decide ([cTmp, cG] = [cTmp, cH]))
      (([cTmp, cG]).isPrefixOf [cTmp, cH] && [cTmp, cG] != [cTmp, cH])
      (walkPath stickyStore exView 0 [cTmp, cG]) (walkPath stickyStore exView 0 [cTmp, cH]) =
      .fail .EPERM := by decide +kernel
  have hr2 : posixRename px4Store exView (decide ([cTmp, [120]] = [cTmp, cG]))
      (([cTmp, [120]]).isPrefixOf [cTmp, cG] && [cTmp, [120]] != [cTmp, cG])
      (walkPath px4Store exView 0 [cTmp, [120]]) (walkPath px4Store exView 0 [cTmp, cG]) =
      .fail .EPERM := by decide +kernel
  have hr3 : posixRename px4Store exView (decide ([cTmp, [120]] = [cTmp, cH]))
      (([cTmp, [120]]).isPrefixOf [cTmp, cH] && [cTmp, [120]] != [cTmp, cH])
      (walkPath px4Store exView 0 [cTmp, [120]]) (walkPath px4Store exView 0 [cTmp, cH]) =
      .move 3 3 10 none := by decide +kernel
  rw [hr1] at h1
  rw [hr2] at h2
  rw [hr3] at h3
  exact ⟨h1, h2, h3⟩

/-- the heap after the administrator's Link("/a/f", "/tmp/h") (example of section 2): inode 6 has two names -/
@[irreducible] def px3Store : Store := (link pxStore px2Adm [SL, 97, SL, 102] [SL, 116, 109, 112, SL, 104]).1

theorem px3Store_wf : WF px3Store 0 ∧ NamesOK px3Store := wfCheck_sound px3Store 0 (by decide +kernel)
theorem px3Adm_ok : ViewOK px3Store px2Adm := ⟨by decide +kernel, by decide⟩

/-- two names of the same file: Rename("/a/f", "/tmp/h") succeeds and changes nothing -/
example : rename px3Store px2Adm [SL, 97, SL, 102] [SL, 116, 109, 112, SL, 104] = (px3Store, .ok .unit) := by
  have h := rename_posix px3Store 0 px2Adm px3Store_wf.1 px3Store_wf.2 px3Adm_ok rfl [cA, cF] [cTmp, cH]
    (by simp) (by simp) (by decide) (by decide) (by decide) (by decide) (by decide +kernel)
  have hr : posixRename px3Store px2Adm (decide ([cA, cF] = [cTmp, cH]))
      (([cA, cF]).isPrefixOf [cTmp, cH] && [cA, cF] != [cTmp, cH])
      (walkPath px3Store px2Adm 0 [cA, cF]) (walkPath px3Store px2Adm 0 [cTmp, cH]) = .noop := by decide +kernel
  rw [hr] at h
  exact h

/-- CORNERS (findings) on the concrete heap, by the administrator; MemFS answers EEXIST to all four:
    * Rename("/a/f", "/a/b"), a file onto a directory: rename(2) EISDIR;
    * Rename("/a/b", "/a/f"), a directory onto a file: rename(2) ENOTDIR;
    * Rename("/tmp/d/e", "/a/b"), a directory onto an EMPTY directory: rename(2) replaces "/a/b" (inode 5);
    * Rename("/tmp/d", "/tmp/d/e"), a directory onto an entry below itself: rename(2) EINVAL.
    History: memfs.New(); Mkdir("/a", 0755), Mkdir("/a/b", 0700), WriteFile("/a/f", "hi", 0644), Mkdir("/tmp/d", 0777),
    Mkdir("/tmp/d/e", 0755); then each call. -/
theorem rename_corners :
    (posixRename pxStore px2Adm false false (walkPath pxStore px2Adm 0 [cA, cF]) (walkPath pxStore px2Adm 0 [cA, cB])
        = .fail .EISDIR ∧
      rename pxStore px2Adm [SL, 97, SL, 102] [SL, 97, SL, 98] = (pxStore, .err .EEXIST)) ∧
    (posixRename pxStore px2Adm false false (walkPath pxStore px2Adm 0 [cA, cB]) (walkPath pxStore px2Adm 0 [cA, cF])
        = .fail .ENOTDIR ∧
      rename pxStore px2Adm [SL, 97, SL, 98] [SL, 97, SL, 102] = (pxStore, .err .EEXIST)) ∧
    (posixRename pxStore px2Adm false false (walkPath pxStore px2Adm 0 [cTmp, cD, cE])
        (walkPath pxStore px2Adm 0 [cA, cB]) = .move 7 4 8 (some 5) ∧
      rename pxStore px2Adm [SL, 116, 109, 112, SL, 100, SL, 101] [SL, 97, SL, 98] = (pxStore, .err .EEXIST)) ∧
    (posixRename pxStore px2Adm false true (walkPath pxStore px2Adm 0 [cTmp, cD])
        (walkPath pxStore px2Adm 0 [cTmp, cD, cE]) = .fail .EINVAL ∧
      rename pxStore px2Adm [SL, 116, 109, 112, SL, 100] [SL, 116, 109, 112, SL, 100, SL, 101] =
        (pxStore, .err .EEXIST)) := by
  decide +kernel

/-- REMARK (order of checks; POSIX leaves it open, Linux differs): Rename(p, p) in a directory the caller may not write
    is EACCES on MemFS — the reference checks the permissions before it notices the same path, as MemFS does —, while
    rename(2) on Linux returns 0 for the same inode before any permission check.
    History: memfs.New(); as root Mkdir("/a", 0755), WriteFile("/a/f", "hi", 0644); as user 1000 Rename("/a/f", "/a/f"). -/
theorem rename_same_denied :
    rename pxStore exView [SL, 97, SL, 102] [SL, 97, SL, 102] = (pxStore, .err .EACCES) := by
  decide +kernel

end Avfs.FS
