import Avfs.Lemmas.StepBase
set_option linter.unusedSimpArgs false
set_option linter.unusedVariables false

/-! # No panic, no hang (C07), relative to the walk facts `SearchOK` -/

namespace Avfs.FS
open Avfs.Path

theorem fillStat_eq_none (s : Store) (c : Ino) (n : Bytes) : fillStat s c n = none ↔ s.get c = none := by
  unfold fillStat
  split <;> simp_all

abbrev NP (o : Out) : Prop := o ≠ .panic ∧ o ≠ .hang

theorem stat_np (s : Store) (v : View) (hs : SearchOK s v) (p : Bytes) (m : SlMode) : NP (stat s v p m).2 := by
  have hex := hs.existsChild p m
  unfold stat; simp only []
  generalize searchNode s v p m = r at hex ⊢
  repeat' split
  all_goals simp_all [NP, fillStat_eq_none]

theorem mkdir_np (s : Store) (v : View) (p : Bytes) (perm : Nat) : NP (mkdir s v p perm).2 := by
  unfold mkdir; simp only []
  repeat' split
  all_goals simp_all [NP]

theorem mkdirAll_np (s : Store) (v : View) (p : Bytes) (perm : Nat) : NP (mkdirAll s v p perm).2 := by
  unfold mkdirAll; simp only []
  repeat' split
  all_goals simp_all [NP]

theorem readlink_np (s : Store) (v : View) (p : Bytes) : NP (readlink s v p).2 := by
  unfold readlink; simp only []
  repeat' split
  all_goals simp_all [NP]

theorem evalSymlinks_np (s : Store) (v : View) (p : Bytes) : NP (evalSymlinks s v p).2 := by
  unfold evalSymlinks; simp only []
  repeat' split
  all_goals simp_all [NP]

theorem chdir_np (s : Store) (v : View) (p : Bytes) : NP (chdir s v p).2 := by
  unfold chdir; simp only []
  repeat' split
  all_goals simp_all [NP]

theorem chmod_np (s : Store) (v : View) (hs : SearchOK s v) (p : Bytes) (m : Nat) : NP (chmod s v p m).2 := by
  have hex := hs.existsChild p .eval
  unfold chmod; simp only []
  generalize searchNode s v p .eval = r at hex ⊢
  repeat' split
  all_goals simp_all [NP]

theorem chown_np (s : Store) (v : View) (hs : SearchOK s v) (p : Bytes) (u g : Int) (m : SlMode) :
    NP (chown s v p u g m).2 := by
  have hex := hs.existsChild p m
  unfold chown; simp only []
  generalize searchNode s v p m = r at hex ⊢
  repeat' split
  all_goals simp_all [NP]

theorem chtimes_np (s : Store) (v : View) (hs : SearchOK s v) (p : Bytes) (t : Int) : NP (chtimes s v p t).2 := by
  have hex := hs.existsChild p .eval
  unfold chtimes; simp only []
  generalize searchNode s v p .eval = r at hex ⊢
  repeat' split
  all_goals simp_all [NP]

theorem link_np (s : Store) (v : View) (o n : Bytes) : NP (link s v o n).2 := by
  unfold link; simp only []
  repeat' split
  all_goals simp_all [NP]

theorem symlink_np (s : Store) (v : View) (o n : Bytes) : NP (symlink s v o n).2 := by
  unfold symlink; simp only []
  repeat' split
  all_goals simp_all [NP]

theorem remove_np (s : Store) (v : View) (hs : SearchOK s v) (p : Bytes) : NP (remove s v p).2 := by
  have hex := hs.existsChild p .lstat
  unfold remove; simp only []
  generalize searchNode s v p .lstat = r at hex ⊢
  repeat' split
  all_goals simp_all [NP]

theorem truncate_np (s : Store) (v : View) (hs : SearchOK s v) (p : Bytes) (sz : Int) : NP (truncate s v p sz).2 := by
  have hex := hs.existsChild p .eval
  unfold truncate; simp only []
  generalize searchNode s v p .eval = r at hex ⊢
  repeat' split
  all_goals simp_all [NP]

theorem rename_np (s : Store) (v : View) (hs : SearchOK s v) (o n : Bytes) : NP (rename s v o n).2 := by
  have hex := hs.existsChild o .lstat
  unfold rename; simp only []
  generalize searchNode s v o .lstat = r at hex ⊢
  generalize searchNode s v n .lstat = r2
  -- the first exits by hand: `split` on the whole body exceeds the step limit of its `simp`
  by_cases h1 : (r.err != SErr.exists) = true
  · rw [if_pos h1]; simp [NP]
  rw [if_neg h1]
  by_cases h2 : (r2.err != SErr.exists && r2.err != SErr.noent) = true
  · rw [if_pos h2]; simp [NP]
  rw [if_neg h2]
  by_cases h3 : (r2.err == SErr.noent && !r2.pi.isLast) = true
  · rw [if_pos h3]; simp [NP]
  rw [if_neg h3]
  repeat' split
  all_goals simp_all [NP]

theorem removeAll_np (s : Store) (v : View) (p : Bytes) : NP (removeAll s v p).2 := by
  unfold removeAll; simp only []
  repeat' split
  all_goals simp_all [NP]

theorem fileStep_readDir_np (s : Store) (v : View) (h : Handle) (n : Int) : NP (fileStep s v h (.readDir n)).2.2.2 := by
  simp only [fileStep]
  repeat' split
  all_goals simp_all [NP]

theorem fileStep_write_np (s : Store) (v : View) (h : Handle) (b : Bytes) : NP (fileStep s v h (.write b)).2.2.2 := by
  simp only [fileStep]
  repeat' split
  all_goals simp_all [NP]

theorem readFile_np (s : Store) (v : View) (vid : Nat) (p : Bytes) : NP (readFile s v vid p) := by
  unfold readFile
  repeat' split
  all_goals simp_all [NP]

theorem readDir_np (s : Store) (v : View) (vid : Nat) (p : Bytes) : NP (readDir s v vid p) := by
  unfold readDir
  split
  · simp [NP]
  · rename_i s1 h _
    have := fileStep_readDir_np s1 v h (-1)
    split
    · simp [NP]
    · exact this

theorem registerHandle_np (st : FSState) (s : Store) (r : Except Err Handle) : NP (registerHandle st s r).2 := by
  cases r <;> simp [registerHandle, NP]

theorem writeFileV_np (st : FSState) (v : View) (vid : Nat) (p d : Bytes) (perm : Nat) :
    NP (writeFileV st v vid p d perm).2 := by
  unfold writeFileV
  split
  · simp [NP]
  · rename_i s1 h _
    have := fileStep_write_np s1 v h d
    rcases h2 : fileStep s1 v h (.write d) with ⟨s2, a2, a3, o⟩
    rw [h2] at this
    simp only [] at this ⊢
    split
    · simp [NP]
    · exact this

theorem mkdirTempV_np (st : FSState) (v : View) (dir pat rnd : Bytes) : NP (mkdirTempV st v dir pat rnd).2 := by
  unfold mkdirTempV; simp only []
  split
  · simp [NP]
  · rename_i pre suf _
    have := mkdir_np st.store v (joinPath (if dir.isEmpty then tempDir else dir) pre ++ rnd ++ suf) 0o700
    revert this
    generalize mkdir st.store v (joinPath (if dir.isEmpty then tempDir else dir) pre ++ rnd ++ suf) 0o700 = r
    intro this
    split
    · simp [NP]
    · simp [NP]
    · rename_i o _ _
      exact this

theorem createTempV_np (st : FSState) (v : View) (vid : Nat) (dir pat rnd : Bytes) :
    NP (createTempV st v vid dir pat rnd).2 := by
  unfold createTempV; simp only []
  split
  · simp [NP]
  · exact registerHandle_np _ _ _

theorem sub_cases (st : FSState) (v : View) (p : Bytes) :
    NP (match sub st.store v p with
      | .error e => (st, Out.err e)
      | .ok nv => ({ st with views := AL.insert st.nextView nv st.views, nextView := st.nextView + 1 },
          Out.ok (.view st.nextView))).2 := by
  cases sub st.store v p <;> simp [NP]

/-- C07: no call (other than a handle operation, treated separately) panics or hangs, provided the walk facts
    hold for the view it goes through -/
theorem step_no_panic (st : FSState) (vid : Nat) (c : Call) (hs : ∀ v, st.view vid = some v → SearchOK st.store v)
    (hf : ∀ hid op, c ≠ .file hid op) : (step st vid c).2 ≠ .panic ∧ (step st vid c).2 ≠ .hang := by
  cases hv : st.view vid with
  | none => rw [step_none _ _ _ hv]; simp
  | some v =>
    have hs := hs v hv
    rw [step_some _ _ _ _ hv]
    cases c <;> simp only [stepV, withStore_snd]
    case mkdir => exact mkdir_np _ _ _ _
    case mkdirAll => exact mkdirAll_np _ _ _ _
    case openFile => exact registerHandle_np _ _ _
    case create => exact registerHandle_np _ _ _
    case remove => exact remove_np _ _ hs _
    case removeAll => exact removeAll_np _ _ _
    case rename => exact rename_np _ _ hs _ _
    case link => exact link_np _ _ _ _
    case symlink => exact symlink_np _ _ _ _
    case truncate => exact truncate_np _ _ hs _ _
    case chmod => exact chmod_np _ _ hs _ _
    case chown => exact chown_np _ _ hs _ _ _ _
    case lchown => exact chown_np _ _ hs _ _ _ _
    case chtimes => exact chtimes_np _ _ hs _ _
    case chdir => exact chdir_np _ _ _
    case stat => exact stat_np _ _ hs _ _
    case lstat => exact stat_np _ _ hs _ _
    case readDir => exact readDir_np _ _ _ _
    case readFile => exact readFile_np _ _ _ _
    case readlink => exact readlink_np _ _ _
    case evalSymlinks => exact evalSymlinks_np _ _ _
    case getwd => simp
    case writeFile => exact writeFileV_np _ _ _ _ _ _
    case mkdirTemp => exact mkdirTempV_np _ _ _ _ _
    case createTemp => exact createTempV_np _ _ _ _ _ _
    case sub p => exact sub_cases st v p
    case setUser => simp
    case setUMask => simp
    case file hid op => exact absurd rfl (hf hid op)

/-- handle operations: no panic when the node of the handle is allocated -/
theorem fileStep_np (s : Store) (v : View) (h : Handle) (op : FOp)
    (hnd : ∀ i, h.nd = some i → (s.get i).isSome = true) : NP (fileStep s v h op).2.2.2 := by
  cases op <;> simp only [fileStep] <;> (repeat' split) <;> simp_all [NP, fillStat_eq_none]

theorem step_file_no_panic (st : FSState) (vid hid : Nat) (op : FOp)
    (hnd : ∀ h i, st.handle hid = some h → h.nd = some i → (st.store.get i).isSome = true) :
    (step st vid (.file hid op)).2 ≠ .panic ∧ (step st vid (.file hid op)).2 ≠ .hang := by
  cases hv : st.view vid with
  | none => rw [step_none _ _ _ hv]; simp
  | some v =>
    rw [step_some _ _ _ _ hv]
    simp only [stepV, fileV]
    cases hh : st.handle hid with
    | none => simp
    | some h =>
      simp only []
      cases hv2 : st.view h.view with
      | none => simp
      | some hv' => exact fileStep_np st.store hv' h op (fun i hi => hnd h i hh hi)

end Avfs.FS
