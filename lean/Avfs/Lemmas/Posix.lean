import Avfs.Lemmas.Namei
/-
  C01: MemFS namespace calls against a POSIX-style reference on paths without symbolic links.

  The reference is written over the component-wise resolution `walkPath` (Lemmas/Namei.lean) — the way mkdir(2),
  rmdir(2) / unlink(2) and lstat(2) are specified: resolve all components but the last, then act on the entry.
  Error selection follows POSIX: a missing inner component ENOENT, a file as inner component ENOTDIR, a directory
  on the way that may not be searched EACCES, then the call-specific conditions on the last component.

  Corners where MemFS is not the reference (each excluded by an explicit hypothesis and stated on its own):
  * Remove("/"): EINVAL on MemFS, EBUSY for rmdir(2) (`remove_root`; `hne` in `remove_posix`);
  * Stat("/") / Lstat("/") name the root "" where `os` says "/" (`stat_root`; `hne` in `stat_posix`).
  Restricted deletion (the S_ISVTX bit of the parent directory) is no longer such a corner: MemFS honours it
  (`restrictedDeletion` in FS/MemFS.lean), `remove_posix` covers it without side condition and
  `remove_sticky_refused` is the concrete instance.
-/
set_option linter.unusedVariables false   -- `hn`, `hv` of the corollaries for whole-tree views are kept for their callers

namespace Avfs.FS
open Avfs.Path

/-! ### what the descent tells about the store -/

/-- `.found par c` over a non-empty path: `c` is the entry of `par` under the last component, `par` is a directory
    and `c` is no symbolic link -/
theorem walkPath_found {s : Store} {v : View} : ∀ (rest : List Bytes) (c : Bytes) (d par ch : Ino),
    walkPath s v d (c :: rest) = .found par ch →
    s.child par ((c :: rest).getLast (by simp)) = some ch ∧ isDirAt s par = true ∧
    ∀ m l, s.get ch ≠ some (.symlink m l) := by
  intro rest
  induction rest with
  | nil =>
    intro c d par ch h
    simp only [walkPath] at h
    split at h
    · rename_i m chd hgd
      split at h
      · cases h
      · split at h
        · cases h
        · rename_i i hch
          split at h
          · cases h
          · rename_i hns
            cases h
            exact ⟨by simpa using hch, isDirAt_of_get hgd, fun m l hg => hns m l hg⟩
    · cases h
  | cons c2 cs ih =>
    intro c d par ch h
    simp only [walkPath] at h
    split at h
    · split at h
      · cases h
      · split at h
        · cases h
        · rename_i i hch
          split at h
          · rw [List.getLast_cons_cons]
            exact ih c2 i par ch h
          · cases h
          · cases h
          · cases h
    · cases h

/-- `.missingLast par n`: `n` is the last component, `par` is a directory without an entry `n` -/
theorem walkPath_missingLast {s : Store} {v : View} : ∀ (rest : List Bytes) (c : Bytes) (d par : Ino) (n : Bytes),
    walkPath s v d (c :: rest) = .missingLast par n →
    n = (c :: rest).getLast (by simp) ∧ s.child par n = none ∧ isDirAt s par = true := by
  intro rest
  induction rest with
  | nil =>
    intro c d par n h
    simp only [walkPath] at h
    split at h
    · rename_i m chd hgd
      split at h
      · cases h
      · split at h
        · rename_i hch
          cases h
          exact ⟨by simp, hch, isDirAt_of_get hgd⟩
        · split at h <;> cases h
    · cases h
  | cons c2 cs ih =>
    intro c d par n h
    simp only [walkPath] at h
    split at h
    · split at h
      · cases h
      · split at h
        · cases h
        · rename_i i hch
          split at h
          · rw [List.getLast_cons_cons]
            exact ih c2 i par n h
          · cases h
          · cases h
          · cases h
    · cases h

theorem px_stat_store (s : Store) (v : View) (p : Bytes) (m : SlMode) : (stat s v p m).1 = s := by
  simp only [stat]
  split
  · split <;> rfl
  · rfl

theorem px_fillStat_some (s : Store) (c : Ino) (name : Bytes) (h : (s.get c).isSome = true) :
    ∃ i, fillStat s c name = some i := by
  unfold fillStat
  cases hg : s.get c with
  | none => simp [hg] at h
  | some n => cases n <;> exact ⟨_, rfl⟩

/-- mkdir(2) -/
inductive MkdirRef
  | fail (e : Err)
  | create (parent : Ino) (name : Bytes)      -- a new directory entry `name` in `parent`
  | outside                                    -- a symbolic link on the way: not covered
  deriving DecidableEq, Repr

def posixMkdir (s : Store) (v : View) : Resolved → MkdirRef
  | .found _ _ => .fail .EEXIST
  | .missingLast par name => if dirPerm s par (omWrite ||| omLookup) v then .create par name else .fail .EACCES
  | .missingDir => .fail .ENOENT
  | .notDir => .fail .ENOTDIR
  | .denied => .fail .EACCES
  | .viaLink => .outside

/-- GENERAL form of `mkdir_posix`: the view is rooted at ANY directory `v.root` of a heap that is well-formed for its
    global root `root` (a view made by Sub); the descent starts at `v.root`. -/
theorem mkdir_posix_gen (s : Store) (root : Ino) (v : View) (hwf : WF s root)
    (hvr : ∃ m ch, s.get v.root = some (.dir m ch)) (cs : List Bytes) (hne : cs ≠ [])
    (hall : ∀ c ∈ cs, c ≠ [] ∧ ∀ x ∈ c, x ≠ SL) (hdots : ∀ c ∈ cs, c ≠ [DOT] ∧ c ≠ [DOT, DOT]) (perm : Nat) :
    match posixMkdir s v (walkPath s v v.root cs) with
    | .fail e => mkdir s v (SL :: joinWith SL cs) perm = (s, .err e)
    | .create par name => name = cs.getLast hne ∧
        mkdir s v (SL :: joinWith SL cs) perm = ((createDir s v par name perm).1, .ok .unit)
    | .outside => True := by
  have h := searchNode_eq_walkPath_gen s root v hwf hvr cs hall hdots .lstat
  have hp := searchNode_part_gen s root v hwf hvr cs hne hall hdots .lstat
  obtain ⟨c0, rest, rfl⟩ : ∃ c0 rest, cs = c0 :: rest := by
    cases cs with
    | nil => exact absurd rfl hne
    | cons a b => exact ⟨a, b, rfl⟩
  cases hw : walkPath s v v.root (c0 :: rest) with
  | found par c =>
    simp only [hw, Agrees] at h
    simp [posixMkdir, mkdir, h.1, SErr.toErr]
  | missingLast par name =>
    simp only [hw, Agrees, PartAgrees] at h hp
    obtain ⟨hname, hnone, _⟩ := walkPath_missingLast rest c0 v.root par name hw
    obtain ⟨he, _, hpar, hlast⟩ := h
    simp only [posixMkdir]
    by_cases hd : dirPerm s par (omWrite ||| omLookup) v = true
    · simp only [hd, if_true]
      refine ⟨hname, ?_⟩
      rw [← hname] at hp
      simp [mkdir, he, hpar, hlast, hd, hp, hnone]
    · simp only [hd]
      simp [mkdir, he, hpar, hlast, hd]
  | missingDir =>
    simp only [hw, Agrees] at h
    simp [posixMkdir, mkdir, h.1, h.2, SErr.toErr]
  | notDir =>
    simp only [hw, Agrees] at h
    simp [posixMkdir, mkdir, h, SErr.toErr]
  | denied =>
    simp only [hw, Agrees] at h
    simp [posixMkdir, mkdir, h, SErr.toErr]
  | viaLink => simp [posixMkdir]

/-- Mkdir of MemFS is mkdir(2) of the reference: same error, or the new entry in the same directory, created with the
    caller's identity and `perm &^ umask`; nothing else changes (`createDir` allocates one node and adds one entry) -/
theorem mkdir_posix (s : Store) (root : Ino) (v : View) (hwf : WF s root) (hn : NamesOK s) (hv : ViewOK s v)
    (hroot : v.root = root) (cs : List Bytes) (hne : cs ≠ []) (hall : ∀ c ∈ cs, c ≠ [] ∧ ∀ x ∈ c, x ≠ SL)
    (hdots : ∀ c ∈ cs, c ≠ [DOT] ∧ c ≠ [DOT, DOT]) (perm : Nat) :
    match posixMkdir s v (walkPath s v root cs) with
    | .fail e => mkdir s v (SL :: joinWith SL cs) perm = (s, .err e)
    | .create par name => name = cs.getLast hne ∧
        mkdir s v (SL :: joinWith SL cs) perm = ((createDir s v par name perm).1, .ok .unit)
    | .outside => True := by
  subst hroot
  exact mkdir_posix_gen s v.root v hwf (get_of_isDirAt hwf.rootDir) cs hne hall hdots perm

/-- unlink(2) / rmdir(2) as os.Remove combines them -/
inductive RemoveRef
  | fail (e : Err)
  | unlink (parent : Ino) (child : Ino)      -- the entry of `parent` designating `child` goes away
  | outside
  deriving DecidableEq, Repr

/-- the reference for a path that names an entry of a directory (not the root: rmdir("/") is EBUSY in POSIX and on
    Linux, which `Err` cannot express; see `remove_root`) -/
def posixRemove (s : Store) (v : View) : Resolved → RemoveRef
  | .found par c =>
    if !dirPerm s par omWrite v then .fail .EACCES
    else if restrictedDeletion s v par c then .fail .EPERM
    else match s.get c with
      | some (.dir _ ch) => if (alKeys ch).length != 0 then .fail .ENOTEMPTY else .unlink par c
      | _ => .unlink par c
  | .missingLast _ _ => .fail .ENOENT
  | .missingDir => .fail .ENOENT
  | .notDir => .fail .ENOTDIR
  | .denied => .fail .EACCES
  | .viaLink => .outside

/-- GENERAL form of `remove_posix` (view rooted at any directory `v.root`; `root` is the root of the whole tree). The
    root of the VIEW is excluded by `hne` (EINVAL: `remove_root`); every other entry of the subtree is removed as
    through the whole tree: `c == r.parent` never holds for an entry (`no_self_edge`). -/
theorem remove_posix_gen (s : Store) (root : Ino) (v : View) (hwf : WF s root)
    (hvr : ∃ m ch, s.get v.root = some (.dir m ch)) (cs : List Bytes) (hne : cs ≠ [])
    (hall : ∀ c ∈ cs, c ≠ [] ∧ ∀ x ∈ c, x ≠ SL) (hdots : ∀ c ∈ cs, c ≠ [DOT] ∧ c ≠ [DOT, DOT]) :
    match posixRemove s v (walkPath s v v.root cs) with
    | .fail e => remove s v (SL :: joinWith SL cs) = (s, .err e)
    | .unlink par c =>
        remove s v (SL :: joinWith SL cs) = (deleteNode (removeChild s par (cs.getLast hne)) c, .ok .unit)
    | .outside => True := by
  have h := searchNode_eq_walkPath_gen s root v hwf hvr cs hall hdots .lstat
  have hp := searchNode_part_gen s root v hwf hvr cs hne hall hdots .lstat
  obtain ⟨c0, rest, rfl⟩ : ∃ c0 rest, cs = c0 :: rest := by
    cases cs with
    | nil => exact absurd rfl hne
    | cons a b => exact ⟨a, b, rfl⟩
  cases hw : walkPath s v v.root (c0 :: rest) with
  | found par c =>
    simp only [hw, Agrees, PartAgrees] at h hp
    obtain ⟨hedge, hpd, _⟩ := walkPath_found rest c0 v.root par c hw
    obtain ⟨he, hc, hpar⟩ := h
    have hcp : (c == par) = false := by
      have := no_self_edge hwf hpd (n := (c0 :: rest).getLast (by simp))
      simp only [beq_eq_false_iff_ne]
      intro hcp
      exact this (hcp ▸ hedge)
    have halloc := hwf.alloc par _ c hedge
    simp only [posixRemove]
    by_cases hd : dirPerm s par omWrite v = true
    · by_cases hst : restrictedDeletion s v par c = true
      · simp [remove, he, hc, hpar, hcp, hd, hst]
      · have hst : restrictedDeletion s v par c = false := by simpa using hst
        cases hg : s.get c with
        | none => simp [hg] at halloc
        | some n =>
          cases n with
          | dir mc chc =>
            by_cases hemp : (alKeys chc).length = 0
            · simp [remove, he, hc, hpar, hcp, hd, hst, hg, hemp, hp, hedge]
            · simp [remove, he, hc, hpar, hcp, hd, hst, hg, hemp]
          | file mf df nl id => simp [remove, he, hc, hpar, hcp, hd, hst, hg, hp, hedge]
          | symlink ms lk => simp [remove, he, hc, hpar, hcp, hd, hst, hg, hp, hedge]
    · simp [remove, he, hc, hpar, hcp, hd]
  | missingLast par name =>
    simp only [hw, Agrees] at h
    simp [posixRemove, remove, h.1, h.2.1, SErr.toErr]
  | missingDir =>
    simp only [hw, Agrees] at h
    simp [posixRemove, remove, h.1, SErr.toErr]
  | notDir =>
    simp only [hw, Agrees] at h
    simp [posixRemove, remove, h, SErr.toErr]
  | denied =>
    simp only [hw, Agrees] at h
    simp [posixRemove, remove, h, SErr.toErr]
  | viaLink => simp [posixRemove]

/-- Remove of MemFS is the reference: same error, or the entry named by the last component is erased from its
    directory and the node released once (`deleteNode`: one link less).
    Restricted deletion is part of the statement: in a directory with the S_ISVTX bit, a caller who is not
    administrator and owns neither the directory nor the entry is refused with EPERM by both (`remove_sticky_refused`).
    One corner is excluded, a divergence of MemFS:
    * the root (`hne`): MemFS answers EINVAL (`remove_root`), POSIX / Linux EBUSY. -/
theorem remove_posix (s : Store) (root : Ino) (v : View) (hwf : WF s root) (hn : NamesOK s) (hv : ViewOK s v)
    (hroot : v.root = root) (cs : List Bytes) (hne : cs ≠ []) (hall : ∀ c ∈ cs, c ≠ [] ∧ ∀ x ∈ c, x ≠ SL)
    (hdots : ∀ c ∈ cs, c ≠ [DOT] ∧ c ≠ [DOT, DOT]) :
    match posixRemove s v (walkPath s v root cs) with
    | .fail e => remove s v (SL :: joinWith SL cs) = (s, .err e)
    | .unlink par c =>
        remove s v (SL :: joinWith SL cs) = (deleteNode (removeChild s par (cs.getLast hne)) c, .ok .unit)
    | .outside => True := by
  subst hroot
  exact remove_posix_gen s v.root v hwf (get_of_isDirAt hwf.rootDir) cs hne hall hdots

/-- DIVERGENCE (recorded): Remove("/") fails with EINVAL on MemFS; rmdir("/") is EBUSY (POSIX, Linux) -/
theorem remove_root (s : Store) (v : View) : remove s v [SL] = (s, .err .EINVAL) := by
  obtain ⟨he, hc, hpar, _⟩ := searchNode_root s v .lstat
  simp [remove, he, hc, hpar]

/-- GENERAL form of `stat_posix` (view rooted at any directory `v.root`; `root` is the root of the whole tree) -/
theorem stat_posix_gen (s : Store) (root : Ino) (v : View) (hwf : WF s root)
    (hvr : ∃ m ch, s.get v.root = some (.dir m ch)) (cs : List Bytes) (hne : cs ≠ [])
    (hall : ∀ c ∈ cs, c ≠ [] ∧ ∀ x ∈ c, x ≠ SL) (hdots : ∀ c ∈ cs, c ≠ [DOT] ∧ c ≠ [DOT, DOT]) (m : SlMode) :
    (stat s v (SL :: joinWith SL cs) m).1 = s ∧
    match walkPath s v v.root cs with
    | .found _ c => ∃ i, fillStat s c (cs.getLast hne) = some i ∧ (stat s v (SL :: joinWith SL cs) m).2 = .ok (.info i)
    | .missingLast _ _ => (stat s v (SL :: joinWith SL cs) m).2 = .err .ENOENT
    | .missingDir => (stat s v (SL :: joinWith SL cs) m).2 = .err .ENOENT
    | .notDir => (stat s v (SL :: joinWith SL cs) m).2 = .err .ENOTDIR
    | .denied => (stat s v (SL :: joinWith SL cs) m).2 = .err .EACCES
    | .viaLink => True := by
  refine ⟨px_stat_store s v _ m, ?_⟩
  have h := searchNode_eq_walkPath_gen s root v hwf hvr cs hall hdots m
  have hp := searchNode_part_gen s root v hwf hvr cs hne hall hdots m
  obtain ⟨c0, rest, rfl⟩ : ∃ c0 rest, cs = c0 :: rest := by
    cases cs with
    | nil => exact absurd rfl hne
    | cons a b => exact ⟨a, b, rfl⟩
  cases hw : walkPath s v v.root (c0 :: rest) with
  | found par c =>
    simp only [hw, Agrees, PartAgrees] at h hp
    obtain ⟨hedge, _, _⟩ := walkPath_found rest c0 v.root par c hw
    obtain ⟨he, hc, hpar⟩ := h
    have halloc := hwf.alloc par _ c hedge
    obtain ⟨i, hi⟩ := px_fillStat_some s c ((c0 :: rest).getLast (by simp)) halloc
    exact ⟨i, hi, by simp [stat, he, hc, hp, hi]⟩
  | missingLast par name =>
    simp only [hw, Agrees] at h
    simp [stat, h.1, h.2.1, SErr.toErr]
  | missingDir =>
    simp only [hw, Agrees] at h
    simp [stat, h.1, SErr.toErr]
  | notDir =>
    simp only [hw, Agrees] at h
    simp [stat, h, SErr.toErr]
  | denied =>
    simp only [hw, Agrees] at h
    simp [stat, h, SErr.toErr]
  | viaLink => trivial

/-- lstat(2) / stat(2) without links on the way: the attributes of the resolved node under the name of the last
    component; the state never changes. (The root is excluded by `hne`: see `stat_root`.) -/
theorem stat_posix (s : Store) (root : Ino) (v : View) (hwf : WF s root) (hn : NamesOK s) (hv : ViewOK s v)
    (hroot : v.root = root) (cs : List Bytes) (hne : cs ≠ []) (hall : ∀ c ∈ cs, c ≠ [] ∧ ∀ x ∈ c, x ≠ SL)
    (hdots : ∀ c ∈ cs, c ≠ [DOT] ∧ c ≠ [DOT, DOT]) (m : SlMode) :
    (stat s v (SL :: joinWith SL cs) m).1 = s ∧
    match walkPath s v root cs with
    | .found _ c => ∃ i, fillStat s c (cs.getLast hne) = some i ∧ (stat s v (SL :: joinWith SL cs) m).2 = .ok (.info i)
    | .missingLast _ _ => (stat s v (SL :: joinWith SL cs) m).2 = .err .ENOENT
    | .missingDir => (stat s v (SL :: joinWith SL cs) m).2 = .err .ENOENT
    | .notDir => (stat s v (SL :: joinWith SL cs) m).2 = .err .ENOTDIR
    | .denied => (stat s v (SL :: joinWith SL cs) m).2 = .err .EACCES
    | .viaLink => True := by
  subst hroot
  exact stat_posix_gen s v.root v hwf (get_of_isDirAt hwf.rootDir) cs hne hall hdots m

/-- DIVERGENCE from `os`: Stat("/") / Lstat("/") of MemFS name the root "" (`pi.Part()` at the end of the path);
    os.Stat("/").Name() is "/" (stat(2) itself returns no name) -/
theorem stat_root (s : Store) (v : View) (m : SlMode) (hr : (s.get v.root).isSome = true) :
    ∃ i, fillStat s v.root [] = some i ∧ stat s v [SL] m = (s, .ok (.info i)) := by
  obtain ⟨he, hc, _, hp⟩ := searchNode_root s v m
  obtain ⟨i, hi⟩ := px_fillStat_some s v.root [] hr
  exact ⟨i, hi, by simp [stat, he, hc, hp, hi]⟩

/-! ### non-vacuity: the three theorems on a concrete reachable heap -/

/-- the heap of `memfs.New()` after, by the administrator (umask 022): Mkdir("/a", 0755), Mkdir("/a/b", 0700),
    WriteFile("/a/f", "hi", 0644), Mkdir("/tmp/d", 0777), Mkdir("/tmp/d/e", 0755), WriteFile("/tmp/g", "\x01", 0600),
    Chmod("/tmp/d", 0777).
    Inodes: / 0, /home 1, /root 2, /tmp 3 (0777), /a 4, /a/b 5, /a/f 6, /tmp/d 7, /tmp/d/e 8, /tmp/g 9 -/
@[irreducible] def pxStore : Store :=
  (run initState [
    (0, .mkdir [SL, 97] 0o755), (0, .mkdir [SL, 97, SL, 98] 0o700), (0, .writeFile [SL, 97, SL, 102] [104, 105] 0o644),
    (0, .mkdir [SL, 116, 109, 112, SL, 100] 0o777), (0, .mkdir [SL, 116, 109, 112, SL, 100, SL, 101] 0o755),
    (0, .writeFile [SL, 116, 109, 112, SL, 103] [1] 0o600), (0, .chmod [SL, 116, 109, 112, SL, 100] 0o777)]).1.store

theorem pxStore_wf : WF pxStore 0 ∧ NamesOK pxStore := wfCheck_sound pxStore 0 (by decide +kernel)

/-- the ordinary user `exView` (uid 1000) on it -/
theorem pxView_ok : ViewOK pxStore exView := ⟨by decide +kernel, by decide⟩

/-- components "tmp", "a" -/
def cTmp : Bytes := [116, 109, 112]
def cA : Bytes := [97]

/-- create: Mkdir("/tmp/x") by the user makes the entry "x" in /tmp (inode 3) -/
example : mkdir pxStore exView [SL, 116, 109, 112, SL, 120] 0o755 =
    ((createDir pxStore exView 3 [120] 0o755).1, .ok .unit) := by
  have h := mkdir_posix pxStore 0 exView pxStore_wf.1 pxStore_wf.2 pxView_ok rfl [cTmp, [120]] (by simp)
    (by decide) (by decide) 0o755
  have hr : posixMkdir pxStore exView (walkPath pxStore exView 0 [cTmp, [120]]) = .create 3 [120] := by
    decide +kernel
  simp only [hr] at h
  exact h.2

/-- EEXIST: "/a/b" is a directory, "/a/f" a file -/
example : mkdir pxStore exView [SL, 97, SL, 98] 0o755 = (pxStore, .err .EEXIST) ∧
    mkdir pxStore exView [SL, 97, SL, 102] 0o755 = (pxStore, .err .EEXIST) := by
  have h1 := mkdir_posix pxStore 0 exView pxStore_wf.1 pxStore_wf.2 pxView_ok rfl [cA, [98]] (by simp)
    (by decide) (by decide) 0o755
  have h2 := mkdir_posix pxStore 0 exView pxStore_wf.1 pxStore_wf.2 pxView_ok rfl [cA, [102]] (by simp)
    (by decide) (by decide) 0o755
  have hr1 : posixMkdir pxStore exView (walkPath pxStore exView 0 [cA, [98]]) = .fail .EEXIST := by decide +kernel
  have hr2 : posixMkdir pxStore exView (walkPath pxStore exView 0 [cA, [102]]) = .fail .EEXIST := by decide +kernel
  simp only [hr1] at h1
  simp only [hr2] at h2
  exact ⟨h1, h2⟩

/-- EACCES: "/a" (0755 of the administrator) is not writable by the user; ENOTDIR below the file "/a/f";
    ENOENT below the missing "/a/q"; EACCES below the unsearchable "/a/b" -/
example : mkdir pxStore exView [SL, 97, SL, 120] 0o755 = (pxStore, .err .EACCES) ∧
    mkdir pxStore exView [SL, 97, SL, 102, SL, 120] 0o755 = (pxStore, .err .ENOTDIR) ∧
    mkdir pxStore exView [SL, 97, SL, 113, SL, 120] 0o755 = (pxStore, .err .ENOENT) ∧
    mkdir pxStore exView [SL, 97, SL, 98, SL, 120] 0o755 = (pxStore, .err .EACCES) := by
  have h1 := mkdir_posix pxStore 0 exView pxStore_wf.1 pxStore_wf.2 pxView_ok rfl [cA, [120]] (by simp)
    (by decide) (by decide) 0o755
  have h2 := mkdir_posix pxStore 0 exView pxStore_wf.1 pxStore_wf.2 pxView_ok rfl [cA, [102], [120]] (by simp)
    (by decide) (by decide) 0o755
  have h3 := mkdir_posix pxStore 0 exView pxStore_wf.1 pxStore_wf.2 pxView_ok rfl [cA, [113], [120]] (by simp)
    (by decide) (by decide) 0o755
  have h4 := mkdir_posix pxStore 0 exView pxStore_wf.1 pxStore_wf.2 pxView_ok rfl [cA, [98], [120]] (by simp)
    (by decide) (by decide) 0o755
  have hr1 : posixMkdir pxStore exView (walkPath pxStore exView 0 [cA, [120]]) = .fail .EACCES := by decide +kernel
  have hr2 : posixMkdir pxStore exView (walkPath pxStore exView 0 [cA, [102], [120]]) = .fail .ENOTDIR := by
    decide +kernel
  have hr3 : posixMkdir pxStore exView (walkPath pxStore exView 0 [cA, [113], [120]]) = .fail .ENOENT := by
    decide +kernel
  have hr4 : posixMkdir pxStore exView (walkPath pxStore exView 0 [cA, [98], [120]]) = .fail .EACCES := by
    decide +kernel
  simp only [hr1] at h1
  simp only [hr2] at h2
  simp only [hr3] at h3
  simp only [hr4] at h4
  exact ⟨h1, h2, h3, h4⟩

/-- unlink of a file: Remove("/tmp/g") by the user erases the entry "g" of /tmp (3) and releases inode 9 -/
example : remove pxStore exView [SL, 116, 109, 112, SL, 103] =
    (deleteNode (removeChild pxStore 3 [103]) 9, .ok .unit) := by
  have h := remove_posix pxStore 0 exView pxStore_wf.1 pxStore_wf.2 pxView_ok rfl [cTmp, [103]] (by simp)
    (by decide) (by decide)
  have hr : posixRemove pxStore exView (walkPath pxStore exView 0 [cTmp, [103]]) = .unlink 3 9 := by decide +kernel
  simp only [hr] at h
  exact h

/-- rmdir of an empty directory "/tmp/d/e"; ENOTEMPTY for "/tmp/d"; EACCES for "/a/f" (the user may not write "/a");
    ENOENT for "/tmp/y" -/
example : remove pxStore exView [SL, 116, 109, 112, SL, 100, SL, 101] =
      (deleteNode (removeChild pxStore 7 [101]) 8, .ok .unit) ∧
    remove pxStore exView [SL, 116, 109, 112, SL, 100] = (pxStore, .err .ENOTEMPTY) ∧
    remove pxStore exView [SL, 97, SL, 102] = (pxStore, .err .EACCES) ∧
    remove pxStore exView [SL, 116, 109, 112, SL, 121] = (pxStore, .err .ENOENT) := by
  have h1 := remove_posix pxStore 0 exView pxStore_wf.1 pxStore_wf.2 pxView_ok rfl [cTmp, [100], [101]] (by simp)
    (by decide) (by decide)
  have h2 := remove_posix pxStore 0 exView pxStore_wf.1 pxStore_wf.2 pxView_ok rfl [cTmp, [100]] (by simp)
    (by decide) (by decide)
  have h3 := remove_posix pxStore 0 exView pxStore_wf.1 pxStore_wf.2 pxView_ok rfl [cA, [102]] (by simp)
    (by decide) (by decide)
  have h4 := remove_posix pxStore 0 exView pxStore_wf.1 pxStore_wf.2 pxView_ok rfl [cTmp, [121]] (by simp)
    (by decide) (by decide)
  have hr1 : posixRemove pxStore exView (walkPath pxStore exView 0 [cTmp, [100], [101]]) = .unlink 7 8 := by
    decide +kernel
  have hr2 : posixRemove pxStore exView (walkPath pxStore exView 0 [cTmp, [100]]) = .fail .ENOTEMPTY := by
    decide +kernel
  have hr3 : posixRemove pxStore exView (walkPath pxStore exView 0 [cA, [102]]) = .fail .EACCES := by decide +kernel
  have hr4 : posixRemove pxStore exView (walkPath pxStore exView 0 [cTmp, [121]]) = .fail .ENOENT := by
    decide +kernel
  simp only [hr1] at h1
  simp only [hr2] at h2
  simp only [hr3] at h3
  simp only [hr4] at h4
  exact ⟨h1, h2, h3, h4⟩

/-- the same heap after the administrator's Chmod("/tmp", 01777) -/
@[irreducible] def stickyStore : Store :=
  (step { initState with store := pxStore } 0 (.chmod [SL, 116, 109, 112] 0o1777)).1.store

/-- restricted deletion (S_ISVTX): in "/tmp" with mode 01777 the user 1000 may not remove the administrator's file
    "/tmp/g": unlink(2) refuses (EPERM on Linux, EPERM or EACCES in POSIX) and so does MemFS, which leaves the heap
    as it was. History: memfs.New(); as root WriteFile("/tmp/g", …, 0600); Chmod("/tmp", 01777); as user 1000
    Remove("/tmp/g") = EPERM. (Before the repair MemFS ignored the bit and removed the file.) -/
theorem remove_sticky_refused :
    posixRemove stickyStore exView (walkPath stickyStore exView 0 [cTmp, [103]]) = .fail .EPERM ∧
    remove stickyStore exView [SL, 116, 109, 112, SL, 103] = (stickyStore, .err .EPERM) := by
  decide +kernel

/-- Lstat("/a/f") and Stat("/a/b") by the user: the attributes under the names "f" and "b"; EACCES below "/a/b" -/
example : stat pxStore exView [SL, 97, SL, 102] .lstat =
      (pxStore, .ok (.info ⟨[102], 1, 0o644, 0, 0, 1, 2, 1, none⟩)) ∧
    stat pxStore exView [SL, 97, SL, 98] .stat = (pxStore, .ok (.info ⟨[98], 0, 0o700, 0, 0, 0, 0, 0, none⟩)) ∧
    stat pxStore exView [SL, 97, SL, 98, SL, 120] .stat = (pxStore, .err .EACCES) := by
  have h1 := stat_posix pxStore 0 exView pxStore_wf.1 pxStore_wf.2 pxView_ok rfl [cA, [102]] (by simp)
    (by decide) (by decide) .lstat
  have h2 := stat_posix pxStore 0 exView pxStore_wf.1 pxStore_wf.2 pxView_ok rfl [cA, [98]] (by simp)
    (by decide) (by decide) .stat
  have h3 := stat_posix pxStore 0 exView pxStore_wf.1 pxStore_wf.2 pxView_ok rfl [cA, [98], [120]] (by simp)
    (by decide) (by decide) .stat
  have hw1 : walkPath pxStore exView 0 [cA, [102]] = .found 4 6 := by decide +kernel
  have hw2 : walkPath pxStore exView 0 [cA, [98]] = .found 4 5 := by decide +kernel
  have hw3 : walkPath pxStore exView 0 [cA, [98], [120]] = .denied := by decide +kernel
  have hf1 : fillStat pxStore 6 [102] = some ⟨[102], 1, 0o644, 0, 0, 1, 2, 1, none⟩ := by decide +kernel
  have hf2 : fillStat pxStore 5 [98] = some ⟨[98], 0, 0o700, 0, 0, 0, 0, 0, none⟩ := by decide +kernel
  simp only [hw1] at h1
  simp only [hw2] at h2
  simp only [hw3] at h3
  obtain ⟨hs1, i1, hi1, ho1⟩ := h1
  obtain ⟨hs2, i2, hi2, ho2⟩ := h2
  have e1 : i1 = ⟨[102], 1, 0o644, 0, 0, 1, 2, 1, none⟩ := Option.some.inj (hi1.symm.trans hf1)
  have e2 : i2 = ⟨[98], 0, 0o700, 0, 0, 0, 0, 0, none⟩ := Option.some.inj (hi2.symm.trans hf2)
  subst e1 e2
  exact ⟨Prod.ext hs1 ho1, Prod.ext hs2 ho2, Prod.ext h3.1 h3.2⟩

end Avfs.FS
