/-
  Model of ostype.go SetOSType (the guard combining build features and the requested type) and of the
  OS-dependent constants.
-/
namespace Avfs.OSType

inductive OS | unknown | linux | windows | darwin
  deriving DecidableEq, Repr

/-- SetOSType: `tagOn` = built with avfs_setostype (BuildFeatures has FeatSetOSType), `host` = CurrentOSType().
    Returns the OS type of the file system, or `none` for ErrSetOSType. -/
def setOSType (tagOn : Bool) (host req : OS) : Option OS :=
  let r := if req == .unknown then host else req
  if !tagOn && r != host then none else some r

def pathSeparator (os : OS) : Nat := if os == .windows then 92 else 47

end Avfs.OSType
