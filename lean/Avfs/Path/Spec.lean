import Avfs.Path.Model
/-
  Component-based reference semantics of path/filepath on Linux (what `Clean`, `Join`, … mean),
  validated against the toolchain's path/filepath on every run (corr-oracle, `pathspec` lines).
-/
namespace Avfs.Path.Spec
open Avfs.Path

/-- split on '/' (all pieces, including empty ones) -/
def splitSl : Bytes → List Bytes
  | [] => [[]]
  | c :: cs =>
    if c == SL then [] :: splitSl cs
    else match splitSl cs with
      | [] => [[c]]          -- unreachable: splitSl is never empty
      | x :: xs => (c :: x) :: xs

/-- the non-empty components of a path -/
def comps (p : Bytes) : List Bytes := (splitSl p).filter (fun c => !c.isEmpty)

def DD : Bytes := [DOT, DOT]

/-- one component acting on the stack of kept components (head = most recent) -/
def specStep (rooted : Bool) (stack : List Bytes) (c : Bytes) : List Bytes :=
  if c == [DOT] then stack
  else if c == DD then
    match stack with
    | [] => if rooted then [] else [DD]
    | top :: rest => if top == DD then DD :: stack else rest
  else c :: stack

def isRooted (p : Bytes) : Bool := match p with | c :: _ => c == SL | [] => false

def render (rooted : Bool) (stack : List Bytes) : Bytes :=
  let body := joinWith SL stack.reverse
  let r := if rooted then SL :: body else body
  if r.isEmpty then [DOT] else r

/-- filepath.Clean on Linux -/
def clean (p : Bytes) : Bytes :=
  render (isRooted p) ((comps p).foldl (specStep (isRooted p)) [])

/-- filepath.Join on Linux: the non-empty elements joined by '/', cleaned; "" when all are empty -/
def join (es : List Bytes) : Bytes :=
  match es.filter (fun e => !e.isEmpty) with
  | [] => []
  | ne => clean (joinWith SL ne)

/-- filepath.Split: dir ends at the last '/', file has no '/' -/
def split (p : Bytes) : Bytes × Bytes :=
  let file := (p.reverse.takeWhile (· != SL)).reverse
  (p.take (p.length - file.length), file)

/-- filepath.Base -/
def base (p : Bytes) : Bytes :=
  if p.isEmpty then [DOT] else
  match (comps p).getLast? with
  | some c => c
  | none => [SL]

/-- filepath.Dir -/
def dir (p : Bytes) : Bytes := clean (split p).1

def isAbs (p : Bytes) : Bool := isRooted p

/-- a path is in clean form: no empty / "." components, ".." only as a leading run of a relative path,
    rendered with single separators -/
def IsClean (p : Bytes) : Prop := clean p = p

end Avfs.Path.Spec
