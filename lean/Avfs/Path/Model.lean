import Avfs.Bytes
/-
  Transliteration of the lexical path functions of vfs_ostype_on.go, vfs.go and pathiterator.go.
  Byte strings are `List UInt8`. `os` selects the emulated OS type exactly as `vfs.OSType()` does.
  A Go index/slice expression that could fail is an explicit test returning `none` (= panic).
-/
namespace Avfs.Path

inductive OS | linux | windows
  deriving DecidableEq, Repr

def SL : UInt8 := 47      -- '/'
def BS : UInt8 := 92      -- '\\'
def DOT : UInt8 := 46     -- '.'
def COLON : UInt8 := 58   -- ':'
def QM : UInt8 := 63      -- '?'
def STAR : UInt8 := 42    -- '*'
def LB : UInt8 := 91      -- '['
def RB : UInt8 := 93      -- ']'
def DASH : UInt8 := 45    -- '-'
def CARET : UInt8 := 94   -- '^'

def isSlash (c : UInt8) : Bool := c == BS || c == SL

/-- IsPathSeparator -/
def isSep (os : OS) (c : UInt8) : Bool :=
  match os with
  | .linux => c == SL
  | .windows => c == BS || c == SL

/-- vfs.PathSeparator() -/
def pathSep (os : OS) : UInt8 :=
  match os with
  | .linux => SL
  | .windows => BS

def isLetter (c : UInt8) : Bool := (97 ≤ c && c ≤ 122) || (65 ≤ c && c ≤ 90)

def toUpper (c : UInt8) : UInt8 := if 97 ≤ c && c ≤ 122 then c - 32 else c

/-- the loop of pathHasPrefixFold: every byte of the prefix matches (separators are equivalent, letters fold) -/
def prefixFoldLoop : Bytes → Bytes → Bool
  | _, [] => true
  | [], _ :: _ => false
  | c :: s, q :: pre =>
    (if isSlash q then isSlash c else toUpper q == toUpper c) && prefixFoldLoop s pre

/-- pathHasPrefixFold: s begins with the prefix and the prefix ends at a separator or at the end of s -/
def pathHasPrefixFold (s pre : Bytes) : Bool :=
  if s.length < pre.length then false
  else prefixFoldLoop s pre && (match s.drop pre.length with | c :: _ => isSlash c | [] => true)

/-- uncLen(path, prefixLen) on the remainder `rest = path[i:]`: the index of the second separator, else len(path) -/
def uncLenLoop : Bytes → Nat → Nat → Nat
  | [], i, _ => i
  | c :: rest, i, count =>
    if isSlash c then (if count + 1 == 2 then i else uncLenLoop rest (i + 1) (count + 1))
    else uncLenLoop rest (i + 1) count

def uncLen (p : Bytes) (prefixLen : Nat) : Nat := uncLenLoop (p.drop prefixLen) (min prefixLen p.length) 0

/-- cutPath: what follows the first separator, if any -/
def cutPathRest : Bytes → Option Bytes
  | [] => none
  | c :: rest => if isSlash c then some rest else cutPathRest rest

def pfxDotUNC : Bytes := [BS, BS, DOT, BS, 85, 78, 67]   -- `\\.\UNC`
def pfxDot : Bytes := [BS, BS, DOT]                       -- `\\.`
def pfxQM : Bytes := [BS, BS, QM]                         -- `\\?`
def pfxQQ : Bytes := [BS, QM, QM]                         -- `\??`

/-- VolumeNameLen (the volumeNameLen of Go 1.23's internal/filepathlite/path_windows.go) -/
def volumeNameLen (os : OS) (p : Bytes) : Nat :=
  match os with
  | .linux => 0
  | .windows =>
    match p with
    | [] => 0
    | c0 :: tl =>
      if (match tl with | c1 :: _ => c1 == COLON | [] => false) then 2
      else if !isSlash c0 then 0
      else if pathHasPrefixFold p pfxDotUNC then uncLen p 8
      else if pathHasPrefixFold p pfxDot || pathHasPrefixFold p pfxQM || pathHasPrefixFold p pfxQQ then
        if p.length == 3 then 3
        else match cutPathRest (p.drop 4) with
          | none => p.length
          | some rest => p.length - rest.length - 1
      else if (match tl with | c1 :: _ => isSlash c1 | [] => false) then uncLen p 2
      else 0

/-- FromSlash -/
def fromSlash (os : OS) (p : Bytes) : Bytes :=
  match os with
  | .linux => p
  | .windows => p.map (fun c => if c == SL then BS else c)

/-- ToSlash -/
def toSlash (os : OS) (p : Bytes) : Bytes :=
  match os with
  | .linux => p
  | .windows => p.map (fun c => if c == BS then SL else c)

/-- VolumeName -/
def volumeName (os : OS) (p : Bytes) : Bytes := fromSlash os (p.take (volumeNameLen os p))

/-! ### Clean.  The lazybuf is modelled by `out` = the logical content (the first `w` bytes), `dv` = `buf != nil`
    (the output has diverged from the input) and `stale` = the physical bytes of `buf` beyond `w`
    (zeros or bytes left behind by backtracking), which only `postClean` can observe. -/

structure LBuf where
  out : Bytes
  stale : Bytes
  dv : Bool
  deriving DecidableEq, Repr

/-- lazybuf.append -/
def lbAppend (path : Bytes) (b : LBuf) (c : UInt8) : LBuf :=
  if b.dv then { b with out := b.out ++ [c], stale := b.stale.drop 1 }
  else if path[b.out.length]? = some c then { b with out := b.out ++ [c] }
  else { out := b.out ++ [c], stale := List.replicate (path.length - b.out.length - 1) 0, dv := true }

/-- `out.w--; for out.w > dotdot && !IsPathSeparator(out.index(out.w)) { out.w-- }` on the logical content;
    `backRev` works on the reversed content: head = out[w] where w = length of the tail -/
def backRev (os : OS) (dd : Nat) : Bytes → Bytes
  | [] => []
  | c :: r' => if r'.length > dd && !isSep os c then backRev os dd r' else r'

def backW (os : OS) (out : Bytes) (dd : Nat) : Bytes := (backRev os dd out.reverse).reverse

def lbBack (os : OS) (b : LBuf) (dd : Nat) : LBuf :=
  let o := backW os b.out dd
  { b with out := o, stale := if b.dv then b.out.drop o.length ++ b.stale else b.stale }

def appendAll (path : Bytes) (b : LBuf) : Bytes → LBuf
  | [] => b
  | c :: cs => appendAll path (lbAppend path b c) cs

theorem length_dropWhile_le {α} (p : α → Bool) (l : List α) : (l.dropWhile p).length ≤ l.length := by
  induction l with
  | nil => simp
  | cons a l ih => simp only [List.dropWhile]; split <;> simp <;> omega

/-- the main loop of Clean over the unread input `rest` (= path[r:]) -/
def cleanLoop (os : OS) (path : Bytes) (rooted : Bool) (rest : Bytes) (b : LBuf) (dd : Nat) : LBuf :=
  match rest with
  | [] => b
  | c :: rest1 =>
    if isSep os c then cleanLoop os path rooted rest1 b dd
    else if c == DOT && (rest1 == [] || (match rest1 with | c1 :: _ => isSep os c1 | [] => false)) then
      cleanLoop os path rooted rest1 b dd
    else if c == DOT && (match rest1 with
          | c1 :: rest2 => c1 == DOT && (rest2 == [] || (match rest2 with | c2 :: _ => isSep os c2 | [] => false))
          | [] => false) then
      let rest2 := rest1.tail
      if b.out.length > dd then
        cleanLoop os path rooted rest2 (lbBack os b dd) dd
      else if !rooted then
        let b1 := if b.out.length > 0 then lbAppend path b (pathSep os) else b
        let b3 := lbAppend path (lbAppend path b1 DOT) DOT
        cleanLoop os path rooted rest2 b3 b3.out.length
      else cleanLoop os path rooted rest2 b dd
    else
      let b1 :=
        if (rooted && b.out.length != 1) || (!rooted && b.out.length != 0) then lbAppend path b (pathSep os)
        else b
      let elem := (c :: rest1).takeWhile (fun x => !isSep os x)
      let rest' := (c :: rest1).dropWhile (fun x => !isSep os x)
      cleanLoop os path rooted rest' (appendAll path b1 elem) dd
termination_by rest.length
decreasing_by
  all_goals simp_wf
  all_goals first
    | omega
    | (have : (rest1.tail).length ≤ rest1.length := by simp
       omega)
    | (rename_i h _ _
       simp only [List.dropWhile]
       have hc : (!isSep os c) = true := by simp [h]
       simp only [hc]
       have := length_dropWhile_le (fun x => !isSep os x) rest1
       omega)

/-- postClean: works on the physical buffer `out ++ stale`; returns the new logical content -/
def postClean (os : OS) (volLen : Nat) (b : LBuf) : Bytes :=
  if volLen != 0 || !b.dv then b.out else
  let phys := b.out ++ b.stale
  let firstElem := phys.takeWhile (fun c => !isSep os c)
  if firstElem.contains COLON then DOT :: pathSep os :: b.out
  else
    match phys with
    | c0 :: c1 :: c2 :: _ => if isSep os c0 && c1 == QM && c2 == QM then pathSep os :: DOT :: b.out else b.out
    | _ => b.out

/-- Clean -/
def clean (os : OS) (original : Bytes) : Bytes :=
  let volLen := volumeNameLen os original
  let path := original.drop volLen
  match path with
  | [] =>
    if volLen > 1 && (match original with | c0 :: c1 :: _ => isSep os c0 && isSep os c1 | _ => false) then
      fromSlash os original
    else original ++ [DOT]
  | c :: rest =>
    let rooted := isSep os c
    let b0 : LBuf := { out := [], stale := [], dv := false }
    let (b1, rest0, dd0) :=
      if rooted then (lbAppend path b0 (pathSep os), rest, 1) else (b0, path, 0)
    let b2 := cleanLoop os path rooted rest0 b1 dd0
    let b3 := if b2.out.length == 0 then lbAppend path b2 DOT else b2
    let out3 := match os with
      | .windows => postClean os volLen b3
      | .linux => b3.out
    fromSlash os (original.take volLen ++ out3)

/-- strings.Join(elems, sep) -/
def joinWith (s : UInt8) : List Bytes → Bytes
  | [] => []
  | [e] => e
  | e :: es => e ++ s :: joinWith s es

/-- pathHasPrefixFold(s, "??") -/
def hasPrefixFoldQQ (s : Bytes) : Bool :=
  match s with
  | a :: b :: rest => a == QM && b == QM && (match rest with | c :: _ => isSlash c | [] => true)
  | _ => false

/-- joinWindows: state (b, lastChar) -/
def joinWindowsLoop : List Bytes → Bytes → UInt8 → Bytes
  | [], b, _ => b
  | e :: es, b, last =>
    let (e', b', last') :=
      if b.length == 0 then (e, b, last)
      else if isSlash last then
        let e1 := e.dropWhile isSlash
        let b1 := if b.length == 1 && hasPrefixFoldQQ e1 then b ++ [DOT, BS] else b
        (e1, b1, last)
      else if last == COLON then (e, b, last)
      else (e, b ++ [BS], BS)
    match e'.getLast? with
    | some l => joinWindowsLoop es (b' ++ e') l
    | none => joinWindowsLoop es b' last'

/-- Join -/
def join (os : OS) (elems : List Bytes) : Bytes :=
  match os with
  | .windows =>
    let b := joinWindowsLoop elems [] 0
    if b.length == 0 then [] else clean os b
  | .linux =>
    let es := elems.dropWhile (fun e => e.isEmpty)
    match es with
    | [] => []
    | _ => clean os (joinWith (pathSep os) es)

/-- IsAbs -/
def isAbs (os : OS) (p : Bytes) : Bool :=
  match os with
  | .linux => (match p with | c :: _ => c == SL | [] => false)
  | .windows =>
    let l := volumeNameLen os p
    if l == 0 then false
    else
      match p with
      | c0 :: c1 :: _ =>
        if isSlash c0 && isSlash c1 then true
        else match p.drop l with
          | c :: _ => isSlash c
          | [] => false
      | _ => false   -- unreachable: l ≠ 0 needs two bytes

/-- index of the byte after the last separator at or after position `lo`: Go's
    `i := len(path)-1; for i >= lo && !IsPathSeparator(path[i]) { i-- }` returns i+1 -/
def lastSepEnd (os : OS) (p : Bytes) (lo : Nat) : Nat :=
  let tailLen := (p.reverse.takeWhile (fun c => !isSep os c)).length
  -- i+1 = len - tailLen, but not below lo
  if p.length - tailLen < lo then lo else p.length - tailLen

/-- Split -/
def split (os : OS) (p : Bytes) : Bytes × Bytes :=
  let vl := (volumeName os p).length
  let i1 := lastSepEnd os p vl
  (p.take i1, p.drop i1)

/-- Base -/
def base (os : OS) (p : Bytes) : Bytes :=
  if p.isEmpty then [DOT] else
  let p1 := (p.reverse.dropWhile (isSep os)).reverse
  let p2 := p1.drop (volumeName os p1).length
  let tailLen := (p2.reverse.takeWhile (fun c => !isSep os c)).length
  let p3 := p2.drop (p2.length - tailLen)
  if p3.isEmpty then [pathSep os] else p3

/-- Dir -/
def dir (os : OS) (p : Bytes) : Bytes :=
  let vol := volumeName os p
  let i1 := lastSepEnd os p vol.length
  let d := clean os ((p.take i1).drop vol.length)
  if d == [DOT] && vol.length > 2 then vol else vol ++ d

/-- Abs(vfs, path, curDir) -/
def abs (os : OS) (p cur : Bytes) : Bytes :=
  if isAbs os p then clean os p else join os [cur, p]

/-- SplitAbs; `none` = slice bounds panic (path[:i] with i = -1) -/
def splitAbs (os : OS) (p : Bytes) : Option (Bytes × Bytes) :=
  let l := volumeNameLen os p
  let tailLen := (p.reverse.takeWhile (fun c => !isSep os c)).length
  -- i = len-1-tailLen as an integer, stops at l-1
  let i : Int := if (p.length : Int) - 1 - tailLen < (l : Int) - 1 then (l : Int) - 1 else (p.length : Int) - 1 - tailLen
  if i < 0 then none else some (p.take i.toNat, p.drop (i.toNat + 1))

def runeError : Nat := 0xFFFD

def isCont (b : UInt8) : Bool := 0x80 ≤ b && b ≤ 0xBF

/-- utf8.DecodeRuneInString: (rune, size) -/
def decodeRune (s : Bytes) : Nat × Nat :=
  match s with
  | [] => (runeError, 0)
  | b0 :: r =>
    if b0 < 0x80 then (b0.toNat, 1)
    else if 0xC2 ≤ b0 && b0 ≤ 0xDF then
      match r with
      | b1 :: _ => if isCont b1 then ((b0.toNat % 32) * 64 + b1.toNat % 64, 2) else (runeError, 1)
      | _ => (runeError, 1)
    else if 0xE0 ≤ b0 && b0 ≤ 0xEF then
      match r with
      | b1 :: b2 :: _ =>
        let lo : UInt8 := if b0 == 0xE0 then 0xA0 else 0x80
        let hi : UInt8 := if b0 == 0xED then 0x9F else 0xBF
        if lo ≤ b1 && b1 ≤ hi && isCont b2 then
          ((b0.toNat % 16) * 4096 + (b1.toNat % 64) * 64 + b2.toNat % 64, 3)
        else (runeError, 1)
      | _ => (runeError, 1)
    else if 0xF0 ≤ b0 && b0 ≤ 0xF4 then
      match r with
      | b1 :: b2 :: b3 :: _ =>
        let lo : UInt8 := if b0 == 0xF0 then 0x90 else 0x80
        let hi : UInt8 := if b0 == 0xF4 then 0x8F else 0xBF
        if lo ≤ b1 && b1 ≤ hi && isCont b2 && isCont b3 then
          ((b0.toNat % 8) * 262144 + (b1.toNat % 64) * 4096 + (b2.toNat % 64) * 64 + b3.toNat % 64, 4)
        else (runeError, 1)
      | _ => (runeError, 1)
    else (runeError, 1)

/-- the runes of a byte string as utf8 decoding delivers them (an invalid byte is one RuneError) -/
def runesOf : Nat → Bytes → List Nat
  | 0, _ => []
  | _, [] => []
  | fuel + 1, s =>
    let (r, n) := decodeRune s
    r :: runesOf fuel (s.drop (max n 1))

def foldRune (r : Nat) : Nat := if 97 ≤ r && r ≤ 122 then r - 32 else r

/-- strings.EqualFold: rune by rune (so that any two invalid bytes are "equal": both decode to RuneError), with simple
    case folding modelled on ASCII letters only -/
def asciiFoldEq (a b : Bytes) : Bool :=
  (runesOf a.length a).map foldRune == (runesOf b.length b).map foldRune

/-- sameWord (strings.EqualFold: rune-wise, case folding on ASCII letters only) -/
def sameWord (os : OS) (a b : Bytes) : Bool :=
  match os with
  | .linux => a == b
  | .windows => asciiFoldEq a b

def countSep (s : UInt8) (p : Bytes) : Nat := (p.filter (· == s)).length

/-- the positioning loop of Rel on the unread parts `b = base[b0:]`, `t = targ[t0:]`.
    Result: the parts at the first differing elements; `none` = the Go loop never exits (both strings exhausted
    with all elements equal). Fuel = an upper bound on the number of rounds. -/
def relLoop (os : OS) (s : UInt8) : Nat → Bytes → Bytes → Option (Bytes × Bytes)
  | 0, _, _ => none
  | fuel + 1, b, t =>
    let be := b.takeWhile (· != s)
    let te := t.takeWhile (· != s)
    if !sameWord os te be then some (b, t)
    else if b.length ≤ be.length && t.length ≤ te.length then none
    else relLoop os s fuel (b.drop (be.length + 1)) (t.drop (te.length + 1))

inductive RelOut | ok (r : Bytes) | err | hang
  deriving DecidableEq, Repr

/-- Rel -/
def rel (os : OS) (basepath targpath : Bytes) : RelOut :=
  let s := pathSep os
  let baseVol := volumeName os basepath
  let targVol := volumeName os targpath
  let base0 := clean os basepath
  let targ0 := clean os targpath
  if sameWord os targ0 base0 then .ok [DOT] else
  let base1 := base0.drop baseVol.length
  let targ := targ0.drop targVol.length
  let base :=
    if base1 == [DOT] then []
    else if base1 == [] && volumeNameLen os baseVol > 2 then [s]
    else base1
  let baseSlashed := (match base with | c :: _ => c == s | [] => false)
  let targSlashed := (match targ with | c :: _ => c == s | [] => false)
  if baseSlashed != targSlashed || !sameWord os baseVol targVol then .err else
  match relLoop os s (base.length + targ.length + 2) base targ with
  | none => .hang
  | some (bRest, tRest) =>
    let be := bRest.takeWhile (· != s)
    if be == [DOT, DOT] then .err else
    if bRest.length != 0 then
      let seps := countSep s bRest
      let ups : Bytes := [DOT, DOT] ++ (List.replicate seps [s, DOT, DOT]).flatten
      if tRest.length != 0 then .ok (ups ++ [s] ++ tRest) else .ok ups
    else .ok tRest

/-! ### Match -/

inductive MOut (α : Type) | ok (a : α) | badPattern | panic
  deriving DecidableEq, Repr

/-- scanChunk: (star, chunk, rest) -/
def scanChunk (os : OS) (pattern : Bytes) : Bool × Bytes × Bytes :=
  let p1 := pattern.dropWhile (· == STAR)
  let star := p1.length < pattern.length
  -- scan for an unbracketed '*'
  let rec scan (l : Bytes) (inrange : Bool) (acc : Nat) : Nat :=
    match l with
    | [] => acc
    | c :: l' =>
      if c == BS then
        match os with
        | .linux => (match l' with | _ :: l'' => scan l'' inrange (acc + 2) | [] => acc + 1)
        | .windows => scan l' inrange (acc + 1)
      else if c == LB then scan l' true (acc + 1)
      else if c == RB then scan l' false (acc + 1)
      else if c == STAR then (if !inrange then acc else scan l' inrange (acc + 1))
      else scan l' inrange (acc + 1)
  let i := scan p1 false 0
  (star, p1.take i, p1.drop i)

/-- getEsc: (rune, nchunk) -/
def getEsc (os : OS) (chunk : Bytes) : MOut (Nat × Bytes) :=
  match chunk with
  | [] => .badPattern
  | c :: rest =>
    if c == DASH || c == RB then .badPattern else
    let chunk1? : Option Bytes :=
      if c == BS && os != .windows then (if rest == [] then none else some rest) else some chunk
    match chunk1? with
    | none => .badPattern
    | some chunk1 =>
      let (r, n) := decodeRune chunk1
      let nchunk := chunk1.drop n
      if (r == runeError && n == 1) || nchunk == [] then .badPattern else .ok (r, nchunk)

/-- the `for { … }` parsing all ranges of a class: returns (match, chunk after ']') -/
def classLoop (os : OS) (r : Nat) : Nat → Bytes → Bool → Nat → MOut (Bool × Bytes)
  | 0, _, _, _ => .panic    -- fuel exhausted: unreachable (chunk shrinks each round)
  | fuel + 1, chunk, mt, nrange =>
    match chunk with
    | c :: rest =>
      if c == RB && nrange > 0 then .ok (mt, rest) else
      match getEsc os chunk with
      | .badPattern => .badPattern
      | .panic => .panic
      | .ok (lo, chunk1) =>
        match chunk1 with
        | [] => .panic     -- chunk[0] on empty: getEsc never returns an empty nchunk without error
        | c1 :: rest1 =>
          if c1 == DASH then
            match getEsc os rest1 with
            | .badPattern => .badPattern
            | .panic => .panic
            | .ok (hi, chunk2) => classLoop os r fuel chunk2 (mt || (lo ≤ r && r ≤ hi)) (nrange + 1)
          else classLoop os r fuel chunk1 (mt || (lo ≤ r && r ≤ lo)) (nrange + 1)
    | [] =>
      match getEsc os chunk with
      | .badPattern => .badPattern
      | _ => .panic

/-- matchChunk: (rest, ok) -/
def matchChunk (os : OS) : Nat → Bytes → Bytes → Bool → MOut (Bytes × Bool)
  | 0, _, _, _ => .panic
  | fuel + 1, chunk, s, failed0 =>
    match chunk with
    | [] => if failed0 then .ok ([], false) else .ok (s, true)
    | c :: crest =>
      let failed := failed0 || s == []
      if c == LB then
        let (r, s1) := if !failed then let (r, n) := decodeRune s; (r, s.drop n) else (0, s)
        let (negated, chunk1) := match crest with
          | c1 :: rest1 => if c1 == CARET then (true, rest1) else (false, crest)
          | [] => (false, crest)
        match classLoop os r (chunk1.length + 2) chunk1 false 0 with
        | .badPattern => .badPattern
        | .panic => .panic
        | .ok (mt, chunk2) => matchChunk os fuel chunk2 s1 (failed || mt == negated)
      else if c == QM then
        if !failed then
          match s with
          | s0 :: _ =>
            let f1 := s0 == pathSep os
            let (_, n) := decodeRune s
            matchChunk os fuel crest (s.drop n) f1
          | [] => .panic
        else matchChunk os fuel crest s failed
      else
        -- '\\' on non-windows drops the backslash, then falls through to the literal case
        let chunkL? : Option Bytes :=
          if c == BS && os != .windows then (if crest == [] then none else some crest) else some chunk
        match chunkL? with
        | none => .badPattern
        | some chunkL =>
          match chunkL with
          | [] => .panic
          | l0 :: lrest =>
            if !failed then
              match s with
              | s0 :: srest => matchChunk os fuel lrest srest (l0 != s0)
              | [] => .panic
            else matchChunk os fuel lrest s failed

/-- the `for i := 0; i < len(name) && name[i] != sep; i++` scan of a starred chunk -/
def starScan (os : OS) (chunk : Bytes) (patEmpty : Bool) : Bytes → MOut (Option Bytes)
  | [] => .ok none
  | n0 :: nrest =>
    if n0 == pathSep os then .ok none else
    match matchChunk os (chunk.length + 2) chunk nrest false with
    | .panic => .panic
    | .badPattern => .badPattern       -- `if err != nil return false, err` (ok is false on error)
    | .ok (t, ok) =>
      if ok then
        if patEmpty && t.length > 0 then starScan os chunk patEmpty nrest
        else .ok (some t)
      else starScan os chunk patEmpty nrest

/-- Match -/
def matchLoop (os : OS) : Nat → Bytes → Bytes → MOut Bool
  | 0, _, _ => .panic
  | fuel + 1, pattern, name =>
    if pattern.length == 0 then .ok (name == []) else
    let (star, chunk, rest) := scanChunk os pattern
    if star && chunk == [] then .ok (!name.contains (pathSep os)) else
    match matchChunk os (chunk.length + 2) chunk name false with
    | .panic => .panic
    | r =>
      let (t, ok, isErr) := match r with
        | .ok (t, ok) => (t, ok, false)
        | _ => ([], false, true)
      if ok && (t == [] || rest.length > 0) then matchLoop os fuel rest t
      else if isErr then .badPattern
      else if star then
        match starScan os chunk (rest == []) name with
        | .panic => .panic
        | .badPattern => .badPattern
        | .ok (some t) => matchLoop os fuel rest t
        | .ok none => .ok false
      else .ok false

def pmatch (os : OS) (pattern name : Bytes) : MOut Bool := matchLoop os (pattern.length + 2) pattern name

/-- FromUnixPath (total since the `fix:` commit for the empty string) -/
def fromUnixPath (os : OS) (p : Bytes) : Option Bytes :=
  match os with
  | .linux => some p
  | .windows =>
    match p with
    | [] => some (fromSlash os [])
    | c :: _ => if c != SL then some (fromSlash os p) else some (join os [[67, COLON], fromSlash os p])

/-! ### PathIterator (pathiterator.go).  `start`/`end` are Go ints; slices are guarded. -/

structure Iter where
  path : Bytes
  start : Nat
  stop1 : Nat          -- `end` + 1  (Go's `end` may be -1 after ReplacePart at start 0)
  volLen : Nat
  deriving DecidableEq, Repr

def Iter.new (os : OS) (p : Bytes) : Iter :=
  let vl := volumeNameLen os p
  { path := p, start := 0, stop1 := vl + 1, volLen := vl }

def Iter.reset (it : Iter) : Iter := { it with stop1 := it.volLen + 1 }

def Iter.isLast (it : Iter) : Bool := it.stop1 == it.path.length + 1

/-- Next: (iterator, more) -/
def Iter.next (os : OS) (it : Iter) : Iter × Bool :=
  let start := it.stop1
  if start ≥ it.path.length then ({ it with start := start, stop1 := start + 1 }, false)
  else
    let seg := (it.path.drop start).takeWhile (· != pathSep os)
    ({ it with start := start, stop1 := start + seg.length + 1 }, true)

/-- Go slice `s[a:b1-1]`, `none` when out of range (including b = -1) -/
def slice1 (s : Bytes) (a b1 : Nat) : Option Bytes :=
  if 1 ≤ b1 && a ≤ b1 - 1 && b1 - 1 ≤ s.length then some ((s.take (b1 - 1)).drop a) else none

def Iter.part (it : Iter) : Option Bytes := slice1 it.path it.start it.stop1
def Iter.left (it : Iter) : Option Bytes := slice1 it.path 0 (it.start + 1)
def Iter.leftPart (it : Iter) : Option Bytes := slice1 it.path 0 it.stop1
def Iter.right (it : Iter) : Option Bytes :=
  if 1 ≤ it.stop1 then slice1 it.path (it.stop1 - 1) (it.path.length + 1) else none
def Iter.rightPart (it : Iter) : Option Bytes := slice1 it.path it.start (it.path.length + 1)

/-- ReplacePart: (iterator, reset?) ; `none` = slice panic -/
def Iter.replacePart (os : OS) (it : Iter) (newPath : Bytes) : Option (Iter × Bool) :=
  match it.right, it.left with
  | some right, some left =>
    let p' := if isAbs os newPath then join os [newPath, right] else join os [left, newPath, right]
    if it.start ≥ p'.length || p'.take it.start != left then
      some (({ it with path := p' }).reset, true)
    else some ({ it with path := p', stop1 := it.start }, false)
  | _, _ => none

end Avfs.Path
