/-
  Go strings / []byte are byte sequences.  Everything in the model layer is core Lean only
  (no Mathlib), so that the driver links as a native executable.
-/
namespace Avfs

abbrev Bytes := List UInt8

namespace Bytes

def hexDigit (n : Nat) : Char :=
  if n < 10 then Char.ofNat (48 + n) else Char.ofNat (87 + n)

/-- hex encoding used by the line protocol; the empty string is written `-`. -/
def toHex (b : Bytes) : String :=
  if b.isEmpty then "-" else
  String.ofList (b.flatMap fun c => [hexDigit (c.toNat / 16), hexDigit (c.toNat % 16)])

def hexVal (c : Char) : Option Nat :=
  if '0' ≤ c ∧ c ≤ '9' then some (c.toNat - 48)
  else if 'a' ≤ c ∧ c ≤ 'f' then some (c.toNat - 87)
  else none

def ofHexAux : List Char → Option Bytes
  | [] => some []
  | [_] => none
  | a :: b :: rest =>
    match hexVal a, hexVal b, ofHexAux rest with
    | some x, some y, some r => some (UInt8.ofNat (x * 16 + y) :: r)
    | _, _, _ => none

def ofHex (s : String) : Option Bytes :=
  if s == "-" then some [] else ofHexAux s.toList

def ofString (s : String) : Bytes := s.toUTF8.toList

end Bytes

/-! Association lists with first-match lookup (DESIGN Appendix C). -/

namespace AL

variable {κ : Type} {ν : Type} [DecidableEq κ]

def lookup (k : κ) : List (κ × ν) → Option ν
  | [] => none
  | (k', v) :: l => if k' = k then some v else lookup k l

def insert (k : κ) (v : ν) (l : List (κ × ν)) : List (κ × ν) := (k, v) :: l

def erase (k : κ) : List (κ × ν) → List (κ × ν)
  | [] => []
  | (k', v) :: l => if k' = k then erase k l else (k', v) :: erase k l

@[simp] theorem lookup_nil (k : κ) : lookup k ([] : List (κ × ν)) = none := rfl

@[simp] theorem lookup_insert_eq (k : κ) (v : ν) (l : List (κ × ν)) :
    lookup k (insert k v l) = some v := by simp [insert, lookup]

@[simp] theorem lookup_insert_ne {k k' : κ} (v : ν) (l : List (κ × ν)) (h : k' ≠ k) :
    lookup k (insert k' v l) = lookup k l := by simp [insert, lookup, h]

theorem lookup_insert (k k' : κ) (v : ν) (l : List (κ × ν)) :
    lookup k (insert k' v l) = if k' = k then some v else lookup k l := by
  simp [insert, lookup]

@[simp] theorem lookup_erase_eq (k : κ) (l : List (κ × ν)) : lookup k (erase k l) = none := by
  induction l with
  | nil => rfl
  | cons p l ih =>
    obtain ⟨k', v⟩ := p
    by_cases h : k' = k <;> simp [erase, lookup, h, ih]

@[simp] theorem lookup_erase_ne {k k' : κ} (l : List (κ × ν)) (h : k' ≠ k) :
    lookup k (erase k' l) = lookup k l := by
  induction l with
  | nil => rfl
  | cons p l ih =>
    obtain ⟨k'', v⟩ := p
    by_cases h1 : k'' = k'
    · subst h1; simp [erase, lookup, h, ih]
    · by_cases h2 : k'' = k
      · subst h2; simp [erase, lookup, h1]
      · simp [erase, lookup, h1, h2, ih]

theorem lookup_erase (k k' : κ) (l : List (κ × ν)) :
    lookup k (erase k' l) = if k' = k then none else lookup k l := by
  by_cases h : k' = k
  · subst h; simp
  · simp [h]

/-- keys with a binding, duplicates removed by erase: used for dumps -/
def keys (l : List (κ × ν)) : List κ := l.map (·.1)

theorem lookup_some_mem {k : κ} {v : ν} {l : List (κ × ν)} (h : lookup k l = some v) :
    (k, v) ∈ l := by
  induction l with
  | nil => simp at h
  | cons p l ih =>
    obtain ⟨k', v'⟩ := p
    by_cases hk : k' = k
    · simp [lookup, hk] at h; subst hk; subst h; simp
    · simp [lookup, hk] at h; exact List.mem_cons_of_mem _ (ih h)

theorem lookup_none_of_not_mem_keys {k : κ} {l : List (κ × ν)} (h : k ∉ keys l) :
    lookup k l = none := by
  induction l with
  | nil => rfl
  | cons p l ih =>
    obtain ⟨k', v'⟩ := p
    simp [keys] at h
    have h1 : k' ≠ k := fun e => h.1 e.symm
    simp [lookup, h1]
    apply ih
    simp [keys]
    exact h.2

end AL

end Avfs
