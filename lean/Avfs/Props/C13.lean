import Avfs.Path.Spec
import Avfs.Lemmas.Clean
import Avfs.Lemmas.PathMore
/-
  C13 — lexical path functions equal path/filepath of the emulated OS.
  Subject: Avfs.Path (transliteration of vfs_ostype_on.go / vfs.go / pathiterator.go), tied to /repo by
  `corr path` (impl built with avfs_setostype ≟ model, both OS types) and to path/filepath by the
  corr-oracle part (Lean Spec ≟ toolchain path/filepath).
-/
namespace Avfs.Path

/-- Clean on Linux equals the component-based reference (= path/filepath.Clean, see corr-oracle) for EVERY byte string. -/
theorem C13_clean_eq_spec (p : Bytes) : clean .linux p = Spec.clean p := clean_eq_spec p

/-- Clean is idempotent. -/
theorem C13_clean_idem (p : Bytes) : clean .linux (clean .linux p) = clean .linux p := by
  rw [clean_eq_spec, clean_eq_spec, spec_clean_idem]

/-- Join on Linux equals the reference (non-empty elements joined by '/', cleaned), for every list of byte strings. -/
theorem C13_join_eq_spec (es : List Bytes) : join .linux es = Spec.join es := join_eq_spec es

/-- Split: `dir ++ file = path`, for every byte string, on both OS types. -/
theorem C13_split_append (os : OS) (p : Bytes) : (split os p).1 ++ (split os p).2 = p := by
  simp [split]

/-- Split on Linux equals the reference (dir ends at the last '/', file has no '/'). -/
theorem C13_split_eq_spec (p : Bytes) : split .linux p = Spec.split p := split_eq_spec p

theorem C13_split_file_nosep (p : Bytes) : ∀ c ∈ (split .linux p).2, c ≠ SL := split_file_nosep p

/-- Base and Dir on Linux equal the reference, for every byte string. -/
theorem C13_base_eq_spec (p : Bytes) : base .linux p = Spec.base p := base_eq_spec p

theorem C13_dir_eq_spec (p : Bytes) : dir .linux p = Spec.dir p := dir_eq_spec p clean_eq_spec

/-- Abs on Linux: Clean of an absolute path, Join with the current directory otherwise, in reference terms. -/
theorem C13_abs_eq_spec (p cur : Bytes) :
    abs .linux p cur = if Spec.isAbs p then Spec.clean p else Spec.join [cur, p] := by
  unfold abs
  rw [clean_eq_spec, join_eq_spec]
  cases p <;> simp [isAbs, Spec.isAbs, Spec.isRooted]

/-- ToSlash ∘ FromSlash is the identity on Windows for strings without '\'. -/
theorem C13_toSlash_fromSlash_windows (p : Bytes) (h : ∀ c ∈ p, c ≠ BS) :
    toSlash .windows (fromSlash .windows p) = p := toSlash_fromSlash_windows p h

/-- Match never panics, on either OS type, for every pattern and name (all index expressions are in range). -/
theorem C13_match_no_panic (os : OS) (pat name : Bytes) : pmatch os pat name ≠ .panic := pmatch_no_panic os pat name

/-- SplitAbs never panics on an absolute path. -/
theorem C13_splitAbs_abs_linux (p : Bytes) (h : isAbs .linux p = true) : (splitAbs .linux p).isSome = true :=
  splitAbs_abs_linux p h

/-- PathIterator: after every successful Next, Left ++ Part ++ Right reassembles the path, the path is unchanged
    and the part contains no separator. -/
theorem C13_iter_reassemble (it it' : Iter) (h : it.next .linux = (it', true)) (hs : it.stop1 ≤ it.path.length + 1) :
    ∃ l pt r, it'.left = some l ∧ it'.part = some pt ∧ it'.right = some r ∧ l ++ pt ++ r = it'.path ∧
      it'.path = it.path ∧ (∀ c ∈ pt, c ≠ SL) := iter_next_reassemble it it' h hs

/-- PathIterator over an absolute clean path yields exactly its separator-delimited parts, in order. -/
theorem C13_iter_parts (cs : List Bytes) (p : Bytes) (hcs : cs ≠ [])
    (hall : ∀ c ∈ cs, c ≠ [] ∧ ∀ x ∈ c, x ≠ SL) (hp : p = SL :: joinWith SL cs) :
    iterParts .linux (p.length + 1) (Iter.new .linux p) = cs := iter_parts cs p hcs hall hp

theorem C13_iter_parts_root : iterParts .linux ([SL].length + 1) (Iter.new .linux [SL]) = [] := iter_parts_root

/-- ReplacePart: the new path is the Join of the pieces; without reset the walked prefix is unchanged and the next
    part starts at `start`. -/
theorem C13_replacePart (it : Iter) (np : Bytes) (it' : Iter) (rs : Bool)
    (h : it.replacePart .linux np = some (it', rs)) :
    (∃ l r, it.left = some l ∧ it.right = some r ∧
      it'.path = (if isAbs .linux np then join .linux [np, r] else join .linux [l, np, r])) ∧
    (rs = false → it'.path.take it.start = it.path.take it.start ∧ it'.stop1 = it.start) :=
  replacePart_path it np it' rs h

/-- IsAbs on Linux: exactly the paths that start with '/'. -/
theorem C13_isAbs_linux (p : Bytes) : isAbs .linux p = Spec.isAbs p := by
  cases p <;> simp [isAbs, Spec.isAbs, Spec.isRooted]

/-- FromSlash / ToSlash / VolumeName are the identity / empty on Linux. -/
theorem C13_slash_linux (p : Bytes) :
    fromSlash .linux p = p ∧ toSlash .linux p = p ∧ volumeName .linux p = [] ∧ volumeNameLen .linux p = 0 := by
  simp [fromSlash, toSlash, volumeName, volumeNameLen]

/-- FromSlash and ToSlash on Windows preserve length and are inverse on separator-normalised strings. -/
theorem C13_fromSlash_windows_length (p : Bytes) : (fromSlash .windows p).length = p.length := by
  simp [fromSlash]

/-- Abs: an absolute path is cleaned, a relative one is joined to the current directory. -/
theorem C13_abs_def (os : OS) (p cur : Bytes) :
    abs os p cur = if isAbs os p then clean os p else join os [cur, p] := rfl

/-! Tests (labelled as such; `#guard` evaluates with the compiler, it is not a kernel proof):
    closed instances of the model on both OS types. -/
section Tests
def s (x : String) : Bytes := Bytes.ofString x
#guard clean .linux (s "/a//b/./../c/") == s "/a/c"
#guard clean .linux (s "../../a/..") == s "../.."
#guard clean .windows (s "c:/a/../b") == s "c:\\b"
#guard join .linux [s "a", [], s "../b"] == s "b"
#guard split .windows (s "c:\\a\\b") == (s "c:\\a\\", s "b")
#guard rel .linux (s "/a/b") (s "/a/c/d") == .ok (s "../c/d")
#guard pmatch .linux (s "a*[b-c]?") (s "axxcé") == .ok true
end Tests

end Avfs.Path
