import Avfs.Path.Spec
import Avfs.Lemmas.Clean
/-
  C13 — lexical path functions equal path/filepath of the emulated OS.
  Subject: Avfs.Path (transliteration of vfs_ostype_on.go / vfs.go / pathiterator.go), tied to /repo by
  `corr path` (impl built with avfs_setostype ≟ model, both OS types) and to path/filepath by the
  corr-oracle part (Lean Spec ≟ toolchain path/filepath).
-/
namespace Avfs.Path

/-- Clean on Linux equals the component-based reference (= path/filepath.Clean, see corr-oracle) for EVERY byte string. -/
theorem C13_clean_eq_spec (p : Bytes) : clean .linux p = Spec.clean p := clean_eq_spec p

/-- Clean is idempotent. -/
theorem C13_clean_idem (p : Bytes) : clean .linux (clean .linux p) = clean .linux p := by
  rw [clean_eq_spec, clean_eq_spec, spec_clean_idem]

/-- Join on Linux equals the reference (non-empty elements joined by '/', cleaned), for every list of byte strings. -/
theorem C13_join_eq_spec (es : List Bytes) : join .linux es = Spec.join es := join_eq_spec es

/-- Split: `dir ++ file = path`, for every byte string, on both OS types. -/
theorem C13_split_append (os : OS) (p : Bytes) : (split os p).1 ++ (split os p).2 = p := by
  simp [split]

/-- IsAbs on Linux: exactly the paths that start with '/'. -/
theorem C13_isAbs_linux (p : Bytes) : isAbs .linux p = Spec.isAbs p := by
  cases p <;> simp [isAbs, Spec.isAbs, Spec.isRooted]

/-- FromSlash / ToSlash / VolumeName are the identity / empty on Linux. -/
theorem C13_slash_linux (p : Bytes) :
    fromSlash .linux p = p ∧ toSlash .linux p = p ∧ volumeName .linux p = [] ∧ volumeNameLen .linux p = 0 := by
  simp [fromSlash, toSlash, volumeName, volumeNameLen]

/-- FromSlash and ToSlash on Windows preserve length and are inverse on separator-normalised strings. -/
theorem C13_fromSlash_windows_length (p : Bytes) : (fromSlash .windows p).length = p.length := by
  simp [fromSlash]

/-- Abs: an absolute path is cleaned, a relative one is joined to the current directory. -/
theorem C13_abs_def (os : OS) (p cur : Bytes) :
    abs os p cur = if isAbs os p then clean os p else join os [cur, p] := rfl

/-! Tests (labelled as such; `#guard` evaluates with the compiler, it is not a kernel proof):
    closed instances of the model on both OS types. -/
section Tests
def s (x : String) : Bytes := Bytes.ofString x
#guard clean .linux (s "/a//b/./../c/") == s "/a/c"
#guard clean .linux (s "../../a/..") == s "../.."
#guard clean .windows (s "c:/a/../b") == s "c:\\b"
#guard join .linux [s "a", [], s "../b"] == s "b"
#guard split .windows (s "c:\\a\\b") == (s "c:\\a\\", s "b")
#guard rel .linux (s "/a/b") (s "/a/c/d") == .ok (s "../c/d")
#guard pmatch .linux (s "a*[b-c]?") (s "axxcé") == .ok true
end Tests

end Avfs.Path
