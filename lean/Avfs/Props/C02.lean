import Avfs.Lemmas.FileOps
import Avfs.Lemmas.FileSpec
/-
  C02 — open-file I/O behaves as os.File.  Subject: Avfs.FS.fileStep (model of memfs_file.go) and openFile.
  Tied to /repo by `corr memfs-files` (impl ≟ model incl. heap dumps) and to os.File by `corr kernel-files`.
-/
namespace Avfs.FS
open Avfs.Path

/-- the reference content operation: pwrite at `pos` of non-empty `b` into `d`, zero-filling a gap -/
def pwriteSpec (d : Bytes) (pos : Nat) (b : Bytes) : Bytes :=
  (d ++ List.replicate (pos - d.length) 0).take pos ++ b ++ d.drop (pos + b.length)

/-- Read at an offset at or beyond the end of the file reads as EOF (for a non-empty buffer) and has no effect. -/
theorem C02_read_past_eof (s : Store) (v : View) (h : Handle) (i : Ino) (m : Meta) (d : Bytes) (nl : Int) (id n : Nat)
    (hn : h.name ≠ []) (hnd : h.nd = some i) (hg : s.get i = some (.file m d nl id)) (hr : h.om &&& omRead ≠ 0)
    (hpos : 0 ≤ h.pos) (hp : d.length ≤ h.pos.toNat) (hn0 : n ≠ 0) :
    fileStep s v h (.read n) = (s, v, h, .errN 0 [] .eof) := by
  simp [fileStep, isEmpty_false_of_ne hn, hnd, hg, hr, hp, hn0]

/-- Read inside the file returns exactly the bytes at the handle offset, at most `n`, and advances the offset. -/
theorem C02_read_inside (s : Store) (v : View) (h : Handle) (i : Ino) (m : Meta) (d : Bytes) (nl : Int) (id n : Nat)
    (hn : h.name ≠ []) (hnd : h.nd = some i) (hg : s.get i = some (.file m d nl id)) (hr : h.om &&& omRead ≠ 0)
    (hpos : 0 ≤ h.pos) (hp : h.pos.toNat < d.length) (hn0 : n ≠ 0) :
    fileStep s v h (.read n) =
      (s, v, { h with pos := h.pos + (min n (d.length - h.pos.toNat) : Nat) },
        .ok (.num (min n (d.length - h.pos.toNat) : Nat) ((d.drop h.pos.toNat).take (min n (d.length - h.pos.toNat))))) := by
  have h1 : ¬ d.length ≤ h.pos.toNat := by omega
  have h2 : ¬ d.length ≤ h.pos.toNat := by omega
  simp [fileStep, isEmpty_false_of_ne hn, hnd, hg, hr, h1, hn0]
  omega

/-- writeData is pwrite with zero fill: a write beyond the end of the file leaves a zero-filled gap. -/
theorem C02_write_gap_zero (d : Bytes) (pos : Nat) (b : Bytes) (hb : b ≠ []) :
    writeData d pos b = pwriteSpec d pos b ∧
    (∀ k, d.length ≤ k → k < pos → (writeData d pos b)[k]? = some 0) ∧
    (writeData d pos b).length = max d.length (pos + b.length) := by
  exact ⟨writeData_eq d pos b hb, fun k h1 h2 => writeData_gap d pos b hb k h1 h2, writeData_length d pos b hb⟩

/-- With O_APPEND every non-empty write lands at the current end of the file, whatever the handle offset is
    (`hsz`: the file stays within `maxFileSize`; otherwise the write is refused with EINVAL and changes nothing). -/
theorem C02_append_lands_at_end (s : Store) (v : View) (h : Handle) (i : Ino) (m : Meta) (d b : Bytes) (nl : Int) (id : Nat)
    (hn : h.name ≠ []) (hnd : h.nd = some i) (hg : s.get i = some (.file m d nl id))
    (hw : h.om &&& omWrite ≠ 0) (ha : h.om &&& omAppend ≠ 0) (hb : b ≠ [])
    (hsz : d.length + b.length ≤ maxFileSize) :
    ∃ m', (fileStep s v h (.write b)).1.get i = some (.file m' (d ++ b) nl id) ∧
      (fileStep s v h (.write b)).2.2.1.pos = ((d.length + b.length : Nat) : Int) := by
  refine ⟨{ m with mtime := none }, ?_⟩
  have hmax : ¬ maxFileSize < d.length + b.length := Nat.not_lt.mpr hsz
  simp [fileStep, isEmpty_false_of_ne hn, isEmpty_false_of_ne hb, hnd, hg, hw, ha, hmax, writeData_at_end, get_set_eq]

/-- The access mode of the handle is enforced: reading needs read mode, writing and truncating need write mode;
    a refused call changes nothing. -/
theorem C02_mode_enforced (s : Store) (v : View) (h : Handle) (i : Ino) (m : Meta) (d : Bytes) (nl : Int) (id : Nat)
    (hn : h.name ≠ []) (hnd : h.nd = some i) (hg : s.get i = some (.file m d nl id)) :
    (h.om &&& omRead = 0 → ∀ n, fileStep s v h (.read n) = (s, v, h, .err .EBADF)) ∧
    (h.om &&& omRead = 0 → ∀ n off, 0 ≤ off → fileStep s v h (.readAt n off) = (s, v, h, .err .EBADF)) ∧
    (h.om &&& omWrite = 0 → ∀ b, fileStep s v h (.write b) = (s, v, h, .err .EBADF)) ∧
    (h.om &&& omWrite = 0 → ∀ b off, 0 ≤ off → fileStep s v h (.writeAt b off) = (s, v, h, .err .EBADF)) ∧
    (h.om &&& omWrite = 0 → ∀ sz, 0 ≤ sz → fileStep s v h (.truncate sz) = (s, v, h, .err .EINVAL)) := by
  have hne := isEmpty_false_of_ne hn
  refine ⟨?_, ?_, ?_, ?_, ?_⟩
  · intro h0 n; simp [fileStep, hne, hnd, hg, h0]
  · intro h0 n off ho; simp [fileStep, hne, hnd, hg, h0, Int.not_lt.mpr ho]
  · intro h0 b; simp [fileStep, hne, hnd, hg, h0]
  · intro h0 b off ho; simp [fileStep, hne, hnd, hg, h0, Int.not_lt.mpr ho]
  · intro h0 sz ho; simp [fileStep, hne, hnd, hg, h0, Int.not_lt.mpr ho]

/-- Any call on a closed handle fails with a closed-file error and has no effect (negative offsets of
    ReadAt/WriteAt excepted: they are reported first, as os.File does for WriteAt). -/
theorem C02_closed_no_effect (s : Store) (v : View) (h : Handle) (op : FOp) (hn : h.name ≠ []) (hc : h.nd = none)
    (hoff : ∀ b off, op = .writeAt b off → 0 ≤ off) :
    (fileStep s v h op).1 = s ∧ (fileStep s v h op).2.1 = v ∧ (fileStep s v h op).2.2.1 = h ∧
    ((fileStep s v h op).2.2.2 = .err .closed ∨ (fileStep s v h op).2.2.2 = .err .fileClosing) := by
  have hne := isEmpty_false_of_ne hn
  cases op with
  | writeAt b off =>
    have ho := hoff b off rfl
    simp [fileStep, hne, hc, Int.not_lt.mpr ho]
  | _ => simp [fileStep, hne, hc]

/-- Close makes the handle closed; a second Close reports the closed file. -/
theorem C02_close (s : Store) (v : View) (h : Handle) (i : Ino) (hn : h.name ≠ []) (hnd : h.nd = some i) :
    (fileStep s v h .close).2.2.2 = .ok .unit ∧ (fileStep s v h .close).2.2.1.nd = none ∧ (fileStep s v h .close).1 = s ∧
    (fileStep s v (fileStep s v h .close).2.2.1 .close).2.2.2 = .err .closed := by
  have hne := isEmpty_false_of_ne hn
  simp [fileStep, hne, hnd]

/-- A handle keeps working on its file after the name is removed: unlinking (`deleteNode`) keeps the content, and
    reads/writes through the handle act on the same inode. -/
theorem C02_handle_survives_remove (s : Store) (i : Ino) (m : Meta) (d : Bytes) (nl : Int) (id : Nat)
    (hg : s.get i = some (.file m d nl id)) :
    (deleteNode s i).get i = some (.file m d (nl - 1) id) := by
  simp [deleteNode, hg, get_set_eq]

/-- Handles (and hard links) share one inode: what is written through one handle is what any other handle on the same
    inode then reads (`hsz`: the write ends within `maxFileSize`, so it is not refused). -/
theorem C02_shared_inode (s : Store) (v : View) (h1 h2 : Handle) (i : Ino) (m : Meta) (d b : Bytes) (nl : Int) (id n : Nat)
    (hn1 : h1.name ≠ []) (hn2 : h2.name ≠ []) (hnd1 : h1.nd = some i) (hnd2 : h2.nd = some i)
    (hg : s.get i = some (.file m d nl id)) (hw : h1.om &&& omWrite ≠ 0) (hna : h1.om &&& omAppend = 0)
    (hr : h2.om &&& omRead ≠ 0) (hpos : 0 ≤ h1.pos) (hb : b ≠ []) (hn0 : n ≠ 0)
    (hsz : h1.pos.toNat + b.length ≤ maxFileSize) :
    let s' := (fileStep s v h1 (.write b)).1
    let d' := writeData d h1.pos.toNat b
    (fileStep s' v h2 (.readAt n 0)).2.2.2 =
      (if n ≤ d'.length then .ok (.num n (d'.take n)) else .errN d'.length d' .eof) := by
  intro s' d'
  have hs' : s' = s.set i (.file { m with mtime := none } d' nl id) := by
    have hmax : ¬ maxFileSize < h1.pos.toNat + b.length := Nat.not_lt.mpr hsz
    simp [s', d', fileStep, isEmpty_false_of_ne hn1, isEmpty_false_of_ne hb, hnd1, hg, hw, hna, hmax]
  rw [hs']
  simp only [fileStep, isEmpty_false_of_ne hn2, hnd2, get_set_eq]
  simp [hr, hn0]
  by_cases hle : n ≤ d'.length
  · simp [hle, Nat.min_eq_left hle]
  · have : d'.length < n := by omega
    simp [hle, this, Nat.min_eq_right (Nat.le_of_lt this), List.take_of_length_le]

/-- Directory batches: starting from a fresh directory handle, repeated `Readdirnames(n)` with `n > 0` on an unchanged
    heap deliver the sorted listing in consecutive batches of at most `n` names, each name exactly once, then io.EOF. -/
def drainNames (s : Store) (v : View) (n : Nat) : Nat → Handle → List (List Bytes) × Out
  | 0, _ => ([], .panic)
  | fuel + 1, h =>
    match fileStep s v h (.readdirnames n) with
    | (_, _, h', .ok (.names l)) => let (ls, o) := drainNames s v n fuel h'; (l :: ls, o)
    | (_, _, _, o) => ([], o)

theorem C02_readdir_batches (s : Store) (v : View) (h : Handle) (i : Ino) (m : Meta) (ch : List (Bytes × Ino)) (n : Nat)
    (hn : h.name ≠ []) (hnd : h.nd = some i) (hg : s.get i = some (.dir m ch)) (hfresh : h.dirNames = none) (hn0 : 0 < n) :
    let r := drainNames s v n ((s.names i).length + 2) h
    r.1.flatten = s.names i ∧ (∀ b ∈ r.1, b.length ≤ n ∧ b ≠ []) ∧ r.2 = .errN 0 [] .eof := by
  have hd : ∀ fuel h, drainNames s v n fuel h = drainNamesL s v n fuel h := by
    intro fuel
    induction fuel with
    | zero => intro h; rfl
    | succ fuel ih => intro h; simp only [drainNames, drainNamesL, ih]; rfl
  rw [hd]
  exact drainNamesL_fresh s v h i m ch n hn hnd hg hfresh hn0

/-! ### whole histories against the POSIX-style reference (Avfs/FS/FileSpec.lean) -/

/-- the list surgery of the model's write is the pointwise reference: byte i of the result is the written byte inside
    the written range, the old byte below the old length, 0 inside the gap; the length is the maximum -/
theorem C02_write_pointwise (f : Bytes) (off : Nat) (b : Bytes) (hb : b ≠ []) (i : Nat) :
    (writeData f off b)[i]? = writtenByte f off b i ∧ (writeData f off b).length = max f.length (off + b.length) := by
  rw [writeData_eq_refPwrite]
  exact ⟨refPwrite_getElem? f off b hb i, refPwrite_length f off b hb⟩

/-- every history of read / pread / write / pwrite / lseek / ftruncate issued on any number of handles of one regular
    file, of any length: the model returns the results of the reference, ends with its content and its offsets -/
theorem C02_history_refines (s : Store) (v : View) (i : Ino) (f : Bytes) (hs : List Handle) (ds : List FDesc)
    (ops : List (Nat × IOp)) (hlen : hs.length = ds.length)
    (hr : ∀ (k : Nat) (h : Handle) (d : FDesc), hs[k]? = some h → ds[k]? = some d → h.repr i d) (hf : s.fileData i = some f) :
    (modelRun s v hs ops).2.2 = (refRun f ds ops).2.2 ∧
    (modelRun s v hs ops).1.fileData i = some (refRun f ds ops).1 ∧
    (modelRun s v hs ops).2.1.length = (refRun f ds ops).2.1.length ∧
    (∀ (k : Nat) (h : Handle) (d : FDesc), (modelRun s v hs ops).2.1[k]? = some h → (refRun f ds ops).2.1[k]? = some d → h.repr i d) :=
  history_refines s v i f hs ds ops hlen hr hf

-- non-vacuity (test, by evaluation): two descriptions of one file, an append lands at the end reached by the other
#guard (refRun [1, 2, 3] [⟨0, true, true, false⟩, ⟨0, false, true, true⟩]
    [(0, .lseek 5 0), (0, .write [9]), (1, .write [7]), (0, .pread 8 0)]).1 = [1, 2, 3, 0, 0, 9, 7]

end Avfs.FS
