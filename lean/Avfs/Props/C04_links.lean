import Avfs.Lemmas.NameiLinks
import Avfs.Lemmas.LinksInv
/-
  C04 — symbolic links resolve as the kernel resolves them: `searchNode` = `namei`, links included.

  `namei` (Lemmas/NameiLinks.lean) is the resolution of path_resolution(7) on component lists: look the next
  component up in the current directory (search permission required), enter directories, ENOTDIR through a regular
  file, "." stays, ".." goes to the PHYSICAL parent, a symbolic link that is an inner component — or the last one in a
  following mode — is charged to the budget of 40 (ELOOP beyond) and resolved by putting the components of its target
  in front of the remaining ones, from the root (absolute target) or from the directory holding the link.
  It also computes the REAL path of what it finds (the names of the real directories passed and the last name).
  `searchNode` splices link targets LEXICALLY into the path string (`ReplacePart`: Join + Clean) and restarts from
  the root when the walked prefix changes.
-/
namespace Avfs.FS
open Avfs.Path Avfs.Path.Spec

/-- searchNode ≃ namei WITH symbolic links. For every well-formed heap, every user, every follow mode, every clean
    absolute path "/c1/…/cn" and ANY number, nesting or cyclicity of symbolic links (the 40-link budget decides),
    the walk of MemFS and the reference resolution give the same error class, the same parent, the same child, the
    same name for a missing last component and the same resolved path (`pi.path`, what `EvalSymlinks`, `Chdir` and
    `MkdirAll` go on with) — provided that in every link target reachable in the tree all "." /
    ".." components come before all ordinary names (`LinksOK`, decidable: `linksCheck`; it holds for every target in
    `Clean` form, i.e. for every link made by `Symlink`, which stores `Clean(oldname)`: `C04_targetOK_clean`, and it
    is an invariant of the model: `C04_linksOK_reachable`).
    The reference is the TEXTBOOK one for the three modes, also at the edge of the budget: the last link of a
    no-follow walk is the result, it is not charged (`C04_lstat_budget_repaired`). -/
theorem C04_searchNode_eq_namei (s : Store) (root : Ino) (v : View) (hwf : WF s root) (hn : NamesOK s)
    (hv : ViewOK s v) (hroot : v.root = root) (hl : LinksOK s) (cs : List Bytes)
    (hall : ∀ c ∈ cs, c ≠ [] ∧ ∀ x ∈ c, x ≠ SL) (hdots : ∀ c ∈ cs, c ≠ [DOT] ∧ c ≠ [DOT, DOT]) (m : SlMode) :
    let r := searchNode s v (SL :: joinWith SL cs) m
    match nameiPath s v (m != .lstat) cs with
    | .found par c path =>
      r.err = .exists ∧ r.child = some c ∧ r.parent = par ∧ (m ≠ .stat → r.pi.path = SL :: joinWith SL path)
    | .missingLast par nm path =>
      r.err = .noent ∧ r.child = none ∧ r.parent = par ∧ r.pi.isLast = true ∧
      (m ≠ .stat → partOf r.pi = nm ∧ r.pi.path = SL :: joinWith SL path)
    | .missingDir => r.err = .noent ∧ (m ≠ .stat → r.pi.isLast = false)
    | .notDir => r.err = .notdir
    | .denied => r.err = .acces
    | .loop => r.err = .loop :=
  searchNode_eq_namei s root v hwf hn hv hroot hl cs hall hdots m

/-- the hypothesis on the link targets can be checked by evaluation -/
theorem C04_linksCheck_sound (s : Store) (h : linksCheck s = true) : LinksOK s := linksCheck_sound s h

/-- every path in `Clean` form — every target stored by `Symlink` — is an admissible target -/
theorem C04_targetOK_clean (x : Bytes) : targetOK (clean .linux x) = true := targetOK_clean x

/-- ANY path and ANY view root (a view made by `Sub`; `root` is the root of the whole tree): `searchNode` makes the
    path absolute and cleans it LEXICALLY (`Abs`), and on the components of that string it is the reference
    resolution. The first `Clean` is the only difference with a physical resolution of the caller's path
    (`C04_lexical_dotdot_path_witness`). -/
theorem C04_searchNode_eq_namei_any (s : Store) (root : Ino) (v : View) (hwf : WF s root) (hv : ViewOK s v)
    (hl : LinksOK s) (p : Bytes) (m : SlMode) :
    let r := searchNode s v p m
    match nameiPath s v (m != .lstat) (comps (abs .linux p v.cwd)) with
    | .found par c path =>
      r.err = .exists ∧ r.child = some c ∧ r.parent = par ∧ (m ≠ .stat → r.pi.path = SL :: joinWith SL path)
    | .missingLast par nm path =>
      r.err = .noent ∧ r.child = none ∧ r.parent = par ∧ r.pi.isLast = true ∧
      (m ≠ .stat → partOf r.pi = nm ∧ r.pi.path = SL :: joinWith SL path)
    | .missingDir => r.err = .noent ∧ (m ≠ .stat → r.pi.isLast = false)
    | .notDir => r.err = .notdir
    | .denied => r.err = .acces
    | .loop => r.err = .loop :=
  searchNode_eq_namei_any s root v hwf hv hl p m

/-- `EvalSymlinks` = realpath: it returns "/" joined with the real path computed by the textbook resolution
    (following every link) of `Clean(Abs(p))`, or fails with the error of that resolution … -/
theorem C04_evalSymlinks_eq_namei (s : Store) (root : Ino) (v : View) (hwf : WF s root) (hv : ViewOK s v)
    (hl : LinksOK s) (p : Bytes) :
    evalSymlinks s v p =
      (s, match nameiPath s v true (comps (abs .linux p v.cwd)) with
          | .found _ _ path => .ok (.bytes (SL :: joinWith SL path))
          | r => .err r.toErr) :=
  evalSymlinks_eq_namei s root v hwf hv hl p

/-- … and that path is REAL: the link-free descent `walkPath` (Lemmas/Namei.lean: `.viaLink` on any symbolic link,
    `.denied` on a directory that may not be searched) along it finds the same object in the same directory. -/
theorem C04_namei_path_real (s : Store) (root : Ino) (v : View) (hwf : WF s root) (hv : ViewOK s v)
    (cs : List Bytes) (par c : Ino) (path : List Bytes) (h : nameiPath s v true cs = .found par c path) :
    walkPath s v v.root path = .found par c :=
  nameiPath_real s root v hwf hv cs par c path h

/-- The hypothesis on the link targets is an INVARIANT of MemFS: it holds in every state reachable from
    `memfs.New()` by the calls of the model (any sequence, any views and users) — the only targets ever stored are
    `Clean(oldname)` (Symlink) and "" (a deleted node). -/
theorem C04_linksOK_reachable (calls : List (Nat × Call)) : LinksOK (run initState calls).1.store :=
  linksOK_reachable calls

/-- … so that in every reachable state (whose heap is well formed — C05) `searchNode` is `namei`, for every path,
    view, user and mode, WITHOUT any hypothesis on the links. -/
theorem C04_searchNode_eq_namei_reachable (calls : List (Nat × Call)) (root : Ino) (v : View)
    (hwf : WF (run initState calls).1.store root) (hv : ViewOK (run initState calls).1.store v)
    (p : Bytes) (m : SlMode) :
    let s := (run initState calls).1.store
    let r := searchNode s v p m
    match nameiPath s v (m != .lstat) (comps (abs .linux p v.cwd)) with
    | .found par c path =>
      r.err = .exists ∧ r.child = some c ∧ r.parent = par ∧ (m ≠ .stat → r.pi.path = SL :: joinWith SL path)
    | .missingLast par nm path =>
      r.err = .noent ∧ r.child = none ∧ r.parent = par ∧ r.pi.isLast = true ∧
      (m ≠ .stat → partOf r.pi = nm ∧ r.pi.path = SL :: joinWith SL path)
    | .missingDir => r.err = .noent ∧ (m ≠ .stat → r.pi.isLast = false)
    | .notDir => r.err = .notdir
    | .denied => r.err = .acces
    | .loop => r.err = .loop :=
  searchNode_eq_namei_any _ root v hwf hv (linksOK_reachable calls) p m

/-! ### non-vacuity and the known divergences, on a concrete reachable heap -/

/-- the heap of `memfs.New()` after, by the administrator (umask 022):
    Mkdir("/a", 0755), Mkdir("/a/b", 0755), Mkdir("/a/b/c", 0700), WriteFile("/a/f", "hi", 0644),
    Symlink("/a/b", "/l1")       absolute,
    Symlink("b", "/a/l2")        relative,
    Symlink("../f", "/a/b/l3")   relative, through the parent,
    Symlink("/l5", "/l4"), Symlink("/l4", "/l5")   a cycle,
    Symlink("/no/x", "/l6")      dangling (inner component missing),
    Symlink("/a/zz", "/l7")      dangling (last component missing),
    Symlink("l1", "/l8")         a chain l8 → l1 → /a/b,
    Symlink("/", "/a/rt")        back to the root.
    Inodes: / 0, /home 1, /root 2, /tmp 3, /a 4, /a/b 5, /a/b/c 6, /a/f 7, /l1 8, /a/l2 9, /a/b/l3 10, /l4 11, /l5 12,
    /l6 13, /l7 14, /l8 15, /a/rt 16 -/
@[irreducible] def lkStore : Store :=
  (run initState [
    (0, .mkdir [SL, 97] 0o755), (0, .mkdir [SL, 97, SL, 98] 0o755), (0, .mkdir [SL, 97, SL, 98, SL, 99] 0o700),
    (0, .writeFile [SL, 97, SL, 102] [104, 105] 0o644),
    (0, .symlink [SL, 97, SL, 98] [SL, 108, 49]),
    (0, .symlink [98] [SL, 97, SL, 108, 50]),
    (0, .symlink [DOT, DOT, SL, 102] [SL, 97, SL, 98, SL, 108, 51]),
    (0, .symlink [SL, 108, 53] [SL, 108, 52]),
    (0, .symlink [SL, 108, 52] [SL, 108, 53]),
    (0, .symlink [SL, 110, 111, SL, 120] [SL, 108, 54]),
    (0, .symlink [SL, 97, SL, 122, 122] [SL, 108, 55]),
    (0, .symlink [108, 49] [SL, 108, 56]),
    (0, .symlink [SL] [SL, 97, SL, 114, 116])]).1.store

theorem lkStore_wf : WF lkStore 0 ∧ NamesOK lkStore := wfCheck_sound lkStore 0 (by decide +kernel)

theorem lkStore_links : LinksOK lkStore := linksCheck_sound lkStore (by decide +kernel)

/-- an ordinary user looking at the whole volume -/
def lkView : View := { root := 0, cwd := [SL], uid := 1000, gid := 1000, admin := false, umask := 0o022 }

theorem lkView_ok : ViewOK lkStore lkView := ⟨by decide +kernel, by decide⟩

/-- names: "a" "b" "c" "f" "zz" "rt" "l1" … "l8" -/
def nA : Bytes := [97]
def nB : Bytes := [98]
def nC : Bytes := [99]
def nF : Bytes := [102]
def nZZ : Bytes := [122, 122]
def nRT : Bytes := [114, 116]
def nL (k : UInt8) : Bytes := [108, 48 + k]

/-- A CHAIN of three links, absolute, relative and through "..": "/l8/l3" → l8 → "l1" → "/a/b", then l3 → "../f":
    both resolutions end on the file /a/f in /a. -/
example : nameiPath lkStore lkView true [nL 8, nL 3] = .found 4 7 [nA, nF] ∧
    (searchNode lkStore lkView (SL :: joinWith SL [nL 8, nL 3]) .eval).err = .exists ∧
    (searchNode lkStore lkView (SL :: joinWith SL [nL 8, nL 3]) .eval).child = some 7 ∧
    (searchNode lkStore lkView (SL :: joinWith SL [nL 8, nL 3]) .eval).parent = 4 ∧
    (searchNode lkStore lkView (SL :: joinWith SL [nL 8, nL 3]) .eval).pi.path = [SL, 97, SL, 102] := by
  have h := C04_searchNode_eq_namei lkStore 0 lkView lkStore_wf.1 lkStore_wf.2 lkView_ok rfl lkStore_links
    [nL 8, nL 3] (by decide) (by decide) .eval
  have hw : nameiPath lkStore lkView (SlMode.eval != .lstat) [nL 8, nL 3] = .found 4 7 [nA, nF] := by
    decide +kernel
  simp only [hw] at h
  exact ⟨hw, h.1, h.2.1, h.2.2.1, h.2.2.2 (by decide)⟩

/-- A CYCLE: "/l4" → "/l5" → "/l4" → … : ELOOP through both functions, after 40 links -/
example : nameiPath lkStore lkView true [nL 4] = .loop ∧
    (searchNode lkStore lkView (SL :: joinWith SL [nL 4]) .stat).err = .loop := by
  have h := C04_searchNode_eq_namei lkStore 0 lkView lkStore_wf.1 lkStore_wf.2 lkView_ok rfl lkStore_links
    [nL 4] (by decide) (by decide) .stat
  have hw : nameiPath lkStore lkView (SlMode.stat != .lstat) [nL 4] = .loop := by decide +kernel
  simp only [hw] at h
  exact ⟨hw, h⟩

/-- … while the no-follow walk finds the link itself (inode 11 in the root) -/
example : nameiPath lkStore lkView false [nL 4] = .found 0 11 [nL 4] ∧
    (searchNode lkStore lkView (SL :: joinWith SL [nL 4]) .lstat).child = some 11 := by
  have h := C04_searchNode_eq_namei lkStore 0 lkView lkStore_wf.1 lkStore_wf.2 lkView_ok rfl lkStore_links
    [nL 4] (by decide) (by decide) .lstat
  have hw : nameiPath lkStore lkView (SlMode.lstat != .lstat) [nL 4] = .found 0 11 [nL 4] := by decide +kernel
  simp only [hw] at h
  exact ⟨hw, h.2.1⟩

/-- A RELATIVE link as an inner component: "/a/l2/c" → l2 → "b" is resolved in /a: the directory /a/b/c in /a/b -/
example : nameiPath lkStore lkView true [nA, nL 2, nC] = .found 5 6 [nA, nB, nC] ∧
    (searchNode lkStore lkView (SL :: joinWith SL [nA, nL 2, nC]) .eval).child = some 6 ∧
    (searchNode lkStore lkView (SL :: joinWith SL [nA, nL 2, nC]) .eval).parent = 5 := by
  have h := C04_searchNode_eq_namei lkStore 0 lkView lkStore_wf.1 lkStore_wf.2 lkView_ok rfl lkStore_links
    [nA, nL 2, nC] (by decide) (by decide) .eval
  have hw : nameiPath lkStore lkView (SlMode.eval != .lstat) [nA, nL 2, nC] = .found 5 6 [nA, nB, nC] := by
    decide +kernel
  simp only [hw] at h
  exact ⟨hw, h.2.1, h.2.2.1⟩

/-- … and "/l1/c/x": the directory c (mode 0700 of the administrator) reached through the link may not be searched -/
example : nameiPath lkStore lkView true [nL 1, nC, [120]] = .denied ∧
    (searchNode lkStore lkView (SL :: joinWith SL [nL 1, nC, [120]]) .eval).err = .acces := by
  have h := C04_searchNode_eq_namei lkStore 0 lkView lkStore_wf.1 lkStore_wf.2 lkView_ok rfl lkStore_links
    [nL 1, nC, [120]] (by decide) (by decide) .eval
  have hw : nameiPath lkStore lkView (SlMode.eval != .lstat) [nL 1, nC, [120]] = .denied := by decide +kernel
  simp only [hw] at h
  exact ⟨hw, h⟩

/-- DANGLING links: "/l7" → "/a/zz": only the last component of the target is missing — the callers that create
    (OpenFile with O_CREATE, Mkdir) get the directory /a and the name "zz"; "/l6" → "/no/x": an inner one is missing -/
example : nameiPath lkStore lkView true [nL 7] = .missingLast 4 nZZ [nA, nZZ] ∧
    (searchNode lkStore lkView (SL :: joinWith SL [nL 7]) .eval).err = .noent ∧
    (searchNode lkStore lkView (SL :: joinWith SL [nL 7]) .eval).parent = 4 ∧
    partOf (searchNode lkStore lkView (SL :: joinWith SL [nL 7]) .eval).pi = nZZ ∧
    nameiPath lkStore lkView true [nL 6] = .missingDir ∧
    (searchNode lkStore lkView (SL :: joinWith SL [nL 6]) .eval).pi.isLast = false := by
  have h := C04_searchNode_eq_namei lkStore 0 lkView lkStore_wf.1 lkStore_wf.2 lkView_ok rfl lkStore_links
    [nL 7] (by decide) (by decide) .eval
  have hw : nameiPath lkStore lkView (SlMode.eval != .lstat) [nL 7] = .missingLast 4 nZZ [nA, nZZ] := by
    decide +kernel
  simp only [hw] at h
  have h6 := C04_searchNode_eq_namei lkStore 0 lkView lkStore_wf.1 lkStore_wf.2 lkView_ok rfl lkStore_links
    [nL 6] (by decide) (by decide) .eval
  have hw6 : nameiPath lkStore lkView (SlMode.eval != .lstat) [nL 6] = .missingDir := by decide +kernel
  simp only [hw6] at h6
  exact ⟨hw, h.1, h.2.2.1, (h.2.2.2.2 (by decide)).1, hw6, h6.2 (by decide)⟩

/-- `EvalSymlinks("l8/./l3")` (a relative, unclean path; cwd "/") = "/a/f", a path without links to the same file -/
example : evalSymlinks lkStore lkView [108, 56, SL, DOT, SL, 108, 51] = (lkStore, .ok (.bytes [SL, 97, SL, 102])) ∧
    walkPath lkStore lkView 0 [nA, nF] = .found 4 7 := by
  have h := C04_evalSymlinks_eq_namei lkStore 0 lkView lkStore_wf.1 lkView_ok lkStore_links
    [108, 56, SL, DOT, SL, 108, 51]
  have hw : nameiPath lkStore lkView true (comps (abs .linux [108, 56, SL, DOT, SL, 108, 51] lkView.cwd)) =
      .found 4 7 [nA, nF] := by decide +kernel
  rw [hw] at h
  exact ⟨h, C04_namei_path_real lkStore 0 lkView lkStore_wf.1 lkView_ok _ 4 7 _ hw⟩

/-- "/a/rt/a/rt/…/a/rt" (`n` times; rt → "/") followed by `last` -/
def lkLongN (n : Nat) (last : Bytes) : List Bytes := (List.replicate n [nA, nRT]).flatten ++ [last]

/-- 40 times -/
def lkLong (last : Bytes) : List Bytes := lkLongN 40 last

/-- The BUDGET is exactly 40 followed links in both: 40 links and then the directory /a resolve … -/
example : nameiPath lkStore lkView true (lkLong nA) = .found 0 4 [nA] ∧
    (searchNode lkStore lkView (SL :: joinWith SL (lkLong nA)) .eval).err = .exists := by
  have h := C04_searchNode_eq_namei lkStore 0 lkView lkStore_wf.1 lkStore_wf.2 lkView_ok rfl lkStore_links
    (lkLong nA) (by decide) (by decide) .eval
  have hw : nameiPath lkStore lkView (SlMode.eval != .lstat) (lkLong nA) = .found 0 4 [nA] := by decide +kernel
  simp only [hw] at h
  exact ⟨hw, h.1⟩

/-- … a 41st link to follow is ELOOP -/
example : nameiPath lkStore lkView true (lkLong (nL 1)) = .loop ∧
    (searchNode lkStore lkView (SL :: joinWith SL (lkLong (nL 1))) .eval).err = .loop := by
  have h := C04_searchNode_eq_namei lkStore 0 lkView lkStore_wf.1 lkStore_wf.2 lkView_ok rfl lkStore_links
    (lkLong (nL 1)) (by decide) (by decide) .eval
  have hw : nameiPath lkStore lkView (SlMode.eval != .lstat) (lkLong (nL 1)) = .loop := by decide +kernel
  simp only [hw] at h
  exact ⟨hw, h⟩

/-- REPAIRED (was DIVERGENCE 1: the budget of the unfollowed last link). `Lstat` of a symbolic link reached through
    exactly 40 followed links FINDS the link /l1 (inode 8 in the root), as the textbook resolution and Linux do: an
    unfollowed last link is the result, it is not counted; through 41 followed links it is ELOOP.
    Before the repair `searchNode` incremented and tested its counter BEFORE looking at the mode and returned ELOOP
    already in the first case (found by the proof of `C04_searchNode_eq_namei`, confirmed against the kernel).
    The `searchNode` sides are evaluated by the kernel of Lean, not derived from the theorem. -/
theorem C04_lstat_budget_repaired :
    WF lkStore 0 ∧ LinksOK lkStore ∧ ViewOK lkStore lkView ∧
    nameiPath lkStore lkView false (lkLong (nL 1)) = .found 0 8 [nL 1] ∧
    (searchNode lkStore lkView (SL :: joinWith SL (lkLong (nL 1))) .lstat).err = .exists ∧
    (searchNode lkStore lkView (SL :: joinWith SL (lkLong (nL 1))) .lstat).child = some 8 ∧
    (searchNode lkStore lkView (SL :: joinWith SL (lkLong (nL 1))) .lstat).parent = 0 ∧
    nameiPath lkStore lkView false (lkLongN 41 (nL 1)) = .loop ∧
    (searchNode lkStore lkView (SL :: joinWith SL (lkLongN 41 (nL 1))) .lstat).err = .loop :=
  ⟨lkStore_wf.1, lkStore_links, lkView_ok, by decide +kernel, by decide +kernel, by decide +kernel, by decide +kernel,
    by decide +kernel, by decide +kernel⟩

/-- `lkStore` with one more link, put into the heap directly (`Symlink` would store the cleaned target):
    /a/x → "/l1/../f", a target with ".." after a component that is itself a symbolic link (inode 17) -/
@[irreducible] def lxStore : Store :=
  (createSymlink lkStore { root := 0, cwd := [SL], uid := 0, gid := 0, admin := true, umask := 0o022 } 4 [120]
    [SL, 108, 49, SL, DOT, DOT, SL, 102]).1

/-- DIVERGENCE (lexical ".."), in a link TARGET. /a/x → "/l1/../f" where /l1 → "/a/b": the physical resolution
    (the kernel's) goes to /a/b, up to /a and finds the file /a/f; `ReplacePart` cleans the spliced string to "/f"
    and MemFS reports that "f" is missing in the root. The heap is well formed; it violates `LinksOK` only. -/
theorem C04_lexical_dotdot_witness :
    WF lxStore 0 ∧ ¬ LinksOK lxStore ∧ linksCheck lxStore = false ∧
    nameiPath lxStore lkView true [nA, [120]] = .found 4 7 [nA, nF] ∧
    (searchNode lxStore lkView (SL :: joinWith SL [nA, [120]]) .eval).err = .noent ∧
    (searchNode lxStore lkView (SL :: joinWith SL [nA, [120]]) .eval).parent = 0 := by
  refine ⟨(wfCheck_sound lxStore 0 (by decide +kernel)).1, ?_, by decide +kernel, by decide +kernel,
    by decide +kernel, by decide +kernel⟩
  intro h
  have := h 4 [120] 17 ⟨0o777, 0, 0, none⟩ [SL, 108, 49, SL, DOT, DOT, SL, 102] (by decide +kernel) (by decide +kernel)
  revert this
  decide +kernel

/-- DIVERGENCE (lexical ".."), in the PATH given by the caller. "/l1/../a/f" is not a clean path: `Abs` cleans it lexically to
    "/a/f" … which here is the same file; "/l1/../f" becomes "/f" (missing in the root) whereas the physical
    resolution of the components l1, "..", f finds /a/f. (`lkStore` satisfies every hypothesis; the path does not.) -/
theorem C04_lexical_dotdot_path_witness :
    nameiPath lkStore lkView true [nL 1, [DOT, DOT], nF] = .found 4 7 [nA, nF] ∧
    (searchNode lkStore lkView [SL, 108, 49, SL, DOT, DOT, SL, 102] .eval).err = .noent ∧
    (searchNode lkStore lkView [SL, 108, 49, SL, DOT, DOT, SL, 102] .eval).parent = 0 :=
  ⟨by decide +kernel, by decide +kernel, by decide +kernel⟩

end Avfs.FS
