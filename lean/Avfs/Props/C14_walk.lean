import Avfs.Lemmas.Walk
/-
  C14 (WalkDir / Glob, continued) — "WalkDir visits, in lexical pre-order, every entry reachable below the root exactly
  once (no entry twice, none missing) and honours SkipDir / SkipAll"; Glob of one directory level.

  Subject: `Avfs.FS.walkDirTop` / `Avfs.FS.glob` (FS/Enum.lean: models of WalkDir / Glob of vfs.go over the MemFS model).
  Reference: `specWalk` over the `Tree` below the root (Lemmas/Walk.lean) — filepath.WalkDir's contract as a structural
  recursion — and, for the listings, `descend` (entry-by-entry descent through the heap; symbolic links are entries and
  are not followed).

  Scope of all statements: the ADMINISTRATOR (`v.admin = true`: no permission error can occur), a well-formed heap
  (`WF`, `NamesOK`) without entries named "." or ".." (`DotFree`: true of every heap built through the API, needed:
  `C14_walk_dotdot_cex`), a view rooted at any directory, the root of the walk given as a clean absolute path
  "/c1/…/cn" (`pathOf cs`) that resolves without meeting a symbolic link (`walkPath … = .found par c`) to a directory
  or a file. Symbolic links BELOW the root are not excluded.
-/
namespace Avfs.FS
open Avfs.Path

/-- WalkDir = the reference walk of the tree below the root, for EVERY list of callback answers (continue / SkipDir /
    SkipAll / error, one per call, "continue" when the list is exhausted): same visits (path, kind, no error) in the
    same order, same unused answers, same result. In particular the fuel `s.next + 2` of the model is never exhausted,
    SkipDir on a directory skips its entries, SkipDir on a file the remaining entries of its directory, SkipAll and an
    error end the walk (the error is returned, SkipDir / SkipAll are not). -/
theorem C14_walk_spec (s : Store) (root : Ino) (v : View) (hwf : WF s root) (hn : NamesOK s) (hdf : DotFree s)
    (hvr : ∃ m ch, s.get v.root = some (.dir m ch)) (hadm : v.admin = true) (vid : Nat) (cs : List Bytes)
    (hall : ∀ c ∈ cs, c ≠ [] ∧ ∀ x ∈ c, x ≠ SL) (hdots : ∀ c ∈ cs, c ≠ [DOT] ∧ c ≠ [DOT, DOT])
    (par c : Ino) (hw : walkPath s v v.root cs = .found par c) (acts : List WAct) :
    walkDirTop s v vid (pathOf cs) acts =
      let r := specWalkTop (s.tree (cs.getLastD []) c) (pathOf cs) acts
      (⟨r.2.1, r.1⟩, r.2.2) :=
  walkDirTop_eq_spec s root v hwf hn hdf hvr hadm vid cs hall hdots par c hw acts

/-- in particular the model never runs out of fuel (no ELOOP) and invents no error: nil or the callback's error -/
theorem C14_walk_result (s : Store) (root : Ino) (v : View) (hwf : WF s root) (hn : NamesOK s) (hdf : DotFree s)
    (hvr : ∃ m ch, s.get v.root = some (.dir m ch)) (hadm : v.admin = true) (vid : Nat) (cs : List Bytes)
    (hall : ∀ c ∈ cs, c ≠ [] ∧ ∀ x ∈ c, x ≠ SL) (hdots : ∀ c ∈ cs, c ≠ [DOT] ∧ c ≠ [DOT, DOT])
    (par c : Ino) (hw : walkPath s v v.root cs = .found par c) (acts : List WAct) :
    (walkDirTop s v vid (pathOf cs) acts).2 = .none ∨ (walkDirTop s v vid (pathOf cs) acts).2 = .fail :=
  walkDirTop_result s root v hwf hn hdf hvr hadm vid cs hall hdots par c hw acts

/-- the tree of the reference, without fuel: a node and the trees of its entries in byte-wise name order -/
theorem C14_walk_tree (s : Store) (root : Ino) (hwf : WF s root) (n : Bytes) (i : Ino) :
    s.tree n i = .node n (kindOf s i) ((s.names i).filterMap fun nm => (s.child i nm).map fun c => s.tree nm c) :=
  tree_unfold hwf n i

/-- the hypothesis `DotFree` cannot be dropped: a well-formed heap with an entry ".." on which the model runs out of
    fuel (ELOOP) where the reference ends -/
theorem C14_walk_dotdot_cex :
    wfCheck ddStore 0 = true ∧ dotFreeCheck ddStore = false ∧
    walkDirTop ddStore wkAdm 0 [SL] [] =
      (⟨[], [([SL], 0, none), ([SL, 97], 0, none), ([SL], 0, none), ([SL, 97], 0, none), ([SL], 0, none)]⟩,
        .other .ELOOP) ∧
    specWalkTop (ddStore.tree [] 0) [SL] [] = ([([SL], 0, none), ([SL, 97], 0, none), ([SL], 0, none)], [], .none) :=
  walk_dotdot_cex

/-- With a callback that always continues, WalkDir returns nil and its visits are `L.map (toVisit s cs)` — the path
    `pathOf (cs ++ names)`, the kind of the node, no error — for the list `L = s.below c` of (names below the root,
    node), where
    1. `L` is exactly the set of pairs with `descend s c names = some node`: the root and every entry reachable below
       it (symbolic links as entries, not followed), nothing else, nothing missing;
    2. `L` is strictly increasing in the lexicographic order of the name lists (`compLt`: a directory before its
       entries, the entries of a directory in byte-wise name order, i.e. lexical pre-order), the root first;
    3. no path is visited twice;
    4. every visited entry exists as visited: Lstat of the visited path succeeds with the visited kind (a symbolic link,
       dangling or not, included); `Exists` (`pathExists`, which follows links) answers true for every visited entry
       that is not a symbolic link (for a dangling link it answers false: `C14_walk_dangling`);
    5. conversely every path below the root that resolves without meeting a link is visited. -/
theorem C14_walk_all_once (s : Store) (root : Ino) (v : View) (hwf : WF s root) (hn : NamesOK s) (hdf : DotFree s)
    (hvr : ∃ m ch, s.get v.root = some (.dir m ch)) (hadm : v.admin = true) (vid : Nat) (cs : List Bytes)
    (hall : ∀ c ∈ cs, c ≠ [] ∧ ∀ x ∈ c, x ≠ SL) (hdots : ∀ c ∈ cs, c ≠ [DOT] ∧ c ≠ [DOT, DOT])
    (par c : Ino) (hw : walkPath s v v.root cs = .found par c) (acts : List WAct) (hacts : ∀ a ∈ acts, a = .cont) :
    walkDirTop s v vid (pathOf cs) acts = (⟨acts.drop (s.below c).length, (s.below c).map (toVisit s cs)⟩, .none) ∧
    (∀ ds j, (ds, j) ∈ s.below c ↔ descend s c ds = some j) ∧
    ((s.below c).Pairwise (fun x y => compLt x.1 y.1) ∧ (s.below c).head? = some ([], c)) ∧
    (((s.below c).map (toVisit s cs)).map (·.1)).Nodup ∧
    (∀ ds j, (ds, j) ∈ s.below c →
      (∃ i, (stat s v (pathOf (cs ++ ds)) .lstat).2 = .ok (.info i) ∧ i.kind = kindOf s j) ∧
      (kindOf s j ≠ 2 → pathExists s v (pathOf (cs ++ ds)) = (true, none))) ∧
    (∀ ds par' j, walkPath s v v.root (cs ++ ds) = .found par' j → (ds, j) ∈ s.below c) := by
  obtain ⟨h1, h2, h3, h4, h5⟩ :=
    walkDirTop_all_cont s root v hwf hn hdf hvr hadm vid cs hall hdots par c hw acts hacts
  refine ⟨h1, h2, ⟨h3, h4⟩, h5, ?_, ?_⟩
  · intro ds j hm
    have hd := (h2 ds j).1 hm
    exact ⟨visited_lstat s root v hwf hn hdf hvr hadm cs hall hdots par c hw ds j hd,
      visited_exists s root v hwf hn hdf hvr hadm cs hall hdots par c hw ds j hd⟩
  · intro ds par' j hw'
    exact (h2 ds j).2 (descend_of_walkPath cs ds par c par' j hw hw')

/-- a visited dangling link: Lstat finds it (previous theorem), `Exists` does not -/
theorem C14_walk_dangling :
    descend wkStore 0 [[116, 109, 112], [100], [122]] = some 11 ∧ kindOf wkStore 11 = 2 ∧
    pathExists wkStore wkAdm [SL, 116, 109, 112, SL, 100, SL, 122] = (false, none) :=
  visited_dangling

/-- One SkipDir, answered at visit number `k` (from 0, `(s.below c)[k]` in the walk that always continues) on a
    DIRECTORY, all other answers being "continue": WalkDir returns nil and visits exactly the entries of the full walk
    that are not strictly below that directory, in the same order: the entry itself is visited, an entry is missing
    exactly when its names are those of the directory followed by at least one more name. -/
theorem C14_walk_skipdir (s : Store) (root : Ino) (v : View) (hwf : WF s root) (hn : NamesOK s) (hdf : DotFree s)
    (hvr : ∃ m ch, s.get v.root = some (.dir m ch)) (hadm : v.admin = true) (vid : Nat) (cs : List Bytes)
    (hall : ∀ c ∈ cs, c ≠ [] ∧ ∀ x ∈ c, x ≠ SL) (hdots : ∀ c ∈ cs, c ≠ [DOT] ∧ c ≠ [DOT, DOT])
    (par c : Ino) (hw : walkPath s v v.root cs = .found par c) (k : Nat) (tail : List WAct)
    (htail : ∀ a ∈ tail, a = .cont) (t : List Bytes) (j : Ino) (hk : (s.below c)[k]? = some (t, j))
    (hj : isDirAt s j = true) :
    (∃ rest, walkDirTop s v vid (pathOf cs) (List.replicate k .cont ++ .skipDir :: tail) =
      (⟨rest, ((s.below c).filter (keepAt t)).map (toVisit s cs)⟩, .none)) ∧
    (∀ x, x ∈ (s.below c).filter (keepAt t) ↔ x ∈ s.below c ∧ ¬ ∃ e, e ≠ [] ∧ x.1 = t ++ e) := by
  refine ⟨walkDirTop_skipDir s root v hwf hn hdf hvr hadm vid cs hall hdots par c hw k tail htail t j hk hj, ?_⟩
  intro x
  rw [List.mem_filter]
  have := properPrefix_iff t x.1
  constructor
  · rintro ⟨hm, hkp⟩
    refine ⟨hm, fun he => ?_⟩
    have := this.2 he
    simp [keepAt, this] at hkp
  · rintro ⟨hm, hne⟩
    refine ⟨hm, ?_⟩
    cases hp : properPrefix t x.1 with
    | false => simp [keepAt, hp]
    | true => exact absurd (this.1 hp) hne

/-- SkipAll (or an error) answered at visit number `k`, the earlier answers being "continue": the walk ends with that
    visit: the first `k + 1` entries of the full walk, the remaining answers unused, result nil (the error) -/
theorem C14_walk_skipall (s : Store) (root : Ino) (v : View) (hwf : WF s root) (hn : NamesOK s) (hdf : DotFree s)
    (hvr : ∃ m ch, s.get v.root = some (.dir m ch)) (hadm : v.admin = true) (vid : Nat) (cs : List Bytes)
    (hall : ∀ c ∈ cs, c ≠ [] ∧ ∀ x ∈ c, x ≠ SL) (hdots : ∀ c ∈ cs, c ≠ [DOT] ∧ c ≠ [DOT, DOT])
    (par c : Ino) (hw : walkPath s v v.root cs = .found par c) (k : Nat) (tail : List WAct)
    (hk : k < (s.below c).length) :
    walkDirTop s v vid (pathOf cs) (List.replicate k .cont ++ .skipAll :: tail) =
      (⟨tail, ((s.below c).take (k + 1)).map (toVisit s cs)⟩, .none) ∧
    walkDirTop s v vid (pathOf cs) (List.replicate k .cont ++ .fail :: tail) =
      (⟨tail, ((s.below c).take (k + 1)).map (toVisit s cs)⟩, .fail) :=
  walkDirTop_stop s root v hwf hn hdf hvr hadm vid cs hall hdots par c hw k tail hk

/-- Glob("dir/pat"), one directory level: `dir` = "/c1/…/cn" without metacharacters resolving (link-free) to a
    directory, `pat` with metacharacters and without separator, the whole pattern well-formed (`hok`: what Glob checks
    first) and `pat` not found malformed against any entry name: the result is exactly the entries of the directory
    whose name matches `pat`, as Join(dir, name), in byte-wise name order. -/
theorem C14_glob_flat (s : Store) (root : Ino) (v : View) (hwf : WF s root)
    (hvr : ∃ m ch, s.get v.root = some (.dir m ch)) (hadm : v.admin = true) (vid : Nat) (cs : List Bytes)
    (hall : ∀ c ∈ cs, c ≠ [] ∧ ∀ x ∈ c, x ≠ SL) (hdots : ∀ c ∈ cs, c ≠ [DOT] ∧ c ≠ [DOT, DOT])
    (par d : Ino) (hw : walkPath s v v.root cs = .found par d) (hd : isDirAt s d = true)
    (pat : Bytes) (hps : ∀ x ∈ pat, x ≠ SL) (hmeta : hasMeta pat = true) (hdm : hasMeta (pathOf cs) = false)
    (hok : ∃ b, pmatch .linux (pathOf (cs ++ [pat])) [] = .ok b)
    (hpat : ∀ n ∈ s.names d, pmatch .linux pat n ≠ .badPattern) (fuel : Nat) :
    glob s v vid (fuel + 1) (pathOf (cs ++ [pat])) =
      .ok (((s.names d).filter fun n => pmatch .linux pat n == .ok true).map fun n => join .linux [pathOf cs, n]) :=
  glob_flat s root v hwf hvr hadm vid cs hall hdots par d hw hd pat hps hmeta hdm hok hpat fuel

/-! ### non-vacuity: the concrete heap `wkStore` (Lemmas/Walk.lean)

  "/" 0: a 4 (b 5, f 6 file, l 10 link → "/tmp"), home 1, root 2, tmp 3 (d 7 (e 8, z 11 dangling link), g 9 file) -/

/-- C14_walk_spec: WalkDir("/") answering continue ("/"), continue ("/a"), SkipDir on the FILE "/a/f" after "/a/b"
    (the rest of "/a", i.e. "/a/l", is skipped), then SkipAll at "/home" -/
example : walkDirTop wkStore wkAdm 0 [SL] [.cont, .cont, .cont, .skipDir, .skipAll, .fail] =
    (⟨[.fail], [([SL], 0, none), ([SL, 97], 0, none), ([SL, 97, SL, 98], 0, none), ([SL, 97, SL, 102], 1, none),
           ([SL, 104, 111, 109, 101], 0, none)]⟩, .none) := by
  have h := C14_walk_spec wkStore 0 wkAdm wkStore_wf.1 wkStore_wf.2 wkStore_dotFree wkAdm_root rfl 0
    [] (by decide) (by decide) 0 0 (by decide +kernel) [.cont, .cont, .cont, .skipDir, .skipAll, .fail]
  rw [show pathOf [] = [SL] from rfl] at h
  rw [h]
  decide +kernel

/-- C14_walk_spec: an error of the callback is returned -/
example : walkDirTop wkStore wkAdm 0 [SL, 116, 109, 112] [.cont, .cont, .fail] =
    (⟨[], [([SL, 116, 109, 112], 0, none), ([SL, 116, 109, 112, SL, 100], 0, none),
           ([SL, 116, 109, 112, SL, 100, SL, 101], 0, none)]⟩, .fail) := by
  have h := C14_walk_spec wkStore 0 wkAdm wkStore_wf.1 wkStore_wf.2 wkStore_dotFree wkAdm_root rfl 0
    [[116, 109, 112]] (by decide) (by decide) 0 3 (by decide +kernel) [.cont, .cont, .fail]
  rw [show pathOf [[116, 109, 112]] = [SL, 116, 109, 112] from rfl] at h
  rw [h]
  decide +kernel

/-- C14_walk_spec with a FILE as root: WalkDir("/a/f") visits the file only; SkipDir answered there is not returned -/
example : walkDirTop wkStore wkAdm 0 [SL, 97, SL, 102] [.skipDir] = (⟨[], [([SL, 97, SL, 102], 1, none)]⟩, .none) := by
  have h := C14_walk_spec wkStore 0 wkAdm wkStore_wf.1 wkStore_wf.2 wkStore_dotFree wkAdm_root rfl 0
    [[97], [102]] (by decide) (by decide) 4 6 (by decide +kernel) [.skipDir]
  rw [show pathOf [[97], [102]] = [SL, 97, SL, 102] from rfl] at h
  rw [h]
  decide +kernel

/-- the entries at and below "/tmp" (node 3) -/
theorem wkStore_below_tmp :
    wkStore.below 3 = [([], 3), ([[100]], 7), ([[100], [101]], 8), ([[100], [122]], 11), ([[103]], 9)] := by
  decide +kernel

/-- C14_walk_all_once on "/tmp": five visits, the dangling link "/tmp/d/z" among them with kind 2 -/
example : walkDirTop wkStore wkAdm 0 [SL, 116, 109, 112] [] =
    (⟨[], [([SL, 116, 109, 112], 0, none), ([SL, 116, 109, 112, SL, 100], 0, none),
           ([SL, 116, 109, 112, SL, 100, SL, 101], 0, none), ([SL, 116, 109, 112, SL, 100, SL, 122], 2, none),
           ([SL, 116, 109, 112, SL, 103], 1, none)]⟩, .none) := by
  have h := (C14_walk_all_once wkStore 0 wkAdm wkStore_wf.1 wkStore_wf.2 wkStore_dotFree wkAdm_root rfl 0
    [[116, 109, 112]] (by decide) (by decide) 0 3 (by decide +kernel) [] (by simp)).1
  rw [show pathOf [[116, 109, 112]] = [SL, 116, 109, 112] from rfl, wkStore_below_tmp] at h
  rw [h]
  decide +kernel

/-- C14_walk_skipdir on "/tmp": SkipDir at visit 1 (the directory "/tmp/d", node 7): "/tmp/d/e" and "/tmp/d/z" are
    missing, "/tmp/d" itself and "/tmp/g" are visited -/
example : ∃ rest, walkDirTop wkStore wkAdm 0 [SL, 116, 109, 112] [.cont, .skipDir] =
    (⟨rest, [([SL, 116, 109, 112], 0, none), ([SL, 116, 109, 112, SL, 100], 0, none),
           ([SL, 116, 109, 112, SL, 103], 1, none)]⟩, .none) := by
  obtain ⟨rest, h⟩ := (C14_walk_skipdir wkStore 0 wkAdm wkStore_wf.1 wkStore_wf.2 wkStore_dotFree wkAdm_root rfl 0
    [[116, 109, 112]] (by decide) (by decide) 0 3 (by decide +kernel) 1 [] (by simp) [[100]] 7
    (by rw [wkStore_below_tmp]; rfl) (by decide +kernel)).1
  refine ⟨rest, ?_⟩
  rw [show pathOf [[116, 109, 112]] = [SL, 116, 109, 112] from rfl, wkStore_below_tmp] at h
  rw [show ([.cont, .skipDir] : List WAct) = List.replicate 1 .cont ++ .skipDir :: [] from rfl, h]
  have e : (([([], 3), ([[100]], 7), ([[100], [101]], 8), ([[100], [122]], 11), ([[103]], 9)] :
        List (List Bytes × Ino)).filter (keepAt [[100]])).map (toVisit wkStore [[116, 109, 112]]) =
      [([SL, 116, 109, 112], 0, none), ([SL, 116, 109, 112, SL, 100], 0, none),
        ([SL, 116, 109, 112, SL, 103], 1, none)] := by decide +kernel
  rw [e]

/-- C14_walk_skipall on "/tmp": SkipAll (an error) at visit 2 ("/tmp/d/e"): three visits, the answer after it unused -/
example : walkDirTop wkStore wkAdm 0 [SL, 116, 109, 112] [.cont, .cont, .skipAll, .fail] =
      (⟨[.fail], [([SL, 116, 109, 112], 0, none), ([SL, 116, 109, 112, SL, 100], 0, none),
           ([SL, 116, 109, 112, SL, 100, SL, 101], 0, none)]⟩, .none) ∧
    walkDirTop wkStore wkAdm 0 [SL, 116, 109, 112] [.cont, .cont, .fail, .fail] =
      (⟨[.fail], [([SL, 116, 109, 112], 0, none), ([SL, 116, 109, 112, SL, 100], 0, none),
           ([SL, 116, 109, 112, SL, 100, SL, 101], 0, none)]⟩, .fail) := by
  have h := C14_walk_skipall wkStore 0 wkAdm wkStore_wf.1 wkStore_wf.2 wkStore_dotFree wkAdm_root rfl 0
    [[116, 109, 112]] (by decide) (by decide) 0 3 (by decide +kernel) 2 [.fail] (by rw [wkStore_below_tmp]; decide)
  rw [show pathOf [[116, 109, 112]] = [SL, 116, 109, 112] from rfl, wkStore_below_tmp] at h
  have e : (([([], 3), ([[100]], 7), ([[100], [101]], 8), ([[100], [122]], 11), ([[103]], 9)] :
        List (List Bytes × Ino)).take (2 + 1)).map (toVisit wkStore [[116, 109, 112]]) =
      [([SL, 116, 109, 112], 0, none), ([SL, 116, 109, 112, SL, 100], 0, none),
        ([SL, 116, 109, 112, SL, 100, SL, 101], 0, none)] := by decide +kernel
  rw [e] at h
  exact h

/-- C14_glob_flat: Glob("/a/[bf]") = ["/a/b", "/a/f"] (the link "/a/l" does not match) and Glob("/tmp/*") -/
example : glob wkStore wkAdm 0 2 [SL, 97, SL, LB, 98, 102, 93] = .ok [[SL, 97, SL, 98], [SL, 97, SL, 102]] ∧
    glob wkStore wkAdm 0 2 [SL, 116, 109, 112, SL, STAR] = .ok [[SL, 116, 109, 112, SL, 100], [SL, 116, 109, 112, SL, 103]] := by
  have h1 := C14_glob_flat wkStore 0 wkAdm wkStore_wf.1 wkAdm_root rfl 0 [[97]] (by decide) (by decide) 0 4
    (by decide +kernel) (by decide +kernel) [LB, 98, 102, 93] (by decide) (by decide) (by decide)
    ⟨false, by decide +kernel⟩ (by decide +kernel) 1
  have h2 := C14_glob_flat wkStore 0 wkAdm wkStore_wf.1 wkAdm_root rfl 0 [[116, 109, 112]] (by decide) (by decide) 0 3
    (by decide +kernel) (by decide +kernel) [STAR] (by decide) (by decide) (by decide)
    ⟨false, by decide +kernel⟩ (by decide +kernel) 1
  constructor
  · rw [show ([SL, 97, SL, LB, 98, 102, 93] : Bytes) = pathOf ([[97]] ++ [[LB, 98, 102, 93]]) from rfl, h1]
    decide +kernel
  · rw [show ([SL, 116, 109, 112, SL, STAR] : Bytes) = pathOf ([[116, 109, 112]] ++ [[STAR]]) from rfl, h2]
    decide +kernel

end Avfs.FS
