import Avfs.Lemmas.PosixLinks
import Avfs.Props.C04_links
import Avfs.Props.C01_more
/-
  C01 through symbolic links — the namespace calls of the MemFS model on ARBITRARY paths (relative, unclean, through
  any number / nesting of symbolic links, dangling and cyclic ones included) against the POSIX-style references of
  Props/C01.lean and Props/C01_more.lean, which are stated for clean absolute link-free paths.

  Each `C01_<call>_via_links` reads: resolve the components of `Clean(Abs(p))` by the textbook resolution `nameiPath`
  of C04 (`false`: the last component is not followed — Lstat, Readlink, Mkdir, Remove, RemoveAll, Symlink, Link,
  Rename, Lchown; `true`: every link is followed — Stat, Chmod, Chtimes, Truncate, ReadDir, OpenFile, MkdirAll, Chown);
  ELOOP beyond 40 links; otherwise the outcome is what the reference of the call says on the RESULT of the resolution
  (`Res.toWalk`: the real parent, the node or the missing last name) — there is no "outside" escape left.
  `C01_real_path` ties that result to the link-free descents: along the REAL path computed by the resolution
  `walkPath` / `walkPathL` find the same node in the same directory; `C01_searchNode_real` and
  `C01_*_calls_on_real_path` say that the call on `p` IS the call on "/" ++ join (real path).

  Hypotheses: `WF s root` (C05), `ViewOK s v` (the root of the view is a directory, the cwd is absolute; the view may
  be rooted anywhere), `LinksOK s` (C04: an invariant of every reachable state, `C04_linksOK_reachable`).

  What deviates from Linux is stated as a witness on `lkStore`: O_CREAT|O_EXCL through a dangling link creates the
  target (`C01_open_excl_dangling_link`), MkdirAll through a dangling or cyclic link (`C01_mkdirAll_dangling_link`),
  Link on a symbolic-link source is EPERM (`C01_link_symlink_source`).
-/
set_option linter.unusedVariables false

namespace Avfs.FS
open Avfs.Path Avfs.Path.Spec

/-- Stat = stat(2) on ANY path: the attributes of the node the textbook resolution (following every link) finds — the
    node the link-free descent finds on the REAL path —, under the last name of `Clean(Abs(p))` (what `os.Stat` names
    the result); ENOENT / ENOTDIR / EACCES from the resolution, ELOOP beyond 40 links. The state never changes. -/
theorem C01_stat_via_links (s : Store) (root : Ino) (v : View) (hwf : WF s root) (hv : ViewOK s v) (hl : LinksOK s)
    (p : Bytes) :
    (stat s v p .stat).1 = s ∧
    match nameiPath s v true (absComps v p) with
    | .found par c path => walkPath s v v.root path = .found par c ∧
        ∃ i, fillStat s c ((absComps v p).getLast?.getD []) = some i ∧ (stat s v p .stat).2 = .ok (.info i)
    | .missingLast _ _ _ => (stat s v p .stat).2 = .err .ENOENT
    | .missingDir => (stat s v p .stat).2 = .err .ENOENT
    | .notDir => (stat s v p .stat).2 = .err .ENOTDIR
    | .denied => (stat s v p .stat).2 = .err .EACCES
    | .loop => (stat s v p .stat).2 = .err .ELOOP :=
  stat_links s root v hwf hv hl p

/-- … which is the Stat of the real path up to the name reported -/
theorem C01_stat_via_links_real (s : Store) (root : Ino) (v : View) (hwf : WF s root) (hv : ViewOK s v) (hl : LinksOK s)
    (p : Bytes) (par c : Ino) (path : List Bytes) (hr : nameiPath s v true (absComps v p) = .found par c path) :
    ∃ i, stat s v (SL :: joinWith SL path) .stat = (s, .ok (.info i)) ∧
      stat s v p .stat = (s, .ok (.info { i with name := (absComps v p).getLast?.getD [] })) :=
  stat_links_real s root v hwf hv hl p par c path hr

/-- Lstat = lstat(2) on ANY path: the links on the way are followed, a link as last component is the entry found -/
theorem C01_lstat_via_links (s : Store) (root : Ino) (v : View) (hwf : WF s root) (hv : ViewOK s v) (hl : LinksOK s)
    (p : Bytes) :
    match nameiPath s v false (absComps v p) with
    | .found par c path => walkPathL s v v.root path = .found par c ∧
        ∃ i, fillStat s c (path.getLast?.getD []) = some i ∧ stat s v p .lstat = (s, .ok (.info i))
    | .missingLast _ _ _ => stat s v p .lstat = (s, .err .ENOENT)
    | .missingDir => stat s v p .lstat = (s, .err .ENOENT)
    | .notDir => stat s v p .lstat = (s, .err .ENOTDIR)
    | .denied => stat s v p .lstat = (s, .err .EACCES)
    | .loop => stat s v p .lstat = (s, .err .ELOOP) :=
  lstat_links s root v hwf hv hl p

/-- Readlink = readlink(2) on ANY path: links on the way are followed, the last component is not -/
theorem C01_readlink_via_links (s : Store) (root : Ino) (v : View) (hwf : WF s root) (hv : ViewOK s v) (hl : LinksOK s)
    (p : Bytes) :
    match nameiPath s v false (absComps v p) with
    | .loop => readlink s v p = (s, .err .ELOOP)
    | r =>
      match posixReadlink s r.toWalk with
      | .fail e => readlink s v p = (s, .err e)
      | .target l => readlink s v p = (s, .ok (.bytes l))
      | .outside => False :=
  readlink_links s root v hwf hv hl p

/-- Mkdir = mkdir(2) on ANY non-empty path: the directory is made in the REAL parent, under the last name; an existing
    entry — a symbolic link included, dangling or not: the last component is not followed — is EEXIST -/
theorem C01_mkdir_via_links (s : Store) (root : Ino) (v : View) (hwf : WF s root) (hv : ViewOK s v) (hl : LinksOK s)
    (p : Bytes) (hp : p ≠ []) (perm : Nat) :
    match nameiPath s v false (absComps v p) with
    | .loop => mkdir s v p perm = (s, .err .ELOOP)
    | r =>
      match posixMkdir s v r.toWalk with
      | .fail e => mkdir s v p perm = (s, .err e)
      | .create par name => mkdir s v p perm = ((createDir s v par name perm).1, .ok .unit)
      | .outside => False :=
  mkdir_links s root v hwf hv hl p hp perm

/-- Remove = unlink(2) / rmdir(2) on ANY path: the entry goes away from its REAL directory; a symbolic link as last
    component is removed itself (not its target); the root of the view (however it is reached) is EINVAL -/
theorem C01_remove_via_links (s : Store) (root : Ino) (v : View) (hwf : WF s root) (hv : ViewOK s v) (hl : LinksOK s)
    (p : Bytes) :
    match nameiPath s v false (absComps v p) with
    | .loop => remove s v p = (s, .err .ELOOP)
    | .found _ _ [] => remove s v p = (s, .err .EINVAL)
    | r =>
      match posixRemove s v r.toWalk with
      | .fail e => remove s v p = (s, .err e)
      | .unlink par c => remove s v p = (deleteNode (removeChild s par r.lastName) c, .ok .unit)
      | .outside => False :=
  remove_links s root v hwf hv hl p

/-- Chmod = chmod(2) on ANY path (every link is followed: the node that changes is the one the resolution ends on) -/
theorem C01_chmod_via_links (s : Store) (root : Ino) (v : View) (hwf : WF s root) (hv : ViewOK s v) (hl : LinksOK s)
    (p : Bytes) (mode : Nat) :
    match nameiPath s v true (absComps v p) with
    | .loop => chmod s v p mode = (s, .err .ELOOP)
    | r =>
      match posixChmod s v mode r.toWalk with
      | .fail e => chmod s v p mode = (s, .err e)
      | .update c n => chmod s v p mode = (s.set c n, .ok .unit)
      | .outside => False :=
  chmod_links s root v hwf hv hl p mode

/-- Chtimes = utimensat(2) on ANY path (every link is followed) -/
theorem C01_chtimes_via_links (s : Store) (root : Ino) (v : View) (hwf : WF s root) (hv : ViewOK s v) (hl : LinksOK s)
    (p : Bytes) (mtime : Int) :
    match nameiPath s v true (absComps v p) with
    | .loop => chtimes s v p mtime = (s, .err .ELOOP)
    | r =>
      match posixChtimes s v mtime r.toWalk with
      | .fail e => chtimes s v p mtime = (s, .err e)
      | .update c n => chtimes s v p mtime = (s.set c n, .ok .unit)
      | .outside => False :=
  chtimes_links s root v hwf hv hl p mtime

/-- Truncate = truncate(2) on ANY path (every link is followed) -/
theorem C01_truncate_via_links (s : Store) (root : Ino) (v : View) (hwf : WF s root) (hv : ViewOK s v) (hl : LinksOK s)
    (p : Bytes) (size : Int) :
    match nameiPath s v true (absComps v p) with
    | .loop => truncate s v p size = (s, .err (if size < 0 || size > maxFileSize then .EINVAL else .ELOOP))
    | r =>
      match posixTruncate s v size r.toWalk with
      | .fail e => truncate s v p size = (s, .err e)
      | .update c n => truncate s v p size = (s.set c n, .ok .unit)
      | .outside => False :=
  truncate_links s root v hwf hv hl p size

/-- ReadDir = open(2) read-only + getdents on ANY non-empty path (every link is followed): the listing of the REAL
    directory -/
theorem C01_readDir_via_links (s : Store) (root : Ino) (v : View) (hwf : WF s root) (hv : ViewOK s v) (hl : LinksOK s)
    (p : Bytes) (hp : p ≠ []) (vid : Nat) :
    match nameiPath s v true (absComps v p) with
    | .loop => readDir s v vid p = .err .ELOOP
    | r =>
      match posixReadDir s v r.toWalk with
      | .fail e => readDir s v vid p = .err e
      | .entries l => readDir s v vid p = .ok (.infos l)
      | .outside => False :=
  readDir_links s root v hwf hv hl p hp vid

/-- OpenFile = open(2) on ANY non-empty path, for every flag value: every link is followed, the last component
    included — so O_CREAT through a DANGLING link whose target lacks only its last component creates the target
    (as open(2) does without O_EXCL; with O_EXCL open(2) refuses any link as last component with EEXIST: recorded
    divergence, witness `C01_open_excl_dangling_link` in Props/C01_links.lean). The handle carries the path as given. -/
theorem C01_open_via_links (s : Store) (root : Ino) (v : View) (hwf : WF s root) (hv : ViewOK s v) (hl : LinksOK s)
    (p : Bytes) (hp : p ≠ []) (vid flag perm : Nat) :
    match nameiPath s v true (absComps v p) with
    | .loop => openFile s v vid p flag perm = (s, .error .ELOOP)
    | r =>
      match posixOpen s v (toOpenMode flag) r.toWalk with
      | .fail e => openFile s v vid p flag perm = (s, .error e)
      | .create par name => openFile s v vid p flag perm =
          ((createFile s v par name perm).1,
           .ok (handleOn (createFile s v par name perm).2 p (toOpenMode flag) vid))
      | .opened c tr => openFile s v vid p flag perm =
          (if tr then truncated s c else s, .ok (handleOn c p (toOpenMode flag) vid))
      | .outside => False :=
  open_links s root v hwf hv hl p hp vid flag perm

/-- Symlink = symlink(2) as far as the NEW path goes, on ANY path: links on the way are followed, the new link is made
    in the REAL directory; any existing last component (a link included, dangling or not) is EEXIST -/
theorem C01_symlink_via_links (s : Store) (root : Ino) (v : View) (hwf : WF s root) (hv : ViewOK s v) (hl : LinksOK s)
    (old p : Bytes) :
    match nameiPath s v false (absComps v p) with
    | .loop => symlink s v old p = (s, .err .ELOOP)
    | r =>
      match posixSymlink s v r.toWalk with
      | .fail e => symlink s v old p = (s, .err e)
      | .create par name => symlink s v old p = ((createSymlink s v par name (clean .linux old)).1, .ok .unit)
      | .outside => False :=
  symlink_links s root v hwf hv hl old p

/-- Link = link(2) on ANY two paths, each resolved on its own (links on the way followed, the last component not):
    the new entry is made in the REAL directory of the new path. A source whose last component is a symbolic link
    is refused with EPERM (`.outside` of the reference: link(2) on Linux links the link itself — recorded). -/
theorem C01_link_via_links (s : Store) (root : Ino) (v : View) (hwf : WF s root) (hv : ViewOK s v) (hl : LinksOK s)
    (po pn : Bytes) :
    match nameiPath s v false (absComps v po), nameiPath s v false (absComps v pn) with
    | .loop, _ => link s v po pn = (s, .err .ELOOP)
    | .found _ _ _, .loop => link s v po pn = (s, .err .ELOOP)
    | ro, rn =>
      match posixLink s v ro.toWalk rn.toWalk with
      | .fail e => link s v po pn = (s, .err e)
      | .link oc par name => link s v po pn = (linked s oc par name, .ok .unit)
      | .outside => link s v po pn = (s, .err .EPERM) :=
  link_links s root v hwf hv hl po pn

/-- Rename = rename(2) on ANY two paths, each resolved on its own (links on the way followed, the last component
    not — a symbolic link is moved, or replaced, itself): the entry leaves its REAL directory and appears in the REAL
    directory of the new path; "same path" and "below itself" are decided on the REAL paths. Excluded: the root of the
    view as either operand (`hro`, `hrn`); stated apart: the corners of `renameCorner` (EEXIST). -/
theorem C01_rename_via_links (s : Store) (root : Ino) (v : View) (hwf : WF s root) (hv : ViewOK s v) (hl : LinksOK s)
    (po pn : Bytes)
    (hro : ∀ par c, nameiPath s v false (absComps v po) ≠ .found par c [])
    (hrn : ∀ par c, nameiPath s v false (absComps v pn) ≠ .found par c []) :
    match nameiPath s v false (absComps v po), nameiPath s v false (absComps v pn) with
    | .loop, _ => rename s v po pn = (s, .err .ELOOP)
    | .found _ _ _, .loop => rename s v po pn = (s, .err .ELOOP)
    | ro, rn =>
      if renameCorner s ro.toWalk rn.toWalk (renameRefL s v ro rn) = true
      then rename s v po pn = (s, .err .EEXIST)
      else
      match renameRefL s v ro rn with
      | .fail e => rename s v po pn = (s, .err e)
      | .noop => rename s v po pn = (s, .ok .unit)
      | .move opar npar oc repl =>
          rename s v po pn = (renamed s opar ro.lastName npar rn.lastName oc repl, .ok .unit)
      | .outside => False :=
  rename_links s root v hwf hv hl po pn hro hrn

/-- MkdirAll = mkdir -p on ANY path (every link is followed): an existing directory: nothing; a regular file (as last
    or inner component): ENOTDIR; an unsearchable directory: EACCES; only the last name missing (possibly the last name
    of the target of a DANGLING link): as Mkdir in the REAL parent; an inner name missing after the links are followed
    (possibly inside the target of a dangling link): the chain `todo` of the missing names is made below the REAL
    directory `d` where the resolution stops (`stopPath`: the reference computes `d`, its real path and `todo`; EACCES
    when `d` may not be written and searched). Through a dangling link os.MkdirAll
    fails with EEXIST at the link: recorded divergence, as is the last clause: beyond 40 links MkdirAll changes
    nothing and answers nil (EACCES when the directory holding the 41st link may not be written). -/
theorem C01_mkdirAll_via_links (s : Store) (root : Ino) (v : View) (hwf : WF s root) (hv : ViewOK s v) (hl : LinksOK s)
    (p : Bytes) (perm : Nat) :
    match nameiPath s v true (absComps v p) with
    | .found _ c _ => mkdirAll s v p perm = (s, if isDirAt s c then .ok .unit else .err .ENOTDIR)
    | .missingLast par name _ => mkdirAll s v p perm =
        if dirPerm s par (omWrite ||| omLookup) v then ((createDir s v par name perm).1, .ok .unit)
        else (s, .err .EACCES)
    | .missingDir =>
        match stopPath s v true (absComps v p) with
        | some (d, dpath, todo) =>
          (∃ par, walkPath s v v.root dpath = .found par d) ∧ isDirAt s d = true ∧
          todo.length ≥ 2 ∧ (∀ x ∈ todo, Plain x) ∧ s.child d (todo.headD []) = none ∧
          mkdirAll s v p perm =
            if dirPerm s d (omWrite ||| omLookup) v then (mkChain v perm s d todo, .ok .unit) else (s, .err .EACCES)
        | none => False
    | .notDir => mkdirAll s v p perm = (s, .err .ENOTDIR)
    | .denied => mkdirAll s v p perm = (s, .err .EACCES)
    | .loop => ∃ par, mkdirAll s v p perm =
        if dirPerm s par (omWrite ||| omLookup) v then (s, .ok .unit) else (s, .err .EACCES) :=
  mkdirAll_links s root v hwf hv hl p perm

/-- RemoveAll = rm -rf on ANY non-empty path: links on the way are followed, the last component is not (a link is
    removed itself); the statement of `removeAll_posix` holds with the REAL parent and the last name of the real
    path; the root of the view, however it is reached, is EINVAL -/
theorem C01_removeAll_via_links (s : Store) (root : Ino) (v : View) (hwf : WF s root) (hv : ViewOK s v) (hl : LinksOK s)
    (p : Bytes) (hp : p ≠ []) :
    match nameiPath s v false (absComps v p) with
    | .loop => removeAll s v p = (s, .err .ELOOP)
    | .found _ _ [] => removeAll s v p = (s, .err .EINVAL)
    | r =>
      match posixRemoveAll r.toWalk with
      | .done => removeAll s v p = (s, .ok .unit)
      | .fail e => removeAll s v p = (s, .err e)
      | .remove par c =>
          Edge s par r.lastName c ∧
          (isNonEmptyDir s c = true → ¬ (TreeWritable s v c ∧ TreeUnrestricted s v c) →
            ∃ s1 e, (e = .EACCES ∨ e = .EPERM) ∧ removeAll s v p = (s1, .err e) ∧
              RAGood root s c s1 ∧ Keeps s s1) ∧
          ((isNonEmptyDir s c = true → TreeWritable s v c ∧ TreeUnrestricted s v c) →
            ∃ s1, Emptied root s c s1 ∧ (isNonEmptyDir s c = false → s1 = s) ∧
              TreeRemoved root s par r.lastName c (deleteNode (removeChild s1 par r.lastName) c) ∧
              removeAll s v p =
                if !dirPerm s par omWrite v then (s1, .err .EACCES)
                else if restrictedDeletion s v par c then (s1, .err .EPERM)
                else (deleteNode (removeChild s1 par r.lastName) c, .ok .unit))
      | .outside => False :=
  removeAll_links s root v hwf hv hl p hp

/-- Chown (every link followed) / Lchown (the last component not followed) = chown(2) / lchown(2) on ANY path, for an
    administrator; anybody else is refused with EPERM before the path is looked at (`chown_user`) -/
theorem C01_chown_via_links (s : Store) (root : Ino) (v : View) (hwf : WF s root) (hv : ViewOK s v) (hl : LinksOK s)
    (p : Bytes) (uid gid : Int) (m : SlMode) (hadm : v.admin = true) :
    match nameiPath s v (m != .lstat) (absComps v p) with
    | .loop => chown s v p uid gid m = (s, .err .ELOOP)
    | r =>
      match posixChown s v uid gid r.toWalk with
      | .fail e => chown s v p uid gid m = (s, .err e)
      | .update c n => chown s v p uid gid m = (s.set c n, .ok .unit)
      | .outside => False :=
  chown_links s root v hwf hv hl p uid gid m hadm

/-- the descents along the REAL path give the result of the resolution: no link is left on it (a last component that
    is a link, in a no-follow resolution, is what `walkPathL` finds) -/
theorem C01_real_path (s : Store) (root : Ino) (v : View) (hwf : WF s root) (hv : ViewOK s v) (f : Bool)
    (p : Bytes) :
    match nameiPath s v f (absComps v p) with
    | .found par c path => walkPathL s v v.root path = .found par c ∧
        (f = true → walkPath s v v.root path = .found par c)
    | .missingLast par nm path => walkPath s v v.root path = .missingLast par nm ∧
        walkPathL s v v.root path = .missingLast par nm
    | _ => True :=
  nameiPath_toWalk s root v hwf hv f p

/-- TRANSFER. For any path `p` (relative, unclean, through symbolic links) whose textbook resolution finds an entry
    — or finds everything but the last name — with the real path `path`: outside `slmStat`, `searchNode` returns on `p`
    EXACTLY what it returns on "/" ++ join `path`, a record that is a function of the reference's result. -/
theorem C01_searchNode_real (s : Store) (root : Ino) (v : View) (hwf : WF s root) (hv : ViewOK s v)
    (hl : LinksOK s) (p : Bytes) (m : SlMode) (hm : m ≠ .stat) :
    match nameiPath s v (m != .lstat) (absComps v p) with
    | .found par c path =>
      searchNode s v p m = ⟨par, some c, lastIter path, .exists⟩ ∧
      searchNode s v (SL :: joinWith SL path) m = ⟨par, some c, lastIter path, .exists⟩
    | .missingLast par nm path =>
      searchNode s v p m = ⟨par, none, lastIter path, .noent⟩ ∧
      searchNode s v (SL :: joinWith SL path) m = ⟨par, none, lastIter path, .noent⟩
    | _ => True :=
  searchNode_real s root v hwf hv hl p m hm

/-- the calls that do not follow a link in the last component, on `p` and on the real path "/" ++ join `path` (the
    links ON THE WAY are followed by the resolution of `p`; the real path has none) -/
theorem C01_nofollow_calls_on_real_path (s : Store) (root : Ino) (v : View) (hwf : WF s root) (hv : ViewOK s v)
    (hl : LinksOK s) (p : Bytes) (hp : p ≠ []) (path : List Bytes)
    (hr : (nameiPath s v false (absComps v p)).Reaches path) :
    (∀ perm, mkdir s v p perm = mkdir s v (SL :: joinWith SL path) perm) ∧
    remove s v p = remove s v (SL :: joinWith SL path) ∧
    removeAll s v p = removeAll s v (SL :: joinWith SL path) ∧
    readlink s v p = readlink s v (SL :: joinWith SL path) ∧
    stat s v p .lstat = stat s v (SL :: joinWith SL path) .lstat ∧
    (∀ old, symlink s v old p = symlink s v old (SL :: joinWith SL path)) ∧
    (∀ uid gid, chown s v p uid gid .lstat = chown s v (SL :: joinWith SL path) uid gid .lstat) :=
  nofollow_calls_real s root v hwf hv hl p hp path hr

/-- the calls that follow every link, on `p` and on the real path (OpenFile: up to the name the handle records) -/
theorem C01_follow_calls_on_real_path (s : Store) (root : Ino) (v : View) (hwf : WF s root) (hv : ViewOK s v)
    (hl : LinksOK s) (p : Bytes) (hp : p ≠ []) (path : List Bytes)
    (hr : (nameiPath s v true (absComps v p)).Reaches path) :
    (∀ mode, chmod s v p mode = chmod s v (SL :: joinWith SL path) mode) ∧
    (∀ t, chtimes s v p t = chtimes s v (SL :: joinWith SL path) t) ∧
    (∀ size, truncate s v p size = truncate s v (SL :: joinWith SL path) size) ∧
    (∀ perm, mkdirAll s v p perm = mkdirAll s v (SL :: joinWith SL path) perm) ∧
    (∀ uid gid, chown s v p uid gid .eval = chown s v (SL :: joinWith SL path) uid gid .eval) ∧
    evalSymlinks s v p = evalSymlinks s v (SL :: joinWith SL path) ∧
    (∀ vid flag perm, (openFile s v vid p flag perm).1 = (openFile s v vid (SL :: joinWith SL path) flag perm).1 ∧
      (openFile s v vid p flag perm).2 =
        (openFile s v vid (SL :: joinWith SL path) flag perm).2.map (fun hd => { hd with name := p })) :=
  follow_calls_real s root v hwf hv hl p hp path hr

/-- the two-path calls: each path is resolved on its own, and the call on (`po`, `pn`) is the call on the two real
    paths -/
theorem C01_two_path_calls_on_real_path (s : Store) (root : Ino) (v : View) (hwf : WF s root) (hv : ViewOK s v)
    (hl : LinksOK s) (po pn : Bytes) (opath npath : List Bytes)
    (hro : (nameiPath s v false (absComps v po)).Reaches opath)
    (hrn : (nameiPath s v false (absComps v pn)).Reaches npath) :
    link s v po pn = link s v (SL :: joinWith SL opath) (SL :: joinWith SL npath) ∧
    rename s v po pn = rename s v (SL :: joinWith SL opath) (SL :: joinWith SL npath) :=
  two_path_calls_real s root v hwf hv hl po pn opath npath hro hrn

/-- wherever `posixRename` answers (no symbolic link among the two entries), `posixRenameL` is `posixRename` -/
theorem C01_posixRenameL_eq (s : Store) (v : View) (same below : Bool) (old new : Resolved)
    (h : posixRename s v same below old new ≠ .outside) :
    posixRenameL s v same below old new = posixRename s v same below old new :=
  posixRenameL_eq s v same below old new h

/-! ### non-vacuity on `lkStore` (Props/C04_links.lean): chains, a cycle, relative and dangling links

  / 0, /tmp 3, /a 4, /a/b 5, /a/b/c 6, /a/f 7, /l1 8 → "/a/b", /a/l2 9 → "b", /a/b/l3 10 → "../f",
  /l4 11 ↔ /l5 12, /l6 13 → "/no/x", /l7 14 → "/a/zz", /l8 15 → "l1", /a/rt 16 → "/" -/

/-- the administrator on the whole volume -/
def lkAdm : View := { root := 0, cwd := [SL], uid := 0, gid := 0, admin := true, umask := 0o022 }

theorem lkAdm_ok : ViewOK lkStore lkAdm := ⟨by decide +kernel, by decide⟩

/-- Mkdir("/l8/new") through the chain l8 → "l1" → "/a/b": the directory is made in the REAL parent /a/b (5) -/
example : mkdir lkStore lkAdm [SL, 108, 56, SL, 110, 101, 119] 0o755 =
    ((createDir lkStore lkAdm 5 [110, 101, 119] 0o755).1, .ok .unit) := by
  have h := C01_mkdir_via_links lkStore 0 lkAdm lkStore_wf.1 lkAdm_ok lkStore_links [SL, 108, 56, SL, 110, 101, 119]
    (by decide) 0o755
  have hw : nameiPath lkStore lkAdm false (absComps lkAdm [SL, 108, 56, SL, 110, 101, 119]) =
      .missingLast 5 [110, 101, 119] [nA, nB, [110, 101, 119]] := by decide +kernel
  have hr : posixMkdir lkStore lkAdm (Res.missingLast 5 [110, 101, 119] [nA, nB, [110, 101, 119]]).toWalk =
      .create 5 [110, 101, 119] := by decide +kernel
  rw [hw] at h
  simp only [hr] at h
  exact h

/-- Mkdir onto the DANGLING link /l7 → "/a/zz": the last component is not followed, the link exists: EEXIST (as
    mkdir(2)) -/
example : mkdir lkStore lkAdm [SL, 108, 55] 0o755 = (lkStore, .err .EEXIST) := by
  have h := C01_mkdir_via_links lkStore 0 lkAdm lkStore_wf.1 lkAdm_ok lkStore_links [SL, 108, 55] (by decide) 0o755
  have hw : nameiPath lkStore lkAdm false (absComps lkAdm [SL, 108, 55]) = .found 0 14 [[108, 55]] := by decide +kernel
  have hr : posixMkdir lkStore lkAdm (Res.found 0 14 [[108, 55]]).toWalk = .fail .EEXIST := by decide +kernel
  rw [hw] at h
  simp only [hr] at h
  exact h

/-- the call on the path through the links IS the call on the real path, which is link-free:
    Mkdir("/l8/new") = Mkdir("/a/b/new"), and `walkPath` along a/b/new misses only "new" in /a/b (5) -/
example : mkdir lkStore lkAdm [SL, 108, 56, SL, 110, 101, 119] 0o755 = mkdir lkStore lkAdm [SL, 97, SL, 98, SL, 110, 101, 119] 0o755 ∧
    walkPath lkStore lkAdm 0 [[97], [98], [110, 101, 119]] = .missingLast 5 [110, 101, 119] := by
  have hw : nameiPath lkStore lkAdm false (absComps lkAdm [SL, 108, 56, SL, 110, 101, 119]) =
      .missingLast 5 [110, 101, 119] [[97], [98], [110, 101, 119]] := by decide +kernel
  have h := C01_nofollow_calls_on_real_path lkStore 0 lkAdm lkStore_wf.1 lkAdm_ok lkStore_links [SL, 108, 56, SL, 110, 101, 119]
    (by decide) [[97], [98], [110, 101, 119]] (Or.inr ⟨5, [110, 101, 119], hw⟩)
  have hreal := C01_real_path lkStore 0 lkAdm lkStore_wf.1 lkAdm_ok false [SL, 108, 56, SL, 110, 101, 119]
  rw [hw] at hreal
  exact ⟨h.1 0o755, hreal.1⟩

/-- Remove("/l1/l3"): the name is reached through the link l1 → "/a/b"; the entry l3 — itself a symbolic link, which is
    not followed — goes away from the REAL directory /a/b (5); its target /a/f stays -/
example : remove lkStore lkAdm [SL, 108, 49, SL, 108, 51] = (deleteNode (removeChild lkStore 5 [108, 51]) 10, .ok .unit) := by
  have h := C01_remove_via_links lkStore 0 lkAdm lkStore_wf.1 lkAdm_ok lkStore_links [SL, 108, 49, SL, 108, 51]
  have hw : nameiPath lkStore lkAdm false (absComps lkAdm [SL, 108, 49, SL, 108, 51]) = .found 5 10 [[97], [98], [108, 51]] := by
    decide +kernel
  have hr : posixRemove lkStore lkAdm (Res.found 5 10 [[97], [98], [108, 51]]).toWalk = .unlink 5 10 := by decide +kernel
  rw [hw] at h
  simp only [hr] at h
  exact h

/-- Stat through the CYCLE l4 ↔ l5 = ELOOP; Lstat of the same path finds the link itself; Stat("/l8/l3") through three
    links describes the file /a/f (7) under the name "l3" -/
example : stat lkStore lkView [SL, 108, 52] .stat = (lkStore, .err .ELOOP) ∧
    stat lkStore lkView [SL, 108, 52] .lstat = (lkStore, .ok (.info ⟨[108, 52], 2, 0o777, 0, 0, 0, 1, 0, none⟩)) ∧
    stat lkStore lkView [SL, 108, 56, SL, 108, 51] .stat = (lkStore, .ok (.info ⟨[108, 51], 1, 0o644, 0, 0, 1, 2, 1, none⟩)) ∧
    walkPath lkStore lkView 0 [[97], [102]] = .found 4 7 := by
  have h1 := C01_stat_via_links lkStore 0 lkView lkStore_wf.1 lkView_ok lkStore_links [SL, 108, 52]
  have h2 := C01_lstat_via_links lkStore 0 lkView lkStore_wf.1 lkView_ok lkStore_links [SL, 108, 52]
  have h3 := C01_stat_via_links lkStore 0 lkView lkStore_wf.1 lkView_ok lkStore_links [SL, 108, 56, SL, 108, 51]
  have hw1 : nameiPath lkStore lkView true (absComps lkView [SL, 108, 52]) = .loop := by decide +kernel
  have hw2 : nameiPath lkStore lkView false (absComps lkView [SL, 108, 52]) = .found 0 11 [[108, 52]] := by decide +kernel
  have hw3 : nameiPath lkStore lkView true (absComps lkView [SL, 108, 56, SL, 108, 51]) = .found 4 7 [[97], [102]] := by
    decide +kernel
  have hf2 : fillStat lkStore 11 ([[108, 52]].getLast?.getD []) = some ⟨[108, 52], 2, 0o777, 0, 0, 0, 1, 0, none⟩ := by
    decide +kernel
  have hf3 : fillStat lkStore 7 ((absComps lkView [SL, 108, 56, SL, 108, 51]).getLast?.getD []) =
      some ⟨[108, 51], 1, 0o644, 0, 0, 1, 2, 1, none⟩ := by decide +kernel
  rw [hw1] at h1
  rw [hw2] at h2
  rw [hw3] at h3
  obtain ⟨_, i2, hi2, ho2⟩ := h2
  obtain ⟨hs3, hwalk, i3, hi3, ho3⟩ := h3
  have e2 := Option.some.inj (hi2.symm.trans hf2)
  have e3 := Option.some.inj (hi3.symm.trans hf3)
  subst e2 e3
  exact ⟨Prod.ext h1.1 h1.2, ho2, Prod.ext hs3 ho3, hwalk⟩

/-- a RELATIVE, unclean path: with the current directory "/a", Readlink("l2/./l3") follows l2 → "b" and returns the
    target of /a/b/l3 -/
def lkAdmA : View := { lkAdm with cwd := [SL, 97] }

theorem lkAdmA_ok : ViewOK lkStore lkAdmA := ⟨by decide +kernel, by decide⟩

example : readlink lkStore lkAdmA [108, 50, SL, DOT, SL, 108, 51] = (lkStore, .ok (.bytes [DOT, DOT, SL, 102])) := by
  have h := C01_readlink_via_links lkStore 0 lkAdmA lkStore_wf.1 lkAdmA_ok lkStore_links [108, 50, SL, DOT, SL, 108, 51]
  have hw : nameiPath lkStore lkAdmA false (absComps lkAdmA [108, 50, SL, DOT, SL, 108, 51]) = .found 5 10 [[97], [98], [108, 51]] := by
    decide +kernel
  have hr : posixReadlink lkStore (Res.found 5 10 [[97], [98], [108, 51]]).toWalk = .target [DOT, DOT, SL, 102] := by decide +kernel
  rw [hw] at h
  simp only [hr] at h
  exact h

/-- ReadDir("/l8") lists the REAL directory /a/b; Chmod("/l8", 0700) changes /a/b (5), not a link -/
example : readDir lkStore lkView 0 [SL, 108, 56] = .ok (.infos
      [⟨[99], 0, 0o700, 0, 0, 0, 0, 0, none⟩, ⟨[108, 51], 2, 0o777, 0, 0, 0, 1, 0, none⟩]) ∧
    chmod lkStore lkAdm [SL, 108, 56] 0o700 =
      (lkStore.set 5 (.dir ⟨0o700, 0, 0, none⟩ [([108, 51], 10), ([99], 6)]), .ok .unit) := by
  have h1 := C01_readDir_via_links lkStore 0 lkView lkStore_wf.1 lkView_ok lkStore_links [SL, 108, 56] (by decide) 0
  have h2 := C01_chmod_via_links lkStore 0 lkAdm lkStore_wf.1 lkAdm_ok lkStore_links [SL, 108, 56] 0o700
  have hw1 : nameiPath lkStore lkView true (absComps lkView [SL, 108, 56]) = .found 4 5 [[97], [98]] := by decide +kernel
  have hw2 : nameiPath lkStore lkAdm true (absComps lkAdm [SL, 108, 56]) = .found 4 5 [[97], [98]] := by decide +kernel
  have hr1 : posixReadDir lkStore lkView (Res.found 4 5 [[97], [98]]).toWalk = .entries
      [⟨[99], 0, 0o700, 0, 0, 0, 0, 0, none⟩, ⟨[108, 51], 2, 0o777, 0, 0, 0, 1, 0, none⟩] := by decide +kernel
  have hr2 : posixChmod lkStore lkAdm 0o700 (Res.found 4 5 [[97], [98]]).toWalk =
      .update 5 (.dir ⟨0o700, 0, 0, none⟩ [([108, 51], 10), ([99], 6)]) := by decide +kernel
  rw [hw1] at h1
  rw [hw2] at h2
  simp only [hr1] at h1
  simp only [hr2] at h2
  exact ⟨h1, h2⟩

/-- Truncate("/l8/l3", 1) and Chtimes("/l8/l3", 7) follow the three links to the file /a/f (7); Lchown("/l8/l3")
    changes the link /a/b/l3 (10) itself, Chown the file -/
example : truncate lkStore lkAdm [SL, 108, 56, SL, 108, 51] 1 = (lkStore.set 7 (.file ⟨0o644, 0, 0, none⟩ [104] 1 1), .ok .unit) ∧
    chtimes lkStore lkAdm [SL, 108, 56, SL, 108, 51] 7 =
      (lkStore.set 7 (.file ⟨0o644, 0, 0, some 7⟩ [104, 105] 1 1), .ok .unit) ∧
    chown lkStore lkAdm [SL, 108, 56, SL, 108, 51] 5 (-1) .lstat =
      (lkStore.set 10 (.symlink ⟨0o777, 5, 0, none⟩ [DOT, DOT, SL, 102]), .ok .unit) ∧
    chown lkStore lkAdm [SL, 108, 56, SL, 108, 51] 5 (-1) .eval =
      (lkStore.set 7 (.file ⟨0o644, 5, 0, none⟩ [104, 105] 1 1), .ok .unit) := by
  have h1 := C01_truncate_via_links lkStore 0 lkAdm lkStore_wf.1 lkAdm_ok lkStore_links [SL, 108, 56, SL, 108, 51] 1
  have h2 := C01_chtimes_via_links lkStore 0 lkAdm lkStore_wf.1 lkAdm_ok lkStore_links [SL, 108, 56, SL, 108, 51] 7
  have h3 := C01_chown_via_links lkStore 0 lkAdm lkStore_wf.1 lkAdm_ok lkStore_links [SL, 108, 56, SL, 108, 51] 5 (-1) .lstat rfl
  have h4 := C01_chown_via_links lkStore 0 lkAdm lkStore_wf.1 lkAdm_ok lkStore_links [SL, 108, 56, SL, 108, 51] 5 (-1) .eval rfl
  have hwt : nameiPath lkStore lkAdm true (absComps lkAdm [SL, 108, 56, SL, 108, 51]) = .found 4 7 [[97], [102]] := by decide +kernel
  have hwf' : nameiPath lkStore lkAdm false (absComps lkAdm [SL, 108, 56, SL, 108, 51]) = .found 5 10 [[97], [98], [108, 51]] := by
    decide +kernel
  have hr1 : posixTruncate lkStore lkAdm 1 (Res.found 4 7 [[97], [102]]).toWalk =
      .update 7 (.file ⟨0o644, 0, 0, none⟩ [104] 1 1) := by decide +kernel
  have hr2 : posixChtimes lkStore lkAdm 7 (Res.found 4 7 [[97], [102]]).toWalk =
      .update 7 (.file ⟨0o644, 0, 0, some 7⟩ [104, 105] 1 1) := by decide +kernel
  have hr3 : posixChown lkStore lkAdm 5 (-1) (Res.found 5 10 [[97], [98], [108, 51]]).toWalk =
      .update 10 (.symlink ⟨0o777, 5, 0, none⟩ [DOT, DOT, SL, 102]) := by decide +kernel
  have hr4 : posixChown lkStore lkAdm 5 (-1) (Res.found 4 7 [[97], [102]]).toWalk =
      .update 7 (.file ⟨0o644, 5, 0, none⟩ [104, 105] 1 1) := by decide +kernel
  rw [hwt] at h1 h2
  rw [show (SlMode.lstat != SlMode.lstat) = false from rfl, hwf'] at h3
  rw [show (SlMode.eval != SlMode.lstat) = true from rfl, hwt] at h4
  simp only [hr1] at h1
  simp only [hr2] at h2
  simp only [hr3] at h3
  simp only [hr4] at h4
  exact ⟨h1, h2, h3, h4⟩

/-- Symlink("x", "/l1/n") makes the link in the REAL directory /a/b (5); onto the dangling link "/l7": EEXIST -/
example : symlink lkStore lkAdm [120] [SL, 108, 49, SL, 110] =
      ((createSymlink lkStore lkAdm 5 [110] (clean .linux [120])).1, .ok .unit) ∧
    symlink lkStore lkAdm [120] [SL, 108, 55] = (lkStore, .err .EEXIST) := by
  have h1 := C01_symlink_via_links lkStore 0 lkAdm lkStore_wf.1 lkAdm_ok lkStore_links [120] [SL, 108, 49, SL, 110]
  have h2 := C01_symlink_via_links lkStore 0 lkAdm lkStore_wf.1 lkAdm_ok lkStore_links [120] [SL, 108, 55]
  have hw1 : nameiPath lkStore lkAdm false (absComps lkAdm [SL, 108, 49, SL, 110]) =
      .missingLast 5 [110] [[97], [98], [110]] := by decide +kernel
  have hw2 : nameiPath lkStore lkAdm false (absComps lkAdm [SL, 108, 55]) = .found 0 14 [[108, 55]] := by decide +kernel
  have hr1 : posixSymlink lkStore lkAdm (Res.missingLast 5 [110] [[97], [98], [110]]).toWalk = .create 5 [110] := by
    decide +kernel
  have hr2 : posixSymlink lkStore lkAdm (Res.found 0 14 [[108, 55]]).toWalk = .fail .EEXIST := by decide +kernel
  rw [hw1] at h1
  rw [hw2] at h2
  simp only [hr1] at h1
  simp only [hr2] at h2
  exact ⟨h1, h2⟩

/-- Link("/a/rt/a/f", "/l1/h") — the old path through rt → "/", the new one through l1 → "/a/b": one more entry "h" in
    the REAL directory /a/b (5) for the file /a/f (7) -/
example : link lkStore lkAdm [SL, 97, SL, 114, 116, SL, 97, SL, 102] [SL, 108, 49, SL, 104] = (linked lkStore 7 5 [104], .ok .unit) := by
  have h := C01_link_via_links lkStore 0 lkAdm lkStore_wf.1 lkAdm_ok lkStore_links [SL, 97, SL, 114, 116, SL, 97, SL, 102] [SL, 108, 49, SL, 104]
  have hwo : nameiPath lkStore lkAdm false (absComps lkAdm [SL, 97, SL, 114, 116, SL, 97, SL, 102]) = .found 4 7 [[97], [102]] := by
    decide +kernel
  have hwn : nameiPath lkStore lkAdm false (absComps lkAdm [SL, 108, 49, SL, 104]) =
      .missingLast 5 [104] [[97], [98], [104]] := by decide +kernel
  have hr : posixLink lkStore lkAdm (Res.found 4 7 [[97], [102]]).toWalk
      (Res.missingLast 5 [104] [[97], [98], [104]]).toWalk = .link 7 5 [104] := by decide +kernel
  rw [hwo, hwn] at h
  simp only [hr] at h
  exact h

/-- RECORDED DIVERGENCE: Link on a source whose last component is a symbolic link is EPERM (the reference says
    `.outside`; link(2) on Linux makes a second name for the link itself) -/
theorem C01_link_symlink_source :
    nameiPath lkStore lkAdm false (absComps lkAdm [SL, 108, 49]) = .found 0 8 [[108, 49]] ∧
    lkStore.get 8 = some (.symlink ⟨0o777, 0, 0, none⟩ [SL, 97, SL, 98]) ∧
    link lkStore lkAdm [SL, 108, 49] [SL, 116, 109, 112, SL, 104] = (lkStore, .err .EPERM) := by
  have h := C01_link_via_links lkStore 0 lkAdm lkStore_wf.1 lkAdm_ok lkStore_links [SL, 108, 49] [SL, 116, 109, 112, SL, 104]
  have hwo : nameiPath lkStore lkAdm false (absComps lkAdm [SL, 108, 49]) = .found 0 8 [[108, 49]] := by decide +kernel
  have hwn : nameiPath lkStore lkAdm false (absComps lkAdm [SL, 116, 109, 112, SL, 104]) =
      .missingLast 3 [104] [[116, 109, 112], [104]] := by decide +kernel
  have hr : posixLink lkStore lkAdm (Res.found 0 8 [[108, 49]]).toWalk
      (Res.missingLast 3 [104] [[116, 109, 112], [104]]).toWalk = .outside := by decide +kernel
  rw [hwo, hwn] at h
  simp only [hr] at h
  exact ⟨hwo, by decide +kernel, h⟩

/-- Rename("/l8/l3", "/tmp/m"): the entry l3 (a symbolic link: it is moved itself) leaves the REAL directory /a/b (5)
    and appears as "m" in /tmp (3) -/
example : rename lkStore lkAdm [SL, 108, 56, SL, 108, 51] [SL, 116, 109, 112, SL, 109] =
    (renamed lkStore 5 [108, 51] 3 [109] 10 none, .ok .unit) := by
  have hwo : nameiPath lkStore lkAdm false (absComps lkAdm [SL, 108, 56, SL, 108, 51]) = .found 5 10 [[97], [98], [108, 51]] := by
    decide +kernel
  have hwn : nameiPath lkStore lkAdm false (absComps lkAdm [SL, 116, 109, 112, SL, 109]) =
      .missingLast 3 [109] [[116, 109, 112], [109]] := by decide +kernel
  have h := C01_rename_via_links lkStore 0 lkAdm lkStore_wf.1 lkAdm_ok lkStore_links [SL, 108, 56, SL, 108, 51] [SL, 116, 109, 112, SL, 109]
    (by rw [hwo]; intro par c hc; cases hc) (by rw [hwn]; intro par c hc; cases hc)
  have hr : renameRefL lkStore lkAdm (Res.found 5 10 [[97], [98], [108, 51]]) (Res.missingLast 3 [109] [[116, 109, 112], [109]]) =
      .move 5 3 10 none := by decide +kernel
  rw [hwo, hwn] at h
  simp only [hr, renameCorner, Res.toWalk] at h
  exact h

/-- RemoveAll("/l1") removes the LINK /l1 (8), nothing of the directory /a/b it points at -/
example : removeAll lkStore lkAdm [SL, 108, 49] = (deleteNode (removeChild lkStore 0 [108, 49]) 8, .ok .unit) := by
  have h := C01_removeAll_via_links lkStore 0 lkAdm lkStore_wf.1 lkAdm_ok lkStore_links [SL, 108, 49] (by decide)
  have hw : nameiPath lkStore lkAdm false (absComps lkAdm [SL, 108, 49]) = .found 0 8 [[108, 49]] := by decide +kernel
  rw [hw] at h
  simp only [Res.toWalk, posixRemoveAll, Res.lastName] at h
  have hned : isNonEmptyDir lkStore 8 = false := by decide +kernel
  obtain ⟨s1, _, hs1, _, heq⟩ := h.2.2 (fun hc => by rw [hned] at hc; cases hc)
  rw [hs1 hned] at heq
  rw [heq]
  have hd : dirPerm lkStore 0 omWrite lkAdm = true := by decide +kernel
  have hrd : restrictedDeletion lkStore lkAdm 0 8 = false := by decide +kernel
  simp [hd, hrd]

/-- OpenFile(O_WRONLY|O_CREAT) through the DANGLING link /l7 → "/a/zz" creates the target "zz" in /a (4), as open(2) -/
example : openFile lkStore lkAdm 0 [SL, 108, 55] 0x41 0o644 =
    ((createFile lkStore lkAdm 4 [122, 122] 0o644).1,
     .ok (handleOn (createFile lkStore lkAdm 4 [122, 122] 0o644).2 [SL, 108, 55] (toOpenMode 0x41) 0)) := by
  have h := C01_open_via_links lkStore 0 lkAdm lkStore_wf.1 lkAdm_ok lkStore_links [SL, 108, 55] (by decide) 0 0x41 0o644
  have hw : nameiPath lkStore lkAdm true (absComps lkAdm [SL, 108, 55]) = .missingLast 4 [122, 122] [[97], [122, 122]] := by
    decide +kernel
  have hr : posixOpen lkStore lkAdm (toOpenMode 0x41) (Res.missingLast 4 [122, 122] [[97], [122, 122]]).toWalk =
      .create 4 [122, 122] := by decide +kernel
  rw [hw] at h
  simp only [hr] at h
  exact h

/-- RECORDED DIVERGENCE (ledger class open.excl-through-symlink): with O_CREAT|O_EXCL (0xC1) the model still follows
    the dangling link and creates the target; open(2) fails with EEXIST on any symbolic link as last component -/
theorem C01_open_excl_dangling_link :
    lkStore.child 0 [108, 55] = some 14 ∧ lkStore.get 14 = some (.symlink ⟨0o777, 0, 0, none⟩ [SL, 97, SL, 122, 122]) ∧
    nameiPath lkStore lkAdm true (absComps lkAdm [SL, 108, 55]) = .missingLast 4 [122, 122] [[97], [122, 122]] ∧
    openFile lkStore lkAdm 0 [SL, 108, 55] 0xC1 0o644 =
      ((createFile lkStore lkAdm 4 [122, 122] 0o644).1,
       .ok (handleOn (createFile lkStore lkAdm 4 [122, 122] 0o644).2 [SL, 108, 55] (toOpenMode 0xC1) 0)) := by
  have h := C01_open_via_links lkStore 0 lkAdm lkStore_wf.1 lkAdm_ok lkStore_links [SL, 108, 55] (by decide) 0 0xC1 0o644
  have hw : nameiPath lkStore lkAdm true (absComps lkAdm [SL, 108, 55]) = .missingLast 4 [122, 122] [[97], [122, 122]] := by
    decide +kernel
  have hr : posixOpen lkStore lkAdm (toOpenMode 0xC1) (Res.missingLast 4 [122, 122] [[97], [122, 122]]).toWalk =
      .create 4 [122, 122] := by decide +kernel
  rw [hw] at h
  simp only [hr] at h
  exact ⟨by decide +kernel, by decide +kernel, hw, h⟩

/-- MkdirAll("/l8/x/y") through the chain l8 → "l1" → "/a/b": the resolution stops in the REAL directory /a/b (5, real
    path a/b) on the missing "x" with "y" to come, and both directories are made there -/
example : mkdirAll lkStore lkAdm [SL, 108, 56, SL, 120, SL, 121] 0o755 = (mkChain lkAdm 0o755 lkStore 5 [[120], [121]], .ok .unit) ∧
    walkPath lkStore lkAdm 0 [[97], [98]] = .found 4 5 := by
  have h := C01_mkdirAll_via_links lkStore 0 lkAdm lkStore_wf.1 lkAdm_ok lkStore_links [SL, 108, 56, SL, 120, SL, 121] 0o755
  have hw : nameiPath lkStore lkAdm true (absComps lkAdm [SL, 108, 56, SL, 120, SL, 121]) = .missingDir := by decide +kernel
  have hs : stopPath lkStore lkAdm true (absComps lkAdm [SL, 108, 56, SL, 120, SL, 121]) = some (5, [[97], [98]], [[120], [121]]) := by
    decide +kernel
  have hd : dirPerm lkStore 5 (omWrite ||| omLookup) lkAdm = true := by decide +kernel
  rw [hw] at h
  simp only [hs] at h
  obtain ⟨_, _, _, _, _, heq⟩ := h
  rw [heq]
  simp only [hd, if_true]
  exact ⟨trivial, by decide +kernel⟩

/-- RECORDED DIVERGENCE (ledger class mkdirall.dangling-symlink-on-path): MkdirAll follows the dangling link
    /l6 → "/no/x" and makes the target's directories below the root (0); on the cycle /l4 ↔ /l5 it answers nil and
    changes nothing. os.MkdirAll fails with EEXIST at the link in both cases. -/
theorem C01_mkdirAll_dangling_link :
    nameiPath lkStore lkAdm true (absComps lkAdm [SL, 108, 54]) = .missingDir ∧
    mkdirAll lkStore lkAdm [SL, 108, 54] 0o755 = (mkChain lkAdm 0o755 lkStore 0 [[110, 111], [120]], .ok .unit) ∧
    nameiPath lkStore lkAdm true (absComps lkAdm [SL, 108, 52]) = .loop ∧
    mkdirAll lkStore lkAdm [SL, 108, 52] 0o755 = (lkStore, .ok .unit) := by
  decide +kernel

end Avfs.FS
