import Avfs.Lemmas.OrefaNoPanic
/-
  C07 for OrefaFS — no call of the model returns `.panic` or `.hang`.
  Subject: `Avfs.Orefa.step` (model of vfs/orefafs: orefafs.go, orefafs_internal.go, orefafs_file.go), which returns
  `.panic` exactly where the Go code would slice out of range (SplitAbs on a path without separator, Read / Write with a
  negative offset), dereference a nil node or index a missing map entry, and `.hang` where removeAll would recurse for
  ever (cyclic children maps).  Proofs: Lemmas/OrefaNoPanic.lean.

  The invariant `Orefa.OInv st`:
    * `wf`   : `OWF st.store` (C05: tree ≟ index, link counts, …);
    * `cwd`  : the current directory begins with '/';
    * `hnd`  : every handle in the table points to a node of the heap (the heap never shrinks: a removed file keeps its
               node) and has a non-negative offset;
    * `habs` : the absolute path recorded for a handle when it was opened (File.Chdir) begins with '/'.
  It holds in the state `New` builds and is kept by every call, so it holds in every reachable state.
-/
namespace Avfs.Orefa
open Avfs.Path Avfs.FS

/-- the invariant is inductive: it holds after `orefafs.New()` and every call keeps it -/
theorem C07_orefa_inv_init (uid gid : Int) : OInv (initState uid gid) := OInv_init uid gid

theorem C07_orefa_inv_step {st : OState} (hinv : OInv st) (c : Call) : OInv (step st c).1 := OInv_step hinv c

/-- no call panics or hangs in a state satisfying the invariant: every path-level call, the composites (ReadFile,
    WriteFile, ReadDir, MkdirTemp, CreateTemp) and every handle operation, for ALL arguments (empty / relative / unclean
    paths, the root, a directory and its descendant, identical operands, negative sizes and offsets, huge counts, closed
    handles, handle numbers that were never issued, handles on removed files) -/
theorem C07_orefa_step_no_panic {st : OState} (hinv : OInv st) (c : Call) :
    (step st c).2 ≠ .panic ∧ (step st c).2 ≠ .hang := step_np hinv c

/-- the handle operations alone: any handle that points to an allocated node (or is closed) with a non-negative offset;
    nothing is assumed about the node still having a name, about the flags, the cached listings or the operation -/
theorem C07_orefa_file_no_panic (s : OStore) (v : OView) (h : Handle) (ap : Bytes) (op : FOp)
    (hnd : ∀ i, h.nd = some i → (s.get i).isSome = true) (hpos : 0 ≤ h.pos) :
    (fileStep s v h ap op).2.2.2 ≠ .panic ∧ (fileStep s v h ap op).2.2.2 ≠ .hang :=
  fileStep_np v ⟨hnd, hpos⟩ ap op

/-- … and such a handle stays one, in the resulting store -/
theorem C07_orefa_file_keeps (s : OStore) (v : OView) (h : Handle) (ap : Bytes) (op : FOp)
    (hnd : ∀ i, h.nd = some i → (s.get i).isSome = true) (hpos : 0 ≤ h.pos) :
    (∀ i, (fileStep s v h ap op).2.2.1.nd = some i → ((fileStep s v h ap op).1.get i).isSome = true) ∧
    0 ≤ (fileStep s v h ap op).2.2.1.pos :=
  fileStep_handleOK v ⟨hnd, hpos⟩ ap op

/-- the recursion of RemoveAll ends within its fuel (one more than the number of allocated nodes) in every well-formed
    store: RemoveAll never reports `.hang` — the children maps of a well-formed store have no cycle, the directories on
    the way down are pairwise distinct nodes -/
theorem C07_orefa_removeAll_terminates {s : OStore} (h : OWF s) {Q : Bytes} {c : Ino} (hc : s.at Q = some c)
    (hQe : Q ≠ []) (hQs : Q ≠ [SL]) : ∃ s', removeAllRec (s.next + 1) s Q c = some s' :=
  removeAllRec_total h (s.next + 1) s Q c [] (Rem.refl h) hc (fun _ _ => rfl) hQe hQs List.nodup_nil (by simp) (by simp)

/-- the ancestor loops of Mkdir and MkdirAll end within their fuel and never call SplitAbs on a path without separator -/
theorem C07_orefa_ancestor_loops {s : OStore} (h : OWF s) (dir : Bytes) (hd : Rooted dir) (acc : List Bytes) :
    (ancestorLoop s (dir.length + 2) dir).isSome = true ∧
    (missingChain s (dir.length + 2) dir acc = .panic → False) :=
  ⟨ancestorLoop_some h.rootSome _ dir hd (by omega),
   missingChain_ne_panic h.rootSome _ dir acc (Or.inr hd) (by omega)⟩

/-- no node ever leaves the heap (so a handle on a removed file keeps reading and writing its node) -/
theorem C07_orefa_heap_grows (st : OState) (c : Call) (i : Ino) (h : (st.store.get i).isSome = true) :
    ((step st c).1.store.get i).isSome = true := step_grows st c i h

/-- every reachable state satisfies the invariant -/
theorem C07_orefa_inv_reachable {uid gid : Int} {st : OState} (hr : Reachable uid gid st) : OInv st := OInv_reachable hr

/-- no call in a reachable state panics or hangs -/
theorem C07_orefa_no_panic_reachable {uid gid : Int} {st : OState} (hr : Reachable uid gid st) (c : Call) :
    (step st c).2 ≠ .panic ∧ (step st c).2 ≠ .hang := reachable_np hr c

/-- … in the form of histories: no call of any history from `orefafs.New()` panics or hangs -/
theorem C07_orefa_no_panic_history (uid gid : Int) (cs : List Call) :
    ∀ o ∈ outcomes (initState uid gid) cs, o ≠ .panic ∧ o ≠ .hang :=
  outcomes_np (OInv_init uid gid) cs

/-! ### the side conditions are needed, and met: kernel-checked witnesses -/

/-- `OWF` alone does not exclude a panic: (1) a current directory that is not rooted (Mkdir / RemoveAll / Stat panic in
    SplitAbs), (2) a handle with a negative offset (Read / Write slice out of range), (3) a handle on a node that is not
    in the heap.  None of these states is reachable. -/
theorem C07_orefa_cwd_needed : OWF baseStore ∧ (mkdir baseStore ⟨[], 0, 0, 0⟩ [120] 0o755).2 = .panic ∧
    (removeAll baseStore ⟨[], 0, 0, 0⟩ [120]).2 = .panic ∧ statO baseStore ⟨[], 0, 0, 0⟩ [] = .panic := cwd_needed

theorem C07_orefa_pos_needed :
    let h : Handle := { nd := some 6, name := [47, 97, 47, 102], pos := -1, om := 86, dirEntries := none, dirNames := none,
                        dirIndex := 0, view := 0 }
    OWF exampleState.store ∧ (∀ i, h.nd = some i → Alloc exampleState.store i) ∧
    (fileStep exampleState.store exampleState.view h [47, 97, 47, 102] (.read 1)).2.2.2 = .panic ∧
    (fileStep exampleState.store exampleState.view h [47, 97, 47, 102] (.write [1])).2.2.2 = .panic := pos_needed

theorem C07_orefa_alloc_needed :
    let h : Handle := { nd := some 99, name := [120], pos := 0, om := 86, dirEntries := none, dirNames := none,
                        dirIndex := 0, view := 0 }
    (fileStep baseStore ⟨[SL], 0, 0, 0⟩ h [SL, 120] .sync).2.2.2 = .panic := alloc_needed

/-- non-vacuity: the concrete state `exampleState` (New; MkdirAll /a/b; Create /a/f; Link /a/f /a/g — one open handle)
    satisfies the invariant, and the history `exampleHistory` on it (both names removed, the handle written / sought to a
    negative target / written at a negative offset / read with a huge count / truncated to a negative size, the tree /a
    removed at once, a read far beyond the end, Close twice, a handle never issued, Mkdir "", Stat "", Rename of the
    root) returns exactly these outcomes -/
theorem C07_orefa_example : OInv exampleState ∧
    outcomes exampleState exampleHistory =
      [ .ok .unit, .ok .unit,
        .ok (.num 3 []), .err .EINVAL, .err .negOffset, .ok (.num 0 []),
        .ok (.num 3 [1, 2, 3]), .err .EINVAL, .ok .unit, .errN 0 [] .eof,
        .ok .unit, .err .closed, .err .invalid, .err .ENOENT,
        .ok (.info ⟨[], 0, 0o755, 0, 0, 0, 3, 0, none⟩), .err .EINVAL ] :=
  ⟨exampleState_inv, exampleHistory_outcomes⟩

end Avfs.Orefa
