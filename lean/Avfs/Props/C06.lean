import Avfs.Conc.Theorems
import Avfs.Conc.Facts
import Avfs.Generated.Locks
/-
  C06 — concurrent namespace operations are linearizable (proved part: operations that are ONE critical section).
-/
namespace Avfs.Conc
open Avfs.Generated

/-- generic: when every access happens while one common lock is held exclusively, critical sections of different
    threads never interleave — the execution is the sequential execution of the sections in lock-acquisition order,
    which respects real time (a section lies between its call's invocation and return) -/
theorem C06_atomic_sections_serial {T L X : Type} [DecidableEq T] [DecidableEq L] (L0 : L) (tr : List (Ev T L X))
    (hacc : ∀ (n : Nat) (h : n < tr.length) (t : T), (tr[n]).isAccessBy t → holdsAfter (tr.take n) t .w L0)
    (i k j : Nat) (hik : i < k) (hkj : k < j) (hj : j < tr.length) (t : T)
    (hai : tr[i].isAccessBy t) (haj : tr[j].isAccessBy t)
    (hnorel : ∀ (n : Nat) (h : n < tr.length), i < n → n < j → tr[n] ≠ .rel t .w L0)
    (t' : T) (htt : t' ≠ t) : ¬ tr[k].isAccessBy t' :=
  atomic_sections_serial L0 tr hacc i k j hik hkj hj t hai haj hnorel t' htt

/-- instantiation, re-decided on the regenerated lock facts: these operations touch guarded state only inside one
    section on one lock (exclusive for mutators, shared for lookups) -/
theorem C06_single_section_orefafs :
    (["OrefaFS.Mkdir", "OrefaFS.MkdirAll", "OrefaFS.Remove", "OrefaFS.RemoveAll"].all fun f =>
      singleSection lockFns lockFacts "orefafs" f "vfs#mu" true) = true := by decide +kernel

theorem C06_single_section_memidm :
    ((["MemIdm.AddGroup", "MemIdm.DelGroup"].all fun f => singleSection lockFns lockFacts "memidm" f "idm#grpMu" true) &&
     (["MemIdm.DelUser"].all fun f => singleSection lockFns lockFacts "memidm" f "idm#usrMu" true) &&
     (["MemIdm.LookupGroup", "MemIdm.LookupGroupId"].all fun f => singleSection lockFns lockFacts "memidm" f "idm#grpMu" false) &&
     (["MemIdm.LookupUser", "MemIdm.LookupUserId"].all fun f => singleSection lockFns lockFacts "memidm" f "idm#usrMu" false)) = true := by
  decide +kernel

/-- AddUser is NOT one section (LookupGroup, then the user section): recorded finding — kernel-checked witness -/
theorem C06_addUser_two_sections :
    (singleSection lockFns lockFacts "memidm" "MemIdm.AddUser" "idm#usrMu" true ||
     singleSection lockFns lockFacts "memidm" "MemIdm.AddUser" "idm#grpMu" false) = false := by decide +kernel

end Avfs.Conc
