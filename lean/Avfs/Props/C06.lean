import Avfs.Conc.Theorems
import Avfs.Conc.Facts
import Avfs.Generated.Locks
import Avfs.Conc.Allowed
import Avfs.Lemmas.Lin
import Avfs.Lemmas.LinRefine
/-
  C06 — concurrent namespace operations are linearizable.
  Proved: (1) operations that are ONE critical section (OrefaFS Mkdir/MkdirAll/Remove/RemoveAll, MemIdm but AddUser);
  (2) two-phase operations (unlocked walk, commit under the parent's lock) whose commit is the sequential specification
  on the state it finds: any number of threads, calls and steps (`C06_two_phase_linearizable`), instantiated for MemFS
  Mkdir / exclusive create / Remove on leaf names of directories that are not themselves removed or renamed during the
  run (`C06_memfs_leaf_ops_linearizable`); the shape of the Go functions that makes the commit independent of the walk
  is re-decided on the regenerated facts (`C06_commit_fresh_memfs`, `C06_stale_sites`).
  Not proved (recorded findings): Link / Symlink / Rename / RemoveAll commits rely on the walk; calls below a directory
  that another call removes (MemFS has no "dead directory" mark).
-/
namespace Avfs.Conc
open Avfs.Generated

/-- generic: when every access happens while one common lock is held exclusively, critical sections of different
    threads never interleave — the execution is the sequential execution of the sections in lock-acquisition order,
    which respects real time (a section lies between its call's invocation and return) -/
theorem C06_atomic_sections_serial {T L X : Type} [DecidableEq T] [DecidableEq L] (L0 : L) (tr : List (Ev T L X))
    (hacc : ∀ (n : Nat) (h : n < tr.length) (t : T), (tr[n]).isAccessBy t → holdsAfter (tr.take n) t .w L0)
    (i k j : Nat) (hik : i < k) (hkj : k < j) (hj : j < tr.length) (t : T)
    (hai : tr[i].isAccessBy t) (haj : tr[j].isAccessBy t)
    (hnorel : ∀ (n : Nat) (h : n < tr.length), i < n → n < j → tr[n] ≠ .rel t .w L0)
    (t' : T) (htt : t' ≠ t) : ¬ tr[k].isAccessBy t' :=
  atomic_sections_serial L0 tr hacc i k j hik hkj hj t hai haj hnorel t' htt

/-- instantiation, re-decided on the regenerated lock facts: these operations touch guarded state only inside one
    section on one lock (exclusive for mutators, shared for lookups) -/
theorem C06_single_section_orefafs :
    (["OrefaFS.Mkdir", "OrefaFS.MkdirAll", "OrefaFS.Remove", "OrefaFS.RemoveAll"].all fun f =>
      singleSection lockFns lockFacts "orefafs" f "vfs#mu" true) = true := by decide +kernel

theorem C06_single_section_memidm :
    ((["MemIdm.AddGroup", "MemIdm.DelGroup"].all fun f => singleSection lockFns lockFacts "memidm" f "idm#grpMu" true) &&
     (["MemIdm.DelUser"].all fun f => singleSection lockFns lockFacts "memidm" f "idm#usrMu" true) &&
     (["MemIdm.LookupGroup", "MemIdm.LookupGroupId"].all fun f => singleSection lockFns lockFacts "memidm" f "idm#grpMu" false) &&
     (["MemIdm.LookupUser", "MemIdm.LookupUserId"].all fun f => singleSection lockFns lockFacts "memidm" f "idm#usrMu" false)) = true := by
  decide +kernel

/-- AddUser is NOT one section (LookupGroup, then the user section): recorded finding — kernel-checked witness -/
theorem C06_addUser_two_sections :
    (singleSection lockFns lockFacts "memidm" "MemIdm.AddUser" "idm#usrMu" true ||
     singleSection lockFns lockFacts "memidm" "MemIdm.AddUser" "idm#grpMu" false) = false := by decide +kernel

/-! ### two-phase operations -/

/-- Linearizability of two-phase operations, for every number of threads, every program and every schedule -/
theorem C06_two_phase_linearizable {σ α ω ρ : Type} (impl : α → Lin.TwoPhase σ ω ρ) (spec : α → σ → σ × ρ) (I : σ → Prop)
    (hI : ∀ a s, I s → I (spec a s).1)
    (hW : ∀ a s r, I s → (impl a).walk s = .inl r → spec a s = (s, r))
    (hC : ∀ a w s s0, I s → I s0 → (impl a).walk s0 = .inr w → (impl a).commit w s = spec a s)
    (s : σ) (hs : I s) (progs : List (List α)) (sched : List Nat) :
    (Lin.run impl (Lin.init s progs) sched).1.sh =
      (Lin.seqRun spec s (fun _ => []) (Lin.run impl (Lin.init s progs) sched).2).1 ∧
    (Lin.run impl (Lin.init s progs) sched).1.ths.length = progs.length ∧
    (∀ t th, (Lin.run impl (Lin.init s progs) sched).1.ths[t]? = some th →
      th.done = (Lin.seqRun spec s (fun _ => []) (Lin.run impl (Lin.init s progs) sched).2).2 t ∧
      ∃ p, progs[t]? = some p ∧ Lin.callsOf t (Lin.run impl (Lin.init s progs) sched).2 ++ th.todo = p) :=
  Lin.linearizable impl spec I hI hW hC s hs progs sched

/-- MemFS Mkdir / OpenFile(O_CREATE|O_EXCL) / Remove on leaf names of a stable directory -/
theorem C06_memfs_leaf_ops_linearizable (d : Lin.Dir) (progs : List (List Lin.DOp)) (sched : List Nat) :
    (Lin.run (Lin.dimpl true) (Lin.init d progs) sched).1.sh =
      (Lin.seqRun Lin.dspec d (fun _ => []) (Lin.run (Lin.dimpl true) (Lin.init d progs) sched).2).1 ∧
    (∀ t th, (Lin.run (Lin.dimpl true) (Lin.init d progs) sched).1.ths[t]? = some th →
      th.done = (Lin.seqRun Lin.dspec d (fun _ => []) (Lin.run (Lin.dimpl true) (Lin.init d progs) sched).2).2 t ∧
      ∃ p, progs[t]? = some p ∧ Lin.callsOf t (Lin.run (Lin.dimpl true) (Lin.init d progs) sched).2 ++ th.todo = p) :=
  Lin.memfs_leaf_ops_linearizable d progs sched

/-- non-vacuity: a concrete three-thread run of the model decides all its calls -/
example : ((Lin.run (Lin.dimpl true) (Lin.init Lin.staleDir [[.mkdir [3]], [.remove [7]], [.createExcl [3]]]) [0, 2, 1, 0, 2, 1]).1.ths.map (·.done))
    = [[.ok], [.ok], [.eexist]] := by decide

/-- the tie to the Go source: Mkdir and Remove commit on what they find under the lock (walk, one commit lock, every
    mutation preceded by a look-up under the lock, nothing captured by the walk used afterwards); OpenFile's creating
    branch looks the entry up again before createFile -/
theorem C06_commit_fresh_memfs :
    ((["MemFS.Mkdir", "MemFS.Remove"].all (commitFresh lockFacts)) &&
     commitFreshCreate lockFacts "MemFS.OpenFile" "child") = true := by decide +kernel

/-- every other commit that relies on the walk is a listed site (recorded findings but OpenFile's open of an existing node) -/
theorem C06_stale_sites : sameSet (staleSites lockFacts) expectedStale = true := by decide +kernel

/-- the defect repaired in MemFS.Remove (it released the node captured by the walk): kernel-checked counter-schedule of
    the old commit, and the same schedule with the repaired one -/
theorem C06_stale_remove_not_linearizable :
    ∀ log ∈ Lin.interleave2 [.remove [7]] [.remove [7], .createExcl [7]],
      ¬ ((Lin.seqRun Lin.dspec Lin.staleDir (fun _ => []) log).1 =
            (Lin.run (Lin.dimpl false) (Lin.init Lin.staleDir Lin.staleProgs) Lin.staleSched).1.sh ∧
         (Lin.seqRun Lin.dspec Lin.staleDir (fun _ => []) log).2 0 = [.ok] ∧
         (Lin.seqRun Lin.dspec Lin.staleDir (fun _ => []) log).2 1 = [.ok, .ok]) :=
  Lin.stale_remove_not_linearizable

theorem C06_fresh_remove_same_schedule :
    AL.lookup 1 (Lin.run (Lin.dimpl true) (Lin.init Lin.staleDir Lin.staleProgs) Lin.staleSched).1.sh.nlink = some 1 :=
  Lin.fresh_remove_same_schedule

/-! ### the abstract directory is what the sequential MemFS model does (Lemmas/LinRefine.lean)

  `Sim s d D`: the entries of directory `d` in the heap are those of `D` (names, nodes, kinds), its directory entries are
  empty and none is a symbolic link (leaf assumption), link counts agree, both allocate the same next number.
  `Setting`: invariant `WF`, an administrator's view, `d` reached by the components `a`. -/

/-- every schedule of a concurrent two-phase execution of Mkdir / exclusive create / Remove on leaf names of `d`: the
    results of every thread are the outcomes the sequential MemFS MODEL returns when the decided calls run in
    decisive-step order from the heap `s`, the final abstract directory is the final heap's, program order is kept -/
theorem C06_memfs_concurrent_refines {s : FS.Store} {root par d : FS.Ino} {v : FS.View} {a : List Bytes} {D : Lin.Dir}
    (h : FS.Setting s root v a par d) (hsim : FS.Sim s d D)
    (vid perm : Nat) (progs : List (List Lin.DOp)) (hprogs : ∀ p ∈ progs, ∀ op ∈ p, FS.ValidComp (FS.opName op))
    (sched : List Nat) :
    let fin := (Lin.run (Lin.dimpl true) (Lin.init D progs) sched).1
    let log := (Lin.run (Lin.dimpl true) (Lin.init D progs) sched).2
    let mem := FS.memRun v vid a perm (log.map (·.2)) s
    FS.Sim mem.2 d fin.sh ∧ FS.Setting mem.2 root v a par d ∧
    ∀ t th, fin.ths[t]? = some th →
      th.done.map some = (FS.resultsOf t log mem.1).map FS.absOut ∧
      ∃ p, progs[t]? = some p ∧ Lin.callsOf t log ++ th.todo = p :=
  FS.memfs_concurrent_refines h hsim vid perm progs hprogs sched

end Avfs.Conc
