import Avfs.Path.Spec
import Avfs.Lemmas.WinPath
/-
  C13 (Windows part) — laws of the emulated WINDOWS path functions (`os = .windows`) of `Avfs.Path`
  (transliteration of vfs_ostype_on.go for `avfs.OsWindows`, Go 1.23 rules), for ALL byte strings.
  The tie of the model to Go's own Windows path/filepath is the differential run (corr winfp); the laws below are
  kernel-checked consequences of the model.  Where an "obvious" law is false, the smallest counterexample is a
  kernel-checked witness (`C13_win_*_cex`) and the corrected law is proved.
-/
namespace Avfs.Path

/-! ### 1. VolumeName -/

/-- The volume name is a prefix of the path. -/
theorem C13_win_volumeNameLen_le (p : Bytes) : volumeNameLen .windows p ≤ p.length := volumeNameLen_le .windows p

/-- VolumeNameLen does not distinguish '/' from '\\'. -/
theorem C13_win_volumeNameLen_fromSlash (p : Bytes) :
    volumeNameLen .windows (fromSlash .windows p) = volumeNameLen .windows p := volumeNameLen_fromSlash p

/-- VolumeName (the '\\'-normalised volume prefix) has the length VolumeNameLen, contains no '/', and is the same
    for `p` and `FromSlash p`. -/
theorem C13_win_volumeName (p : Bytes) :
    (volumeName .windows p).length = volumeNameLen .windows p ∧ SL ∉ volumeName .windows p ∧
    volumeName .windows (fromSlash .windows p) = volumeName .windows p :=
  ⟨volumeName_length p, volumeName_no_SL p, volumeName_fromSlash p⟩

/-! ### 2. FromSlash / ToSlash -/

theorem C13_win_fromSlash_idem (p : Bytes) :
    fromSlash .windows (fromSlash .windows p) = fromSlash .windows p := fromSlash_idem_win p

/-- ToSlash ∘ FromSlash = ToSlash, for every byte string. -/
theorem C13_win_toSlash_fromSlash (p : Bytes) :
    toSlash .windows (fromSlash .windows p) = toSlash .windows p := toSlash_fromSlash_win p

/-- FromSlash maps exactly '/' to '\\', position by position; its result has no '/'; it is the identity exactly on
    the strings without '/'. -/
theorem C13_win_fromSlash_pointwise (p : Bytes) :
    (∀ i : Nat, (fromSlash .windows p)[i]? = (p[i]?).map (fun c => if c = SL then BS else c)) ∧
    SL ∉ fromSlash .windows p ∧ (fromSlash .windows p = p ↔ SL ∉ p) :=
  ⟨fromSlash_getElem_win p, fromSlash_no_SL p, fromSlash_eq_self_iff p⟩

/-! ### 3. Clean -/

/-- Clean on Windows in closed form, reusing the Linux development: with a non-empty rest `c :: rest` after the
    volume name, `Clean p = VolumeName p ++ pre ++ FromSlash (Spec.clean (ToSlash rest))`, where `Spec.clean` is the
    component semantics proved equal to Clean on Linux and `pre` ∈ {"", ".\\", "\\."} is what postClean prepends
    (nothing when there is a volume name). -/
theorem C13_win_clean_closed_form (p : Bytes) (c : UInt8) (rest : Bytes)
    (h : p.drop (volumeNameLen .windows p) = c :: rest) :
    clean .windows p = volumeName .windows p
      ++ postPre (volumeNameLen .windows p) (cleanBuf .windows c rest)
      ++ (Spec.clean ((c :: rest).map tsC)).map fsC ∧
    (postPre (volumeNameLen .windows p) (cleanBuf .windows c rest) = [] ∨
     postPre (volumeNameLen .windows p) (cleanBuf .windows c rest) = [DOT, BS] ∨
     postPre (volumeNameLen .windows p) (cleanBuf .windows c rest) = [BS, DOT]) ∧
    (volumeNameLen .windows p ≠ 0 → postPre (volumeNameLen .windows p) (cleanBuf .windows c rest) = []) ∧
    (COLON ∉ c :: rest → QM ∉ c :: rest → postPre (volumeNameLen .windows p) (cleanBuf .windows c rest) = []) :=
  ⟨clean_win_eq p c rest h, postPre_cases _ _, postPre_of_vol _ _, postPre_nil_of_no_colon_qm _ c rest⟩

/-- Clean of a path that is only a volume name: FromSlash if it starts with two separators, else `p ++ "."`. -/
theorem C13_win_clean_volonly (p : Bytes) (h : p.drop (volumeNameLen .windows p) = []) :
    clean .windows p =
      if volumeNameLen .windows p > 1 && twoSeps p then fromSlash .windows p else p ++ [DOT] := clean_win_nil p h

/-- Clean never returns "". -/
theorem C13_win_clean_ne_nil (p : Bytes) : clean .windows p ≠ [] := clean_ne_nil_win p

/-- CORRECTED law "the result of Clean contains no '/'": exactly the bare volumes that do not start with two
    separators and contain a '/' keep it. -/
theorem C13_win_clean_SL_iff (p : Bytes) :
    SL ∈ clean .windows p ↔
      (volumeNameLen .windows p = p.length ∧ ¬ (volumeNameLen .windows p > 1 ∧ twoSeps p = true) ∧ SL ∈ p) :=
  clean_SL_iff p

theorem C13_win_clean_SL_cex : clean .windows [SL, COLON] = [SL, COLON, DOT] := clean_SL_cex

/-- CORRECTED law "Clean is idempotent": for every `CleanStable` path (see its definition; each excluded class has a
    kernel-checked counterexample below). -/
theorem C13_win_clean_idem (p : Bytes) (h : CleanStable p) :
    clean .windows (clean .windows p) = clean .windows p := clean_idem_win p h

/-- … in particular for every drive path `X:…` (absolute `C:\\a`, relative `C:a`), for all bytes. -/
theorem C13_win_clean_idem_drive (c0 c : UInt8) (rest : Bytes) :
    clean .windows (clean .windows (c0 :: COLON :: c :: rest)) = clean .windows (c0 :: COLON :: c :: rest) :=
  clean_idem_drive c0 c rest

/-- … and for every path without volume name, ':' and '?'. -/
theorem C13_win_clean_idem_novol (p : Bytes) (hv : volumeNameLen .windows p = 0) (h1 : COLON ∉ p) (h2 : QM ∉ p) :
    clean .windows (clean .windows p) = clean .windows p := clean_idem_novol p hv h1 h2

theorem C13_win_clean_idem_cex_drive :
    clean .windows [SL, COLON] = [SL, COLON, DOT] ∧ clean .windows [SL, COLON, DOT] = [BS, COLON, DOT] :=
  clean_idem_cex_drive
theorem C13_win_clean_idem_cex_device :
    clean .windows [BS, QM, QM, BS, 97] = [BS, QM, QM, BS, 97, DOT] ∧
    clean .windows [BS, QM, QM, BS, 97, DOT] = [BS, QM, QM, BS, 97, DOT, DOT] := clean_idem_cex_device
theorem C13_win_clean_idem_cex_stale_colon :
    clean .windows [DOT, SL, 97, COLON, 66, SL, DOT, DOT] = [DOT, BS, DOT] ∧
    clean .windows [DOT, BS, DOT] = [DOT] := clean_idem_cex_stale_colon
theorem C13_win_clean_idem_cex_stale_qm :
    clean .windows [SL, DOT, SL, 97, QM, SL, DOT, DOT, SL, QM] = [BS, DOT, BS, QM] ∧
    clean .windows [BS, DOT, BS, QM] = [BS, QM] := clean_idem_cex_stale_qm

/-- VolumeName of a cleaned path: Clean keeps "no volume name" for paths without ':' / '?', and keeps a drive. -/
theorem C13_win_clean_volume (p : Bytes) :
    (volumeNameLen .windows p = 0 → COLON ∉ p → QM ∉ p → volumeNameLen .windows (clean .windows p) = 0) ∧
    (∀ c0 c rest, p = c0 :: COLON :: c :: rest → volumeNameLen .windows (clean .windows p) = 2) :=
  ⟨volumeNameLen_clean_novol p, fun c0 c rest e => e ▸ volumeNameLen_clean_drive c0 c rest⟩

/-- The wrong assumption behind the seeded `Rel` defect — "Clean never changes what VolumeName sees" — is false in
    both directions: Clean can create a volume name ("/./:" → "\\:") and lose one ("/??" → "/??."). -/
theorem C13_win_clean_volume_cex :
    (volumeNameLen .windows [SL, DOT, SL, COLON] = 0 ∧
      clean .windows [SL, DOT, SL, COLON] = [BS, COLON] ∧
      volumeNameLen .windows (clean .windows [SL, DOT, SL, COLON]) = 2 ∧
      clean .windows [BS, COLON] = [BS, COLON, DOT]) ∧
    (volumeNameLen .windows [SL, QM, QM] = 3 ∧
      clean .windows [SL, QM, QM] = [SL, QM, QM, DOT] ∧
      volumeNameLen .windows [SL, QM, QM, DOT] = 0) :=
  ⟨clean_volume_cex, clean_volume_cex_lost⟩

/-! ### 4. IsAbs -/

/-- IsAbs on Windows ⇔ there is a volume name and (the path starts with two separators, or a separator follows the
    volume name). -/
theorem C13_win_isAbs_iff (p : Bytes) :
    isAbs .windows p = true ↔
      0 < volumeNameLen .windows p ∧
        (twoSeps p = true ∨ ∃ c r, p.drop (volumeNameLen .windows p) = c :: r ∧ isSlash c = true) := isAbs_win_iff p

/-- CORRECTED law "IsAbs (Clean p) = IsAbs p": holds for paths without volume name, ':' and '?'; false in general. -/
theorem C13_win_isAbs_clean_novol (p : Bytes) (hv : volumeNameLen .windows p = 0) (h1 : COLON ∉ p) (h2 : QM ∉ p) :
    isAbs .windows (clean .windows p) = isAbs .windows p := isAbs_clean_novol p hv h1 h2

theorem C13_win_isAbs_clean_cex :
    isAbs .windows [SL, DOT, SL, COLON, SL, 97] = false ∧
    clean .windows [SL, DOT, SL, COLON, SL, 97] = [BS, COLON, BS, 97] ∧
    isAbs .windows [BS, COLON, BS, 97] = true := isAbs_clean_cex

/-- … and for every drive path `X:…` with a non-empty rest (where IsAbs p = "a separator follows the drive"). -/
theorem C13_win_isAbs_clean_drive (c0 c : UInt8) (rest : Bytes) :
    isAbs .windows (clean .windows (c0 :: COLON :: c :: rest)) = isAbs .windows (c0 :: COLON :: c :: rest) ∧
    isAbs .windows (c0 :: COLON :: c :: rest) = isSlash c :=
  ⟨isAbs_clean_drive c0 c rest, isAbs_drive c0 c rest⟩

/-! ### 7. Abs -/

/-- Abs of an absolute drive path `X:\\…` (any current directory): the result is absolute and Abs is idempotent. -/
theorem C13_win_abs_drive (c0 c : UInt8) (rest cur : Bytes) (h : isSlash c = true) :
    isAbs .windows (abs .windows (c0 :: COLON :: c :: rest) cur) = true ∧
    abs .windows (abs .windows (c0 :: COLON :: c :: rest) cur) cur = abs .windows (c0 :: COLON :: c :: rest) cur :=
  abs_drive c0 c rest cur h

/-! ### 5. Join -/

/-- Join of two elements = Clean of Go's pre-join (`joinW2`: the documented rules of joinWindows), "" if empty. -/
theorem C13_win_join_two (a b : Bytes) :
    join .windows [a, b] = if joinW2 a b = [] then [] else clean .windows (joinW2 a b) := join_two_win a b

/-- the main rule: `a` non-empty, not ending in a separator or ':' ⇒ `Clean (a ++ "\\" ++ b)` -/
theorem C13_win_join_sep (a b : Bytes) (l : UInt8) (hl : a.getLast? = some l) (h1 : isSlash l = false)
    (h2 : l ≠ COLON) : join .windows [a, b] = clean .windows (a ++ BS :: b) := join_two_win_sep a b l hl h1 h2

/-- a bare drive: `C:` + `a` = `C:a` (no separator inserted) -/
theorem C13_win_join_colon (a b : Bytes) (hl : a.getLast? = some COLON) :
    join .windows [a, b] = clean .windows (a ++ b) := join_two_win_colon a b hl

/-- a first element ending in a separator: leading separators of the second are dropped (no UNC path arises) -/
theorem C13_win_join_trailing (a b : Bytes) (l : UInt8) (hl : a.getLast? = some l) (h1 : isSlash l = true)
    (h2 : a.length ≠ 1 ∨ hasPrefixFoldQQ (b.dropWhile isSlash) = false) :
    join .windows [a, b] = clean .windows (a ++ b.dropWhile isSlash) := join_two_win_trailing a b l hl h1 h2

/-- `\\` + `??…`: `.\\` is inserted so that no `\\??\\` device prefix arises -/
theorem C13_win_join_qq (s : UInt8) (b : Bytes) (h1 : isSlash s = true)
    (h2 : hasPrefixFoldQQ (b.dropWhile isSlash) = true) :
    join .windows [[s], b] = clean .windows ([s, DOT, BS] ++ b.dropWhile isSlash) := join_two_win_qq s b h1 h2

theorem C13_win_join_nil (b : Bytes) : join .windows [[], b] = if b = [] then [] else clean .windows b :=
  join_two_win_nil b

/-! ### 6. Split -/

/-- Split: `dir ++ file = path`, the file part contains no '\\' or '/', the dir part contains the volume name. -/
theorem C13_win_split (p : Bytes) :
    (split .windows p).1 ++ (split .windows p).2 = p ∧
    (∀ c ∈ (split .windows p).2, isSlash c = false) ∧
    volumeNameLen .windows p ≤ (split .windows p).1.length :=
  ⟨split_append_win p, split_file_nosep_win p, split_dir_vol_win p⟩

/-! ### Non-vacuity: the hypotheses are met and the conclusions are non-trivial on interesting inputs
    (kernel-checked; drive-relative `C:foo`, UNC, device paths, mixed separators) -/
section Examples
private def s (x : String) : Bytes := Bytes.ofString x

example : volumeNameLen .windows (s "C:foo") = 2 ∧ volumeNameLen .windows (s "//host/share/x") = 12 ∧
    volumeNameLen .windows (s "\\\\.\\C:\\x") = 6 ∧ volumeNameLen .windows (s "\\\\?\\UNC\\h\\s\\x") = 7 ∧
    volumeNameLen .windows (s "\\??\\C:\\x") = 6 ∧ volumeNameLen .windows (s "\\\\.\\UNC\\h\\s\\x") = 11 := by
  decide +kernel

example : volumeName .windows (s "//host/share/x") = s "\\\\host\\share" := by decide +kernel

/-- drive-relative path with mixed separators: covered by `C13_win_clean_idem_drive` -/
example : clean .windows (s "C:foo/..\\bar/./baz") = s "C:bar\\baz" ∧ CleanStable (s "C:foo/..\\bar/./baz") := by
  refine ⟨by decide +kernel, ?_⟩
  have e : s "C:foo/..\\bar/./baz" = 67 :: COLON :: 102 :: s "oo/..\\bar/./baz" := by decide +kernel
  rw [e]; exact cleanStable_drive _ _ _

/-- UNC path with mixed separators: CleanStable, Clean is idempotent, the volume name is kept -/
example : CleanStable (s "//host/share/a/../b") ∧ clean .windows (s "//host/share/a/../b") = s "\\\\host\\share\\b" :=
  ⟨cleanStable_of_vol _ (by decide +kernel) (by decide +kernel) (by decide +kernel), by decide +kernel⟩

/-- device paths -/
example : CleanStable (s "\\\\.\\C:/x/./y") ∧ clean .windows (s "\\\\.\\C:/x/./y") = s "\\\\.\\C:\\x\\y" :=
  ⟨cleanStable_of_vol _ (by decide +kernel) (by decide +kernel) (by decide +kernel), by decide +kernel⟩
example : CleanStable (s "\\??\\C:\\a\\..\\b") ∧ clean .windows (s "\\??\\C:\\a\\..\\b") = s "\\??\\C:\\b" :=
  ⟨cleanStable_of_vol _ (by decide +kernel) (by decide +kernel) (by decide +kernel), by decide +kernel⟩

/-- a relative path without volume name -/
example : CleanStable (s "a/../..\\b/.") ∧ clean .windows (s "a/../..\\b/.") = s "..\\b" :=
  ⟨cleanStable_of_novol _ (by decide +kernel) (by decide +kernel) (by decide +kernel), by decide +kernel⟩

/-- only a volume name -/
example : CleanStable (s "//host/share") ∧ clean .windows (s "//host/share") = s "\\\\host\\share" :=
  ⟨⟨fun h => absurd h (by decide +kernel), fun _ h => absurd h (by decide +kernel),
    fun _ _ => Or.inl (by decide +kernel)⟩, by decide +kernel⟩
example : CleanStable (s "C:") ∧ clean .windows (s "C:") = s "C:." :=
  ⟨⟨fun h => absurd h (by decide +kernel), fun _ h => absurd h (by decide +kernel),
    fun _ _ => Or.inr (Or.inl ⟨67, by decide, by decide +kernel⟩)⟩, by decide +kernel⟩

/-- postClean at work (closed form with a non-empty prefix): `a/../c:` stays relative -/
example : clean .windows (s "a/../c:") = s ".\\c:" ∧ clean .windows (s "\\a\\..\\??\\c:\\x") = s "\\.\\??\\c:\\x" := by
  decide +kernel

/-- IsAbs -/
example : isAbs .windows (s "C:\\a") = true ∧ isAbs .windows (s "C:a") = false ∧ isAbs .windows (s "\\a") = false ∧
    isAbs .windows (s "//host/share") = true ∧ isAbs .windows (s "\\??\\C:\\x") = true := by decide +kernel

/-- Abs -/
example : abs .windows (s "C:/a/../b") (s "D:\\cur") = s "C:\\b" ∧ abs .windows (s "x\\y") (s "D:\\cur") = s "D:\\cur\\x\\y" ∧
    abs .windows (s "C:x") (s "D:\\cur") = s "D:\\cur\\C:x" := by decide +kernel

/-- Join -/
example : join .windows [s "C:", s "a"] = s "C:a" ∧ join .windows [s "C:\\x", s "..\\y"] = s "C:\\y" ∧
    join .windows [s "\\", s "\\host\\share"] = s "\\host\\share" ∧
    join .windows [s "\\", s "??\\c:\\x"] = s "\\.\\??\\c:\\x" ∧
    join .windows [s "//host", s "share"] = s "\\\\host\\share" ∧
    join .windows [s "a", []] = s "a" ∧ join .windows [s "//a", []] = s "\\\\a\\" := by decide +kernel

/-- Split -/
example : split .windows (s "C:foo") = (s "C:", s "foo") ∧ split .windows (s "//host/share/a\\b") = (s "//host/share/a\\", s "b") ∧
    split .windows (s "\\\\host\\share") = (s "\\\\host\\share", []) := by decide +kernel

end Examples

end Avfs.Path
