import Avfs.Lemmas.StepFacts
import Avfs.Lemmas.WFRemove
import Avfs.Lemmas.SubSim
/-
  C11 — a Sub view shows exactly its subtree and keeps its own user, umask and cwd.
  Subject: views of the MemFS model (`FSState.views` over one shared `Store`, as `subFS := *vfs` copies them).
-/
namespace Avfs.FS
open Avfs.Path

/-- setting the user, umask or working directory of a view — or issuing any other call through it — never changes the
    user, umask, root or working directory of another view -/
theorem C11_view_isolation (st : FSState) (vid w : Nat) (c : Call) (hw : w ≠ vid) (hfresh : w < st.nextView)
    (hf : ∀ hid op, c ≠ .file hid op) : (step st vid c).1.view w = st.view w :=
  step_view_isolation st vid w c hw hfresh hf

/-- a handle operation only touches the view the handle was opened through -/
theorem C11_handle_view_isolation (st : FSState) (vid w hid : Nat) (op : FOp) (h : Handle)
    (hh : st.handle hid = some h) (hw : w ≠ h.view) : (step st vid (.file hid op)).1.view w = st.view w :=
  step_file_view_isolation st vid w hid op h hh hw

/-- SetUser / SetUMask / Chdir change view state only: the shared tree is untouched -/
theorem C11_view_setters_keep_tree (st : FSState) (vid : Nat) :
    (∀ u g a, (step st vid (.setUser u g a)).1.store = st.store) ∧
    (∀ m, (step st vid (.setUMask m)).1.store = st.store) ∧
    (∀ p, (step st vid (.chdir p)).1.store = st.store) :=
  ⟨fun u g a => (step_setUser_store st vid u g a).1, fun m => (step_setUMask_store st vid m).1,
   fun p => (step_chdir_store st vid p).1⟩

/-- the tree is shared: a call through any view acts on the one store, so its effect is what every other view sees
    (views hold no copy of the tree) -/
theorem C11_shared_tree (st : FSState) (vid : Nat) (c : Call) (w : Nat) (v : View) (hv : (step st vid c).1.view w = some v) (p : Bytes) :
    (step (step st vid c).1 w (.lstat p)).2 = (stat (step st vid c).1.store v p .lstat).2 := by
  rw [step_some _ _ _ _ hv]; rfl

/-- every walk through a view that hangs in the tree returns a parent that hangs in the tree (so nothing is created
    in a detached directory) -/
theorem C11_walk_attached (s : Store) (v : View) (root : Ino) (hv : v.root = root ∨ ∃ d n, Edge s d n v.root)
    (p : Bytes) (m : SlMode) :
    (searchNode s v p m).parent = root ∨ ∃ q qn, Edge s q qn (searchNode s v p m).parent :=
  hr_searchNode_parent_attached s v root hv p m

/-! ### sub_sim: a view behaves as its parent on the prefixed path (paths that meet no symbolic link)

  `subView v c` is what Sub returns for the directory node `c` (same user and umask, root `c`, working directory "/");
  `a` are the components of the directory given to Sub, resolved by the parent to `c` (`ha`); `b ≠ []` are the components
  of the path used through the view. The escape `… = .viaLink` covers symbolic links below the view root. The
  directories above `c` are searched only through the parent: `ha` says the caller may. -/

/-- resolution: same error class; same parent and child nodes once the view root itself may be searched
    (`sub_sim_search_cex`: when it may not, both walks answer EACCES but stop at different nodes) -/
theorem C11_sub_sim_search (s : Store) (root : Ino) (v : View) (hwf : WF s root) (hn : NamesOK s) (hv : ViewOK s v)
    (hroot : v.root = root) (a b : List Bytes) (hb : b ≠ [])
    (hall : ∀ x ∈ a ++ b, x ≠ [] ∧ ∀ y ∈ x, y ≠ SL) (hdots : ∀ x ∈ a ++ b, x ≠ [DOT] ∧ x ≠ [DOT, DOT])
    (par c : Ino) (mt : Meta) (ch : List (Bytes × Ino))
    (ha : walkPath s v root a = .found par c) (hc : s.get c = some (.dir mt ch)) (m : SlMode) :
    let rv := searchNode s (subView v c) (SL :: joinWith SL b) m
    let rp := searchNode s v (SL :: joinWith SL (a ++ b)) m
    walkPath s v root (a ++ b) = .viaLink ∨
      (rv.err = rp.err ∧ (checkPerm mt omLookup v = true → rv.child = rp.child ∧ rv.parent = rp.parent)) :=
  sub_sim_search s root v hwf hn hv hroot a b hb hall hdots par c mt ch ha hc m

/-- Mkdir through the view = Mkdir through the parent on the prefixed path: same outcome, same resulting heap -/
theorem C11_sub_sim_mkdir (s : Store) (root : Ino) (v : View) (hwf : WF s root) (hn : NamesOK s) (hv : ViewOK s v)
    (hroot : v.root = root) (a b : List Bytes) (hb : b ≠ [])
    (hall : ∀ x ∈ a ++ b, x ≠ [] ∧ ∀ y ∈ x, y ≠ SL) (hdots : ∀ x ∈ a ++ b, x ≠ [DOT] ∧ x ≠ [DOT, DOT])
    (par c : Ino) (mt : Meta) (ch : List (Bytes × Ino))
    (ha : walkPath s v root a = .found par c) (hc : s.get c = some (.dir mt ch)) (perm : Nat) :
    walkPath s v root (a ++ b) = .viaLink ∨
    mkdir s (subView v c) (SL :: joinWith SL b) perm = mkdir s v (SL :: joinWith SL (a ++ b)) perm :=
  sub_sim_mkdir s root v hwf hn hv hroot a b hb hall hdots par c mt ch ha hc perm

theorem C11_sub_sim_remove (s : Store) (root : Ino) (v : View) (hwf : WF s root) (hn : NamesOK s) (hv : ViewOK s v)
    (hroot : v.root = root) (a b : List Bytes) (hb : b ≠ [])
    (hall : ∀ x ∈ a ++ b, x ≠ [] ∧ ∀ y ∈ x, y ≠ SL) (hdots : ∀ x ∈ a ++ b, x ≠ [DOT] ∧ x ≠ [DOT, DOT])
    (par c : Ino) (mt : Meta) (ch : List (Bytes × Ino))
    (ha : walkPath s v root a = .found par c) (hc : s.get c = some (.dir mt ch)) :
    walkPath s v root (a ++ b) = .viaLink ∨
    remove s (subView v c) (SL :: joinWith SL b) = remove s v (SL :: joinWith SL (a ++ b)) :=
  sub_sim_remove s root v hwf hn hv hroot a b hb hall hdots par c mt ch ha hc

theorem C11_sub_sim_stat (s : Store) (root : Ino) (v : View) (hwf : WF s root) (hn : NamesOK s) (hv : ViewOK s v)
    (hroot : v.root = root) (a b : List Bytes) (hb : b ≠ [])
    (hall : ∀ x ∈ a ++ b, x ≠ [] ∧ ∀ y ∈ x, y ≠ SL) (hdots : ∀ x ∈ a ++ b, x ≠ [DOT] ∧ x ≠ [DOT, DOT])
    (par c : Ino) (mt : Meta) (ch : List (Bytes × Ino))
    (ha : walkPath s v root a = .found par c) (hc : s.get c = some (.dir mt ch)) (m : SlMode) :
    walkPath s v root (a ++ b) = .viaLink ∨
    stat s (subView v c) (SL :: joinWith SL b) m = stat s v (SL :: joinWith SL (a ++ b)) m :=
  sub_sim_stat s root v hwf hn hv hroot a b hb hall hdots par c mt ch ha hc m

end Avfs.FS
