import Avfs.Lemmas.StepFacts
import Avfs.Lemmas.WFRemove
/-
  C11 — a Sub view shows exactly its subtree and keeps its own user, umask and cwd.
  Subject: views of the MemFS model (`FSState.views` over one shared `Store`, as `subFS := *vfs` copies them).
-/
namespace Avfs.FS
open Avfs.Path

/-- setting the user, umask or working directory of a view — or issuing any other call through it — never changes the
    user, umask, root or working directory of another view -/
theorem C11_view_isolation (st : FSState) (vid w : Nat) (c : Call) (hw : w ≠ vid) (hfresh : w < st.nextView)
    (hf : ∀ hid op, c ≠ .file hid op) : (step st vid c).1.view w = st.view w :=
  step_view_isolation st vid w c hw hfresh hf

/-- a handle operation only touches the view the handle was opened through -/
theorem C11_handle_view_isolation (st : FSState) (vid w hid : Nat) (op : FOp) (h : Handle)
    (hh : st.handle hid = some h) (hw : w ≠ h.view) : (step st vid (.file hid op)).1.view w = st.view w :=
  step_file_view_isolation st vid w hid op h hh hw

/-- SetUser / SetUMask / Chdir change view state only: the shared tree is untouched -/
theorem C11_view_setters_keep_tree (st : FSState) (vid : Nat) :
    (∀ u g a, (step st vid (.setUser u g a)).1.store = st.store) ∧
    (∀ m, (step st vid (.setUMask m)).1.store = st.store) ∧
    (∀ p, (step st vid (.chdir p)).1.store = st.store) :=
  ⟨fun u g a => (step_setUser_store st vid u g a).1, fun m => (step_setUMask_store st vid m).1,
   fun p => (step_chdir_store st vid p).1⟩

/-- the tree is shared: a call through any view acts on the one store, so its effect is what every other view sees
    (views hold no copy of the tree) -/
theorem C11_shared_tree (st : FSState) (vid : Nat) (c : Call) (w : Nat) (v : View) (hv : (step st vid c).1.view w = some v) (p : Bytes) :
    (step (step st vid c).1 w (.lstat p)).2 = (stat (step st vid c).1.store v p .lstat).2 := by
  rw [step_some _ _ _ _ hv]; rfl

/-- every walk through a view that hangs in the tree returns a parent that hangs in the tree (so nothing is created
    in a detached directory) -/
theorem C11_walk_attached (s : Store) (v : View) (root : Ino) (hv : v.root = root ∨ ∃ d n, Edge s d n v.root)
    (p : Bytes) (m : SlMode) :
    (searchNode s v p m).parent = root ∨ ∃ q qn, Edge s q qn (searchNode s v p m).parent :=
  hr_searchNode_parent_attached s v root hv p m

end Avfs.FS
