import Avfs.Props.C10
import Avfs.Lemmas.BpSim
/-
  C10 (chroot simulation) — BasePathFS over MemFS behaves as a chroot: each call has the same outcome and the same
  effect on the heap as the same call, on the same byte string, issued on a file system whose root is the base directory.

  Setting (`BpOK s root v a c`, Lemmas/BpSim.lean): `s` a well-formed heap; `v` the view of the base file system (user,
  umask, current directory); the base path "/a1/…/an" (n ≥ 1, ordinary names) is resolved by the base, without meeting a
  symbolic link, to the directory node `c`; the virtual current directory `bpW a v` — Getwd of the base translated by
  FromBasePath, BasePathFS keeps none of its own — is an absolute path whatever the current directory of the base is (`C10_cwd_abs`, after the repair
  of Getwd; `C10_cwd_prefix_repaired`: the former corner).
  `bp<Call>`: the model of the wrapper's method (ToBasePath on every path parameter, the guards of the Go source, then
  the method of the base); `bpView a v c`: the MemFS view rooted at `c` with the user and umask of `v` and current
  directory `bpW a v` — "a file system whose root is the base directory".
  Escape (as for C11's sub_sim): the descent of the base through the translated path meets a symbolic link.
  ERRORS: the Go wrapper rewrites the path strings inside returned errors (FromPathError / FromLinkError); outcomes of the
  model carry no path strings, the string side is `C10_roundtrip` + `C10_bpfs_table`.
-/
namespace Avfs.FS
open Avfs.Path Avfs.Wrap

/-! ### the path algebra -/

/-- what ToBasePath hands to the base for ANY byte string `p` (absolute; relative; with ".", "..", doubled separators)
    is "/a1/…/an/b1/…/bm", where b1 … bm are the components of Clean(Abs(p)): ordinary names, never "." or ".." -/
theorem C10_toBasePath_components (a : List Bytes) (ha : a ≠ []) (w p : Bytes) (hw : isAbs .linux w = true) :
    toBasePath (pathOf a) w p = pathOf (a ++ vcomps w p) ∧ clean .linux (abs .linux p w) = pathOf (vcomps w p) ∧
    Names (vcomps w p) :=
  ⟨toBasePath_pathOf a ha w p hw, vpath_eq w p hw, vcomps_names w p hw⟩

/-! ### the simulation, call by call -/

section
variable {s : Store} {root : Ino} {v : View} {a : List Bytes} {c : Ino}

theorem C10_chroot_sim_mkdir (h : BpOK s root v a c) (p : Bytes) (perm : Nat) :
    walkPath s v root (a ++ bpB a v p) = .viaLink ∨
    bpMkdir (pathOf a) s v p perm = mkdir s (bpView a v c) p perm := bp_chroot_mkdir h p perm

theorem C10_chroot_sim_mkdirAll (h : BpOK s root v a c) (p : Bytes) (perm : Nat) :
    walkPath s v root (a ++ bpB a v p) = .viaLink ∨
    bpMkdirAll (pathOf a) s v p perm = mkdirAll s (bpView a v c) p perm := bp_chroot_mkdirAll h p perm

/-- Stat / Lstat (`m`), `p` not naming the root of the virtual namespace (`C10_stat_root_name`) -/
theorem C10_chroot_sim_stat (h : BpOK s root v a c) (p : Bytes) (hb : bpB a v p ≠ []) (m : SlMode) :
    walkPath s v root (a ++ bpB a v p) = .viaLink ∨
    bpStat (pathOf a) s v p m = stat s (bpView a v c) p m := bp_chroot_stat h p hb m

/-- Lstat: a link as last component is described, not followed (only a link as inner component escapes) -/
theorem C10_chroot_sim_lstat (h : BpOK s root v a c) (p : Bytes) (hb : bpB a v p ≠ []) :
    walkPathL s v root (a ++ bpB a v p) = .viaLink ∨
    bpStat (pathOf a) s v p .lstat = stat s (bpView a v c) p .lstat := bp_chroot_lstat h p hb

/-- the root included: EINVAL by the wrapper's guard, EINVAL by MemFS for its root -/
theorem C10_chroot_sim_remove (h : BpOK s root v a c) (p : Bytes) :
    walkPath s v root (a ++ bpB a v p) = .viaLink ∨
    bpRemove (pathOf a) s v p = remove s (bpView a v c) p := bp_chroot_remove h p

theorem C10_chroot_sim_removeAll (h : BpOK s root v a c) (p : Bytes) :
    walkPathL s v root (a ++ bpB a v p) = .viaLink ∨
    bpRemoveAll (pathOf a) s v p = removeAll s (bpView a v c) p := bp_chroot_removeAll h p

theorem C10_chroot_sim_readDir (h : BpOK s root v a c) (p : Bytes) (hp : p ≠ []) (vid vid' : Nat) :
    walkPath s v root (a ++ bpB a v p) = .viaLink ∨
    bpReadDir (pathOf a) s v vid' p = readDir s (bpView a v c) vid p := bp_chroot_readDir h p hp vid vid'

theorem C10_chroot_sim_chtimes (h : BpOK s root v a c) (p : Bytes) (mtime : Int) :
    walkPath s v root (a ++ bpB a v p) = .viaLink ∨
    bpChtimes (pathOf a) s v p mtime = chtimes s (bpView a v c) p mtime := bp_chroot_chtimes h p mtime

theorem C10_chroot_sim_chmod (h : BpOK s root v a c) (p : Bytes) (mode : Nat) :
    walkPath s v root (a ++ bpB a v p) = .viaLink ∨
    bpChmod (pathOf a) s v p mode = chmod s (bpView a v c) p mode := bp_chroot_chmod h p mode

/-- Chown (`m = .eval`) / Lchown (`m = .lstat`) -/
theorem C10_chroot_sim_chown (h : BpOK s root v a c) (p : Bytes) (uid gid : Int) (m : SlMode) :
    walkPath s v root (a ++ bpB a v p) = .viaLink ∨
    bpChown (pathOf a) s v p uid gid m = chown s (bpView a v c) p uid gid m := bp_chroot_chown h p uid gid m

theorem C10_chroot_sim_truncate (h : BpOK s root v a c) (p : Bytes) (size : Int) :
    walkPath s v root (a ++ bpB a v p) = .viaLink ∨
    bpTruncate (pathOf a) s v p size = truncate s (bpView a v c) p size := bp_chroot_truncate h p size

theorem C10_chroot_sim_link (h : BpOK s root v a c) (o n : Bytes) :
    walkPath s v root (a ++ bpB a v o) = .viaLink ∨ walkPath s v root (a ++ bpB a v n) = .viaLink ∨
    bpLink (pathOf a) s v o n = link s (bpView a v c) o n := bp_chroot_link h o n

/-- neither operand naming the root (`C10_rename_root`, `C10_rename_root_cex`) -/
theorem C10_chroot_sim_rename (h : BpOK s root v a c) (o n : Bytes) (hbo : bpB a v o ≠ []) (hbn : bpB a v n ≠ []) :
    walkPath s v root (a ++ bpB a v o) = .viaLink ∨ walkPath s v root (a ++ bpB a v n) = .viaLink ∨
    bpRename (pathOf a) s v o n = rename s (bpView a v c) o n := bp_chroot_rename h o n hbo hbn

/-- OpenFile, `p ≠ ""` (`C10_open_empty`): same error, or same new heap and a handle on the same node, same open mode,
    offset 0; the two handles differ in the recorded name and view number only -/
theorem C10_chroot_sim_open (h : BpOK s root v a c) (p : Bytes) (hp : p ≠ []) (vid vid' flag perm : Nat) :
    walkPath s v root (a ++ bpB a v p) = .viaLink ∨
    openFile s (bpView a v c) vid p flag perm =
      ((bpOpenFile (pathOf a) s v vid' p flag perm).1,
       (bpOpenFile (pathOf a) s v vid' p flag perm).2.map fun hd => hd.asOpenedBy p vid) :=
  bp_chroot_open h p hp vid vid' flag perm

/-- Chdir: same outcome; afterwards the base view corresponds to the new view of the file system rooted at the base
    directory (BasePathFS keeps no current directory of its own: its Getwd is the base's, translated — `C10_getwd`),
    and the setting holds again -/
theorem C10_chroot_sim_chdir (h : BpOK s root v a c) (p : Bytes) :
    walkPath s v root (a ++ bpB a v p) = .viaLink ∨
    ((bpChdir (pathOf a) s v p).2 = (chdir s (bpView a v c) p).2 ∧
     bpView a (bpChdir (pathOf a) s v p).1 c = (chdir s (bpView a v c) p).1 ∧
     BpOK s root (bpChdir (pathOf a) s v p).1 a c) := bp_sim_chdir h p

/-- Getwd through the wrapper = the current directory of the file system rooted at the base directory -/
theorem C10_getwd (a : List Bytes) (v : View) (c : Ino) : bpGetwd (pathOf a) v = (bpView a v c).cwd := rfl

/-- what `BasePathFile.Name()` reports (FromBasePath of the name in the base handle) is Clean(Abs(p)) -/
theorem C10_open_name (h : BpOK s root v a c) (p : Bytes) (vid flag perm : Nat) (hd : Handle)
    (hq : (bpOpenFile (pathOf a) s v vid p flag perm).2 = .ok hd) :
    fromBasePath (pathOf a) hd.name = some (clean .linux (abs .linux p (bpW a v))) := bp_open_name h p vid flag perm hd hq

end

/-! ### one statement over the calls with outcome `Store × Out` -/

/-- the path calls of the wrapper that forward to the base and return (new heap, outcome) -/
inductive BpCall
  | mkdir (p : Bytes) (perm : Nat)
  | mkdirAll (p : Bytes) (perm : Nat)
  | stat (p : Bytes)
  | lstat (p : Bytes)
  | remove (p : Bytes)
  | removeAll (p : Bytes)
  | rename (o n : Bytes)
  | link (o n : Bytes)
  | truncate (p : Bytes) (size : Int)
  | chmod (p : Bytes) (mode : Nat)
  | chown (p : Bytes) (uid gid : Int)
  | lchown (p : Bytes) (uid gid : Int)
  | chtimes (p : Bytes) (mtime : Int)
  deriving DecidableEq, Repr

/-- the call through the wrapper with base path `base` over the base view `v` -/
def BpCall.viaWrapper (base : Bytes) (s : Store) (v : View) : BpCall → Store × Out
  | .mkdir p perm => bpMkdir base s v p perm
  | .mkdirAll p perm => bpMkdirAll base s v p perm
  | .stat p => bpStat base s v p .stat
  | .lstat p => bpStat base s v p .lstat
  | .remove p => bpRemove base s v p
  | .removeAll p => bpRemoveAll base s v p
  | .rename o n => bpRename base s v o n
  | .link o n => bpLink base s v o n
  | .truncate p size => bpTruncate base s v p size
  | .chmod p mode => bpChmod base s v p mode
  | .chown p uid gid => bpChown base s v p uid gid .eval
  | .lchown p uid gid => bpChown base s v p uid gid .lstat
  | .chtimes p mtime => bpChtimes base s v p mtime

/-- the same call of the MemFS model through the view `v'` (as `step` dispatches it) -/
def BpCall.direct (s : Store) (v' : View) : BpCall → Store × Out
  | .mkdir p perm => Avfs.FS.mkdir s v' p perm
  | .mkdirAll p perm => Avfs.FS.mkdirAll s v' p perm
  | .stat p => Avfs.FS.stat s v' p .stat
  | .lstat p => Avfs.FS.stat s v' p .lstat
  | .remove p => Avfs.FS.remove s v' p
  | .removeAll p => Avfs.FS.removeAll s v' p
  | .rename o n => Avfs.FS.rename s v' o n
  | .link o n => Avfs.FS.link s v' o n
  | .truncate p size => Avfs.FS.truncate s v' p size
  | .chmod p mode => Avfs.FS.chmod s v' p mode
  | .chown p uid gid => Avfs.FS.chown s v' p uid gid .eval
  | .lchown p uid gid => Avfs.FS.chown s v' p uid gid .lstat
  | .chtimes p mtime => Avfs.FS.chtimes s v' p mtime

def BpCall.paths : BpCall → List Bytes
  | .mkdir p _ | .mkdirAll p _ | .stat p | .lstat p | .remove p | .removeAll p | .truncate p _ | .chmod p _
  | .chown p _ _ | .lchown p _ _ | .chtimes p _ => [p]
  | .rename o n | .link o n => [o, n]

/-- the corners excluded: Stat / Lstat of the root (the reported name differs), Rename from or onto the root -/
def BpCall.rootFree (a : List Bytes) (v : View) : BpCall → Prop
  | .stat p | .lstat p => bpB a v p ≠ []
  | .rename o n => bpB a v o ≠ [] ∧ bpB a v n ≠ []
  | _ => True

/-- C10, chroot simulation: for every call of the enumeration, on ANY byte strings, the call through BasePathFS has the
    outcome and the new heap of the same call on the file system rooted at the base directory — unless the descent of
    the base through one of the translated paths meets a symbolic link. -/
theorem C10_chroot_sim {s : Store} {root : Ino} {v : View} {a : List Bytes} {c : Ino} (h : BpOK s root v a c)
    (k : BpCall) (hk : k.rootFree a v) :
    (∃ p ∈ k.paths, walkPath s v root (a ++ bpB a v p) = .viaLink) ∨
    k.viaWrapper (pathOf a) s v = k.direct s (bpView a v c) := by
  have one : ∀ {p : Bytes} {X : Prop}, (walkPath s v root (a ++ bpB a v p) = .viaLink ∨ X) → p ∈ k.paths →
      (∃ p ∈ k.paths, walkPath s v root (a ++ bpB a v p) = .viaLink) ∨ X :=
    fun hx hm => hx.imp_left fun hl => ⟨_, hm, hl⟩
  cases k with
  | mkdir p perm => exact one (bp_chroot_mkdir h p perm) (by simp [BpCall.paths])
  | mkdirAll p perm => exact one (bp_chroot_mkdirAll h p perm) (by simp [BpCall.paths])
  | stat p => exact one (bp_chroot_stat h p hk .stat) (by simp [BpCall.paths])
  | lstat p => exact one (bp_chroot_stat h p hk .lstat) (by simp [BpCall.paths])
  | remove p => exact one (bp_chroot_remove h p) (by simp [BpCall.paths])
  | removeAll p =>
    exact one ((bp_chroot_removeAll h p).imp_left (walkPathL_viaLink s v root _)) (by simp [BpCall.paths])
  | rename o n =>
    rcases bp_chroot_rename h o n hk.1 hk.2 with hl | hl | he
    · exact Or.inl ⟨o, by simp [BpCall.paths], hl⟩
    · exact Or.inl ⟨n, by simp [BpCall.paths], hl⟩
    · exact Or.inr he
  | link o n =>
    rcases bp_chroot_link h o n with hl | hl | he
    · exact Or.inl ⟨o, by simp [BpCall.paths], hl⟩
    · exact Or.inl ⟨n, by simp [BpCall.paths], hl⟩
    · exact Or.inr he
  | truncate p size => exact one (bp_chroot_truncate h p size) (by simp [BpCall.paths])
  | chmod p mode => exact one (bp_chroot_chmod h p mode) (by simp [BpCall.paths])
  | chown p uid gid => exact one (bp_chroot_chown h p uid gid .eval) (by simp [BpCall.paths])
  | lchown p uid gid => exact one (bp_chroot_chown h p uid gid .lstat) (by simp [BpCall.paths])
  | chtimes p mtime => exact one (bp_chroot_chtimes h p mtime) (by simp [BpCall.paths])

/-! ### non-vacuity: the wrapper over a concrete reachable heap

  `pxStore` (Lemmas/Posix.lean): / 0, /home 1, /root 2, /tmp 3 (0777), /a 4 (0755, administrator), /a/b 5 (0700), /a/f 6,
  /tmp/d 7 (0777), /tmp/d/e 8, /tmp/g 9 (file, 0600 of the administrator). Base path "/tmp". -/

theorem pxStore_tmpDir : isDirAt pxStore 3 = true := by decide +kernel

/-- the plain user (uid 1000), current directory of the base "/" (outside the base: the virtual one is "/") -/
theorem pxBp : BpOK pxStore 0 exView [cTmp] 3 where
  wf := pxStore_wf.1
  names := pxStore_wf.2
  view := pxView_ok
  vroot := rfl
  ane := by simp
  anames := ⟨by decide, by decide⟩
  reach := ⟨0, by decide +kernel⟩
  isDir := get_of_isDirAt pxStore_tmpDir

theorem pxBp_w : bpW [cTmp] exView = [SL] := bpCwd_outside _ _ (by decide)

/-- "../../x" -/
def pUpUpX : Bytes := [DOT, DOT, SL, DOT, DOT, SL, 120]

/-- Clean(Abs("../../x")) = "/x": ".." never goes above the root of the virtual namespace -/
theorem pxBp_b : bpB [cTmp] exView pUpUpX = [[120]] := by
  rw [bpB, pxBp_w]
  simp only [vcomps, vpath, abs, join_eq_spec, clean_eq_spec]
  decide

/-- Mkdir("../../x") by the plain user through the wrapper with base "/tmp" = Mkdir("../../x") on the file system
    rooted at /tmp = the new directory "x" in /tmp (inode 3) of the whole tree, found there afterwards as "/tmp/x" -/
theorem C10_chroot_sim_mkdir_example :
    bpMkdir (pathOf [cTmp]) pxStore exView pUpUpX 0o755 = ((createDir pxStore exView 3 [120] 0o755).1, .ok .unit) ∧
    mkdir pxStore (bpView [cTmp] exView 3) pUpUpX 0o755 = ((createDir pxStore exView 3 [120] 0o755).1, .ok .unit) ∧
    walkPath (createDir pxStore exView 3 [120] 0o755).1 exView 0 [cTmp, [120]] = .found 3 10 := by
  have h := C10_chroot_sim_mkdir pxBp pUpUpX 0o755
  rw [pxBp_b] at h
  have n1 : walkPath pxStore exView 0 ([cTmp] ++ [[120]]) ≠ .viaLink := by decide +kernel
  have e := h.resolve_left n1
  have hp := pxBp.path pUpUpX
  rw [pxBp_b] at hp
  have p1 := mkdir_posix pxStore 0 exView pxStore_wf.1 pxStore_wf.2 pxView_ok rfl [cTmp, [120]] (by simp)
    (by decide) (by decide) 0o755
  have r1 : posixMkdir pxStore exView (walkPath pxStore exView 0 [cTmp, [120]]) = .create 3 [120] := by
    decide +kernel
  simp only [r1] at p1
  have e1 : bpMkdir (pathOf [cTmp]) pxStore exView pUpUpX 0o755 =
      ((createDir pxStore exView 3 [120] 0o755).1, .ok .unit) := by
    have : pUpUpX.isEmpty = false := rfl
    simp only [bpMkdir, this, Bool.false_eq_true, if_false, hp]
    exact p1.2
  exact ⟨e1, e ▸ e1, by decide +kernel⟩

/-- the administrator after Chdir("/d") through the wrapper: the base's current directory is "/tmp/d" -/
def admD : View := { admView with cwd := [SL, 116, 109, 112, SL, 100] }

theorem admD_w : bpW [cTmp] admD = [SL, 100] :=
  bpCwd_below [cTmp] [[100]] (by simp) ⟨by decide, by decide⟩ admD rfl

theorem pxBpD : BpOK pxStore 0 admD [cTmp] 3 where
  wf := pxStore_wf.1
  names := pxStore_wf.2
  view := ⟨by decide +kernel, by decide⟩
  vroot := rfl
  ane := by simp
  anames := ⟨by decide, by decide⟩
  reach := ⟨0, by decide +kernel⟩
  isDir := get_of_isDirAt pxStore_tmpDir

/-- a RELATIVE path: with the virtual current directory "/d", Stat("../g") through the wrapper = Stat("../g") on the
    file system rooted at /tmp with current directory "/d" = the file /tmp/g of the whole tree -/
theorem C10_chroot_sim_stat_example :
    bpB [cTmp] admD [DOT, DOT, SL, 103] = [[103]] ∧
    bpStat (pathOf [cTmp]) pxStore admD [DOT, DOT, SL, 103] .stat =
      stat pxStore (bpView [cTmp] admD 3) [DOT, DOT, SL, 103] .stat ∧
    bpStat (pathOf [cTmp]) pxStore admD [DOT, DOT, SL, 103] .stat =
      (pxStore, .ok (.info ⟨[103], 1, 0o600, 0, 0, 1, 1, 2, none⟩)) := by
  have hb : bpB [cTmp] admD [DOT, DOT, SL, 103] = [[103]] := by
    rw [bpB, admD_w]
    simp only [vcomps, vpath, abs, join_eq_spec, clean_eq_spec]
    decide
  have h := C10_chroot_sim_stat pxBpD [DOT, DOT, SL, 103] (by rw [hb]; simp) .stat
  rw [hb] at h
  have n1 : walkPath pxStore admD 0 ([cTmp] ++ [[103]]) ≠ .viaLink := by decide +kernel
  exact ⟨hb, h.resolve_left n1, by decide +kernel⟩

/-- Chdir("d") by the administrator through the wrapper (base "/tmp", the base's current directory "/"): the base's
    current directory becomes "/tmp/d", Getwd through the wrapper answers "/d" -/
theorem C10_chroot_sim_chdir_example :
    bpChdir (pathOf [cTmp]) pxStore admView [100] = (admD, .ok .unit) ∧ bpGetwd (pathOf [cTmp]) admD = [SL, 100] :=
  ⟨by decide +kernel, admD_w⟩

/-! ### the corners, as kernel-checked witnesses -/

/-- Stat("/") through the wrapper names the root "tmp" (the last component of the base path), the file system rooted
    at /tmp names its root "" (`stat_root`); all other attributes agree (`bp_sim_stat_root`) -/
theorem C10_stat_root_name :
    bpStat (pathOf [cTmp]) pxStore exView [SL] .stat = (pxStore, .ok (.info ⟨cTmp, 0, 0o777, 0, 0, 0, 2, 0, none⟩)) ∧
    stat pxStore (bpView [cTmp] exView 3) [SL] .stat = (pxStore, .ok (.info ⟨[], 0, 0o777, 0, 0, 0, 2, 0, none⟩)) := by
  decide +kernel

/-- in general: same node, same attributes, the name differs -/
theorem C10_stat_root {s : Store} {root : Ino} {v : View} {a : List Bytes} {c : Ino} (h : BpOK s root v a c)
    (p : Bytes) (hb : bpB a v p = []) (m : SlMode) :
    ∃ i, i.name = a.getLast h.ane ∧ bpStat (pathOf a) s v p m = (s, .ok (.info i)) ∧
      stat s (bpView a v c) p m = (s, .ok (.info { i with name := [] })) := by
  rw [stat_chroot s v c _ p h.cwdAbs]
  exact bp_sim_stat_root h p hb m

/-- Rename from or onto the root (different paths): EINVAL by the wrapper's guard -/
theorem C10_rename_root {s : Store} {root : Ino} {v : View} {a : List Bytes} {c : Ino} (h : BpOK s root v a c)
    (o n : Bytes) (hne : bpB a v o ≠ bpB a v n) (hr : bpB a v o = [] ∨ bpB a v n = []) :
    bpRename (pathOf a) s v o n = (s, .err .EINVAL) := bp_rename_root h o n hne hr

/-- … where the file system rooted at the base makes its permission checks first: base "/a" (0755 of the administrator),
    the plain user, Rename("/", "/x"): EINVAL through the wrapper, EACCES on the chroot.
    And Rename("/", "/") (the guard does not fire: equal paths) with base "/tmp": the base checks the write permission
    of the directory that HOLDS the base directory ("/": EACCES), the chroot that of its root (/tmp, 0777: nil). -/
theorem C10_rename_root_cex :
    bpRename (pathOf [cA]) pxStore exView [SL] [SL, 120] = (pxStore, .err .EINVAL) ∧
    rename pxStore (bpView [cA] exView 4) [SL] [SL, 120] = (pxStore, .err .EACCES) ∧
    bpRename (pathOf [cTmp]) pxStore exView [SL] [SL] = (pxStore, .err .EACCES) ∧
    rename pxStore (bpView [cTmp] exView 3) [SL] [SL] = (pxStore, .ok .unit) := by
  decide +kernel

/-- OpenFile(""): ENOENT on MemFS (so on the file system rooted at the base), the current directory through the wrapper
    (no guard for "" in OpenFile; there is one in Mkdir). General form: `bp_open_empty`. -/
theorem C10_open_empty :
    openFile pxStore (bpView [cTmp] exView 3) 0 [] 0 0 = (pxStore, .error .ENOENT) ∧
    (bpOpenFile (pathOf [cTmp]) pxStore exView 0 [] 0 0).2.toOption =
      some ⟨some 3, [SL, 116, 109, 112], 0, omRead, none, none, 0, 0⟩ :=
  ⟨rfl, by decide +kernel⟩

/-- Symlink / Readlink / EvalSymlinks are refused by the wrapper whatever the state; the file system rooted at the base
    creates the link -/
theorem C10_links_refused :
    bpSymlink (pathOf [cTmp]) pxStore exView [120] [121] = (pxStore, .err .EACCES) ∧
    (symlink pxStore (bpView [cTmp] exView 3) [120] [121]).2 = .ok .unit := by
  decide +kernel

/-- THE ESCAPE IS NEEDED — and it is a breach of the confinement, not only of the simulation: a symbolic link that
    already exists below the base directory is followed by the BASE file system, from the root of the WHOLE tree.
    `wkStore` (Lemmas/Walk.lean) has "/a/l" → "/tmp". Base "/a", the administrator: Stat("/l/g") through the wrapper
    describes /tmp/g, a file OUTSIDE the base directory (the path handed to the base, "/a/l/g", is lexically inside:
    `C10_confined` holds); on the file system rooted at /a the target "/tmp" is "/a/tmp": ENOENT. -/
theorem C10_symlink_escape_cex :
    bpPath (pathOf [cA]) admView [SL, 108, SL, 103] = [SL, 97, SL, 108, SL, 103] ∧
    walkPath wkStore admView 0 ([cA] ++ bpB [cA] admView [SL, 108, SL, 103]) = .viaLink ∧
    bpStat (pathOf [cA]) wkStore admView [SL, 108, SL, 103] .stat =
      (wkStore, .ok (.info ⟨[103], 1, 0o600, 0, 0, 1, 1, 2, none⟩)) ∧
    stat wkStore (bpView [cA] admView 4) [SL, 108, SL, 103] .stat = (wkStore, .err .ENOENT) := by
  decide +kernel

/-- the virtual current directory is an absolute path for EVERY current directory of the base (no hypothesis on it;
    before the repair of Getwd this was a hypothesis of the simulation) -/
theorem C10_cwd_abs (a : List Bytes) (ha : a ≠ []) (hn : ∀ x ∈ a, x ≠ [] ∧ ∀ y ∈ x, y ≠ SL) (v : View) :
    isAbs .linux (bpCwd (pathOf a) v) = true := bpCwd_abs a ha hn v

/-- REPAIRED (was the witness `C10_cwd_prefix_cex`): base "/tmp", current directory of the base "/tmpfoo". The
    pre-repair Getwd tested the prefix on STRINGS, answered the relative path "foo", and the relative path "x" was handed
    to the base as "/tmpfoo/x" — outside the base directory. Now (`inBase`) the virtual current directory is "/" and "x"
    is handed to the base as "/tmp/x", inside the base. -/
theorem C10_cwd_prefix_repaired :
    bpCwd [SL, 116, 109, 112] { root := 0, cwd := [SL, 116, 109, 112, 102, 111, 111], uid := 0, gid := 0, admin := true, umask := 0 }
      = [SL] ∧
    bpPath [SL, 116, 109, 112] { root := 0, cwd := [SL, 116, 109, 112, 102, 111, 111], uid := 0, gid := 0, admin := true, umask := 0 } [120]
      = [SL, 116, 109, 112, SL, 120] ∧
    Within [SL, 116, 109, 112] [SL, 116, 109, 112, SL, 120] :=
  bpCwd_prefix_repaired

end Avfs.FS
