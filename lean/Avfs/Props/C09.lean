import Avfs.Wrap.Rules
import Avfs.Generated.Wrap
/-
  C09 — a read-only file system never lets the underlying file system change.
  The tables `rofsTable` / `rofileTable` are regenerated from vfs/rofs/*.go by harness/cmd/factx on every run, so the
  obligations below are re-decided against the current source; `corr rofs` checks the same behaviourally.
-/
namespace Avfs.Wrap
open Avfs.Generated

/-- every RoFS method is a refusal with a permission-class error, a forward to a read-only (or view-only) base
    method with identical arguments, or the guarded OpenFile / wrapped Sub; every mutating method is refused -/
theorem C09_rofs_table : roTableOK rofsTable mutatingVFS = true := by decide +kernel

theorem C09_rofile_table : roTableOK rofileTable mutatingFile = true := by decide +kernel

/-- generic: a wrapper whose forwards all go to tree-preserving base methods leaves the base tree unchanged over
    every history (unbounded length) -/
theorem C09_history_unchanged {σ α ρ : Type} (b : Base σ α ρ) (t : List (String × Shape)) (refused : String → ρ)
    (okm : ∀ m sh, lookup t m = some sh → sh.kind = "forward" → ∀ a s, b.tree (b.call sh.base a s).1 = b.tree s)
    (hnc : ∀ m sh, lookup t m = some sh → sh.kind ≠ "consult")
    (h : List (String × α)) (s : σ) :
    b.tree (h.foldl (fun s (m, a) => (wrapCall b t refused (fun _ _ => none) m a s).1) s) = b.tree s :=
  ro_history_unchanged b t refused okm hnc h s

end Avfs.Wrap
