import Avfs.Lemmas.LockRank
import Avfs.Props.C07
/-
  C07 (c) — every call returns: no deadlock.  MemFS, from the lock order  handle → directory → entry.

  `C07_ranked_deadlock_free` (Props/C07.lean) is generic; `C07_nested_acquisitions` pins the nested acquisitions of the
  current source to the list `Conc.expectedNested`.  This file connects the two for MemFS (Lemmas/LockRank.lean):

    MODELLED (hand-written abstraction, justified by `expectedNested` and by reading the source where the extractor is
    blind — see the header of Lemmas/LockRank.lean): `acquisitions`, the order in which each kind of call takes its
    locks, on resolved operands; `MThread` / `Describes`, a thread somewhere inside such a call; `Valid`, what the
    operands satisfy in the heap at the instant considered.
    PROVED: the rank (handles; then directories by depth, then inode; then files and links) increases strictly along
    every acquisition list but Rename's, in every well-formed heap; so no waiting state is deadlocked
    (`C07_memfs_no_deadlock_but_rename`).  Rename as it is: three kernel-checked deadlocked states; Rename with its
    locks taken in rank order: no deadlock at all (`C07_memfs_no_deadlock_ordered_rename`).

  Excluded by the hypothesis `Valid` (and necessarily so: `C07_removeAll_stale_deadlock`): RemoveAll keeps the child
  the WALK returned; if completed renames have meanwhile moved that DIRECTORY elsewhere, `child` is no longer an entry
  of `parent` (the recorded finding linearizability.memfs-no-recheck) and two RemoveAll calls can deadlock.  Every other
  pair (directory, node locked under it) is read under the directory's lock, or is (directory, non-directory), which
  no concurrent change can invalidate (`LockBelow`).
-/
namespace Avfs.FS
open Avfs.Path Avfs.Conc

/-- the hand-written acquisition lists agree with the lock facts regenerated from the CURRENT source: every acquisition
    site of package memfs (with the locks certainly held there) is a position of a row of `memfsLockOrder`, each row has
    the length of the model's list, and every nested acquisition a row claims is in `expectedNested` — except the three
    marked `unseen` (the fourth unseen pattern, the recursion of removeAll, is a stack of rows) (OpenFile's existing entry under the parent's deferred unlock, MemFile.Stat → fillStatFrom,
    MemFile.ReadDir → dirEntries → fillStatFrom), which the extractor does not report -/
theorem C07_memfs_lock_order_table :
    orderTableOK Generated.lockFacts Conc.expectedNested memfsLockOrder = true := by decide +kernel

/-- (c) every MemFS / MemFile call other than Rename takes its locks in strictly increasing rank -/
theorem C07_acquisitions_ranked {s : Store} {root : Ino} (hwf : WF s root) {dp : Ino → Nat} (hdp : DepthOK s dp)
    (c : MCall) (hv : Valid s c) (hr : c.isRename = false) : Increasing (rank s dp) (acquisitions c) :=
  acquisitions_ranked hwf hdp c hv hr

/-- (c) MemFS without Rename is deadlock free: any number of threads, each anywhere inside a call other than Rename
    with operands valid in the well-formed heap `s`; `w` is any waiting state they can be in (a thread holds locks
    among the first `pos` of its list and waits, if blocked, for lock number `pos`) with a consistent holder map -/
theorem C07_memfs_no_deadlock_but_rename {T : Type} {s : Store} {root : Ino} (hwf : WF s root) (w : WaitSt T Lock)
    (hc : w.Consistent) (th : T → MThread) (hd : Describes acquisitions w th) (hv : ∀ t, Valid s (th t).call)
    (hnr : ∀ t, (th t).call.isRename = false) : ¬ w.Deadlocked :=
  memfs_no_deadlock_but_rename hwf w hc th hd hv hnr

/-- … also in the general sense (locks held by several readers; no holder map needed) -/
theorem C07_memfs_no_deadlock_but_rename_held {T : Type} {s : Store} {root : Ino} (hwf : WF s root) (w : WaitSt T Lock)
    (th : T → MThread) (hd : Describes acquisitions w th) (hv : ∀ t, Valid s (th t).call)
    (hnr : ∀ t, (th t).call.isRename = false) : ¬ w.DeadlockedHeld :=
  memfs_no_deadlock_but_rename_held hwf w th hd hv hnr

/-- the path walk (of every call) holds at most one lock and never waits while holding one -/
theorem C07_walk_never_waits_holding (t : MThread) (d : Ino) (hc : t.call = .walk d)
    (hw : (t.waits acquisitions).isSome = true) : t.held acquisitions = [] := walk_never_waits_holding t d hc hw

/-- (c) progress in the RW-mutex semantics (`Conc.stepLock`): in any lock state whose holders are threads inside valid
    calls other than Rename, some thread is not waiting or is granted the lock it waits for -/
theorem C07_memfs_some_thread_moves {T X : Type} [DecidableEq T] {s : Store} {root : Ino} (hwf : WF s root)
    (ls : LockSt T Lock) (th : T → MThread) (md : T → LK) (all : List T) (hne : all ≠ []) (hnd : all.Nodup)
    (hheld : ∀ t k l, ls.holds t k l → t ∈ all ∧ l ∈ (th t).held acquisitions)
    (hv : ∀ t, Valid s (th t).call) (hnr : ∀ t, (th t).call.isRename = false) :
    ∃ t ∈ all, ∀ l, (th t).waits acquisitions = some l →
      (stepLock ls (.acq t (md t) l : Ev T Lock X)).isSome = true :=
  memfs_some_thread_moves hwf ls th md all hne hnd hheld hv hnr

/-- the repair: Rename taking its locks in rank order is ranked … -/
theorem C07_rename_ordered_ranked (s : Store) (dp : Ino → Nat) (oParent nParent : Ino) (nds : List Ino) :
    Increasing (rank s dp) (renameOrdered s dp oParent nParent nds) := rename_ordered_ranked s dp oParent nParent nds

/-- … and then nothing deadlocks, Rename included -/
theorem C07_memfs_no_deadlock_ordered_rename {T : Type} {s : Store} {root : Ino} (hwf : WF s root) {dp : Ino → Nat}
    (hdp : DepthOK s dp) (w : WaitSt T Lock) (th : T → MThread) (hd : Describes (acquisitionsOrd s dp) w th)
    (hv : ∀ t, Valid s (th t).call) : ¬ w.DeadlockedHeld ∧ (w.Consistent → ¬ w.Deadlocked) :=
  memfs_no_deadlock_ordered_rename hwf hdp w th hd hv

/-! ### concrete states -/

/-- a holder map given as a table -/
def holderOf (al : List (Lock × Nat)) (l : Lock) : Option Nat := (al.find? (fun p => p.1 == l)).map (·.2)

theorem consistent_of_table (A : MCall → List Lock) (th : Nat → MThread) (al : List (Lock × Nat))
    (h : al.all (fun p => decide (p.1 ∈ (th p.2).held A)) = true) : (waitSt A th (holderOf al)).Consistent := by
  intro l t hh
  unfold waitSt holderOf at hh
  simp only [Option.map_eq_some_iff] at hh
  obtain ⟨p, hp, rfl⟩ := hh
  have hm := List.mem_of_find?_eq_some hp
  have hl : p.1 = l := by simpa using List.find?_some hp
  have := List.all_eq_true.1 h p hm
  rw [← hl]
  exact (by simpa using this : p.1 ∈ (th p.2).held A)

/-- the state of `memfs.New()` after, by the administrator: Mkdir("/a"), Mkdir("/b"), Mkdir("/a/d"),
    OpenFile("/a/x", O_RDWR|O_CREATE|O_TRUNC) (handle 0, left open), WriteFile("/b/z"), WriteFile("/a/d/f").
    Inodes: / 0, /home 1, /root 2, /tmp 3, /a 4, /b 5, /a/d 6, /a/x 7, /b/z 8, /a/d/f 9 -/
@[irreducible] def lrState : FSState :=
  (run initState [
    (0, .mkdir [SL, 97] 0o755), (0, .mkdir [SL, 98] 0o755), (0, .mkdir [SL, 97, SL, 100] 0o755),
    (0, .openFile [SL, 97, SL, 120] oRDWR_CREATE_TRUNC 0o644),
    (0, .writeFile [SL, 98, SL, 122] [1, 2] 0o644),
    (0, .writeFile [SL, 97, SL, 100, SL, 102] [3] 0o644)]).1

theorem lrState_wf : WF lrState.store 0 ∧ NamesOK lrState.store := wfCheck_sound _ 0 (by decide +kernel)

def lrView : View := { root := 0, cwd := [SL], uid := 0, gid := 0, admin := true, umask := 0 }

/-- the operands used below are what the walks of the calls return, and handle 0 is open on /a/x -/
example :
    ((searchNode lrState.store lrView [SL, 97, SL, 120] .lstat).parent = 4 ∧
     (searchNode lrState.store lrView [SL, 97, SL, 120] .lstat).child = some 7) ∧
    ((searchNode lrState.store lrView [SL, 97] .lstat).parent = 0 ∧
     (searchNode lrState.store lrView [SL, 97] .lstat).child = some 4) ∧
    ((searchNode lrState.store lrView [SL, 98, SL, 122] .lstat).parent = 5 ∧
     (searchNode lrState.store lrView [SL, 98, SL, 122] .lstat).child = some 8) ∧
    ((searchNode lrState.store lrView [SL, 98, SL, 121] .lstat).parent = 5 ∧
     (searchNode lrState.store lrView [SL, 97, SL, 119] .lstat).parent = 4) ∧
    ((searchNode lrState.store lrView [SL, 97, SL, 100, SL, 102] .lstat).parent = 6 ∧
     (searchNode lrState.store lrView [SL, 97, SL, 100, SL, 102] .lstat).child = some 9) ∧
    (lrState.handle 0).map (·.nd) = some (some 7) := by
  refine ⟨⟨?_, ?_⟩, ⟨?_, ?_⟩, ⟨?_, ?_⟩, ⟨?_, ?_⟩, ⟨?_, ?_⟩, ?_⟩ <;> decide +kernel

/-! #### non-vacuity of `C07_memfs_no_deadlock_but_rename`: three threads, two of them blocked, in a line -/

/-- thread 0: `Remove("/a/x")` holds /a and waits for the file /a/x;
    thread 1: `Write` on handle 0 (open on /a/x) holds the handle and the file, and is running;
    thread 2: `RemoveAll("/a")` (stack /, /a, /a/d, /a/d/f) holds / and waits for /a -/
def lineThreads : Nat → MThread
  | 0 => { call := .remove 4 7, pos := 1, blocked := true }
  | 1 => { call := .fileOp 0 7, pos := 2, blocked := false }
  | 2 => { call := .removeAll [0, 4, 6, 9], pos := 1, blocked := true }
  | _ => { call := .idle, pos := 0, blocked := false }

def lineHolder : Lock → Option Nat :=
  holderOf [(.node 4, 0), (.handle 0, 1), (.node 7, 1), (.node 0, 2)]

def lineState : WaitSt Nat Lock := waitSt acquisitions lineThreads lineHolder

theorem lineThreads_valid : ∀ t, Valid lrState.store (lineThreads t).call ∧ (lineThreads t).call.isRename = false := by
  intro t
  match t with
  | 0 => exact ⟨.inl ⟨[120], show lrState.store.child 4 [120] = some 7 by decide +kernel⟩, rfl⟩
  | 1 => exact ⟨trivial, rfl⟩
  | 2 =>
    exact ⟨⟨.inl ⟨[97], show lrState.store.child 0 [97] = some 4 by decide +kernel⟩,
            .inl ⟨[100], show lrState.store.child 4 [100] = some 6 by decide +kernel⟩,
            .inl ⟨[102], show lrState.store.child 6 [102] = some 9 by decide +kernel⟩, trivial⟩, rfl⟩
  | _ + 3 => exact ⟨trivial, rfl⟩

theorem lineState_consistent : lineState.Consistent := consistent_of_table _ _ _ (by decide)

/-- the hypotheses of the theorem are met by a state in which thread 2 waits for a lock held by thread 0, which waits
    for a lock held by thread 1 — and, by the theorem, nobody is deadlocked (thread 1 is not blocked) -/
example :
    (lineState.waits 2 = some (.node 4) ∧ lineState.holder (.node 4) = some 0) ∧
    (lineState.waits 0 = some (.node 7) ∧ lineState.holder (.node 7) = some 1) ∧
    lineState.waits 1 = none ∧
    lineState.held 2 = [.node 0] ∧ lineState.held 0 = [.node 4] ∧ lineState.held 1 = [.handle 0, .node 7] ∧
    ¬ lineState.Deadlocked :=
  ⟨⟨by decide, by decide⟩, ⟨by decide, by decide⟩, by decide, by decide, by decide, by decide,
   C07_memfs_no_deadlock_but_rename lrState_wf.1 lineState lineState_consistent lineThreads
     (describes_waitSt _ _ _) (fun t => (lineThreads_valid t).1) (fun t => (lineThreads_valid t).2)⟩

theorem holderOf_mem {al : List (Lock × Nat)} {l : Lock} {t : Nat} (h : holderOf al l = some t) : (l, t) ∈ al := by
  unfold holderOf at h
  simp only [Option.map_eq_some_iff] at h
  obtain ⟨p, hp, rfl⟩ := h
  have hl : p.1 = l := by simpa using List.find?_some hp
  rw [← hl]
  exact List.mem_of_find?_eq_some hp

/-- the same state as a state of the RW-mutexes (all four locks write-held): the hypotheses of
    `C07_memfs_some_thread_moves` are met with the three threads; threads 0 and 2 ARE refused by `stepLock` -/
def lineLocks : LockSt Nat Lock := { writer := lineHolder, readers := fun _ => [] }

example :
    stepLock lineLocks (.acq 0 .w (.node 7) : Ev Nat Lock Unit) = none ∧
    stepLock lineLocks (.acq 2 .w (.node 4) : Ev Nat Lock Unit) = none ∧
    ∃ t ∈ [0, 1, 2], ∀ l, (lineThreads t).waits acquisitions = some l →
      (stepLock lineLocks (.acq t .w l : Ev Nat Lock Unit)).isSome = true := by
  refine ⟨by decide, by decide, ?_⟩
  refine C07_memfs_some_thread_moves lrState_wf.1 lineLocks lineThreads (fun _ => .w) [0, 1, 2] (by simp) (by decide) ?_
    (fun t => (lineThreads_valid t).1) (fun t => (lineThreads_valid t).2)
  intro t k l hh
  have hw : lineHolder l = some t := by
    rcases hh with ⟨_, hw⟩ | ⟨_, hr⟩
    · exact hw
    · cases hr
  refine ⟨?_, lineState_consistent l t hw⟩
  have hm := holderOf_mem hw
  simp only [List.mem_cons, Prod.mk.injEq, List.mem_nil_iff, or_false] at hm
  rcases hm with ⟨_, rfl⟩ | ⟨_, rfl⟩ | ⟨_, rfl⟩ | ⟨_, rfl⟩ <;> simp

/-- the ranking is not trivial on this heap: for EVERY depth witness, / is below /a, /a below the directory /a/d,
    /a/d below the file /a/d/f, and the directory /b — a sibling, not an ancestor — below the file /a/x -/
example (dp : Ino → Nat) (hdp : DepthOK lrState.store dp) :
    rank lrState.store dp (.handle 0) < rank lrState.store dp (.node 0) ∧
    rank lrState.store dp (.node 0) < rank lrState.store dp (.node 4) ∧
    rank lrState.store dp (.node 4) < rank lrState.store dp (.node 6) ∧
    rank lrState.store dp (.node 6) < rank lrState.store dp (.node 9) ∧
    rank lrState.store dp (.node 5) < rank lrState.store dp (.node 7) :=
  ⟨rank_handle_lt_node _ _ _ _,
   rank_edge lrState_wf.1 hdp (show Edge lrState.store 0 [97] 4 by unfold Edge; decide +kernel),
   rank_edge lrState_wf.1 hdp (show Edge lrState.store 4 [100] 6 by unfold Edge; decide +kernel),
   rank_edge lrState_wf.1 hdp (show Edge lrState.store 6 [102] 9 by unfold Edge; decide +kernel),
   rank_dir_lt_nondir lrState_wf.1 (by decide +kernel) (by decide +kernel)⟩

/-! #### Rename as it is -/

/-- thread 0: `Rename("/a/x", "/b/y")` holds /a (its oParent) and waits for /b (its nParent);
    thread 1: `Rename("/b/z", "/a/w")` holds /b and waits for /a -/
def crossThreads : Nat → MThread
  | 0 => { call := .rename 4 5 (some 7), pos := 1, blocked := true }
  | 1 => { call := .rename 5 4 (some 8), pos := 1, blocked := true }
  | _ => { call := .idle, pos := 0, blocked := false }

def crossState : WaitSt Nat Lock := waitSt acquisitions crossThreads (holderOf [(.node 4, 0), (.node 5, 1)])

/-- **RECORDED FINDING as a theorem** (Rename locks its two parents in argument order): on a well-formed, reachable
    heap, two renames with swapped directory operands, each after its first `Lock()`, are a deadlocked state of the
    model — both operand pairs being directories of the heap, the holder map consistent -/
theorem C07_rename_cross_deadlock :
    WF lrState.store 0 ∧
    (isDirAt lrState.store 4 = true ∧ isDirAt lrState.store 5 = true) ∧
    (crossState.held 0 = [.node 4] ∧ crossState.waits 0 = some (.node 5)) ∧
    (crossState.held 1 = [.node 5] ∧ crossState.waits 1 = some (.node 4)) ∧
    crossState.Consistent ∧ crossState.Deadlocked := by
  refine ⟨lrState_wf.1, ⟨by decide +kernel, by decide +kernel⟩, ⟨by decide, by decide⟩, ⟨by decide, by decide⟩,
    consistent_of_table _ _ _ (by decide), [0, 1], by simp, by simp, ?_⟩
  intro t ht
  simp only [List.mem_cons, List.mem_nil_iff, or_false] at ht
  rcases ht with rfl | rfl
  · exact ⟨.node 5, 1, by decide, by decide, by simp⟩
  · exact ⟨.node 4, 0, by decide, by decide, by simp⟩

/-- thread 0: `Remove("/a/d")` holds /a and waits for its entry /a/d (parent, then entry);
    thread 1: `Rename("/a/d/f", "/a/g")` holds /a/d (its oParent) and waits for /a (its nParent): entry, then parent -/
def upThreads : Nat → MThread
  | 0 => { call := .remove 4 6, pos := 1, blocked := true }
  | 1 => { call := .rename 6 4 (some 9), pos := 1, blocked := true }
  | _ => { call := .idle, pos := 0, blocked := false }

def upState : WaitSt Nat Lock := waitSt acquisitions upThreads (holderOf [(.node 4, 0), (.node 6, 1)])

/-- Rename does not only deadlock with Rename: moving something one directory UP locks the entry before its parent,
    against the order of every other call (here Remove; thread 0 satisfies `Valid`) -/
theorem C07_rename_remove_deadlock :
    WF lrState.store 0 ∧ Valid lrState.store (upThreads 0).call ∧
    (upState.held 0 = [.node 4] ∧ upState.waits 0 = some (.node 6)) ∧
    (upState.held 1 = [.node 6] ∧ upState.waits 1 = some (.node 4)) ∧
    upState.Consistent ∧ upState.Deadlocked := by
  refine ⟨lrState_wf.1, .inl ⟨[100], show lrState.store.child 4 [100] = some 6 by decide +kernel⟩,
    ⟨by decide, by decide⟩, ⟨by decide, by decide⟩, consistent_of_table _ _ _ (by decide), [0, 1], by simp, by simp, ?_⟩
  intro t ht
  simp only [List.mem_cons, List.mem_nil_iff, or_false] at ht
  rcases ht with rfl | rfl
  · exact ⟨.node 6, 1, by decide, by decide, by simp⟩
  · exact ⟨.node 4, 0, by decide, by decide, by simp⟩

/-! #### the hypothesis `Valid` cannot be dropped: an operand that went stale between the walk and the first lock -/

/-- `memfs.New()`, Mkdir("/a") (inode 4), Mkdir("/a/b") (inode 5) -/
@[irreducible] def staleBefore : FSState :=
  (run initState [(0, .mkdir [SL, 97] 0o755), (0, .mkdir [SL, 97, SL, 98] 0o755)]).1

/-- … then Rename("/a/b", "/b"), Rename("/a", "/b/a"): the two directories have swapped places, /b (5) holds /b/a (4) -/
@[irreducible] def staleAfter : FSState :=
  (run initState [(0, .mkdir [SL, 97] 0o755), (0, .mkdir [SL, 97, SL, 98] 0o755),
    (0, .rename [SL, 97, SL, 98] [SL, 98]), (0, .rename [SL, 97] [SL, 98, SL, 97])]).1

/-- thread 0: `RemoveAll("/a/b")` whose walk ran in `staleBefore` (parent 4, child 5) and whose `parent.mu.Lock()` came
    after the two renames: it holds 4 and waits for 5 — no longer an entry of 4;
    thread 1: `RemoveAll("/b/a")`, walk in `staleAfter` (parent 5, child 4): holds 5, waits for 4 -/
def staleThreads : Nat → MThread
  | 0 => { call := .removeAll [4, 5], pos := 1, blocked := true }
  | 1 => { call := .removeAll [5, 4], pos := 1, blocked := true }
  | _ => { call := .idle, pos := 0, blocked := false }

def staleWait : WaitSt Nat Lock := waitSt acquisitions staleThreads (holderOf [(.node 4, 0), (.node 5, 1)])

/-- without `Valid` the theorem is false, and not because of a Rename in progress: RemoveAll keeps the child its WALK
    returned (recorded finding linearizability.memfs-no-recheck, `expectedStale`: ("MemFS.RemoveAll", "stale", "child")).
    If two completed renames have swapped a directory and its subdirectory in between, two RemoveAll calls — neither is
    Rename, thread 1 is `Valid`, thread 0 was `Valid` in the heap its walk saw — lock the same two directories in
    opposite orders.  `Valid` at the instant considered excludes exactly this. -/
theorem C07_removeAll_stale_deadlock :
    WF staleBefore.store 0 ∧ WF staleAfter.store 0 ∧
    ((searchNode staleBefore.store lrView [SL, 97, SL, 98] .lstat).parent = 4 ∧
     (searchNode staleBefore.store lrView [SL, 97, SL, 98] .lstat).child = some 5 ∧
     Valid staleBefore.store (staleThreads 0).call) ∧
    ((searchNode staleAfter.store lrView [SL, 98, SL, 97] .lstat).parent = 5 ∧
     (searchNode staleAfter.store lrView [SL, 98, SL, 97] .lstat).child = some 4 ∧
     Valid staleAfter.store (staleThreads 1).call) ∧
    (∀ t, (staleThreads t).call.isRename = false) ∧
    ¬ Valid staleAfter.store (staleThreads 0).call ∧
    staleWait.Consistent ∧ staleWait.Deadlocked := by
  refine ⟨(wfCheck_sound _ 0 (by decide +kernel)).1, (wfCheck_sound _ 0 (by decide +kernel)).1,
    ⟨by decide +kernel, by decide +kernel, .inl ⟨[98], show staleBefore.store.child 4 [98] = some 5 by decide +kernel⟩, trivial⟩,
    ⟨by decide +kernel, by decide +kernel, .inl ⟨[97], show staleAfter.store.child 5 [97] = some 4 by decide +kernel⟩, trivial⟩,
    ?_, ?_, consistent_of_table _ _ _ (by decide), [0, 1], by simp, by simp, ?_⟩
  · intro t
    match t with
    | 0 => rfl
    | 1 => rfl
    | _ + 2 => rfl
  · rintro ⟨⟨n, he⟩ | ⟨_, h5⟩, _⟩
    · have h4 : staleAfter.store.children 4 = [] := by decide +kernel
      simp [Edge, Store.child, h4] at he
    · have : isDirAt staleAfter.store 5 = true := by decide +kernel
      rw [this] at h5; cases h5
  · intro t ht
    simp only [List.mem_cons, List.mem_nil_iff, or_false] at ht
    rcases ht with rfl | rfl
    · exact ⟨.node 5, 1, by decide, by decide, by simp⟩
    · exact ⟨.node 4, 0, by decide, by decide, by simp⟩

/-! #### ordering the two parents by inode number alone is not a repair -/

/-- Rename with its two parents locked in the order of their inode numbers -/
def acquisitionsByIno : MCall → List Lock
  | .rename o n _ => if o = n then [.node o] else [.node (min o n), .node (max o n)]
  | c => acquisitions c

/-- `memfs.New()`, Mkdir("/a") (inode 4), Mkdir("/b") (inode 5), Rename("/a", "/b/a"): the directory /b/a is OLDER
    (smaller inode) than its parent /b -/
@[irreducible] def inoState : FSState :=
  (run initState [(0, .mkdir [SL, 97] 0o755), (0, .mkdir [SL, 98] 0o755), (0, .rename [SL, 97] [SL, 98, SL, 97])]).1

theorem inoState_wf : WF inoState.store 0 ∧ NamesOK inoState.store := wfCheck_sound _ 0 (by decide +kernel)

theorem inoState_edge : Edge inoState.store 5 [97] 4 := by unfold Edge; decide +kernel

/-- thread 0: `Remove("/b/a")` holds /b (inode 5), waits for /b/a (inode 4);
    thread 1: `Rename("/b/x", "/b/a/y")`, parents /b and /b/a locked by inode: holds /b/a (4), waits for /b (5) -/
def inoThreads : Nat → MThread
  | 0 => { call := .remove 5 4, pos := 1, blocked := true }
  | 1 => { call := .rename 5 4 none, pos := 1, blocked := true }
  | _ => { call := .idle, pos := 0, blocked := false }

def inoWait : WaitSt Nat Lock := waitSt acquisitionsByIno inoThreads (holderOf [(.node 5, 0), (.node 4, 1)])

/-- after a rename has put an older directory under a newer one, the inode order contradicts the tree order that
    Remove, RemoveAll, OpenFile and ReadDir follow: the state is deadlocked.  The order has to extend parent → entry. -/
theorem C07_rename_by_ino_deadlock :
    WF inoState.store 0 ∧ Valid inoState.store (inoThreads 0).call ∧
    (inoWait.held 0 = [.node 5] ∧ inoWait.waits 0 = some (.node 4)) ∧
    (inoWait.held 1 = [.node 4] ∧ inoWait.waits 1 = some (.node 5)) ∧
    inoWait.Consistent ∧ inoWait.Deadlocked := by
  refine ⟨inoState_wf.1, .inl ⟨[97], inoState_edge⟩,
    ⟨by decide, by decide⟩, ⟨by decide, by decide⟩, consistent_of_table _ _ _ (by decide), [0, 1], by simp, by simp, ?_⟩
  intro t ht
  simp only [List.mem_cons, List.mem_nil_iff, or_false] at ht
  rcases ht with rfl | rfl
  · exact ⟨.node 4, 1, by decide, by decide, by simp⟩
  · exact ⟨.node 5, 0, by decide, by decide, by simp⟩

/-- on that heap the rank-ordered Rename takes /b before /b/a whichever way round its operands are (for every depth
    witness), i.e. in the order of Remove -/
theorem inoState_ordered (dp : Ino → Nat) (hdp : DepthOK inoState.store dp) :
    renameOrdered inoState.store dp 5 4 [] = [.node 5, .node 4] ∧
    renameOrdered inoState.store dp 4 5 [] = [.node 5, .node 4] := by
  have h := rank_edge inoState_wf.1 hdp inoState_edge
  have h' : ¬ rank inoState.store dp (.node 4) < rank inoState.store dp (.node 5) := by omega
  have h'' : ¬ rank inoState.store dp (.node 4) = rank inoState.store dp (.node 5) := by omega
  constructor
  · simp [renameOrdered, sortLocks, insertLock, h]
  · simp [renameOrdered, sortLocks, insertLock, h', h'']

/-- non-vacuity of `C07_memfs_no_deadlock_ordered_rename`: thread 0 `Remove("/b/a")` holds /b and waits for /b/a;
    thread 1, the repaired `Rename("/b/a/y", "/b/x")`, waits for its first lock /b; thread 2 `Chmod("/b/a")` holds /b/a
    and runs.  Not deadlocked, by the theorem. -/
def ordThreads : Nat → MThread
  | 0 => { call := .remove 5 4, pos := 1, blocked := true }
  | 1 => { call := .rename 4 5 none, pos := 0, blocked := true }
  | 2 => { call := .one .chmod 4, pos := 1, blocked := false }
  | _ => { call := .idle, pos := 0, blocked := false }

example (dp : Ino → Nat) (hdp : DepthOK inoState.store dp) :
    let w := waitSt (acquisitionsOrd inoState.store dp) ordThreads (holderOf [(.node 5, 0), (.node 4, 2)])
    w.waits 1 = some (.node 5) ∧ w.holder (.node 5) = some 0 ∧ w.waits 0 = some (.node 4) ∧
    w.holder (.node 4) = some 2 ∧ ¬ w.DeadlockedHeld := by
  intro w
  have hv : ∀ t, Valid inoState.store (ordThreads t).call := by
    intro t
    match t with
    | 0 => exact .inl ⟨[97], inoState_edge⟩
    | 1 => trivial
    | 2 => trivial
    | _ + 3 => trivial
  refine ⟨?_, rfl, rfl, rfl,
    (C07_memfs_no_deadlock_ordered_rename inoState_wf.1 hdp w ordThreads (describes_waitSt _ _ _) hv).1⟩
  show (if true = true then (renameOrdered inoState.store dp 4 5 [])[0]? else none) = some (.node 5)
  rw [(inoState_ordered dp hdp).2]
  rfl

end Avfs.FS
