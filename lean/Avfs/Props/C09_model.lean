import Avfs.Lemmas.StepFailed
/-
  C09 on the MemFS model: the hypothesis `okm` of `C09_history_unchanged` (every base method a read-only wrapper
  forwards to leaves the tree unchanged) is discharged for the model of the base itself — the calls RoFS forwards
  (Stat, Lstat, ReadDir, ReadFile, Readlink, EvalSymlinks, Getwd, and the view-only Chdir, SetUMask) never change
  the store, for every state, view and argument, hence over every history of any length.
-/
namespace Avfs.FS
open Avfs.Path

/-- the model calls behind the base methods that RoFS forwards (readOnlyBase ∪ viewOnlyBase of Wrap/Rules.lean) -/
def Call.readOnly : Call → Bool
  | .stat _ | .lstat _ | .readDir _ | .readFile _ | .readlink _ | .evalSymlinks _ | .getwd | .chdir _ | .setUMask _ => true
  | _ => false

/-- one forwarded call leaves the store (tree, contents, modes, owners, times) of the base as it was -/
theorem C09_model_readonly_call (st : FSState) (vid : Nat) (c : Call) (hc : c.readOnly = true) :
    (step st vid c).1.store = st.store := by
  unfold step
  cases hv : st.view vid with
  | none => rfl
  | some v =>
    cases c <;> simp only [Call.readOnly, Bool.false_eq_true] at hc <;>
      simp [withStore, stat_store, readlink_store, evalSymlinks_store, FSState.setView]

/-- every history of forwarded calls, issued through any views, leaves the store of the base as it was -/
theorem C09_model_readonly_history (h : List (Nat × Call)) (hro : ∀ c ∈ h, c.2.readOnly = true) (st : FSState) :
    (h.foldl (fun st c => (step st c.1 c.2).1) st).store = st.store := by
  induction h generalizing st with
  | nil => rfl
  | cons c cs ih =>
    simp only [List.foldl]
    rw [ih (fun c' hc' => hro c' (by simp [hc'])), C09_model_readonly_call st c.1 c.2 (hro c (by simp))]

/-- and a mutating call is not covered: Mkdir changes the store of the initial file system -/
example : Call.readOnly (.mkdir [97] 0o755) = false := rfl

end Avfs.FS
