import Avfs.OSType
import Avfs.Volumes
/-
  C17 — OS-type emulation does not depend on the host.
  Decision logic of SetOSType stated outright; the agreement of the Windows-typed and Linux-typed emulations on portable
  histories is an oracle run (`corr ostype`: the four OS × file-system configurations in lockstep).
-/
namespace Avfs.OSType

/-- with OS-type selection enabled at build time every requested type is honoured, whatever the host -/
theorem C17_tag_on (host req : OS) : setOSType true host req = some (if req = .unknown then host else req) := by
  cases host <;> cases req <;> rfl

/-- without it only the host type (or "unknown" = host) is accepted; a foreign type is refused -/
theorem C17_tag_off (host req : OS) :
    setOSType false host req = (if req = .unknown ∨ req = host then some host else none) := by
  cases host <;> cases req <;> rfl

/-- the reported type never depends on the host once a concrete type is requested with the tag on -/
theorem C17_host_independent (h1 h2 req : OS) (hr : req ≠ .unknown) : setOSType true h1 req = setOSType true h2 req := by
  cases h1 <;> cases h2 <;> cases req <;> simp_all [setOSType]

/-- Windows uses '\\', every other type '/' -/
theorem C17_separator (os : OS) : pathSeparator os = (if os = .windows then 92 else 47) := by
  cases os <;> rfl

end Avfs.OSType

/-! ### Volume management (VolumeAdd / VolumeDelete / VolumeList of a Windows-typed MemFS)
  The model `Avfs.Volumes` is compared call by call with the implementation by `corr volumes` (all sequences of
  volume-management calls over a few volume names, with a file created in and listed from the volumes in between). -/
namespace Avfs.Volumes
open Avfs Avfs.Path

theorem lookup_isSome_iff_mem_keys {κ ν : Type} [DecidableEq κ] (k : κ) (l : List (κ × ν)) :
    (AL.lookup k l).isSome ↔ k ∈ AL.keys l := by
  induction l with
  | nil => simp [AL.keys]
  | cons p l ih =>
    obtain ⟨k', v⟩ := p
    by_cases h : k' = k
    · simp [AL.lookup, AL.keys, h]
    · have h' : ¬ k = k' := fun e => h e.symm
      simp only [AL.lookup, h, if_false, AL.keys, List.map_cons, List.mem_cons, h', false_or]
      simpa [AL.keys] using ih

theorem mem_dedup (a : Bytes) (l : List Bytes) : a ∈ dedup l ↔ a ∈ l := by
  induction l with
  | nil => simp [dedup]
  | cons b l ih =>
    unfold dedup
    split
    · rename_i hb
      rw [ih]; constructor
      · exact fun h => List.mem_cons_of_mem _ h
      · intro h; rcases List.mem_cons.1 h with e | e
        · subst e; exact hb
        · exact e
    · simp [ih]

theorem nodup_dedup (l : List Bytes) : (dedup l).Nodup := by
  induction l with
  | nil => simp [dedup]
  | cons b l ih =>
    unfold dedup
    split
    · exact ih
    · rename_i hb
      exact List.nodup_cons.2 ⟨fun h => hb ((mem_dedup b l).1 h), ih⟩

/-- VolumeList = exactly the volumes that exist, each once -/
theorem C17_list_iff (s : VState) (v : Bytes) : v ∈ list s ↔ (names s v).isSome := by
  simp only [list, names, mem_dedup, lookup_isSome_iff_mem_keys, AL.keys]

theorem C17_list_nodup (s : VState) : (list s).Nodup := by
  simp only [list]; exact nodup_dedup _

/-- a successful VolumeAdd makes an EMPTY volume named `VolumeName(path)` -/
theorem C17_add_empty (s s' : VState) (p : Bytes) (h : add s p = (s', none)) :
    names s' (volumeName .windows p) = some [] := by
  unfold add at h
  simp only at h
  split at h
  · simp at h
  · split at h
    · simp at h
    · simp at h; subst h; simp [names]

/-- VolumeAdd succeeds exactly on a path with a volume name that names no existing volume -/
theorem C17_add_ok_iff (s : VState) (p : Bytes) :
    (add s p).2 = none ↔ (volumeName .windows p ≠ [] ∧ names s (volumeName .windows p) = none) := by
  unfold add names
  simp only
  by_cases h1 : (volumeName .windows p).isEmpty
  · simp [h1]; intro h; simp [List.isEmpty_iff] at h1; exact absurd h1 h
  · by_cases h2 : (AL.lookup (volumeName .windows p) s.vols).isSome
    · simp [h1, h2]; intro _; cases hh : AL.lookup (volumeName OS.windows p) s.vols <;> simp_all
    · simp [h1, h2]; simp [List.isEmpty_iff] at h1; simp_all

/-- a successful VolumeDelete removes the volume: it is not listed and nothing can be reached in it -/
theorem C17_delete_gone (s s' : VState) (p : Bytes) (h : delete s p = (s', none)) :
    names s' (volumeName .windows p) = none ∧ volumeName .windows p ∉ list s' := by
  have h1 : names s' (volumeName .windows p) = none := by
    unfold delete at h
    simp only at h
    split at h
    · simp at h
    · split at h
      · simp at h
      · simp at h; subst h; simp [names]
  refine ⟨h1, ?_⟩
  rw [C17_list_iff, h1]; simp

/-- deleting a volume and adding it again gives an empty volume: nothing of the old one comes back
    (whatever happened in between on other volumes is covered by `C17_others_untouched`) -/
theorem C17_delete_add_empty (s s1 s2 : VState) (p q : Bytes) (hv : volumeName .windows p = volumeName .windows q)
    (_h1 : delete s p = (s1, none)) (h2 : add s1 q = (s2, none)) :
    names s2 (volumeName .windows p) = some [] := by
  rw [hv]; exact C17_add_empty s1 s2 q h2

/-- volume management calls never change another volume -/
theorem C17_others_untouched (s : VState) (p v : Bytes) (hv : v ≠ volumeName .windows p) :
    names (add s p).1 v = names s v ∧ names (delete s p).1 v = names s v := by
  have hv' : volumeName .windows p ≠ v := fun e => hv e.symm
  constructor
  · unfold add; simp only
    split
    · rfl
    · split
      · rfl
      · simp [names, hv']
  · unfold delete; simp only
    split
    · rfl
    · split
      · rfl
      · simp [names, hv']

/-- creating a file in a volume shows in that volume and in no other -/
theorem C17_touch (s s' : VState) (vol n : Bytes) (h : touch s vol n = (s', none)) :
    (∃ ns, names s' vol = some ns ∧ n ∈ ns) ∧ ∀ v, v ≠ vol → names s' v = names s v := by
  unfold touch at h
  split at h
  · simp at h
  · rename_i ns hl
    simp at h; subst h
    constructor
    · refine ⟨(if n ∈ ns then ns else n :: ns), by simp [names], ?_⟩
      split
      · rename_i hc; simpa using hc
      · simp
    · intro v hv
      have hv' : vol ≠ v := fun e => hv e.symm
      simp [names, hv']

/-- non-vacuity: the life cycle on a concrete state -/
example : let s0 := init [[85]]
    let s1 := (add s0 [68, 58]).1
    let s2 := (touch s1 [68, 58] [102]).1
    let s3 := (delete s2 [68, 58, 92, 120]).1
    let s4 := (add s3 [68, 58]).1
    names s2 [68, 58] = some [[102]] ∧ names s3 [68, 58] = none ∧ names s4 [68, 58] = some [] ∧
    names s4 defaultVolume = some [[85]] := by decide +kernel

end Avfs.Volumes
