import Avfs.OSType
/-
  C17 — OS-type emulation does not depend on the host.
  Decision logic of SetOSType stated outright; the agreement of the Windows-typed and Linux-typed emulations on portable
  histories is an oracle run (`corr ostype`: the four OS × file-system configurations in lockstep).
-/
namespace Avfs.OSType

/-- with OS-type selection enabled at build time every requested type is honoured, whatever the host -/
theorem C17_tag_on (host req : OS) : setOSType true host req = some (if req = .unknown then host else req) := by
  cases host <;> cases req <;> rfl

/-- without it only the host type (or "unknown" = host) is accepted; a foreign type is refused -/
theorem C17_tag_off (host req : OS) :
    setOSType false host req = (if req = .unknown ∨ req = host then some host else none) := by
  cases host <;> cases req <;> rfl

/-- the reported type never depends on the host once a concrete type is requested with the tag on -/
theorem C17_host_independent (h1 h2 req : OS) (hr : req ≠ .unknown) : setOSType true h1 req = setOSType true h2 req := by
  cases h1 <;> cases h2 <;> cases req <;> simp_all [setOSType]

/-- Windows uses '\\', every other type '/' -/
theorem C17_separator (os : OS) : pathSeparator os = (if os = .windows then 92 else 47) := by
  cases os <;> rfl

end Avfs.OSType
