import Avfs.Lemmas.DirHandle
import Avfs.Lemmas.FileAttr
import Avfs.Lemmas.Posix2
/-
  C02 (continued) — directory handles and attribute operations of MemFS handles against their reference.
  Subject: `Avfs.FS.fileStep` (model of memfs_file.go) on `.readDir n`, `.readdirnames n`, `.stat`, `.chmod`, `.chown`,
  `.sync`, `.chdir`, `.close`.

  A. Directory streams.  The reference (Lemmas/DirHandle.lean): `streamStep` — one method's stream over a snapshot with a
     position, written with `drop`/`take` of what remains; `DirRef` / `dirRefStep` — the two streams of a handle (ReadDir,
     Readdirnames), each with its own snapshot, sharing ONE position; the listing of the directory is an INPUT of every
     call (`Option DirListing`): the directory is whatever the other calls have made of it.
       C02_dir_step_refines      one call = one step of the reference; heap and view untouched
       C02_dir_history_refines   every history, every count, every sequence of heaps: same results, same final state
       C02_dir_results           no panic; n > 0: EOF or a non-empty batch of at most n; n ≤ 0: the listing of the moment
       C02_dir_no_repeat         one method, one pass: the batches are the snapshot, in order, nothing twice or skipped,
                                 then EOF; the snapshot is the listing at the first call of the pass
       C02_dir_snapshot          provenance: a snapshot is never older than the last rewind of its method
       C02_dir_position          the position is inside the snapshot of the method called last
       C02_dir_mixed             the two methods on one handle: what is delivered, where it repeats / skips (witnesses),
                                 the position beyond the other snapshot gives EOF (not a panic), and the mixed pass
  B. Attribute operations (Lemmas/FileAttr.lean): `C02_attr_<op>` — the call acts on the NODE of the handle, equals the
     path-level call on any path designating that node now, and touches nothing else; Close is for ever.
-/
set_option linter.unusedVariables false

namespace Avfs.FS
open Avfs.Path

/-! ## A. directory streams -/

/-- the reference, spelled out: one call with count `n` on a stream with snapshot `snap` (none: rewound) and position
    `pos`, the directory containing `cur` at that moment -/
theorem C02_dir_reference {α : Type} (snap : Option (List α)) (pos : Nat) (cur : List α) (n : Int) :
    (n ≤ 0 → streamStep snap pos cur n = (none, 0, .all cur)) ∧
    (0 < n → streamStep none pos cur n =
      if cur = [] then (none, 0, .eof) else (some cur, (cur.take n.toNat).length, .batch (cur.take n.toNat))) ∧
    (0 < n → ∀ L, streamStep (some L) pos cur n =
      if L.length ≤ pos then (none, 0, .eof)
      else (some L, pos + ((L.drop pos).take n.toNat).length, .batch ((L.drop pos).take n.toNat))) :=
  ⟨streamStep_nonpos snap pos cur n, streamStep_fresh pos cur n, fun hn L => streamStep_cached L pos cur n hn⟩

/-- … and the directory handle: each method runs that step on its own snapshot and the shared position -/
theorem C02_dir_reference_handle (r : DirRef) (L : DirListing) (n : Int) :
    dirRefStep r none (.readDir n) = (r, .err .ENOTDIR) ∧ dirRefStep r none (.readdirnames n) = (r, .err .ENOTDIR) ∧
    dirRefStep r (some L) (.readDir n) =
      ({ r with ents := (streamStep r.ents r.pos L.ents n).1, pos := (streamStep r.ents r.pos L.ents n).2.1 },
       (streamStep r.ents r.pos L.ents n).2.2.toOut .infos) ∧
    dirRefStep r (some L) (.readdirnames n) =
      ({ r with names := (streamStep r.names r.pos L.names n).1, pos := (streamStep r.names r.pos L.names n).2.1 },
       (streamStep r.names r.pos L.names n).2.2.toOut .names) :=
  ⟨rfl, rfl, rfl, rfl⟩

/-- ONE CALL of ReadDir(n) / Readdirnames(n), any n, on any open handle of the inode `i`, in any heap: the result and
    the new stream state are those of the reference on the listing `i` has in this heap (sorted names; their `Info`s);
    the heap and the view are not changed, nor any other field of the handle -/
theorem C02_dir_step_refines (s : Store) (v : View) (h : Handle) (i : Ino) (c : DirCall)
    (hn : h.name ≠ []) (hnd : h.nd = some i) :
    fileStep s v h c.toFOp =
      (s, v, h.withDir (dirRefStep h.dirRef (dirSeen s i) c).1, (dirRefStep h.dirRef (dirSeen s i) c).2) ∧
    (∀ m ch, s.get i = some (.dir m ch) → dirSeen s i =
      some ⟨(s.names i).filterMap fun nm => (s.child i nm).bind fun c => fillStat s c nm, s.names i⟩) ∧
    ((∀ m ch, s.get i ≠ some (.dir m ch)) → dirSeen s i = none) := by
  refine ⟨dirStep_refines s v h i c hn hnd, ?_, ?_⟩
  · intro m ch hg; simp [dirSeen, hg]
  · intro hnot
    unfold dirSeen
    split
    · rename_i m ch hg; exact absurd hg (hnot m ch)
    · rfl

/-- ALL HISTORIES: ReadDir / Readdirnames calls with arbitrary counts (positive, zero, negative, huge) on one handle,
    each call in a heap of its own — the directory, and anything else, changes arbitrarily between the calls —: the
    model returns the results of the reference and ends in its state -/
theorem C02_dir_history_refines (v : View) (i : Ino) (h : Handle) (hist : List (Store × DirCall))
    (hn : h.name ≠ []) (hnd : h.nd = some i) :
    (dirModelRun v h hist).2 = (dirRefRun h.dirRef (listingsOf i hist)).2 ∧
    (dirModelRun v h hist).1 = h.withDir (dirRefRun h.dirRef (listingsOf i hist)).1 ∧
    (∀ (s : Store) (h' : Handle) (c : DirCall),
      (fileStep s v h' c.toFOp).1 = s ∧ (fileStep s v h' c.toFOp).2.1 = v) := by
  have := dirRun_refines v i hist h hn hnd
  exact ⟨by rw [this], by rw [this], fun s h' c => dirStep_frame s v h' c⟩

/-- NO PANIC, and the shape of every result of every history of the model: result number `k`, of the call `c` in the
    heap `s`, is ENOTDIR if `i` is not a directory there; for n ≤ 0 the whole listing of `i` in `s`; for n > 0 EOF or a
    batch that is not empty and has at most n entries -/
theorem C02_dir_results (v : View) (i : Ino) (h : Handle) (hist : List (Store × DirCall))
    (hn : h.name ≠ []) (hnd : h.nd = some i) (k : Nat) (s : Store) (c : DirCall) (o : Out)
    (hk : hist[k]? = some (s, c)) (ho : (dirModelRun v h hist).2[k]? = some o) :
    o ≠ .panic ∧ o ≠ .hang ∧
    (dirSeen s i = none → o = .err .ENOTDIR) ∧
    (∀ L, dirSeen s i = some L → c.count ≤ 0 → o = c.allOut L) ∧
    (∀ L, dirSeen s i = some L → 0 < c.count → o = outEOF ∨ ∃ m, outLen o = some m ∧ 0 < m ∧ m ≤ c.count.toNat) := by
  rw [(C02_dir_history_refines v i h hist hn hnd).1] at ho
  have hk' : (listingsOf i hist)[k]? = some (dirSeen s i, c) := by simp [listingsOf, hk]
  exact dirRefRun_results h.dirRef (listingsOf i hist) k (dirSeen s i) c o hk' ho

/-- ONE PASS, ONE METHOD (Readdirnames; `C02_dir_no_repeat_entries` is ReadDir): any handle on the directory `i`, any
    sequence of Readdirnames(n) with n > 0, the heap — hence the directory — different at each call.  With `start` the
    names the pass starts with (what is left of the handle's snapshot; for a rewound stream the listing of `i` AT THE
    FIRST CALL): the batches delivered before the first EOF are, put together, exactly the first Σ n names of `start` —
    in order, none delivered twice, none skipped, whatever is created or removed meanwhile —; if the pass reaches EOF they
    are all of `start`, and EOF is the result right after the last batch.  For a rewound stream no name occurs twice. -/
theorem C02_dir_no_repeat (v : View) (i : Ino) (h : Handle) (hn : h.name ≠ []) (hnd : h.nd = some i)
    (hist : List (Store × Int)) (hdir : ∀ x ∈ hist, ∃ m ch, x.1.get i = some (.dir m ch)) (hpos : ∀ x ∈ hist, 0 < x.2) :
    let outs := (dirModelRun v h (hist.map fun x => (x.1, DirCall.readdirnames x.2))).2
    let start := passStart h.dirNames h.dirIndex ((hist.head?.map fun x => x.1.names i).getD [])
    (namesBefore outs).flatten = start.take (hist.map (·.2.toNat)).sum ∧
    ((namesBefore outs).length < hist.length →
      (namesBefore outs).flatten = start ∧ outs[(namesBefore outs).length]? = some outEOF) ∧
    (h.dirNames = none → (namesBefore outs).flatten.Nodup) := by
  intro outs start
  have hp := model_names_pass v i h hn hnd hist hdir hpos
  simp only [] at hp
  refine ⟨hp.1, hp.2, ?_⟩
  intro hfresh
  have h1 := hp.1
  simp only [hfresh, passStart, theListing] at h1
  show (namesBefore (dirModelRun v h (hist.map fun x => (x.1, DirCall.readdirnames x.2))).2).flatten.Nodup
  rw [h1]
  apply List.Sublist.nodup (List.take_sublist _ _)
  cases hist with
  | nil => simp
  | cons x rest => simpa using names_nodup x.1 i

/-- the same for ReadDir: the `Info`s of the snapshot, each once, in order; for a rewound stream their names are distinct -/
theorem C02_dir_no_repeat_entries (v : View) (i : Ino) (h : Handle) (hn : h.name ≠ []) (hnd : h.nd = some i)
    (hist : List (Store × Int)) (hdir : ∀ x ∈ hist, ∃ m ch, x.1.get i = some (.dir m ch)) (hpos : ∀ x ∈ hist, 0 < x.2) :
    let outs := (dirModelRun v h (hist.map fun x => (x.1, DirCall.readDir x.2))).2
    let start := passStart h.dirEntries h.dirIndex ((hist.head?.map fun x => (theListing x.1 i).ents).getD [])
    (entsBefore outs).flatten = start.take (hist.map (·.2.toNat)).sum ∧
    ((entsBefore outs).length < hist.length →
      (entsBefore outs).flatten = start ∧ outs[(entsBefore outs).length]? = some outEOF) ∧
    (h.dirEntries = none → ((entsBefore outs).flatten.map (·.name)).Nodup) := by
  intro outs start
  have hp := model_ents_pass v i h hn hnd hist hdir hpos
  simp only [] at hp
  refine ⟨hp.1, hp.2, ?_⟩
  intro hfresh
  have h1 := hp.1
  simp only [hfresh, passStart] at h1
  show ((entsBefore (dirModelRun v h (hist.map fun x => (x.1, DirCall.readDir x.2))).2).flatten.map (·.name)).Nodup
  rw [h1, List.map_take]
  apply List.Sublist.nodup (List.take_sublist _ _)
  cases hist with
  | nil => simp
  | cons x rest =>
    obtain ⟨m, ch, hg⟩ := hdir x (by simp)
    have := (dirSeen_facts x.1 i (theListing x.1 i) (dirSeen_dir x.1 i m ch hg)).2.2.2.2
    simpa using this

/-- ONE METHOD IS A QUEUE.  A handle on which only Readdirnames is called (any counts: positive, zero, negative), the
    directory changing arbitrarily: the results are those of a consuming QUEUE of the names still to be delivered —
    `queueStep`: n ≤ 0: the listing of the moment, the queue is dropped; n > 0: an empty or absent queue is refilled with
    the listing of the moment; if it is (still) empty: EOF, otherwise its first n names are taken out and delivered.  There
    is no position in that description: nothing can be delivered twice, nothing can be skipped.  The same for ReadDir. -/
theorem C02_dir_one_method_is_queue (r : DirRef) (hist : List (DirListing × Int)) :
    (dirRefRun r (namesHist hist)).2 =
      (queueRun (r.names.map (·.drop r.pos)) (hist.map fun x => (x.1.names, x.2))).2.map (Got.toOut .names) ∧
    (dirRefRun r (entsHist hist)).2 =
      (queueRun (r.ents.map (·.drop r.pos)) (hist.map fun x => (x.1.ents, x.2))).2.map (Got.toOut .infos) ∧
    (∀ {α : Type} (rem : Option (List α)) (cur : List α) (n : Int),
      (n ≤ 0 → queueStep rem cur n = (none, .all cur)) ∧
      (0 < n → rem.getD cur = [] → queueStep rem cur n = (none, .eof)) ∧
      (0 < n → rem.getD cur ≠ [] →
        queueStep rem cur n = (some ((rem.getD cur).drop n.toNat), .batch ((rem.getD cur).take n.toNat)))) := by
  refine ⟨?_, ?_, fun rem cur n => ⟨queueStep_nonpos rem cur n, queueStep_empty rem cur n, queueStep_ne rem cur n⟩⟩
  · rw [dirRefRun_namesHist]
    have hq : QRel r.names r.pos (r.names.map (·.drop r.pos)) := by cases r.names <;> simp [QRel]
    rw [(streamRun_eq_queueRun _ r.names r.pos _ hq).1]
  · rw [dirRefRun_entsHist]
    have hq : QRel r.ents r.pos (r.ents.map (·.drop r.pos)) := by cases r.ents <;> simp [QRel]
    rw [(streamRun_eq_queueRun _ r.ents r.pos _ hq).1]

/-- every batch of a pass, of either method, anywhere in any history: see `C02_dir_results` (non-empty, at most n) -/
theorem C02_dir_batch_bound (r : DirRef) (L : DirListing) (c : DirCall) (hc : 0 < c.count) :
    (dirRefStep r (some L) c).2 = outEOF ∨
    ∃ m, outLen (dirRefStep r (some L) c).2 = some m ∧ 0 < m ∧ m ≤ c.count.toNat :=
  dirRefStep_batch r L c hc

/-- A SNAPSHOT IS NEVER OLDER THAN THE LAST REWIND of its method.  At every point `k` of every history: the Readdirnames
    snapshot, if there is one, was there from the start and no call has touched it, or it is the listing the directory
    had at a call `t` of Readdirnames(n > 0) that found the Readdirnames stream REWOUND (no snapshot: fresh handle, after
    EOF, after n ≤ 0), and it has been there at every point since.  The same for ReadDir. -/
theorem C02_dir_snapshot (r : DirRef) (hist : List (Option DirListing × DirCall)) (k : Nat) :
    (∀ L, (dirRefAt r hist k).names = some L →
      (∀ j, j ≤ k → (dirRefAt r hist j).names = some L) ∨
      ∃ t, t < k ∧ (∃ cur n, hist[t]? = some (some cur, .readdirnames n) ∧ 0 < n ∧ cur.names = L) ∧
        (dirRefAt r hist t).names = none ∧ ∀ j, t < j → j ≤ k → (dirRefAt r hist j).names = some L) ∧
    (∀ L, (dirRefAt r hist k).ents = some L →
      (∀ j, j ≤ k → (dirRefAt r hist j).ents = some L) ∨
      ∃ t, t < k ∧ (∃ cur n, hist[t]? = some (some cur, .readDir n) ∧ 0 < n ∧ cur.ents = L) ∧
        (dirRefAt r hist t).ents = none ∧ ∀ j, t < j → j ≤ k → (dirRefAt r hist j).ents = some L) :=
  ⟨fun L h => names_provenance r hist k L h, fun L h => ents_provenance r hist k L h⟩

/-- … `dirRefAt` is the state of the model's handle at that point; a rewind (`all`, EOF) leaves nothing of the past -/
theorem C02_dir_states (v : View) (i : Ino) (h : Handle) (hist : List (Store × DirCall))
    (hn : h.name ≠ []) (hnd : h.nd = some i) (k : Nat) :
    (dirModelRun v h (hist.take k)).1 = h.withDir (dirRefAt h.dirRef (listingsOf i hist) k) ∧
    (∀ (r : DirRef) (L : DirListing) (n : Int),
      ((dirRefStep r (some L) (.readdirnames n)).2 = outEOF ∨ n ≤ 0) →
        (dirRefStep r (some L) (.readdirnames n)).1 = { r with names := none, pos := 0 }) ∧
    (∀ (r : DirRef) (L : DirListing) (n : Int),
      ((dirRefStep r (some L) (.readDir n)).2 = outEOF ∨ n ≤ 0) →
        (dirRefStep r (some L) (.readDir n)).1 = { r with ents := none, pos := 0 }) := by
  refine ⟨?_, ?_, ?_⟩
  · rw [(C02_dir_history_refines v i h (hist.take k) hn hnd).2.1]
    simp [dirRefAt, listingsOf, List.map_take]
  · intro r L n hor
    rw [dirRefStep_readdirnames] at hor ⊢
    have : ∀ b, (streamStep r.names r.pos L.names n).2.2 ≠ .batch b := by
      intro b hb
      rcases hor with h1 | h1
      · rw [hb] at h1; simp [Got.toOut, outEOF] at h1
      · rw [streamStep_nonpos _ _ _ _ h1] at hb; simp at hb
    obtain ⟨h1, h2⟩ := streamStep_rewound this
    simp only [h1, h2]
  · intro r L n hor
    rw [dirRefStep_readDir] at hor ⊢
    have : ∀ b, (streamStep r.ents r.pos L.ents n).2.2 ≠ .batch b := by
      intro b hb
      rcases hor with h1 | h1
      · rw [hb] at h1; simp [Got.toOut, outEOF] at h1
      · rw [streamStep_nonpos _ _ _ _ h1] at hb; simp at hb
    obtain ⟨h1, h2⟩ := streamStep_rewound this
    simp only [h1, h2]

/-- THE POSITION: after a call of one method it is inside the snapshot THAT method has then (0 if none) — so it never
    exceeds the longer of the two snapshots, at any point of any history from a handle where this holds (a fresh one) —,
    but it may exceed the snapshot of the OTHER method (`C02_dir_mixed_witnesses`) -/
theorem C02_dir_position (r : DirRef) (hist : List (Option DirListing × DirCall)) (k : Nat) :
    (∀ (L : DirListing) (c : DirCall), (dirRefStep r (some L) c).1.pos ≤ (dirRefStep r (some L) c).1.snapLen c) ∧
    (PosOK r → PosOK (dirRefAt r hist k)) ∧ PosOK DirRef.fresh :=
  ⟨fun L c => dirRefStep_pos_le r L c, fun h => dirRefAt_posOK r hist k h, posOK_fresh⟩

/-- MIXED USE, the rule.  A call never looks at or changes the other method's snapshot.  With both snapshots taken
    (`E` for ReadDir, `N` for Readdirnames) a call with n > 0 slices ITS OWN snapshot at THE position `p` left by the last
    call of either method — whatever the directory contains by now —: inside its snapshot it delivers `[p, p+n)` of it and
    moves the position; at or BEYOND its end (the snapshots may have different lengths) it reports EOF — it does not
    panic —, drops its snapshot and rewinds the position, the other snapshot staying.  A method whose stream is rewound
    takes a new snapshot at its next call with n > 0 and RESTARTS the position at 0 for both. -/
theorem C02_dir_mixed (E : List Info) (N : List Bytes) (p : Nat) (cur : DirListing) (n : Int) (hn : 0 < n)
    (r : DirRef) (c : DirCall) (curo : Option DirListing) :
    dirRefStep ⟨some E, some N, p⟩ (some cur) (.readDir n) =
      (if E.length ≤ p then (⟨none, some N, 0⟩, outEOF)
       else (⟨some E, some N, p + ((E.drop p).take n.toNat).length⟩, .ok (.infos ((E.drop p).take n.toNat)))) ∧
    dirRefStep ⟨some E, some N, p⟩ (some cur) (.readdirnames n) =
      (if N.length ≤ p then (⟨some E, none, 0⟩, outEOF)
       else (⟨some E, some N, p + ((N.drop p).take n.toNat).length⟩, .ok (.names ((N.drop p).take n.toNat)))) ∧
    (cur.names ≠ [] → dirRefStep ⟨some E, none, p⟩ (some cur) (.readdirnames n) =
      (⟨some E, some cur.names, (cur.names.take n.toNat).length⟩, .ok (.names (cur.names.take n.toNat)))) ∧
    (cur.ents ≠ [] → dirRefStep ⟨none, some N, p⟩ (some cur) (.readDir n) =
      (⟨some cur.ents, some N, (cur.ents.take n.toNat).length⟩, .ok (.infos (cur.ents.take n.toNat)))) ∧
    (c.isNames = false → (dirRefStep r curo c).1.names = r.names) ∧
    (c.isNames = true → (dirRefStep r curo c).1.ents = r.ents) ∧
    (dirRefStep r curo c).2 ≠ .panic := by
  refine ⟨mixed_cursor E N p cur (.readDir n) hn, mixed_cursor E N p cur (.readdirnames n) hn, ?_, ?_,
    (dirRefStep_other r curo c).1, (dirRefStep_other r curo c).2, (dirRefStep_no_panic r curo c).1⟩
  · intro hne; exact (mixed_restart ⟨some E, none, p⟩ cur n hn).1 rfl hne
  · intro hne; exact (mixed_restart ⟨none, some N, p⟩ cur n hn).2 rfl hne

/-- MIXED USE, a pass.  When the two snapshots show the same directory state (`E.map name = N`: taken of an unchanged
    well-formed directory, `dirSeen_consistent`), any interleaving of the two methods with counts > 0 from the position
    `p`, the directory changing arbitrarily meanwhile, delivers — as `Info`s or as names — every name from `p` on exactly
    once, in order, by one method or the other; EOF comes right after the last -/
theorem C02_dir_mixed_pass (E : List Info) (N : List Bytes) (hEN : E.map (·.name) = N)
    (hist : List (DirListing × DirCall)) (hpos : ∀ x ∈ hist, 0 < x.2.count) (p : Nat) :
    let outs := (dirRefRun ⟨some E, some N, p⟩ (hist.map fun x => (some x.1, x.2))).2
    (deliveredNames outs).flatten = (N.drop p).take (hist.map (·.2.count.toNat)).sum ∧
    ((deliveredNames outs).length < hist.length →
      (deliveredNames outs).flatten = N.drop p ∧ outs[(deliveredNames outs).length]? = some outEOF) :=
  mixed_pass E N hEN hist hpos p

/-- MIXED USE, what goes wrong (kernel-checked on the directory {a,b,c,d,e}, later {x,y}): an entry delivered twice;
    entries skipped; the position (4) beyond the other method's snapshot (2 names): EOF, not a panic, after which ReadDir
    delivers the head of its OLD snapshot again; n ≤ 0 of one method rewinds the position under the other's snapshot -/
theorem C02_dir_mixed_witnesses :
    (dirRefRun .fresh [(some wL5, .readDir 2), (some wL5, .readdirnames 1), (some wL5, .readDir 2)]).2 =
      [.ok (.infos [wInfo [97], wInfo [98]]), .ok (.names [[97]]), .ok (.infos [wInfo [98], wInfo [99]])] ∧
    (dirRefRun .fresh [(some wL5, .readDir 1), (some wL5, .readdirnames 3), (some wL5, .readDir 1)]).2 =
      [.ok (.infos [wInfo [97]]), .ok (.names [[97], [98], [99]]), .ok (.infos [wInfo [100]])] ∧
    (let hist := [(some wL5, DirCall.readDir 4), (some wL2, .readdirnames 1), (some wL2, .readDir 3),
        (some wL2, .readdirnames 1), (some wL2, .readDir 2)]
     (dirRefRun .fresh hist).2 =
        [.ok (.infos [wInfo [97], wInfo [98], wInfo [99], wInfo [100]]), .ok (.names [[120]]),
         .ok (.infos [wInfo [98], wInfo [99], wInfo [100]]), outEOF, .ok (.infos [wInfo [97], wInfo [98]])] ∧
      dirRefAt .fresh hist 3 = ⟨some wL5.ents, some wL2.names, 4⟩ ∧
      dirRefAt .fresh hist 4 = ⟨some wL5.ents, none, 0⟩) ∧
    (dirRefRun .fresh [(some wL2, .readdirnames 1), (some wL5, .readDir (-1)), (some wL5, .readdirnames 1)]).2 =
      [.ok (.names [[120]]), .ok (.infos wL5.ents), .ok (.names [[120]])] :=
  ⟨mixed_delivers_twice, mixed_skips, mixed_pos_exceeds_other, mixed_all_keeps_other⟩

/-- the listings the model shows: names sorted and distinct; the `Info`s are those of the names whose inode is
    allocated, each under its name, in the same order; in a well-formed heap the two listings show the same names -/
theorem C02_dir_listing (s : Store) (i : Ino) (L : DirListing) (h : dirSeen s i = some L) :
    L.names = s.names i ∧ L.names.Nodup ∧ L.names.Pairwise (fun a b => bytesLt a b = true) ∧
    L.ents.map (·.name) = L.names.filter (fun n => ((s.child i n).bind fun c => s.get c).isSome) ∧
    ((∀ nm c, s.child i nm = some c → (s.get c).isSome = true) → L.ents.map (·.name) = L.names) := by
  obtain ⟨h1, h2, h3, h4, _⟩ := dirSeen_facts s i L h
  exact ⟨h1, h2, h3, h4, dirSeen_consistent s i L h⟩

/-! ### non-vacuity: a real history on a real heap -/

/-- the names a result carries -/
def outNames : Out → Option (List Bytes)
  | .ok (.names l) => some l
  | .ok (.infos l) => some (l.map (·.name))
  | _ => none

/-- "/", inode 0 of `pxStore`: entries a, home, root, tmp -/
def dxRoot : Handle := handleOn 0 [SL] omRead 0
/-- the administrator creates "/zz" … -/
@[irreducible] def dxStore1 : Store := (mkdir pxStore px2Adm [SL, 122, 122] 0o755).1
/-- … and removes "/home" -/
@[irreducible] def dxStore2 : Store := (remove dxStore1 px2Adm [SL, 104, 111, 109, 101]).1
/-- "/home" and "/root" removed from `pxStore`: "/" has the two entries a, tmp -/
@[irreducible] def dxStore3 : Store :=
  (remove (remove pxStore px2Adm [SL, 104, 111, 109, 101]).1 px2Adm [SL, 114, 111, 111, 116]).1

theorem dxStores_ok :
    (mkdir pxStore px2Adm [SL, 122, 122] 0o755).2 = .ok .unit ∧
    (remove dxStore1 px2Adm [SL, 104, 111, 109, 101]).2 = .ok .unit ∧
    (WF dxStore2 0 ∧ NamesOK dxStore2) ∧ (WF dxStore3 0 ∧ NamesOK dxStore3) :=
  ⟨by decide +kernel, by decide +kernel, wfCheck_sound dxStore2 0 (by decide +kernel),
   wfCheck_sound dxStore3 0 (by decide +kernel)⟩

/-- the history used below: Readdirnames(1); mkdir /zz; Readdirnames(2); rmdir /home; Readdirnames(5), (1), (1), (0);
    ReadDir(-1); ReadDir(2^63-1) -/
def dxHist : List (Store × DirCall) :=
  [(pxStore, .readdirnames 1), (dxStore1, .readdirnames 2), (dxStore2, .readdirnames 5), (dxStore2, .readdirnames 1),
   (dxStore2, .readdirnames 1), (dxStore2, .readdirnames 0), (dxStore2, .readDir (-1)),
   (dxStore2, .readDir 9223372036854775807)]

/-- the first pass delivers a | home, root | tmp — the snapshot taken at the first call: "zz", created meanwhile, is not
    in it; "home", removed meanwhile, is — then EOF; the next call takes a new snapshot (a, …); n = 0 and n = -1 show the
    directory as it is now (a, root, tmp, zz); a huge count delivers all four at once -/
theorem C02_dir_example :
    (dirModelRun exView dxRoot dxHist).2.map outNames =
      [some [[97]], some [[104, 111, 109, 101], [114, 111, 111, 116]], some [[116, 109, 112]], none, some [[97]],
       some [[97], [114, 111, 111, 116], [116, 109, 112], [122, 122]],
       some [[97], [114, 111, 111, 116], [116, 109, 112], [122, 122]],
       some [[97], [114, 111, 111, 116], [116, 109, 112], [122, 122]]] ∧
    (dirModelRun exView dxRoot dxHist).2[3]? = some outEOF ∧
    (dirModelRun exView dxRoot dxHist).1.dirNames = none ∧
    (dirModelRun exView dxRoot dxHist).1.dirIndex = 4 ∧
    -- the theorem applies: these are the results of the reference on the listings of "/" in the four heaps
    (dirModelRun exView dxRoot dxHist).2 = (dirRefRun DirRef.fresh (listingsOf 0 dxHist)).2 := by
  refine ⟨by decide +kernel, by decide +kernel, by decide +kernel, by decide +kernel, ?_⟩
  exact (C02_dir_history_refines exView 0 dxRoot dxHist (by decide) rfl).1

/-- `C02_dir_no_repeat` applies to the first four calls: the hypotheses hold ("/" is a directory in each heap), the
    pass reaches EOF after three batches, which are together the listing of "/" at the FIRST call -/
theorem C02_dir_no_repeat_example :
    let hist : List (Store × Int) := [(pxStore, 1), (dxStore1, 2), (dxStore2, 5), (dxStore2, 1)]
    (∀ x ∈ hist, ∃ m ch, x.1.get 0 = some (.dir m ch)) ∧ (∀ x ∈ hist, 0 < x.2) ∧
    namesBefore (dirModelRun exView dxRoot (hist.map fun x => (x.1, DirCall.readdirnames x.2))).2 =
      [[[97]], [[104, 111, 109, 101], [114, 111, 111, 116]], [[116, 109, 112]]] ∧
    pxStore.names 0 = [[97], [104, 111, 109, 101], [114, 111, 111, 116], [116, 109, 112]] := by
  refine ⟨?_, by decide, by decide +kernel, by decide +kernel⟩
  intro x hx
  simp only [List.mem_cons, List.not_mem_nil, or_false] at hx
  have h0 : ∃ m ch, pxStore.get 0 = some (.dir m ch) := by
    cases h : pxStore.get 0 with
    | none => exact absurd h (by decide +kernel)
    | some n =>
      cases n with
      | dir m ch => exact ⟨m, ch, rfl⟩
      | file m d nl id => exact absurd (show (pxStore.get 0).map Node.isDir = some true by decide +kernel) (by rw [h]; simp [Node.isDir])
      | symlink m l => exact absurd (show (pxStore.get 0).map Node.isDir = some true by decide +kernel) (by rw [h]; simp [Node.isDir])
  have h1 : ∃ m ch, dxStore1.get 0 = some (.dir m ch) := by
    cases h : dxStore1.get 0 with
    | none => exact absurd h (by decide +kernel)
    | some n =>
      cases n with
      | dir m ch => exact ⟨m, ch, rfl⟩
      | file m d nl id => exact absurd (show (dxStore1.get 0).map Node.isDir = some true by decide +kernel) (by rw [h]; simp [Node.isDir])
      | symlink m l => exact absurd (show (dxStore1.get 0).map Node.isDir = some true by decide +kernel) (by rw [h]; simp [Node.isDir])
  have h2 : ∃ m ch, dxStore2.get 0 = some (.dir m ch) := by
    cases h : dxStore2.get 0 with
    | none => exact absurd h (by decide +kernel)
    | some n =>
      cases n with
      | dir m ch => exact ⟨m, ch, rfl⟩
      | file m d nl id => exact absurd (show (dxStore2.get 0).map Node.isDir = some true by decide +kernel) (by rw [h]; simp [Node.isDir])
      | symlink m l => exact absurd (show (dxStore2.get 0).map Node.isDir = some true by decide +kernel) (by rw [h]; simp [Node.isDir])
  rcases hx with rfl | rfl | rfl | rfl
  · exact h0
  · exact h1
  · exact h2
  · exact h2

/-- the two methods mixed, on the model: ReadDir(3) on "/" = {a, home, root, tmp}; "/home" and "/root" are removed;
    Readdirnames(1) (snapshot a, tmp; the position restarts: 1); ReadDir(2) delivers home, root from its snapshot (position
    3, beyond the 2 names of the other snapshot); Readdirnames(1): EOF — no panic —; ReadDir(1) delivers "a" AGAIN -/
theorem C02_dir_mixed_example :
    let hist : List (Store × DirCall) := [(pxStore, .readDir 3), (dxStore3, .readdirnames 1), (dxStore3, .readDir 2),
      (dxStore3, .readdirnames 1), (dxStore3, .readDir 1)]
    (dirModelRun exView dxRoot hist).2.map outNames =
      [some [[97], [104, 111, 109, 101], [114, 111, 111, 116]], some [[97]],
       some [[104, 111, 109, 101], [114, 111, 111, 116]], none, some [[97]]] ∧
    (dirModelRun exView dxRoot hist).2[3]? = some outEOF ∧
    (dirModelRun exView dxRoot (hist.take 3)).1.dirIndex = 3 ∧
    (dirModelRun exView dxRoot (hist.take 3)).1.dirNames = some [[97], [116, 109, 112]] := by
  refine ⟨by decide +kernel, by decide +kernel, by decide +kernel, by decide +kernel⟩

/-! ## B. attribute operations: the handle designates a NODE

  `h.onNode i`: the handle is open (`h.nd = some i`) and has a name.  No theorem has a hypothesis about the names of the
  node `i` in the heap `s`: it may have been renamed, unlinked (link count 0) or replaced under its old name. -/

/-- Stat: the `Info` of the node (`Node.info`: kind, permission bits, owner, group, link count, size, id, mtime) under
    the base of the name RECORDED AT OPEN; nothing changes.  For any path `p` that designates the node now — in any view,
    through links, under another name — it is what Stat / Lstat of `p` answers, up to that `name` field. -/
theorem C02_attr_stat (s : Store) (v : View) (h : Handle) (i : Ino) (n : Node) (ho : h.onNode i) (hg : s.get i = some n) :
    fileStep s v h .stat = (s, v, h, .ok (.info (n.info (base .linux h.name)))) ∧
    fillStat s i (base .linux h.name) = some (n.info (base .linux h.name)) ∧
    (∀ (v' : View) (p : Bytes) (mode : SlMode), Designates s v' p mode i →
      ∃ inf, stat s v' p mode = (s, .ok (.info inf)) ∧
        fileStep s v h .stat = (s, v, h, .ok (.info { inf with name := base .linux h.name }))) :=
  ⟨fstat_eq s v h i n ho hg, by rw [fillStat_eq, hg]; rfl, fun v' p mode hd => fstat_path s v h i n ho hg v' p mode hd⟩

/-- Chmod (fchmod): `setMode` — the rule of the path-level Chmod: the owner or the administrator sets the permission
    bits (`mode &&& 0o7777`), anybody else gets EPERM and nothing changes — on the node of the handle; for any path that
    designates the node now it is Chmod of that path: same heap, same answer; no other node is touched -/
theorem C02_attr_chmod (s : Store) (v : View) (h : Handle) (i : Ino) (n : Node) (mode : Nat) (ho : h.onNode i)
    (hg : s.get i = some n) :
    fileStep s v h (.chmod mode) =
      (match setMode n mode v with
       | some n' => (s.set i n', v, h, .ok .unit)
       | none => (s, v, h, .err .EPERM)) ∧
    ((∀ m l, n ≠ .symlink m l) → fileStep s v h (.chmod mode) =
      if ownerOrAdminOf v n.meta then (s.set i (n.setMeta { n.meta with perm := mode &&& modeMask }), v, h, .ok .unit)
      else (s, v, h, .err .EPERM)) ∧
    (∀ p, Designates s v p .eval i →
      chmod s v p mode = ((fileStep s v h (.chmod mode)).1, (fileStep s v h (.chmod mode)).2.2.2)) ∧
    (∀ j, j ≠ i → (fileStep s v h (.chmod mode)).1.get j = s.get j) :=
  ⟨fchmod_eq s v h i n mode ho hg, fchmod_rule s v h i n mode ho hg, fun p hd => fchmod_path s v h i n mode ho hg p hd,
   (fileStep_frame s v h i (.chmod mode) ho.2).1⟩

/-- Chown (fchown): the administrator; or the owner, leaving the owner as it is and setting the group to the file's or
    to his own (`mayFchown`; `C03_file_chown_refused/_allowed`); -1 keeps an id; otherwise EPERM and nothing changes.  For
    the administrator it is Chown / Lchown of any path that designates the node now.  For anybody else the PATH-level
    call of MemFS is refused whatever the arguments: the handle call is the more permissive one, exactly for the owner. -/
theorem C02_attr_chown (s : Store) (v : View) (h : Handle) (i : Ino) (n : Node) (uid gid : Int) (ho : h.onNode i)
    (hg : s.get i = some n) :
    fileStep s v h (.chown uid gid) =
      (if mayFchown v n.meta uid gid then (s.set i (n.setMeta (chownMeta n.meta uid gid)), v, h, .ok .unit)
       else (s, v, h, .err .EPERM)) ∧
    (v.admin = true → ∀ p mode, Designates s v p mode i →
      chown s v p uid gid mode = ((fileStep s v h (.chown uid gid)).1, (fileStep s v h (.chown uid gid)).2.2.2)) ∧
    (v.admin = false → ∀ p mode, chown s v p uid gid mode = (s, .err .EPERM) ∧
      ((fileStep s v h (.chown uid gid)).2.2.2 = .ok .unit ↔
        (n.meta.uid = v.uid ∧ (uid = -1 ∨ uid = n.meta.uid) ∧ (gid = -1 ∨ gid = n.meta.gid ∨ gid = v.gid)))) ∧
    (∀ j, j ≠ i → (fileStep s v h (.chown uid gid)).1.get j = s.get j) :=
  ⟨fchown_eq s v h i n uid gid ho hg, fun ha p mode hd => fchown_path_admin s v h i n uid gid ho hg ha p mode hd,
   fun hna p mode => fchown_vs_path_user s v h i n uid gid ho hg hna p mode,
   (fileStep_frame s v h i (.chown uid gid) ho.2).1⟩

/-- Sync: succeeds on any open handle and changes nothing -/
theorem C02_attr_sync (s : Store) (v : View) (h : Handle) (i : Ino) (ho : h.onNode i) :
    fileStep s v h .sync = (s, v, h, .ok .unit) := fsync_eq s v h i ho

/-- Chdir: if the node of the handle is a directory the current directory of the view becomes the NAME recorded at open,
    made absolute against the current directory of the moment (not the path of the node, which may have moved; no search
    permission is asked: `C02_attr_chdir_deviations`); otherwise ENOTDIR; the heap is not changed.  It is the path-level
    Chdir(name) whenever that succeeds on the node of the handle without crossing a link. -/
theorem C02_attr_chdir (s : Store) (v : View) (h : Handle) (i : Ino) (ho : h.onNode i) :
    fileStep s v h .chdir =
      (match s.get i with
       | some (.dir _ _) => (s, { v with cwd := abs .linux h.name v.cwd }, h, .ok .unit)
       | _ => (s, v, h, .err .ENOTDIR)) ∧
    (∀ v', Designates s v h.name .eval i → chdir s v h.name = (v', .ok .unit) →
      (searchNode s v h.name .eval).pi.path = abs .linux h.name v.cwd →
      fileStep s v h .chdir = (s, v', h, .ok .unit)) :=
  ⟨fchdir_eq s v h i ho, fun v' hd hok hp => fchdir_path s v h i ho hd v' hok hp⟩

/-- Close, and closing twice: Close succeeds, forgets the node and the directory snapshots, changes nothing else; every
    later operation — a second Close included (`closed`) — is refused with `closed` (`fileClosing` for Stat / ReadDir /
    Readdirnames; a negative offset of WriteAt is reported first) and changes neither heap, view nor handle, for ever -/
theorem C02_attr_close (s : Store) (v : View) (h : Handle) (i : Ino) (ho : h.onNode i) (ops : List FOp) :
    let hc : Handle := { h with nd := none, dirEntries := none, dirNames := none }
    fileStep s v h .close = (s, v, hc, .ok .unit) ∧
    fileStep s v hc .close = (s, v, hc, .err .closed) ∧
    (fileRun s v h (.close :: ops)).1 = s ∧ (fileRun s v h (.close :: ops)).2.1 = v ∧
    (fileRun s v h (.close :: ops)).2.2.1 = hc ∧
    (∀ o ∈ (fileRun s v h (.close :: ops)).2.2.2.tail, o = .err .closed ∨ o = .err .fileClosing ∨ o = .err .negOffset) ∧
    (∀ (s' : Store) (v' : View) (op : FOp),
      ∃ e, fileStep s' v' hc op = (s', v', hc, .err e) ∧ (e = .closed ∨ e = .fileClosing ∨ e = .negOffset)) := by
  intro hc
  have hf := fclose_forever s v h i ho ops
  simp only [] at hf
  exact ⟨fclose_eq s v h i ho.2, hf.2.2.2.2.2, hf.1, hf.2.1, hf.2.2.1, hf.2.2.2.2.1,
    fun s' v' op => fclosed_step s' v' hc op ho.1 rfl⟩

/-- Name — and what no operation does: through every operation the handle keeps the name given to Open, its mode and
    its view, and its node except by Close.  EVERY operation of a handle on `i` (reads, writes, truncations, attribute
    calls, directory reads, Close) leaves every other node as it is, keeps the kind of `i`, its entries, its link count and
    its file id, and leaves the entries of EVERY directory as they are: an unlinked node (link count 0, no name) that is
    read, written, chmod-ed or chown-ed through its handle stays unlinked — no name is resurrected —; nothing is allocated -/
theorem C02_attr_frame (s : Store) (v : View) (h : Handle) (i : Ino) (op : FOp) (hnd : h.nd = some i) :
    (fileStep s v h op).2.2.1.name = h.name ∧ (fileStep s v h op).2.2.1.om = h.om ∧
    (fileStep s v h op).2.2.1.view = h.view ∧ (op ≠ .close → (fileStep s v h op).2.2.1.nd = h.nd) ∧
    (∀ j, j ≠ i → (fileStep s v h op).1.get j = s.get j) ∧
    (∀ d nm, (fileStep s v h op).1.child d nm = s.child d nm) ∧
    (∀ d, (fileStep s v h op).1.names d = s.names d) ∧
    (∀ n, s.get i = some n → ∃ n', (fileStep s v h op).1.get i = some n' ∧ n.sameLinks n') ∧
    (fileStep s v h op).1.next = s.next ∧ (fileStep s v h op).1.lastId = s.lastId := by
  obtain ⟨h1, h2, h3, h4⟩ := fileStep_handle s v h op
  obtain ⟨f1, _, f3, f4, f5, _, f7, f8⟩ := fileStep_frame s v h i op hnd
  exact ⟨h1, h2, h3, h4, f1, f3, f4, f5, f7, f8⟩

/-- no operation of an open handle panics or hangs while its node is allocated — and nodes are never freed -/
theorem C02_attr_no_panic (s : Store) (v : View) (h : Handle) (i : Ino) (n : Node) (op : FOp)
    (hnd : h.nd = some i) (hg : s.get i = some n) :
    (fileStep s v h op).2.2.2 ≠ .panic ∧ (fileStep s v h op).2.2.2 ≠ .hang :=
  fileStep_no_panic s v h i n op hnd hg

/-! ### non-vacuity: renamed, removed, replaced -/

/-- the handle `OpenFile("/a/f", O_RDONLY)` returns on `pxStore`: inode 6 -/
def axFile : Handle := handleOn 6 [SL, 97, SL, 102] omRead 0
/-- the handle on the directory "/tmp/d": inode 7 -/
def axDir : Handle := handleOn 7 [SL, 116, 109, 112, SL, 100] omRead 0

theorem axHandles_open :
    (openFile pxStore px2Adm 0 [SL, 97, SL, 102] 0 0).2.toOption = some axFile ∧
    (openFile pxStore px2Adm 0 [SL, 116, 109, 112, SL, 100] 0 0).2.toOption = some axDir ∧
    axFile.onNode 6 ∧ axDir.onNode 7 :=
  ⟨by decide +kernel, by decide +kernel, ⟨by decide, rfl⟩, ⟨by decide, rfl⟩⟩

/-- "/a/f" renamed to "/a/g" after the open -/
@[irreducible] def axRenamed : Store := (rename pxStore px2Adm [SL, 97, SL, 102] [SL, 97, SL, 103]).1
/-- "/a/f" removed after the open -/
@[irreducible] def axRemoved : Store := (remove pxStore px2Adm [SL, 97, SL, 102]).1
/-- … and a new "/a/f" created -/
@[irreducible] def axReplaced : Store := (openFile axRemoved px2Adm 0 [SL, 97, SL, 102] 0x41 0o600).1

/-- RENAMED: the handle still reports the node — under the base "f" of the name recorded at open —, the new path reports
    the same node under "g" (`C02_attr_stat` with `p` = "/a/g"), the old path is gone -/
theorem C02_attr_renamed_example :
    (rename pxStore px2Adm [SL, 97, SL, 102] [SL, 97, SL, 103]).2 = .ok .unit ∧
    Designates axRenamed px2Adm [SL, 97, SL, 103] .eval 6 ∧
    (fileStep axRenamed px2Adm axFile .stat).2.2.2 = .ok (.info ⟨[102], 1, 0o644, 0, 0, 1, 2, 1, none⟩) ∧
    (stat axRenamed px2Adm [SL, 97, SL, 103] .eval).2 = .ok (.info ⟨[103], 1, 0o644, 0, 0, 1, 2, 1, none⟩) ∧
    (stat axRenamed px2Adm [SL, 97, SL, 102] .eval).2 = .err .ENOENT ∧
    -- fchmod through the handle is Chmod of the new path
    chmod axRenamed px2Adm [SL, 97, SL, 103] 0o600 =
      ((fileStep axRenamed px2Adm axFile (.chmod 0o600)).1, (fileStep axRenamed px2Adm axFile (.chmod 0o600)).2.2.2) := by
  have hd : Designates axRenamed px2Adm [SL, 97, SL, 103] .eval 6 := ⟨by decide +kernel, by decide +kernel⟩
  refine ⟨by decide +kernel, hd, by decide +kernel, by decide +kernel, by decide +kernel, ?_⟩
  have hg : axRenamed.get 6 = some (.file ⟨0o644, 0, 0, none⟩ [104, 105] 1 1) := by decide +kernel
  exact (C02_attr_chmod axRenamed px2Adm axFile 6 _ 0o600 axHandles_open.2.2.1 hg).2.2.1 _ hd

/-- REMOVED: no path designates the node, its link count is 0; Stat, Chmod, Chown through the handle still work ON THE
    NODE; afterwards "/a" still has the single entry "b" and "/a/f" still does not exist — no name is resurrected -/
theorem C02_attr_removed_example :
    (remove pxStore px2Adm [SL, 97, SL, 102]).2 = .ok .unit ∧
    (fileStep axRemoved px2Adm axFile .stat).2.2.2 = .ok (.info ⟨[102], 1, 0o644, 0, 0, 0, 2, 1, none⟩) ∧
    (let r := fileStep axRemoved px2Adm axFile (.chmod 0o600)
     r.2.2.2 = .ok .unit ∧ r.1.get 6 = some (.file ⟨0o600, 0, 0, none⟩ [104, 105] 0 1) ∧ r.1.names 4 = [[98]] ∧
     (stat r.1 px2Adm [SL, 97, SL, 102] .eval).2 = .err .ENOENT) ∧
    (let r := fileStep axRemoved px2Adm axFile (.chown 1000 1000)
     r.2.2.2 = .ok .unit ∧ r.1.get 6 = some (.file ⟨0o644, 1000, 1000, none⟩ [104, 105] 0 1) ∧ r.1.names 4 = [[98]]) ∧
    -- an ordinary user, who does not own the file, is refused, and nothing changes
    fileStep axRemoved exView axFile (.chmod 0o777) = (axRemoved, exView, axFile, .err .EPERM) ∧
    fileStep axRemoved exView axFile (.chown (-1) 1000) = (axRemoved, exView, axFile, .err .EPERM) := by
  refine ⟨by decide +kernel, by decide +kernel, ⟨by decide +kernel, by decide +kernel, by decide +kernel, by decide +kernel⟩,
    ⟨by decide +kernel, by decide +kernel, by decide +kernel⟩, ?_, ?_⟩
  · have hg : axRemoved.get 6 = some (.file ⟨0o644, 0, 0, none⟩ [104, 105] 0 1) := by decide +kernel
    rw [(C02_attr_chmod axRemoved exView axFile 6 _ 0o777 axHandles_open.2.2.1 hg).1]
    rfl
  · have hg : axRemoved.get 6 = some (.file ⟨0o644, 0, 0, none⟩ [104, 105] 0 1) := by decide +kernel
    rw [(C02_attr_chown axRemoved exView axFile 6 _ (-1) 1000 axHandles_open.2.2.1 hg).1]
    rfl

/-- REPLACED: a new file was created under the old name; the handle reports the OLD node (id 1, link count 0, 2 bytes),
    the path the new one (inode 10, id 3, empty) -/
theorem C02_attr_replaced_example :
    (fileStep axReplaced px2Adm axFile .stat).2.2.2 = .ok (.info ⟨[102], 1, 0o644, 0, 0, 0, 2, 1, none⟩) ∧
    (stat axReplaced px2Adm [SL, 97, SL, 102] .eval).2 = .ok (.info ⟨[102], 1, 0o600, 0, 0, 1, 0, 3, none⟩) ∧
    Designates axReplaced px2Adm [SL, 97, SL, 102] .eval 10 :=
  ⟨by decide +kernel, by decide +kernel, by decide +kernel, by decide +kernel⟩

/-- "/tmp/d" renamed to "/tmp/dd" after the open -/
@[irreducible] def axMoved : Store :=
  (rename pxStore px2Adm [SL, 116, 109, 112, SL, 100] [SL, 116, 109, 112, SL, 100, 100]).1
/-- "/tmp/d" made rwxr--r-- (no search permission for others) after the open -/
@[irreducible] def axNoSearch : Store := (chmod pxStore px2Adm [SL, 116, 109, 112, SL, 100] 0o744).1

/-- Chdir through a handle.  On the unchanged heap it is Chdir("/tmp/d") (`C02_attr_chdir` applies).  DEVIATIONS of
    MemFS, kernel-checked: after the directory was renamed, File.Chdir still succeeds and sets the current directory to
    the old name "/tmp/d", which no longer exists (fchdir(2) would enter the directory, now "/tmp/dd"); and it succeeds
    for a user without search permission on the directory, where Chdir("/tmp/d") — and fchdir(2) — answer EACCES -/
theorem C02_attr_chdir_deviations :
    fileStep pxStore exView axDir .chdir = (pxStore, (chdir pxStore exView [SL, 116, 109, 112, SL, 100]).1, axDir, .ok .unit) ∧
    (chdir pxStore exView [SL, 116, 109, 112, SL, 100]).2 = .ok .unit ∧
    (fileStep axMoved px2Adm axDir .chdir).2.2.2 = .ok .unit ∧
    (fileStep axMoved px2Adm axDir .chdir).2.1.cwd = [SL, 116, 109, 112, SL, 100] ∧
    (chdir axMoved px2Adm [SL, 116, 109, 112, SL, 100]).2 = .err .ENOENT ∧
    (stat axMoved px2Adm [SL, 116, 109, 112, SL, 100, 100] .eval).2 = .ok (.info ⟨[100, 100], 0, 0o777, 0, 0, 0, 1, 0, none⟩) ∧
    (fileStep axNoSearch exView axDir .chdir).2.2.2 = .ok .unit ∧
    (chdir axNoSearch exView [SL, 116, 109, 112, SL, 100]).2 = .err .EACCES := by
  refine ⟨?_, by decide +kernel, by decide +kernel, by decide +kernel, by decide +kernel, by decide +kernel,
    by decide +kernel, by decide +kernel⟩
  have hd : Designates pxStore exView axDir.name .eval 7 := ⟨by decide +kernel, by decide +kernel⟩
  exact (C02_attr_chdir pxStore exView axDir 7 axHandles_open.2.2.2).2 _ hd (by decide +kernel) (by decide +kernel)

/-- Close on a real handle, then a second Close and a Stat: `closed`, `fileClosing`; nothing changes -/
theorem C02_attr_close_example :
    (fileRun pxStore exView axFile [.close, .close, .stat, .read 1, .chmod 0o777]).2.2.2 =
      [.ok .unit, .err .closed, .err .fileClosing, .err .closed, .err .closed] ∧
    (fileRun pxStore exView axFile [.close, .close, .stat, .read 1, .chmod 0o777]).1 = pxStore := by
  have h := C02_attr_close pxStore exView axFile 6 axHandles_open.2.2.1 [.close, .stat, .read 1, .chmod 0o777]
  exact ⟨by decide +kernel, h.2.2.1⟩

end Avfs.FS
