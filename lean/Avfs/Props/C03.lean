import Avfs.Lemmas.Perm
/-
  C03 — permission and ownership enforcement equals Linux discretionary access control.
  Subject: checkPerm / createDir / createFile / setMode / chown / chtimes of the MemFS model.
-/
namespace Avfs.FS
open Avfs.Path

/-- Linux DAC for a process with one group and no capabilities (root: CAP_DAC_OVERRIDE): pick the class by owner,
    then group, then other — only that class's bits count — and require every wanted bit. -/
def dac (ownerUid ownerGid : Int) (mode : Nat) (uid gid : Int) (isRoot : Bool) (r w x : Bool) : Bool :=
  if isRoot then true else
  let cls := if ownerUid = uid then (mode / 64) % 8 else if ownerGid = gid then (mode / 8) % 8 else mode % 8
  (!r || cls / 4 % 2 == 1) && (!w || cls / 2 % 2 == 1) && (!x || cls % 2 == 1)

/-- class selection and bit test: checkPermission equals DAC for all modes, owners, groups, users and wanted bits -/
theorem C03_dac_eq (m : Meta) (v : View) (r w x : Bool) :
    checkPerm m ((if r then omRead else 0) ||| (if w then omWrite else 0) ||| (if x then omLookup else 0)) v
      = dac m.uid m.gid m.perm v.uid v.gid v.admin r w x := by
  show checkPerm m (wantOf r w x) v = _
  unfold checkPerm dac
  cases v.admin
  · simp only [Bool.false_eq_true, if_false, wantOf_and7, Nat.shiftRight_eq_div_pow]
    split
    · exact bitTest _ r w x
    · split
      · exact bitTest _ r w x
      · exact bitTest _ r w x
  · simp

/-- only the three low bits of the wanted mode matter (open-mode flags such as create/append never influence the test) -/
theorem C03_checkPerm_low_bits (m : Meta) (v : View) (want : Nat) : checkPerm m want v = checkPerm m (want % 8) v := by
  unfold checkPerm
  rw [mod8_and7]

/-- the administrator is never refused by a permission test -/
theorem C03_admin_checkPerm (m : Meta) (v : View) (want : Nat) (ha : v.admin = true) : checkPerm m want v = true := by
  simp [checkPerm, ha]

/-- every object created belongs to the calling user and group and has mode perm &^ umask -/
theorem C03_created_dir (s : Store) (v : View) (parent : Ino) (name : Bytes) (perm : Nat) (hp : parent < s.next) :
    (createDir s v parent name perm).2 = s.next ∧
    (createDir s v parent name perm).1.get s.next
      = some (.dir ⟨(perm &&& modeMask) &&& (modeMask ^^^ (v.umask &&& modeMask)), v.uid, v.gid, none⟩ []) := by
  exact ⟨rfl, get_alloc_addChild s _ parent name hp⟩

theorem C03_created_file (s : Store) (v : View) (parent : Ino) (name : Bytes) (perm : Nat) (hp : parent < s.next) :
    (createFile s v parent name perm).2 = s.next ∧
    (createFile s v parent name perm).1.get s.next
      = some (.file ⟨(perm &&& modeMask) &&& (modeMask ^^^ (v.umask &&& modeMask)), v.uid, v.gid, none⟩ [] 1 (s.lastId + 1)) := by
  refine ⟨rfl, ?_⟩
  exact get_alloc_addChild { s with lastId := s.lastId + 1 } _ parent name hp

theorem C03_created_symlink (s : Store) (v : View) (parent : Ino) (name link : Bytes) (hp : parent < s.next) :
    (createSymlink s v parent name link).1.get s.next = some (.symlink ⟨0o777, v.uid, v.gid, none⟩ link) := by
  exact get_alloc_addChild s _ parent name hp

theorem C03_created_mode_formula (perm umask : Nat) (hp : perm ≤ modeMask) (hu : umask ≤ modeMask) :
    (perm &&& modeMask) &&& (modeMask ^^^ (umask &&& modeMask)) = perm &&& (modeMask - umask) ∧
    ∀ k, k < 12 → ((perm &&& modeMask) &&& (modeMask ^^^ (umask &&& modeMask))).testBit k = (perm.testBit k && !umask.testBit k) := by
  refine ⟨?_, ?_⟩
  · rw [and_mask_of_le _ hp, and_mask_of_le _ hu, mask_xor_eq_sub _ hu]
  · intro k hk
    simp [Nat.testBit_and, Nat.testBit_xor, testBit_modeMask, hk]

/-- owner-only chmod: setMode succeeds exactly for the owner or the administrator (never on a symbolic link) -/
theorem C03_setMode_owner (n : Node) (mode : Nat) (v : View) (hns : ∀ m l, n ≠ .symlink m l) :
    (setMode n mode v).isSome = (decide (n.meta.uid = v.uid) || v.admin) := by
  exact setMode_isSome n mode v hns

/-- chown is restricted to the administrator -/
theorem C03_chown_admin_only (s : Store) (v : View) (p : Bytes) (u g : Int) (mode : SlMode) (ha : v.admin = false) :
    chown s v p u g mode = (s, .err .EPERM) := by
  simp [chown, ha]

end Avfs.FS
