import Avfs.Wrap.Rules
import Avfs.Generated.Wrap
/-
  C12 — FailFS is transparent unless told to fail, and an injected failure has no effect.
  `failfsTable` / `failfileTable` are regenerated from vfs/failfs/*.go on every run.
-/
namespace Avfs.Wrap
open Avfs.Generated

/-- every FailFS method that reaches the base consults the failure function with its own function id before a
    forward with identical arguments; files and file systems handed out are wrapped; composites run over the wrapper -/
theorem C12_failfs_table : failTableOK false failfsTable = true := by decide +kernel

theorem C12_failfile_table : failTableOK true failfileTable = true := by decide +kernel

/-- transparent without failure -/
theorem C12_transparent {σ α ρ : Type} (b : Base σ α ρ) (t : List (String × Shape)) (refused : String → ρ)
    (m : String) (sh : Shape) (hl : lookup t m = some sh) (hk : sh.kind = "consult") (hb : sh.base = m) (a : α) (s : σ) :
    wrapCall b t refused (fun _ _ => none) m a s = b.call m a s :=
  consult_transparent b t refused m sh hl hk hb a s

/-- an injected failure is returned as is and has no effect on the base -/
theorem C12_injected_no_effect {σ α ρ : Type} (b : Base σ α ρ) (t : List (String × Shape)) (refused : String → ρ)
    (consult : String → α → Option ρ) (m : String) (sh : Shape) (hl : lookup t m = some sh) (hk : sh.kind = "consult")
    (a : α) (s : σ) (e : ρ) (he : consult sh.fn a = some e) :
    wrapCall b t refused consult m a s = (s, e) :=
  consult_injected b t refused consult m sh hl hk a s e he

/-- the supplied read-only plan refuses every mutating function id (failfs_func.go) -/
def readOnlyRefused : List String :=
  ["FnChmod", "FnFileChmod", "FnFileChown", "FnChtimes", "FnCreateTemp", "FnFileSync", "FnFileTruncate", "FnFileWrite",
   "FnFileWriteAt", "FnMkdir", "FnMkdirAll", "FnMkdirTemp", "FnRemove", "FnRemoveAll", "FnTruncate", "FnChown", "FnLchown",
   "FnLink", "FnRename", "FnSymlink"]

/-! ### the supplied read-only failure function (regenerated facts `readOnlyFunc*`, failfs_func.go) -/

/-- FnVFS ids of the primitives that can change the tree of the base (OpenFile is decided by its flag) -/
def treeChangingFns : List String :=
  ["FnChmod", "FnChown", "FnChtimes", "FnCreateTemp", "FnLchown", "FnLink", "FnMkdir", "FnMkdirAll", "FnMkdirTemp",
   "FnRemove", "FnRemoveAll", "FnRename", "FnSymlink", "FnTruncate",
   "FnFileChmod", "FnFileChown", "FnFileSync", "FnFileTruncate", "FnFileWrite", "FnFileWriteAt"]

/-- `ReadOnlyFunc` as written now: one `switch fn`, refuses every tree-changing id with a non-nil error, admits
    OpenFile only with flag `O_RDONLY`, and lets the rest through -/
theorem C12_readOnlyFunc_refuses_all :
    readOnlyFuncShapeOK = true ∧ readOnlyFuncDefaultNil = true
    ∧ treeChangingFns.all (readOnlyFuncRefuses.contains ·) = true
    ∧ readOnlyFuncOpenFile = "if fp.Flag != os.O_RDONLY { return &fs.PathError{Op: fp.Op, Path: fp.Path, Err: avfs.ErrPermDenied} } | return nil"
    ∧ readOnlyRefused.all (readOnlyFuncRefuses.contains ·) = true := by decide +kernel

/-- every consulted FailFS / FailFile method whose base method can change the tree consults a refused id
    (tables and id list regenerated from the source) -/
theorem C12_readOnly_covers_tables :
    (failfsTable.all fun (n, sh) => !(sh.kind == "consult" && mutatingVFS.contains n) || readOnlyFuncRefuses.contains sh.fn) = true
    ∧ (failfileTable.all fun (n, sh) => !(sh.kind == "consult" && mutatingFile.contains n) || readOnlyFuncRefuses.contains sh.fn) = true := by
  decide +kernel

/-- generic, every history (unbounded length): under a failure function that refuses each consulted call whose base
    method could change the tree, no history of calls through the wrapper changes the tree of the base -/
theorem C12_readonly_history_unchanged {σ α ρ : Type} (b : Base σ α ρ) (t : List (String × Shape)) (refused : String → ρ)
    (consult : String → α → Option ρ)
    (hnf : ∀ m sh, lookup t m = some sh → sh.kind ≠ "forward")
    (hc : ∀ m sh, lookup t m = some sh → sh.kind = "consult" → ∀ a s,
            (consult sh.fn a).isSome = true ∨ b.tree (b.call sh.base a s).1 = b.tree s)
    (h : List (String × α)) (s : σ) :
    b.tree (h.foldl (fun s (m, a) => (wrapCall b t refused consult m a s).1) s) = b.tree s := by
  induction h generalizing s with
  | nil => rfl
  | cons c cs ih =>
    obtain ⟨m, a⟩ := c
    simp only [List.foldl]
    rw [ih]
    unfold wrapCall
    split
    · rfl
    · rename_i sh hl
      by_cases h1 : (sh.kind == "refuse") = true
      · simp [h1]
      · by_cases h2 : (sh.kind == "forward") = true
        · exact absurd (by simpa using h2) (hnf m sh hl)
        · by_cases h3 : (sh.kind == "consult") = true
          · simp only [h1, h2, h3, if_true]
            rcases hc m sh hl (by simpa using h3) a s with hs | ht
            · cases hcs : consult sh.fn a with
              | none => simp [hcs] at hs
              | some e => rfl
            · cases hcs : consult sh.fn a with
              | none => exact ht
              | some e => rfl
          · simp [h1, h2, h3]

/-- generic, every history: with a failure function that never fails, a history of consult-then-forward calls
    (base method = the method) through the wrapper is the same history on the base, state and results -/
theorem C12_transparent_history {σ α ρ : Type} (b : Base σ α ρ) (t : List (String × Shape)) (refused : String → ρ)
    (h : List (String × α))
    (hall : ∀ c ∈ h, ∃ sh, lookup t c.1 = some sh ∧ sh.kind = "consult" ∧ sh.base = c.1) (s : σ) :
    h.foldl (fun (st : σ × List ρ) (c : String × α) =>
        let r := wrapCall b t refused (fun _ _ => none) c.1 c.2 st.1; (r.1, st.2 ++ [r.2])) (s, [])
    = h.foldl (fun (st : σ × List ρ) (c : String × α) => let r := b.call c.1 c.2 st.1; (r.1, st.2 ++ [r.2])) (s, []) := by
  suffices H : ∀ (acc : σ × List ρ),
      h.foldl (fun (st : σ × List ρ) (c : String × α) =>
        let r := wrapCall b t refused (fun _ _ => none) c.1 c.2 st.1; (r.1, st.2 ++ [r.2])) acc
      = h.foldl (fun (st : σ × List ρ) (c : String × α) => let r := b.call c.1 c.2 st.1; (r.1, st.2 ++ [r.2])) acc from H _
  induction h with
  | nil => intro acc; rfl
  | cons c cs ih =>
    intro acc
    obtain ⟨sh, hl, hk, hb⟩ := hall c (by simp)
    simp only [List.foldl]
    rw [consult_transparent b t refused c.1 sh hl hk hb]
    exact ih (fun c' hc' => hall c' (by simp [hc'])) _

/-- the hypotheses are met: a two-method table, a base whose `Mkdir` changes the tree and whose `Stat` does not, and a
    plan that refuses `FnMkdir` -/
example :
    let b : Base Nat Unit Nat := { call := fun m _ s => if m == "Mkdir" then (s + 1, 0) else (s, 0), tree := id }
    let sh (n : String) : Shape := { kind := "consult", base := n, args := [], params := [], errs := [], fn := "Fn" ++ n,
                                     guard := "", wrapRes := "", nilChk := false }
    let t := [("Mkdir", sh "Mkdir"), ("Stat", sh "Stat")]
    let plan : String → Unit → Option Nat := fun f _ => if f == "FnMkdir" then some 13 else none
    (wrapCall b t (fun _ => 1) plan "Mkdir" () 5 = (5, 13)) ∧ (wrapCall b t (fun _ => 1) plan "Stat" () 5 = (5, 0))
    ∧ (wrapCall b t (fun _ => 1) (fun _ _ => none) "Mkdir" () 5 = (6, 0)) := by decide

end Avfs.Wrap
