import Avfs.Wrap.Rules
import Avfs.Generated.Wrap
/-
  C12 — FailFS is transparent unless told to fail, and an injected failure has no effect.
  `failfsTable` / `failfileTable` are regenerated from vfs/failfs/*.go on every run.
-/
namespace Avfs.Wrap
open Avfs.Generated

/-- every FailFS method that reaches the base consults the failure function with its own function id before a
    forward with identical arguments; files and file systems handed out are wrapped; composites run over the wrapper -/
theorem C12_failfs_table : failTableOK false failfsTable = true := by decide +kernel

theorem C12_failfile_table : failTableOK true failfileTable = true := by decide +kernel

/-- transparent without failure -/
theorem C12_transparent {σ α ρ : Type} (b : Base σ α ρ) (t : List (String × Shape)) (refused : String → ρ)
    (m : String) (sh : Shape) (hl : lookup t m = some sh) (hk : sh.kind = "consult") (hb : sh.base = m) (a : α) (s : σ) :
    wrapCall b t refused (fun _ _ => none) m a s = b.call m a s :=
  consult_transparent b t refused m sh hl hk hb a s

/-- an injected failure is returned as is and has no effect on the base -/
theorem C12_injected_no_effect {σ α ρ : Type} (b : Base σ α ρ) (t : List (String × Shape)) (refused : String → ρ)
    (consult : String → α → Option ρ) (m : String) (sh : Shape) (hl : lookup t m = some sh) (hk : sh.kind = "consult")
    (a : α) (s : σ) (e : ρ) (he : consult sh.fn a = some e) :
    wrapCall b t refused consult m a s = (s, e) :=
  consult_injected b t refused consult m sh hl hk a s e he

/-- the supplied read-only plan refuses every mutating function id (failfs_func.go) -/
def readOnlyRefused : List String :=
  ["FnChmod", "FnFileChmod", "FnFileChown", "FnChtimes", "FnCreateTemp", "FnFileSync", "FnFileTruncate", "FnFileWrite",
   "FnFileWriteAt", "FnMkdir", "FnMkdirAll", "FnMkdirTemp", "FnRemove", "FnRemoveAll", "FnTruncate", "FnChown", "FnLchown",
   "FnLink", "FnRename", "FnSymlink"]

end Avfs.Wrap
