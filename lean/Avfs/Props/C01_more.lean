import Avfs.Props.C01
import Avfs.Lemmas.Posix3
/-
  C01 (more calls) — ReadDir, Readlink, Lstat, Symlink, Chtimes, MkdirAll, RemoveAll of the MemFS model against the
  POSIX-style reference of Lemmas/Posix3.lean, for every tree satisfying the invariant, every user and every clean
  absolute path without symbolic links on the way (`walkPath`; `walkPathL` for the calls that do not follow a link in
  the last component). Corners where MemFS is not the reference are restated at the end with their witnesses.
-/
namespace Avfs.FS
open Avfs.Path

/-- ReadDir = open(2) read-only + getdents, as os.ReadDir: the error of the resolution; EACCES when the caller may not
    read the node; ENOTDIR on a regular file; otherwise the listing of the directory (`dirListing`: one lstat record per
    entry, names in byte order — `dirListing_names`). "/" is included; the state does not change. -/
theorem C01_readDir_posix (s : Store) (root : Ino) (v : View) (hwf : WF s root) (hn : NamesOK s) (hv : ViewOK s v)
    (hroot : v.root = root) (cs : List Bytes) (hall : ∀ c ∈ cs, c ≠ [] ∧ ∀ x ∈ c, x ≠ SL)
    (hdots : ∀ c ∈ cs, c ≠ [DOT] ∧ c ≠ [DOT, DOT]) (vid : Nat) :
    match posixReadDir s v (walkPath s v root cs) with
    | .fail e => readDir s v vid (SL :: joinWith SL cs) = .err e
    | .entries l => readDir s v vid (SL :: joinWith SL cs) = .ok (.infos l)
    | .outside => True :=
  readDir_posix s root v hwf hn hv hroot cs hall hdots vid

/-- the listing ReadDir returns: exactly the names of the directory, sorted, each record being the lstat of the entry -/
theorem C01_readDir_listing {s : Store} {root : Ino} (hwf : WF s root) (d : Ino) :
    (dirListing s d).map (·.name) = s.names d ∧ (s.names d).Pairwise (fun a b => bytesLt a b = true) ∧
    ∀ i ∈ dirListing s d, ∃ c, s.child d i.name = some c ∧ fillStat s c i.name = some i :=
  dirListing_names hwf d

/-- Readlink = readlink(2): the error of the resolution (the last component is not followed), EINVAL on an entry that
    is no symbolic link ("/" included), else the stored target; the state does not change -/
theorem C01_readlink_posix (s : Store) (root : Ino) (v : View) (hwf : WF s root) (hn : NamesOK s) (hv : ViewOK s v)
    (hroot : v.root = root) (cs : List Bytes) (hall : ∀ c ∈ cs, c ≠ [] ∧ ∀ x ∈ c, x ≠ SL)
    (hdots : ∀ c ∈ cs, c ≠ [DOT] ∧ c ≠ [DOT, DOT]) :
    match posixReadlink s (walkPathL s v root cs) with
    | .fail e => readlink s v (SL :: joinWith SL cs) = (s, .err e)
    | .target l => readlink s v (SL :: joinWith SL cs) = (s, .ok (.bytes l))
    | .outside => True :=
  readlink_posix s root v hwf hn hv hroot cs hall hdots

/-- Readlink on a link-free path that resolves: EINVAL -/
theorem C01_readlink_linkfree (s : Store) (root : Ino) (v : View) (hwf : WF s root) (hn : NamesOK s) (hv : ViewOK s v)
    (hroot : v.root = root) (cs : List Bytes) (hall : ∀ c ∈ cs, c ≠ [] ∧ ∀ x ∈ c, x ≠ SL)
    (hdots : ∀ c ∈ cs, c ≠ [DOT] ∧ c ≠ [DOT, DOT]) (par c : Ino) (hw : walkPath s v root cs = .found par c) :
    readlink s v (SL :: joinWith SL cs) = (s, .err .EINVAL) :=
  readlink_linkfree s root v hwf hn hv hroot cs hall hdots par c hw

/-- Lstat = lstat(2), a symbolic link as last component included: the attributes of the entry under the name of the last
    component, or the error of the resolution; the state does not change -/
theorem C01_lstat_posix (s : Store) (root : Ino) (v : View) (hwf : WF s root) (hn : NamesOK s) (hv : ViewOK s v)
    (hroot : v.root = root) (cs : List Bytes) (hne : cs ≠ []) (hall : ∀ c ∈ cs, c ≠ [] ∧ ∀ x ∈ c, x ≠ SL)
    (hdots : ∀ c ∈ cs, c ≠ [DOT] ∧ c ≠ [DOT, DOT]) :
    (stat s v (SL :: joinWith SL cs) .lstat).1 = s ∧
    match walkPathL s v root cs with
    | .found _ c => ∃ i, fillStat s c (cs.getLast hne) = some i ∧
        (stat s v (SL :: joinWith SL cs) .lstat).2 = .ok (.info i)
    | .missingLast _ _ => (stat s v (SL :: joinWith SL cs) .lstat).2 = .err .ENOENT
    | .missingDir => (stat s v (SL :: joinWith SL cs) .lstat).2 = .err .ENOENT
    | .notDir => (stat s v (SL :: joinWith SL cs) .lstat).2 = .err .ENOTDIR
    | .denied => (stat s v (SL :: joinWith SL cs) .lstat).2 = .err .EACCES
    | .viaLink => True :=
  lstat_posix s root v hwf hn hv hroot cs hne hall hdots

/-- Symlink = symlink(2) as far as the new path goes: EEXIST on any existing entry (a link is not followed), ENOENT /
    ENOTDIR / EACCES from the resolution, EACCES when the directory may not be written; else one new entry, a symbolic
    link owned by the caller (mode 0777) whose target is Clean(oldname) (`C01_symlink_target_clean`,
    `C01_symlink_empty_target`: symlink(2) stores the string as given and refuses the empty one) -/
theorem C01_symlink_posix (s : Store) (root : Ino) (v : View) (hwf : WF s root) (hn : NamesOK s) (hv : ViewOK s v)
    (hroot : v.root = root) (cs : List Bytes) (hne : cs ≠ []) (hall : ∀ c ∈ cs, c ≠ [] ∧ ∀ x ∈ c, x ≠ SL)
    (hdots : ∀ c ∈ cs, c ≠ [DOT] ∧ c ≠ [DOT, DOT]) (old : Bytes) :
    match posixSymlink s v (walkPathL s v root cs) with
    | .fail e => symlink s v old (SL :: joinWith SL cs) = (s, .err e)
    | .create par name => name = cs.getLast hne ∧
        symlink s v old (SL :: joinWith SL cs) = ((createSymlink s v par name (clean .linux old)).1, .ok .unit)
    | .outside => True :=
  symlink_posix s root v hwf hn hv hroot cs hne hall hdots old

/-- after a successful Symlink: the heap is a well-formed tree again, the same path resolves (without following) to the
    new node, Readlink returns what was stored and Lstat describes a link of mode 0777 owned by the caller -/
theorem C01_symlink_then_readlink (s : Store) (root : Ino) (v : View) (hwf : WF s root) (hn : NamesOK s)
    (hv : ViewOK s v) (hroot : v.root = root) (cs : List Bytes) (hne : cs ≠ [])
    (hall : ∀ c ∈ cs, c ≠ [] ∧ ∀ x ∈ c, x ≠ SL) (hdots : ∀ c ∈ cs, c ≠ [DOT] ∧ c ≠ [DOT, DOT]) (old : Bytes)
    (par : Ino) (name : Bytes) (hc : posixSymlink s v (walkPathL s v root cs) = .create par name) :
    let s' := (symlink s v old (SL :: joinWith SL cs)).1
    WF s' root ∧ walkPathL s' v root cs = .found par s.next ∧
    s'.get s.next = some (.symlink ⟨0o777, v.uid, v.gid, none⟩ (clean .linux old)) ∧
    readlink s' v (SL :: joinWith SL cs) = (s', .ok (.bytes (clean .linux old))) ∧
    stat s' v (SL :: joinWith SL cs) .lstat =
      (s', .ok (.info ⟨cs.getLast hne, 2, 0o777, v.uid, v.gid, 0, 1, 0, none⟩)) :=
  symlink_then_readlink s root v hwf hn hv hroot cs hne hall hdots old par name hc

/-- Chtimes = utimensat(2) with explicit times: the error of the resolution, EPERM for a caller who is neither owner
    nor administrator, else the one node gets the modification time and nothing else changes ("/" included) -/
theorem C01_chtimes_posix (s : Store) (root : Ino) (v : View) (hwf : WF s root) (hn : NamesOK s) (hv : ViewOK s v)
    (hroot : v.root = root) (cs : List Bytes) (hall : ∀ c ∈ cs, c ≠ [] ∧ ∀ x ∈ c, x ≠ SL)
    (hdots : ∀ c ∈ cs, c ≠ [DOT] ∧ c ≠ [DOT, DOT]) (mtime : Int) :
    match posixChtimes s v mtime (walkPath s v root cs) with
    | .fail e => chtimes s v (SL :: joinWith SL cs) mtime = (s, .err e)
    | .update c n => chtimes s v (SL :: joinWith SL cs) mtime = (s.set c n, .ok .unit)
    | .outside => True :=
  chtimes_posix s root v hwf hn hv hroot cs hall hdots mtime

/-- MkdirAll = mkdir -p: `posixMkdirAll` is Mkdir (the reference of `C01_mkdir_posix`) of every prefix of the path in
    turn, EEXIST tolerated on directories (ENOTDIR on a regular file). Same outcome, same heap — outside the corner
    `hcorner`: when two or more components are missing, the directories to make must be writable and searchable by
    their creator (`C01_mkdirAll_corner_unwritable`) -/
theorem C01_mkdirAll_posix (s : Store) (root : Ino) (v : View) (hwf : WF s root) (hn : NamesOK s) (hv : ViewOK s v)
    (hroot : v.root = root) (cs : List Bytes) (hall : ∀ c ∈ cs, c ≠ [] ∧ ∀ x ∈ c, x ≠ SL)
    (hdots : ∀ c ∈ cs, c ≠ [DOT] ∧ c ≠ [DOT, DOT]) (perm : Nat)
    (hcorner : walkPath s v root cs = .missingDir →
      checkPerm (newDirMeta v perm) (omWrite ||| omLookup) v = true) :
    match posixMkdirAll v perm root s [] cs with
    | some r => mkdirAll s v (SL :: joinWith SL cs) perm = r
    | none => True :=
  mkdirAll_posix s root v hwf hn hv hroot cs hall hdots perm hcorner

/-- MkdirAll spelled out by the resolution of the whole path, without any hypothesis on `perm`: an existing directory:
    nil, nothing changes; a regular file (as last or inner component): ENOTDIR; an unsearchable directory: EACCES; only
    the last component missing: as Mkdir; an inner component missing: EACCES when the directory holding the first
    missing component may not be written and searched, else exactly the chain of the missing components is made below
    it (`mkChain`: each by `createDir`, mode perm &^ umask, owned by the caller) -/
theorem C01_mkdirAll_cases (s : Store) (root : Ino) (v : View) (hwf : WF s root) (hn : NamesOK s) (hv : ViewOK s v)
    (hroot : v.root = root) (cs : List Bytes) (hall : ∀ c ∈ cs, c ≠ [] ∧ ∀ x ∈ c, x ≠ SL)
    (hdots : ∀ c ∈ cs, c ≠ [DOT] ∧ c ≠ [DOT, DOT]) (perm : Nat) :
    match walkPath s v root cs with
    | .found _ c => mkdirAll s v (SL :: joinWith SL cs) perm =
        (s, if isDirAt s c then .ok .unit else .err .ENOTDIR)
    | .missingLast par name => mkdirAll s v (SL :: joinWith SL cs) perm =
        if dirPerm s par (omWrite ||| omLookup) v then ((createDir s v par name perm).1, .ok .unit)
        else (s, .err .EACCES)
    | .missingDir => ∃ pre todo d p, cs = pre ++ todo ∧ todo.length ≥ 2 ∧ walkPath s v root pre = .found p d ∧
        isDirAt s d = true ∧ s.child d (todo.headD []) = none ∧
        mkdirAll s v (SL :: joinWith SL cs) perm =
          if dirPerm s d (omWrite ||| omLookup) v then (mkChain v perm s d todo, .ok .unit) else (s, .err .EACCES)
    | .notDir => mkdirAll s v (SL :: joinWith SL cs) perm = (s, .err .ENOTDIR)
    | .denied => mkdirAll s v (SL :: joinWith SL cs) perm = (s, .err .EACCES)
    | .viaLink => True :=
  mkdirAll_cases s root v hwf hn hv hroot cs hall hdots perm

/-- RemoveAll = rm -rf: a path that does not exist is no error; ENOTDIR / EACCES from the resolution; for an existing
    entry `c` of `par` (the last component is not followed): EACCES or EPERM — possibly after part of the tree is gone —
    when `c` is a non-empty directory and a directory at or below it may not be written (`TreeWritable`, the model's
    condition) or an entry inside is under restricted deletion (`TreeUnrestricted`: sticky bit of the directory that
    holds it, honoured since the repair of RemoveAll); otherwise everything below `c` is removed (`Emptied`) and the entry is treated as by Remove: EACCES when
    `par` may not be written, EPERM under restricted deletion, else success with a heap that is `TreeRemoved`: a
    well-formed tree with exactly the entry and the entries of the tree gone, nothing else touched, and files that have
    other names kept with their remaining link count (`TreeRemoved.file`, `TreeRemoved.survives`) -/
theorem C01_removeAll_posix (s : Store) (root : Ino) (v : View) (hwf : WF s root) (hn : NamesOK s) (hv : ViewOK s v)
    (hroot : v.root = root) (cs : List Bytes) (hne : cs ≠ []) (hall : ∀ c ∈ cs, c ≠ [] ∧ ∀ x ∈ c, x ≠ SL)
    (hdots : ∀ c ∈ cs, c ≠ [DOT] ∧ c ≠ [DOT, DOT]) :
    match posixRemoveAll (walkPathL s v root cs) with
    | .done => removeAll s v (SL :: joinWith SL cs) = (s, .ok .unit)
    | .fail e => removeAll s v (SL :: joinWith SL cs) = (s, .err e)
    | .remove par c =>
        Edge s par (cs.getLast hne) c ∧
        (isNonEmptyDir s c = true → ¬ (TreeWritable s v c ∧ TreeUnrestricted s v c) →
          ∃ s1 e, (e = .EACCES ∨ e = .EPERM) ∧ removeAll s v (SL :: joinWith SL cs) = (s1, .err e) ∧
            RAGood root s c s1 ∧ Keeps s s1) ∧
        ((isNonEmptyDir s c = true → TreeWritable s v c ∧ TreeUnrestricted s v c) →
          ∃ s1, Emptied root s c s1 ∧ (isNonEmptyDir s c = false → s1 = s) ∧
            TreeRemoved root s par (cs.getLast hne) c (deleteNode (removeChild s1 par (cs.getLast hne)) c) ∧
            removeAll s v (SL :: joinWith SL cs) =
              if !dirPerm s par omWrite v then (s1, .err .EACCES)
              else if restrictedDeletion s v par c then (s1, .err .EPERM)
              else (deleteNode (removeChild s1 par (cs.getLast hne)) c, .ok .unit))
    | .outside => True :=
  removeAll_posix s root v hwf hn hv hroot cs hne hall hdots

/-- RemoveAll("/") = EINVAL, nothing removed -/
theorem C01_removeAll_root (s : Store) (v : View) : removeAll s v [SL] = (s, .err .EINVAL) := removeAll_root s v

/-! ### the corners, with their kernel-checked witnesses -/

/-- Symlink("", new) succeeds and stores "." (symlink(2): ENOENT) -/
theorem C01_symlink_empty_target :
    symlink pxStore exView [] [SL, 116, 109, 112, SL, 108] =
      ((createSymlink pxStore exView 3 [108] [DOT]).1, .ok .unit) ∧
    readlink (createSymlink pxStore exView 3 [108] [DOT]).1 exView [SL, 116, 109, 112, SL, 108] =
      ((createSymlink pxStore exView 3 [108] [DOT]).1, .ok (.bytes [DOT])) :=
  symlink_empty_target

/-- MkdirAll("/tmp/x/y", 0500) by an ordinary user: the reference makes "/tmp/x" and fails with EACCES on "/tmp/x/y";
    MemFS makes both -/
theorem C01_mkdirAll_corner_unwritable :
    walkPath pxStore exView 0 [cTmp, [120], [121]] = .missingDir ∧
    checkPerm (newDirMeta exView 0o500) (omWrite ||| omLookup) exView = false ∧
    posixMkdirAll exView 0o500 0 pxStore [] [cTmp, [120], [121]] =
      some ((createDir pxStore exView 3 [120] 0o500).1, .err .EACCES) ∧
    mkdirAll pxStore exView [SL, 116, 109, 112, SL, 120, SL, 121] 0o500 =
      (mkChain exView 0o500 pxStore 3 [[120], [121]], .ok .unit) :=
  mkdirAll_corner_unwritable

/-- RemoveAll asks write permission of EMPTY directories inside the tree: EACCES where Remove bottom-up succeeds -/
theorem C01_removeAll_corner_empty_subdir :
    posixRemoveAll (walkPathL pxStore exView 0 [cTmp, [100]]) = .remove 3 7 ∧
    isNonEmptyDir pxStore 7 = true ∧ ¬ TreeWritable pxStore exView 7 ∧
    pxStore.get 8 = some (.dir ⟨0o755, 0, 0, none⟩ []) ∧
    (removeAll pxStore exView [SL, 116, 109, 112, SL, 100]).2 = .err .EACCES ∧
    (remove pxStore exView [SL, 116, 109, 112, SL, 100, SL, 101]).2 = .ok .unit ∧
    (remove (remove pxStore exView [SL, 116, 109, 112, SL, 100, SL, 101]).1 exView [SL, 116, 109, 112, SL, 100]).2 =
      .ok .unit :=
  removeAll_corner_empty_subdir

/-- RemoveAll honours the sticky bit of directories inside the tree (repaired defect; before the repair it removed a
    file whose Remove is EPERM): RemoveAll("/tmp/d") by the user 1000 is EPERM and nothing changes -/
theorem C01_removeAll_inner_sticky_refused :
    rmStickyStore.get 7 = some (.dir ⟨0o1777, 0, 0, none⟩ [([104], 10)]) ∧
    rmStickyStore.get 10 = some (.file ⟨0o644, 0, 0, none⟩ [1] 1 3) ∧
    remove rmStickyStore exView [SL, 116, 109, 112, SL, 100, SL, 104] = (rmStickyStore, .err .EPERM) ∧
    isNonEmptyDir rmStickyStore 7 = true ∧ ¬ TreeUnrestricted rmStickyStore exView 7 ∧
    removeAll rmStickyStore exView [SL, 116, 109, 112, SL, 100] = (rmStickyStore, .err .EPERM) :=
  removeAll_inner_sticky_refused

end Avfs.FS
