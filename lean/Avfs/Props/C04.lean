import Avfs.Lemmas.Search
import Avfs.Lemmas.Namei
/-
  C04 — symbolic links resolve as the kernel resolves them.
  Subject: `searchLoop` / `searchNode` (memfs_internal.go) with the PathIterator splice (`Iter.replacePart`),
  tied to /repo by `corr memfs` and compared with the kernel by `corr kernel-links` (chains around the 40-link budget,
  relative / absolute / dangling / cyclic targets).
-/
namespace Avfs.FS
open Avfs.Path

/-- the walk always terminates: with any link graph (self-referential, cyclic, chains of any length) the computed
    fuel is never exhausted and no slice expression goes out of range -/
theorem C04_searchNode_terminates (s : Store) (root : Ino) (v : View) (hwf : WF s root) (hn : NamesOK s) (hv : ViewOK s v)
    (p : Bytes) (m : SlMode) : (searchNode s v p m).err ≠ .panic :=
  search_noPanic s root v hwf hn hv p m

/-- the budget is the kernel's: more than 40 links on one walk give "too many levels of symbolic links" -/
theorem C04_budget : slCountMax = 40 := rfl

/-- no-follow calls (Lstat, Readlink, Remove, Rename, Lchown, Link use `slmLstat`): what they get is the directory
    entry named by the last path element itself — the link, not its target -/
theorem C04_nofollow_entry (s : Store) (root : Ino) (v : View) (hwf : WF s root) (hn : NamesOK s) (hv : ViewOK s v)
    (p : Bytes) (c : Ino) (he : (searchNode s v p .lstat).err = .exists) (hc : (searchNode s v p .lstat).child = some c)
    (hne : c ≠ (searchNode s v p .lstat).parent) :
    Edge s (searchNode s v p .lstat).parent (partOf (searchNode s v p .lstat).pi) c :=
  search_existsEdge s root v hwf hn hv p .lstat c (by decide) he hc hne

/-- a missing object is reported only when the parent really has no such entry (dangling links included) -/
theorem C04_noent_sound (s : Store) (root : Ino) (v : View) (hwf : WF s root) (hn : NamesOK s) (hv : ViewOK s v)
    (p : Bytes) (m : SlMode) (hm : m ≠ .stat) (he : (searchNode s v p m).err = .noent) :
    s.child (searchNode s v p m).parent (partOf (searchNode s v p m).pi) = none :=
  (search_noentChild s root v hwf hn hv p m he).2 hm

/-- searchNode ≃ namei where no symbolic link is met: on a clean absolute path "/c1/…/cn" the iterator-driven walk of
    MemFS is the component-by-component descent through the directory entries (`walkPath`: look the name up in the
    current directory, whose search permission is required; enter directories; stop at files) — same error class,
    same parent, same child, for every follow mode, every tree satisfying the invariant and every user. -/
theorem C04_searchNode_eq_walkPath (s : Store) (root : Ino) (v : View) (hwf : WF s root) (hn : NamesOK s) (hv : ViewOK s v)
    (hroot : v.root = root) (cs : List Bytes) (hall : ∀ c ∈ cs, c ≠ [] ∧ ∀ x ∈ c, x ≠ SL)
    (hdots : ∀ c ∈ cs, c ≠ [DOT] ∧ c ≠ [DOT, DOT]) (m : SlMode) :
    let p := SL :: joinWith SL cs
    let r := searchNode s v p m
    match walkPath s v root cs with
    | .found par c => r.err = .exists ∧ r.child = some c ∧ r.parent = par
    | .missingLast par _ => r.err = .noent ∧ r.child = none ∧ r.parent = par ∧ r.pi.isLast = true
    | .missingDir => r.err = .noent ∧ r.pi.isLast = false
    | .notDir => r.err = .notdir
    | .denied => r.err = .acces
    | .viaLink => True :=
  searchNode_eq_walkPath s root v hwf hn hv hroot cs hall hdots m

end Avfs.FS
