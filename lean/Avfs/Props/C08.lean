import Avfs.Conc.Theorems
import Avfs.Conc.Allowed
import Avfs.Generated.Locks
/-
  C08 — no data race under the documented concurrent use.
  `lockFacts` / `lockFns` are regenerated from vfs/memfs, vfs/orefafs, idm/memidm by harness/cmd/lockx on every run:
  for every access to a guarded field, the locks certainly held there. The kernel re-decides the rules below against
  the current source; the race detector (`bin/race`, built with -race) is the search engine when one fails.
-/
namespace Avfs.Conc
open Avfs.Generated

/-- generic, any number of threads, any trace: lock discipline implies every pair of conflicting accesses is ordered by
    happens-before (no data race); the same chain (release → later acquisition of the guard) is what makes the effects
    of a completed call visible to every call that starts afterwards -/
theorem C08_disciplined_race_free {T L X : Type} [DecidableEq T] [DecidableEq L] (guard : X → L) (tr : List (Ev T L X))
    (hx : Exec tr) (hd : Disciplined guard tr) (i j : Nat) (hij : i < j) (hc : Conflict tr i j) : HB tr i j :=
  disciplined_race_free guard tr hx hd i j hij hc

/-- the translator understood every statement of the three packages -/
theorem C08_no_unknown : unknownFacts lockFacts = [] := by decide +kernel

/-- every access to a guarded field of the CURRENT source happens with its guard held in a sufficient mode — at the
    access itself or, for helper functions, at every call site (requirements are propagated through the call facts) —
    except exactly the recorded sites of `allowedViolations` -/
theorem C08_discipline_sites : sameSet (violations lockFns lockFacts 3) allowedViolations = true := by decide +kernel

end Avfs.Conc
