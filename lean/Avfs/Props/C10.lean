import Avfs.Wrap.BasePath
import Avfs.Generated.Wrap
import Avfs.Lemmas.BasePath
/-
  C10 — BasePathFS confines all access to its base directory and acts as a chroot.
  `bpfsTable` / `bpfileTable` are regenerated from vfs/basepathfs/*.go on every run; `toBasePath` is the model of
  ToBasePath tied by `corr bpfs` (lockstep with a standalone file system + snapshots of everything outside the base).
-/
namespace Avfs.Wrap
open Avfs.Path Avfs.Generated

/-- every BasePathFS method that reaches the base passes each path parameter through ToBasePath (never bare) and
    translates errors back; file methods only forward to the base file -/
theorem C10_bpfs_table : bpTableOK bpfsTable = true := by decide +kernel

theorem C10_bpfile_table : bpFileTableOK bpfileTable = true := by decide +kernel

/-- Confinement: for EVERY byte string `p` (absolute, relative, with "." and "..", unclean, containing the base's own
    prefix) and every virtual current directory, the path handed to the base is the base directory or lies lexically
    below it and contains no "." or ".." element. -/
theorem C10_confined (base cwd p : Bytes) (hcwd : isAbs .linux cwd = true) : Within base (toBasePath base cwd p) :=
  toBasePath_within base cwd p hcwd

/-- Round trip: translating back gives the cleaned absolute virtual path. -/
theorem C10_roundtrip (base cwd p : Bytes) (hb : base ≠ []) (hcwd : isAbs .linux cwd = true) :
    fromBasePath base (toBasePath base cwd p) = some (clean .linux (abs .linux p cwd)) ∨ p = [] :=
  fromBasePath_toBasePath base cwd p hb hcwd

/-- the virtual current directory is always defined (no panic), whatever the base's current directory is -/
theorem C10_getwd_total (base baseCwd : Bytes) : (getwd base baseCwd).isSome = true := by
  unfold getwd fromBasePath
  by_cases h : inBase base baseCwd = true
  · simp [h, inBase_prefix h]
  · simp [h]

end Avfs.Wrap
