import Avfs.Props.C05
import Avfs.Lemmas.RenameSafe
import Avfs.Lemmas.ReachWF
import Avfs.Props.C04_links
/-
  C05 — Rename keeps the tree well formed, WITHOUT side condition.

  `C05_wf_rename_partial` (Props/C05.lean) carried the hypothesis `RenameSafe`: "when a directory is moved, its new
  parent is not inside it".  `Rename` does not test this on the directory graph but on the path STRINGS held by the
  iterators of its two walks (old path ++ "/" is a prefix of the new path ⇒ EINVAL).  Lemmas/RenameSafe.lean proves
  that the test on the strings implies the condition on the graph, for ALL operands (relative, unclean, through any
  number of symbolic links with any targets), any view and any user, in every well-formed heap:
  the string a walk returns always spells the REAL path of the parent it returns (`searchNode_info`), and in a tree
  every real path of something below a directory passes through that directory (`on_chain`).
-/
namespace Avfs.FS
open Avfs.Path

/-- the hypothesis of `C05_wf_rename_partial` holds in every well-formed heap, for every view whose root is a directory
    (anywhere in the tree) and whose current directory is an absolute path, for all byte strings `o`, `n` -/
theorem C05_rename_safe (s : Store) (root : Ino) (v : View) (hwf : WF s root) (hv : ViewOK s v) (o n : Bytes) :
    RenameSafe s v o n :=
  renameSafe_of_wf s root v hwf hv o n

/-- the same, read the other way: when the new parent IS inside the directory to move (or is that directory), the
    test on the strings fires -/
theorem C05_rename_test_fires (s : Store) (root : Ino) (v : View) (hwf : WF s root) (hv : ViewOK s v) (o n : Bytes)
    (oc : Ino) (hoc : (searchNode s v o .lstat).child = some oc) (hd : isDirAt s oc = true)
    (hne : oc ≠ (searchNode s v o .lstat).parent) (hdesc : Desc s oc (searchNode s v n .lstat).parent) :
    ((searchNode s v o .lstat).pi.path ++ [SL]).isPrefixOf (searchNode s v n .lstat).pi.path = true :=
  rename_test_fires s root v hwf hv o n oc hoc hd hne hdesc

/-- Rename preserves the tree invariant: every pair of operands, every user, every view attached to the tree -/
theorem C05_rename_wf_unconditional (s : Store) (root : Ino) (v : View) (o n : Bytes) (hwf : WF s root)
    (hn : NamesOK s) (hv : ViewOK s v) (hatt : ViewAttached s root v) : WF (rename s v o n).1 root :=
  wf_rename_unconditional s root v o n hwf hn hv hatt

/-- … in the form asked for (`LinksOK` holds in every reachable state — `linksOK_reachable` — and is not needed) -/
theorem C05_rename_wf_linksOK (s : Store) (root : Ino) (v : View) (o n : Bytes) (hwf : WF s root)
    (hn : NamesOK s) (hv : ViewOK s v) (hatt : ViewAttached s root v) (_hl : LinksOK s) :
    WF (rename s v o n).1 root :=
  wf_rename_unconditional s root v o n hwf hn hv hatt

/-- every call of the model now preserves the invariant, each under the hypotheses of `C05_wf_create` only: the heap is
    well formed with valid entry names, the view is usable and attached -/
theorem C05_wf_all_calls (s : Store) (root : Ino) (v : View) (hwf : WF s root) (hn : NamesOK s) (hv : ViewOK s v)
    (hatt : ViewAttached s root v) :
    (∀ p perm, WF (mkdir s v p perm).1 root) ∧ (∀ p perm, WF (mkdirAll s v p perm).1 root) ∧
    (∀ vid p flag perm, WF (openFile s v vid p flag perm).1 root) ∧
    (∀ o n, WF (symlink s v o n).1 root) ∧ (∀ o n, WF (link s v o n).1 root) ∧
    (∀ p, WF (remove s v p).1 root) ∧ (∀ p, WF (removeAll s v p).1 root) ∧
    (∀ o n, WF (rename s v o n).1 root) ∧
    (∀ p sz, WF (truncate s v p sz).1 root) ∧ (∀ p m, WF (chmod s v p m).1 root) ∧
    (∀ p u g m, WF (chown s v p u g m).1 root) ∧ (∀ p t, WF (chtimes s v p t).1 root) ∧
    (∀ h op, WF (fileStep s v h op).1 root) := by
  have hs := C05_search_ok s root v hwf hn hv
  obtain ⟨c1, c2, c3, c4, c5⟩ := C05_wf_create s root v hwf hs hatt
  obtain ⟨r1, r2, r3, r4, r5, r6, r7⟩ := C05_wf_remove_attr s root v hwf hs
  exact ⟨c1, c2, c3, c4, c5, r1, r2, fun o n => C05_rename_wf_unconditional s root v o n hwf hn hv hatt,
    r3, r4, r5, r6, r7⟩

/-- in a state reachable from `memfs.New()` (stated as in `C04_searchNode_eq_namei_reachable`: the heap of the state is
    well formed) -/
theorem C05_rename_wf_reachable (calls : List (Nat × Call)) (root : Ino) (v : View) (o n : Bytes)
    (hwf : WF (run initState calls).1.store root) (hn : NamesOK (run initState calls).1.store)
    (hv : ViewOK (run initState calls).1.store v) (hatt : ViewAttached (run initState calls).1.store root v) :
    WF (rename (run initState calls).1.store v o n).1 root :=
  C05_rename_wf_linksOK _ root v o n hwf hn hv hatt (linksOK_reachable calls)

/-! ### the invariant of runs

  Props/C05.lean states C05 call by call (each theorem assumes `WF` of the state before the call); there was no theorem on
  reachable states for MemFS because Rename carried `RenameSafe`.  With it discharged (and `NamesOK` shown to be kept by
  every call — Lemmas/ReachWF.lean) the invariant closes under every call made through a view of the whole volume. -/

/-- every call other than `Sub`, through any existing view of a state whose views are rooted at the root of the volume,
    keeps: the heap is a well-formed tree with valid names, the views are rooted at the root with an absolute current
    directory -/
theorem C05_step_invariant (st : FSState) (vid : Nat) (c : Call) (h : StInv st) (hc : ∀ p, c ≠ .sub p) :
    StInv (step st vid c).1 :=
  stinv_step st vid c h hc

/-- EVERY STATE REACHABLE from `memfs.New()` by any sequence of calls of the model that does not create views with `Sub`
    (all 28 other calls: any paths, any users through `setUser`, any handle operations, failures included) is a
    well-formed tree with exact link counts, has valid entry names and admissible link targets -/
theorem C05_reachable_wf (calls : List (Nat × Call)) (hns : NoSub calls) :
    WF (run initState calls).1.store 0 ∧ NamesOK (run initState calls).1.store ∧
    LinksOK (run initState calls).1.store :=
  ⟨(wf_reachable calls hns).1, (wf_reachable calls hns).2, linksOK_reachable calls⟩

/-- `NoSub` cannot be dropped: Mkdir("/d"); Sub("/d"); Remove("/d") through the main view; Mkdir("/x") through the sub
    view — all four succeed, and the removed directory has an entry: not a tree any more -/
theorem C05_reachable_sub_witness :
    (run initState subCalls).2 = [.ok .unit, .ok (.view 1), .ok .unit, .ok .unit] ∧
    ¬ WF (run initState subCalls).1.store 0 :=
  reach_sub_not_wf

/-- non-vacuity: a run with renames of directories through links (into itself: refused with EINVAL; into a sibling; and
    back, by a relative path), a Mkdir refused to an ordinary user and a removal in between -/
def rsRun : List (Nat × Call) := [
    (0, .mkdir [SL, 97] 0o755), (0, .mkdir [SL, 97, SL, 98] 0o755), (0, .mkdir [SL, 99] 0o755),
    (0, .symlink [SL, 97] [SL, 108]), (0, .setUser 1000 1000 false), (0, .mkdir [SL, 97, SL, 113] 0o755),
    (0, .setUser 0 0 true), (0, .rename [SL, 97] [SL, 108, SL, 120]), (0, .rename [SL, 108, SL, 98] [SL, 99, SL, 120]),
    (0, .chdir [SL, 99]), (0, .rename [120] [DOT, DOT, SL, 108, SL, 121]), (0, .remove [SL, 99])]

example : (run initState rsRun).2 = [.ok .unit, .ok .unit, .ok .unit, .ok .unit, .ok .unit, .err .EACCES, .ok .unit,
      .err .EINVAL, .ok .unit, .ok .unit, .ok .unit, .ok .unit] ∧
    WF (run initState rsRun).1.store 0 :=
  ⟨by decide +kernel, (C05_reachable_wf _ (noSub_of_check (by decide))).1⟩

/-! ### non-vacuity, on a concrete reachable heap -/

/-- the heap of `memfs.New()` after, by the administrator:
    Mkdir("/a"), Mkdir("/a/b"), Mkdir("/c"), Symlink("/a", "/l") (absolute), Symlink("..", "/a/b/up") (relative, upwards).
    Inodes: / 0, /home 1, /root 2, /tmp 3, /a 4, /a/b 5, /c 6, /l 7, /a/b/up 8 -/
@[irreducible] def rsStore : Store :=
  (run initState [
    (0, .mkdir [SL, 97] 0o755), (0, .mkdir [SL, 97, SL, 98] 0o755), (0, .mkdir [SL, 99] 0o755),
    (0, .symlink [SL, 97] [SL, 108]),
    (0, .symlink [DOT, DOT] [SL, 97, SL, 98, SL, 117, 112])]).1.store

theorem rsStore_wf : WF rsStore 0 ∧ NamesOK rsStore := wfCheck_sound rsStore 0 (by decide +kernel)

/-- the administrator on the whole volume -/
def rsView : View := { root := 0, cwd := [SL], uid := 0, gid := 0, admin := true, umask := 0o022 }
/-- a user standing in /c -/
def rsUser : View := { root := 0, cwd := [SL, 99], uid := 0, gid := 0, admin := true, umask := 0o022 }
/-- a view made by `Sub("/a")`: its root is the directory /a (inode 4) -/
def rsSub : View := { root := 4, cwd := [SL], uid := 0, gid := 0, admin := true, umask := 0o022 }

theorem rsView_ok : ViewOK rsStore rsView := ⟨by decide +kernel, by decide⟩
theorem rsUser_ok : ViewOK rsStore rsUser := ⟨by decide +kernel, by decide⟩
theorem rsSub_ok : ViewOK rsStore rsSub := ⟨by decide +kernel, by decide⟩
theorem rsView_att : ViewAttached rsStore 0 rsView := Or.inl rfl
theorem rsUser_att : ViewAttached rsStore 0 rsUser := Or.inl rfl
theorem rsSub_att : ViewAttached rsStore 0 rsSub := Or.inr ⟨0, [97], show rsStore.child 0 [97] = some 4 by decide +kernel⟩

/-- A directory is moved THROUGH A LINK into a sibling: Rename("/l/b", "/c/x") with /l → "/a" moves /a/b (inode 5)
    to /c/x: it succeeds, the entry is where it should be, and the heap is still a well-formed tree — by the theorem. -/
example : (rename rsStore rsView [SL, 108, SL, 98] [SL, 99, SL, 120]).2 = .ok .unit ∧
    (rename rsStore rsView [SL, 108, SL, 98] [SL, 99, SL, 120]).1.child 6 [120] = some 5 ∧
    (rename rsStore rsView [SL, 108, SL, 98] [SL, 99, SL, 120]).1.child 4 [98] = none ∧
    WF (rename rsStore rsView [SL, 108, SL, 98] [SL, 99, SL, 120]).1 0 :=
  ⟨by decide +kernel, by decide +kernel, by decide +kernel,
    C05_rename_wf_unconditional rsStore 0 rsView _ _ rsStore_wf.1 rsStore_wf.2 rsView_ok rsView_att⟩

/-- the same with a relative, unclean old path, from the current directory /c: Rename("../l//b/.", "x") -/
example : (rename rsStore rsUser [DOT, DOT, SL, 108, SL, SL, 98, SL, DOT] [120]).2 = .ok .unit ∧
    (rename rsStore rsUser [DOT, DOT, SL, 108, SL, SL, 98, SL, DOT] [120]).1.child 6 [120] = some 5 ∧
    WF (rename rsStore rsUser [DOT, DOT, SL, 108, SL, SL, 98, SL, DOT] [120]).1 0 :=
  ⟨by decide +kernel, by decide +kernel,
    C05_rename_wf_unconditional rsStore 0 rsUser _ _ rsStore_wf.1 rsStore_wf.2 rsUser_ok rsUser_att⟩

/-- A directory is moved INTO ITSELF through a link: Rename("/a", "/l/x") with /l → "/a".  The strings given by the
    caller are not prefix-related ("/a" and "/l/x"), the strings the walks return are: "/a" and "/a/x" (the link has been
    spliced in): the new parent (inode 4) is the directory moved, the test fires (`C05_rename_test_fires`, and by
    evaluation), Rename answers EINVAL and changes nothing. -/
example : (searchNode rsStore rsView [SL, 97] .lstat).child = some 4 ∧
    (searchNode rsStore rsView [SL, 108, SL, 120] .lstat).parent = 4 ∧
    (searchNode rsStore rsView [SL, 108, SL, 120] .lstat).err = .noent ∧
    (searchNode rsStore rsView [SL, 97] .lstat).pi.path = [SL, 97] ∧
    (searchNode rsStore rsView [SL, 108, SL, 120] .lstat).pi.path = [SL, 97, SL, 120] ∧
    (((searchNode rsStore rsView [SL, 97] .lstat).pi.path ++ [SL]).isPrefixOf
      (searchNode rsStore rsView [SL, 108, SL, 120] .lstat).pi.path = true) ∧
    rename rsStore rsView [SL, 97] [SL, 108, SL, 120] = (rsStore, .err .EINVAL) := by
  have hc : (searchNode rsStore rsView [SL, 97] .lstat).child = some 4 := by decide +kernel
  have hp : (searchNode rsStore rsView [SL, 108, SL, 120] .lstat).parent = 4 := by decide +kernel
  refine ⟨hc, hp, by decide +kernel, by decide +kernel, by decide +kernel, ?_, by decide +kernel⟩
  exact C05_rename_test_fires rsStore 0 rsView rsStore_wf.1 rsView_ok _ _ 4 hc (by decide +kernel) (by decide +kernel)
    (by rw [hp]; exact Desc.refl)

/-- … and DEEPER, through a relative link that goes upwards: Rename("/a", "/a/b/up/b/y") with /a/b/up → "..": the new
    walk returns the parent /a/b (inode 5, a descendant of /a) and the string "/a/b/y": EINVAL. -/
example : (searchNode rsStore rsView [SL, 97, SL, 98, SL, 117, 112, SL, 98, SL, 121] .lstat).parent = 5 ∧
    Desc rsStore 4 5 ∧
    (searchNode rsStore rsView [SL, 97, SL, 98, SL, 117, 112, SL, 98, SL, 121] .lstat).pi.path = [SL, 97, SL, 98, SL, 121] ∧
    (((searchNode rsStore rsView [SL, 97] .lstat).pi.path ++ [SL]).isPrefixOf
      (searchNode rsStore rsView [SL, 97, SL, 98, SL, 117, 112, SL, 98, SL, 121] .lstat).pi.path = true) ∧
    rename rsStore rsView [SL, 97] [SL, 97, SL, 98, SL, 117, 112, SL, 98, SL, 121] = (rsStore, .err .EINVAL) := by
  have hc : (searchNode rsStore rsView [SL, 97] .lstat).child = some 4 := by decide +kernel
  have hp : (searchNode rsStore rsView [SL, 97, SL, 98, SL, 117, 112, SL, 98, SL, 121] .lstat).parent = 5 := by
    decide +kernel
  have hd : Desc rsStore 4 5 := Desc.step 4 [98] 5 Desc.refl (show rsStore.child 4 [98] = some 5 by decide +kernel)
  refine ⟨hp, hd, by decide +kernel, ?_, by decide +kernel⟩
  exact C05_rename_test_fires rsStore 0 rsView rsStore_wf.1 rsView_ok _ _ 4 hc (by decide +kernel) (by decide +kernel)
    (by rw [hp]; exact hd)

/-- The view need not be rooted at the root of the tree: through `Sub("/a")`, Rename("/b", "/b/up/b/z") — where "up" → ".."
    now leads to the root of the VIEW — is refused in the same way; the strings are relative to the view ("/b", "/b/z"). -/
example : (searchNode rsStore rsSub [SL, 98] .lstat).child = some 5 ∧
    (searchNode rsStore rsSub [SL, 98, SL, 117, 112, SL, 98, SL, 122] .lstat).parent = 5 ∧
    (searchNode rsStore rsSub [SL, 98, SL, 117, 112, SL, 98, SL, 122] .lstat).pi.path = [SL, 98, SL, 122] ∧
    rename rsStore rsSub [SL, 98] [SL, 98, SL, 117, 112, SL, 98, SL, 122] = (rsStore, .err .EINVAL) ∧
    RenameSafe rsStore rsSub [SL, 98] [SL, 98, SL, 117, 112, SL, 98, SL, 122] ∧
    WF (rename rsStore rsSub [SL, 98] [SL, 99]).1 0 :=
  ⟨by decide +kernel, by decide +kernel, by decide +kernel, by decide +kernel,
    C05_rename_safe rsStore 0 rsSub rsStore_wf.1 rsSub_ok _ _,
    C05_rename_wf_unconditional rsStore 0 rsSub _ _ rsStore_wf.1 rsStore_wf.2 rsSub_ok rsSub_att⟩

/-- `LinksOK` is not needed: `lxStore` (Props/C04_links.lean) holds the link /a/x → "/l1/../f", for which the walk of MemFS
    (lexical "..") and the textbook resolution disagree; the walk still returns the real path of the parent it returns,
    so the theorems apply: every Rename on this heap keeps the tree (here: /a/b is moved to /c). -/
example : ¬ LinksOK lxStore ∧ (∀ o n, RenameSafe lxStore rsView o n) ∧
    (rename lxStore rsView [SL, 97, SL, 98] [SL, 99]).2 = .ok .unit ∧
    ∀ o n, WF (rename lxStore rsView o n).1 0 := by
  have hwf := wfCheck_sound lxStore 0 (by decide +kernel)
  have hv : ViewOK lxStore rsView := ⟨by decide +kernel, by decide⟩
  exact ⟨C04_lexical_dotdot_witness.2.1, fun o n => C05_rename_safe lxStore 0 rsView hwf.1 hv o n, by decide +kernel,
    fun o n => C05_rename_wf_unconditional lxStore 0 rsView o n hwf.1 hwf.2 hv (Or.inl rfl)⟩

end Avfs.FS
