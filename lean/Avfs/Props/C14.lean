import Avfs.FS.Enum
import Avfs.Lemmas.PathMore
import Avfs.Lemmas.Enum
/-
  C14 — Glob, WalkDir and ReadDir enumerate exactly what exists.
  Subject: Avfs.FS.glob / walkDirTop / readDir / the existence helpers (models of vfs.go, vfs_aferoutils.go over the
  MemFS model), tied to /repo by `corr memfs-enum` and compared with filepath.Glob / filepath.WalkDir / os.ReadDir in
  the chroot-ed oracle by `corr kernel-enum`.
-/
namespace Avfs.FS
open Avfs.Path

/-- WalkDir never hands SkipDir or SkipAll back to its caller: both end the walk with a nil error -/
theorem C14_walk_skip_not_returned (s : Store) (v : View) (vid : Nat) (root : Bytes) (acts : List WAct) :
    (walkDirTop s v vid root acts).2 ≠ .skipDir ∧ (walkDirTop s v vid root acts).2 ≠ .skipAll := by
  unfold walkDirTop
  constructor <;> (split <;> simp_all <;> (split <;> simp_all))

/-- the callback is called first for the root itself — with the Lstat error when the root does not exist, and then
    nothing else is visited -/
theorem C14_walk_missing_root (s : Store) (v : View) (vid : Nat) (root : Bytes) (acts : List WAct) (e : Err)
    (h : (stat s v root .lstat).2 = .err e) :
    (walkDirTop s v vid root acts).1.visited = [(root, 9, some e)] := by
  unfold walkDirTop
  simp [h, callFn]

/-- `stat` of the model only ever answers with an info or an error -/
theorem stat_ok_info (s : Store) (v : View) (p : Bytes) (m : SlMode) (o : Val) (h : (stat s v p m).2 = .ok o) :
    ∃ i, o = .info i := by
  exact stat_ok_info' s v p m o h

/-- the helpers answer exactly what Stat implies -/
theorem C14_exists_iff_stat (s : Store) (v : View) (p : Bytes) :
    ((pathExists s v p).1 = true ↔ ∃ i, (stat s v p .stat).2 = .ok (.info i)) := by
  unfold pathExists
  constructor
  · intro h
    split at h
    · next o ho => obtain ⟨i, rfl⟩ := stat_ok_info s v p .stat o ho; exact ⟨i, ho⟩
    all_goals simp at h
  · rintro ⟨i, hi⟩
    simp [hi]

theorem C14_isDir_iff (s : Store) (v : View) (p : Bytes) (i : Info) (h : (stat s v p .stat).2 = .ok (.info i)) :
    isDir s v p = (i.kind == 0, none) ∧ dirExists s v p = (i.kind == 0, none) := by
  unfold isDir dirExists
  simp [h]
  by_cases hk : i.kind = 0 <;> simp [hk]

/-- a pattern without meta characters matches exactly when Lstat succeeds (the path itself, nil otherwise) -/
theorem C14_glob_no_meta (s : Store) (v : View) (vid : Nat) (fuel : Nat) (p : Bytes) (hm : hasMeta p = false)
    (hok : ∃ b, pmatch .linux p [] = .ok b) :
    glob s v vid (fuel + 1) p = (match (stat s v p .lstat).2 with | .ok _ => .ok [p] | _ => .ok []) := by
  obtain ⟨b, hb⟩ := hok
  simp only [glob, hb, hm]
  cases (stat s v p .lstat).2 <;> rfl

/-- Glob reports a malformed pattern and never panics on its own pattern check -/
theorem C14_glob_bad_pattern (s : Store) (v : View) (vid : Nat) (fuel : Nat) (p : Bytes)
    (hb : pmatch .linux p [] = .badPattern) : glob s v vid (fuel + 1) p = .badPattern := by
  simp [glob, hb]

/-- listings are sorted by name (byte order) and duplicate-free, whatever the insertion history of the directory -/
theorem C14_names_sorted_nodup (s : Store) (d : Ino) :
    (s.names d).Pairwise (fun a b => bytesLt a b = true) ∧ (s.names d).Nodup := by
  exact ⟨names_sorted s d, names_nodup s d⟩

/-- a name is listed exactly when the directory has an entry of that name (ReadDir ⇔ Lstat of the entry) -/
theorem C14_names_iff_child (s : Store) (d : Ino) (n : Bytes) : n ∈ s.names d ↔ (s.child d n).isSome = true := by
  exact mem_names s d n

/-- ReadDir returns exactly the entries of the directory it resolves to, in name order, with the type of each entry -/
theorem C14_readDir_exact (s : Store) (v : View) (vid : Nat) (p : Bytes) (l : List Info) (hp : p ≠ [])
    (h : readDir s v vid p = .ok (.infos l)) :
    ∃ d, (searchNode s v p .eval).child = some d ∧ isDirAt s d = true ∧
      l.map (·.name) = (s.names d).filter (fun n => ((s.child d n).bind fun c => fillStat s c n).isSome) ∧
      ∀ i ∈ l, ∃ c, s.child d i.name = some c ∧ fillStat s c i.name = some i := by
  have _ := hp   -- implied by `h` (the repaired OpenFile refuses the empty name): `openFile_ok_ne`
  exact readDir_exact s v vid p l h

/-- with a callback that always continues, the first visit is the root and every later visit is an entry of a
    directory visited before it (nothing is invented) — stated for the single-level case: walking a directory whose
    entries are all files visits the root then exactly its sorted entries -/
theorem C14_walk_flat (s : Store) (v : View) (vid : Nat) (root : Bytes) (i : Info) (l : List Info)
    (hst : (stat s v root .lstat).2 = .ok (.info i)) (hk : i.kind = 0)
    (hrd : readDir s v vid root = .ok (.infos l)) (hfiles : ∀ e ∈ l, e.kind ≠ 0) :
    (walkDirTop s v vid root []).1.visited =
      (root, 0, none) :: l.map (fun e => (join .linux [root, e.name], e.kind, none)) ∧
    (walkDirTop s v vid root []).2 = .none := by
  rw [walkDirTop_flat s v vid root i l hst hk hrd hfiles]
  exact ⟨rfl, rfl⟩

end Avfs.FS
