import Avfs.FS.Enum
import Avfs.Lemmas.PathMore
/-
  C14 — Glob, WalkDir and ReadDir enumerate exactly what exists.
  Subject: Avfs.FS.glob / walkDirTop / readDir / the existence helpers (models of vfs.go, vfs_aferoutils.go over the
  MemFS model), tied to /repo by `corr memfs-enum` and compared with filepath.Glob / filepath.WalkDir / os.ReadDir in
  the chroot-ed oracle by `corr kernel-enum`.
-/
namespace Avfs.FS
open Avfs.Path

/-- WalkDir never hands SkipDir or SkipAll back to its caller: both end the walk with a nil error -/
theorem C14_walk_skip_not_returned (s : Store) (v : View) (vid : Nat) (root : Bytes) (acts : List WAct) :
    (walkDirTop s v vid root acts).2 ≠ .skipDir ∧ (walkDirTop s v vid root acts).2 ≠ .skipAll := by
  unfold walkDirTop
  constructor <;> (split <;> simp_all <;> (split <;> simp_all))

/-- the callback is called first for the root itself — with the Lstat error when the root does not exist, and then
    nothing else is visited -/
theorem C14_walk_missing_root (s : Store) (v : View) (vid : Nat) (root : Bytes) (acts : List WAct) (e : Err)
    (h : (stat s v root .lstat).2 = .err e) :
    (walkDirTop s v vid root acts).1.visited = [(root, 9, some e)] := by
  unfold walkDirTop
  simp [h, callFn]

/-- Glob reports a malformed pattern and never panics on its own pattern check -/
theorem C14_glob_bad_pattern (s : Store) (v : View) (vid : Nat) (fuel : Nat) (p : Bytes)
    (hb : pmatch .linux p [] = .badPattern) : glob s v vid (fuel + 1) p = .badPattern := by
  simp [glob, hb]

end Avfs.FS
