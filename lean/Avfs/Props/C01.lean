import Avfs.Lemmas.StepFacts
import Avfs.Lemmas.Posix
/-
  C01 — emulated namespace operations behave as on the real Linux file system.
  Subject: the MemFS model (Avfs.FS.step), tied to /repo by `corr memfs` and compared with the Linux kernel by
  `corr kernel` (OsFS in a chroot-ed child on tmpfs; divergence classes in known_findings.jsonl).
  Proved here: the last sentence of the property, for every call, path and state.
-/
namespace Avfs.FS
open Avfs.Path

/-- A path that is not lexically clean behaves exactly as its Clean() form: the walk is the same … -/
theorem C01_search_unclean (s : Store) (v : View) (p : Bytes) (m : SlMode) (hp : p ≠ []) :
    searchNode s v (clean .linux p) m = searchNode s v p m := searchNode_clean s v p m hp

/-- … and so is every call: same outcome, same resulting state (the calls that record the name as given —
    OpenFile/Create/WriteFile/temp files — are covered by `C01_openFile_unclean` up to the recorded name). -/
theorem C01_step_unclean (st : FSState) (vid : Nat) (c : Call) (hc : c.pathsNonEmpty) :
    step st vid c.cleaned = step st vid c := step_cleaned st vid c hc

theorem C01_openFile_unclean (s : Store) (v : View) (vid : Nat) (p : Bytes) (flag perm : Nat) (hp : p ≠ []) :
    (openFile s v vid (clean .linux p) flag perm).1 = (openFile s v vid p flag perm).1 ∧
    (openFile s v vid (clean .linux p) flag perm).2 =
      (openFile s v vid p flag perm).2.map (fun hd => { hd with name := clean .linux p }) :=
  openFile_clean s v vid p flag perm hp

/-- Symlink stores the cleaned target, whatever form it was given in -/
theorem C01_symlink_target_clean (s : Store) (v : View) (o n : Bytes) :
    symlink s v (clean .linux o) n = symlink s v o n := symlink_clean_target s v o n

/-- the empty path is the one exception (Clean("") = "."): RemoveAll("") succeeds without looking at anything -/
theorem C01_removeAll_empty (s : Store) (v : View) : removeAll s v [] = (s, .ok .unit) := by
  simp [removeAll]


/-! ### MemFS against a POSIX-style reference on paths without symbolic links

  The reference (Lemmas/Posix.lean) is written over the component-wise resolution `walkPath`: resolve every component
  but the last (ENOENT for a missing one, ENOTDIR for a file, EACCES for a directory that may not be searched), then the
  call-specific rule on the last component. The theorems hold for every tree satisfying the invariant, every user and
  every clean absolute path; symbolic links on the way are outside (`.outside` / `.viaLink`). -/

/-- Mkdir = mkdir(2): the reference's error, or one new directory entry under the last component's name in the
    resolved parent, created with the caller's identity and `perm &^ umask` -/
theorem C01_mkdir_posix (s : Store) (root : Ino) (v : View) (hwf : WF s root) (hn : NamesOK s) (hv : ViewOK s v)
    (hroot : v.root = root) (cs : List Bytes) (hne : cs ≠ []) (hall : ∀ c ∈ cs, c ≠ [] ∧ ∀ x ∈ c, x ≠ SL)
    (hdots : ∀ c ∈ cs, c ≠ [DOT] ∧ c ≠ [DOT, DOT]) (perm : Nat) :
    match posixMkdir s v (walkPath s v root cs) with
    | .fail e => mkdir s v (SL :: joinWith SL cs) perm = (s, .err e)
    | .create par name => name = cs.getLast hne ∧
        mkdir s v (SL :: joinWith SL cs) perm = ((createDir s v par name perm).1, .ok .unit)
    | .outside => True :=
  mkdir_posix s root v hwf hn hv hroot cs hne hall hdots perm

/-- Remove = unlink(2) / rmdir(2) (as os.Remove combines them), restricted deletion included (in a directory with the
    sticky bit a caller who is not administrator and owns neither the directory nor the entry gets EPERM from both;
    MemFS honours the bit since the repair, instance `C01_remove_sticky_refused`), for a path that is not the root
    (`remove_root`: EINVAL where POSIX says EBUSY) -/
theorem C01_remove_posix (s : Store) (root : Ino) (v : View) (hwf : WF s root) (hn : NamesOK s) (hv : ViewOK s v)
    (hroot : v.root = root) (cs : List Bytes) (hne : cs ≠ []) (hall : ∀ c ∈ cs, c ≠ [] ∧ ∀ x ∈ c, x ≠ SL)
    (hdots : ∀ c ∈ cs, c ≠ [DOT] ∧ c ≠ [DOT, DOT]) :
    match posixRemove s v (walkPath s v root cs) with
    | .fail e => remove s v (SL :: joinWith SL cs) = (s, .err e)
    | .unlink par c =>
        remove s v (SL :: joinWith SL cs) = (deleteNode (removeChild s par (cs.getLast hne)) c, .ok .unit)
    | .outside => True :=
  remove_posix s root v hwf hn hv hroot cs hne hall hdots

/-- restricted deletion on a concrete reachable heap ("/tmp" with mode 01777, the administrator's file "/tmp/g", the
    user 1000 calls Remove("/tmp/g")): the reference and MemFS both refuse with EPERM and MemFS leaves the heap
    unchanged (kernel-checked; this was the divergence witness before the repair) -/
theorem C01_remove_sticky_refused :
    posixRemove stickyStore exView (walkPath stickyStore exView 0 [cTmp, [103]]) = .fail .EPERM ∧
    remove stickyStore exView [SL, 116, 109, 112, SL, 103] = (stickyStore, .err .EPERM) :=
  remove_sticky_refused

/-- Stat / Lstat = stat(2) / lstat(2) where no link is met: the attributes of the resolved node under the name of the
    last component, or the reference's error; the state never changes -/
theorem C01_stat_posix (s : Store) (root : Ino) (v : View) (hwf : WF s root) (hn : NamesOK s) (hv : ViewOK s v)
    (hroot : v.root = root) (cs : List Bytes) (hne : cs ≠ []) (hall : ∀ c ∈ cs, c ≠ [] ∧ ∀ x ∈ c, x ≠ SL)
    (hdots : ∀ c ∈ cs, c ≠ [DOT] ∧ c ≠ [DOT, DOT]) (m : SlMode) :
    (stat s v (SL :: joinWith SL cs) m).1 = s ∧
    match walkPath s v root cs with
    | .found _ c => ∃ i, fillStat s c (cs.getLast hne) = some i ∧ (stat s v (SL :: joinWith SL cs) m).2 = .ok (.info i)
    | .missingLast _ _ => (stat s v (SL :: joinWith SL cs) m).2 = .err .ENOENT
    | .missingDir => (stat s v (SL :: joinWith SL cs) m).2 = .err .ENOENT
    | .notDir => (stat s v (SL :: joinWith SL cs) m).2 = .err .ENOTDIR
    | .denied => (stat s v (SL :: joinWith SL cs) m).2 = .err .EACCES
    | .viaLink => True :=
  stat_posix s root v hwf hn hv hroot cs hne hall hdots m

end Avfs.FS
