import Avfs.Lemmas.StepFacts
/-
  C01 — emulated namespace operations behave as on the real Linux file system.
  Subject: the MemFS model (Avfs.FS.step), tied to /repo by `corr memfs` and compared with the Linux kernel by
  `corr kernel` (OsFS in a chroot-ed child on tmpfs; divergence classes in known_findings.jsonl).
  Proved here: the last sentence of the property, for every call, path and state.
-/
namespace Avfs.FS
open Avfs.Path

/-- A path that is not lexically clean behaves exactly as its Clean() form: the walk is the same … -/
theorem C01_search_unclean (s : Store) (v : View) (p : Bytes) (m : SlMode) (hp : p ≠ []) :
    searchNode s v (clean .linux p) m = searchNode s v p m := searchNode_clean s v p m hp

/-- … and so is every call: same outcome, same resulting state (the calls that record the name as given —
    OpenFile/Create/WriteFile/temp files — are covered by `C01_openFile_unclean` up to the recorded name). -/
theorem C01_step_unclean (st : FSState) (vid : Nat) (c : Call) (hc : c.pathsNonEmpty) :
    step st vid c.cleaned = step st vid c := step_cleaned st vid c hc

theorem C01_openFile_unclean (s : Store) (v : View) (vid : Nat) (p : Bytes) (flag perm : Nat) (hp : p ≠ []) :
    (openFile s v vid (clean .linux p) flag perm).1 = (openFile s v vid p flag perm).1 ∧
    (openFile s v vid (clean .linux p) flag perm).2 =
      (openFile s v vid p flag perm).2.map (fun hd => { hd with name := clean .linux p }) :=
  openFile_clean s v vid p flag perm hp

/-- Symlink stores the cleaned target, whatever form it was given in -/
theorem C01_symlink_target_clean (s : Store) (v : View) (o n : Bytes) :
    symlink s v (clean .linux o) n = symlink s v o n := symlink_clean_target s v o n

/-- the empty path is the one exception (Clean("") = "."): RemoveAll("") succeeds without looking at anything -/
theorem C01_removeAll_empty (s : Store) (v : View) : removeAll s v [] = (s, .ok .unit) := by
  simp [removeAll]

end Avfs.FS
