import Avfs.Lemmas.StepFacts
import Avfs.Lemmas.Posix
import Avfs.Lemmas.Posix2
/-
  C01 — emulated namespace operations behave as on the real Linux file system.
  Subject: the MemFS model (Avfs.FS.step), tied to /repo by `corr memfs` and compared with the Linux kernel by
  `corr kernel` (OsFS in a chroot-ed child on tmpfs; divergence classes in known_findings.jsonl).
  Proved here: the last sentence of the property, for every call, path and state.
-/
namespace Avfs.FS
open Avfs.Path

/-- A path that is not lexically clean behaves exactly as its Clean() form: the walk is the same … -/
theorem C01_search_unclean (s : Store) (v : View) (p : Bytes) (m : SlMode) (hp : p ≠ []) :
    searchNode s v (clean .linux p) m = searchNode s v p m := searchNode_clean s v p m hp

/-- … and so is every call: same outcome, same resulting state (the calls that record the name as given —
    OpenFile/Create/WriteFile/temp files — are covered by `C01_openFile_unclean` up to the recorded name). -/
theorem C01_step_unclean (st : FSState) (vid : Nat) (c : Call) (hc : c.pathsNonEmpty) :
    step st vid c.cleaned = step st vid c := step_cleaned st vid c hc

theorem C01_openFile_unclean (s : Store) (v : View) (vid : Nat) (p : Bytes) (flag perm : Nat) (hp : p ≠ []) :
    (openFile s v vid (clean .linux p) flag perm).1 = (openFile s v vid p flag perm).1 ∧
    (openFile s v vid (clean .linux p) flag perm).2 =
      (openFile s v vid p flag perm).2.map (fun hd => { hd with name := clean .linux p }) :=
  openFile_clean s v vid p flag perm hp

/-- Symlink stores the cleaned target, whatever form it was given in -/
theorem C01_symlink_target_clean (s : Store) (v : View) (o n : Bytes) :
    symlink s v (clean .linux o) n = symlink s v o n := symlink_clean_target s v o n

/-- the empty path is the one exception (Clean("") = "."): RemoveAll("") succeeds without looking at anything -/
theorem C01_removeAll_empty (s : Store) (v : View) : removeAll s v [] = (s, .ok .unit) := by
  simp [removeAll]


/-! ### MemFS against a POSIX-style reference on paths without symbolic links

  The reference (Lemmas/Posix.lean) is written over the component-wise resolution `walkPath`: resolve every component
  but the last (ENOENT for a missing one, ENOTDIR for a file, EACCES for a directory that may not be searched), then the
  call-specific rule on the last component. The theorems hold for every tree satisfying the invariant, every user and
  every clean absolute path; symbolic links on the way are outside (`.outside` / `.viaLink`). -/

/-- Mkdir = mkdir(2): the reference's error, or one new directory entry under the last component's name in the
    resolved parent, created with the caller's identity and `perm &^ umask` -/
theorem C01_mkdir_posix (s : Store) (root : Ino) (v : View) (hwf : WF s root) (hn : NamesOK s) (hv : ViewOK s v)
    (hroot : v.root = root) (cs : List Bytes) (hne : cs ≠ []) (hall : ∀ c ∈ cs, c ≠ [] ∧ ∀ x ∈ c, x ≠ SL)
    (hdots : ∀ c ∈ cs, c ≠ [DOT] ∧ c ≠ [DOT, DOT]) (perm : Nat) :
    match posixMkdir s v (walkPath s v root cs) with
    | .fail e => mkdir s v (SL :: joinWith SL cs) perm = (s, .err e)
    | .create par name => name = cs.getLast hne ∧
        mkdir s v (SL :: joinWith SL cs) perm = ((createDir s v par name perm).1, .ok .unit)
    | .outside => True :=
  mkdir_posix s root v hwf hn hv hroot cs hne hall hdots perm

/-- Remove = unlink(2) / rmdir(2) (as os.Remove combines them), restricted deletion included (in a directory with the
    sticky bit a caller who is not administrator and owns neither the directory nor the entry gets EPERM from both;
    MemFS honours the bit since the repair, instance `C01_remove_sticky_refused`), for a path that is not the root
    (`remove_root`: EINVAL where POSIX says EBUSY) -/
theorem C01_remove_posix (s : Store) (root : Ino) (v : View) (hwf : WF s root) (hn : NamesOK s) (hv : ViewOK s v)
    (hroot : v.root = root) (cs : List Bytes) (hne : cs ≠ []) (hall : ∀ c ∈ cs, c ≠ [] ∧ ∀ x ∈ c, x ≠ SL)
    (hdots : ∀ c ∈ cs, c ≠ [DOT] ∧ c ≠ [DOT, DOT]) :
    match posixRemove s v (walkPath s v root cs) with
    | .fail e => remove s v (SL :: joinWith SL cs) = (s, .err e)
    | .unlink par c =>
        remove s v (SL :: joinWith SL cs) = (deleteNode (removeChild s par (cs.getLast hne)) c, .ok .unit)
    | .outside => True :=
  remove_posix s root v hwf hn hv hroot cs hne hall hdots

/-- restricted deletion on a concrete reachable heap ("/tmp" with mode 01777, the administrator's file "/tmp/g", the
    user 1000 calls Remove("/tmp/g")): the reference and MemFS both refuse with EPERM and MemFS leaves the heap
    unchanged (kernel-checked; this was the divergence witness before the repair) -/
theorem C01_remove_sticky_refused :
    posixRemove stickyStore exView (walkPath stickyStore exView 0 [cTmp, [103]]) = .fail .EPERM ∧
    remove stickyStore exView [SL, 116, 109, 112, SL, 103] = (stickyStore, .err .EPERM) :=
  remove_sticky_refused

/-- Stat / Lstat = stat(2) / lstat(2) where no link is met: the attributes of the resolved node under the name of the
    last component, or the reference's error; the state never changes -/
theorem C01_stat_posix (s : Store) (root : Ino) (v : View) (hwf : WF s root) (hn : NamesOK s) (hv : ViewOK s v)
    (hroot : v.root = root) (cs : List Bytes) (hne : cs ≠ []) (hall : ∀ c ∈ cs, c ≠ [] ∧ ∀ x ∈ c, x ≠ SL)
    (hdots : ∀ c ∈ cs, c ≠ [DOT] ∧ c ≠ [DOT, DOT]) (m : SlMode) :
    (stat s v (SL :: joinWith SL cs) m).1 = s ∧
    match walkPath s v root cs with
    | .found _ c => ∃ i, fillStat s c (cs.getLast hne) = some i ∧ (stat s v (SL :: joinWith SL cs) m).2 = .ok (.info i)
    | .missingLast _ _ => (stat s v (SL :: joinWith SL cs) m).2 = .err .ENOENT
    | .missingDir => (stat s v (SL :: joinWith SL cs) m).2 = .err .ENOENT
    | .notDir => (stat s v (SL :: joinWith SL cs) m).2 = .err .ENOTDIR
    | .denied => (stat s v (SL :: joinWith SL cs) m).2 = .err .EACCES
    | .viaLink => True :=
  stat_posix s root v hwf hn hv hroot cs hne hall hdots m


/-! ### more calls against the POSIX-style reference (Lemmas/Posix2.lean): open, link, truncate, chmod, chown, rename -/

/-- OpenFile = open(2) for every flag value: the reference's error; or a new regular file under the last component's name in the resolved parent (caller's identity, perm &^ umask) and a handle on it; or a handle on the existing node (truncated first when O_TRUNC is given); O_CREAT|O_EXCL on an existing entry is EEXIST whatever its permission bits (witness `open_excl_exists`) -/
theorem C01_open_posix (s : Store) (root : Ino) (v : View) (hwf : WF s root) (hn : NamesOK s) (hv : ViewOK s v)
    (hroot : v.root = root) (cs : List Bytes) (hne : cs ≠ []) (hall : ∀ c ∈ cs, c ≠ [] ∧ ∀ x ∈ c, x ≠ SL)
    (hdots : ∀ c ∈ cs, c ≠ [DOT] ∧ c ≠ [DOT, DOT]) (vid flag perm : Nat) :
    match posixOpen s v (toOpenMode flag) (walkPath s v root cs) with
    | .fail e => openFile s v vid (SL :: joinWith SL cs) flag perm = (s, .error e)
    | .create par name => name = cs.getLast hne ∧
        openFile s v vid (SL :: joinWith SL cs) flag perm =
          ((createFile s v par name perm).1,
           .ok (handleOn (createFile s v par name perm).2 (SL :: joinWith SL cs) (toOpenMode flag) vid))
    | .opened c tr => openFile s v vid (SL :: joinWith SL cs) flag perm =
        (if tr then truncated s c else s, .ok (handleOn c (SL :: joinWith SL cs) (toOpenMode flag) vid))
    | .outside => True :=
  open_posix s root v hwf hn hv hroot cs hne hall hdots vid flag perm

/-- Link = link(2): the reference's error, or one more entry for the same node in the resolved parent of the new name, link count + 1 -/
theorem C01_link_posix (s : Store) (root : Ino) (v : View) (hwf : WF s root) (hn : NamesOK s) (hv : ViewOK s v)
    (hroot : v.root = root) (cso csn : List Bytes) (hnen : csn ≠ [])
    (hallo : ∀ c ∈ cso, c ≠ [] ∧ ∀ x ∈ c, x ≠ SL) (hdotso : ∀ c ∈ cso, c ≠ [DOT] ∧ c ≠ [DOT, DOT])
    (halln : ∀ c ∈ csn, c ≠ [] ∧ ∀ x ∈ c, x ≠ SL) (hdotsn : ∀ c ∈ csn, c ≠ [DOT] ∧ c ≠ [DOT, DOT]) :
    match posixLink s v (walkPath s v root cso) (walkPath s v root csn) with
    | .fail e => link s v (SL :: joinWith SL cso) (SL :: joinWith SL csn) = (s, .err e)
    | .link oc par name => name = csn.getLast hnen ∧
        link s v (SL :: joinWith SL cso) (SL :: joinWith SL csn) = (linked s oc par name, .ok .unit)
    | .outside => True :=
  link_posix s root v hwf hn hv hroot cso csn hnen hallo hdotso halln hdotsn

/-- Truncate = truncate(2) on the resolved node (size limit, write permission, EISDIR), only that node changes -/
theorem C01_truncate_posix (s : Store) (root : Ino) (v : View) (hwf : WF s root) (hn : NamesOK s) (hv : ViewOK s v)
    (hroot : v.root = root) (cs : List Bytes) (hall : ∀ c ∈ cs, c ≠ [] ∧ ∀ x ∈ c, x ≠ SL)
    (hdots : ∀ c ∈ cs, c ≠ [DOT] ∧ c ≠ [DOT, DOT]) (size : Int) :
    match posixTruncate s v size (walkPath s v root cs) with
    | .fail e => truncate s v (SL :: joinWith SL cs) size = (s, .err e)
    | .update c n => truncate s v (SL :: joinWith SL cs) size = (s.set c n, .ok .unit)
    | .outside => True :=
  truncate_posix s root v hwf hn hv hroot cs hall hdots size

/-- Chmod = chmod(2): owner or administrator only; the permission bits are replaced, nothing else -/
theorem C01_chmod_posix (s : Store) (root : Ino) (v : View) (hwf : WF s root) (hn : NamesOK s) (hv : ViewOK s v)
    (hroot : v.root = root) (cs : List Bytes) (hall : ∀ c ∈ cs, c ≠ [] ∧ ∀ x ∈ c, x ≠ SL)
    (hdots : ∀ c ∈ cs, c ≠ [DOT] ∧ c ≠ [DOT, DOT]) (mode : Nat) :
    match posixChmod s v mode (walkPath s v root cs) with
    | .fail e => chmod s v (SL :: joinWith SL cs) mode = (s, .err e)
    | .update c n => chmod s v (SL :: joinWith SL cs) mode = (s.set c n, .ok .unit)
    | .outside => True :=
  chmod_posix s root v hwf hn hv hroot cs hall hdots mode

/-- Chown / Lchown = chown(2) for the administrator; for anybody else MemFS answers EPERM before resolving the path (corner `chown_user`; recorded finding dac.chown-noop-nonadmin), so the theorem covers the cases where the reference says EPERM too -/
theorem C01_chown_posix (s : Store) (root : Ino) (v : View) (hwf : WF s root) (hn : NamesOK s) (hv : ViewOK s v)
    (hroot : v.root = root) (cs : List Bytes) (hall : ∀ c ∈ cs, c ≠ [] ∧ ∀ x ∈ c, x ≠ SL)
    (hdots : ∀ c ∈ cs, c ≠ [DOT] ∧ c ≠ [DOT, DOT]) (uid gid : Int) (m : SlMode)
    (hcorner : v.admin = true ∨ posixChown s v uid gid (walkPath s v root cs) = .fail .EPERM) :
    match posixChown s v uid gid (walkPath s v root cs) with
    | .fail e => chown s v (SL :: joinWith SL cs) uid gid m = (s, .err e)
    | .update c n => chown s v (SL :: joinWith SL cs) uid gid m = (s.set c n, .ok .unit)
    | .outside => True :=
  chown_posix s root v hwf hn hv hroot cs hall hdots uid gid m hcorner

/-- Rename = rename(2) for file and directory sources: error selection (EACCES on either parent, restricted deletion EPERM, EINVAL into the own subtree, EISDIR / ENOTDIR / EEXIST by kinds), the same-path and same-inode no-ops, and the effect (the entry moves, a replaced destination is released once) — outside the corner `renameCorner` where MemFS answers EEXIST for every existing destination that is not a regular file (`rename_corner_eexist`; os.Rename's own pre-check does the same for directories) -/
theorem C01_rename_posix (s : Store) (root : Ino) (v : View) (hwf : WF s root) (hn : NamesOK s) (hv : ViewOK s v)
    (hroot : v.root = root) (cso csn : List Bytes) (hneo : cso ≠ []) (hnen : csn ≠ [])
    (hallo : ∀ c ∈ cso, c ≠ [] ∧ ∀ x ∈ c, x ≠ SL) (hdotso : ∀ c ∈ cso, c ≠ [DOT] ∧ c ≠ [DOT, DOT])
    (halln : ∀ c ∈ csn, c ≠ [] ∧ ∀ x ∈ c, x ≠ SL) (hdotsn : ∀ c ∈ csn, c ≠ [DOT] ∧ c ≠ [DOT, DOT])
    (hcorner : renameCorner s (walkPath s v root cso) (walkPath s v root csn)
      (posixRename s v (decide (cso = csn)) (cso.isPrefixOf csn && cso != csn)
        (walkPath s v root cso) (walkPath s v root csn)) = false) :
    match posixRename s v (decide (cso = csn)) (cso.isPrefixOf csn && cso != csn)
      (walkPath s v root cso) (walkPath s v root csn) with
    | .fail e => rename s v (SL :: joinWith SL cso) (SL :: joinWith SL csn) = (s, .err e)
    | .noop => rename s v (SL :: joinWith SL cso) (SL :: joinWith SL csn) = (s, .ok .unit)
    | .move opar npar oc repl => rename s v (SL :: joinWith SL cso) (SL :: joinWith SL csn) =
        (renamed s opar (cso.getLast hneo) npar (csn.getLast hnen) oc repl, .ok .unit)
    | .outside => True :=
  rename_posix s root v hwf hn hv hroot cso csn hneo hnen hallo hdotso halln hdotsn hcorner

end Avfs.FS
