import Avfs.Lemmas.Copy
/-
  C16 — CopyFile, CopyFileHash and HashFile report every failure and copy faithfully.
  Subject: Avfs.Copy (model of copy.go with the io.CopyBuffer loop), tied to /repo by `corr copy`
  (real CopyFileHash/HashFile through FailFS on both sides, every single-fault plan, sizes around 32 KiB).
-/
namespace Avfs.Copy

/-- Every failure is reported: if any primitive other than closing the source is made to fail, for any
    fault plan (single or multiple faults), any content, any chunk size, the returned error is non-nil. -/
theorem C16_err_reported (plan : Nat → Bool) (chunk : Nat) (hasher : Bool) (src : Bytes) (perm : Nat)
    (hc : 0 < chunk) (e : Ev) (he : e ≠ .closeSrc)
    (hf : (e, true) ∈ (copyFileHash plan chunk hasher src perm).trace) :
    (copyFileHash plan chunk hasher src perm).err = true := by
  obtain ⟨-, hb, -⟩ := copyLoop_spec plan chunk hc (src.length + 1) src [] 2
    [(.openSrc, false), (.createDst, false)] (by omega)
  have hb' := hb e
  simp only [List.mem_cons, List.not_mem_nil, or_false, Prod.mk.injEq, Bool.true_eq_false,
    and_false, false_or] at hb'
  revert hf
  unfold copyFileHash
  split
  · simp
  split
  · simp
  simp only []
  split
  · simp
  split
  · simp
  split
  · simp
  split
  · simp
  simp only [List.mem_append, List.mem_cons, List.not_mem_nil, or_false, Prod.mk.injEq,
    Bool.false_or, Bool.true_eq_false, and_false]
  rintro (h | h | h)
  · exact absurd (hb' h) ‹_›
  · exact h.2.symm
  · exact absurd h.1 he

/-- A nil error means a faithful copy: the destination holds exactly the source's bytes and permission bits
    and the digest returned is the digest of those bytes (none for CopyFile). For every content and chunk size. -/
theorem C16_nil_means_faithful (plan : Nat → Bool) (chunk : Nat) (hasher : Bool) (src : Bytes) (perm : Nat)
    (hc : 0 < chunk) (h : (copyFileHash plan chunk hasher src perm).err = false) :
    (copyFileHash plan chunk hasher src perm).dst = some (src, perm) ∧
    (copyFileHash plan chunk hasher src perm).sum = (if hasher then some src else none) := by
  obtain ⟨ha, -, -⟩ := copyLoop_spec plan chunk hc (src.length + 1) src [] 2
    [(.openSrc, false), (.createDst, false)] (by omega)
  simp only [List.nil_append] at ha
  revert h
  unfold copyFileHash
  split
  · simp
  split
  · simp
  simp only []
  split
  · simp
  split
  · simp
  split
  · simp
  split
  · simp
  rename_i hcerr _ _ _
  have hw := ha (by simpa using hcerr)
  simp only [Bool.false_or, Bool.false_eq_true, if_false]
  intro _
  rw [hw]
  exact ⟨rfl, rfl⟩

/-- The chunked copy loop delivers exactly the source for every size and every chunk size (the 32 KiB
    boundary is one value of `chunk`), when no primitive fails. -/
theorem C16_copy_concat (plan : Nat → Bool) (chunk : Nat) (src : Bytes) (k : Nat) (tr : List (Ev × Bool))
    (hc : 0 < chunk) (hp : ∀ i, plan i = false) :
    (copyLoop plan chunk (src.length + 1) src [] k tr).1 = src ∧
    (copyLoop plan chunk (src.length + 1) src [] k tr).2.1 = false := by
  have hlen : src.length < src.length + 1 := by omega
  have hnf := copyLoop_no_fault plan chunk hc hp (src.length + 1) src [] k tr hlen
  obtain ⟨ha, -, -⟩ := copyLoop_spec plan chunk hc (src.length + 1) src [] k tr hlen
  exact ⟨by simpa using ha hnf, hnf⟩

/-- Without faults CopyFileHash succeeds. -/
theorem C16_no_fault_ok (plan : Nat → Bool) (chunk : Nat) (hasher : Bool) (src : Bytes) (perm : Nat)
    (hc : 0 < chunk) (hp : ∀ i, plan i = false) :
    (copyFileHash plan chunk hasher src perm).err = false := by
  have hnf := copyLoop_no_fault plan chunk hc hp (src.length + 1) src [] 2
    [(.openSrc, false), (.createDst, false)] (by omega)
  unfold copyFileHash
  simp [hp, hnf]

/-- HashFile: a nil error means the digest is the digest of the file's bytes; a failing open or read is reported. -/
theorem C16_hashFile (plan : Nat → Bool) (chunk : Nat) (src : Bytes) (hc : 0 < chunk) :
    ((hashFile plan chunk src).1 = false → (hashFile plan chunk src).2.1 = some src) ∧
    (∀ e, e ≠ Ev.closeSrc → (e, true) ∈ (hashFile plan chunk src).2.2 → (hashFile plan chunk src).1 = true) := by
  obtain ⟨ha, hb, -⟩ := hashLoop_spec plan chunk hc (src.length + 1) src [] 1
    [(.openSrc, false)] (by omega)
  simp only [List.nil_append] at ha
  unfold hashFile
  split
  · simp
  simp only []
  split
  · refine ⟨by simp, fun _ _ _ => rfl⟩
  · rename_i herr
    refine ⟨fun _ => ?_, ?_⟩
    · simp only []
      rw [ha (by simpa using herr)]
    · intro e he
      simp only [List.mem_append, List.mem_cons, List.not_mem_nil, or_false, Prod.mk.injEq]
      rintro (h | h)
      · have := hb e h
        simp only [List.mem_cons, List.not_mem_nil, or_false, Prod.mk.injEq, Bool.true_eq_false,
          and_false, false_or] at this
        exact absurd this herr
      · exact absurd h.1 he

end Avfs.Copy
