import Avfs.Lemmas.OrefaFileSpec
/-
  C02 for OrefaFS — open-file I/O refines the same POSIX-style reference as MemFS.
  Subject: `Avfs.Orefa.fileStep` (model of orefafs_file.go).  Reference: `refStep` / `refRun` (Avfs/FS/FileSpec.lean), written
  from POSIX read / pread / write / pwrite / lseek / ftruncate, the reference of `C02_history_refines` for MemFS.
  Proofs: Lemmas/OrefaFileSpec.lean.

  Abstraction: a handle stands for an open file description through `Handle.repr` (open on the node, a name, the same
  offset ≥ 0, the same access flags — the relation used for MemFS); the file is `OStore.fileData s i` (the `data` of the
  non-directory node `i`).  Any number of handles, opened through any of the names of the file, removed or not.

  No hypothesis on sizes or offsets: after the repair of orefafs (Truncate by name, File.Truncate, Write and WriteAt
  refuse with EINVAL what would make the content longer than `maxFileSize`, 2 GiB as MemFS; Seek answers EINVAL when
  the int64 offset wraps) the statement is exactly the one of `C02_history_refines` for MemFS.  The limit was found
  missing by this refinement proof (the former statement needed a hypothesis `HistInLimits`); on the code,
  Truncate(name, 1<<62) panicked in makeslice with the node locked.  `C02_orefa_limits_enforced`: the calls that needed
  the hypothesis now answer EINVAL, as the reference.
-/
namespace Avfs.Orefa
open Avfs.Path Avfs.FS

/-- one operation: same result, the content the reference computes, the handle stands for the new description, no
    other node changes -/
theorem C02_orefa_step_refines (s : OStore) (v : OView) (ap : Bytes) (h : Handle) (i : Ino) (f : Bytes) (d : FDesc) (op : IOp)
    (hr : h.repr i d) (hf : s.fileData i = some f) :
    (fileStep s v h ap op.toFOp).2.2.2 = (refStep f d op).2.2 ∧
    (fileStep s v h ap op.toFOp).1.fileData i = some (refStep f d op).1 ∧
    (fileStep s v h ap op.toFOp).2.2.1.repr i (refStep f d op).2.1 ∧
    (∀ j, j ≠ i → (fileStep s v h ap op.toFOp).1.get j = s.get j) :=
  fileStep_refines s v ap h i f d op hr hf

/-- every history of read / pread / write / pwrite / lseek / ftruncate issued on any number of handles of one regular
    file, of any length: the OrefaFS model returns the results of the reference, ends with its content and its offsets -/
theorem C02_orefa_history_refines (s : OStore) (v : OView) (ap : Bytes) (i : Ino) (f : Bytes) (hs : List Handle)
    (ds : List FDesc) (ops : List (Nat × IOp)) (hlen : hs.length = ds.length)
    (hr : ∀ (k : Nat) (h : Handle) (d : FDesc), hs[k]? = some h → ds[k]? = some d → h.repr i d) (hf : s.fileData i = some f) :
    (modelRun s v ap hs ops).2.2 = (refRun f ds ops).2.2 ∧
    (modelRun s v ap hs ops).1.fileData i = some (refRun f ds ops).1 ∧
    (modelRun s v ap hs ops).2.1.length = (refRun f ds ops).2.1.length ∧
    (∀ (k : Nat) (h : Handle) (d : FDesc), (modelRun s v ap hs ops).2.1[k]? = some h → (refRun f ds ops).2.1[k]? = some d → h.repr i d) :=
  history_refines s v ap i f hs ds ops hlen hr hf

/-- the same through the handle table of the whole state: a call `.file hid op` on a handle that stands for `d` -/
theorem C02_orefa_call_refines (st : OState) (hid : Nat) (h : Handle) (i : Ino) (f : Bytes) (d : FDesc) (op : IOp)
    (hl : AL.lookup hid st.handles = some h) (hr : h.repr i d) (hf : st.store.fileData i = some f) :
    (step st (.file hid op.toFOp)).2 = (refStep f d op).2.2 ∧
    (step st (.file hid op.toFOp)).1.store.fileData i = some (refStep f d op).1 ∧
    (∃ h', AL.lookup hid (step st (.file hid op.toFOp)).1.handles = some h' ∧ h'.repr i (refStep f d op).2.1) ∧
    (∀ hid', hid' ≠ hid → AL.lookup hid' (step st (.file hid op.toFOp)).1.handles = AL.lookup hid' st.handles) := by
  obtain ⟨a1, a2, a3, _⟩ := fileStep_refines st.store st.view ((AL.lookup hid st.habs).getD []) h i f d op hr hf
  simp only [step, hl]
  refine ⟨a1, a2, ⟨_, by simp, a3⟩, ?_⟩
  intro hid' hne
  simp [Ne.symm hne, AL.lookup_erase_ne _ (Ne.symm hne)]

/-- the write of OrefaFile.Write / WriteAt is the pointwise reference write: byte k of the result is the written byte
    inside the written range, the old byte below the old length, 0 inside the gap -/
theorem C02_orefa_write_pointwise (data : Bytes) (pos : Nat) (b : Bytes) (hb : b ≠ []) (k : Nat) :
    ((if pos + b.length > data.length then data ++ List.replicate (pos + b.length - data.length) 0 else data).take pos ++ b ++
      (if pos + b.length > data.length then data ++ List.replicate (pos + b.length - data.length) 0 else data).drop (pos + b.length))[k]?
      = writtenByte data pos b k := by
  rw [owriteAt_eq _ _ _ (fsp_name_isEmpty_false hb), writeData_eq_refPwrite, refPwrite_getElem? _ _ _ hb]

/-- the limits are enforced: on the empty file of `exampleState`, a Write / WriteAt ending beyond `maxFileSize`, a
    Truncate (through the handle and by name, here with 1<<62) beyond `maxFileSize` and a Seek to 2^63 answer EINVAL in
    the OrefaFS model, as the reference does.  Before the repair the code accepted the writes and PANICKED in Truncate
    (makeslice, with the node locked: the next Stat deadlocked), and the former model answered `.ok` to all of them:
    these were the witnesses that the (now dropped) limits hypothesis was needed. -/
theorem C02_orefa_limits_enforced :
    let h : Handle := { nd := some 6, name := [47, 97, 47, 102], pos := 2147483647, om := 86, dirEntries := none, dirNames := none,
                        dirIndex := 0, view := 0 }
    let d : FDesc := ⟨2147483647, true, true, false⟩
    h.repr 6 d ∧ exampleState.store.fileData 6 = some [] ∧
    (fileStep exampleState.store exampleState.view h [] (.write [1])).2.2.2 = .err .EINVAL ∧
    (refStep [] d (.write [1])).2.2 = .err .EINVAL ∧
    (fileStep exampleState.store exampleState.view h [] (.writeAt [1] 2147483647)).2.2.2 = .err .EINVAL ∧
    (refStep [] d (.pwrite [1] 2147483647)).2.2 = .err .EINVAL ∧
    (fileStep exampleState.store exampleState.view h [] (.truncate 2147483648)).2.2.2 = .err .EINVAL ∧
    (refStep [] d (.ftruncate 2147483648)).2.2 = .err .EINVAL ∧
    (truncate exampleState.store exampleState.view [47, 97, 47, 102] 4611686018427387904).2 = .err .EINVAL := limits_enforced_write

theorem C02_orefa_limits_enforced_seek :
    let h : Handle := { nd := some 6, name := [47, 97, 47, 102], pos := 0, om := 86, dirEntries := none, dirNames := none,
                        dirIndex := 0, view := 0 }
    let d : FDesc := ⟨0, true, true, false⟩
    h.repr 6 d ∧ exampleState.store.fileData 6 = some [] ∧
    (fileStep exampleState.store exampleState.view h [] (.seek 9223372036854775808 0)).2.2.2 = .err .EINVAL ∧
    (refStep [] d (.lseek 9223372036854775808 0)).2.2 = .err .EINVAL := limits_enforced_lseek

/-- non-vacuity: two handles of the state `exampleState2` (Create /a/f read-write; OpenFile /a/g write-only with
    O_APPEND: two names of one node) stand for two descriptions of the empty file; the history `exOps` (seek beyond the
    end, write leaving a zero gap, an append landing at the end the other handle made, a short pread, a read refused on
    the write-only handle, seek from the end, truncate, append again, read all, a negative pwrite offset, an unknown
    handle index): the model run equals the reference run, whose result is the listed one -/
theorem C02_orefa_example :
    AL.lookup 0 exampleState2.handles = some exH0 ∧ AL.lookup 1 exampleState2.handles = some exH1 ∧
    (modelRun exampleState2.store exampleState2.view [] [exH0, exH1] exOps).2.2 = (refRun [] exDs exOps).2.2 ∧
    (modelRun exampleState2.store exampleState2.view [] [exH0, exH1] exOps).1.fileData 6 = some (refRun [] exDs exOps).1 ∧
    refRun [] exDs exOps =
      ([0, 0, 8, 8], [⟨4, true, true, false⟩, ⟨4, false, true, true⟩],
       [.ok (.num 5 []), .ok (.num 1 []), .ok (.num 1 []), .errN 7 [0, 0, 0, 0, 0, 9, 7] .eof, .err .EBADF, .ok (.num 4 []),
        .ok .unit, .ok (.num 2 []), .ok (.num 0 []), .ok (.num 4 [0, 0, 8, 8]), .err .negOffset]) :=
  ⟨example_handles.1, example_handles.2.1, example_refines⟩

end Avfs.Orefa
