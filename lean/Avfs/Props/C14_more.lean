import Avfs.Lemmas.WalkPerm
import Avfs.Lemmas.GlobSpec
/-
  C14 (WalkDir / Glob, continued) — WalkDir for a PLAIN USER (directories that cannot be listed: the second call of the
  callback, with the error) and Glob with metacharacters in several components.

  Subject: `Avfs.FS.walkDirTop` / `Avfs.FS.glob` (FS/Enum.lean).
  References: `specWalkP` over the tree `Store.treeP` whose directories carry the flag "listable by the caller"
  (Lemmas/WalkPerm.lean); `globLevels` (over what Glob reads: `listNames`) and `globLevelsH` (over the nodes of the
  heap) (Lemmas/GlobSpec.lean).

  Permissions, as the model has them:
  * a directory is LISTABLE when every directory above it on its path (the root of the view included) may be SEARCHED
    (x) and the directory itself may be READ (r); both failures of ReadDir are EACCES;
  * the Infos of a listing come from the nodes of the entries (no Lstat through the directory): a directory that is
    readable but not searchable has its entries visited (with their kinds), and every sub-directory among them is
    unlistable;
  * Glob lists a directory under the same conditions, after a Stat (which follows symbolic links) that says
    "directory".
-/
namespace Avfs.FS
open Avfs.Path

/-- WalkDir = the reference walk `specWalkTopP` of the tree below the root, for EVERY caller (`v` arbitrary: a plain
    user, any view root) and EVERY list of callback answers: same calls of the callback (path, kind, error) in the same
    order, same unused answers, same result.
    An unlistable directory, when the callback continued on its visit, is reported a second time with EACCES; to that
    report "continue" and SkipDir both skip the directory only, SkipAll ends the walk with nil, an error ends it with
    the error. Nothing below it is visited. -/
theorem C14_walk_spec_user (s : Store) (root : Ino) (v : View) (hwf : WF s root) (hn : NamesOK s) (hdf : DotFree s)
    (hvr : ∃ m ch, s.get v.root = some (.dir m ch)) (vid : Nat) (cs : List Bytes)
    (hall : ∀ c ∈ cs, c ≠ [] ∧ ∀ x ∈ c, x ≠ SL) (hdots : ∀ c ∈ cs, c ≠ [DOT] ∧ c ≠ [DOT, DOT])
    (par c : Ino) (hw : walkPath s v v.root cs = .found par c) (acts : List WAct) :
    walkDirTop s v vid (pathOf cs) acts =
      let r := specWalkTopP (s.treeP v (cs.getLastD []) c) (pathOf cs) acts
      (⟨r.2.1, r.1⟩, r.2.2) :=
  walkDirTopP_eq_spec s root v hwf hn hdf hvr vid cs hall hdots par c hw acts

/-- the result is nil or the error of the callback: a ReadDir error is never returned, the fuel is never exhausted -/
theorem C14_walk_user_result (s : Store) (root : Ino) (v : View) (hwf : WF s root) (hn : NamesOK s) (hdf : DotFree s)
    (hvr : ∃ m ch, s.get v.root = some (.dir m ch)) (vid : Nat) (cs : List Bytes)
    (hall : ∀ c ∈ cs, c ≠ [] ∧ ∀ x ∈ c, x ≠ SL) (hdots : ∀ c ∈ cs, c ≠ [DOT] ∧ c ≠ [DOT, DOT])
    (par c : Ino) (hw : walkPath s v v.root cs = .found par c) (acts : List WAct) :
    (walkDirTop s v vid (pathOf cs) acts).2 = .none ∨ (walkDirTop s v vid (pathOf cs) acts).2 = .fail :=
  walkDirTopP_result s root v hwf hn hdf hvr vid cs hall hdots par c hw acts

/-- the tree of the reference, without fuel: a node is flagged listable when its path resolves (`ok`: every directory
    above it may be searched; true at the root of the walk, whose path resolves by hypothesis) and the caller may read
    it; the paths of its entries resolve when, moreover, the caller may search it -/
theorem C14_walk_user_tree (s : Store) (root : Ino) (v : View) (hwf : WF s root) (n : Bytes) (i : Ino) (ok : Bool) :
    s.treeP v n i = treeOfP s v (s.next + 1) n i true ∧
    treeOfP s v (s.next + 1) n i ok =
      .node n (kindOf s i) (ok && readable s v i)
        ((s.names i).filterMap fun nm => (s.child i nm).map fun c => treeOfP s v (s.next + 1) nm c (searchable s v i)) :=
  ⟨rfl, treeP_unfold v hwf n i ok⟩

/-- the root itself does not resolve for the caller (a directory above it may not be searched): one call of the
    callback with the Lstat error (kind 9: no entry), whose answer decides -/
theorem C14_walk_root_denied (s : Store) (root : Ino) (v : View) (hwf : WF s root)
    (hvr : ∃ m ch, s.get v.root = some (.dir m ch)) (vid : Nat) (cs : List Bytes)
    (hall : ∀ c ∈ cs, c ≠ [] ∧ ∀ x ∈ c, x ≠ SL) (hdots : ∀ c ∈ cs, c ≠ [DOT] ∧ c ≠ [DOT, DOT])
    (hw : walkPath s v v.root cs = .denied) (acts : List WAct) :
    walkDirTop s v vid (pathOf cs) acts =
      (⟨acts.tail, [(pathOf cs, 9, some .EACCES)]⟩, if acts.headD .cont = .fail then .fail else .none) :=
  walkDirTop_denied s root v hwf hvr vid cs hall hdots hw acts

/-- `C14_walk_spec` (the administrator) is the special case: for the administrator the flagged tree is the plain tree
    with every directory listable, on which `specWalkP` is `specWalk` -/
theorem C14_walk_spec_admin_case (s : Store) (v : View) (hadm : v.admin = true) (n : Bytes) (c : Ino) (P : Bytes)
    (acts : List WAct) :
    (s.treeP v n c).erase = s.tree n c ∧ (s.treeP v n c).allListable = true ∧
    specWalkTopP (s.treeP v n c) P acts = specWalkTop (s.tree n c) P acts := by
  obtain ⟨h1, h2⟩ := treeOfP_admin (s := s) hadm (s.next + 1) n c true (fun _ => rfl)
  refine ⟨h1, h2, ?_⟩
  simp only [specWalkTopP, specWalkTop, Store.treeP, Store.tree, specWalkP_erase _ _ _ h2, h1]
  rfl

/-- … so that `C14_walk_spec` follows from `C14_walk_spec_user` -/
theorem C14_walk_spec_from_user (s : Store) (root : Ino) (v : View) (hwf : WF s root) (hn : NamesOK s) (hdf : DotFree s)
    (hvr : ∃ m ch, s.get v.root = some (.dir m ch)) (hadm : v.admin = true) (vid : Nat) (cs : List Bytes)
    (hall : ∀ c ∈ cs, c ≠ [] ∧ ∀ x ∈ c, x ≠ SL) (hdots : ∀ c ∈ cs, c ≠ [DOT] ∧ c ≠ [DOT, DOT])
    (par c : Ino) (hw : walkPath s v v.root cs = .found par c) (acts : List WAct) :
    walkDirTop s v vid (pathOf cs) acts =
      let r := specWalkTop (s.tree (cs.getLastD []) c) (pathOf cs) acts
      (⟨r.2.1, r.1⟩, r.2.2) :=
  walkDirTop_eq_spec_of_P s root v hwf hn hdf hvr hadm vid cs hall hdots par c hw acts

/-- With a callback that always continues, WalkDir by ANY caller returns nil and calls the callback with
    `L.flatMap (visitsP s cs)` for the list `L = s.belowP v c` of (names below the root, node, listable), where
    1. `L` is exactly the set of triples with `descendP s v c true names = some (node, listable)`: the root and every
       entry reachable below it through directories the caller can list — an entry is reached exactly when the
       directory holding it is reached and listable (6.), nothing is reached below an unlistable directory (5.), and
       everything reached is an entry of the administrator's walk (4.);
    2. `L` is strictly increasing in the lexicographic order of the name lists (lexical pre-order), the root first;
    3. no path appears twice in `L`; each element of `L` is visited exactly once without error, and a DIRECTORY of `L`
       that is not listable is reported exactly once more, right after its visit, with EACCES (`visitsP`, 7.). -/
theorem C14_walk_user_all_once (s : Store) (root : Ino) (v : View) (hwf : WF s root) (hn : NamesOK s) (hdf : DotFree s)
    (hvr : ∃ m ch, s.get v.root = some (.dir m ch)) (vid : Nat) (cs : List Bytes)
    (hall : ∀ c ∈ cs, c ≠ [] ∧ ∀ x ∈ c, x ≠ SL) (hdots : ∀ c ∈ cs, c ≠ [DOT] ∧ c ≠ [DOT, DOT])
    (par c : Ino) (hw : walkPath s v v.root cs = .found par c) (acts : List WAct) (hacts : ∀ a ∈ acts, a = .cont) :
    walkDirTop s v vid (pathOf cs) acts =
      (⟨acts.drop ((s.belowP v c).flatMap (visitsP s cs)).length, (s.belowP v c).flatMap (visitsP s cs)⟩, .none) ∧
    (∀ ds j fl, (ds, j, fl) ∈ s.belowP v c ↔ descendP s v c true ds = some (j, fl)) ∧
    ((s.belowP v c).Pairwise (fun x y => compLt x.1 y.1) ∧ (s.belowP v c).head? = some ([], c, readable s v c)) ∧
    ((s.belowP v c).map fun x => pathOf (cs ++ x.1)).Nodup ∧
    (∀ ds j fl, (ds, j, fl) ∈ s.belowP v c → descend s c ds = some j) ∧
    (∀ t j e j' fl', (t, j, false) ∈ s.belowP v c → e ≠ [] → (t ++ e, j', fl') ∉ s.belowP v c) ∧
    (∀ t n j fl, (t ++ [n], j, fl) ∈ s.belowP v c ↔
      ∃ d, (t, d, true) ∈ s.belowP v c ∧ s.child d n = some j ∧ fl = (searchable s v d && readable s v j)) ∧
    (∀ x, visitsP s cs x =
      (pathOf (cs ++ x.1), kindOf s x.2.1, none) ::
        (if kindOf s x.2.1 == 0 && !x.2.2 then [(pathOf (cs ++ x.1), kindOf s x.2.1, some .EACCES)] else [])) := by
  obtain ⟨h1, h2, h3, h4, h5⟩ := walkDirTopP_all_cont s root v hwf hn hdf hvr vid cs hall hdots par c hw acts hacts
  refine ⟨h1, h2, ⟨h3, h4⟩, h5, ?_, ?_, ?_, fun x => rfl⟩
  · intro ds j fl hm
    exact descendP_descend s v ds c true j fl ((h2 ds j fl).1 hm)
  · intro t j e j' fl' hm he hm'
    have := descendP_below_unlistable s v c true t e j ((h2 t j false).1 hm) he
    rw [(h2 _ _ _).1 hm'] at this
    cases this
  · intro t n j fl
    rw [h2, descendP_snoc]
    constructor
    · rintro ⟨d, hd, hc, hfl⟩; exact ⟨d, (h2 t d true).2 hd, hc, hfl⟩
    · rintro ⟨d, hd, hc, hfl⟩; exact ⟨d, (h2 t d true).1 hd, hc, hfl⟩

/-! ### Glob, several levels -/

/-- Glob of "/b1/…/bm/p1/…/pr" (`pathOf (cs ++ p1 :: ps)`): "/b1/…/bm" the longest prefix without metacharacters, p1 with
    metacharacters, p2 … pr arbitrary non-empty components without separator (with or without metacharacters — a
    component without them is matched against the listing like the others: no Lstat).
    For EVERY heap and EVERY caller:
    * (up front) if `pmatch prefix ""` says ErrBadPattern for the whole pattern, Glob says ErrBadPattern
      (`C14_glob_bad_pattern`); here all these checks — one per prefix ending in p1, …, pr — are assumed passed (`hok`);
    * Glob = `globLevels`, the nested enumeration: `R0 = [dir]`, `R(k+1)` = for each d of `Rk` in order, the names of d
      (`listNames`: Stat — following links — says directory, Open read-only and Readdirnames succeed; sorted) that
      match p(k+1), as Join(d, name);
    * the matches are exactly the paths `GlobReach`-able from the directory;
    * ErrBadPattern exactly when some p(k+1) is found malformed against a name of a directory reached along p1 … pk
      (a malformed component that is never reached goes unnoticed), and never a panic. -/
theorem C14_glob_spec (s : Store) (v : View) (vid : Nat) (cs : List Bytes)
    (hall : ∀ c ∈ cs, c ≠ [] ∧ ∀ x ∈ c, x ≠ SL) (hdm : hasMeta (pathOf cs) = false)
    (p1 : Bytes) (hp1 : p1 ≠ [] ∧ ∀ x ∈ p1, x ≠ SL) (hmeta : hasMeta p1 = true)
    (ps : List Bytes) (hps : ∀ p ∈ ps, p ≠ [] ∧ ∀ x ∈ p, x ≠ SL)
    (hok : ∀ k, k ≤ ps.length → ∃ b, pmatch .linux (pathOf (cs ++ p1 :: ps.take k)) [] = .ok b)
    (fuel : Nat) (hf : ps.length < fuel) :
    glob s v vid fuel (pathOf (cs ++ p1 :: ps)) = globLevels s v vid [pathOf cs] (p1 :: ps) ∧
    (∀ R, globLevels s v vid [pathOf cs] (p1 :: ps) = .ok R →
      ∀ x, x ∈ R ↔ GlobReach s v vid (pathOf cs) (p1 :: ps) x) ∧
    (globLevels s v vid [pathOf cs] (p1 :: ps) = .badPattern ↔
      ∃ k p, (p1 :: ps)[k]? = some p ∧ ∃ d ns n, GlobReach s v vid (pathOf cs) ((p1 :: ps).take k) d ∧
        listNames s v vid d = some ns ∧ n ∈ ns ∧ pmatch .linux p n = .badPattern) ∧
    globLevels s v vid [pathOf cs] (p1 :: ps) ≠ .panic := by
  refine ⟨glob_levels s v vid cs hall hdm p1 hp1 hmeta ps hps hok fuel hf, ?_, ?_, globLevels_no_panic s v vid _ _⟩
  · intro R hR x
    rw [globLevels_mem s v vid _ _ R hR x]
    simp
  · rw [globLevels_bad_iff]
    simp

/-- the up-front checks of `C14_glob_spec`: if `pmatch prefix ""` says ErrBadPattern for one of the prefixes ending in
    p1, …, pr (the whole pattern included), Glob says ErrBadPattern, whatever the heap -/
theorem C14_glob_bad_upfront (s : Store) (v : View) (vid : Nat) (cs : List Bytes)
    (hall : ∀ c ∈ cs, c ≠ [] ∧ ∀ x ∈ c, x ≠ SL)
    (p1 : Bytes) (hp1 : p1 ≠ [] ∧ ∀ x ∈ p1, x ≠ SL) (hmeta : hasMeta p1 = true)
    (ps : List Bytes) (hps : ∀ p ∈ ps, p ≠ [] ∧ ∀ x ∈ p, x ≠ SL)
    (hbad : ∃ k, k ≤ ps.length ∧ pmatch .linux (pathOf (cs ++ p1 :: ps.take k)) [] = .badPattern)
    (fuel : Nat) (hf : ps.length < fuel) :
    glob s v vid fuel (pathOf (cs ++ p1 :: ps)) = .badPattern :=
  glob_bad_upfront s v vid cs hall p1 hp1 hmeta ps hps hbad fuel hf

/-- … on a well-formed heap, as long as no directory that Glob lists is reached through a symbolic link
    (`levelsLinkFree`, computable; symbolic links among the matches of the LAST component are not excluded):
    * what Glob lists in "/d1/…/dn": the names of the node, if the path resolves (search permission on the way), the
      node is a directory and the caller may READ it (`namesH`);
    * Glob = `globLevelsH` over component lists; the matches are exactly the paths "/b1/…/bm/n1/…/nr" with every `nk`
      matching `pk` and every proper prefix a directory listed as above (`ReachH`, `ReachH_shape`);
    * they come in lexicographic order of the component lists (byte-wise on each component) and no path comes twice;
    * ErrBadPattern exactly when a component is found malformed against the name of an entry of a directory reached. -/
theorem C14_glob_spec_heap (s : Store) (root : Ino) (v : View) (hwf : WF s root) (hn : NamesOK s) (hdf : DotFree s)
    (hvr : ∃ m ch, s.get v.root = some (.dir m ch)) (vid : Nat) (cs : List Bytes) (hg : GoodComps cs)
    (hdm : hasMeta (pathOf cs) = false) (p1 : Bytes) (hp1 : p1 ≠ [] ∧ ∀ x ∈ p1, x ≠ SL) (hmeta : hasMeta p1 = true)
    (ps : List Bytes) (hps : ∀ p ∈ ps, p ≠ [] ∧ ∀ x ∈ p, x ≠ SL)
    (hok : ∀ k, k ≤ ps.length → ∃ b, pmatch .linux (pathOf (cs ++ p1 :: ps.take k)) [] = .ok b)
    (hlf : levelsLinkFree s v [cs] (p1 :: ps) = true) (fuel : Nat) (hf : ps.length < fuel) :
    glob s v vid fuel (pathOf (cs ++ p1 :: ps)) =
      (match globLevelsH s v [cs] (p1 :: ps) with
       | some R => .ok (R.map pathOf)
       | none => .badPattern) ∧
    (∀ R, globLevelsH s v [cs] (p1 :: ps) = some R →
      (∀ x, x ∈ R ↔ ReachH s v cs (p1 :: ps) x) ∧
      (∀ x ∈ R, ∃ ns : List Bytes, x = cs ++ ns ∧ ns.length = ps.length + 1 ∧
        ∀ (k : Nat) (p n : Bytes), (p1 :: ps)[k]? = some p → ns[k]? = some n → pmatch .linux p n = .ok true) ∧
      R.Pairwise compLt ∧ R.Nodup ∧ (R.map pathOf).Nodup) ∧
    (globLevelsH s v [cs] (p1 :: ps) = none ↔
      ∃ k p, (p1 :: ps)[k]? = some p ∧ ∃ ds n, ReachH s v cs ((p1 :: ps).take k) ds ∧ n ∈ namesH s v ds ∧
        pmatch .linux p n = .badPattern) := by
  refine ⟨glob_levelsH s root v hwf hn hdf hvr vid cs hg hdm p1 hp1 hmeta ps hps hok hlf fuel hf, ?_, ?_⟩
  · intro R hR
    have hmem : ∀ x, x ∈ R ↔ ReachH s v cs (p1 :: ps) x := by
      intro x
      rw [globLevelsH_mem s v _ _ R hR x]
      simp
    refine ⟨hmem, ?_, globLevelsH_order hn hdf cs hg _ R hR⟩
    intro x hx
    obtain ⟨ns, h1, h2, h3⟩ := ReachH_shape ((hmem x).1 hx)
    exact ⟨ns, h1, by simpa using h2, h3⟩
  · rw [globLevelsH_bad_iff]
    simp

/-- what Glob reads in a directory given by a path that resolves without links -/
theorem C14_glob_listNames (s : Store) (root : Ino) (v : View) (hwf : WF s root)
    (hvr : ∃ m ch, s.get v.root = some (.dir m ch)) (vid : Nat) (cs : List Bytes)
    (hall : ∀ c ∈ cs, c ≠ [] ∧ ∀ x ∈ c, x ≠ SL) (hdots : ∀ c ∈ cs, c ≠ [DOT] ∧ c ≠ [DOT, DOT]) :
    (∀ par d, walkPath s v v.root cs = .found par d →
      listNames s v vid (pathOf cs) = if readable s v d then some (s.names d) else none) ∧
    ((∀ par d, walkPath s v v.root cs ≠ .found par d) → walkPath s v v.root cs ≠ .viaLink →
      listNames s v vid (pathOf cs) = none) :=
  ⟨fun par d hw => listNames_found hwf hvr vid cs hall hdots par d hw,
   fun h1 h2 => listNames_unresolved hwf hvr vid cs hall hdots h1 h2⟩

/-! ### non-vacuity

  `wkStore` (Lemmas/Walk.lean), all of it owned by uid 0:
  "/" 0 (0755): a 4 (0755: b 5 (0700), f 6 file, l 10 link → "/tmp"), home 1 (0700), root 2 (0700),
  tmp 3 (0777: d 7 (0777: e 8 (0755), z 11 dangling link), g 9 file 0600); the plain user `exView` (uid 1000). -/

theorem wkUser_root : ∃ m ch, wkStore.get exView.root = some (.dir m ch) :=
  get_of_isDirAt (by decide +kernel : isDirAt wkStore 0 = true)

/-- C14_walk_spec_user: WalkDir("/") by uid 1000, always continuing: "/a/b", "/home", "/root" (0700, uid 0) are
    visited and then reported with EACCES; nothing below them; the result is nil -/
example : walkDirTop wkStore exView 0 [SL] [] =
    (⟨[], [([SL], 0, none), ([SL, 97], 0, none),
           ([SL, 97, SL, 98], 0, none), ([SL, 97, SL, 98], 0, some .EACCES),
           ([SL, 97, SL, 102], 1, none), ([SL, 97, SL, 108], 2, none),
           ([SL, 104, 111, 109, 101], 0, none), ([SL, 104, 111, 109, 101], 0, some .EACCES),
           ([SL, 114, 111, 111, 116], 0, none), ([SL, 114, 111, 111, 116], 0, some .EACCES),
           ([SL, 116, 109, 112], 0, none), ([SL, 116, 109, 112, SL, 100], 0, none),
           ([SL, 116, 109, 112, SL, 100, SL, 101], 0, none), ([SL, 116, 109, 112, SL, 100, SL, 122], 2, none),
           ([SL, 116, 109, 112, SL, 103], 1, none)]⟩, .none) := by
  have h := C14_walk_spec_user wkStore 0 exView wkStore_wf.1 wkStore_wf.2 wkStore_dotFree wkUser_root 0
    [] (by decide) (by decide) 0 0 (by decide +kernel) []
  rw [show pathOf [] = [SL] from rfl] at h
  rw [h]
  decide +kernel

/-- C14_walk_spec_user on "/a": the answers to the REPORT of "/a/b": SkipDir skips "/a/b" only ("/a/f", "/a/l" follow);
    SkipAll ends the walk with nil; an error ends it with the error -/
example :
    walkDirTop wkStore exView 0 [SL, 97] [.cont, .cont, .skipDir] =
      (⟨[], [([SL, 97], 0, none), ([SL, 97, SL, 98], 0, none), ([SL, 97, SL, 98], 0, some .EACCES),
             ([SL, 97, SL, 102], 1, none), ([SL, 97, SL, 108], 2, none)]⟩, .none) ∧
    walkDirTop wkStore exView 0 [SL, 97] [.cont, .cont, .skipAll, .cont] =
      (⟨[.cont], [([SL, 97], 0, none), ([SL, 97, SL, 98], 0, none), ([SL, 97, SL, 98], 0, some .EACCES)]⟩, .none) ∧
    walkDirTop wkStore exView 0 [SL, 97] [.cont, .cont, .fail, .cont] =
      (⟨[.cont], [([SL, 97], 0, none), ([SL, 97, SL, 98], 0, none), ([SL, 97, SL, 98], 0, some .EACCES)]⟩, .fail) := by
  have h := C14_walk_spec_user wkStore 0 exView wkStore_wf.1 wkStore_wf.2 wkStore_dotFree wkUser_root 0
    [[97]] (by decide) (by decide) 0 4 (by decide +kernel)
  rw [show pathOf [[97]] = [SL, 97] from rfl] at h
  rw [h, h, h]
  decide +kernel

/-- the same heap after Chmod("/tmp/d", 0744) by the administrator: for uid 1000 "/tmp/d" is readable, not searchable -/
@[irreducible] def wkStoreR : Store := (chmod wkStore wkAdm [SL, 116, 109, 112, SL, 100] 0o744).1

theorem wkStoreR_wf : WF wkStoreR 0 ∧ NamesOK wkStoreR := wfCheck_sound wkStoreR 0 (by decide +kernel)
theorem wkStoreR_dotFree : DotFree wkStoreR := dotFreeCheck_sound wkStoreR (by decide +kernel)
theorem wkUserR_root : ∃ m ch, wkStoreR.get exView.root = some (.dir m ch) :=
  get_of_isDirAt (by decide +kernel : isDirAt wkStoreR 0 = true)

/-- C14_walk_spec_user, a readable directory that may not be searched ("/tmp/d", r--): its entries "e" and "z" are
    visited with their kinds (the Infos come from the listing), its sub-directory "/tmp/d/e" (0755) cannot be listed
    (its path does not resolve) and is reported with EACCES -/
example : walkDirTop wkStoreR exView 0 [SL, 116, 109, 112] [] =
    (⟨[], [([SL, 116, 109, 112], 0, none), ([SL, 116, 109, 112, SL, 100], 0, none),
           ([SL, 116, 109, 112, SL, 100, SL, 101], 0, none), ([SL, 116, 109, 112, SL, 100, SL, 101], 0, some .EACCES),
           ([SL, 116, 109, 112, SL, 100, SL, 122], 2, none), ([SL, 116, 109, 112, SL, 103], 1, none)]⟩, .none) := by
  have h := C14_walk_spec_user wkStoreR 0 exView wkStoreR_wf.1 wkStoreR_wf.2 wkStoreR_dotFree wkUserR_root 0
    [[116, 109, 112]] (by decide) (by decide) 0 3 (by decide +kernel) []
  rw [show pathOf [[116, 109, 112]] = [SL, 116, 109, 112] from rfl] at h
  rw [h]
  decide +kernel

/-- what uid 1000 reaches from "/" (node 0): twelve entries; the directories "/a/b" 5, "/home" 1, "/root" 2 unlistable -/
theorem wkStore_belowP_user :
    wkStore.belowP exView 0 =
      [([], 0, true), ([[97]], 4, true), ([[97], [98]], 5, false), ([[97], [102]], 6, false), ([[97], [108]], 10, false),
       ([[104, 111, 109, 101]], 1, false), ([[114, 111, 111, 116]], 2, false), ([[116, 109, 112]], 3, true),
       ([[116, 109, 112], [100]], 7, true), ([[116, 109, 112], [100], [101]], 8, true),
       ([[116, 109, 112], [100], [122]], 11, false), ([[116, 109, 112], [103]], 9, false)] := by
  decide +kernel

/-- C14_walk_user_all_once on "/": fifteen calls of the callback = twelve entries + three error reports -/
example : (walkDirTop wkStore exView 0 [SL] []).1.visited.length = 15 ∧ (walkDirTop wkStore exView 0 [SL] []).2 = .none ∧
    ([SL, 97, SL, 98], 0, some Err.EACCES) ∈ (walkDirTop wkStore exView 0 [SL] []).1.visited := by
  have h := (C14_walk_user_all_once wkStore 0 exView wkStore_wf.1 wkStore_wf.2 wkStore_dotFree wkUser_root 0
    [] (by decide) (by decide) 0 0 (by decide +kernel) [] (by simp)).1
  rw [show pathOf [] = [SL] from rfl, wkStore_belowP_user] at h
  rw [h]
  decide +kernel

/-- C14_glob_spec_heap: Glob("/tmp/*/?") by uid 1000 = ["/tmp/d/e", "/tmp/d/z"] ("/tmp/g" matches "*" but is a file:
    nothing is listed in it; "z" is a dangling symbolic link: a match of the last component) -/
example : glob wkStore exView 0 3 [SL, 116, 109, 112, SL, STAR, SL, QM] =
    .ok [[SL, 116, 109, 112, SL, 100, SL, 101], [SL, 116, 109, 112, SL, 100, SL, 122]] := by
  have h := (C14_glob_spec_heap wkStore 0 exView wkStore_wf.1 wkStore_wf.2 wkStore_dotFree wkUser_root 0
    [[116, 109, 112]] ⟨by decide, by decide⟩ (by decide) [STAR] (by decide) (by decide) [[QM]] (by decide)
    (by
      intro k hk
      have : k = 0 ∨ k = 1 := by simp at hk; omega
      rcases this with rfl | rfl
      · exact ⟨false, by decide +kernel⟩
      · exact ⟨false, by decide +kernel⟩)
    (by decide +kernel) 3 (by decide)).1
  rw [show ([SL, 116, 109, 112, SL, STAR, SL, QM] : Bytes) = pathOf ([[116, 109, 112]] ++ [STAR] :: [[QM]]) from rfl, h]
  decide +kernel

/-- C14_glob_spec (every heap, links followed): Glob("/*/l/*") by uid 1000 goes through the symbolic link "/a/l" → "/tmp"
    (Stat follows it): ["/a/l/d", "/a/l/g"]; `levelsLinkFree` is false here and the hypothesis is needed: the
    enumeration over the heap `globLevelsH` (which does not follow links) finds nothing -/
example : glob wkStore exView 0 3 [SL, STAR, SL, 108, SL, STAR] =
      .ok [[SL, 97, SL, 108, SL, 100], [SL, 97, SL, 108, SL, 103]] ∧
    levelsLinkFree wkStore exView [[]] [[STAR], [108], [STAR]] = false ∧
    globLevelsH wkStore exView [[]] [[STAR], [108], [STAR]] = some [] := by
  have h := (C14_glob_spec wkStore exView 0 [] (by decide) (by decide) [STAR] (by decide) (by decide)
    [[108], [STAR]] (by decide)
    (by
      intro k hk
      have : k = 0 ∨ k = 1 ∨ k = 2 := by simp at hk; omega
      rcases this with rfl | rfl | rfl
      · exact ⟨false, by decide +kernel⟩
      · exact ⟨false, by decide +kernel⟩
      · exact ⟨false, by decide +kernel⟩)
    3 (by decide)).1
  refine ⟨?_, by decide +kernel, by decide +kernel⟩
  rw [show ([SL, STAR, SL, 108, SL, STAR] : Bytes) = pathOf ([] ++ [STAR] :: [[108], [STAR]]) from rfl, h]
  decide +kernel

/-- ErrBadPattern only when the malformed component is reached against a name: "[" is malformed; the up-front check
    `pmatch pattern ""` passes for both patterns (the match fails before the "["); in "/tmp/*/[" it meets the name "e" of
    "/tmp/d": ErrBadPattern; in "/home/*/[" nothing is listed for uid 1000 ("/home" is 0700): no match, no error -/
example : glob wkStore exView 0 3 [SL, 116, 109, 112, SL, STAR, SL, LB] = .badPattern ∧
    glob wkStore exView 0 3 [SL, 104, 111, 109, 101, SL, STAR, SL, LB] = .ok [] := by
  have hk2 : ∀ k, k ≤ [[LB]].length → k = 0 ∨ k = 1 := by intro k hk; simp at hk; omega
  have h1 := (C14_glob_spec_heap wkStore 0 exView wkStore_wf.1 wkStore_wf.2 wkStore_dotFree wkUser_root 0
    [[116, 109, 112]] ⟨by decide, by decide⟩ (by decide) [STAR] (by decide) (by decide) [[LB]] (by decide)
    (by
      intro k hk
      rcases hk2 k hk with rfl | rfl
      · exact ⟨false, by decide +kernel⟩
      · exact ⟨false, by decide +kernel⟩)
    (by decide +kernel) 3 (by decide)).1
  have h2 := (C14_glob_spec_heap wkStore 0 exView wkStore_wf.1 wkStore_wf.2 wkStore_dotFree wkUser_root 0
    [[104, 111, 109, 101]] ⟨by decide, by decide⟩ (by decide) [STAR] (by decide) (by decide) [[LB]] (by decide)
    (by
      intro k hk
      rcases hk2 k hk with rfl | rfl
      · exact ⟨false, by decide +kernel⟩
      · exact ⟨false, by decide +kernel⟩)
    (by decide +kernel) 3 (by decide)).1
  constructor
  · rw [show ([SL, 116, 109, 112, SL, STAR, SL, LB] : Bytes) = pathOf ([[116, 109, 112]] ++ [STAR] :: [[LB]]) from rfl, h1]
    decide +kernel
  · rw [show ([SL, 104, 111, 109, 101, SL, STAR, SL, LB] : Bytes) =
      pathOf ([[104, 111, 109, 101]] ++ [STAR] :: [[LB]]) from rfl, h2]
    decide +kernel

end Avfs.FS
