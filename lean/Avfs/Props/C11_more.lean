import Avfs.Props.C11
import Avfs.Lemmas.SubSim2
/-
  C11 (continued) — sub_sim for every call that has a POSIX reference theorem: the call through the view Sub returns =
  the same call through the parent on the prefixed path (same outcome AND same new heap), on clean paths.

  Setting (as Props/C11.lean): `subView v c` is what Sub returns for the directory node `c` (same user and umask, root
  `c`, working directory "/"); `a` are the components of the directory given to Sub, resolved by the parent to `c`
  (`ha`: no link on `a`, and the caller may search the directories above `c`); `b` (`bo`, `bn` for the two-path calls:
  both operands inside the view) are the components of the path used through the view.
  Escape: the descent through `a ++ b` meets a symbolic link — `walkPath … = .viaLink`; for the calls that do not follow
  a link in the last component (Lstat, Readlink, Symlink, RemoveAll) only a link as INNER component escapes
  (`walkPathL … = .viaLink`, the weaker escape: `walkPathL_viaLink`).
  No further hypothesis is needed: the corners excluded by the reference theorems of C01 (Chown by a plain user,
  Rename onto an existing entry, MkdirAll with two missing components) are corners of both sides.
  `hb : b ≠ []` only where the root of the view is not covered by the reference (Lstat: the reported name differs,
  `sub_stat_root_name`; Symlink, RemoveAll, Rename: "/" is refused through the view; OpenFile: `C11_sub_sim_open_root`).
-/
namespace Avfs.FS
open Avfs.Path

/-- Lstat through the view = Lstat through the parent on the prefixed path; a symbolic link as last component is the
    node described (escape: a link as INNER component only) -/
theorem C11_sub_sim_lstat (s : Store) (root : Ino) (v : View) (hwf : WF s root) (hn : NamesOK s) (hv : ViewOK s v)
    (hroot : v.root = root) (a b : List Bytes) (hb : b ≠ [])
    (hall : ∀ x ∈ a ++ b, x ≠ [] ∧ ∀ y ∈ x, y ≠ SL) (hdots : ∀ x ∈ a ++ b, x ≠ [DOT] ∧ x ≠ [DOT, DOT])
    (par c : Ino) (mt : Meta) (ch : List (Bytes × Ino))
    (ha : walkPath s v root a = .found par c) (hc : s.get c = some (.dir mt ch)) :
    walkPathL s v root (a ++ b) = .viaLink ∨
    stat s (subView v c) (SL :: joinWith SL b) .lstat = stat s v (SL :: joinWith SL (a ++ b)) .lstat :=
  sub_sim_lstat s root v hwf hn hv hroot a b hb hall hdots par c mt ch ha hc

/-- Readlink through the view = Readlink through the parent on the prefixed path (`b = []`, the root of the view,
    included) -/
theorem C11_sub_sim_readlink (s : Store) (root : Ino) (v : View) (hwf : WF s root) (hn : NamesOK s) (hv : ViewOK s v)
    (hroot : v.root = root) (a b : List Bytes)
    (hall : ∀ x ∈ a ++ b, x ≠ [] ∧ ∀ y ∈ x, y ≠ SL) (hdots : ∀ x ∈ a ++ b, x ≠ [DOT] ∧ x ≠ [DOT, DOT])
    (par c : Ino) (mt : Meta) (ch : List (Bytes × Ino))
    (ha : walkPath s v root a = .found par c) (hc : s.get c = some (.dir mt ch)) :
    walkPathL s v root (a ++ b) = .viaLink ∨
    readlink s (subView v c) (SL :: joinWith SL b) = readlink s v (SL :: joinWith SL (a ++ b)) :=
  sub_sim_readlink s root v hwf hn hv hroot a b hall hdots par c mt ch ha hc

/-- ReadDir through the view = ReadDir through the parent on the prefixed path (`b = []` included: the listing of the
    directory given to Sub) -/
theorem C11_sub_sim_readDir (s : Store) (root : Ino) (v : View) (hwf : WF s root) (hn : NamesOK s) (hv : ViewOK s v)
    (hroot : v.root = root) (a b : List Bytes)
    (hall : ∀ x ∈ a ++ b, x ≠ [] ∧ ∀ y ∈ x, y ≠ SL) (hdots : ∀ x ∈ a ++ b, x ≠ [DOT] ∧ x ≠ [DOT, DOT])
    (par c : Ino) (mt : Meta) (ch : List (Bytes × Ino))
    (ha : walkPath s v root a = .found par c) (hc : s.get c = some (.dir mt ch)) (vid vid' : Nat) :
    walkPath s v root (a ++ b) = .viaLink ∨
    readDir s (subView v c) vid (SL :: joinWith SL b) = readDir s v vid' (SL :: joinWith SL (a ++ b)) :=
  sub_sim_readDir s root v hwf hn hv hroot a b hall hdots par c mt ch ha hc vid vid'

/-- Chtimes through the view = Chtimes through the parent on the prefixed path (`b = []` included): same outcome, same
    new heap -/
theorem C11_sub_sim_chtimes (s : Store) (root : Ino) (v : View) (hwf : WF s root) (hn : NamesOK s) (hv : ViewOK s v)
    (hroot : v.root = root) (a b : List Bytes)
    (hall : ∀ x ∈ a ++ b, x ≠ [] ∧ ∀ y ∈ x, y ≠ SL) (hdots : ∀ x ∈ a ++ b, x ≠ [DOT] ∧ x ≠ [DOT, DOT])
    (par c : Ino) (mt : Meta) (ch : List (Bytes × Ino))
    (ha : walkPath s v root a = .found par c) (hc : s.get c = some (.dir mt ch)) (mtime : Int) :
    walkPath s v root (a ++ b) = .viaLink ∨
    chtimes s (subView v c) (SL :: joinWith SL b) mtime = chtimes s v (SL :: joinWith SL (a ++ b)) mtime :=
  sub_sim_chtimes s root v hwf hn hv hroot a b hall hdots par c mt ch ha hc mtime

/-- Chmod through the view = Chmod through the parent on the prefixed path (`b = []` included) -/
theorem C11_sub_sim_chmod (s : Store) (root : Ino) (v : View) (hwf : WF s root) (hn : NamesOK s) (hv : ViewOK s v)
    (hroot : v.root = root) (a b : List Bytes)
    (hall : ∀ x ∈ a ++ b, x ≠ [] ∧ ∀ y ∈ x, y ≠ SL) (hdots : ∀ x ∈ a ++ b, x ≠ [DOT] ∧ x ≠ [DOT, DOT])
    (par c : Ino) (mt : Meta) (ch : List (Bytes × Ino))
    (ha : walkPath s v root a = .found par c) (hc : s.get c = some (.dir mt ch)) (mode : Nat) :
    walkPath s v root (a ++ b) = .viaLink ∨
    chmod s (subView v c) (SL :: joinWith SL b) mode = chmod s v (SL :: joinWith SL (a ++ b)) mode :=
  sub_sim_chmod s root v hwf hn hv hroot a b hall hdots par c mt ch ha hc mode

/-- Chown / Lchown through the view = the same call through the parent on the prefixed path (`b = []` included); no
    corner hypothesis: a caller who is not administrator gets EPERM on both sides -/
theorem C11_sub_sim_chown (s : Store) (root : Ino) (v : View) (hwf : WF s root) (hn : NamesOK s) (hv : ViewOK s v)
    (hroot : v.root = root) (a b : List Bytes)
    (hall : ∀ x ∈ a ++ b, x ≠ [] ∧ ∀ y ∈ x, y ≠ SL) (hdots : ∀ x ∈ a ++ b, x ≠ [DOT] ∧ x ≠ [DOT, DOT])
    (par c : Ino) (mt : Meta) (ch : List (Bytes × Ino))
    (ha : walkPath s v root a = .found par c) (hc : s.get c = some (.dir mt ch)) (uid gid : Int) (m : SlMode) :
    walkPath s v root (a ++ b) = .viaLink ∨
    chown s (subView v c) (SL :: joinWith SL b) uid gid m = chown s v (SL :: joinWith SL (a ++ b)) uid gid m :=
  sub_sim_chown s root v hwf hn hv hroot a b hall hdots par c mt ch ha hc uid gid m

/-- Truncate through the view = Truncate through the parent on the prefixed path (`b = []` included: EISDIR) -/
theorem C11_sub_sim_truncate (s : Store) (root : Ino) (v : View) (hwf : WF s root) (hn : NamesOK s) (hv : ViewOK s v)
    (hroot : v.root = root) (a b : List Bytes)
    (hall : ∀ x ∈ a ++ b, x ≠ [] ∧ ∀ y ∈ x, y ≠ SL) (hdots : ∀ x ∈ a ++ b, x ≠ [DOT] ∧ x ≠ [DOT, DOT])
    (par c : Ino) (mt : Meta) (ch : List (Bytes × Ino))
    (ha : walkPath s v root a = .found par c) (hc : s.get c = some (.dir mt ch)) (size : Int) :
    walkPath s v root (a ++ b) = .viaLink ∨
    truncate s (subView v c) (SL :: joinWith SL b) size = truncate s v (SL :: joinWith SL (a ++ b)) size :=
  sub_sim_truncate s root v hwf hn hv hroot a b hall hdots par c mt ch ha hc size

/-- Symlink(old, new) through the view = Symlink(old, a/new) through the parent, the SAME target string on both sides:
    same outcome, same new heap — the stored target included. What an absolute target resolves to afterwards depends on
    the view that follows it: `sub_symlink_target_confined` below. -/
theorem C11_sub_sim_symlink (s : Store) (root : Ino) (v : View) (hwf : WF s root) (hn : NamesOK s) (hv : ViewOK s v)
    (hroot : v.root = root) (a b : List Bytes) (hb : b ≠ [])
    (hall : ∀ x ∈ a ++ b, x ≠ [] ∧ ∀ y ∈ x, y ≠ SL) (hdots : ∀ x ∈ a ++ b, x ≠ [DOT] ∧ x ≠ [DOT, DOT])
    (par c : Ino) (mt : Meta) (ch : List (Bytes × Ino))
    (ha : walkPath s v root a = .found par c) (hc : s.get c = some (.dir mt ch)) (old : Bytes) :
    walkPathL s v root (a ++ b) = .viaLink ∨
    symlink s (subView v c) old (SL :: joinWith SL b) = symlink s v old (SL :: joinWith SL (a ++ b)) :=
  sub_sim_symlink s root v hwf hn hv hroot a b hb hall hdots par c mt ch ha hc old

/-- Link through the view = Link through the parent, both operands prefixed (the existing path may be the root of the
    view: EPERM) -/
theorem C11_sub_sim_link (s : Store) (root : Ino) (v : View) (hwf : WF s root) (hn : NamesOK s) (hv : ViewOK s v)
    (hroot : v.root = root) (a bo bn : List Bytes) (hbn : bn ≠ [])
    (hallo : ∀ x ∈ a ++ bo, x ≠ [] ∧ ∀ y ∈ x, y ≠ SL) (hdotso : ∀ x ∈ a ++ bo, x ≠ [DOT] ∧ x ≠ [DOT, DOT])
    (halln : ∀ x ∈ a ++ bn, x ≠ [] ∧ ∀ y ∈ x, y ≠ SL) (hdotsn : ∀ x ∈ a ++ bn, x ≠ [DOT] ∧ x ≠ [DOT, DOT])
    (par c : Ino) (mt : Meta) (ch : List (Bytes × Ino))
    (ha : walkPath s v root a = .found par c) (hc : s.get c = some (.dir mt ch)) :
    walkPath s v root (a ++ bo) = .viaLink ∨ walkPath s v root (a ++ bn) = .viaLink ∨
    link s (subView v c) (SL :: joinWith SL bo) (SL :: joinWith SL bn) =
      link s v (SL :: joinWith SL (a ++ bo)) (SL :: joinWith SL (a ++ bn)) :=
  sub_sim_link s root v hwf hn hv hroot a bo bn hbn hallo hdotso halln hdotsn par c mt ch ha hc

/-- OpenFile through the view = OpenFile through the parent on the prefixed path: same error, or same new heap and a
    handle that differs in the recorded name (the path as given to the call) and the view number only -/
theorem C11_sub_sim_open (s : Store) (root : Ino) (v : View) (hwf : WF s root) (hn : NamesOK s) (hv : ViewOK s v)
    (hroot : v.root = root) (a b : List Bytes) (hb : b ≠ [])
    (hall : ∀ x ∈ a ++ b, x ≠ [] ∧ ∀ y ∈ x, y ≠ SL) (hdots : ∀ x ∈ a ++ b, x ≠ [DOT] ∧ x ≠ [DOT, DOT])
    (par c : Ino) (mt : Meta) (ch : List (Bytes × Ino))
    (ha : walkPath s v root a = .found par c) (hc : s.get c = some (.dir mt ch)) (vid vid' flag perm : Nat) :
    walkPath s v root (a ++ b) = .viaLink ∨
    openFile s (subView v c) vid (SL :: joinWith SL b) flag perm =
      ((openFile s v vid' (SL :: joinWith SL (a ++ b)) flag perm).1,
       (openFile s v vid' (SL :: joinWith SL (a ++ b)) flag perm).2.map
         fun h => h.asOpenedBy (SL :: joinWith SL b) vid) :=
  sub_sim_open s root v hwf hn hv hroot a b hb hall hdots par c mt ch ha hc vid vid' flag perm

/-- OpenFile("/") through the view = OpenFile of the directory given to Sub through the parent, up to the recorded name
    and view number -/
theorem C11_sub_sim_open_root (s : Store) (root : Ino) (v : View) (hwf : WF s root) (hn : NamesOK s) (hv : ViewOK s v)
    (hroot : v.root = root) (a : List Bytes) (hane : a ≠ [])
    (hall : ∀ x ∈ a, x ≠ [] ∧ ∀ y ∈ x, y ≠ SL) (hdots : ∀ x ∈ a, x ≠ [DOT] ∧ x ≠ [DOT, DOT])
    (par c : Ino) (mt : Meta) (ch : List (Bytes × Ino))
    (ha : walkPath s v root a = .found par c) (hc : s.get c = some (.dir mt ch)) (vid vid' flag perm : Nat) :
    openFile s (subView v c) vid [SL] flag perm =
      ((openFile s v vid' (SL :: joinWith SL a) flag perm).1,
       (openFile s v vid' (SL :: joinWith SL a) flag perm).2.map fun h => h.asOpenedBy [SL] vid) :=
  sub_sim_open_root s root v hwf hn hv hroot a hane hall hdots par c mt ch ha hc vid vid' flag perm

/-- `C11_sub_sim_open` field by field: same heap, same error; handles on the same node with the same open mode, offset
    and (empty) directory cache; each records the path it was given and the view it was opened through -/
theorem C11_sub_sim_open_fields (s : Store) (root : Ino) (v : View) (hwf : WF s root) (hn : NamesOK s) (hv : ViewOK s v)
    (hroot : v.root = root) (a b : List Bytes) (hb : b ≠ [])
    (hall : ∀ x ∈ a ++ b, x ≠ [] ∧ ∀ y ∈ x, y ≠ SL) (hdots : ∀ x ∈ a ++ b, x ≠ [DOT] ∧ x ≠ [DOT, DOT])
    (par c : Ino) (mt : Meta) (ch : List (Bytes × Ino))
    (ha : walkPath s v root a = .found par c) (hc : s.get c = some (.dir mt ch)) (vid vid' flag perm : Nat) :
    walkPath s v root (a ++ b) = .viaLink ∨
    ((openFile s (subView v c) vid (SL :: joinWith SL b) flag perm).1 =
        (openFile s v vid' (SL :: joinWith SL (a ++ b)) flag perm).1 ∧
     match (openFile s (subView v c) vid (SL :: joinWith SL b) flag perm).2,
           (openFile s v vid' (SL :: joinWith SL (a ++ b)) flag perm).2 with
     | .error e, .error e' => e = e'
     | .ok h, .ok h' => h.nd = h'.nd ∧ h.pos = h'.pos ∧ h.om = h'.om ∧ h.dirEntries = h'.dirEntries ∧
         h.dirNames = h'.dirNames ∧ h.dirIndex = h'.dirIndex ∧
         h.name = SL :: joinWith SL b ∧ h'.name = SL :: joinWith SL (a ++ b) ∧ h.view = vid ∧ h'.view = vid'
     | _, _ => False) :=
  sub_sim_open_fields s root v hwf hn hv hroot a b hb hall hdots par c mt ch ha hc vid vid' flag perm

/-- MkdirAll through the view = MkdirAll through the parent on the prefixed path (`b = []` included); no corner
    hypothesis -/
theorem C11_sub_sim_mkdirAll (s : Store) (root : Ino) (v : View) (hwf : WF s root) (hn : NamesOK s) (hv : ViewOK s v)
    (hroot : v.root = root) (a b : List Bytes)
    (hall : ∀ x ∈ a ++ b, x ≠ [] ∧ ∀ y ∈ x, y ≠ SL) (hdots : ∀ x ∈ a ++ b, x ≠ [DOT] ∧ x ≠ [DOT, DOT])
    (par c : Ino) (mt : Meta) (ch : List (Bytes × Ino))
    (ha : walkPath s v root a = .found par c) (hc : s.get c = some (.dir mt ch)) (perm : Nat) :
    walkPath s v root (a ++ b) = .viaLink ∨
    mkdirAll s (subView v c) (SL :: joinWith SL b) perm = mkdirAll s v (SL :: joinWith SL (a ++ b)) perm :=
  sub_sim_mkdirAll s root v hwf hn hv hroot a b hall hdots par c mt ch ha hc perm

/-- Rename through the view = Rename through the parent, both operands prefixed; no corner hypothesis (where MemFS
    answers EEXIST against rename(2), it does so on both sides) -/
theorem C11_sub_sim_rename (s : Store) (root : Ino) (v : View) (hwf : WF s root) (hn : NamesOK s) (hv : ViewOK s v)
    (hroot : v.root = root) (a bo bn : List Bytes) (hbo : bo ≠ []) (hbn : bn ≠ [])
    (hallo : ∀ x ∈ a ++ bo, x ≠ [] ∧ ∀ y ∈ x, y ≠ SL) (hdotso : ∀ x ∈ a ++ bo, x ≠ [DOT] ∧ x ≠ [DOT, DOT])
    (halln : ∀ x ∈ a ++ bn, x ≠ [] ∧ ∀ y ∈ x, y ≠ SL) (hdotsn : ∀ x ∈ a ++ bn, x ≠ [DOT] ∧ x ≠ [DOT, DOT])
    (par c : Ino) (mt : Meta) (ch : List (Bytes × Ino))
    (ha : walkPath s v root a = .found par c) (hc : s.get c = some (.dir mt ch)) :
    walkPath s v root (a ++ bo) = .viaLink ∨ walkPath s v root (a ++ bn) = .viaLink ∨
    rename s (subView v c) (SL :: joinWith SL bo) (SL :: joinWith SL bn) =
      rename s v (SL :: joinWith SL (a ++ bo)) (SL :: joinWith SL (a ++ bn)) :=
  sub_sim_rename s root v hwf hn hv hroot a bo bn hbo hbn hallo hdotso halln hdotsn par c mt ch ha hc

/-- RemoveAll through the view = RemoveAll through the parent on the prefixed path: same outcome, same new heap (what a
    stopped traversal had removed included); the root of the view is excluded (`hb`: EINVAL, `removeAll_root`) -/
theorem C11_sub_sim_removeAll (s : Store) (root : Ino) (v : View) (hwf : WF s root) (hn : NamesOK s) (hv : ViewOK s v)
    (hroot : v.root = root) (a b : List Bytes) (hb : b ≠ [])
    (hall : ∀ x ∈ a ++ b, x ≠ [] ∧ ∀ y ∈ x, y ≠ SL) (hdots : ∀ x ∈ a ++ b, x ≠ [DOT] ∧ x ≠ [DOT, DOT])
    (par c : Ino) (mt : Meta) (ch : List (Bytes × Ino))
    (ha : walkPath s v root a = .found par c) (hc : s.get c = some (.dir mt ch)) :
    walkPathL s v root (a ++ b) = .viaLink ∨
    removeAll s (subView v c) (SL :: joinWith SL b) = removeAll s v (SL :: joinWith SL (a ++ b)) :=
  sub_sim_removeAll s root v hwf hn hv hroot a b hb hall hdots par c mt ch ha hc

/-! ### non-vacuity: the simulations on concrete reachable heaps (stores of Lemmas/Posix.lean, Posix2.lean,
    Posix3.lean); views rooted at "/tmp" (inode 3, mode 0777) and at "/a" (inode 4, mode 0755 of the administrator) -/

/-- results of `openFile` can be compared (for the `decide` witnesses of this file only) -/
@[instance_reducible] private def decEqOpenResult11 : DecidableEq (Except Err Handle)
  | .ok a, .ok b => if h : a = b then isTrue (h ▸ rfl) else isFalse (fun h' => h (Except.ok.inj h'))
  | .error a, .error b => if h : a = b then isTrue (h ▸ rfl) else isFalse (fun h' => h (Except.error.inj h'))
  | .ok _, .error _ => isFalse (fun h => nomatch h)
  | .error _, .ok _ => isFalse (fun h => nomatch h)
attribute [local instance] decEqOpenResult11

/-- Lstat / Readlink of a symbolic link as LAST component, by the user 1000 through Sub("/tmp") on `p3lStore`
    ("/tmp/l" → "/a/f"): Lstat("/l") is Lstat("/tmp/l"), the link itself; Readlink("/l") is Readlink("/tmp/l").
    The plain descent meets the link (last conjunct): the escape of these two theorems is the weaker one. -/
example :
    stat p3lStore (subView exView 3) [SL, 108] .lstat =
      (p3lStore, .ok (.info ⟨[108], 2, 0o777, 1000, 1000, 0, 1, 0, none⟩)) ∧
    readlink p3lStore (subView exView 3) [SL, 108] = (p3lStore, .ok (.bytes [SL, 97, SL, 102])) ∧
    walkPath p3lStore exView 0 ([cTmp] ++ [[108]]) = .viaLink := by
  obtain ⟨mt, ch, hc⟩ := get_of_isDirAt (show isDirAt p3lStore 3 = true by decide +kernel)
  have h1 := C11_sub_sim_lstat p3lStore 0 exView p3lStore_wf.1 p3lStore_wf.2 p3lView_ok rfl [cTmp] [[108]] (by simp)
    (by decide) (by decide) 0 3 mt ch (by decide +kernel) hc
  have h2 := C11_sub_sim_readlink p3lStore 0 exView p3lStore_wf.1 p3lStore_wf.2 p3lView_ok rfl [cTmp] [[108]]
    (by decide) (by decide) 0 3 mt ch (by decide +kernel) hc
  have n1 : walkPathL p3lStore exView 0 ([cTmp] ++ [[108]]) ≠ .viaLink := by decide +kernel
  have p1 : stat p3lStore exView [SL, 116, 109, 112, SL, 108] .lstat =
      (p3lStore, .ok (.info ⟨[108], 2, 0o777, 1000, 1000, 0, 1, 0, none⟩)) := by decide +kernel
  have p2 : readlink p3lStore exView [SL, 116, 109, 112, SL, 108] = (p3lStore, .ok (.bytes [SL, 97, SL, 102])) := by
    decide +kernel
  exact ⟨(h1.resolve_left n1).trans p1, (h2.resolve_left n1).trans p2, by decide +kernel⟩

/-- ReadDir by the user 1000 through Sub("/tmp"): ReadDir("/") is ReadDir("/tmp") (`b = []`): "d", "g";
    ReadDir("/d") is ReadDir("/tmp/d"): "e"; ReadDir("/g") is ReadDir("/tmp/g"): EACCES (0600 of the administrator) -/
example :
    readDir pxStore (subView exView 3) 1 [SL] =
      .ok (.infos [⟨[100], 0, 0o777, 0, 0, 0, 1, 0, none⟩, ⟨[103], 1, 0o600, 0, 0, 1, 1, 2, none⟩]) ∧
    readDir pxStore (subView exView 3) 1 [SL, 100] = .ok (.infos [⟨[101], 0, 0o755, 0, 0, 0, 0, 0, none⟩]) ∧
    readDir pxStore (subView exView 3) 1 [SL, 103] = .err .EACCES := by
  obtain ⟨mt, ch, hc⟩ := get_of_isDirAt (show isDirAt pxStore 3 = true by decide +kernel)
  have h1 := C11_sub_sim_readDir pxStore 0 exView pxStore_wf.1 pxStore_wf.2 pxView_ok rfl [cTmp] []
    (by decide) (by decide) 0 3 mt ch (by decide +kernel) hc 1 0
  have h2 := C11_sub_sim_readDir pxStore 0 exView pxStore_wf.1 pxStore_wf.2 pxView_ok rfl [cTmp] [[100]]
    (by decide) (by decide) 0 3 mt ch (by decide +kernel) hc 1 0
  have h3 := C11_sub_sim_readDir pxStore 0 exView pxStore_wf.1 pxStore_wf.2 pxView_ok rfl [cTmp] [[103]]
    (by decide) (by decide) 0 3 mt ch (by decide +kernel) hc 1 0
  have n1 : walkPath pxStore exView 0 ([cTmp] ++ []) ≠ .viaLink := by decide +kernel
  have n2 : walkPath pxStore exView 0 ([cTmp] ++ [[100]]) ≠ .viaLink := by decide +kernel
  have n3 : walkPath pxStore exView 0 ([cTmp] ++ [[103]]) ≠ .viaLink := by decide +kernel
  have p1 : readDir pxStore exView 0 [SL, 116, 109, 112] =
      .ok (.infos [⟨[100], 0, 0o777, 0, 0, 0, 1, 0, none⟩, ⟨[103], 1, 0o600, 0, 0, 1, 1, 2, none⟩]) := by
    decide +kernel
  have p2 : readDir pxStore exView 0 [SL, 116, 109, 112, SL, 100] =
      .ok (.infos [⟨[101], 0, 0o755, 0, 0, 0, 0, 0, none⟩]) := by decide +kernel
  have p3 : readDir pxStore exView 0 [SL, 116, 109, 112, SL, 103] = .err .EACCES := by decide +kernel
  exact ⟨(h1.resolve_left n1).trans p1, (h2.resolve_left n2).trans p2, (h3.resolve_left n3).trans p3⟩

/-- one node changes, by the administrator through Sub("/a"): Chmod("/f", 0600), Chtimes("/f", 7),
    Chown("/f", 1000, 1000), Truncate("/f", 1) act on inode 6 = "/a/f"; Chmod("/", 0700) (`b = []`) acts on the
    directory "/a" itself (inode 4). By the user 1000: Truncate("/f", 1) is EACCES, Chown is EPERM, as on "/a/f". -/
example :
    chmod pxStore (subView px2Adm 4) [SL, 102] 0o600 =
      (pxStore.set 6 (.file ⟨0o600, 0, 0, none⟩ [104, 105] 1 1), .ok .unit) ∧
    chtimes pxStore (subView px2Adm 4) [SL, 102] 7 =
      (pxStore.set 6 (.file ⟨0o644, 0, 0, some 7⟩ [104, 105] 1 1), .ok .unit) ∧
    chown pxStore (subView px2Adm 4) [SL, 102] 1000 1000 .eval =
      (pxStore.set 6 (.file ⟨0o644, 1000, 1000, none⟩ [104, 105] 1 1), .ok .unit) ∧
    truncate pxStore (subView px2Adm 4) [SL, 102] 1 =
      (pxStore.set 6 (.file ⟨0o644, 0, 0, none⟩ [104] 1 1), .ok .unit) ∧
    chmod pxStore (subView px2Adm 4) [SL] 0o700 =
      (pxStore.set 4 (.dir ⟨0o700, 0, 0, none⟩ [([102], 6), ([98], 5)]), .ok .unit) ∧
    truncate pxStore (subView exView 4) [SL, 102] 1 = (pxStore, .err .EACCES) ∧
    chown pxStore (subView exView 4) [SL, 102] 1000 1000 .eval = (pxStore, .err .EPERM) := by
  have hc := pxStore_a
  have h1 := C11_sub_sim_chmod pxStore 0 px2Adm pxStore_wf.1 pxStore_wf.2 px2Adm_ok rfl [cA] [[102]]
    (by decide) (by decide) 0 4 _ _ (by decide +kernel) hc 0o600
  have h2 := C11_sub_sim_chtimes pxStore 0 px2Adm pxStore_wf.1 pxStore_wf.2 px2Adm_ok rfl [cA] [[102]]
    (by decide) (by decide) 0 4 _ _ (by decide +kernel) hc 7
  have h3 := C11_sub_sim_chown pxStore 0 px2Adm pxStore_wf.1 pxStore_wf.2 px2Adm_ok rfl [cA] [[102]]
    (by decide) (by decide) 0 4 _ _ (by decide +kernel) hc 1000 1000 .eval
  have h4 := C11_sub_sim_truncate pxStore 0 px2Adm pxStore_wf.1 pxStore_wf.2 px2Adm_ok rfl [cA] [[102]]
    (by decide) (by decide) 0 4 _ _ (by decide +kernel) hc 1
  have h5 := C11_sub_sim_chmod pxStore 0 px2Adm pxStore_wf.1 pxStore_wf.2 px2Adm_ok rfl [cA] []
    (by decide) (by decide) 0 4 _ _ (by decide +kernel) hc 0o700
  have h6 := C11_sub_sim_truncate pxStore 0 exView pxStore_wf.1 pxStore_wf.2 pxView_ok rfl [cA] [[102]]
    (by decide) (by decide) 0 4 _ _ (by decide +kernel) hc 1
  have h7 := C11_sub_sim_chown pxStore 0 exView pxStore_wf.1 pxStore_wf.2 pxView_ok rfl [cA] [[102]]
    (by decide) (by decide) 0 4 _ _ (by decide +kernel) hc 1000 1000 .eval
  have n1 : walkPath pxStore px2Adm 0 ([cA] ++ [[102]]) ≠ .viaLink := by decide +kernel
  have n5 : walkPath pxStore px2Adm 0 ([cA] ++ []) ≠ .viaLink := by decide +kernel
  have n6 : walkPath pxStore exView 0 ([cA] ++ [[102]]) ≠ .viaLink := by decide +kernel
  have p1 : chmod pxStore px2Adm [SL, 97, SL, 102] 0o600 =
      (pxStore.set 6 (.file ⟨0o600, 0, 0, none⟩ [104, 105] 1 1), .ok .unit) := by decide +kernel
  have p2 : chtimes pxStore px2Adm [SL, 97, SL, 102] 7 =
      (pxStore.set 6 (.file ⟨0o644, 0, 0, some 7⟩ [104, 105] 1 1), .ok .unit) := by decide +kernel
  have p3 : chown pxStore px2Adm [SL, 97, SL, 102] 1000 1000 .eval =
      (pxStore.set 6 (.file ⟨0o644, 1000, 1000, none⟩ [104, 105] 1 1), .ok .unit) := by decide +kernel
  have p4 : truncate pxStore px2Adm [SL, 97, SL, 102] 1 =
      (pxStore.set 6 (.file ⟨0o644, 0, 0, none⟩ [104] 1 1), .ok .unit) := by decide +kernel
  have p5 : chmod pxStore px2Adm [SL, 97] 0o700 =
      (pxStore.set 4 (.dir ⟨0o700, 0, 0, none⟩ [([102], 6), ([98], 5)]), .ok .unit) := by decide +kernel
  have p6 : truncate pxStore exView [SL, 97, SL, 102] 1 = (pxStore, .err .EACCES) := by decide +kernel
  have p7 : chown pxStore exView [SL, 97, SL, 102] 1000 1000 .eval = (pxStore, .err .EPERM) := by decide +kernel
  exact ⟨(h1.resolve_left n1).trans p1, (h2.resolve_left n1).trans p2, (h3.resolve_left n1).trans p3,
    (h4.resolve_left n1).trans p4, (h5.resolve_left n5).trans p5, (h6.resolve_left n6).trans p6,
    (h7.resolve_left n6).trans p7⟩

/-- Symlink("/a/f", "/l") by the user 1000 through Sub("/tmp") is Symlink("/a/f", "/tmp/l") of the parent: the new
    heap is `p3lStore`, with the target "/a/f" stored as given; Symlink onto the existing "/g": EEXIST -/
example :
    symlink pxStore (subView exView 3) [SL, 97, SL, 102] [SL, 108] = (p3lStore, .ok .unit) ∧
    symlink pxStore (subView exView 3) [SL, 97, SL, 102] [SL, 103] = (pxStore, .err .EEXIST) := by
  obtain ⟨mt, ch, hc⟩ := get_of_isDirAt (show isDirAt pxStore 3 = true by decide +kernel)
  have h1 := C11_sub_sim_symlink pxStore 0 exView pxStore_wf.1 pxStore_wf.2 pxView_ok rfl [cTmp] [[108]] (by simp)
    (by decide) (by decide) 0 3 mt ch (by decide +kernel) hc [SL, 97, SL, 102]
  have h2 := C11_sub_sim_symlink pxStore 0 exView pxStore_wf.1 pxStore_wf.2 pxView_ok rfl [cTmp] [[103]] (by simp)
    (by decide) (by decide) 0 3 mt ch (by decide +kernel) hc [SL, 97, SL, 102]
  have n1 : walkPathL pxStore exView 0 ([cTmp] ++ [[108]]) ≠ .viaLink := by decide +kernel
  have n2 : walkPathL pxStore exView 0 ([cTmp] ++ [[103]]) ≠ .viaLink := by decide +kernel
  have p1 : symlink pxStore exView [SL, 97, SL, 102] [SL, 116, 109, 112, SL, 108] = (p3lStore, .ok .unit) := by
    decide +kernel
  have p2 : symlink pxStore exView [SL, 97, SL, 102] [SL, 116, 109, 112, SL, 103] = (pxStore, .err .EEXIST) := by
    decide +kernel
  exact ⟨(h1.resolve_left n1).trans p1, (h2.resolve_left n2).trans p2⟩

/-- REMARK (the point of the confinement, not a difference between the two calls): the target is a STRING. After the
    administrator's Symlink("/f", "/l") through Sub("/a") — the same heap as after Symlink("/f", "/a/l") through the
    parent, the stored target "/f" included — the link resolves through the view to "/a/f" (the file, 2 bytes), and
    through the parent to "/f", which does not exist: ENOENT. -/
theorem sub_symlink_target_confined :
    symlink pxStore (subView px2Adm 4) [SL, 102] [SL, 108] = symlink pxStore px2Adm [SL, 102] [SL, 97, SL, 108] ∧
    (let s' := (symlink pxStore px2Adm [SL, 102] [SL, 97, SL, 108]).1
     readlink s' (subView px2Adm 4) [SL, 108] = (s', .ok (.bytes [SL, 102])) ∧
     readlink s' px2Adm [SL, 97, SL, 108] = (s', .ok (.bytes [SL, 102])) ∧
     stat s' (subView px2Adm 4) [SL, 108] .stat = (s', .ok (.info ⟨[108], 1, 0o644, 0, 0, 1, 2, 1, none⟩)) ∧
     stat s' px2Adm [SL, 97, SL, 108] .stat = (s', .err .ENOENT)) := by
  decide +kernel

/-- REMARK (why Lstat / Stat need `b ≠ []`): Stat("/") through the view and Stat of the directory given to Sub through
    the parent describe the same node but report different names ("" for the root of a view, `stat_root`; the last
    component through the parent) -/
theorem sub_stat_root_name :
    stat pxStore (subView px2Adm 4) [SL] .stat = (pxStore, .ok (.info ⟨[], 0, 0o755, 0, 0, 0, 2, 0, none⟩)) ∧
    stat pxStore px2Adm [SL, 97] .stat = (pxStore, .ok (.info ⟨[97], 0, 0o755, 0, 0, 0, 2, 0, none⟩)) := by
  decide +kernel

/-- Link("/g", "/d/k") by the administrator through Sub("/tmp") is Link("/tmp/g", "/tmp/d/k"): one more name for
    inode 9 in "/tmp/d" (7); Link("/", "/k") (the root of the view as existing path) is EPERM, as Link("/tmp", "/tmp/k") -/
example :
    link pxStore (subView px2Adm 3) [SL, 103] [SL, 100, SL, 107] = (linked pxStore 9 7 [107], .ok .unit) ∧
    link pxStore (subView px2Adm 3) [SL] [SL, 107] = (pxStore, .err .EPERM) := by
  obtain ⟨mt, ch, hc⟩ := get_of_isDirAt (show isDirAt pxStore 3 = true by decide +kernel)
  have h1 := C11_sub_sim_link pxStore 0 px2Adm pxStore_wf.1 pxStore_wf.2 px2Adm_ok rfl [cTmp] [[103]] [[100], [107]]
    (by simp) (by decide) (by decide) (by decide) (by decide) 0 3 mt ch (by decide +kernel) hc
  have h2 := C11_sub_sim_link pxStore 0 px2Adm pxStore_wf.1 pxStore_wf.2 px2Adm_ok rfl [cTmp] [] [[107]]
    (by simp) (by decide) (by decide) (by decide) (by decide) 0 3 mt ch (by decide +kernel) hc
  have n1 : walkPath pxStore px2Adm 0 ([cTmp] ++ [[103]]) ≠ .viaLink := by decide +kernel
  have n2 : walkPath pxStore px2Adm 0 ([cTmp] ++ [[100], [107]]) ≠ .viaLink := by decide +kernel
  have n3 : walkPath pxStore px2Adm 0 ([cTmp] ++ []) ≠ .viaLink := by decide +kernel
  have n4 : walkPath pxStore px2Adm 0 ([cTmp] ++ [[107]]) ≠ .viaLink := by decide +kernel
  have p1 : link pxStore px2Adm [SL, 116, 109, 112, SL, 103] [SL, 116, 109, 112, SL, 100, SL, 107] =
      (linked pxStore 9 7 [107], .ok .unit) := by decide +kernel
  have p2 : link pxStore px2Adm [SL, 116, 109, 112] [SL, 116, 109, 112, SL, 107] = (pxStore, .err .EPERM) := by
    decide +kernel
  exact ⟨((h1.resolve_left n1).resolve_left n2).trans p1, ((h2.resolve_left n3).resolve_left n4).trans p2⟩

/-- OpenFile("/x", O_WRONLY|O_CREATE|O_EXCL, 0644) by the user 1000 through Sub("/tmp"), registered under view 1, is
    OpenFile("/tmp/x", …) of the parent (view 0): the same new heap `px2Store` (inode 10 = "/tmp/x"), a handle on the
    same node 10 with the same open mode — recording "/x" and view 1 where the parent's records "/tmp/x" and view 0.
    OpenFile("/", O_RDONLY) is OpenFile("/tmp", O_RDONLY): a handle on inode 3. -/
example :
    openFile pxStore (subView exView 3) 1 [SL, 120] 0xC1 0o644 =
      (px2Store, .ok (handleOn 10 [SL, 120] (toOpenMode 0xC1) 1)) ∧
    openFile pxStore exView 0 [SL, 116, 109, 112, SL, 120] 0xC1 0o644 =
      (px2Store, .ok (handleOn 10 [SL, 116, 109, 112, SL, 120] (toOpenMode 0xC1) 0)) ∧
    openFile pxStore (subView exView 3) 1 [SL] 0 0 = (pxStore, .ok (handleOn 3 [SL] omRead 1)) := by
  obtain ⟨mt, ch, hc⟩ := get_of_isDirAt (show isDirAt pxStore 3 = true by decide +kernel)
  have h1 := C11_sub_sim_open pxStore 0 exView pxStore_wf.1 pxStore_wf.2 pxView_ok rfl [cTmp] [[120]] (by simp)
    (by decide) (by decide) 0 3 mt ch (by decide +kernel) hc 1 0 0xC1 0o644
  have h2 := C11_sub_sim_open_root pxStore 0 exView pxStore_wf.1 pxStore_wf.2 pxView_ok rfl [cTmp] (by simp)
    (by decide) (by decide) 0 3 mt ch (by decide +kernel) hc 1 0 0 0
  have n1 : walkPath pxStore exView 0 ([cTmp] ++ [[120]]) ≠ .viaLink := by decide +kernel
  have p1 : openFile pxStore exView 0 [SL, 116, 109, 112, SL, 120] 0xC1 0o644 =
      (px2Store, .ok (handleOn 10 [SL, 116, 109, 112, SL, 120] (toOpenMode 0xC1) 0)) := by decide +kernel
  have p2 : openFile pxStore exView 0 [SL, 116, 109, 112] 0 0 =
      (pxStore, .ok (handleOn 3 [SL, 116, 109, 112] omRead 0)) := by decide +kernel
  have e1 := h1.resolve_left n1
  have e1' : openFile pxStore (subView exView 3) 1 [SL, 120] 0xC1 0o644 =
      ((openFile pxStore exView 0 [SL, 116, 109, 112, SL, 120] 0xC1 0o644).1,
       (openFile pxStore exView 0 [SL, 116, 109, 112, SL, 120] 0xC1 0o644).2.map
         fun h => h.asOpenedBy [SL, 120] 1) := e1
  have e2' : openFile pxStore (subView exView 3) 1 [SL] 0 0 =
      ((openFile pxStore exView 0 [SL, 116, 109, 112] 0 0).1,
       (openFile pxStore exView 0 [SL, 116, 109, 112] 0 0).2.map fun h => h.asOpenedBy [SL] 1) := h2
  rw [p1] at e1'
  rw [p2] at e2'
  exact ⟨e1', p1, e2'⟩

/-- MkdirAll("/x/y/z", 0755) by the user 1000 through Sub("/tmp") is MkdirAll("/tmp/x/y/z", 0755): the chain x/y/z
    below inode 3 (the heap `rmUStore`); MkdirAll("/", …) (`b = []`) is MkdirAll("/tmp", …): nil, nothing changes;
    through Sub("/a") the user gets EACCES, as for "/a/x/y" -/
example :
    mkdirAll pxStore (subView exView 3) [SL, 120, SL, 121, SL, 122] 0o755 =
      (mkChain exView 0o755 pxStore 3 [[120], [121], [122]], .ok .unit) ∧
    mkChain exView 0o755 pxStore 3 [[120], [121], [122]] = rmUStore ∧
    mkdirAll pxStore (subView exView 3) [SL] 0o755 = (pxStore, .ok .unit) ∧
    mkdirAll pxStore (subView exView 4) [SL, 120, SL, 121] 0o755 = (pxStore, .err .EACCES) := by
  obtain ⟨mt, ch, hc⟩ := get_of_isDirAt (show isDirAt pxStore 3 = true by decide +kernel)
  have h1 := C11_sub_sim_mkdirAll pxStore 0 exView pxStore_wf.1 pxStore_wf.2 pxView_ok rfl [cTmp] [[120], [121], [122]]
    (by decide) (by decide) 0 3 mt ch (by decide +kernel) hc 0o755
  have h2 := C11_sub_sim_mkdirAll pxStore 0 exView pxStore_wf.1 pxStore_wf.2 pxView_ok rfl [cTmp] []
    (by decide) (by decide) 0 3 mt ch (by decide +kernel) hc 0o755
  have h3 := C11_sub_sim_mkdirAll pxStore 0 exView pxStore_wf.1 pxStore_wf.2 pxView_ok rfl [cA] [[120], [121]]
    (by decide) (by decide) 0 4 _ _ (by decide +kernel) pxStore_a 0o755
  have n1 : walkPath pxStore exView 0 ([cTmp] ++ [[120], [121], [122]]) ≠ .viaLink := by decide +kernel
  have n2 : walkPath pxStore exView 0 ([cTmp] ++ []) ≠ .viaLink := by decide +kernel
  have n3 : walkPath pxStore exView 0 ([cA] ++ [[120], [121]]) ≠ .viaLink := by decide +kernel
  have p1 : mkdirAll pxStore exView [SL, 116, 109, 112, SL, 120, SL, 121, SL, 122] 0o755 =
      (mkChain exView 0o755 pxStore 3 [[120], [121], [122]], .ok .unit) := by decide +kernel
  have p2 : mkdirAll pxStore exView [SL, 116, 109, 112] 0o755 = (pxStore, .ok .unit) := by decide +kernel
  have p3 : mkdirAll pxStore exView [SL, 97, SL, 120, SL, 121] 0o755 = (pxStore, .err .EACCES) := by decide +kernel
  exact ⟨(h1.resolve_left n1).trans p1, by decide +kernel, (h2.resolve_left n2).trans p2,
    (h3.resolve_left n3).trans p3⟩

/-- Rename by the administrator through Sub("/tmp"): Rename("/g", "/d/h") is Rename("/tmp/g", "/tmp/d/h"): the entry
    of inode 9 moves from "/tmp" (3) to "/tmp/d" (7); Rename("/d", "/d/e/h") is EINVAL (below itself). In the sticky
    "/tmp" of `px4Store` the user 1000 through Sub("/tmp") may not move the administrator's "/g" away: EPERM, as
    Rename("/tmp/g", "/tmp/y") (`rename_sticky_refused`). -/
example :
    rename pxStore (subView px2Adm 3) [SL, 103] [SL, 100, SL, 104] =
      (renamed pxStore 3 [103] 7 [104] 9 none, .ok .unit) ∧
    rename pxStore (subView px2Adm 3) [SL, 100] [SL, 100, SL, 101, SL, 104] = (pxStore, .err .EINVAL) ∧
    rename px4Store (subView exView 3) [SL, 103] [SL, 121] = (px4Store, .err .EPERM) := by
  obtain ⟨mt, ch, hc⟩ := get_of_isDirAt (show isDirAt pxStore 3 = true by decide +kernel)
  obtain ⟨mt4, ch4, hc4⟩ := get_of_isDirAt (show isDirAt px4Store 3 = true by decide +kernel)
  have h1 := C11_sub_sim_rename pxStore 0 px2Adm pxStore_wf.1 pxStore_wf.2 px2Adm_ok rfl [cTmp] [[103]] [[100], [104]]
    (by simp) (by simp) (by decide) (by decide) (by decide) (by decide) 0 3 mt ch (by decide +kernel) hc
  have h2 := C11_sub_sim_rename pxStore 0 px2Adm pxStore_wf.1 pxStore_wf.2 px2Adm_ok rfl [cTmp] [[100]]
    [[100], [101], [104]] (by simp) (by simp) (by decide) (by decide) (by decide) (by decide) 0 3 mt ch
    (by decide +kernel) hc
  have h3 := C11_sub_sim_rename px4Store 0 exView px4Store_wf.1 px4Store_wf.2 px4View_ok rfl [cTmp] [[103]] [[121]]
    (by simp) (by simp) (by decide) (by decide) (by decide) (by decide) 0 3 mt4 ch4 (by decide +kernel) hc4
  have n1 : walkPath pxStore px2Adm 0 ([cTmp] ++ [[103]]) ≠ .viaLink := by decide +kernel
  have n2 : walkPath pxStore px2Adm 0 ([cTmp] ++ [[100], [104]]) ≠ .viaLink := by decide +kernel
  have n3 : walkPath pxStore px2Adm 0 ([cTmp] ++ [[100]]) ≠ .viaLink := by decide +kernel
  have n4 : walkPath pxStore px2Adm 0 ([cTmp] ++ [[100], [101], [104]]) ≠ .viaLink := by decide +kernel
  have n5 : walkPath px4Store exView 0 ([cTmp] ++ [[103]]) ≠ .viaLink := by decide +kernel
  have n6 : walkPath px4Store exView 0 ([cTmp] ++ [[121]]) ≠ .viaLink := by decide +kernel
  have p1 : rename pxStore px2Adm [SL, 116, 109, 112, SL, 103] [SL, 116, 109, 112, SL, 100, SL, 104] =
      (renamed pxStore 3 [103] 7 [104] 9 none, .ok .unit) := by decide +kernel
  have p2 : rename pxStore px2Adm [SL, 116, 109, 112, SL, 100] [SL, 116, 109, 112, SL, 100, SL, 101, SL, 104] =
      (pxStore, .err .EINVAL) := by decide +kernel
  have p3 : rename px4Store exView [SL, 116, 109, 112, SL, 103] [SL, 116, 109, 112, SL, 121] =
      (px4Store, .err .EPERM) := by decide +kernel
  exact ⟨((h1.resolve_left n1).resolve_left n2).trans p1, ((h2.resolve_left n3).resolve_left n4).trans p2,
    ((h3.resolve_left n5).resolve_left n6).trans p3⟩

/-- RemoveAll("/d") by the administrator through Sub("/tmp") on `rmStore` is RemoveAll("/tmp/d") of the parent
    (`rmStore_removeAll`): the tree of inode 7 goes, the file 6 keeps its other name "/a/f" (`rmResult`);
    RemoveAll of a missing "/q/r": nil, nothing changes -/
example :
    removeAll rmStore (subView px2Adm 3) [SL, 100] = (rmResult, .ok .unit) ∧
    removeAll rmStore (subView px2Adm 3) [SL, 113, SL, 114] = (rmStore, .ok .unit) := by
  obtain ⟨mt, ch, hc⟩ := get_of_isDirAt (show isDirAt rmStore 3 = true by decide +kernel)
  have h1 := C11_sub_sim_removeAll rmStore 0 px2Adm rmStore_wf.1 rmStore_wf.2 rmAdm_ok rfl [cTmp] [[100]] (by simp)
    (by decide) (by decide) 0 3 mt ch (by decide +kernel) hc
  have h2 := C11_sub_sim_removeAll rmStore 0 px2Adm rmStore_wf.1 rmStore_wf.2 rmAdm_ok rfl [cTmp] [[113], [114]]
    (by simp) (by decide) (by decide) 0 3 mt ch (by decide +kernel) hc
  have n1 : walkPathL rmStore px2Adm 0 ([cTmp] ++ [[100]]) ≠ .viaLink := by decide +kernel
  have n2 : walkPathL rmStore px2Adm 0 ([cTmp] ++ [[113], [114]]) ≠ .viaLink := by decide +kernel
  have p2 : removeAll rmStore px2Adm [SL, 116, 109, 112, SL, 113, SL, 114] = (rmStore, .ok .unit) := by
    decide +kernel
  exact ⟨(h1.resolve_left n1).trans rmStore_removeAll, (h2.resolve_left n2).trans p2⟩

end Avfs.FS
