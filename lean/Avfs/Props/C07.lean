import Avfs.Lemmas.Search
import Avfs.Lemmas.StepFacts
import Avfs.Lemmas.PathMore
import Avfs.Conc.Theorems
import Avfs.Conc.Allowed
import Avfs.Generated.Locks
/-
  C07 — every call returns: no deadlock, hang or panic.  Part (a): no panic / no hang, sequentially, for every argument.
  The models return `.panic` / `.hang` exactly where the Go code would index out of range, dereference nil or lock a
  mutex it already holds; the theorems say those outcomes are unreachable.
-/
namespace Avfs.FS
open Avfs.Path

/-- no MemFS path-level call panics or hangs, for every argument (empty, relative, unclean paths, the root, a
    directory and its descendant, identical operands, negative sizes …), in every well-formed state -/
theorem C07_step_no_panic (st : FSState) (root : Ino) (vid : Nat) (c : Call)
    (hwf : WF st.store root) (hn : NamesOK st.store) (hv : ∀ v, st.view vid = some v → ViewOK st.store v)
    (hf : ∀ hid op, c ≠ .file hid op) : (step st vid c).2 ≠ .panic ∧ (step st vid c).2 ≠ .hang :=
  step_no_panic st vid c (fun v h => searchOK_of_wf st.store root v hwf hn (hv v h)) hf

/-- no handle operation panics or hangs, for every offset / size / length (negative, far beyond EOF), closed or not -/
theorem C07_file_no_panic (st : FSState) (vid hid : Nat) (op : FOp)
    (hnd : ∀ h i, st.handle hid = some h → h.nd = some i → (st.store.get i).isSome = true) :
    (step st vid (.file hid op)).2 ≠ .panic ∧ (step st vid (.file hid op)).2 ≠ .hang :=
  step_file_no_panic st vid hid op hnd

/-- the path walk terminates within its fuel and never indexes out of range -/
theorem C07_search_no_panic (s : Store) (root : Ino) (v : View) (hwf : WF s root) (hn : NamesOK s) (hv : ViewOK s v)
    (p : Bytes) (m : SlMode) : (searchNode s v p m).err ≠ .panic :=
  (searchOK_of_wf s root v hwf hn hv).noPanic p m

/-- the lexical path helpers never panic: Match on either OS type, SplitAbs on absolute paths -/
theorem C07_match_no_panic (os : OS) (pat name : Bytes) : pmatch os pat name ≠ .panic := pmatch_no_panic os pat name

theorem C07_splitAbs_no_panic (p : Bytes) (h : isAbs .linux p = true) : (splitAbs .linux p).isSome = true :=
  splitAbs_abs_linux p h

/-! Parts (b) and (c): locks.  The lock facts are regenerated from the source on every run (harness/cmd/lockx). -/

/-- (b) no function acquires a lock it certainly already holds -/
theorem C07_no_self_acquire : Conc.selfAcquire Generated.lockFacts = [] := by decide +kernel

/-- (b) the nested acquisitions of the CURRENT source are exactly the listed ones, each with its reason why the two
    locks are different objects (or its ledger entry) -/
theorem C07_nested_acquisitions : Conc.sameSet (Conc.nested Generated.lockFacts) Conc.expectedNested = true := by decide +kernel

/-- (c) generic: if every thread only waits for a lock ranked strictly above all the locks it holds, no set of threads
    is deadlocked — for any number of threads -/
theorem C07_ranked_deadlock_free {T L : Type} [DecidableEq T] [DecidableEq L] (w : Conc.WaitSt T L) (hc : w.Consistent)
    (rank : L → Nat) (hr : w.Ranked rank) : ¬ w.Deadlocked := Conc.ranked_deadlock_free w hc rank hr

end Avfs.FS
