import Avfs.Lemmas.Search
import Avfs.Lemmas.StepFacts
import Avfs.Lemmas.PathMore
/-
  C07 — every call returns: no deadlock, hang or panic.  Part (a): no panic / no hang, sequentially, for every argument.
  The models return `.panic` / `.hang` exactly where the Go code would index out of range, dereference nil or lock a
  mutex it already holds; the theorems say those outcomes are unreachable.
-/
namespace Avfs.FS
open Avfs.Path

/-- no MemFS path-level call panics or hangs, for every argument (empty, relative, unclean paths, the root, a
    directory and its descendant, identical operands, negative sizes …), in every well-formed state -/
theorem C07_step_no_panic (st : FSState) (root : Ino) (vid : Nat) (c : Call)
    (hwf : WF st.store root) (hn : NamesOK st.store) (hv : ∀ v, st.view vid = some v → ViewOK st.store v)
    (hf : ∀ hid op, c ≠ .file hid op) : (step st vid c).2 ≠ .panic ∧ (step st vid c).2 ≠ .hang :=
  step_no_panic st vid c (fun v h => searchOK_of_wf st.store root v hwf hn (hv v h)) hf

/-- no handle operation panics or hangs, for every offset / size / length (negative, far beyond EOF), closed or not -/
theorem C07_file_no_panic (st : FSState) (vid hid : Nat) (op : FOp)
    (hnd : ∀ h i, st.handle hid = some h → h.nd = some i → (st.store.get i).isSome = true) :
    (step st vid (.file hid op)).2 ≠ .panic ∧ (step st vid (.file hid op)).2 ≠ .hang :=
  step_file_no_panic st vid hid op hnd

/-- the path walk terminates within its fuel and never indexes out of range -/
theorem C07_search_no_panic (s : Store) (root : Ino) (v : View) (hwf : WF s root) (hn : NamesOK s) (hv : ViewOK s v)
    (p : Bytes) (m : SlMode) : (searchNode s v p m).err ≠ .panic :=
  (searchOK_of_wf s root v hwf hn hv).noPanic p m

/-- the lexical path helpers never panic: Match on either OS type, SplitAbs on absolute paths -/
theorem C07_match_no_panic (os : OS) (pat name : Bytes) : pmatch os pat name ≠ .panic := pmatch_no_panic os pat name

theorem C07_splitAbs_no_panic (p : Bytes) (h : isAbs .linux p = true) : (splitAbs .linux p).isSome = true :=
  splitAbs_abs_linux p h

end Avfs.FS
