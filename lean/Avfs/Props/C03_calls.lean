import Avfs.Props.C03
import Avfs.Lemmas.Dac
/-
  C03 (per call) — the permission decision of EVERY namespace call of the MemFS model equals the Linux DAC rule for
  that call.

  Props/C03.lean proves that the permission test `checkPerm` is the DAC decision `dac` (owner class, else group class,
  else other; the administrator is never refused). This file says WHERE each call applies it, as corollaries of the
  reference theorems of Props/C01 (`<call>_posix`), for every tree satisfying the invariant, every user and every clean
  absolute path without symbolic links:

  * THE TABLE `needs : CallKind → List Need` (Lemmas/Dac.lean, section 3): for each call the requirements of Linux —
    which permission on which object, with the errno — in the order the kernel checks them:
      search (x) on every directory in which a component of the path is looked up      all calls          EACCES
      write+search (wx) on the directory that gets / loses the entry                   mkdir, remove, rename (both),
                                                                                       link and symlink (new name),
                                                                                       open with O_CREAT, mkdir -p   EACCES
      r / w on the object (r unless O_WRONLY; w unless O_RDONLY, and for O_TRUNC)      open, truncate (w), readdir (r) EACCES
      ownership (or administrator)                                                     chmod, chtimes               EPERM
      administrator (CAP_CHOWN)                                                        chown                        EPERM
      the sticky-directory rule (`restrictedDeletion`)                                 remove, rename (both entries),
                                                                                       rm -rf (every entry)         EPERM
      rwx on every directory with entries inside the tree                              rm -rf                       EACCES
      nothing on the object itself                                                     stat, lstat, readlink
    `Holds` gives every entry its meaning over the permission-BLIND resolution `lookupPath` of the path(s), in terms of
    `dac` (through `may`), `ownerOrAdmin`, the administrator flag and `restrictedDeletion`.
  * `C03_walk_factor`: the descent of the reference theorems = the blind descent gated by `searchAllowed`.
  * `C03_<call>_denied_iff`: `DecidedBy ctx kind s (call …)`: for e = EACCES and for e = EPERM, the call returns e IF AND
    ONLY IF the first requirement of the table that is not met has errno e (`Refused`); a refused call leaves the heap
    unchanged. Hypotheses beyond those of the reference theorems say that a call-specific non-permission error which
    Linux reports BEFORE the permission check does not apply (EISDIR, a length out of range, the old path of rename / link
    not resolving, …) or exclude a recorded deviation of MemFS from the table (below).
  * `C03_search_denied`: one theorem over the `Call` enumeration: an unsearchable directory on the path prefix makes
    every call fail with EACCES and changes nothing.
  * `C03_<call>_admin_never_denied`: for ALL paths (relative, unclean, through symbolic links).
  * `C03_deviation_…`: where MemFS does not follow the table — kernel-checked witnesses.
-/
set_option linter.unusedVariables false
set_option linter.unusedSectionVars false

namespace Avfs.FS
open Avfs.Path

/-! ### the table and its meaning (definitions of Lemmas/Dac.lean, restated as equations a reader can check) -/

/-- the table, row by row -/
theorem C03_table :
    needs .mkdir = [needSearch .first, ⟨.newParent .first, .bits false true true, .EACCES⟩] ∧
    needs .mkdirAll = [needSearch .first, ⟨.newParents, .bits false true true, .EACCES⟩] ∧
    needs .remove = [needSearch .first, ⟨.entryParent .first, .bits false true true, .EACCES⟩,
      ⟨.entryParent .first, .mayDelete, .EPERM⟩] ∧
    needs .removeAll = [needSearch .first, ⟨.tree, .bits true true true, .EACCES⟩, ⟨.tree, .mayDelete, .EPERM⟩,
      ⟨.entryParent .first, .bits false true true, .EACCES⟩, ⟨.entryParent .first, .mayDelete, .EPERM⟩] ∧
    needs .rename = [needSearch .first, needSearch .second,
      ⟨.entryParent .first, .bits false true true, .EACCES⟩, ⟨.entryParent .first, .mayDelete, .EPERM⟩,
      ⟨.parent .second, .bits false true true, .EACCES⟩, ⟨.entryParent .second, .mayDelete, .EPERM⟩,
      ⟨.movedDir, .bits false true false, .EACCES⟩] ∧
    needs .link = [needSearch .first, needSearch .second, ⟨.newParent .second, .bits false true true, .EACCES⟩] ∧
    needs .symlink = [needSearch .first, ⟨.newParent .first, .bits false true true, .EACCES⟩] ∧
    (∀ f : OFlags, needs (.open f) = [needSearch .first] ++
      (if f.creat && f.excl then [] else
        [⟨.node .first, .bits (f.acc != .wronly) (f.acc != .rdonly || f.trunc) false, .EACCES⟩]) ++
      (if f.creat then [⟨.newParent .first, .bits false true true, .EACCES⟩] else [])) ∧
    needs .truncate = [needSearch .first, ⟨.node .first, .bits false true false, .EACCES⟩] ∧
    needs .chmod = [needSearch .first, ⟨.node .first, .owner, .EPERM⟩] ∧
    needs .chown = [needSearch .first, ⟨.node .first, .capChown, .EPERM⟩] ∧
    needs .chtimes = [needSearch .first, ⟨.node .first, .owner, .EPERM⟩] ∧
    needs .readDir = [needSearch .first, ⟨.node .first, .bits true false false, .EACCES⟩] ∧
    needs .readlink = [needSearch .first] ∧ needs .stat = [needSearch .first] ∧ needs .lstat = [needSearch .first] ∧
    (∀ a, needSearch a = ⟨.lookupDirs a, .bits false false true, .EACCES⟩) :=
  ⟨rfl, rfl, rfl, rfl, rfl, rfl, rfl, fun _ => rfl, rfl, rfl, rfl, rfl, rfl, rfl, rfl, rfl, fun _ => rfl⟩

/-- "may": the DAC decision `dac` of Props/C03 on the attributes of a node; it is what MemFS's `checkPerm` / `dirPerm`
    compute -/
theorem C03_may (s : Store) (v : View) (i : Ino) (n : Node) (r w x : Bool) (hg : s.get i = some n) :
    may s v i r w x = dac n.meta.uid n.meta.gid n.meta.perm v.uid v.gid v.admin r w x ∧
    dirPerm s i ((if r then omRead else 0) ||| (if w then omWrite else 0) ||| (if x then omLookup else 0)) v =
      may s v i r w x :=
  ⟨by simp [may, hg, mayMeta], dirPerm_eq_may s v i r w x⟩

/-- the first row of every call: search permission on each directory a component is looked up in -/
theorem C03_holds_search (c : Ctx) (a : Arg) :
    Holds c (needSearch a) ↔ ∀ i ∈ lookupDirs c.s c.d (c.path a), may c.s c.v i false false true = true :=
  Iff.rfl

/-- the table refuses with at most one errno (EACCES or EPERM), and it refuses iff not every requirement is met -/
theorem C03_refused (c : Ctx) (k : CallKind) :
    (∀ e e', Refused c k e → Refused c k e' → e = e') ∧ (∀ e, Refused c k e → e = .EACCES ∨ e = .EPERM) ∧
    ((∃ e, Refused c k e) ↔ ¬ Allowed c k) :=
  ⟨fun _ _ h h' => h.unique h', fun _ h => h.err, refused_iff_not_allowed c k⟩

/-- what "decided by the table" gives: the call is refused (EACCES or EPERM) iff some requirement is not met -/
theorem C03_decided_denied_iff {c : Ctx} {k : CallKind} {s : Store} {r : Store × Out} (h : DecidedBy c k s r) :
    (r.2 = .err .EACCES ∨ r.2 = .err .EPERM) ↔ ¬ Allowed c k := h.denied_iff

/-- the descent `walkPath` of the reference theorems is the permission-blind descent `lookupPath`, gated by search
    permission on the directories names are looked up in; the first of them that may not be searched decides (EACCES),
    whatever else is wrong with the path further on -/
theorem C03_walk_factor (s : Store) (v : View) (cs : List Bytes) (d : Ino) :
    (walkPath s v d cs = if searchAllowed s v d cs then lookupPath s d cs else .denied) ∧
    (searchAllowed s v d cs = false ↔ ∃ i ∈ lookupDirs s d cs, may s v i false false true = false) :=
  ⟨walkPath_factor s v cs d, searchAllowed_false_iff s v d cs⟩

theorem C03_hvr {s : Store} {root : Ino} {v : View} (hwf : WF s root) (hroot : v.root = root) :
    ∃ m ch, s.get v.root = some (.dir m ch) := by
  subst hroot
  exact get_of_isDirAt hwf.rootDir

/-! ### `<call>_denied_iff` -/

section Calls
variable (s : Store) (root : Ino) (v : View) (hwf : WF s root) (hn : NamesOK s) (hv : ViewOK s v) (hroot : v.root = root)
include hwf hn hv hroot

/-- Mkdir: EACCES iff a directory of the path prefix may not be searched, or — the last component being the only one
    missing — the directory that is to hold it may not be written and searched; never EPERM -/
theorem C03_mkdir_denied_iff (cs : List Bytes) (hne : cs ≠ []) (hall : ∀ c ∈ cs, c ≠ [] ∧ ∀ x ∈ c, x ≠ SL)
    (hdots : ∀ c ∈ cs, c ≠ [DOT] ∧ c ≠ [DOT, DOT]) (perm : Nat) (hlf : walkPath s v v.root cs ≠ .viaLink) :
    DecidedBy (ctx1 s v cs) .mkdir s (mkdir s v (SL :: joinWith SL cs) perm) :=
  mkdir_denied_iff s root v hwf (C03_hvr hwf hroot) cs hne hall hdots perm hlf

/-- the same, spelled out -/
theorem C03_mkdir_eacces_iff (cs : List Bytes) (hne : cs ≠ []) (hall : ∀ c ∈ cs, c ≠ [] ∧ ∀ x ∈ c, x ≠ SL)
    (hdots : ∀ c ∈ cs, c ≠ [DOT] ∧ c ≠ [DOT, DOT]) (perm : Nat) (hlf : walkPath s v v.root cs ≠ .viaLink) :
    ((mkdir s v (SL :: joinWith SL cs) perm).2 = .err .EACCES ↔
      (searchAllowed s v v.root cs = false ∨
        match lookupPath s v.root cs with
        | .missingLast par _ => may s v par false true true = false
        | _ => False)) ∧
    (mkdir s v (SL :: joinWith SL cs) perm).2 ≠ .err .EPERM := by
  have h := mkdir_denied_iff s root v hwf (C03_hvr hwf hroot) cs hne hall hdots perm hlf
  constructor
  · rw [h.1 _ (Or.inl rfl)]
    refine (refused_mkdir_iff s v cs .EACCES).trans ?_
    simp only [true_and]
    exact Iff.rfl
  · intro he
    have := (refused_mkdir_iff s v cs .EPERM).mp ((h.1 _ (Or.inr rfl)).mp he)
    exact absurd this.1 (by decide)

/-- MkdirAll (`hcorner`: excludes `C03_deviation_mkdirAll`) -/
theorem C03_mkdirAll_denied_iff (cs : List Bytes) (hall : ∀ c ∈ cs, c ≠ [] ∧ ∀ x ∈ c, x ≠ SL)
    (hdots : ∀ c ∈ cs, c ≠ [DOT] ∧ c ≠ [DOT, DOT]) (perm : Nat)
    (hcorner : walkPath s v v.root cs = .missingDir → checkPerm (newDirMeta v perm) (omWrite ||| omLookup) v = true)
    (hlf : walkPath s v v.root cs ≠ .viaLink) :
    DecidedBy (ctxM s v cs perm) .mkdirAll s (mkdirAll s v (SL :: joinWith SL cs) perm) :=
  mkdirAll_denied_iff s root v hwf (C03_hvr hwf hroot) cs hall hdots perm hcorner hlf

/-- Remove: EACCES iff the path prefix may not be searched or the directory of the entry may not be written and
    searched; EPERM iff those are granted and the sticky rule forbids the removal -/
theorem C03_remove_denied_iff (cs : List Bytes) (hne : cs ≠ []) (hall : ∀ c ∈ cs, c ≠ [] ∧ ∀ x ∈ c, x ≠ SL)
    (hdots : ∀ c ∈ cs, c ≠ [DOT] ∧ c ≠ [DOT, DOT]) (hlf : walkPath s v v.root cs ≠ .viaLink) :
    DecidedBy (ctx1 s v cs) .remove s (remove s v (SL :: joinWith SL cs)) :=
  remove_denied_iff s root v hwf (C03_hvr hwf hroot) cs hne hall hdots hlf

/-- RemoveAll: refused iff the path prefix may not be searched or the path resolves to an entry for which MemFS's
    conditions `RemoveAllGranted` fail; with the order of the checks. Its relation to the table:
    `C03_removeAll_table_sufficient`, `C03_removeAll_table_necessary`. -/
theorem C03_removeAll_denied_iff (cs : List Bytes) (hne : cs ≠ []) (hall : ∀ c ∈ cs, c ≠ [] ∧ ∀ x ∈ c, x ≠ SL)
    (hdots : ∀ c ∈ cs, c ≠ [DOT] ∧ c ≠ [DOT, DOT]) (hlf : walkPath s v v.root cs ≠ .viaLink) :
    (((removeAll s v (SL :: joinWith SL cs)).2 = .err .EACCES ∨ (removeAll s v (SL :: joinWith SL cs)).2 = .err .EPERM) ↔
      (searchAllowed s v v.root cs = false ∨
        ∃ par c, lookupPath s v.root cs = .found par c ∧ ¬ RemoveAllGranted s v par c)) ∧
    (searchAllowed s v v.root cs = false → removeAll s v (SL :: joinWith SL cs) = (s, .err .EACCES)) ∧
    (∀ par c, searchAllowed s v v.root cs = true → lookupPath s v.root cs = .found par c →
      (isNonEmptyDir s c = true → TreeWritable s v c ∧ TreeUnrestricted s v c) →
      ((removeAll s v (SL :: joinWith SL cs)).2 = .err .EACCES ↔ may s v par false true true = false) ∧
      ((removeAll s v (SL :: joinWith SL cs)).2 = .err .EPERM ↔
        (may s v par false true true = true ∧ restrictedDeletion s v par c = true))) :=
  removeAll_denied_iff s root v hwf (C03_hvr hwf hroot) cs hne hall hdots hlf

/-- the table is sufficient for RemoveAll together with: the EMPTY directories inside the tree may be written
    (`C03_deviation_removeAll_empty_subdir`) -/
theorem C03_removeAll_table_sufficient (cs : List Bytes) (hne : cs ≠ []) (hall : ∀ c ∈ cs, c ≠ [] ∧ ∀ x ∈ c, x ≠ SL)
    (hdots : ∀ c ∈ cs, c ≠ [DOT] ∧ c ≠ [DOT, DOT]) (hlf : walkPath s v v.root cs ≠ .viaLink)
    (htab : Allowed (ctx1 s v cs) .removeAll)
    (hempty : ∀ par c, lookupPath s v.root cs = .found par c → isNonEmptyDir s c = true →
      ∀ i, Desc s c i → isDirAt s i = true → isNonEmptyDir s i = false → may s v i false true false = true) :
    (removeAll s v (SL :: joinWith SL cs)).2 ≠ .err .EACCES ∧ (removeAll s v (SL :: joinWith SL cs)).2 ≠ .err .EPERM :=
  removeAll_allowed_of_table s root v hwf (C03_hvr hwf hroot) cs hne hall hdots hlf htab hempty

/-- the table is necessary for RemoveAll as far as WRITE permission goes (read and search permission of the directories
    inside the tree are not asked for: `C03_deviation_removeAll_unreadable`) -/
theorem C03_removeAll_table_necessary (cs : List Bytes) (hne : cs ≠ []) (hall : ∀ c ∈ cs, c ≠ [] ∧ ∀ x ∈ c, x ≠ SL)
    (hdots : ∀ c ∈ cs, c ≠ [DOT] ∧ c ≠ [DOT, DOT]) (hlf : walkPath s v v.root cs ≠ .viaLink)
    (h1 : (removeAll s v (SL :: joinWith SL cs)).2 ≠ .err .EACCES)
    (h2 : (removeAll s v (SL :: joinWith SL cs)).2 ≠ .err .EPERM) :
    ∀ n ∈ [needSearch .first, ⟨.tree, .bits false true false, .EACCES⟩, ⟨.tree, .mayDelete, .EPERM⟩,
      ⟨.entryParent .first, .bits false true true, .EACCES⟩, ⟨.entryParent .first, .mayDelete, .EPERM⟩],
      Holds (ctx1 s v cs) n :=
  removeAll_table_of_allowed s root v hwf (C03_hvr hwf hroot) cs hne hall hdots hlf h1 h2

/-- Rename against the table (hypotheses: both paths resolve as rename(2) needs; not two names of one object; Linux's
    extra requirement on a moved directory holds; not both the old sticky rule and the new directory's write permission
    fail — see `rename_denied_iff`, and `C03_rename_decided_checks` for the order MemFS checks in) -/
theorem C03_rename_denied_iff (cso csn : List Bytes) (hneo : cso ≠ []) (hnen : csn ≠ [])
    (hallo : ∀ c ∈ cso, c ≠ [] ∧ ∀ x ∈ c, x ≠ SL) (hdotso : ∀ c ∈ cso, c ≠ [DOT] ∧ c ≠ [DOT, DOT])
    (halln : ∀ c ∈ csn, c ≠ [] ∧ ∀ x ∈ c, x ≠ SL) (hdotsn : ∀ c ∈ csn, c ≠ [DOT] ∧ c ≠ [DOT, DOT])
    (opar oc : Ino) (hold : lookupPath s v.root cso = .found opar oc)
    (hnew : (∃ np nc, lookupPath s v.root csn = .found np nc) ∨ (∃ np nn, lookupPath s v.root csn = .missingLast np nn))
    (hsame : ∀ p, lookupPath s v.root csn ≠ .found p oc)
    (hmv : Holds (ctx2 s v cso csn) ⟨.movedDir, .bits false true false, .EACCES⟩)
    (hprec : restrictedDeletion s v opar oc = true →
      Holds (ctx2 s v cso csn) ⟨.parent .second, .bits false true true, .EACCES⟩) :
    DecidedBy (ctx2 s v cso csn) .rename s (rename s v (SL :: joinWith SL cso) (SL :: joinWith SL csn)) :=
  rename_denied_iff s root v hwf (C03_hvr hwf hroot) cso csn hneo hnen hallo hdotso halln hdotsn opar oc hold hnew hsame
    hmv hprec

/-- Rename in the order MemFS checks (`renameChecks`: both directories' write permission before the sticky rule), and
    without `hprec`: refused iff some requirement of the table is not met -/
theorem C03_rename_decided_checks (cso csn : List Bytes) (hneo : cso ≠ []) (hnen : csn ≠ [])
    (hallo : ∀ c ∈ cso, c ≠ [] ∧ ∀ x ∈ c, x ≠ SL) (hdotso : ∀ c ∈ cso, c ≠ [DOT] ∧ c ≠ [DOT, DOT])
    (halln : ∀ c ∈ csn, c ≠ [] ∧ ∀ x ∈ c, x ≠ SL) (hdotsn : ∀ c ∈ csn, c ≠ [DOT] ∧ c ≠ [DOT, DOT])
    (opar oc : Ino) (hold : lookupPath s v.root cso = .found opar oc)
    (hnew : (∃ np nc, lookupPath s v.root csn = .found np nc) ∨ (∃ np nn, lookupPath s v.root csn = .missingLast np nn))
    (hsame : ∀ p, lookupPath s v.root csn ≠ .found p oc)
    (hmv : Holds (ctx2 s v cso csn) ⟨.movedDir, .bits false true false, .EACCES⟩) :
    DecidedByL (ctx2 s v cso csn) renameChecks s (rename s v (SL :: joinWith SL cso) (SL :: joinWith SL csn)) ∧
    (((rename s v (SL :: joinWith SL cso) (SL :: joinWith SL csn)).2 = .err .EACCES ∨
      (rename s v (SL :: joinWith SL cso) (SL :: joinWith SL csn)).2 = .err .EPERM) ↔
        ¬ Allowed (ctx2 s v cso csn) .rename) :=
  ⟨rename_decided_checks s root v hwf (C03_hvr hwf hroot) cso csn hneo hnen hallo hdotso halln hdotsn opar oc hold hnew
      hsame hmv,
   (rename_denied_iff_any s root v hwf (C03_hvr hwf hroot) cso csn hneo hnen hallo hdotso halln hdotsn opar oc hold hnew
      hsame hmv).1⟩

/-- Link (the old path resolves, to something that is no directory): EACCES iff a prefix may not be searched or the
    directory of the new name may not be written and searched; never EPERM -/
theorem C03_link_denied_iff (cso csn : List Bytes) (hnen : csn ≠ [])
    (hallo : ∀ c ∈ cso, c ≠ [] ∧ ∀ x ∈ c, x ≠ SL) (hdotso : ∀ c ∈ cso, c ≠ [DOT] ∧ c ≠ [DOT, DOT])
    (halln : ∀ c ∈ csn, c ≠ [] ∧ ∀ x ∈ c, x ≠ SL) (hdotsn : ∀ c ∈ csn, c ≠ [DOT] ∧ c ≠ [DOT, DOT])
    (opar oc : Ino) (hold : lookupPath s v.root cso = .found opar oc) (hsrc : isDirAt s oc = false)
    (hlfn : walkPath s v v.root csn ≠ .viaLink) :
    DecidedBy (ctx2 s v cso csn) .link s (link s v (SL :: joinWith SL cso) (SL :: joinWith SL csn)) :=
  link_denied_iff s root v hwf (C03_hvr hwf hroot) cso csn hnen hallo hdotso halln hdotsn opar oc hold hsrc hlfn

/-- Symlink (the path is the new name) -/
theorem C03_symlink_denied_iff (cs : List Bytes) (hne : cs ≠ []) (hall : ∀ c ∈ cs, c ≠ [] ∧ ∀ x ∈ c, x ≠ SL)
    (hdots : ∀ c ∈ cs, c ≠ [DOT] ∧ c ≠ [DOT, DOT]) (old : Bytes) (hlf : walkPath s v v.root cs ≠ .viaLink) :
    DecidedBy (ctx1 s v cs) .symlink s (symlink s v old (SL :: joinWith SL cs)) :=
  symlink_denied_iff s root v hwf (C03_hvr hwf hroot) cs hne hall hdots old hlf

/-- OpenFile, every access mode with O_CREAT / O_EXCL / O_TRUNC / O_APPEND, for flags that decode as open(2) says
    (`hpl`: O_RDONLY without O_CREAT, O_EXCL, O_TRUNC, O_APPEND; else `C03_deviation_open_rdonly_creat`) and when EISDIR
    does not apply (`hisdir`) -/
theorem C03_open_denied_iff (cs : List Bytes) (hne : cs ≠ []) (hall : ∀ c ∈ cs, c ≠ [] ∧ ∀ x ∈ c, x ≠ SL)
    (hdots : ∀ c ∈ cs, c ≠ [DOT] ∧ c ≠ [DOT, DOT]) (vid perm : Nat) (f : OFlags) (hpl : f.plain)
    (hisdir : ∀ par c, lookupPath s v.root cs = .found par c → isDirAt s c = true → f.acc = .rdonly)
    (hlf : walkPath s v v.root cs ≠ .viaLink) :
    DecidedBy (ctx1 s v cs) (.open f) s (openOut (openFile s v vid (SL :: joinWith SL cs) f.toNat perm)) :=
  open_denied_iff s root v hwf (C03_hvr hwf hroot) cs hne hall hdots vid perm f hpl hisdir hlf

/-- Truncate (length in range; not a directory) -/
theorem C03_truncate_denied_iff (cs : List Bytes) (hall : ∀ c ∈ cs, c ≠ [] ∧ ∀ x ∈ c, x ≠ SL)
    (hdots : ∀ c ∈ cs, c ≠ [DOT] ∧ c ≠ [DOT, DOT]) (size : Int) (hsize : 0 ≤ size ∧ size ≤ maxFileSize)
    (hkind : ∀ par c, lookupPath s v.root cs = .found par c → isDirAt s c = false)
    (hlf : walkPath s v v.root cs ≠ .viaLink) :
    DecidedBy (ctx1 s v cs) .truncate s (truncate s v (SL :: joinWith SL cs) size) :=
  truncate_denied_iff s root v hwf (C03_hvr hwf hroot) cs hall hdots size hsize hkind hlf

/-- Chmod: EACCES iff the path prefix may not be searched; EPERM iff the path resolves and the caller neither owns the
    object nor is administrator -/
theorem C03_chmod_denied_iff (cs : List Bytes) (hall : ∀ c ∈ cs, c ≠ [] ∧ ∀ x ∈ c, x ≠ SL)
    (hdots : ∀ c ∈ cs, c ≠ [DOT] ∧ c ≠ [DOT, DOT]) (mode : Nat) (hlf : walkPath s v v.root cs ≠ .viaLink) :
    DecidedBy (ctx1 s v cs) .chmod s (chmod s v (SL :: joinWith SL cs) mode) :=
  chmod_denied_iff s root v hwf (C03_hvr hwf hroot) cs hall hdots mode hlf

/-- Chown / Lchown (`hres`: the administrator, or the path resolves; else `C03_deviation_chown`) -/
theorem C03_chown_denied_iff (cs : List Bytes) (hall : ∀ c ∈ cs, c ≠ [] ∧ ∀ x ∈ c, x ≠ SL)
    (hdots : ∀ c ∈ cs, c ≠ [DOT] ∧ c ≠ [DOT, DOT]) (uid gid : Int) (m : SlMode)
    (hres : v.admin = true ∨
      (searchAllowed s v v.root cs = true ∧ ∃ par c, lookupPath s v.root cs = .found par c))
    (hlf : walkPath s v v.root cs ≠ .viaLink) :
    DecidedBy (ctx1 s v cs) .chown s (chown s v (SL :: joinWith SL cs) uid gid m) :=
  chown_denied_iff s root v hwf (C03_hvr hwf hroot) cs hall hdots uid gid m hres hlf

/-- Chtimes: as Chmod -/
theorem C03_chtimes_denied_iff (cs : List Bytes) (hall : ∀ c ∈ cs, c ≠ [] ∧ ∀ x ∈ c, x ≠ SL)
    (hdots : ∀ c ∈ cs, c ≠ [DOT] ∧ c ≠ [DOT, DOT]) (mtime : Int) (hlf : walkPath s v v.root cs ≠ .viaLink) :
    DecidedBy (ctx1 s v cs) .chtimes s (chtimes s v (SL :: joinWith SL cs) mtime) :=
  chtimes_denied_iff s root v hwf (C03_hvr hwf hroot) cs hall hdots mtime hlf

/-- ReadDir: search on the prefix, read on the object -/
theorem C03_readDir_denied_iff (cs : List Bytes) (hall : ∀ c ∈ cs, c ≠ [] ∧ ∀ x ∈ c, x ≠ SL)
    (hdots : ∀ c ∈ cs, c ≠ [DOT] ∧ c ≠ [DOT, DOT]) (vid : Nat) (hlf : walkPath s v v.root cs ≠ .viaLink) :
    DecidedBy (ctx1 s v cs) .readDir s (s, readDir s v vid (SL :: joinWith SL cs)) :=
  readDir_denied_iff s root v hwf (C03_hvr hwf hroot) cs hall hdots vid hlf

/-- Readlink: search on the prefix only -/
theorem C03_readlink_denied_iff (cs : List Bytes) (hall : ∀ c ∈ cs, c ≠ [] ∧ ∀ x ∈ c, x ≠ SL)
    (hdots : ∀ c ∈ cs, c ≠ [DOT] ∧ c ≠ [DOT, DOT]) (hlf : walkPath s v v.root cs ≠ .viaLink) :
    DecidedBy (ctx1 s v cs) .readlink s (readlink s v (SL :: joinWith SL cs)) :=
  readlink_denied_iff s root v hwf (C03_hvr hwf hroot) cs hall hdots hlf

/-- Stat / Lstat: search on the prefix only; no permission on the object -/
theorem C03_stat_denied_iff (cs : List Bytes) (hall : ∀ c ∈ cs, c ≠ [] ∧ ∀ x ∈ c, x ≠ SL)
    (hdots : ∀ c ∈ cs, c ≠ [DOT] ∧ c ≠ [DOT, DOT]) (m : SlMode) (hlf : walkPath s v v.root cs ≠ .viaLink) :
    DecidedBy (ctx1 s v cs) .stat s (stat s v (SL :: joinWith SL cs) m) ∧
    DecidedBy (ctx1 s v cs) .lstat s (stat s v (SL :: joinWith SL cs) m) :=
  stat_denied_iff s root v hwf (C03_hvr hwf hroot) cs hall hdots m hlf

end Calls

/-! ### search denied -/

/-- SEARCH DENIED: if a directory in which a component of the path is looked up may not be searched by the caller, every
    call of the enumeration that resolves this path first (`Call.firstPath`: all the path-taking calls but Chown / Lchown,
    the temp-file helpers and a Truncate with a length out of range) returns EACCES and leaves heap, handles and view
    as they were. For the second path of Rename / Link: `rename_search_denied_new`, `link_search_denied_new`. -/
theorem C03_search_denied (st : FSState) (vid : Nat) (v : View) (root : Ino) (hv : st.view vid = some v)
    (hwf : WF st.store root) (hroot : v.root = root)
    (cs : List Bytes) (hall : ∀ c ∈ cs, c ≠ [] ∧ ∀ x ∈ c, x ≠ SL) (hdots : ∀ c ∈ cs, c ≠ [DOT] ∧ c ≠ [DOT, DOT])
    (c : Call) (hp : c.firstPath = some (SL :: joinWith SL cs))
    (i : Ino) (hi : i ∈ lookupDirs st.store v.root cs) (hden : may st.store v i false false true = false) :
    (step st vid c).2 = .err .EACCES ∧ (step st vid c).1.store = st.store ∧
    (step st vid c).1.handles = st.handles ∧ (step st vid c).1.view vid = some v :=
  search_denied st vid v root hv hwf (C03_hvr hwf hroot) cs hall hdots c hp
    ((searchAllowed_false_iff st.store v v.root cs).mpr ⟨i, hi, hden⟩)

/-! ### the administrator is never refused (all paths) -/

section Admin
variable (s : Store) (root : Ino) (v : View) (hwf : WF s root) (hv : ViewOK s v) (ha : v.admin = true)
include hwf hv ha

/-- for ALL paths (relative, unclean, through symbolic links): no namespace call returns EACCES or EPERM to an
    administrator, whatever the modes and owners on the tree — with the one exception of link(2) on something that is
    no regular file (EPERM for everybody) -/
theorem C03_admin_never_denied (p q : Bytes) (perm flag vid mode : Nat) (size mtime uid gid : Int) (m : SlMode) :
    ((mkdir s v p perm).2 ≠ .err .EACCES ∧ (mkdir s v p perm).2 ≠ .err .EPERM) ∧
    ((mkdirAll s v p perm).2 ≠ .err .EACCES ∧ (mkdirAll s v p perm).2 ≠ .err .EPERM) ∧
    ((remove s v p).2 ≠ .err .EACCES ∧ (remove s v p).2 ≠ .err .EPERM) ∧
    ((removeAll s v p).2 ≠ .err .EACCES ∧ (removeAll s v p).2 ≠ .err .EPERM) ∧
    ((rename s v p q).2 ≠ .err .EACCES ∧ (rename s v p q).2 ≠ .err .EPERM) ∧
    ((link s v p q).2 ≠ .err .EACCES ∧
      ((link s v p q).2 = .err .EPERM →
        ∃ oc, (searchNode s v p .lstat).child = some oc ∧ ∀ m d nl id, s.get oc ≠ some (.file m d nl id))) ∧
    ((symlink s v p q).2 ≠ .err .EACCES ∧ (symlink s v p q).2 ≠ .err .EPERM) ∧
    ((openOut (openFile s v vid p flag perm)).2 ≠ .err .EACCES ∧ (openOut (openFile s v vid p flag perm)).2 ≠ .err .EPERM) ∧
    ((truncate s v p size).2 ≠ .err .EACCES ∧ (truncate s v p size).2 ≠ .err .EPERM) ∧
    ((chmod s v p mode).2 ≠ .err .EACCES ∧ (chmod s v p mode).2 ≠ .err .EPERM) ∧
    ((chown s v p uid gid m).2 ≠ .err .EACCES ∧ (chown s v p uid gid m).2 ≠ .err .EPERM) ∧
    ((chtimes s v p mtime).2 ≠ .err .EACCES ∧ (chtimes s v p mtime).2 ≠ .err .EPERM) ∧
    (readDir s v vid p ≠ .err .EACCES ∧ readDir s v vid p ≠ .err .EPERM) ∧
    ((readlink s v p).2 ≠ .err .EACCES ∧ (readlink s v p).2 ≠ .err .EPERM) ∧
    ((stat s v p m).2 ≠ .err .EACCES ∧ (stat s v p m).2 ≠ .err .EPERM) :=
  ⟨mkdir_admin_never_denied s root v hwf hv ha p perm, mkdirAll_admin_never_denied s root v hwf hv ha p perm,
   remove_admin_never_denied s root v hwf hv ha p, removeAll_admin_never_denied s root v hwf hv ha p,
   rename_admin_never_denied s root v hwf hv ha p q, link_admin_never_denied s root v hwf hv ha p q,
   symlink_admin_never_denied s root v hwf hv ha p q, openFile_admin_never_denied s root v hwf hv ha vid p flag perm,
   truncate_admin_never_denied s v ha p size, chmod_admin_never_denied s v hv ha p mode,
   chown_admin_never_denied s v ha p uid gid m, chtimes_admin_never_denied s v ha p mtime,
   readDir_admin_never_denied s root v hwf hv ha vid p, readlink_admin_never_denied s v ha p,
   stat_admin_never_denied s v ha p m⟩

omit hv in
/-- the same from the table's side: for an administrator every requirement holds -/
theorem C03_admin_allowed (c : Ctx) (k : CallKind) (hs : c.s = s) (hcv : c.v = v) (hd : c.d = v.root)
    (hroot : v.root = root) : Allowed c k := by
  subst hs hcv
  exact allowed_admin c k root hwf hd (C03_hvr hwf hroot) ha

end Admin

/-! ### deviations of MemFS from the table (kernel-checked witnesses; each has its history in Lemmas/Dac.lean) -/

/-- MkdirAll checks only the directory of the first missing component (known: `mkdirAll_corner_unwritable`) -/
theorem C03_deviation_mkdirAll :
    Refused (ctxM pxStore exView [cTmp, [120], [121]] 0o500) .mkdirAll .EACCES ∧
    mkdirAll pxStore exView [SL, 116, 109, 112, SL, 120, SL, 121] 0o500 =
      (mkChain exView 0o500 pxStore 3 [[120], [121]], .ok .unit) := mkdirAll_first_parent_only

/-- RemoveAll asks write permission of EMPTY sub-directories (known: `removeAll_corner_empty_subdir`) -/
theorem C03_deviation_removeAll_empty_subdir :
    Allowed (ctx1 pxStore exView [cTmp, [100]]) .removeAll ∧
    (removeAll pxStore exView [SL, 116, 109, 112, SL, 100]).2 = .err .EACCES := removeAll_empty_subdir_asked

/-- RemoveAll asks neither read nor search permission of the directories inside the tree (new) -/
theorem C03_deviation_removeAll_unreadable :
    rmRStore.get 10 = some (.dir ⟨0o200, 1000, 1000, none⟩ [([102], 11)]) ∧
    Refused (ctx1 rmRStore exView [cTmp, [120]]) .removeAll .EACCES ∧
    remove rmRStore exView [SL, 116, 109, 112, SL, 120, SL, 102] = (rmRStore, .err .EACCES) ∧
    (removeAll rmRStore exView [SL, 116, 109, 112, SL, 120]).2 = .ok .unit := removeAll_unreadable_dir

/-- Link to a file of another user is allowed: no fs.protected_hardlinks (known) -/
theorem C03_deviation_link :
    Allowed (ctx2 pxStore exView [cA, [102]] [cTmp, [104]]) .link ∧
    ¬ Holds (ctx2 pxStore exView [cA, [102]] [cTmp, [104]]) needProtectedHardlinks ∧
    link pxStore exView [SL, 97, SL, 102] [SL, 116, 109, 112, SL, 104] = (linked pxStore 6 3 [104], .ok .unit) :=
  link_other_users_file

/-- Rename does not ask write permission on a directory that changes its parent (new) -/
theorem C03_deviation_rename_moved_dir :
    Refused (ctx2 pxStore exView [cTmp, cD, cE] [cTmp, cE]) .rename .EACCES ∧
    ¬ Holds (ctx2 pxStore exView [cTmp, cD, cE] [cTmp, cE]) ⟨.movedDir, .bits false true false, .EACCES⟩ ∧
    rename pxStore exView [SL, 116, 109, 112, SL, 100, SL, 101] [SL, 116, 109, 112, SL, 101] =
      (renamed pxStore 7 [101] 3 [101] 8 none, .ok .unit) := rename_dir_across_unchecked

/-- Rename, order of checks: old sticky rule (EPERM on Linux) against new directory's write permission (EACCES on
    MemFS) (new) -/
theorem C03_deviation_rename_order :
    Refused (ctx2 stickyStore exView [cTmp, cG] [cA, cG]) .rename .EPERM ∧
    rename stickyStore exView [SL, 116, 109, 112, SL, 103] [SL, 97, SL, 103] = (stickyStore, .err .EACCES) :=
  rename_sticky_vs_newdir

/-- Rename, order of checks: the old entry is missing and a directory of the new path may not be searched: EACCES on
    Linux, ENOENT on MemFS (new) -/
theorem C03_deviation_rename_old_missing :
    Refused (ctx2 pxStore exView [cTmp, [121]] [cA, cB, [120]]) .rename .EACCES ∧
    rename pxStore exView [SL, 116, 109, 112, SL, 121] [SL, 97, SL, 98, SL, 120] = (pxStore, .err .ENOENT) :=
  rename_old_missing_new_denied

/-- Rename of two names of the same file in an unwritable directory: 0 on Linux, EACCES on MemFS (known for the same
    path: `rename_same_denied`) -/
theorem C03_deviation_rename_same_file :
    lookupPath px3Store exView.root [cA, cF] = .found 4 6 ∧ lookupPath px3Store exView.root [cTmp, cH] = .found 3 6 ∧
    rename px3Store exView [SL, 97, SL, 102] [SL, 116, 109, 112, SL, 104] = (px3Store, .err .EACCES) :=
  rename_two_names_denied

/-- Chown by whoever is not administrator: EPERM before the path is looked at — also where the table says EACCES
    (new; companions: `chown_user_noent`, `chown_owner_refused`) -/
theorem C03_deviation_chown :
    Refused (ctx1 pxStore exView [cA, cB, [120]]) .chown .EACCES ∧
    chown pxStore exView [SL, 97, SL, 98, SL, 120] 1000 1000 .eval = (pxStore, .err .EPERM) := chown_user_unsearchable

/-- O_RDONLY|O_CREAT on an existing file asks WRITE permission (the permission side of `toOpenMode_rdonly_creat`) -/
theorem C03_deviation_open_rdonly_creat :
    Allowed (ctx1 pxStore exView [cA, [102]]) (.open ⟨.rdonly, true, false, false, false⟩) ∧
    (openOut (openFile pxStore exView 0 [SL, 97, SL, 102] (OFlags.toNat ⟨.rdonly, true, false, false, false⟩) 0o644)).2 =
      .err .EACCES ∧
    (openOut (openFile pxStore exView 0 [SL, 97, SL, 102] (OFlags.toNat ⟨.rdonly, false, false, false, false⟩) 0)).2 =
      .ok .unit := open_rdonly_creat_needs_write

/-! ### handle operations: File.Chown / File.Chmod (fchown(2) / fchmod(2)) -/

/-- File.Chown: for a caller who is not the administrator the call is refused with EPERM, and nothing changes, unless
    the caller OWNS the file, leaves its owner as it is and sets the group to the file's group or to his own — whatever
    permission bits the file has (write permission is not what allows it: repaired, see `file_chown_by_writer_refused`) -/
theorem C03_file_chown_refused (s : Store) (v : View) (h : Handle) (i : Ino) (n : Node) (uid gid : Int)
    (hname : h.name.isEmpty = false) (hnd : h.nd = some i) (hg : s.get i = some n) (hna : v.admin = false)
    (hnot : ¬ (n.meta.uid = v.uid ∧ (uid = -1 ∨ uid = n.meta.uid) ∧ (gid = -1 ∨ gid = n.meta.gid ∨ gid = v.gid))) :
    fileStep s v h (.chown uid gid) = (s, v, h, .err .EPERM) := by
  simp only [fileStep, hname, hnd, hg]
  have hc : (v.admin || (n.meta.uid == v.uid && (uid == -1 || uid == n.meta.uid) &&
      (gid == -1 || gid == n.meta.gid || gid == v.gid))) = false := by
    cases hb : (v.admin || (n.meta.uid == v.uid && (uid == -1 || uid == n.meta.uid) &&
      (gid == -1 || gid == n.meta.gid || gid == v.gid))) with
    | false => rfl
    | true =>
      exfalso; apply hnot
      simp [hna] at hb
      exact ⟨hb.1.1, hb.1.2, by rcases hb.2 with (h | h) | h <;> simp [h]⟩
  simp [hc]

/-- … and the administrator, or the owner within those limits, succeeds -/
theorem C03_file_chown_allowed (s : Store) (v : View) (h : Handle) (i : Ino) (n : Node) (uid gid : Int)
    (hname : h.name.isEmpty = false) (hnd : h.nd = some i) (hg : s.get i = some n)
    (hok : v.admin = true ∨ (n.meta.uid = v.uid ∧ (uid = -1 ∨ uid = n.meta.uid) ∧ (gid = -1 ∨ gid = n.meta.gid ∨ gid = v.gid))) :
    (fileStep s v h (.chown uid gid)).2.2.2 = .ok .unit := by
  simp only [fileStep, hname, hnd, hg]
  have hc : (v.admin || (n.meta.uid == v.uid && (uid == -1 || uid == n.meta.uid) &&
      (gid == -1 || gid == n.meta.gid || gid == v.gid))) = true := by
    rcases hok with ha | ⟨h1, h2, h3⟩
    · simp [ha]
    · simp only [Bool.or_eq_true, Bool.and_eq_true, beq_iff_eq]
      exact Or.inr ⟨⟨h1, h2⟩, by rcases h3 with h | h | h <;> simp [h]⟩
  simp [hc]

/-- the concrete history of the repaired defect -/
theorem C03_file_chown_by_writer_refused :
    let s := (chmod pxStore px2Adm [SL, 97, SL, 102] 0o666).1
    let h := handleOn 6 [SL, 97, SL, 102] omRead 0
    (fileStep s exView h (.chown 1000 1000)).2.2.2 = .err .EPERM ∧
    (fileStep s exView h (.chown 1000 1000)).1 = s ∧
    (fileStep s exView h (.chmod 0o777)).2.2.2 = .err .EPERM ∧
    (fileStep s px2Adm h (.chown 1000 1000)).2.2.2 = .ok .unit := file_chown_by_writer_refused

end Avfs.FS
