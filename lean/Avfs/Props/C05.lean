import Avfs.Lemmas.Search
import Avfs.Lemmas.WFCreate
import Avfs.Lemmas.WFCreateCex
import Avfs.Lemmas.WFRemove
import Avfs.Lemmas.StepFacts
import Avfs.Lemmas.WFCheck
import Avfs.Lemmas.OrefaWF
/-
  C05 — the namespace is always a well-formed tree with exact link counts.
  Subject: the MemFS model (Avfs.FS), tied to /repo by `corr memfs*` (results + internal node graph after every call);
  `wfCheck` (the executable form of `WF`) is also evaluated on the graph dumped from the implementation.
-/
namespace Avfs.FS
open Avfs.Path

/-- the attachment condition under which a view may create entries: its root hangs in the tree of `root` -/
def ViewAttached (s : Store) (root : Ino) (v : View) : Prop := v.root = root ∨ ∃ d n, Edge s d n v.root

theorem parentAttached_of_view (s : Store) (root : Ino) (v : View)
    (hv : ViewAttached s root v) : ParentAttached s root v :=
  fun p m => hr_searchNode_parent_attached s v root hv p m

/-- every CREATING call preserves the tree invariant (any path, any flags, any state satisfying it) -/
theorem C05_wf_create (s : Store) (root : Ino) (v : View) (hwf : WF s root) (hs : SearchOK s v) (hv : ViewAttached s root v) :
    (∀ p perm, WF (mkdir s v p perm).1 root) ∧ (∀ p perm, WF (mkdirAll s v p perm).1 root) ∧
    (∀ vid p flag perm, WF (openFile s v vid p flag perm).1 root) ∧
    (∀ o n, WF (symlink s v o n).1 root) ∧ (∀ o n, WF (link s v o n).1 root) := by
  have ha := parentAttached_of_view s root v hv
  exact ⟨fun p perm => wf_mkdir s root v p perm hwf hs ha, fun p perm => wf_mkdirAll s root v p perm hwf hs ha,
    fun vid p flag perm => wf_openFile s root v vid p flag perm hwf hs ha,
    fun o n => wf_symlink s root v o n hwf hs ha, fun o n => wf_link s root v o n hwf hs ha⟩

/-- every REMOVING / attribute-changing call and every handle operation preserves it, including a RemoveAll stopped
    half-way by a permission error -/
theorem C05_wf_remove_attr (s : Store) (root : Ino) (v : View) (hwf : WF s root) (hs : SearchOK s v) :
    (∀ p, WF (remove s v p).1 root) ∧ (∀ p, WF (removeAll s v p).1 root) ∧
    (∀ p sz, WF (truncate s v p sz).1 root) ∧ (∀ p m, WF (chmod s v p m).1 root) ∧
    (∀ p u g m, WF (chown s v p u g m).1 root) ∧ (∀ p t, WF (chtimes s v p t).1 root) ∧
    (∀ h op, WF (fileStep s v h op).1 root) :=
  ⟨fun p => wf_remove' s root v p hwf hs, fun p => wf_removeAll' s root v p hwf hs,
   fun p sz => wf_truncate s root v p sz hwf, fun p m => wf_chmod s root v p m hwf,
   fun p u g m => wf_chown s root v p u g m hwf, fun p t => wf_chtimes s root v p t hwf,
   fun h op => wf_fileStep s root v h op hwf⟩

/-- Rename preserves it for every pair of operands (root, ancestor/descendant, identical, hard links of one inode,
    missing, wrong type …), given that the path-prefix test of Rename does exclude a destination inside the source
    directory (`RenameSafe`, the only hypothesis not yet discharged: it relates the path strings returned by the walk to
    the directory graph) -/
theorem C05_wf_rename_partial (s : Store) (root : Ino) (v : View) (o n : Bytes) (hwf : WF s root) (hs : SearchOK s v)
    (hv : ViewAttached s root v) (hsafe : RenameSafe s v o n) : WF (rename s v o n).1 root :=
  wf_rename s root v o n hwf hs hv hsafe

/-- the walk facts every theorem above assumes hold in every well-formed state (incl. termination of the walk) -/
theorem C05_search_ok (s : Store) (root : Ino) (v : View) (hwf : WF s root) (hn : NamesOK s) (hv : ViewOK s v) : SearchOK s v :=
  searchOK_of_wf s root v hwf hn hv

/-- A call that fails leaves the whole state exactly as it was (RemoveAll and handle operations apart; Chdir only
    re-binds the same view, see `C05_failed_chdir`).  `hw`: the data of a WriteFile fits in a file; beyond
    `maxFileSize` WriteFile creates or truncates the file and then fails with EINVAL in Write. -/
theorem C05_failed_unchanged (st : FSState) (vid : Nat) (c : Call) (e : Err) (h : (step st vid c).2 = .err e)
    (hc : ∀ p, c ≠ .removeAll p) (hf : ∀ hid op, c ≠ .file hid op)
    (hcd : ∀ p, c ≠ .chdir p)
    (hw : ∀ p d perm, c = .writeFile p d perm → d.length ≤ maxFileSize) : (step st vid c).1 = st :=
  step_failed_unchanged st vid c e h hc hf hcd hw

theorem C05_failed_chdir (st : FSState) (vid : Nat) (p : Bytes) (e : Err) (h : (step st vid (.chdir p)).2 = .err e) :
    (step st vid (.chdir p)).1.store = st.store ∧ ∀ w, (step st vid (.chdir p)).1.view w = st.view w :=
  let r := step_chdir_failed st vid p e h; ⟨r.1, r.2.2.2.2⟩

/-- a failed handle operation changes nothing either -/
theorem C05_failed_file (s : Store) (v : View) (h : Handle) (op : FOp) (e : Err)
    (he : (fileStep s v h op).2.2.2 = .err e) : fileStep s v h op = (s, v, h, .err e) :=
  fileStep_err s v h op e he

/-- Witness that the attachment hypothesis cannot be dropped: a view whose root directory has been removed through
    another view sits on a detached directory, and creating below it leaves the `attached` clause (kernel-checked
    counterexample on a closed state). -/
theorem C05_detached_view_witness : ∃ (s : Store) (v : View) (p : Bytes), WF s 0 ∧ ¬ WF (mkdir s v p 0o755).1 0 :=
  ⟨_, _, _, Cex.mkdir_breaks_wf⟩

/-- the executable check is sound: when `wfCheck` (evaluated by the harness on the node graph dumped from the
    implementation after every call) answers true, the graph satisfies the invariant `WF` and its entry names are valid -/
theorem C05_wfCheck_sound (s : Store) (root : Ino) (h : wfCheck s root = true) : WF s root ∧ NamesOK s :=
  wfCheck_sound s root h

/-! ### OrefaFS: tree and path index agree in every reachable state

  `Orefa.OWF` (Lemmas/OrefaWF.lean): the root is indexed under "" and "/" only; every other indexed path is an entry of the
  directory indexed under its parent path (`up`), every entry of an indexed directory is indexed under parent ++ "/" ++
  name (`down`), index keys are unique, everything mentioned is allocated, a directory has one key, a node's link count
  is the number of its keys, names are non-empty and separator-free, files and released nodes have no children map. -/

/-- every state reachable from `orefafs.New()` through any sequence of calls of the model (all VFS calls, all handle
    methods, composites) satisfies the invariant -/
theorem C05_orefa_reachable {uid gid : Int} {st : Orefa.OState} (hr : Orefa.Reachable uid gid st) :
    Orefa.OWF st.store :=
  Orefa.OWF_reachable hr

theorem C05_orefa_step {st : Orefa.OState} (h : Orefa.OWF st.store) (c : Call) : Orefa.OWF (Orefa.step st c).1.store :=
  Orefa.OWF_step h c

-- non-vacuity: the initial state of `memfs.New()` satisfies the executable invariant (test, by evaluation)
#guard wfCheck initState.store 0

end Avfs.FS
