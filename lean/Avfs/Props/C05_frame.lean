import Avfs.Props.C05
import Avfs.Lemmas.WFCheckComplete
import Avfs.Lemmas.Frame
import Avfs.Lemmas.FrameEntries
import Avfs.Lemmas.ReachWF
/-
  C05 — (1) the executable tree check `wfCheck` is COMPLETE, hence decides the invariant;
        (2) FRAME: a call changes only the nodes, and inside them only the entries, it names.

  (1) `wfCheck s root = true ↔ WF s root ∧ NamesOK s`, with no side condition on the heap representation: the bounds the
      check demands follow from `WF` (Lemmas/WFCheckComplete.lean). The harness evaluates `wfCheck` on the node graph
      dumped from the implementation after every call; soundness (Props/C05.lean) says it misses no violation,
      completeness says it raises no false alarm: on every reachable state of the model it answers true.
  (2) For every mutating call of the model and EVERY path (relative, unclean, through symbolic links), every store and
      every view, whether the call succeeds or fails: inodes outside an explicit list are bound to the same node as
      before (kind, attributes, content, link count, id, entries) and the allocation counters do not decrease
      (`Frame`, Lemmas/Frame.lean); (directory, name) pairs other than the ones named designate the same inode as before
      (`EntriesOutside`, Lemmas/FrameEntries.lean). The touched nodes are named through the walk of the call
      (`searchNode`: parent, child, last component); for clean absolute link-free paths, through the reference
      resolution `walkPath` of C01 (`C05_frame_*_posix`).
-/
namespace Avfs.FS
open Avfs.Path

/-! ### (1) completeness of the check -/

/-- every heap that satisfies the invariant and has valid entry names passes the executable check -/
theorem C05_wfCheck_complete (s : Store) (root : Ino) (hwf : WF s root) (hn : NamesOK s) : wfCheck s root = true :=
  wfCheck_complete s root hwf hn

/-- the executable check decides the invariant -/
theorem C05_wfCheck_iff (s : Store) (root : Ino) : wfCheck s root = true ↔ WF s root ∧ NamesOK s :=
  wfCheck_iff s root

/-- a rejected heap does violate the invariant (or has an invalid entry name): no false alarm -/
theorem C05_wfCheck_false_iff (s : Store) (root : Ino) : wfCheck s root = false ↔ ¬ (WF s root ∧ NamesOK s) :=
  wfCheck_false_iff s root

/-- the check answers true on every state reachable from `memfs.New()` by calls of the model (views of the whole
    volume): evaluated on a faithful dump of a correct implementation it never fails -/
theorem C05_wfCheck_reachable (calls : List (Nat × Call)) (hns : NoSub calls) :
    wfCheck (run initState calls).1.store 0 = true :=
  let h := wf_reachable calls hns
  wfCheck_complete _ 0 h.1 h.2

/-- the same from any state whose heap passes the check (every bound directory node having valid entry names, views
    of the whole volume): after any run of calls without `Sub` the check still answers true -/
theorem C05_wfCheck_run (st : FSState) (h : wfCheck st.store 0 = true) (hn : AllNamesOK st.store)
    (hviews : ∀ w v, st.view w = some v → v.root = 0 ∧ isAbs .linux v.cwd = true)
    (calls : List (Nat × Call)) (hns : NoSub calls) : wfCheck (run st calls).1.store 0 = true :=
  let r := wf_run st (wfCheck_sound _ 0 h).1 hn hviews calls hns
  wfCheck_complete _ 0 r.1 r.2

/-- non-vacuity of completeness: the hypotheses hold on the concrete heap `pxStore` (ten inodes, files and nested
    directories) … -/
example : wfCheck pxStore 0 = true := C05_wfCheck_complete pxStore 0 pxStore_wf.1 pxStore_wf.2

/-- … and the equivalence separates: the heap reached with `Sub` in `reach_sub_not_wf` (an entry in a removed
    directory) is rejected by the check and violates the invariant -/
theorem C05_wfCheck_rejects_detached :
    wfCheck (run initState subCalls).1.store 0 = false ∧
    ¬ (WF (run initState subCalls).1.store 0 ∧ NamesOK (run initState subCalls).1.store) := by
  have h : wfCheck (run initState subCalls).1.store 0 = false := by decide +kernel
  exact ⟨h, (wfCheck_false_iff _ _).1 h⟩

/-! ### (2) frame, call by call (any path, any store, success or failure) -/

theorem C05_frame_mkdir (s : Store) (v : View) (p : Bytes) (perm : Nat) :
    Frame s (mkdir s v p perm).1 [(searchNode s v p .lstat).parent, s.next] ∧
    EntriesOutside s (mkdir s v p perm).1 (newEntry s (searchNode s v p .lstat)) ∧
    KeptOutside s (mkdir s v p perm).1 (· = s.next) :=
  ⟨frame_mkdir s v p perm, entries_mkdir s v p perm, kept_mkdir s v p perm⟩

theorem C05_frame_symlink (s : Store) (v : View) (o n : Bytes) :
    Frame s (symlink s v o n).1 [(searchNode s v n .lstat).parent, s.next] ∧
    EntriesOutside s (symlink s v o n).1 (newEntry s (searchNode s v n .lstat)) ∧
    KeptOutside s (symlink s v o n).1 (· = s.next) :=
  ⟨frame_symlink s v o n, entries_symlink s v o n, kept_symlink s v o n⟩

theorem C05_frame_link (s : Store) (v : View) (o n : Bytes) :
    Frame s (link s v o n).1 ((searchNode s v n .lstat).parent :: (searchNode s v o .lstat).child.toList) ∧
    EntriesOutside s (link s v o n).1 (entryOf (searchNode s v n .lstat)) ∧
    Keeps s (link s v o n).1 :=
  ⟨frame_link s v o n, entries_link s v o n, keeps_link s v o n⟩

theorem C05_frame_remove (s : Store) (v : View) (p : Bytes) :
    Frame s (remove s v p).1 ((searchNode s v p .lstat).parent :: (searchNode s v p .lstat).child.toList) ∧
    EntriesOutside s (remove s v p).1 (entryOf (searchNode s v p .lstat)) ∧
    Keeps s (remove s v p).1 :=
  ⟨frame_remove s v p, entries_remove s v p, keeps_remove s v p⟩

/-- Rename: the two parents and the replaced node; the moved node is not in the list -/
theorem C05_frame_rename (s : Store) (v : View) (o n : Bytes) :
    Frame s (rename s v o n).1 ((searchNode s v o .lstat).parent :: (searchNode s v n .lstat).parent ::
      (searchNode s v n .lstat).child.toList) ∧
    EntriesOutside s (rename s v o n).1
      (fun d nm => entryOf (searchNode s v o .lstat) d nm ∨ entryOf (searchNode s v n .lstat) d nm) ∧
    Keeps s (rename s v o n).1 :=
  ⟨frame_rename s v o n, entries_rename s v o n, keeps_rename s v o n⟩

theorem C05_frame_openFile (s : Store) (v : View) (vid : Nat) (p : Bytes) (flag perm : Nat) :
    Frame s (openFile s v vid p flag perm).1
      ((searchNode s v p .eval).parent :: s.next :: (searchNode s v p .eval).child.toList) ∧
    EntriesOutside s (openFile s v vid p flag perm).1 (newEntry s (searchNode s v p .eval)) :=
  ⟨frame_openFile s v vid p flag perm, entries_openFile s v vid p flag perm⟩

theorem C05_frame_truncate (s : Store) (v : View) (p : Bytes) (size : Int) :
    Frame s (truncate s v p size).1 (searchNode s v p .eval).child.toList ∧
    EntriesOutside s (truncate s v p size).1 (fun _ _ => False) ∧
    ∀ x, SameButData (s.get x) ((truncate s v p size).1.get x) :=
  ⟨frame_truncate s v p size, entries_truncate s v p size, dataOnly_truncate s v p size⟩

theorem C05_frame_chmod (s : Store) (v : View) (p : Bytes) (mode : Nat) :
    Frame s (chmod s v p mode).1 (searchNode s v p .eval).child.toList ∧
    EntriesOutside s (chmod s v p mode).1 (fun _ _ => False) ∧ AttrOnly s (chmod s v p mode).1 :=
  ⟨frame_chmod s v p mode, entries_chmod s v p mode, attrOnly_chmod s v p mode⟩

/-- Chown (`m = .eval`) and Lchown (`m = .lstat`) -/
theorem C05_frame_chown (s : Store) (v : View) (p : Bytes) (uid gid : Int) (m : SlMode) :
    Frame s (chown s v p uid gid m).1 (searchNode s v p m).child.toList ∧
    EntriesOutside s (chown s v p uid gid m).1 (fun _ _ => False) ∧ AttrOnly s (chown s v p uid gid m).1 :=
  ⟨frame_chown s v p uid gid m, entries_chown s v p uid gid m, attrOnly_chown s v p uid gid m⟩

theorem C05_frame_chtimes (s : Store) (v : View) (p : Bytes) (t : Int) :
    Frame s (chtimes s v p t).1 (searchNode s v p .eval).child.toList ∧
    EntriesOutside s (chtimes s v p t).1 (fun _ _ => False) ∧ AttrOnly s (chtimes s v p t).1 :=
  ⟨frame_chtimes s v p t, entries_chtimes s v p t, attrOnly_chtimes s v p t⟩

/-- every method of an open handle touches the node of the handle only, and no entry -/
theorem C05_frame_fileStep (s : Store) (v : View) (h : Handle) (op : FOp) :
    Frame s (fileStep s v h op).1 h.nd.toList ∧ EntriesOutside s (fileStep s v h op).1 (fun _ _ => False) :=
  ⟨frame_fileStep s v h op, entries_fileStep s v h op⟩

/-- MkdirAll: one directory that existed before (it receives one entry), and inodes allocated by the call -/
theorem C05_frame_mkdirAll (s : Store) (v : View) (p : Bytes) (perm : Nat) :
    FrameP s (mkdirAll s v p perm).1 (fun i => i = (searchNode s v p .eval).parent ∨ s.next ≤ i) ∧
    EntriesOutside s (mkdirAll s v p perm).1 (fun d n => entryOf (searchNode s v p .eval) d n ∨ s.next ≤ d) ∧
    KeptOutside s (mkdirAll s v p perm).1 (fun i => s.next ≤ i) :=
  ⟨frame_mkdirAll s v p perm, entries_mkdirAll s v p perm, kept_mkdirAll s v p perm⟩

/-- RemoveAll (a run stopped half-way by a permission error included): the parent and the nodes at or below the
    removed one; everything else, in particular every sibling, is untouched -/
theorem C05_frame_removeAll (s : Store) (v : View) (p : Bytes) :
    FrameP s (removeAll s v p).1 (fun i => i = (searchNode s v p .lstat).parent ∨
      ∃ c, (searchNode s v p .lstat).child = some c ∧ Desc s c i) ∧
    EntriesOutside s (removeAll s v p).1 (fun d n => entryOf (searchNode s v p .lstat) d n ∨
      ∃ c, (searchNode s v p .lstat).child = some c ∧ Desc s c d) ∧
    Keeps s (removeAll s v p).1 :=
  ⟨frame_removeAll s v p, entries_removeAll s v p, keeps_removeAll s v p⟩

/-- WriteFile (open with O_CREATE|O_TRUNC, write, close) -/
theorem C05_frame_writeFile (st : FSState) (v : View) (vid : Nat) (p d : Bytes) (perm : Nat) :
    Frame st.store (writeFileV st v vid p d perm).1.store
      ((searchNode st.store v p .eval).parent :: st.store.next :: (searchNode st.store v p .eval).child.toList) :=
  frame_writeFileV st v vid p d perm

/-- EVERY call of the model (`step`: the 29 calls, handle operations and composites included), successful or not:
    nodes the call does not name (`touches`: empty for the read-only calls and when the view is unknown) are exactly
    as before, and the allocation counters `next`, `lastId` do not decrease -/
theorem C05_frame_step (st : FSState) (vid : Nat) (c : Call) :
    FrameP st.store (step st vid c).1.store (touches st vid c) :=
  step_frame st vid c

/-- … so a node bound before the call that the call does not name is still bound, to the same node -/
theorem C05_frame_step_get (st : FSState) (vid : Nat) (c : Call) (i : Ino) (n : Node) (hi : ¬ touches st vid c i)
    (hg : st.store.get i = some n) : (step st vid c).1.store.get i = some n :=
  ((step_frame st vid c).others i hi).trans hg

/-- and a failed call changes nothing at all (RemoveAll, handle operations, Chdir apart: Props/C05.lean) -/
theorem C05_frame_failed (st : FSState) (vid : Nat) (c : Call) (e : Err) (h : (step st vid c).2 = .err e)
    (hc : ∀ p, c ≠ .removeAll p) (hf : ∀ hid op, c ≠ .file hid op) (hcd : ∀ p, c ≠ .chdir p)
    (hw : ∀ p d perm, c = .writeFile p d perm → d.length ≤ maxFileSize) :
    FrameP st.store (step st vid c).1.store (fun _ => False) :=
  FrameP.of_eq (congrArg FSState.store (step_failed_unchanged st vid c e h hc hf hcd hw))

/-! ### (2') clean absolute link-free paths: the touched nodes through the reference resolution of C01

  `v.root` is any directory of a heap well-formed for `root`; the path is "/c1/…/cn". The list is computed from the
  reference outcome (`posixMkdir`, `posixRemove`, … of Lemmas/Posix*.lean): empty when the reference fails. -/

section
variable (s : Store) (root : Ino) (v : View) (hwf : WF s root) (hvr : ∃ m ch, s.get v.root = some (.dir m ch))
  (cs : List Bytes) (hne : cs ≠ []) (hall : ∀ c ∈ cs, c ≠ [] ∧ ∀ x ∈ c, x ≠ SL)
  (hdots : ∀ c ∈ cs, c ≠ [DOT] ∧ c ≠ [DOT, DOT])
include hwf hvr hall hdots

theorem C05_frame_mkdir_posix (hne : cs ≠ []) (perm : Nat) (hin : posixMkdir s v (walkPath s v v.root cs) ≠ .outside) :
    Frame s (mkdir s v (SL :: joinWith SL cs) perm).1 ((posixMkdir s v (walkPath s v v.root cs)).touched s) :=
  frame_mkdir_posix s root v hwf hvr cs hne hall hdots perm hin

theorem C05_frame_remove_posix (hne : cs ≠ []) (hin : posixRemove s v (walkPath s v v.root cs) ≠ .outside) :
    Frame s (remove s v (SL :: joinWith SL cs)).1 (posixRemove s v (walkPath s v v.root cs)).touched :=
  frame_remove_posix s root v hwf hvr cs hne hall hdots hin

theorem C05_frame_open_posix (hne : cs ≠ []) (vid flag perm : Nat)
    (hin : posixOpen s v (toOpenMode flag) (walkPath s v v.root cs) ≠ .outside) :
    Frame s (openFile s v vid (SL :: joinWith SL cs) flag perm).1
      ((posixOpen s v (toOpenMode flag) (walkPath s v v.root cs)).touched s) :=
  frame_open_posix s root v hwf hvr cs hne hall hdots vid flag perm hin

theorem C05_frame_symlink_posix (hne : cs ≠ []) (old : Bytes)
    (hin : posixSymlink s v (walkPathL s v v.root cs) ≠ .outside) :
    Frame s (symlink s v old (SL :: joinWith SL cs)).1 ((posixSymlink s v (walkPathL s v v.root cs)).touched s) :=
  frame_symlink_posix s root v hwf hvr cs hne hall hdots old hin

theorem C05_frame_truncate_posix (size : Int) (hin : posixTruncate s v size (walkPath s v v.root cs) ≠ .outside) :
    Frame s (truncate s v (SL :: joinWith SL cs) size).1 (posixTruncate s v size (walkPath s v v.root cs)).touched :=
  frame_truncate_posix s root v hwf hvr cs hall hdots size hin

theorem C05_frame_chmod_posix (mode : Nat) (hin : posixChmod s v mode (walkPath s v v.root cs) ≠ .outside) :
    Frame s (chmod s v (SL :: joinWith SL cs) mode).1 (posixChmod s v mode (walkPath s v v.root cs)).touched :=
  frame_chmod_posix s root v hwf hvr cs hall hdots mode hin

theorem C05_frame_chown_posix (uid gid : Int) (m : SlMode)
    (hcorner : v.admin = true ∨ posixChown s v uid gid (walkPath s v v.root cs) = .fail .EPERM)
    (hin : posixChown s v uid gid (walkPath s v v.root cs) ≠ .outside) :
    Frame s (chown s v (SL :: joinWith SL cs) uid gid m).1 (posixChown s v uid gid (walkPath s v v.root cs)).touched :=
  frame_chown_posix s root v hwf hvr cs hall hdots uid gid m hcorner hin

theorem C05_frame_chtimes_posix (mtime : Int) (hin : posixChtimes s v mtime (walkPath s v v.root cs) ≠ .outside) :
    Frame s (chtimes s v (SL :: joinWith SL cs) mtime).1 (posixChtimes s v mtime (walkPath s v v.root cs)).touched :=
  frame_chtimes_posix s root v hwf hvr cs hall hdots mtime hin

theorem C05_frame_mkdirAll_posix (perm : Nat) :
    match mkWalk s v v.root cs with
    | .missing d _ => FrameP s (mkdirAll s v (SL :: joinWith SL cs) perm).1 (fun i => i = d ∨ s.next ≤ i)
    | .viaLink => True
    | _ => (mkdirAll s v (SL :: joinWith SL cs) perm).1 = s :=
  frame_mkdirAll_posix s root v hwf hvr cs hall hdots perm

theorem C05_frame_removeAll_posix (hne : cs ≠ []) :
    match walkPathL s v v.root cs with
    | .found par c => FrameP s (removeAll s v (SL :: joinWith SL cs)).1 (fun i => i = par ∨ Desc s c i)
    | .viaLink => True
    | _ => (removeAll s v (SL :: joinWith SL cs)).1 = s :=
  frame_removeAll_posix s root v hwf hvr cs hne hall hdots

end

theorem C05_frame_link_posix (s : Store) (root : Ino) (v : View) (hwf : WF s root)
    (hvr : ∃ m ch, s.get v.root = some (.dir m ch)) (cso csn : List Bytes) (hnen : csn ≠ [])
    (hallo : ∀ c ∈ cso, c ≠ [] ∧ ∀ x ∈ c, x ≠ SL) (hdotso : ∀ c ∈ cso, c ≠ [DOT] ∧ c ≠ [DOT, DOT])
    (halln : ∀ c ∈ csn, c ≠ [] ∧ ∀ x ∈ c, x ≠ SL) (hdotsn : ∀ c ∈ csn, c ≠ [DOT] ∧ c ≠ [DOT, DOT])
    (hin : posixLink s v (walkPath s v v.root cso) (walkPath s v v.root csn) ≠ .outside) :
    Frame s (link s v (SL :: joinWith SL cso) (SL :: joinWith SL csn)).1
      (posixLink s v (walkPath s v v.root cso) (walkPath s v v.root csn)).touched :=
  frame_link_posix s root v hwf hvr cso csn hnen hallo hdotso halln hdotsn hin

/-- the two parents and the replaced node (`RenameRef.move opar npar node replaced`); `hcorner`: the corners in which
    MemFS answers EEXIST where rename(2) does not (C01) — there nothing changes either (`C05_frame_rename`) -/
theorem C05_frame_rename_posix (s : Store) (root : Ino) (v : View) (hwf : WF s root)
    (hvr : ∃ m ch, s.get v.root = some (.dir m ch)) (cso csn : List Bytes) (hneo : cso ≠ []) (hnen : csn ≠ [])
    (hallo : ∀ c ∈ cso, c ≠ [] ∧ ∀ x ∈ c, x ≠ SL) (hdotso : ∀ c ∈ cso, c ≠ [DOT] ∧ c ≠ [DOT, DOT])
    (halln : ∀ c ∈ csn, c ≠ [] ∧ ∀ x ∈ c, x ≠ SL) (hdotsn : ∀ c ∈ csn, c ≠ [DOT] ∧ c ≠ [DOT, DOT])
    (hcorner : renameCorner s (walkPath s v v.root cso) (walkPath s v v.root csn)
      (posixRename s v (decide (cso = csn)) (cso.isPrefixOf csn && cso != csn)
        (walkPath s v v.root cso) (walkPath s v v.root csn)) = false)
    (hin : posixRename s v (decide (cso = csn)) (cso.isPrefixOf csn && cso != csn)
        (walkPath s v v.root cso) (walkPath s v v.root csn) ≠ .outside) :
    Frame s (rename s v (SL :: joinWith SL cso) (SL :: joinWith SL csn)).1
      (posixRename s v (decide (cso = csn)) (cso.isPrefixOf csn && cso != csn)
        (walkPath s v v.root cso) (walkPath s v v.root csn)).touched :=
  frame_rename_posix s root v hwf hvr cso csn hneo hnen hallo hdotso halln hdotsn hcorner hin

/-! ### non-vacuity, on the heap `pxStore` of Lemmas/Posix.lean

  / 0, /home 1, /root 2, /tmp 3 (0777), /a 4, /a/b 5, /a/f 6, /tmp/d 7, /tmp/d/e 8, /tmp/g 9; next inode 10.
  `exView`: the user 1000; `px2Adm`: the administrator. -/

/-- Mkdir("/tmp/x") by the user succeeds; the touched list is [/tmp, the new inode 10]; both DO change (the list is
    not too large), every other inode is bound as before, and the other entries of /tmp are the same -/
theorem C05_frame_mkdir_example :
    (mkdir pxStore exView [SL, 116, 109, 112, SL, 120] 0o755).2 = .ok .unit ∧
    Frame pxStore (mkdir pxStore exView [SL, 116, 109, 112, SL, 120] 0o755).1 [3, 10] ∧
    (mkdir pxStore exView [SL, 116, 109, 112, SL, 120] 0o755).1.get 3 ≠ pxStore.get 3 ∧
    (mkdir pxStore exView [SL, 116, 109, 112, SL, 120] 0o755).1.get 10 ≠ pxStore.get 10 ∧
    (mkdir pxStore exView [SL, 116, 109, 112, SL, 120] 0o755).1.child 3 [103] = some 9 ∧
    (mkdir pxStore exView [SL, 116, 109, 112, SL, 120] 0o755).1.child 3 [120] = some 10 := by
  have h := frame_mkdir pxStore exView [SL, 116, 109, 112, SL, 120] 0o755
  have he := entries_mkdir pxStore exView [SL, 116, 109, 112, SL, 120] 0o755
  have e1 : (searchNode pxStore exView [SL, 116, 109, 112, SL, 120] .lstat).parent = 3 := by decide +kernel
  have e2 : pxStore.next = 10 := by decide +kernel
  have e3 : partOf (searchNode pxStore exView [SL, 116, 109, 112, SL, 120] .lstat).pi = [120] := by decide +kernel
  rw [e1, e2] at h
  refine ⟨by decide +kernel, h, by decide +kernel, by decide +kernel, ?_, by decide +kernel⟩
  -- the entry "g" of /tmp: from the entries frame, not by evaluation
  have hg : pxStore.child 3 [103] = some 9 := by decide +kernel
  rw [← hg]
  apply he
  simp only [newEntry, e1, e2, e3]
  decide

/-- Rename("/a/f", "/tmp/g") by the administrator replaces the file 9 by the file 6: the touched list is
    [/a, /tmp, 9]; the MOVED node 6 is not in it and is bound to the same node after the call -/
theorem C05_frame_rename_example :
    (rename pxStore px2Adm [SL, 97, SL, 102] [SL, 116, 109, 112, SL, 103]).2 = .ok .unit ∧
    Frame pxStore (rename pxStore px2Adm [SL, 97, SL, 102] [SL, 116, 109, 112, SL, 103]).1 [4, 3, 9] ∧
    (rename pxStore px2Adm [SL, 97, SL, 102] [SL, 116, 109, 112, SL, 103]).1.get 6 = pxStore.get 6 ∧
    (rename pxStore px2Adm [SL, 97, SL, 102] [SL, 116, 109, 112, SL, 103]).1.child 3 [103] = some 6 ∧
    (rename pxStore px2Adm [SL, 97, SL, 102] [SL, 116, 109, 112, SL, 103]).1.get 9 ≠ pxStore.get 9 := by
  have h := frame_rename pxStore px2Adm [SL, 97, SL, 102] [SL, 116, 109, 112, SL, 103]
  have e1 : (searchNode pxStore px2Adm [SL, 97, SL, 102] .lstat).parent = 4 := by decide +kernel
  have e2 : (searchNode pxStore px2Adm [SL, 116, 109, 112, SL, 103] .lstat).parent = 3 := by decide +kernel
  have e3 : (searchNode pxStore px2Adm [SL, 116, 109, 112, SL, 103] .lstat).child = some 9 := by decide +kernel
  rw [e1, e2, e3] at h
  exact ⟨by decide +kernel, h, h.others 6 (by decide), by decide +kernel, by decide +kernel⟩

/-- RemoveAll("/tmp/d") by the administrator on `rmStore` (Lemmas/Posix3.lean: `pxStore` after Link("/a/f",
    "/tmp/d/k"), so the file 6 has a name inside the tree and one outside): the call names /tmp (3) and what is at or
    below inode 7: {7, 8, 6}. Every other inode — the sibling "/tmp/g" (9), the directory /a (4) holding the other
    name of the file 6 — is bound as before; the file 6 IS touched (one link less). -/
theorem C05_frame_removeAll_example :
    removeAll rmStore px2Adm [SL, 116, 109, 112, SL, 100] = (rmResult, .ok .unit) ∧
    (∀ i, i ∉ [3, 7, 8, 6] → rmResult.get i = rmStore.get i) ∧
    rmResult.get 6 ≠ rmStore.get 6 ∧ rmResult.child 3 [103] = some 9 ∧ rmResult.child 3 [100] = none := by
  have h := frame_removeAll rmStore px2Adm [SL, 116, 109, 112, SL, 100]
  rw [rmStore_removeAll] at h
  have e1 : (searchNode rmStore px2Adm [SL, 116, 109, 112, SL, 100] .lstat).parent = 3 := by decide +kernel
  have e2 : (searchNode rmStore px2Adm [SL, 116, 109, 112, SL, 100] .lstat).child = some 7 := by decide +kernel
  have hcl : ∀ x, Desc rmStore 7 x → x ∈ [7, 8, 6] :=
    desc_subset_of_closed [7, 8, 6] (by decide) (by decide +kernel)
  refine ⟨rmStore_removeAll, ?_, by decide +kernel, by decide +kernel, by decide +kernel⟩
  intro i hi
  apply h.others i
  rw [e1, e2]
  rintro (rfl | ⟨c, hc, hd⟩)
  · exact hi (by decide)
  · cases hc
    have := hcl i hd
    simp only [List.mem_cons, List.not_mem_nil, or_false] at this hi
    rcases this with rfl | rfl | rfl <;> simp at hi

/-- the reference form: Remove("/tmp/g") by the user, resolved component-wise: touched [/tmp, 9] -/
example : Frame pxStore (remove pxStore exView [SL, 116, 109, 112, SL, 103]).1 [3, 9] := by
  have h := C05_frame_remove_posix pxStore 0 exView pxStore_wf.1 (get_of_isDirAt pxStore_wf.1.rootDir) [cTmp, [103]]
    (by decide) (by decide) (by simp) (by decide +kernel)
  have hr : posixRemove pxStore exView (walkPath pxStore exView 0 [cTmp, [103]]) = .unlink 3 9 := by decide +kernel
  rw [show exView.root = 0 from rfl, hr] at h
  exact h

/-- a failing call touches nothing: Remove("/a/f") by the user (EACCES) -/
example : Frame pxStore (remove pxStore exView [SL, 97, SL, 102]).1 [] := by
  have h := C05_frame_remove_posix pxStore 0 exView pxStore_wf.1 (get_of_isDirAt pxStore_wf.1.rootDir) [cA, [102]]
    (by decide) (by decide) (by simp) (by decide +kernel)
  have hr : posixRemove pxStore exView (walkPath pxStore exView 0 [cA, [102]]) = .fail .EACCES := by decide +kernel
  rw [show exView.root = 0 from rfl, hr] at h
  exact h

/-- through `step`: Chmod("/tmp/d", 0700) by the administrator of the state holding `pxStore` names inode 7 only -/
example : ∀ i, i ≠ 7 →
    (step { initState with store := pxStore } 0 (.chmod [SL, 116, 109, 112, SL, 100] 0o700)).1.store.get i =
      pxStore.get i := by
  intro i hi
  have h := C05_frame_step { initState with store := pxStore } 0 (.chmod [SL, 116, 109, 112, SL, 100] 0o700)
  apply h.others i
  have hv : ({ initState with store := pxStore } : FSState).view 0 = some px2Adm := by decide +kernel
  have e : (searchNode pxStore px2Adm [SL, 116, 109, 112, SL, 100] .eval).child = some 7 := by decide +kernel
  simp only [touches, hv, callTouches, e, Option.toList, List.mem_singleton]
  exact hi

end Avfs.FS
