import Avfs.Lemmas.Idm
import Avfs.Conc.Theorems
import Avfs.Conc.Facts
import Avfs.Generated.Locks
set_option linter.unusedSimpArgs false
/-
  C15 — the in-memory identity manager stays consistent.
  Property theorems only; helper lemmas live in Avfs/Lemmas/Idm.lean.
  Subject: `Avfs.Idm.step` (transliteration of idm/memidm/memidm.go), tied to /repo by the
  correspondence run `corr idm` (impl ≟ model on generated histories).
-/
namespace Avfs.Idm

/-- every state reachable from `New()` by any history -/
def Reachable (an gn : Bytes) (s : State) : Prop := ∃ ops, s = (run (init an gn) ops).1

/-- C15 (a): lookup by name and lookup by id agree, in every reachable state. -/
theorem C15_lookups_agree (an gn : Bytes) (s : State) (h : Reachable an gn s) :
    (∀ n g, (step s (.lookupGroup n)).2 = .grp g ↔ ((step s (.lookupGroupId g.gid)).2 = .grp g ∧ g.name = n)) ∧
    (∀ n u, (step s (.lookupUser n)).2 = .usr u ↔ ((step s (.lookupUserId u.uid)).2 = .usr u ∧ u.name = n)) := by
  obtain ⟨ops, rfl⟩ := h
  have hi : Inv (run (init an gn) ops).1 := by
    rw [run_fst_eq_final]; exact inv_final _ _ (inv_init an gn)
  generalize (run (init an gn) ops).1 = s at hi
  constructor
  · intro n g
    simp only [step]
    constructor
    · intro h
      split at h
      · cases h
      · rename_i g' hg; cases h
        have := hi.g1 n g hg
        rw [this.2]; exact ⟨rfl, this.1⟩
    · intro ⟨h, hn⟩
      split at h
      · cases h
      · rename_i g' hg; cases h
        have := hi.g2 _ _ hg
        rw [← hn, this.2]
  · intro n u
    simp only [step]
    constructor
    · intro h
      split at h
      · cases h
      · rename_i u' hu; cases h
        have := hi.u1 n u hu
        rw [this.2]; exact ⟨rfl, this.1⟩
    · intro ⟨h, hn⟩
      split at h
      · cases h
      · rename_i u' hu; cases h
        have := hi.u2 _ _ hu
        rw [← hn, this.2]

/-- C15 (b): every history behaves exactly as the two-map reference (same outputs call by call):
    lookups return exactly what was added and not yet deleted, duplicates and unknown names fail with
    the typed errors, AddUser fails for an unknown group, ids come from monotone counters. -/
theorem C15_refines_spec (an gn : Bytes) (ops : List Op) :
    (run (init an gn) ops).2 = (Spec.run (Spec.init an gn) ops).2 :=
  (r_run _ _ ops (inv_init an gn) (specInv_init an gn) (r_init an gn)).1

/-- C15 (c): an id is never reassigned to a different group / user: any two results of one
    history (from Add* or Lookup*, before or after deletions) with the same id are the same entity. -/
theorem C15_id_never_reused (an gn : Bytes) (ops : List Op) :
    (∀ g g', Out.grp g ∈ (run (init an gn) ops).2 → Out.grp g' ∈ (run (init an gn) ops).2 →
        g.gid = g'.gid → g = g') ∧
    (∀ u u', Out.usr u ∈ (run (init an gn) ops).2 → Out.usr u' ∈ (run (init an gn) ops).2 →
        u.uid = u'.uid → u = u') := by
  obtain ⟨HG, HU, hl, _, _, hg, hu⟩ := log_run _ ops _ _ (log_init an gn)
  exact ⟨fun g g' h1 h2 e => hl.gfun g (hg g h1) g' (hg g' h2) e,
         fun u u' h1 h2 e => hl.ufun u (hu u h1) u' (hu u' h2) e⟩

/-- C15 (d): the administrator user and group (id 0) exist from the start. -/
theorem C15_admin_exists (an gn : Bytes) :
    (step (init an gn) (.lookupUserId 0)).2 = .usr { name := an, uid := 0, gid := 0 } ∧
    (step (init an gn) (.lookupGroupId 0)).2 = .grp { name := gn, gid := 0 } ∧
    (step (init an gn) (.lookupUser an)).2 = .usr { name := an, uid := 0, gid := 0 } ∧
    (step (init an gn) (.lookupGroup gn)).2 = .grp { name := gn, gid := 0 } := by
  simp [step, init, AL.lookup]

/-- C15 (e): a user is an administrator exactly when it is that user (uid 0), in every state. -/
theorem C15_admin_iff (s : State) (n : Bytes) (u : Usr) (h : (step s (.lookupUser n)).2 = .usr u) :
    (step s (.isAdmin n)).2 = .bool (decide (u.uid = 0)) := by
  simp only [step] at *
  split at h
  · cases h
  · rename_i u' hu; cases h; simp [isAdminImpl]; rfl

/-- C15 (f): AddUser fails for an unknown group, leaving the state unchanged. -/
theorem C15_addUser_unknown_group (s : State) (n g : Bytes)
    (h : (step s (.lookupGroup g)).2 = .err .unknownGroup) :
    step s (.addUser n g) = (s, .err .unknownGroup) := by
  simp only [step, lookupGroup] at *
  split at h
  · rename_i hg; simp [hg]
  · cases h

/-- C15 (g): a failed call leaves the state unchanged. -/
theorem C15_failed_unchanged (s : State) (op : Op) (e : Err) (h : (step s op).2 = .err e) :
    (step s op).1 = s := by
  cases op <;> simp only [step] at * <;> (repeat' split at h) <;> first | rfl | cases h

/-! Non-vacuity: a concrete non-trivial history (add, delete, re-add the same name) meets the
    statements above with distinct ids. These are tests, labelled as such. -/
section NonVacuity
def a : Bytes := [97]
def r : Bytes := [114]
example : (run (init r r) [.addGroup a, .delGroup a, .addGroup a, .lookupGroupId 1001, .lookupGroupId 1002]).2
    = [.grp ⟨a, 1001⟩, .unit, .grp ⟨a, 1002⟩, .err .unknownGroupId, .grp ⟨a, 1002⟩] := by decide
example : (run (init r r) [.addUser a r, .isAdmin a, .isAdmin r]).2
    = [.usr ⟨a, 1001, 0⟩, .bool false, .bool true] := by decide
example : Reachable r r (run (init r r) [.addGroup a]).1 := ⟨_, rfl⟩
end NonVacuity

end Avfs.Idm

/-! ### "any concurrent mix": each call is one critical section
  The theorems above are about sequential histories of `step`. They carry over to concurrent callers because every
  MemIdm method but AddUser touches the maps and counters inside ONE critical section — exclusive on its mutex for the
  mutators, shared for the lookups — so that (`C15_atomic_sections_serial`) a concurrent execution is the sequential
  execution of the sections in lock order. The section shape is re-decided on the lock facts regenerated from
  idm/memidm by harness/cmd/lockx on every run; the linearizability search `lin -fs memidm` looks for a failing
  concurrent program when it no longer holds. -/
namespace Avfs.Conc
open Avfs.Generated

theorem C15_atomic_sections_serial {T L X : Type} [DecidableEq T] [DecidableEq L] (L0 : L) (tr : List (Ev T L X))
    (hacc : ∀ (n : Nat) (h : n < tr.length) (t : T), (tr[n]).isAccessBy t → holdsAfter (tr.take n) t .w L0)
    (i k j : Nat) (hik : i < k) (hkj : k < j) (hj : j < tr.length) (t : T)
    (hai : tr[i].isAccessBy t) (haj : tr[j].isAccessBy t)
    (hnorel : ∀ (n : Nat) (h : n < tr.length), i < n → n < j → tr[n] ≠ .rel t .w L0)
    (t' : T) (htt : t' ≠ t) : ¬ tr[k].isAccessBy t' :=
  atomic_sections_serial L0 tr hacc i k j hik hkj hj t hai haj hnorel t' htt

theorem C15_single_section :
    ((["MemIdm.AddGroup", "MemIdm.DelGroup"].all fun f => singleSection lockFns lockFacts "memidm" f "idm#grpMu" true) &&
     (["MemIdm.DelUser"].all fun f => singleSection lockFns lockFacts "memidm" f "idm#usrMu" true) &&
     (["MemIdm.LookupGroup", "MemIdm.LookupGroupId"].all fun f => singleSection lockFns lockFacts "memidm" f "idm#grpMu" false) &&
     (["MemIdm.LookupUser", "MemIdm.LookupUserId"].all fun f => singleSection lockFns lockFacts "memidm" f "idm#usrMu" false)) = true := by
  decide +kernel

/-- AddUser is NOT one section (LookupGroup, then the user section): recorded finding — kernel-checked witness -/
theorem C15_addUser_two_sections :
    (singleSection lockFns lockFacts "memidm" "MemIdm.AddUser" "idm#usrMu" true ||
     singleSection lockFns lockFacts "memidm" "MemIdm.AddUser" "idm#grpMu" false) = false := by decide +kernel

end Avfs.Conc
