import Avfs.Lemmas.MatchSpec
set_option linter.unusedSimpArgs false
/-
  C13 — Match (filepath.Match as avfs re-implements it) equals a declarative glob semantics, for both OS types
  (`os` is an implicit argument of every theorem: Linux = separator '/', escape '\\'; Windows = separator '\\').
  Subject: `Avfs.Path.pmatch os` (Avfs/Path/Model.lean).  Specification: `Avfs.Path.MatchSpec`
  (`parse`, `Matches` / `matchItems`, `specMatch`), Avfs/Lemmas/MatchSpec.lean.
-/
namespace Avfs.Path
open MatchSpec

variable {os : OS}

/-- Match = the specification (`specMatch`: parse, then the declarative match; a malformed pattern is reported
    only when the matching reaches the malformed chunk), for every pattern and name satisfying `Safe`. -/
theorem C13_match_eq_spec (os : OS) (pat name : Bytes) (hs : Safe os (parsePat os pat).1 name) :
    pmatch os pat name = specMatch os pat name := pmatch_eq_specMatch pat name hs

/-- the same as an equivalence (the statement `pmatch_eq_spec` of the task) -/
theorem C13_match_ok_iff (os : OS) (pat name : Bytes) (hs : Safe os (parsePat os pat).1 name) (b : Bool) :
    pmatch os pat name = .ok b ↔
      (∃ items, parse os pat = some items ∧ b = matchItems os items name) ∨
      (parse os pat = none ∧ b = false ∧ matchPrefix os (goodPrefix (parsePat os pat).1) name = false) :=
  pmatch_eq_spec pat name hs b

theorem C13_match_bad_iff (os : OS) (pat name : Bytes) (hs : Safe os (parsePat os pat).1 name) :
    pmatch os pat name = .badPattern ↔
      parse os pat = none ∧ matchPrefix os (goodPrefix (parsePat os pat).1) name = true :=
  pmatch_bad_iff pat name hs

/-- well-formed pattern: Match says `true` exactly when the items match the name (declarative relation) -/
theorem C13_match_true_iff (os : OS) (pat name : Bytes) (items : List Item) (hp : parse os pat = some items)
    (hs : Safe os items name) : pmatch os pat name = .ok true ↔ Matches os items name :=
  pmatch_true_iff pat name items hp hs

/-- no hypothesis at all: a `true` answer is always justified by the declarative semantics … -/
theorem C13_match_true_sound (os : OS) (pat name : Bytes) (h : pmatch os pat name = .ok true) :
    ∃ items, parse os pat = some items ∧ Matches os items name := pmatch_true_sound pat name h

/-- … and so is ErrBadPattern; a well-formed pattern is never reported as bad. -/
theorem C13_match_bad_sound (os : OS) (pat name : Bytes) (h : pmatch os pat name = .badPattern) :
    parse os pat = none ∧ MatchesPrefix os (goodPrefix (parsePat os pat).1) name := pmatch_bad_sound pat name h

theorem C13_match_wf_not_bad (os : OS) (pat name : Bytes) (items : List Item) (hp : parse os pat = some items) :
    pmatch os pat name ≠ .badPattern := pmatch_wf_not_bad pat name items hp

/-! ### Corollaries -/

/-- a byte that is not a metacharacter -/
def plain (os : OS) (c : UInt8) : Prop := c ≠ STAR ∧ c ≠ QM ∧ c ≠ LB ∧ isEsc os c = false

instance (c : UInt8) : Decidable (plain os c) := by unfold plain; infer_instance

theorem parsePat_plain (p q : Bytes) (hp : ∀ c ∈ p, plain os c) :
    parsePat os (p ++ q) = (p.map Item.lit ++ (parsePat os q).1, (parsePat os q).2) := by
  induction p with
  | nil => simp
  | cons c p ih =>
    obtain ⟨h1, h2, h3, h4⟩ := hp c (by simp)
    rw [List.cons_append, parsePat_lit c _ h1 h2 h3 h4, ih (fun x hx => hp x (by simp [hx]))]
    simp

theorem midLit_lits (p : Bytes) (l : List Item) : midLit (p.map Item.lit ++ l) = midLit l := by
  induction p with
  | nil => rfl
  | cons c p ih => simpa [midLit] using ih

theorem aftLit_lits (p : Bytes) (l : List Item) : aftLit (p.map Item.lit ++ l) = aftLit l := by
  induction p with
  | nil => rfl
  | cons c p ih => simpa [aftLit] using ih

theorem matchK_lits (fin : Bytes → Bool) (p : Bytes) (R : List Item) (s : Bytes) :
    matchK os fin (p.map Item.lit ++ R) s = true ↔ ∃ s', s = p ++ s' ∧ matchK os fin R s' = true := by
  induction p generalizing s with
  | nil => simp
  | cons c p ih =>
    rw [List.map_cons, List.cons_append, matchK_cons_nostar _ _ _ _ rfl]
    cases s with
    | nil => simp [Item.step]
    | cons a s =>
      simp only [Item.step]
      by_cases h : a = c
      · subst h
        simp only [beq_self_eq_true, if_true, List.cons_append, List.cons.injEq, true_and]
        exact ih s
      · have : (a == c) = false := by simp [h]
        simp only [this, Bool.false_eq_true, if_false, List.cons_append, List.cons.injEq, h, false_and,
          exists_false]

theorem not_contains_iff (s : Bytes) : (!s.contains (pathSep os)) = true ↔ (pathSep os) ∉ s := by simp

/-- `*` (one or more) matches exactly the names without '/' -/
theorem C13_match_star_only (os : OS) (k : Nat) (name : Bytes) :
    pmatch os (List.replicate (k + 1) STAR) name = .ok (!name.contains (pathSep os)) := by
  have hpp : parsePat os (List.replicate (k + 1) STAR) = (List.replicate (k + 1) Item.star, true) := by
    induction k with
    | zero => rfl
    | succ k ih => rw [List.replicate_succ, parsePat_star, ih]; rfl
  have hsafe : Safe os (parsePat os (List.replicate (k + 1) STAR)).1 name := by
    left
    rw [hpp]
    have := aftLit_stars k []
    rw [List.append_nil] at this
    rw [List.replicate_succ]
    simp only [midLit]
    rw [this]; rfl
  rw [pmatch_eq_specMatch _ _ hsafe]
  unfold specMatch
  rw [hpp]
  simp only [if_true, matchItems]
  have := matchK_stars (os := os) List.isEmpty k [] name
  rw [List.append_nil] at this
  rw [this]
  have e : matchK os List.isEmpty [] = List.isEmpty := rfl
  rw [e, starAny_isEmpty]

theorem C13_match_star (os : OS) (name : Bytes) : pmatch os [STAR] name = .ok true ↔ (pathSep os) ∉ name := by
  have := C13_match_star_only (os := os) 0 name
  rw [show List.replicate (0 + 1) STAR = [STAR] from rfl] at this
  rw [this, ← not_contains_iff]
  constructor
  · intro h; injection h
  · intro h; rw [h]

/-- a pattern without metacharacters matches exactly itself -/
theorem C13_match_literal (os : OS) (pat name : Bytes) (hp : ∀ c ∈ pat, plain os c) :
    pmatch os pat name = .ok (decide (name = pat)) := by
  have hpp : parsePat os pat = (pat.map Item.lit, true) := by
    have := parsePat_plain pat [] hp
    simpa [parsePat_nil] using this
  have hparse : parse os pat = some (pat.map Item.lit) := (parse_some_iff _ _).mpr (by rw [hpp]; exact ⟨rfl, rfl⟩)
  have hsafe : Safe os (pat.map Item.lit) name := by
    left
    have := midLit_lits pat []
    rw [List.append_nil] at this
    rw [this]; rfl
  rw [pmatch_wf pat name _ hparse hsafe]
  congr 1
  apply Bool.eq_iff_iff.mpr
  have := matchK_lits (os := os) List.isEmpty pat [] name
  rw [List.append_nil] at this
  unfold matchItems
  rw [this]
  simp only [decide_eq_true_eq]
  constructor
  · rintro ⟨s', e, h⟩
    have : s' = [] := by simpa [matchK] using h
    subst this; simpa using e
  · intro e; exact ⟨[], by simp [e], rfl⟩

/-- `p*` (p without metacharacters) matches exactly the names p ++ r with no '/' in r -/
theorem C13_match_prefix_star (os : OS) (p name : Bytes) (hp : ∀ c ∈ p, plain os c) :
    pmatch os (p ++ [STAR]) name = .ok true ↔ ∃ r, name = p ++ r ∧ (pathSep os) ∉ r := by
  have hpp : parsePat os (p ++ [STAR]) = (p.map Item.lit ++ [Item.star], true) := by
    rw [parsePat_plain p [STAR] hp]; rfl
  have hparse : parse os (p ++ [STAR]) = some (p.map Item.lit ++ [Item.star]) :=
    (parse_some_iff _ _).mpr (by rw [hpp]; exact ⟨rfl, rfl⟩)
  have hsafe : Safe os (p.map Item.lit ++ [Item.star]) name := by
    left; rw [midLit_lits]; rfl
  rw [pmatch_wf _ name _ hparse hsafe]
  have h1 : (MOut.ok (matchItems os (p.map Item.lit ++ [Item.star]) name) = MOut.ok true) ↔
      matchItems os (p.map Item.lit ++ [Item.star]) name = true := by
    constructor
    · intro h; injection h
    · intro h; rw [h]
  rw [h1]
  unfold matchItems
  rw [matchK_lits]
  have e : ∀ s', matchK os List.isEmpty [Item.star] s' = !s'.contains (pathSep os) := by
    intro s'
    rw [matchK_star]
    have e : matchK os List.isEmpty [] = List.isEmpty := rfl
    rw [e, starAny_isEmpty]
  simp only [e, not_contains_iff]

/-- `*p` (p without metacharacters, e.g. `*.txt`) matches exactly the names r ++ p with no '/' in r -/
theorem C13_match_star_suffix (os : OS) (p name : Bytes) (hp : ∀ c ∈ p, plain os c) :
    pmatch os (STAR :: p) name = .ok true ↔ ∃ r, name = r ++ p ∧ (pathSep os) ∉ r := by
  have hpp0 : parsePat os p = (p.map Item.lit, true) := by
    have := parsePat_plain p [] hp
    simpa [parsePat_nil] using this
  have hpp : parsePat os (STAR :: p) = (Item.star :: p.map Item.lit, true) := by
    rw [parsePat_star, hpp0]
  have hparse : parse os (STAR :: p) = some (Item.star :: p.map Item.lit) :=
    (parse_some_iff _ _).mpr (by rw [hpp]; exact ⟨rfl, rfl⟩)
  have hsafe : Safe os (Item.star :: p.map Item.lit) name := by
    left
    simp only [midLit]
    have := aftLit_lits p []
    rw [List.append_nil] at this
    rw [this]; rfl
  rw [pmatch_wf _ name _ hparse hsafe]
  have h1 : (MOut.ok (matchItems os (Item.star :: p.map Item.lit) name) = MOut.ok true) ↔
      matchItems os (Item.star :: p.map Item.lit) name = true := by
    constructor
    · intro h; injection h
    · intro h; rw [h]
  rw [h1]
  unfold matchItems
  rw [matchK_star, starAny_iff]
  have e : ∀ s', matchK os List.isEmpty (p.map Item.lit) s' = true ↔ s' = p := by
    intro s'
    have := matchK_lits (os := os) List.isEmpty p [] s'
    rw [List.append_nil] at this
    rw [this]
    constructor
    · rintro ⟨s'', e, h⟩
      have : s'' = [] := by simpa [matchK] using h
      subst this; simpa using e
    · intro e; exact ⟨[], by simp [e], rfl⟩
  constructor
  · rintro ⟨g, s', e1, hg, hf⟩
    rw [e] at hf
    subst hf
    exact ⟨g, e1, fun hm => hg _ hm rfl⟩
  · rintro ⟨r, e1, hr⟩
    exact ⟨r, p, e1, fun c hc e2 => hr (e2 ▸ hc), (e p).mpr rfl⟩

/-- if no item can match '/', the matched part of the name contains no '/' -/
theorem nosep_of_matches {items : List Item} {s v : Bytes} (h : MatchesRem os items s v)
    (hno : ∀ it ∈ items, it ≠ Item.lit (pathSep os) ∧ acceptsSep os it = false) (hv : (pathSep os) ∉ v) : (pathSep os) ∉ s := by
  induction h with
  | nil v => exact hv
  | star u s v is hu _ ih =>
    have := ih (fun it hit => hno it (by simp [hit])) hv
    intro hm
    rw [List.mem_append] at hm
    rcases hm with hm | hm
    · exact hu _ hm rfl
    · exact this hm
  | any c s1 v is hc _ ih =>
    have := ih (fun it hit => hno it (by simp [hit])) hv
    intro hm
    rw [← List.take_append_drop (decodeRune (c :: s1)).2 (c :: s1), List.mem_append] at hm
    rcases hm with hm | hm
    · exact rune_bytes_nosep c s1 hc _ hm rfl
    · exact this hm
  | lit b s v is _ ih =>
    have := ih (fun it hit => hno it (by simp [hit])) hv
    intro hm
    rw [List.mem_cons] at hm
    rcases hm with hm | hm
    · have := (hno (Item.lit b) (by simp)).1
      exact this (by rw [hm])
    · exact this hm
  | cls neg rs c s1 v is hcond _ ih =>
    have := ih (fun it hit => hno it (by simp [hit])) hv
    have hc : c ≠ (pathSep os) := by
      intro e; subst e
      rw [decodeRune_ascii (pathSep os) s1 (by cases os <;> decide)] at hcond
      have hacc := (hno (Item.cls neg rs) (by simp)).2
      simp only [acceptsSep] at hacc
      rw [← inRanges_iff] at hcond
      cases hin : inRanges rs (pathSep os).toNat <;> cases neg <;> simp [hin] at hacc hcond
    intro hm
    rw [← List.take_append_drop (decodeRune (c :: s1)).2 (c :: s1), List.mem_append] at hm
    rcases hm with hm | hm
    · exact rune_bytes_nosep c s1 hc _ hm rfl
    · exact this hm

/-- a name containing '/' never matches a pattern none of whose items can match '/'
    (no literal '/', no class that accepts '/') — whatever the name (no `Safe` needed) -/
theorem C13_match_sep (os : OS) (pat name : Bytes) (items : List Item) (hp : parse os pat = some items)
    (hno : ∀ it ∈ items, it ≠ Item.lit (pathSep os) ∧ acceptsSep os it = false)
    (h : pmatch os pat name = .ok true) : (pathSep os) ∉ name := by
  obtain ⟨items', hp', hm⟩ := pmatch_true_sound pat name h
  rw [hp] at hp'; injection hp' with hp'; subst hp'
  exact nosep_of_matches hm hno (by simp)

theorem parsePat_items_nobracket : ∀ (n : Nat) (pat : Bytes), pat.length ≤ n →
    (∀ c ∈ pat, c ≠ (pathSep os) ∧ c ≠ LB) →
    ∀ it ∈ (parsePat os pat).1, it ≠ Item.lit (pathSep os) ∧ acceptsSep os it = false := by
  intro n
  induction n with
  | zero =>
    intro pat hl _
    have : pat = [] := List.length_eq_zero_iff.mp (by omega)
    subst this; simp [parsePat_nil]
  | succ n ih =>
    intro pat hl hc
    cases pat with
    | nil => simp [parsePat_nil]
    | cons c rest =>
      simp only [List.length_cons] at hl
      have hrest : ∀ x ∈ rest, x ≠ (pathSep os) ∧ x ≠ LB := fun x hx => hc x (by simp [hx])
      have ihr := ih rest (by omega) hrest
      by_cases h1 : c = STAR
      · subst h1
        rw [parsePat_star]
        intro it hit
        simp only [List.mem_cons] at hit
        rcases hit with rfl | hit
        · exact ⟨by simp, rfl⟩
        · exact ihr it hit
      by_cases h2 : c = QM
      · subst h2
        rw [parsePat_qm]
        intro it hit
        simp only [List.mem_cons] at hit
        rcases hit with rfl | hit
        · exact ⟨by simp, rfl⟩
        · exact ihr it hit
      have h3 : c ≠ LB := (hc c (by simp)).2
      by_cases h4 : isEsc os c = true
      · obtain ⟨hcb, hos⟩ := isEsc_true h4
        subst hcb hos
        cases rest with
        | nil => simp [parsePat_bs_nil]
        | cons l r' =>
          simp only [List.length_cons] at hl
          rw [parsePat_bs]
          intro it hit
          simp only [List.mem_cons] at hit
          rcases hit with rfl | hit
          · refine ⟨?_, rfl⟩
            intro e; injection e with e
            exact (hrest l (by simp)).1 e
          · exact ih r' (by omega) (fun x hx => hrest x (by simp [hx])) it hit
      have h4 : isEsc os c = false := by simpa using h4
      rw [parsePat_lit c rest h1 h2 h3 h4]
      intro it hit
      simp only [List.mem_cons] at hit
      rcases hit with rfl | hit
      · refine ⟨?_, rfl⟩
        intro e; injection e with e
        exact (hc c (by simp)).1 e
      · exact ihr it hit

/-- in particular: a pattern containing neither '/' nor '[' never matches a name containing '/' -/
theorem C13_match_sep_nobracket (os : OS) (pat name : Bytes) (hc : ∀ c ∈ pat, c ≠ (pathSep os) ∧ c ≠ LB)
    (h : pmatch os pat name = .ok true) : (pathSep os) ∉ name := by
  obtain ⟨items, hp, _⟩ := pmatch_true_sound pat name h
  refine C13_match_sep os pat name items hp ?_ h
  obtain ⟨_, h2⟩ := (parse_some_iff _ _).mp hp
  rw [← h2]
  exact parsePat_items_nobracket _ pat (Nat.le_refl _) hc

/-- … but a class can: the pattern `[^a]` contains no separator and matches the name "/" (as in Go) -/
theorem C13_match_class_sep_witness (os : OS) : pmatch os [LB, CARET, 97, RB] [pathSep os] = .ok true := by
  cases os
  · exact class_matches_sep
  · exact class_matches_sep_windows

/-- an ASCII name is narrow -/
theorem narrow_ascii (name : Bytes) (h : ∀ c ∈ name, c < 0x80) : narrow name = true := by
  induction name with
  | nil => rfl
  | cons c s ih =>
    simp only [narrow, Bool.and_eq_true, decide_eq_true_eq]
    refine ⟨?_, ih (fun x hx => h x (by simp [hx]))⟩
    rw [decodeRune_ascii c s (h c (by simp))]
    omega

/-- For EVERY pattern (well-formed or not) and every ASCII name without '/' (a path component):
    Match = the specification. -/
theorem C13_match_ascii_component (os : OS) (pat name : Bytes) (h1 : ∀ c ∈ name, c < 0x80) (h2 : (pathSep os) ∉ name) :
    pmatch os pat name = specMatch os pat name :=
  pmatch_eq_specMatch pat name (Or.inr ⟨narrow_ascii name h1, Or.inl h2⟩)

/-- For every pattern in which only literals stand between two stars (`*.go`, `a*b*c?`, `[a-z]*x*[0-9]` …)
    and EVERY name (any bytes, any '/'): Match = the specification. -/
theorem C13_match_midLit (os : OS) (pat name : Bytes) (h : midLit (parsePat os pat).1 = true) :
    pmatch os pat name = specMatch os pat name :=
  pmatch_eq_specMatch pat name (Or.inl h)

/-! ### Non-vacuity: concrete patterns and names (kernel-checked with `decide +kernel`) -/
section Examples

/-- `a*[b-c]?` -/
def patA : Bytes := [97, 42, 91, 98, 45, 99, 93, 63]
/-- "axxcé" (é = C3 A9) -/
def nameA : Bytes := [97, 120, 120, 99, 0xC3, 0xA9]

example : parse .linux patA = some [.lit 97, .star, .cls false [(98, 99)], .any] := by decide +kernel
example : Safe .linux (parsePat .linux patA).1 nameA := by decide +kernel
example : midLit (parsePat .linux patA).1 = true := by decide +kernel          -- `?` follows the last star
example : pmatch .linux patA nameA = .ok true := by decide +kernel
/-- the theorem applied: the hypotheses are met, the conclusion is the declarative relation -/
example : Matches .linux [.lit 97, .star, .cls false [(98, 99)], .any] nameA :=
  (C13_match_true_iff .linux patA nameA _ (by decide +kernel) (by decide +kernel)).mp (by decide +kernel)
/-- "axxc" does not match: `?` needs one more character -/
example : pmatch .linux patA [97, 120, 120, 99] = .ok false := by decide +kernel
example : ¬ Matches .linux [.lit 97, .star, .cls false [(98, 99)], .any] [97, 120, 120, 99] := by decide +kernel

/-- negated class `[^a-c]x`: "dx" matches, "bx" does not -/
def patN : Bytes := [91, 94, 97, 45, 99, 93, 120]
example : parse .linux patN = some [.cls true [(97, 99)], .lit 120] := by decide +kernel
example : pmatch .linux patN [100, 120] = .ok true ∧ pmatch .linux patN [98, 120] = .ok false := by decide +kernel
example : specMatch .linux patN [100, 120] = .ok true ∧ specMatch .linux patN [98, 120] = .ok false := by decide +kernel

/-- escape: `\*a` matches "*a" only -/
def patE : Bytes := [92, 42, 97]
example : parse .linux patE = some [.lit 42, .lit 97] := by decide +kernel
example : pmatch .linux patE [42, 97] = .ok true ∧ pmatch .linux patE [120, 97] = .ok false := by decide +kernel
example : pmatch .linux patE [42, 97] = .ok (decide (([42, 97] : Bytes) = [42, 97])) := by decide +kernel

/-- multi-byte class `[α-ω]` (CE B1 … CF 89) matches "λ" (CE BB) and not "a" -/
def patG : Bytes := [91, 0xCE, 0xB1, 45, 0xCF, 0x89, 93]
example : parse .linux patG = some [.cls false [(0x3B1, 0x3C9)]] := by decide +kernel
example : pmatch .linux patG [0xCE, 0xBB] = .ok true ∧ pmatch .linux patG [97] = .ok false := by decide +kernel
example : Safe .linux (parsePat .linux patG).1 [0xCE, 0xBB] := by decide +kernel

/-- `*?*b` against "éab": `?` between two stars — `Safe` holds through `narrow` (no 3- or 4-byte rune) -/
def patM : Bytes := [42, 63, 42, 98]
def nameM : Bytes := [0xC3, 0xA9, 97, 98]
example : midLit (parsePat .linux patM).1 = false ∧ narrow nameM = true ∧ Safe .linux (parsePat .linux patM).1 nameM := by
  decide +kernel
example : pmatch .linux patM nameM = .ok true :=
  (C13_match_eq_spec .linux patM nameM (by decide +kernel)).trans (by decide +kernel)

/-- `*.txt` against "日本.txt" (two 3-byte runes): not narrow, `Safe` holds because only literals follow the star -/
def patT : Bytes := [42, 46, 116, 120, 116]
def nameT : Bytes := [0xE6, 0x97, 0xA5, 0xE6, 0x9C, 0xAC, 46, 116, 120, 116]
example : narrow nameT = false ∧ Safe .linux (parsePat .linux patT).1 nameT := by decide +kernel
example : pmatch .linux patT nameT = .ok true :=
  (C13_match_star_suffix .linux [46, 116, 120, 116] nameT (by decide +kernel)).mpr
    ⟨[0xE6, 0x97, 0xA5, 0xE6, 0x9C, 0xAC], by decide +kernel, by decide +kernel⟩

/-- `*[^/]b` against "a/b": the name contains '/', `Safe` holds because the class does not accept '/' -/
def patS : Bytes := [42, 91, 94, 47, 93, 98]
example : Safe .linux (parsePat .linux patS).1 [97, 47, 98] ∧ midLit (parsePat .linux patS).1 = true := by decide +kernel
example : pmatch .linux patS [97, 47, 98] = .ok false ∧ pmatch .linux patS [97, 120, 98] = .ok true := by
  decide +kernel

/-- malformed pattern `a*[`: ErrBadPattern only when the matching reaches the `[` -/
def patB : Bytes := [97, 42, 91]
example : parse .linux patB = none ∧ parsePat .linux patB = ([.lit 97, .star], false) := by decide +kernel
example : pmatch .linux patB [98] = .ok false ∧ pmatch .linux patB [97, 98] = .badPattern := by decide +kernel
example : specMatch .linux patB [98] = .ok false ∧ specMatch .linux patB [97, 98] = .badPattern := by decide +kernel
/-- the characterisation applied: "ab" reaches the malformed chunk, "b" does not -/
example : pmatch .linux patB [97, 98] = .badPattern :=
  (C13_match_bad_iff .linux patB [97, 98] (by decide +kernel)).mpr (by decide +kernel)
/-- trailing backslash, unterminated / empty class, '-' at the wrong place: all malformed -/
example : parse .linux [97, 92] = none ∧ parse .linux [91, 97] = none ∧ parse .linux [91, 93] = none ∧ parse .linux [91, 45, 97, 93] = none ∧
    parse .linux [91, 97, 45, 93] = none ∧ parse .linux [91, 94, 93] = none := by decide +kernel
/-- a reversed range is not an error (it matches nothing), `]` is a literal outside a class -/
example : parse .linux [91, 99, 45, 97, 93] = some [.cls false [(99, 97)]] ∧ parse .linux [93] = some [.lit 93] := by
  decide +kernel

/-- Windows syntax: '\\' is the separator and a literal, not an escape.  `a\*` is [lit a, lit '\\', star] there
    (on Linux: [lit a, lit '*']); it matches "a\b", not "a\b\c"; `?` matches '/' but not '\\'. -/
def patW : Bytes := [97, 92, 42]
example : parse .windows patW = some [.lit 97, .lit 92, .star] ∧ parse .linux patW = some [.lit 97, .lit 42] := by
  decide +kernel
example : pmatch .windows patW [97, 92, 98] = .ok true ∧ pmatch .windows patW [97, 92, 98, 92, 99] = .ok false ∧
    pmatch .linux patW [97, 42] = .ok true ∧ pmatch .linux patW [97, 92, 98] = .ok false := by decide +kernel
example : pmatch .windows [63] [47] = .ok true ∧ pmatch .windows [63] [92] = .ok false ∧
    pmatch .linux [63] [47] = .ok false ∧ pmatch .linux [63] [92] = .ok true := by decide +kernel
example : pmatch .windows patW [97, 92, 98] = .ok true :=
  (C13_match_prefix_star .windows [97, 92] [97, 92, 98] (by decide +kernel)).mpr
    ⟨[98], by decide +kernel, by decide +kernel⟩

end Examples

end Avfs.Path
