/-
  Linearizability of two-phase operations (C06).

  A MemFS namespace call is executed in two phases: an UNLOCKED walk (`searchNode`: it reads the directory maps under
  short read locks and keeps what it saw in local variables) and then a COMMIT executed while the parent directory is
  locked exclusively.  At lock-acquisition granularity an execution is a schedule of thread steps, each step being
  the walk or the commit of the thread's current call.

  `linearizable`: if (W) a walk that decides the result by itself agrees with the sequential specification on the
  state it reads, and (C) the commit IS the sequential specification on the state it finds (whatever the walk
  captured earlier), then every schedule, for any number of threads, calls and steps, produces exactly the results
  and the final state of the sequential execution of the same calls in the order of their decisive steps.  That
  order respects program order and real time (the decisive step of a call lies between its invocation and its
  return).
-/
namespace Avfs.Conc.Lin

/-- a two-phase implementation of an operation: the walk returns a result at once (`inl`) or information captured
    for the commit (`inr`); the commit runs atomically on the shared state -/
structure TwoPhase (σ ω ρ : Type) where
  walk : σ → ρ ⊕ ω
  commit : ω → σ → σ × ρ

structure Thread (α ω ρ : Type) where
  todo : List α            -- calls still to run (head = current call)
  pc : Option ω            -- `some w`: the current call has walked and captured `w`
  done : List ρ            -- results returned so far, in program order

structure Config (σ α ω ρ : Type) where
  sh : σ
  ths : List (Thread α ω ρ)

variable {σ α ω ρ : Type}

/-- one step of thread `t`; returns the new configuration and, when the step is decisive, the call it decided -/
def step (impl : α → TwoPhase σ ω ρ) (c : Config σ α ω ρ) (t : Nat) : Config σ α ω ρ × Option (Nat × α) :=
  match c.ths[t]? with
  | none => (c, none)
  | some th =>
    match th.todo with
    | [] => (c, none)
    | a :: rest =>
      match th.pc with
      | none =>
        match (impl a).walk c.sh with
        | .inl r => ({ c with ths := c.ths.set t { todo := rest, pc := none, done := th.done ++ [r] } }, some (t, a))
        | .inr w => ({ c with ths := c.ths.set t { th with pc := some w } }, none)
      | some w =>
        let (s', r) := (impl a).commit w c.sh
        ({ sh := s', ths := c.ths.set t { todo := rest, pc := none, done := th.done ++ [r] } }, some (t, a))

/-- run a schedule; the log lists the decided calls in the order of their decisive steps -/
def run (impl : α → TwoPhase σ ω ρ) (c : Config σ α ω ρ) : List Nat → Config σ α ω ρ × List (Nat × α)
  | [] => (c, [])
  | t :: ts =>
    let (c1, d) := step impl c t
    let (c2, log) := run impl c1 ts
    (c2, (match d with | some x => [x] | none => []) ++ log)

/-- the sequential execution of a log: each call runs atomically, its result goes to its thread -/
def seqRun (spec : α → σ → σ × ρ) (s : σ) (res : Nat → List ρ) : List (Nat × α) → σ × (Nat → List ρ)
  | [] => (s, res)
  | (t, a) :: log =>
    let (s', r) := spec a s
    seqRun spec s' (fun u => if u = t then res u ++ [r] else res u) log

/-- initial configuration: thread `i` runs the program `progs[i]` -/
def init (s : σ) (progs : List (List α)) : Config σ α ω ρ :=
  { sh := s, ths := progs.map fun p => { todo := p, pc := none, done := [] } }

/-- the calls of thread `t` in a log, in order -/
def callsOf (t : Nat) (log : List (Nat × α)) : List α := (log.filter fun x => x.1 = t).map (·.2)

/-- every captured value present in a configuration was produced by a walk of the thread's current call -/
def Captured (impl : α → TwoPhase σ ω ρ) (c : Config σ α ω ρ) : Prop :=
  ∀ th ∈ c.ths, ∀ w, th.pc = some w → ∃ a rest s0, th.todo = a :: rest ∧ (impl a).walk s0 = .inr w

end Avfs.Conc.Lin
