import Avfs.Bytes
import Avfs.Conc.Lin
/-
  The two-phase model of MemFS.Mkdir, OpenFile(O_CREATE|O_EXCL) and Remove on leaf names of ONE directory that is itself
  never removed or renamed during the run (a "stable parent"), callers being administrators (no permission outcome).

  Shared state: the directory's children map, the link counts of the nodes (a file may have further names in other
  directories: its count starts above 1), the allocation counter.

  walk   = searchNode: one atomic look at `parent.children[name]` (under the read lock)
  commit = the part of the Go function that runs under `parent.mu.Lock()`

  `dimpl true`  — the commit looks the entry up again under the lock and works on what it finds (Mkdir, createFile, and
                  Remove since the repair);
  `dimpl false` — Remove as it was before the repair: it tested only `parent.children[part] == nil` and then released
                  the node captured by the walk, which may no longer be the node the name designates.
-/
namespace Avfs.Conc.Lin

structure Dir where
  entries : List (Bytes × (Nat × Bool))  -- name ↦ (node, isDir); names are entry names of the directory (byte strings)
  nlink : List (Nat × Int)               -- node ↦ link count
  next : Nat
  deriving DecidableEq, Repr

inductive DOp
  | mkdir (n : Bytes)
  | createExcl (n : Bytes)
  | remove (n : Bytes)
  deriving DecidableEq, Repr

inductive DRes | ok | eexist | enoent
  deriving DecidableEq, Repr

def Dir.create (d : Dir) (n : Bytes) (isDir : Bool) : Dir :=
  { entries := AL.insert n (d.next, isDir) d.entries, nlink := AL.insert d.next 1 d.nlink, next := d.next + 1 }

/-- node.delete(): one link less -/
def Dir.unlink (d : Dir) (n : Bytes) (i : Nat) : Dir :=
  { d with entries := AL.erase n d.entries, nlink := AL.insert i (((AL.lookup i d.nlink).getD 0) - 1) d.nlink }

/-- the sequential specification (what the call does when nothing else runs) -/
def dspec : DOp → Dir → Dir × DRes
  | .mkdir n, d => if (AL.lookup n d.entries).isSome then (d, .eexist) else (d.create n true, .ok)
  | .createExcl n, d => if (AL.lookup n d.entries).isSome then (d, .eexist) else (d.create n false, .ok)
  | .remove n, d =>
    match AL.lookup n d.entries with
    | none => (d, .enoent)
    | some (i, _) => (d.unlink n i, .ok)

/-- the Go functions: the walk decides at once when the name exists (creators) / does not exist (Remove), otherwise it
    hands the node it saw to the commit -/
def dimpl (fresh : Bool) : DOp → TwoPhase Dir (Option Nat) DRes
  | .mkdir n => { walk := fun d => if (AL.lookup n d.entries).isSome then .inl .eexist else .inr none,
                  commit := fun _ d => dspec (.mkdir n) d }
  | .createExcl n => { walk := fun d => if (AL.lookup n d.entries).isSome then .inl .eexist else .inr none,
                       commit := fun _ d => dspec (.createExcl n) d }
  | .remove n => { walk := fun d => match AL.lookup n d.entries with | none => .inl .enoent | some (i, _) => .inr (some i),
                   commit := fun w d =>
                     if fresh then dspec (.remove n) d
                     else match AL.lookup n d.entries, w with
                       | none, _ => (d, .enoent)
                       | some _, some i => (d.unlink n i, .ok)       -- releases the node seen by the walk
                       | some (i, _), none => (d.unlink n i, .ok) }

/-- all interleavings of two programs (program order kept), tagged with the thread -/
def interleave2 : List DOp → List DOp → List (List (Nat × DOp))
  | [], q => [q.map fun a => (1, a)]
  | p, [] => [p.map fun a => (0, a)]
  | a :: p, b :: q =>
    (interleave2 p (b :: q)).map ((0, a) :: ·) ++ (interleave2 (a :: p) q).map ((1, b) :: ·)

end Avfs.Conc.Lin
