import Avfs.Conc.Facts
/-
  Committed expectations about the lock facts of the CURRENT source: the undisciplined access sites that are recorded
  findings (known_findings.jsonl, property C08) and the nested lock acquisitions with the reason the two locks are
  different objects (C07). A site that is not listed here makes the obligations of Props/C07.lean / C08.lean fail.
-/
namespace Avfs.Conc

/-- (package, function, object whose lock is not held, mutex, write?) — recorded findings, see the ledger -/
def allowedViolations : List (String × String × String × String × Bool) := [
  -- K5: MemFS reads a symbolic link's target without the node lock (delete() writes it)
  ("memfs", "MemFS.Readlink", "child", "mu", false),
  ("memfs", "MemFS.searchNode", "child", "mu", false),
  -- K4: MemFS releases children without their lock (Rename: nc.delete(); removeAll/RemoveAll: child.delete(), len(c.children))
  ("memfs", "MemFS.RemoveAll", "child", "mu", false),
  ("memfs", "MemFS.RemoveAll", "child", "mu", true),
  ("memfs", "MemFS.Rename", "nChild", "mu", true),
  ("memfs", "MemFS.removeAll", "child", "mu", true),
  -- K1: OrefaFS reads node.mode (IsDir) / children without the node lock
  ("orefafs", "OrefaFS.Chdir", "nd", "mu", false),
  -- (Link looks at the kinds of the old node and of the new parent BEFORE locking them: that is what keeps it from
  -- locking one node twice)
  ("orefafs", "OrefaFS.Link", "nParent", "mu", false),
  ("orefafs", "OrefaFS.Link", "oChild", "mu", false),
  ("orefafs", "OrefaFS.Mkdir", "parent", "mu", false),
  ("orefafs", "OrefaFS.MkdirAll", "child", "mu", false),
  ("orefafs", "OrefaFS.MkdirAll", "nd", "mu", false),
  ("orefafs", "OrefaFS.OpenFile", "parent", "mu", false),
  ("orefafs", "OrefaFS.OpenFile", "child", "mu", false),
  ("orefafs", "OrefaFS.RemoveAll", "child", "mu", false),
  ("orefafs", "OrefaFS.RemoveAll", "child", "mu", true),
  ("orefafs", "OrefaFS.RemoveAll", "parent", "mu", true),
  ("orefafs", "OrefaFS.Rename", "oChild", "mu", false),
  ("orefafs", "OrefaFS.Rename", "nChild", "mu", false),
  ("orefafs", "OrefaFS.Rename", "nParent", "mu", false),
  ("orefafs", "OrefaFS.Truncate", "child", "mu", false),
  ("orefafs", "OrefaFS.removeAll", "nd", "mu", false),
  ("orefafs", "OrefaFS.removeAll", "nd", "mu", true),
  ("orefafs", "OrefaFS.stat", "parent", "mu", false),
  -- K2: OrefaFile mutates the handle (offset, directory cache) under the handle's READ lock
  ("orefafs", "OrefaFile.Read", "f", "mu", true),
  ("orefafs", "OrefaFile.ReadDir", "f", "mu", true),
  ("orefafs", "OrefaFile.Readdirnames", "f", "mu", true),
  ("orefafs", "OrefaFile.Write", "f", "mu", true),
  ("orefafs", "OrefaFile.WriteString", "f", "mu", true),
  -- K3: OrefaFile reads node.mode without the node lock; Chmod / Chown write node fields without it
  ("orefafs", "OrefaFile.Chdir", "f.nd", "mu", false),
  ("orefafs", "OrefaFile.Read", "f.nd", "mu", false),
  ("orefafs", "OrefaFile.ReadAt", "f.nd", "mu", false),
  ("orefafs", "OrefaFile.ReadDir", "f.nd", "mu", false),
  ("orefafs", "OrefaFile.Readdirnames", "f.nd", "mu", false),
  ("orefafs", "OrefaFile.Seek", "f.nd", "mu", false),
  ("orefafs", "OrefaFile.Truncate", "f.nd", "mu", false),
  ("orefafs", "OrefaFile.Write", "f.nd", "mu", false),
  ("orefafs", "OrefaFile.WriteAt", "f.nd", "mu", false),
  ("orefafs", "OrefaFile.WriteString", "f.nd", "mu", false),
  ("orefafs", "OrefaFile.Chmod", "f.nd", "mu", true),
  ("orefafs", "OrefaFile.Chown", "f.nd", "mu", true)]

/-- nested acquisitions (package, function, lock wanted, locks held) and why the wanted lock is not one of the held -/
def expectedNested : List (String × String × String × List String) := [
  -- a regular file (the source must be a *fileNode, tested right after) is never the directory being linked into
  ("memfs", "MemFS.Link", "oChild#mu", ["nParent#mu:w"]),
  -- Remove returns before locking when child == parent (the root of the view); otherwise child is an entry of parent
  ("memfs", "MemFS.Remove", "child#mu", ["parent#mu:w"]),
  -- RemoveAll returns before locking when child == parent (the root of the view); otherwise child is an entry of parent
  ("memfs", "MemFS.RemoveAll", "child#mu", ["parent#mu:w"]),
  -- the helper of RemoveAll reads the owner of an entry (sticky bit): an entry of a directory is never that directory
  ("memfs", "MemFS.removeAll", "child#mu", ["parent#mu:w"]),
  -- guarded by `if nParent != oParent`
  ("memfs", "MemFS.Rename", "nParent#mu", ["oParent#mu:w"]),
  -- the closure reading the owner of an entry (sticky bit) answers for the two parents without locking them again
  ("memfs", "MemFS.Rename", "nd#mu", ["nParent#mu:w", "oParent#mu:w"]),
  -- a handle and its node are different objects
  ("memfs", "MemFile.Chmod", "f.nd#mu", ["f#mu:w"]),
  ("memfs", "MemFile.Chown", "f.nd#mu", ["f#mu:w"]),
  ("memfs", "MemFile.Read", "f.nd#mu", ["f#mu:w"]),
  ("memfs", "MemFile.ReadAt", "f.nd#mu", ["f#mu:r"]),
  ("memfs", "MemFile.ReadDir", "f.nd#mu", ["f#mu:w"]),
  ("memfs", "MemFile.Readdirnames", "f.nd#mu", ["f#mu:w"]),
  ("memfs", "MemFile.Seek", "f.nd#mu", ["f#mu:w"]),
  ("memfs", "MemFile.Truncate", "f.nd#mu", ["f#mu:r"]),
  ("memfs", "MemFile.Write", "f.nd#mu", ["f#mu:w"]),
  ("memfs", "MemFile.WriteAt", "f.nd#mu", ["f#mu:r"]),
  -- the old node is a file and the new parent a directory (both kinds are tested right before the two locks are taken)
  ("orefafs", "OrefaFS.Link", "nParent#mu", ["oChild#mu:w"]),
  ("orefafs", "OrefaFS.Link", "vfs#mu", ["nParent#mu:w", "oChild#mu:w"]),
  ("orefafs", "OrefaFS.Remove", "parent#mu", ["vfs#mu:w"]),
  ("orefafs", "OrefaFS.Remove", "child#mu", ["parent#mu:w", "vfs#mu:w"]),
  -- RECORDED FINDING (C07): node locks, then the index lock — the opposite order of Remove / createNode
  ("orefafs", "OrefaFS.Rename", "oParent#mu", ["nParent#mu:w"]),
  ("orefafs", "OrefaFS.Rename", "vfs#mu", ["nParent#mu:w", "oParent#mu:w"]),
  -- the replaced node is a file (a directory destination is refused before the locks), the two parents are directories
  ("orefafs", "OrefaFS.Rename", "nChild#mu", ["nParent#mu:w", "oParent#mu:w"]),
  ("orefafs", "OrefaFile.Read", "f.nd#mu", ["f#mu:r"]),
  ("orefafs", "OrefaFile.ReadAt", "f.nd#mu", ["f#mu:r"]),
  ("orefafs", "OrefaFile.ReadDir", "f.nd#mu", ["f#mu:r"]),
  ("orefafs", "OrefaFile.Readdirnames", "f.nd#mu", ["f#mu:r"]),
  ("orefafs", "OrefaFile.Seek", "f.nd#mu", ["f#mu:w"]),
  ("orefafs", "OrefaFile.Truncate", "f.nd#mu", ["f#mu:r"]),
  ("orefafs", "OrefaFile.Write", "f.nd#mu", ["f#mu:r"]),
  ("orefafs", "OrefaFile.WriteAt", "f.nd#mu", ["f#mu:r"])]

/-- commits that rely on what the unlocked walk saw (C06). All but the first are RECORDED FINDINGS
    (linearizability.memfs-no-recheck): two concurrent calls on one new name can both succeed, one entry overwriting the
    other, or a node released twice. -/
def expectedStale : List (String × String × String) := [
  -- not a finding: opening a node that existed at the walk is decided by the walk (the open linearizes there);
  -- the creating branch looks the entry up again (commitFreshCreate)
  ("MemFS.OpenFile", "stale", "child"),
  ("MemFS.Link", "stale", "oChild"),
  ("MemFS.Link", "unchecked", "addChild"),
  ("MemFS.RemoveAll", "stale", "child"),
  ("MemFS.RemoveAll", "unchecked", "removeChild"),
  ("MemFS.Rename", "stale", "oChild"),
  ("MemFS.Rename", "stale", "nChild"),
  ("MemFS.Rename", "unchecked", "addChild"),
  ("MemFS.Rename", "unchecked", "removeChild"),
  ("MemFS.Symlink", "unchecked", "createSymlink")]

end Avfs.Conc
