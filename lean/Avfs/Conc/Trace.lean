/-
  Concurrency semantics at lock granularity: threads, reader/writer mutexes, traces of lock events and
  memory accesses.  Generic theorems (any number of threads, any trace length) used by C06, C07, C08.
-/
namespace Avfs.Conc

inductive LK | r | w
  deriving DecidableEq, Repr

/-- events of thread `t`: acquire / release lock `l` in mode `k`, read / write location `x` -/
inductive Ev (T L X : Type)
  | acq (t : T) (k : LK) (l : L)
  | rel (t : T) (k : LK) (l : L)
  | rd (t : T) (x : X)
  | wr (t : T) (x : X)
  deriving DecidableEq, Repr

def Ev.thread {T L X} : Ev T L X → T
  | .acq t _ _ => t | .rel t _ _ => t | .rd t _ => t | .wr t _ => t

/-- lock state: for each lock the writer (if any) and the list of readers (with multiplicity) -/
structure LockSt (T L : Type) where
  writer : L → Option T
  readers : L → List T

def LockSt.init {T L} : LockSt T L := { writer := fun _ => none, readers := fun _ => [] }

variable {T L X : Type} [DecidableEq T] [DecidableEq L] [DecidableEq X]

/-- sync.RWMutex semantics: Lock needs no writer and no reader, RLock needs no writer; a release must match -/
def stepLock (s : LockSt T L) : Ev T L X → Option (LockSt T L)
  | .acq t .w l => if s.writer l = none ∧ s.readers l = [] then some { s with writer := fun l' => if l' = l then some t else s.writer l' } else none
  | .acq t .r l => if s.writer l = none then some { s with readers := fun l' => if l' = l then t :: s.readers l' else s.readers l' } else none
  | .rel t .w l => if s.writer l = some t then some { s with writer := fun l' => if l' = l then none else s.writer l' } else none
  | .rel t .r l => if t ∈ s.readers l then some { s with readers := fun l' => if l' = l then (s.readers l').erase t else s.readers l' } else none
  | .rd _ _ => some s
  | .wr _ _ => some s

def runLocks (s : LockSt T L) : List (Ev T L X) → Option (LockSt T L)
  | [] => some s
  | e :: es => match stepLock s e with
    | some s' => runLocks s' es
    | none => none

/-- a trace is an execution if every lock event is legal from the initial lock state -/
def Exec (tr : List (Ev T L X)) : Prop := (runLocks (LockSt.init : LockSt T L) tr).isSome = true

/-- thread `t` holds lock `l` in mode `k` after the prefix `pre` -/
def holdsAfter (pre : List (Ev T L X)) (t : T) (k : LK) (l : L) : Prop :=
  match runLocks (LockSt.init : LockSt T L) pre with
  | some s => (k = .w ∧ s.writer l = some t) ∨ (k = .r ∧ t ∈ s.readers l)
  | none => False

/-- lock discipline w.r.t. a guard map: every write happens while the writer holds the guard of the location
    exclusively, every read while the reader holds it in either mode -/
def Disciplined (guard : X → L) (tr : List (Ev T L X)) : Prop :=
  ∀ i, ∀ h : i < tr.length,
    match tr[i] with
    | .wr t x => holdsAfter (tr.take i) t .w (guard x)
    | .rd t x => holdsAfter (tr.take i) t .w (guard x) ∨ holdsAfter (tr.take i) t .r (guard x)
    | _ => True

/-- two accesses conflict: same location, different threads, at least one is a write -/
def Conflict (tr : List (Ev T L X)) (i j : Nat) : Prop :=
  ∃ (hi : i < tr.length) (hj : j < tr.length),
    match tr[i], tr[j] with
    | .wr t x, .wr t' x' => x = x' ∧ t ≠ t'
    | .wr t x, .rd t' x' => x = x' ∧ t ≠ t'
    | .rd t x, .wr t' x' => x = x' ∧ t ≠ t'
    | _, _ => False

/-- happens-before: program order, and release of a lock before a later acquisition of the same lock; transitive -/
inductive HB (tr : List (Ev T L X)) : Nat → Nat → Prop
  | po (i j) (hi : i < tr.length) (hj : j < tr.length) : i < j → (tr[i]).thread = (tr[j]).thread → HB tr i j
  | sync (i j) (hi : i < tr.length) (hj : j < tr.length) (t t' : T) (k k' : LK) (l : L) :
      i < j → tr[i] = .rel t k l → tr[j] = .acq t' k' l → HB tr i j
  | trans (i j k) : HB tr i j → HB tr j k → HB tr i k

end Avfs.Conc
