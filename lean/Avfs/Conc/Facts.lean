/-
  Lock facts extracted from the Go source by harness/cmd/lockx (T-B tie) and the decidable rules over them:
  lock discipline per access (C08), nested acquisitions (C07), single critical sections (C06).
-/
namespace Avfs.Conc

structure FnInfo where
  pkg : String
  name : String          -- `Type.method` or `func`
  short : String         -- method / function name without the receiver type
  recv : String
  params : List String
  exported : Bool
  deriving DecidableEq, Repr

structure Fact where
  kind : String          -- access | call | acquire | unknown
  pkg : String
  fn : String
  line : Nat
  field : String         -- accessed field / mutex field acquired
  write : Bool           -- write access / exclusive acquisition
  oroot : String         -- canonical owner expression = oroot ++ orest (root identifier, then the field path)
  orest : String
  okind : String         -- recv | param | reach | local | fresh
  callee : String
  aroots : List String   -- receiver followed by the arguments (non-object arguments are "_"), split like the owner
  arests : List String
  akinds : List String
  held : List String     -- locks certainly held: `owner#mutex:mode`
  note : String
  deriving DecidableEq, Repr

def Fact.owner (f : Fact) : String := f.oroot ++ f.orest

/-- the mutex field of the owner that guards a field -/
def guardField (f : String) : String :=
  if ["groupsByName", "groupsById", "maxGid"].contains f then "grpMu"
  else if ["usersByName", "usersById", "maxUid"].contains f then "usrMu"
  else "mu"

def heldMode (h : List String) (lock : String) : Option Bool :=    -- some true = exclusive
  if h.contains (lock ++ ":w") then some true else if h.contains (lock ++ ":r") then some false else none

/-- the lock an access needs is held in a sufficient mode at the access itself -/
def accessHeld (f : Fact) : Bool :=
  match heldMode f.held (f.owner ++ "#" ++ guardField f.field) with
  | some true => true
  | some false => !f.write
  | none => false

/-- a requirement a function puts on its callers: the lock `mutex` of the object `root ++ rest` (an expression over
    the function's receiver / parameters) must be held, exclusively if `excl`; `kind` says what `root` is there -/
structure Req where
  fn : String
  pkg : String
  root : String
  rest : String
  kind : String
  mutex : String
  excl : Bool
  deriving DecidableEq, Repr

def zip3 : List String → List String → List String → List (String × String × String)
  | a :: as, b :: bs, c :: cs => (a, b, c) :: zip3 as bs cs
  | _, _, _ => []

/-- one round of requirement propagation through the call facts -/
def propagate (fns : List FnInfo) (facts : List Fact) (reqs : List Req) : List Req :=
  let new := facts.flatMap fun f =>
    if f.kind != "call" then [] else
    (fns.filter fun g => g.pkg == f.pkg && g.short == f.callee).flatMap fun g =>
      (reqs.filter fun r => r.fn == g.name && r.pkg == g.pkg).filterMap fun r =>
        -- map the callee's receiver / parameter to the actual argument
        let formals := g.recv :: g.params
        match (formals.zip (zip3 f.aroots f.arests f.akinds)).find? (fun (p, _) => p == r.root && p != "") with
        | none => none
        | some (_, aroot, arest, kind) =>
          if aroot == "_" || aroot == "" then none else
          let nr : Req := { fn := f.fn, pkg := f.pkg, root := aroot, rest := arest ++ r.rest, kind := kind, mutex := r.mutex, excl := r.excl }
          match heldMode f.held (aroot ++ arest ++ r.rest ++ "#" ++ r.mutex) with
          | some true => none
          | some false => if r.excl then some nr else none
          | none => some nr
  (reqs ++ new).eraseDups

/-- requirements arising directly from accesses whose lock is not held locally -/
def directReqs (facts : List Fact) : List Req :=
  (facts.filterMap fun f =>
    if f.kind == "access" && !accessHeld f && f.okind != "fresh" then
      some { fn := f.fn, pkg := f.pkg, root := f.oroot, rest := f.orest, kind := f.okind, mutex := guardField f.field, excl := f.write }
    else none).eraseDups

def allReqs (fns : List FnInfo) (facts : List Fact) : Nat → List Req
  | 0 => directReqs facts
  | n + 1 => propagate fns facts (allReqs fns facts n)

/-- a requirement is a *violation site* when the object it is about is not handed in by the caller
    (it is a local alias of a shared object: nobody can hold the lock on the function's behalf) or when the function
    is part of the exported API (nobody above it holds locks) -/
def violations (fns : List FnInfo) (facts : List Fact) (rounds : Nat) : List (String × String × String × String × Bool) :=
  ((allReqs fns facts rounds).filterMap fun r =>
    let exported := fns.any fun g => g.pkg == r.pkg && g.name == r.fn && g.exported
    if r.kind == "local" || exported then some (r.pkg, r.fn, r.root ++ r.rest, r.mutex, r.excl) else none).eraseDups

/-- nested acquisitions: (package, function, lock wanted, locks held) -/
def nested (facts : List Fact) : List (String × String × String × List String) :=
  (facts.filterMap fun f =>
    if f.kind == "acquire" && !f.held.isEmpty then some (f.pkg, f.fn, f.owner ++ "#" ++ f.field, f.held) else none).eraseDups

/-- a function acquires a lock it certainly already holds (self-deadlock on a sync.RWMutex) -/
def selfAcquire (facts : List Fact) : List (String × String × Nat) :=
  facts.filterMap fun f =>
    if f.kind == "acquire" && (heldMode f.held (f.owner ++ "#" ++ f.field)).isSome then some (f.pkg, f.fn, f.line) else none

/-- does a function of this name touch guarded state (directly)? -/
def touches (fns : List FnInfo) (facts : List Fact) (pkg short : String) : Bool :=
  facts.any fun f => f.pkg == pkg && f.kind == "access" && fns.any fun g => g.pkg == pkg && g.short == short && g.name == f.fn

/-- every access of `fn`, and every call of a function that touches guarded state, happens while `lock` is held
    (exclusively if `excl`): the function is one critical section -/
def singleSection (fns : List FnInfo) (facts : List Fact) (pkg fn lock : String) (excl : Bool) : Bool :=
  (facts.filter fun f => f.pkg == pkg && f.fn == fn &&
      (f.kind == "access" || (f.kind == "call" && touches fns facts pkg f.callee))).all fun f =>
    match heldMode f.held lock with
    | some true => true
    | some false => !excl
    | none => false

/-- set equality of two lists -/
def sameSet {α} [BEq α] (a b : List α) : Bool := a.all b.contains && b.all a.contains

/-! ### commit shape (C06): the part of a MemFS namespace call that runs under the parent's lock -/

def shapeFacts (facts : List Fact) (fn kind : String) : List Fact :=
  facts.filter fun f => f.pkg == "memfs" && f.fn == fn && f.kind == kind

/-- the commit of `fn` works on what it finds under the lock: the function walks, takes the parent's lock once, every
    mutation of the parent's entries is preceded (in the locked region) by a look-up of the entry, and no value the walk
    captured is used after the lock without being looked up again -/
def commitFresh (facts : List Fact) (fn : String) : Bool :=
  !(shapeFacts facts fn "walk").isEmpty && (shapeFacts facts fn "commitlock").length == 1 &&
  !(shapeFacts facts fn "mutate").isEmpty && (shapeFacts facts fn "mutate").all (·.write) &&
  (shapeFacts facts fn "stale").isEmpty

/-- the creating branch of OpenFile: the entry is looked up again into the child variable before createFile -/
def commitFreshCreate (facts : List Fact) (fn child : String) : Bool :=
  (shapeFacts facts fn "commitlock").length == 1 &&
  (shapeFacts facts fn "relookup").any (·.field == child) &&
  !(shapeFacts facts fn "mutate").isEmpty && (shapeFacts facts fn "mutate").all (·.write)

/-- every place where a commit relies on what the unlocked walk saw: (function, "stale", variable) and
    (function, "unchecked", mutation) -/
def staleSites (facts : List Fact) : List (String × String × String) :=
  (facts.filterMap fun f =>
    if f.pkg == "memfs" && f.kind == "stale" then some (f.fn, "stale", f.field)
    else if f.pkg == "memfs" && f.kind == "mutate" && !f.write then some (f.fn, "unchecked", f.field)
    else none).eraseDups

def unknownFacts (facts : List Fact) : List (String × String × Nat × String) :=
  facts.filterMap fun f => if f.kind == "unknown" then some (f.pkg, f.fn, f.line, f.note) else none

end Avfs.Conc
