/-
  Generic concurrency theorems over the lock/trace semantics of `Avfs.Conc.Trace`:
  mutual exclusion, C08 (disciplined ⇒ race free), C07 (ranked ⇒ deadlock free), C06 (atomic sections serial).
-/
import Avfs.Conc.Trace

namespace Avfs.Conc

variable {T L X : Type} [DecidableEq T] [DecidableEq L]

/-! ## state-level notions -/

/-- thread `t` holds lock `l` in mode `k` in lock state `s` (state-level version of `holdsAfter`) -/
def LockSt.holds (s : LockSt T L) (t : T) (k : LK) (l : L) : Prop :=
  (k = .w ∧ s.writer l = some t) ∨ (k = .r ∧ t ∈ s.readers l)

/-- lock-state invariant: a write-held lock has no readers -/
def LockSt.Inv (s : LockSt T L) : Prop := ∀ l, s.writer l ≠ none → s.readers l = []

/-- the lock state after the first `n` events -/
def stAt (tr : List (Ev T L X)) (n : Nat) : Option (LockSt T L) :=
  runLocks LockSt.init (tr.take n)

theorem holdsAfter_iff (pre : List (Ev T L X)) (t : T) (k : LK) (l : L) :
    holdsAfter pre t k l ↔ ∃ s, runLocks LockSt.init pre = some s ∧ s.holds t k l := by
  unfold holdsAfter LockSt.holds
  split <;> simp_all

theorem holdsAfter_take_iff (tr : List (Ev T L X)) (n : Nat) (t : T) (k : LK) (l : L) :
    holdsAfter (tr.take n) t k l ↔ ∃ s, stAt tr n = some s ∧ s.holds t k l :=
  holdsAfter_iff _ _ _ _

omit [DecidableEq T] [DecidableEq L] in
theorem inv_init : (LockSt.init : LockSt T L).Inv := by
  intro l h; rfl

theorem inv_step {s s' : LockSt T L} {e : Ev T L X} (hi : s.Inv) (h : stepLock s e = some s') :
    s'.Inv := by
  intro l'
  cases e with
  | acq t k l =>
    cases k with
    | r =>
      simp only [stepLock] at h
      split at h
      · next hw =>
        cases h
        by_cases hl : l' = l
        · subst hl; simp [hw]
        · simpa [hl] using hi l'
      · cases h
    | w =>
      simp only [stepLock] at h
      split at h
      · next hw =>
        cases h
        by_cases hl : l' = l
        · subst hl; simp [hw.2]
        · simpa [hl] using hi l'
      · cases h
  | rel t k l =>
    cases k with
    | r =>
      simp only [stepLock] at h
      split at h
      · next hw =>
        cases h
        by_cases hl : l' = l
        · subst hl
          intro hw'
          have := hi l' hw'
          simp [this] at hw
        · simpa [hl] using hi l'
      · cases h
    | w =>
      simp only [stepLock] at h
      split at h
      · next hw =>
        cases h
        by_cases hl : l' = l
        · subst hl; simp
        · simpa [hl] using hi l'
      · cases h
  | rd t x => simp only [stepLock] at h; cases h; exact hi l'
  | wr t x => simp only [stepLock] at h; cases h; exact hi l'

theorem inv_run {s s' : LockSt T L} (tr : List (Ev T L X)) (hi : s.Inv)
    (h : runLocks s tr = some s') : s'.Inv := by
  induction tr generalizing s with
  | nil => simp only [runLocks] at h; cases h; exact hi
  | cons e es ih =>
    simp only [runLocks] at h
    split at h
    · next s1 hs1 => exact ih (inv_step hi hs1) h
    · cases h

theorem inv_stAt {tr : List (Ev T L X)} {n : Nat} {s : LockSt T L} (h : stAt tr n = some s) : s.Inv :=
  inv_run _ inv_init h

theorem runLocks_append (s : LockSt T L) (a b : List (Ev T L X)) :
    runLocks s (a ++ b) = (runLocks s a).bind (fun s' => runLocks s' b) := by
  induction a generalizing s with
  | nil => simp [runLocks]
  | cons e es ih =>
    simp only [List.cons_append, runLocks]
    cases stepLock s e <;> simp [ih]

theorem stAt_succ (tr : List (Ev T L X)) (n : Nat) (h : n < tr.length) :
    stAt tr (n + 1) = (stAt tr n).bind (fun s => stepLock s tr[n]) := by
  unfold stAt
  rw [List.take_succ_eq_append_getElem h, runLocks_append]
  congr
  funext s
  simp only [runLocks]
  cases stepLock s tr[n] <;> rfl

theorem stAt_succ_some {tr : List (Ev T L X)} {n : Nat} (h : n < tr.length) {s' : LockSt T L}
    (hs : stAt tr (n + 1) = some s') : ∃ s, stAt tr n = some s ∧ stepLock s tr[n] = some s' := by
  rw [stAt_succ tr n h] at hs
  cases hn : stAt tr n with
  | none => simp [hn] at hs
  | some s => exact ⟨s, rfl, by simpa [hn] using hs⟩

theorem stAt_some_of_le {tr : List (Ev T L X)} {n d : Nat} {s' : LockSt T L}
    (hs : stAt tr (n + d) = some s') : ∃ s, stAt tr n = some s := by
  unfold stAt at hs ⊢
  rw [List.take_add, runLocks_append] at hs
  cases hn : runLocks LockSt.init (List.take n tr) with
  | none => simp [hn] at hs
  | some s => exact ⟨s, rfl⟩

/-! ## single-step lemmas -/

/-- the only event that makes `t` lose lock `l` in mode `m` is `rel t m l` -/
theorem step_lose {s s' : LockSt T L} {e : Ev T L X} {t : T} {m : LK} {l : L}
    (h : stepLock s e = some s') (h1 : s.holds t m l) (h2 : ¬ s'.holds t m l) : e = .rel t m l := by
  unfold LockSt.holds at h1 h2
  cases e with
  | acq t0 k0 l0 =>
    exfalso
    cases k0 with
    | r =>
      simp only [stepLock] at h
      split at h
      · cases h
        apply h2
        rcases h1 with ⟨hm, hw⟩ | ⟨hm, hr⟩
        · exact Or.inl ⟨hm, hw⟩
        · refine Or.inr ⟨hm, ?_⟩
          by_cases hl : l = l0
          · simp [hl]; right; simpa [hl] using hr
          · simpa [hl] using hr
      · cases h
    | w =>
      simp only [stepLock] at h
      split at h
      · next hw0 =>
        cases h
        apply h2
        rcases h1 with ⟨hm, hw⟩ | ⟨hm, hr⟩
        · refine Or.inl ⟨hm, ?_⟩
          by_cases hl : l = l0
          · subst hl; simp [hw0.1] at hw
          · simpa [hl] using hw
        · exact Or.inr ⟨hm, hr⟩
      · cases h
  | rel t0 k0 l0 =>
    cases k0 with
    | r =>
      simp only [stepLock] at h
      split at h
      · cases h
        rcases h1 with ⟨hm, hw⟩ | ⟨hm, hr⟩
        · exact absurd (Or.inl ⟨hm, hw⟩) h2
        · by_cases hl : l = l0
          · subst hl
            by_cases ht : t = t0
            · subst ht; subst hm; rfl
            · exfalso; apply h2
              refine Or.inr ⟨hm, ?_⟩
              simpa using (List.mem_erase_of_ne ht).2 hr
          · exfalso; apply h2
            exact Or.inr ⟨hm, by simpa [hl] using hr⟩
      · cases h
    | w =>
      simp only [stepLock] at h
      split at h
      · next hw0 =>
        cases h
        rcases h1 with ⟨hm, hw⟩ | ⟨hm, hr⟩
        · by_cases hl : l = l0
          · subst hl
            rw [hw] at hw0; cases hw0; subst hm; rfl
          · exfalso; apply h2
            exact Or.inl ⟨hm, by simpa [hl] using hw⟩
        · exact absurd (Or.inr ⟨hm, hr⟩) h2
      · cases h
  | rd t0 x => simp only [stepLock] at h; cases h; exact absurd h1 h2
  | wr t0 x => simp only [stepLock] at h; cases h; exact absurd h1 h2

/-- the only event that makes `t` gain lock `l` in mode `m` is `acq t m l` -/
theorem step_gain {s s' : LockSt T L} {e : Ev T L X} {t : T} {m : LK} {l : L}
    (h : stepLock s e = some s') (h1 : ¬ s.holds t m l) (h2 : s'.holds t m l) : e = .acq t m l := by
  unfold LockSt.holds at h1 h2
  cases e with
  | acq t0 k0 l0 =>
    cases k0 with
    | r =>
      simp only [stepLock] at h
      split at h
      · cases h
        rcases h2 with ⟨hm, hw⟩ | ⟨hm, hr⟩
        · exact absurd (Or.inl ⟨hm, hw⟩) h1
        · by_cases hl : l = l0
          · subst hl
            simp only [if_true] at hr
            rcases List.mem_cons.1 hr with ht | hr'
            · subst ht; subst hm; rfl
            · exact absurd (Or.inr ⟨hm, hr'⟩) h1
          · exfalso; apply h1
            exact Or.inr ⟨hm, by simpa [hl] using hr⟩
      · cases h
    | w =>
      simp only [stepLock] at h
      split at h
      · cases h
        rcases h2 with ⟨hm, hw⟩ | ⟨hm, hr⟩
        · by_cases hl : l = l0
          · subst hl
            simp only [if_true] at hw
            cases hw; subst hm; rfl
          · exfalso; apply h1
            exact Or.inl ⟨hm, by simpa [hl] using hw⟩
        · exact absurd (Or.inr ⟨hm, hr⟩) h1
      · cases h
  | rel t0 k0 l0 =>
    exfalso
    cases k0 with
    | r =>
      simp only [stepLock] at h
      split at h
      · cases h
        apply h1
        rcases h2 with ⟨hm, hw⟩ | ⟨hm, hr⟩
        · exact Or.inl ⟨hm, hw⟩
        · refine Or.inr ⟨hm, ?_⟩
          by_cases hl : l = l0
          · subst hl
            simp only [if_true] at hr
            exact List.mem_of_mem_erase hr
          · simpa [hl] using hr
      · cases h
    | w =>
      simp only [stepLock] at h
      split at h
      · cases h
        apply h1
        rcases h2 with ⟨hm, hw⟩ | ⟨hm, hr⟩
        · refine Or.inl ⟨hm, ?_⟩
          by_cases hl : l = l0
          · subst hl; simp at hw
          · simpa [hl] using hw
        · exact Or.inr ⟨hm, hr⟩
      · cases h
  | rd t0 x => simp only [stepLock] at h; cases h; exact absurd h2 h1
  | wr t0 x => simp only [stepLock] at h; cases h; exact absurd h2 h1

/-- a legal release is performed by a holder -/
theorem step_rel_holds {s s' : LockSt T L} {t : T} {m : LK} {l : L}
    (h : stepLock s (.rel t m l : Ev T L X) = some s') : s.holds t m l := by
  cases m with
  | r =>
    simp only [stepLock] at h
    split at h
    · next hr => exact Or.inr ⟨rfl, hr⟩
    · cases h
  | w =>
    simp only [stepLock] at h
    split at h
    · next hw => exact Or.inl ⟨rfl, hw⟩
    · cases h

/-! ## interval lemmas -/

/-- if `t` holds `l` in mode `m` after `i` events but no longer after `i+d` events, some event in `[i, i+d)`
    is the release `rel t m l` -/
theorem exists_rel_between (tr : List (Ev T L X)) (i d : Nat) {si sj : LockSt T L} {t : T} {m : LK} {l : L}
    (hlen : i + d ≤ tr.length) (hi : stAt tr i = some si) (hj : stAt tr (i + d) = some sj)
    (h1 : si.holds t m l) (h2 : ¬ sj.holds t m l) :
    ∃ k, ∃ _ : k < tr.length, i ≤ k ∧ k < i + d ∧ tr[k] = .rel t m l := by
  induction d generalizing sj with
  | zero =>
    rw [Nat.add_zero, hi] at hj; cases hj; exact absurd h1 h2
  | succ d ih =>
    have hlt : i + d < tr.length := by omega
    obtain ⟨s, hs, hstep⟩ := stAt_succ_some hlt (by simpa [Nat.add_assoc] using hj)
    by_cases hh : s.holds t m l
    · exact ⟨i + d, hlt, by omega, by omega, step_lose hstep hh h2⟩
    · obtain ⟨k, hk, h3, h4, h5⟩ := ih (by omega) hs hh
      exact ⟨k, hk, h3, by omega, h5⟩

/-- if `t` does not hold `l` in mode `m` after `i` events but does after `i+d` events, some event in `[i, i+d)`
    is the acquisition `acq t m l` -/
theorem exists_acq_between (tr : List (Ev T L X)) (i d : Nat) {si sj : LockSt T L} {t : T} {m : LK} {l : L}
    (hlen : i + d ≤ tr.length) (hi : stAt tr i = some si) (hj : stAt tr (i + d) = some sj)
    (h1 : ¬ si.holds t m l) (h2 : sj.holds t m l) :
    ∃ k, ∃ _ : k < tr.length, i ≤ k ∧ k < i + d ∧ tr[k] = .acq t m l := by
  induction d generalizing sj with
  | zero =>
    rw [Nat.add_zero, hi] at hj; cases hj; exact absurd h2 h1
  | succ d ih =>
    have hlt : i + d < tr.length := by omega
    obtain ⟨s, hs, hstep⟩ := stAt_succ_some hlt (by simpa [Nat.add_assoc] using hj)
    by_cases hh : s.holds t m l
    · obtain ⟨k, hk, h3, h4, h5⟩ := ih (by omega) hs hh
      exact ⟨k, hk, h3, by omega, h5⟩
    · exact ⟨i + d, hlt, by omega, by omega, step_gain hstep hh h2⟩

/-- a release event in a (sufficiently long) legal prefix is performed by a holder -/
theorem holds_at_rel {tr : List (Ev T L X)} {k n : Nat} {sn : LockSt T L} {t : T} {m : LK} {l : L}
    (hk : k < tr.length) (hkn : k < n) (hn : stAt tr n = some sn) (he : tr[k] = .rel t m l) :
    ∃ sk, stAt tr k = some sk ∧ sk.holds t m l := by
  have : n = (k + 1) + (n - (k + 1)) := by omega
  rw [this] at hn
  obtain ⟨s1, hs1⟩ := stAt_some_of_le hn
  obtain ⟨sk, hsk, hstep⟩ := stAt_succ_some hk hs1
  rw [he] at hstep
  exact ⟨sk, hsk, step_rel_holds hstep⟩

/-! ## (1) mutual exclusion -/

omit [DecidableEq T] [DecidableEq L] in
/-- state-level mutual exclusion: an exclusive holder is the only holder -/
theorem LockSt.Inv.excl {s : LockSt T L} (hi : s.Inv) {t t' : T} {k : LK} {l : L}
    (h1 : s.holds t .w l) (h2 : s.holds t' k l) : t = t' ∧ k = .w := by
  rcases h1 with ⟨_, hw⟩ | ⟨hm, _⟩
  · rcases h2 with ⟨hk, hw'⟩ | ⟨_, hr⟩
    · rw [hw] at hw'; cases hw'; exact ⟨rfl, hk⟩
    · have := hi l (by rw [hw]; simp)
      rw [this] at hr; cases hr
  · cases hm

omit [DecidableEq T] [DecidableEq L] in
/-- symmetric form: two holders of the same lock, one of them exclusive, are the same thread -/
theorem LockSt.Inv.excl' {s : LockSt T L} (hi : s.Inv) {t t' : T} {m1 m2 : LK} {l : L}
    (hm : m1 = .w ∨ m2 = .w) (h1 : s.holds t m1 l) (h2 : s.holds t' m2 l) : t = t' := by
  rcases hm with hm | hm
  · subst hm; exact (hi.excl h1 h2).1
  · subst hm; exact (hi.excl h2 h1).1.symm

/-- a write-held lock has no readers -/
theorem writer_excludes (tr : List (Ev T L X)) (_h : Exec tr) (s : LockSt T L)
    (hs : runLocks LockSt.init tr = some s) (l : L) (t : T) :
    s.writer l = some t → s.readers l = [] := by
  intro hw
  exact inv_run tr inv_init hs l (by rw [hw]; simp)

/-- at most one writer, and a writer excludes every other holder in any mode -/
theorem writer_unique (pre : List (Ev T L X)) (t t' : T) (k : LK) (l : L)
    (h1 : holdsAfter pre t .w l) (h2 : holdsAfter pre t' k l) : t = t' ∧ k = .w := by
  obtain ⟨s, hs, h1⟩ := (holdsAfter_iff _ _ _ _).1 h1
  obtain ⟨s', hs', h2⟩ := (holdsAfter_iff _ _ _ _).1 h2
  rw [hs] at hs'; cases hs'
  exact (inv_run pre inv_init hs).excl h1 h2

/-! ## (2) C08: lock discipline implies race freedom -/

/-- core of C08: if the thread of `tr[i]` holds `l` in mode `m1` before event `i`, the (different) thread of
    `tr[j]` holds `l` in mode `m2` before event `j`, one of the modes is exclusive, and `tr[i]` is not itself the
    release, then `i` happens before `j` (via a release of `l` after `i` and a later acquisition of `l` before `j`) -/
theorem hb_of_holds (tr : List (Ev T L X)) (i j : Nat) (hij : i < j) (hj : j < tr.length)
    (t t' : T) (htt : t ≠ t') (m1 m2 : LK) (hm : m1 = .w ∨ m2 = .w) (l : L)
    (hti : (tr[i]'(by omega)).thread = t) (htj : (tr[j]).thread = t')
    (hnr : tr[i]'(by omega) ≠ .rel t m1 l)
    (h1 : holdsAfter (tr.take i) t m1 l) (h2 : holdsAfter (tr.take j) t' m2 l) : HB tr i j := by
  obtain ⟨si, hsi, h1⟩ := (holdsAfter_take_iff _ _ _ _ _).1 h1
  obtain ⟨sj, hsj, h2⟩ := (holdsAfter_take_iff _ _ _ _ _).1 h2
  have hjd : j = i + (j - i) := by omega
  -- `t` no longer holds `l` in mode `m1` at `j`
  have h3 : ¬ sj.holds t m1 l := fun h => htt ((inv_stAt hsj).excl' hm h h2)
  obtain ⟨k, hk, hik, hkj, hek⟩ :=
    exists_rel_between tr i (j - i) (by omega) hsi (by rw [← hjd]; exact hsj) h1 h3
  have hik' : i < k := by
    rcases Nat.lt_or_ge i k with h | h
    · exact h
    · have : k = i := by omega
      subst this; exact absurd hek hnr
  -- at the release point `t` still holds the lock, hence `t'` does not
  obtain ⟨sk, hsk, h4⟩ := holds_at_rel hk (by omega) hsj hek
  have h5 : ¬ sk.holds t' m2 l := fun h => htt ((inv_stAt hsk).excl' hm h4 h)
  have hjk : j = k + (j - k) := by omega
  obtain ⟨k', hk', hkk', hk'j, hek'⟩ :=
    exists_acq_between tr k (j - k) (by omega) hsk (by rw [← hjk]; exact hsj) h5 h2
  have hkk'' : k < k' := by
    rcases Nat.lt_or_ge k k' with h | h
    · exact h
    · have : k' = k := by omega
      subst this; rw [hek] at hek'; cases hek'
  have hb1 : HB tr i k := HB.po i k (by omega) hk hik' (by rw [hti, hek]; rfl)
  have hb2 : HB tr k k' := HB.sync k k' hk hk' t t' m1 m2 l hkk'' hek hek'
  have hb3 : HB tr k' j := HB.po k' j hk' hj (by omega) (by rw [htj, hek']; rfl)
  exact HB.trans _ _ _ hb1 (HB.trans _ _ _ hb2 hb3)

/-- **C08**: in a lock-disciplined execution every pair of conflicting accesses is ordered by happens-before -/
theorem disciplined_race_free (guard : X → L) (tr : List (Ev T L X)) (_hx : Exec tr)
    (hd : Disciplined guard tr) (i j : Nat) (hij : i < j) (hc : Conflict tr i j) : HB tr i j := by
  obtain ⟨hi, hj, hc⟩ := hc
  have hdi := hd i hi
  have hdj := hd j hj
  generalize hei : tr[i] = ei at hc hdi
  generalize hej : tr[j] = ej at hc hdj
  cases ei with
  | acq => simp at hc
  | rel => simp at hc
  | wr t x =>
    cases ej with
    | acq => simp at hc
    | rel => simp at hc
    | wr t' x' =>
      obtain ⟨hxx, htt⟩ := hc; subst hxx
      exact hb_of_holds tr i j hij hj t t' htt .w .w (Or.inl rfl) (guard x)
        (by rw [hei]; rfl) (by rw [hej]; rfl) (by rw [hei]; simp) hdi hdj
    | rd t' x' =>
      obtain ⟨hxx, htt⟩ := hc; subst hxx
      rcases hdj with hdj | hdj
      · exact hb_of_holds tr i j hij hj t t' htt .w .w (Or.inl rfl) (guard x)
          (by rw [hei]; rfl) (by rw [hej]; rfl) (by rw [hei]; simp) hdi hdj
      · exact hb_of_holds tr i j hij hj t t' htt .w .r (Or.inl rfl) (guard x)
          (by rw [hei]; rfl) (by rw [hej]; rfl) (by rw [hei]; simp) hdi hdj
  | rd t x =>
    cases ej with
    | acq => simp at hc
    | rel => simp at hc
    | rd => simp at hc
    | wr t' x' =>
      obtain ⟨hxx, htt⟩ := hc; subst hxx
      rcases hdi with hdi | hdi
      · exact hb_of_holds tr i j hij hj t t' htt .w .w (Or.inl rfl) (guard x)
          (by rw [hei]; rfl) (by rw [hej]; rfl) (by rw [hei]; simp) hdi hdj
      · exact hb_of_holds tr i j hij hj t t' htt .r .w (Or.inr rfl) (guard x)
          (by rw [hei]; rfl) (by rw [hej]; rfl) (by rw [hei]; simp) hdi hdj

/-! ## (4) C06: critical sections under one exclusive lock do not interleave -/

/-- `e` is a memory access (read or write) performed by thread `t` -/
def Ev.isAccessBy (e : Ev T L X) (t : T) : Prop := (∃ x, e = .rd t x) ∨ (∃ x, e = .wr t x)

/-- **C06**: if every access of every thread happens while that thread holds the one lock `L0` exclusively, and
    `tr[i]`, `tr[j]` are accesses of thread `t` belonging to the same critical section (no release of `L0` by `t`
    in between), then no access of another thread occurs between them -/
theorem atomic_sections_serial (L0 : L) (tr : List (Ev T L X))
    (hacc : ∀ (n : Nat) (h : n < tr.length) (t : T), (tr[n]).isAccessBy t → holdsAfter (tr.take n) t .w L0)
    (i k j : Nat) (hik : i < k) (hkj : k < j) (hj : j < tr.length) (t : T)
    (hai : (tr[i]'(by omega)).isAccessBy t) (_haj : (tr[j]).isAccessBy t)
    (hnorel : ∀ (n : Nat) (h : n < tr.length), i < n → n < j → tr[n] ≠ .rel t .w L0)
    (t' : T) (htt : t' ≠ t) : ¬ (tr[k]'(by omega)).isAccessBy t' := by
  intro hak
  obtain ⟨si, hsi, h1⟩ := (holdsAfter_take_iff _ _ _ _ _).1 (hacc i (by omega) t hai)
  obtain ⟨sk, hsk, h2⟩ := (holdsAfter_take_iff _ _ _ _ _).1 (hacc k (by omega) t' hak)
  have hkd : k = i + (k - i) := by omega
  by_cases h3 : sk.holds t .w L0
  · exact htt ((inv_stAt hsk).excl h3 h2).1.symm
  · obtain ⟨n, hn, hin, hnk, hen⟩ :=
      exists_rel_between tr i (k - i) (by omega) hsi (by rw [← hkd]; exact hsk) h1 h3
    have hin' : i < n := by
      rcases Nat.lt_or_ge i n with h | h
      · exact h
      · have : n = i := by omega
        subst this
        rcases hai with ⟨x, hx⟩ | ⟨x, hx⟩ <;> (rw [hx] at hen; cases hen)
    exact hnorel n hn hin' (by omega) hen

/-! ## (3) C07: ranked lock acquisition implies deadlock freedom -/

/-- wait-for state: locks held by each thread, the lock a blocked thread waits for, and an (exclusive) holder map -/
structure WaitSt (T L : Type) where
  held : T → List L
  waits : T → Option L
  holder : L → Option T

/-- `holder` is consistent with `held` -/
def WaitSt.Consistent (w : WaitSt T L) : Prop := ∀ l t, w.holder l = some t → l ∈ w.held t

/-- deadlock (general form, also covers shared holders): a non-empty duplicate-free set of threads each of which
    waits for a lock held by a thread of the set -/
def WaitSt.DeadlockedHeld (w : WaitSt T L) : Prop :=
  ∃ ts : List T, ts ≠ [] ∧ ts.Nodup ∧
    ∀ t ∈ ts, ∃ l, w.waits t = some l ∧ ∃ t' ∈ ts, l ∈ w.held t'

/-- deadlock w.r.t. the holder map: a non-empty duplicate-free set of threads each of which waits for a lock
    whose holder is in the set -/
def WaitSt.Deadlocked (w : WaitSt T L) : Prop :=
  ∃ ts : List T, ts ≠ [] ∧ ts.Nodup ∧
    ∀ t ∈ ts, ∃ l t', w.waits t = some l ∧ w.holder l = some t' ∧ t' ∈ ts

/-- ranked acquisition: a waiting thread waits for a lock of rank strictly above every lock it holds -/
def WaitSt.Ranked (w : WaitSt T L) (rank : L → Nat) : Prop :=
  ∀ t l, w.waits t = some l → ∀ l' ∈ w.held t, rank l' < rank l

omit [DecidableEq T] [DecidableEq L] in
theorem WaitSt.Deadlocked.toHeld {w : WaitSt T L} (hc : w.Consistent) (h : w.Deadlocked) :
    w.DeadlockedHeld := by
  obtain ⟨ts, hne, hnd, hall⟩ := h
  refine ⟨ts, hne, hnd, fun t ht => ?_⟩
  obtain ⟨l, t', hw, hh, ht'⟩ := hall t ht
  exact ⟨l, hw, t', ht', hc l t' hh⟩

omit [DecidableEq T] in
/-- a non-empty list has an element maximising a natural-valued function -/
theorem exists_max_of_ne_nil (f : T → Nat) (ts : List T) (hne : ts ≠ []) :
    ∃ t ∈ ts, ∀ t' ∈ ts, f t' ≤ f t := by
  induction ts with
  | nil => exact absurd rfl hne
  | cons a as ih =>
    by_cases has : as = []
    · subst has
      exact ⟨a, by simp, by intro t' ht'; simp at ht'; subst ht'; exact Nat.le_refl _⟩
    · obtain ⟨m, hm, hmax⟩ := ih has
      by_cases hle : f m ≤ f a
      · refine ⟨a, by simp, ?_⟩
        intro t' ht'
        rcases List.mem_cons.1 ht' with h | h
        · subst h; exact Nat.le_refl _
        · exact Nat.le_trans (hmax t' h) hle
      · refine ⟨m, List.mem_cons_of_mem _ hm, ?_⟩
        intro t' ht'
        rcases List.mem_cons.1 ht' with h | h
        · subst h; omega
        · exact hmax t' h

omit [DecidableEq T] [DecidableEq L] in
/-- **C07** (general form): under ranked acquisition no set of threads is deadlocked -/
theorem ranked_deadlock_free_held (w : WaitSt T L) (rank : L → Nat) (hr : w.Ranked rank) :
    ¬ w.DeadlockedHeld := by
  rintro ⟨ts, hne, _, hall⟩
  -- the waiter whose wanted lock has maximal rank
  let f : T → Nat := fun t => match w.waits t with | some l => rank l | none => 0
  obtain ⟨t, ht, hmax⟩ := exists_max_of_ne_nil f ts hne
  obtain ⟨l, hwl, t', ht', hheld⟩ := hall t ht
  obtain ⟨l', hwl', _⟩ := hall t' ht'
  have h1 : rank l < rank l' := hr t' l' hwl' l hheld
  have h2 : f t' ≤ f t := hmax t' ht'
  have ft : f t = rank l := by simp only [f, hwl]
  have ft' : f t' = rank l' := by simp only [f, hwl']
  omega

omit [DecidableEq T] [DecidableEq L] in
/-- **C07**: with a holder map consistent with `held`, ranked acquisition excludes deadlock -/
theorem ranked_deadlock_free (w : WaitSt T L) (hc : w.Consistent) (rank : L → Nat) (hr : w.Ranked rank) :
    ¬ w.Deadlocked :=
  fun h => ranked_deadlock_free_held w rank hr (h.toHeld hc)

omit [DecidableEq T] [DecidableEq L] in
/-- special case (self-deadlock): under ranked acquisition a thread never waits for a lock it holds itself -/
theorem ranked_no_self_wait (w : WaitSt T L) (rank : L → Nat) (hr : w.Ranked rank) (t : T) (l : L)
    (hw : w.waits t = some l) : l ∉ w.held t :=
  fun hh => Nat.lt_irrefl _ (hr t l hw l hh)

omit [DecidableEq T] [DecidableEq L] in
/-- waiting for a lock one holds oneself is indeed a deadlock (of the singleton set), so `ranked_no_self_wait`
    is an instance of `ranked_deadlock_free` -/
theorem self_wait_deadlocked (w : WaitSt T L) (t : T) (l : L) (hw : w.waits t = some l)
    (hh : w.holder l = some t) : w.Deadlocked :=
  ⟨[t], by simp, by simp, by intro t0 ht0; simp at ht0; subst ht0; exact ⟨l, t0, hw, hh, by simp⟩⟩

omit [DecidableEq T] [DecidableEq L] in
theorem ranked_no_self_wait_holder (w : WaitSt T L) (hc : w.Consistent) (rank : L → Nat)
    (hr : w.Ranked rank) (t : T) (l : L) (hw : w.waits t = some l) : w.holder l ≠ some t :=
  fun hh => ranked_deadlock_free w hc rank hr (self_wait_deadlocked w t l hw hh)

end Avfs.Conc
