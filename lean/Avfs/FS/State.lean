import Avfs.Path.Model
/-
  State of the in-memory file systems: a heap of nodes addressed by inode numbers (the Go pointer graph),
  views (what `subFS := *vfs` copies: root node, current directory, user, umask) and open-file handles.
  Tree shape is NOT built into the type: it is the invariant `WF` (Props/C05).
-/
namespace Avfs.FS
open Avfs.Path

abbrev Ino := Nat

/-- error values, canonicalised (PathError.Op and message text are not modelled) -/
inductive Err
  | ENOENT | EEXIST | ENOTDIR | EISDIR | ENOTEMPTY | EACCES | EPERM | EINVAL | ELOOP | EBADF
  | closed          -- fs.ErrClosed
  | invalid         -- fs.ErrInvalid
  | eof             -- io.EOF
  | negOffset       -- avfs.ErrNegativeOffset
  | fileClosing     -- avfs.ErrFileClosing
  | patternSep      -- avfs.ErrPatternHasSeparator
  deriving DecidableEq, Repr

structure Meta where
  perm : Nat               -- mode & FileModeMask (permission bits, sticky, setuid, setgid)
  uid : Int
  gid : Int
  mtime : Option Int       -- `none`: set by time.Now() (not observable); `some t`: set by Chtimes
  deriving DecidableEq, Repr

inductive Node
  | dir (m : Meta) (ch : List (Bytes × Ino))
  | file (m : Meta) (data : Bytes) (nlink : Int) (id : Nat)
  | symlink (m : Meta) (link : Bytes)
  deriving DecidableEq, Repr

def Node.meta : Node → Meta
  | .dir m _ => m
  | .file m _ _ _ => m
  | .symlink m _ => m

def Node.setMeta (n : Node) (m : Meta) : Node :=
  match n with
  | .dir _ ch => .dir m ch
  | .file _ d nl id => .file m d nl id
  | .symlink _ l => .symlink m l

def Node.isDir : Node → Bool
  | .dir _ _ => true
  | _ => false

structure Store where
  nodes : List (Ino × Node)
  next : Ino
  lastId : Nat
  deriving DecidableEq, Repr

def Store.get (s : Store) (i : Ino) : Option Node := AL.lookup i s.nodes
def Store.set (s : Store) (i : Ino) (n : Node) : Store := { s with nodes := AL.insert i n s.nodes }
def Store.alloc (s : Store) (n : Node) : Store × Ino :=
  ({ s with nodes := AL.insert s.next n s.nodes, next := s.next + 1 }, s.next)

structure View where
  root : Ino
  cwd : Bytes
  uid : Int
  gid : Int
  admin : Bool
  umask : Nat
  deriving DecidableEq, Repr

/-- MemInfo -/
structure Info where
  name : Bytes
  kind : Nat          -- 0 dir, 1 file, 2 symlink
  perm : Nat
  uid : Int
  gid : Int
  nlink : Int
  size : Nat
  id : Nat
  mtime : Option Int
  deriving DecidableEq, Repr

/-- open-file handle (MemFile / OrefaFile) -/
structure Handle where
  nd : Option Ino               -- none after Close
  name : Bytes
  pos : Int                     -- `at`: the handle offset
  om : Nat                      -- OpenMode bits
  dirEntries : Option (List Info)    -- cached listing of ReadDir(n>0) (`nil` = none)
  dirNames : Option (List Bytes)
  dirIndex : Nat
  view : Nat
  deriving DecidableEq, Repr

/-- the children map of a directory inode ([] if it is not a directory) -/
def Store.children (s : Store) (d : Ino) : List (Bytes × Ino) :=
  match s.get d with
  | some (.dir _ ch) => ch
  | _ => []

def Store.child (s : Store) (d : Ino) (name : Bytes) : Option Ino := AL.lookup name (s.children d)

/-- distinct keys of an association list in first-occurrence order -/
def alKeys {κ ν} [DecidableEq κ] (l : List (κ × ν)) : List κ := (l.map (·.1)).eraseDups

/-- byte-wise lexicographic order (Go string `<`) -/
def bytesLt : Bytes → Bytes → Bool
  | [], [] => false
  | [], _ :: _ => true
  | _ :: _, [] => false
  | a :: as, b :: bs => if a < b then true else if b < a then false else bytesLt as bs

def insertSorted (x : Bytes) : List Bytes → List Bytes
  | [] => [x]
  | y :: ys => if bytesLt x y then x :: y :: ys else y :: insertSorted x ys

def sortBytes (l : List Bytes) : List Bytes := l.foldr insertSorted []

/-- sorted names of a directory -/
def Store.names (s : Store) (d : Ino) : List Bytes := sortBytes (alKeys (s.children d))

/-! open mode bits (vfs_types.go) -/
def omLookup : Nat := 1
def omWrite : Nat := 2
def omRead : Nat := 4
def omAppend : Nat := 8
def omCreate : Nat := 16
def omExcl : Nat := 32
def omTrunc : Nat := 64

/-- ToOpenMode (Linux flag values: O_WRONLY 1, O_RDWR 2, O_CREATE 0x40, O_EXCL 0x80, O_TRUNC 0x200, O_APPEND 0x400) -/
def toOpenMode (flag : Nat) : Nat :=
  if flag &&& 0xFFF == 0 then omRead else
  let om := if flag &&& 2 != 0 then omRead ||| omWrite else 0
  let om := if flag &&& 0xC0 == 0xC0 then om ||| omCreate ||| omExcl ||| omWrite else om
  let om := if flag &&& 0x40 != 0 then om ||| omCreate ||| omWrite else om
  let om := if flag &&& 0x400 != 0 then om ||| omAppend ||| omWrite else om
  let om := if flag &&& 0x200 != 0 then om ||| omTrunc ||| omWrite else om
  let om := if flag &&& 1 != 0 then om ||| omWrite else om
  om

/-- baseNode.checkPermission -/
def checkPerm (m : Meta) (want : Nat) (v : View) : Bool :=
  if v.admin then true else
  let mode := if m.uid = v.uid then m.perm >>> 6 else if m.gid = v.gid then m.perm >>> 3 else m.perm
  let w := want &&& 7
  (mode &&& w) == w

def modeMask : Nat := 0o7777

end Avfs.FS
