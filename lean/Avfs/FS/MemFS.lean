import Avfs.FS.State
/-
  Model of vfs/memfs (memfs.go, memfs_internal.go, memfs_file.go) emulating Linux, function by function,
  keeping the Go control flow (one `if` per Go `if`, same order of checks).
  Outcomes `.hang` / `.panic` are produced exactly where the Go code deadlocks on itself / panics.
-/
namespace Avfs.FS
open Avfs.Path

inductive SlMode | lstat | stat | eval
  deriving DecidableEq, Repr

/-- what searchNode returns in `err` -/
inductive SErr | exists | noent | acces | notdir | loop | panic
  deriving DecidableEq, Repr

def SErr.toErr : SErr → Err
  | .exists => .EEXIST | .noent => .ENOENT | .acces => .EACCES | .notdir => .ENOTDIR | .loop => .ELOOP | .panic => .invalid

structure SR where
  parent : Ino
  child : Option Ino
  pi : Iter
  err : SErr
  deriving DecidableEq, Repr

def slCountMax : Nat := 40

/-- the `for pi.Next()` loop of searchNode. `saved` is the iterator captured by the deferred restoration
    (slmStat on the first final symlink). -/
def searchLoop (s : Store) (v : View) (mode : SlMode) (volNode : Ino) :
    Nat → Ino → Iter → Nat → Option Iter → SR
  | 0, parent, it, _, saved => ⟨parent, none, saved.getD it, .panic⟩     -- fuel exhausted (see searchNode_fuel)
  | fuel + 1, parent, it, slCount, saved =>
    let (it1, more) := it.next .linux
    if !more then ⟨parent, some parent, saved.getD it1, .exists⟩ else
    match it1.part with
    | none => ⟨parent, none, saved.getD it1, .panic⟩
    | some name =>
      -- a lookup in the root directory (of the view / volume) needs its search permission
      if parent == volNode && !(match s.get parent with | some (.dir m _) => checkPerm m omLookup v | _ => true) then
        ⟨parent, none, saved.getD it1, .acces⟩ else
      match s.child parent name with
      | none => ⟨parent, none, saved.getD it1, .noent⟩
      | some c =>
        match s.get c with
        | none => ⟨parent, some c, saved.getD it1, .panic⟩
        | some (.dir m _) =>
          if it1.isLast then ⟨parent, some c, saved.getD it1, .exists⟩
          else if !checkPerm m omLookup v then ⟨parent, some c, saved.getD it1, .acces⟩
          else searchLoop s v mode volNode fuel c it1 slCount saved
        | some (.file _ _ _ _) =>
          if it1.isLast then ⟨parent, some c, saved.getD it1, .exists⟩
          else ⟨parent, some c, saved.getD it1, .notdir⟩
        | some (.symlink _ link) =>
          -- the unfollowed last link is the result: it is not charged to the budget (as the kernel)
          if it1.isLast && mode == .lstat then ⟨parent, some c, saved.getD it1, .exists⟩ else
          let slCount := slCount + 1
          if slCount > slCountMax then ⟨parent, some c, saved.getD it1, .loop⟩ else
          let saved := if it1.isLast && mode == .stat && saved.isNone then some it1 else saved
          match it1.replacePart .linux link with
          | none => ⟨parent, some c, saved.getD it1, .panic⟩
          | some (it2, reset) =>
            searchLoop s v mode volNode fuel (if reset then volNode else parent) it2 slCount saved

/-- length of the longest symbolic-link target stored in the heap -/
def maxLinkLen (s : Store) : Nat :=
  s.nodes.foldl (fun acc (_, n) => match n with | .symlink _ l => max acc l.length | _ => acc) 0

/-- enough iterations for any walk: at most `slCountMax + 1` link replacements, and between two replacements the
    iterator only advances over a path no longer than the original plus the spliced targets
    (`searchNode_fuel` in Props/C04 proves that this is never exhausted) -/
def searchFuel (s : Store) (absPath : Bytes) : Nat :=
  (slCountMax + 2) * (absPath.length + (slCountMax + 2) * (maxLinkLen s + 2) + 4)

/-- searchNode -/
def searchNode (s : Store) (v : View) (path : Bytes) (mode : SlMode) : SR :=
  let absPath := abs .linux path v.cwd
  searchLoop s v mode v.root (searchFuel s absPath) v.root (Iter.new .linux absPath) 0 none

/-! ### results -/

inductive Val
  | unit
  | info (i : Info)
  | bytes (b : Bytes)
  | names (l : List Bytes)
  | infos (l : List Info)
  | handle (h : Nat)
  | num (n : Int) (b : Bytes)      -- byte count / offset plus bytes read
  | view (id : Nat)
  deriving DecidableEq, Repr

inductive Out
  | ok (v : Val)
  | err (e : Err)
  | errN (n : Int) (b : Bytes) (e : Err)     -- (n, err) results of Read/ReadAt with n bytes delivered
  | panic
  | hang
  deriving DecidableEq, Repr

/-- fillStatFrom -/
def fillStat (s : Store) (i : Ino) (name : Bytes) : Option Info :=
  match s.get i with
  | some (.dir m ch) => some ⟨name, 0, m.perm, m.uid, m.gid, 0, (alKeys ch).length, 0, m.mtime⟩
  | some (.file m d nl id) => some ⟨name, 1, m.perm, m.uid, m.gid, nl, d.length, id, m.mtime⟩
  | some (.symlink m _) => some ⟨name, 2, m.perm, m.uid, m.gid, 0, 1, 0, m.mtime⟩
  | none => none

/-- whole model state: heap, views (subFS copies), handles -/
structure FSState where
  store : Store
  views : List (Nat × View)
  handles : List (Nat × Handle)
  nextView : Nat
  nextHandle : Nat
  deriving DecidableEq, Repr

/-- createRootNode + the Linux system directories are created by the driver through `mkdirAll`/`chmod` calls,
    exactly as `NewWithOptions` does. -/
def initStore (uid gid : Int) : Store :=
  { nodes := [(0, .dir ⟨0o755, uid, gid, none⟩ [])], next := 1, lastId := 0 }

def addChild (s : Store) (parent : Ino) (name : Bytes) (c : Ino) : Store :=
  match s.get parent with
  | some (.dir m ch) => s.set parent (.dir m (AL.insert name c ch))
  | _ => s

def removeChild (s : Store) (parent : Ino) (name : Bytes) : Store :=
  match s.get parent with
  | some (.dir m ch) => s.set parent (.dir m (AL.erase name ch))
  | _ => s

/-- node.delete() -/
def deleteNode (s : Store) (i : Ino) : Store :=
  match s.get i with
  | some (.dir m _) => s.set i (.dir m [])
  | some (.file m d nl id) => s.set i (.file m d (nl - 1) id)
  | some (.symlink m _) => s.set i (.symlink m [])
  | none => s

def createDir (s : Store) (v : View) (parent : Ino) (name : Bytes) (perm : Nat) : Store × Ino :=
  let m : Meta := ⟨(perm &&& modeMask) &&& (modeMask ^^^ (v.umask &&& modeMask)), v.uid, v.gid, none⟩
  let (s1, i) := s.alloc (.dir m [])
  (addChild s1 parent name i, i)

def createFile (s : Store) (v : View) (parent : Ino) (name : Bytes) (perm : Nat) : Store × Ino :=
  let m : Meta := ⟨(perm &&& modeMask) &&& (modeMask ^^^ (v.umask &&& modeMask)), v.uid, v.gid, none⟩
  let id := s.lastId + 1
  let (s1, i) := ({ s with lastId := id }).alloc (.file m [] 1 id)
  (addChild s1 parent name i, i)

def createSymlink (s : Store) (v : View) (parent : Ino) (name link : Bytes) : Store × Ino :=
  let m : Meta := ⟨0o777, v.uid, v.gid, none⟩
  let (s1, i) := s.alloc (.symlink m link)
  (addChild s1 parent name i, i)

def dirPerm (s : Store) (d : Ino) (want : Nat) (v : View) : Bool :=
  match s.get d with
  | some n => checkPerm n.meta want v
  | none => false

def partOf (it : Iter) : Bytes := it.part.getD []

/-- fileNode.truncate -/
def truncData (d : Bytes) (size : Nat) : Bytes :=
  if size == 0 then [] else
  if size > d.length then d ++ List.replicate (size - d.length) 0 else d.take size

/-! ### path-level calls (each returns the new store and the outcome; the view may change for chdir) -/

def mkdir (s : Store) (v : View) (name : Bytes) (perm : Nat) : Store × Out :=
  if name.isEmpty then (s, .err .ENOENT) else
  let r := searchNode s v name .lstat
  if r.err != .noent || !r.pi.isLast then (s, .err r.err.toErr) else
  if !dirPerm s r.parent (omWrite ||| omLookup) v then (s, .err .EACCES) else
  let part := partOf r.pi
  if (s.child r.parent part).isSome then (s, .err .EEXIST) else
  ((createDir s v r.parent part perm).1, .ok .unit)

/-- the creation loop of MkdirAll -/
def mkdirAllLoop (v : View) (perm : Nat) : Nat → Store → Ino → Iter → Store
  | 0, s, _, _ => s
  | fuel + 1, s, dn, it =>
    let part := partOf it
    if (s.child dn part).isSome then s else
    let (s1, d1) := createDir s v dn part perm
    let (it1, more) := it.next .linux
    if !more then s1 else mkdirAllLoop v perm fuel s1 d1 it1

def mkdirAll (s : Store) (v : View) (path : Bytes) (perm : Nat) : Store × Out :=
  let r := searchNode s v path .eval
  let childNode := r.child.bind s.get
  match childNode with
  | some (.dir _ _) => if r.err != .exists then (s, .err r.err.toErr) else (s, .ok .unit)
  | some (.file _ _ _ _) => (s, .err .ENOTDIR)
  | _ =>
    if !dirPerm s r.parent (omWrite ||| omLookup) v then (s, .err .EACCES) else
    (mkdirAllLoop v perm (r.pi.path.length + 2) s r.parent r.pi, .ok .unit)

/-- OpenFile: returns the handle to register -/
def openFile (s : Store) (v : View) (vid : Nat) (name : Bytes) (flag perm : Nat) : Store × Except Err Handle :=
  if name.isEmpty then (s, .error .ENOENT) else
  let om := toOpenMode flag
  let r := searchNode s v name .eval
  if (r.err != .exists && r.err != .noent) || !r.pi.isLast then (s, .error r.err.toErr) else
  let mk (nd : Ino) (at0 : Int) : Handle :=
    { nd := some nd, name := name, pos := at0, om := om, dirEntries := none, dirNames := none, dirIndex := 0, view := vid }
  if r.err == .noent then
    if om &&& omCreate == 0 then (s, .error .ENOENT) else
    if om &&& omWrite == 0 || !dirPerm s r.parent (omWrite ||| omLookup) v then (s, .error .EACCES) else
    let part := partOf r.pi
    -- the re-check under the parent's lock never finds the child in a sequential run
    let (s1, c) := createFile s v r.parent part perm
    (s1, .ok (mk c 0))
  else
  match r.child with
  | none => (s, .error .invalid)
  | some c =>
    match s.get c with
    | some (.file m d nl id) =>
      if om &&& omExcl != 0 then (s, .error .EEXIST) else
      if !checkPerm m om v then (s, .error .EACCES) else
      let d1 := if om &&& omTrunc != 0 then [] else d
      let s1 := if om &&& omTrunc != 0 then s.set c (.file m d1 nl id) else s
      -- the append position is evaluated at each Write (see File model); `at` starts at 0
      (s1, .ok (mk c 0))
    | some (.dir m _) =>
      if om &&& omExcl != 0 then (s, .error .EEXIST) else
      if om &&& omWrite != 0 then (s, .error .EISDIR) else
      if !checkPerm m om v then (s, .error .EACCES) else (s, .ok (mk c 0))
    | _ => (s, .ok (mk c 0))

def stat (s : Store) (v : View) (path : Bytes) (mode : SlMode) : Store × Out :=
  let r := searchNode s v path mode
  match r.err, r.child with
  | .exists, some c =>
    match fillStat s c (partOf r.pi) with
    | some i => (s, .ok (.info i))
    | none => (s, .panic)
  | e, _ => (s, .err e.toErr)

def readlink (s : Store) (v : View) (name : Bytes) : Store × Out :=
  let r := searchNode s v name .lstat
  if r.err != .exists then (s, .err r.err.toErr) else
  match r.child.bind s.get with
  | some (.symlink _ l) => (s, .ok (.bytes l))
  | _ => (s, .err .EINVAL)

def evalSymlinks (s : Store) (v : View) (path : Bytes) : Store × Out :=
  let r := searchNode s v path .eval
  if r.err != .exists then (s, .err r.err.toErr) else (s, .ok (.bytes r.pi.path))

def chdir (s : Store) (v : View) (dir : Bytes) : View × Out :=
  let r := searchNode s v dir .eval
  if r.err != .exists then (v, .err r.err.toErr) else
  match r.child.bind s.get with
  | some (.dir m _) =>
    if !checkPerm m omLookup v then (v, .err .EACCES) else ({ v with cwd := r.pi.path }, .ok .unit)
  | _ => (v, .err .ENOTDIR)

def setMode (n : Node) (mode : Nat) (v : View) : Option Node :=
  match n with
  | .symlink _ _ => none
  | _ =>
    let m := n.meta
    if m.uid != v.uid && !v.admin then none
    else some (n.setMeta { m with perm := mode &&& modeMask })

def chmod (s : Store) (v : View) (name : Bytes) (mode : Nat) : Store × Out :=
  let r := searchNode s v name .eval
  match r.err, r.child with
  | .exists, some c =>
    match s.get c with
    | some n =>
      match setMode n mode v with
      | some n' => (s.set c n', .ok .unit)
      | none => (s, .err .EPERM)
    | none => (s, .panic)
  | e, _ => (s, .err e.toErr)

/-- Chown / Lchown (the identity-manager feature is on for MemFS with MemIdm) -/
def chown (s : Store) (v : View) (name : Bytes) (uid gid : Int) (mode : SlMode) : Store × Out :=
  if !v.admin then (s, .err .EPERM) else
  let r := searchNode s v name mode
  match r.err, r.child with
  | .exists, some c =>
    match s.get c with
    | some n => (s.set c (n.setMeta { n.meta with uid := (if uid == -1 then n.meta.uid else uid), gid := (if gid == -1 then n.meta.gid else gid) }), .ok .unit)
    | none => (s, .panic)
  | e, _ => (s, .err e.toErr)

def chtimes (s : Store) (v : View) (name : Bytes) (mtime : Int) : Store × Out :=
  let r := searchNode s v name .eval
  match r.err, r.child with
  | .exists, some c =>
    match s.get c with
    | some n =>
      if n.meta.uid != v.uid && !v.admin then (s, .err .EPERM)
      else (s.set c (n.setMeta { n.meta with mtime := some mtime }), .ok .unit)
    | none => (s, .panic)
  | e, _ => (s, .err e.toErr)

def link (s : Store) (v : View) (oldname newname : Bytes) : Store × Out :=
  let o := searchNode s v oldname .lstat
  match o.err, o.child with
  | .exists, some oc =>
    let n := searchNode s v newname .lstat
    if n.err != .noent then (s, .err n.err.toErr) else
    if !n.pi.isLast then (s, .err .ENOENT) else
    if !dirPerm s n.parent omWrite v then (s, .err .EACCES) else
    match s.get oc with
    | some (.file m d nl id) =>
      let s1 := addChild s n.parent (partOf n.pi) oc
      (s1.set oc (.file m d (nl + 1) id), .ok .unit)
    | _ => (s, .err .EPERM)
  | e, _ => (s, .err e.toErr)

def symlink (s : Store) (v : View) (oldname newname : Bytes) : Store × Out :=
  let n := searchNode s v newname .lstat
  if n.err != .noent then (s, .err n.err.toErr) else
  if !n.pi.isLast then (s, .err .ENOENT) else
  if !dirPerm s n.parent omWrite v then (s, .err .EACCES) else
  ((createSymlink s v n.parent (partOf n.pi) (clean .linux oldname)).1, .ok .unit)

/-- dirNode.restrictedDeletion: the sticky bit of the directory `par` forbids the caller to remove or rename the entry
    `c`: only the owner of the directory, the owner of the entry or an administrator may -/
def restrictedDeletion (s : Store) (v : View) (par c : Ino) : Bool :=
  match s.get par, s.get c with
  | some np, some nc => np.meta.perm &&& 0o1000 != 0 && !v.admin && np.meta.uid != v.uid && nc.meta.uid != v.uid
  | _, _ => false

def remove (s : Store) (v : View) (name : Bytes) : Store × Out :=
  let r := searchNode s v name .lstat
  match r.err, r.child with
  | .exists, some c =>
    if c == r.parent then (s, .err .EINVAL) else       -- the root of the view (was: self-deadlock)
    if !dirPerm s r.parent omWrite v then (s, .err .EACCES) else
    if restrictedDeletion s v r.parent c then (s, .err .EPERM) else
    match s.get c with
    | some (.dir _ ch) =>
      if (alKeys ch).length != 0 then (s, .err .ENOTEMPTY) else
      let part := partOf r.pi
      if (s.child r.parent part).isNone then (s, .err .ENOENT) else
      (deleteNode (removeChild s r.parent part) c, .ok .unit)
    | some _ =>
      let part := partOf r.pi
      if (s.child r.parent part).isNone then (s, .err .ENOENT) else
      (deleteNode (removeChild s r.parent part) c, .ok .unit)
    | none => (s, .panic)
  | e, _ => (s, .err e.toErr)

/-- removeAll (recursive helper); children are visited in name order (Go: map order; only observable when a
    permission error stops the traversal). Fuel bounds the depth. -/
def removeAllRec (v : View) : Nat → Store → Ino → Store × Option Err
  | 0, s, _ => (s, some .ELOOP)
  | fuel + 1, s, d =>
    if !dirPerm s d omWrite v then (s, some .EACCES) else
    let rec go (s : Store) : List Bytes → Store × Option Err
      | [] => (s, none)
      | nm :: rest =>
        match s.child d nm with
        | none => go s rest
        | some c =>
          match s.get c with
          | some (.dir _ _) =>
            let (s1, e) := removeAllRec v fuel s c
            match e with
            | some e => (s1, some e)
            | none =>
              -- sticky bit of `d`: an entry of another user stays (checked once the sub-directory is empty, as rm -rf)
              if restrictedDeletion s1 v d c then (s1, some .EPERM) else
              go (removeChild (deleteNode s1 c) d nm) rest
          | _ =>
            if restrictedDeletion s v d c then (s, some .EPERM) else
            go (removeChild (deleteNode s c) d nm) rest
    go s (s.names d)

def removeAll (s : Store) (v : View) (path : Bytes) : Store × Out :=
  if path.isEmpty then (s, .ok .unit) else
  let r := searchNode s v path .lstat
  if r.err == .noent then (s, .ok .unit) else
  match r.err, r.child with
  | .exists, some c =>
    if c == r.parent then (s, .err .EINVAL) else       -- the root of the view (was: self-deadlock)
    let isNonEmptyDir := match s.get c with | some (.dir _ ch) => (alKeys ch).length != 0 | _ => false
    let (s1, e) := if isNonEmptyDir then removeAllRec v s.next s c else (s, none)
    match e with
    | some e => (s1, .err e)
    | none =>
      if !dirPerm s1 r.parent omWrite v then (s1, .err .EACCES) else
      if restrictedDeletion s1 v r.parent c then (s1, .err .EPERM) else
      (deleteNode (removeChild s1 r.parent (partOf r.pi)) c, .ok .unit)
  | e, _ => (s, .err e.toErr)

def rename (s : Store) (v : View) (oldpath newpath : Bytes) : Store × Out :=
  let o := searchNode s v oldpath .lstat
  if o.err != .exists then (s, .err o.err.toErr) else
  let n := searchNode s v newpath .lstat
  if n.err != .exists && n.err != .noent then (s, .err n.err.toErr) else
  if n.err == .noent && !n.pi.isLast then (s, .err .ENOENT) else
  if !dirPerm s o.parent omWrite v then (s, .err .EACCES) else
  if n.parent != o.parent && !dirPerm s n.parent omWrite v then (s, .err .EACCES) else
  if o.pi.path == n.pi.path then (s, .ok .unit) else
  match o.child with
  | none => (s, .panic)
  | some oc =>
    -- sticky bit: an entry of another user can be neither moved away nor replaced
    if restrictedDeletion s v o.parent oc then (s, .err .EPERM) else
    if n.err == .exists && (match n.child with | some nc => restrictedDeletion s v n.parent nc | none => false) then (s, .err .EPERM) else
    let move (s : Store) : Store × Out :=
      (removeChild (addChild s n.parent (partOf n.pi) oc) o.parent (partOf o.pi), .ok .unit)
    match s.get oc with
    | some (.dir _ _) =>
      if n.err != .noent then (s, .err n.err.toErr) else
      -- a directory can't be moved into itself (the root) or below itself
      if oc == o.parent || (o.pi.path ++ [SL]).isPrefixOf n.pi.path then (s, .err .EINVAL) else
      move s
    | some _ =>
      -- fileNode (and, since the fix, symlinkNode): an existing regular file is replaced, anything else refused
      match n.child with
      | none => move s
      | some nc =>
        if n.err == .noent then move s else
        match s.get nc with
        | some (.file _ _ _ _) => if nc == oc then (s, .ok .unit) else move (deleteNode s nc)
        | some (.symlink _ _) => move (deleteNode s nc)
        | _ => (s, .err .EEXIST)
    | none => (s, .panic)

/-- maxFileSize (memfs_types.go): the content of a file is one byte slice -/
def maxFileSize : Nat := 2147483647

def truncate (s : Store) (v : View) (name : Bytes) (size : Int) : Store × Out :=
  if size < 0 || size > maxFileSize then (s, .err .EINVAL) else
  let r := searchNode s v name .eval
  if r.err != .exists then (s, .err r.err.toErr) else
  match r.child with
  | none => (s, .panic)
  | some c =>
    match s.get c with
    | some (.file m d nl id) =>
      if !checkPerm m omWrite v then (s, .err .EACCES) else
      (s.set c (.file m (truncData d size.toNat) nl id), .ok .unit)
    | _ => (s, .err .EISDIR)

/-- Sub: the new view -/
def sub (s : Store) (v : View) (dir : Bytes) : Except Err View :=
  let r := searchNode s v dir .eval
  match r.err, r.child with
  | .exists, some c =>
    match s.get c with
    | some (.dir _ _) => .ok { v with root := c }
    | _ => .error .ENOTDIR
  | e, _ => .error e.toErr

end Avfs.FS
