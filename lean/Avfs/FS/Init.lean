import Avfs.FS.Step
namespace Avfs.FS
open Avfs.Path

/-- the state `memfs.New()` builds on Linux: root directory, the system directories /home (0700), /root (0700),
    /tmp (0777) created with umask 0 by MkdirAll+Chmod, current directory "/", administrator, umask 022 -/
def initState : FSState :=
  let root : View := { root := 0, cwd := [SL], uid := 0, gid := 0, admin := true, umask := 0 }
  let st : FSState := { store := initStore 0 0, views := [(0, root)], handles := [], nextView := 1, nextHandle := 0 }
  let mk (st : FSState) (p : Bytes) (perm : Nat) : FSState :=
    let st1 := (step st 0 (.mkdirAll p perm)).1
    (step st1 0 (.chmod p perm)).1
  let st := mk (mk (mk st [47, 104, 111, 109, 101] 0o700) [47, 114, 111, 111, 116] 0o700) [47, 116, 109, 112] 0o777
  (step st 0 (.setUMask 0o022)).1


end Avfs.FS
