import Avfs.FS.Step
/-
  Model of vfs/orefafs (orefafs.go, orefafs_internal.go, orefafs_file.go) emulating Linux: one node type, a flat index
  `nodes : absolute path ↦ node` next to the children maps, no permission checks, no symbolic links, no Sub.
  Transliteration, function by function, of what the code DOES: the root is registered under the key "" (the parent
  SplitAbs gives for "/x") and under "/", children maps are nil until the first addChild.
  `.panic` / `.hang` are produced exactly where the Go code would panic / lock a mutex it already holds.
-/
namespace Avfs.Orefa
open Avfs.Path Avfs.FS

structure ONode where
  isDir : Bool
  perm : Nat
  uid : Int
  gid : Int
  mtime : Option Int
  nlink : Int
  id : Nat
  data : Bytes
  children : Option (List (Bytes × Ino))     -- `none`: the nil map
  deriving DecidableEq, Repr

def ONode.kids (n : ONode) : List (Bytes × Ino) := n.children.getD []
/-- len(nd.children) -/
def ONode.nkids (n : ONode) : Nat := (alKeys n.kids).length
/-- sorted names of the children map -/
def ONode.names (n : ONode) : List Bytes := sortBytes (alKeys n.kids)

structure OStore where
  heap : List (Ino × ONode)
  index : List (Bytes × Ino)       -- vfs.nodes
  next : Ino
  lastId : Nat
  deriving DecidableEq, Repr

/-- CurDirFn, CurUserFn, UMaskFn -/
structure OView where
  cwd : Bytes
  uid : Int
  gid : Int
  umask : Nat
  deriving DecidableEq, Repr

structure OState where
  store : OStore
  view : OView
  handles : List (Nat × Handle)
  habs : List (Nat × Bytes)        -- OrefaFile.absPath: the absolute path of each handle when it was opened
  nextHandle : Nat
  deriving DecidableEq, Repr

def OStore.get (s : OStore) (i : Ino) : Option ONode := AL.lookup i s.heap
def OStore.set (s : OStore) (i : Ino) (n : ONode) : OStore := { s with heap := AL.insert i n (AL.erase i s.heap) }
def OStore.at (s : OStore) (p : Bytes) : Option Ino := AL.lookup p s.index
def OStore.bind (s : OStore) (p : Bytes) (i : Ino) : OStore := { s with index := AL.insert p i (AL.erase p s.index) }
def OStore.unbind (s : OStore) (p : Bytes) : OStore := { s with index := AL.erase p s.index }

/-- vfs.Abs: on a relative path the current directory is joined (it is whatever SetCurDir stored) -/
def absOf (v : OView) (p : Bytes) : Bytes := abs .linux p v.cwd

/-- SplitAbs; on a path without separator the Go slice expression panics (`none`) -/
def splitAbsO (p : Bytes) : Option (Bytes × Bytes) := splitAbs .linux p

def isDirAt (s : OStore) (i : Ino) : Bool := match s.get i with | some n => n.isDir | none => false

/-- addChild: makes the map when it is nil -/
def addChildO (s : OStore) (parent : Ino) (name : Bytes) (c : Ino) : OStore :=
  match s.get parent with
  | some pn => s.set parent { pn with children := some (AL.insert name c (AL.erase name pn.kids)) }
  | none => s

/-- delete(parent.children, name): no effect on a nil map -/
def delChild (s : OStore) (parent : Ino) (name : Bytes) : OStore :=
  match s.get parent with
  | some pn => s.set parent { pn with children := pn.children.map (AL.erase name) }
  | none => s

/-- createNode (createDir / createFile compute the mode): allocates, links into the children map and the index -/
def createNode (s : OStore) (v : OView) (parent : Ino) (absPath name : Bytes) (isDir : Bool) (perm : Nat) : OStore × Ino :=
  let id := s.lastId + 1
  let nd : ONode := { isDir := isDir, perm := (perm &&& modeMask) &&& (modeMask ^^^ (v.umask &&& modeMask)),
                      uid := v.uid, gid := v.gid, mtime := none, nlink := 1, id := id, data := [], children := none }
  let i := s.next
  let s1 : OStore := { s with heap := AL.insert i nd s.heap, next := s.next + 1, lastId := id }
  ((addChildO s1 parent name i).bind absPath i, i)

/-- node.remove(): children = nil, nlink--; the content is kept (an open handle still reads and writes it) -/
def removeNode (s : OStore) (i : Ino) : OStore :=
  match s.get i with
  | some n => s.set i { n with children := none, nlink := n.nlink - 1 }
  | none => s

/-- node.setOwner: a uid or gid of -1 leaves that value unchanged -/
def setOwnerO (n : ONode) (uid gid : Int) : ONode :=
  { n with uid := if uid == -1 then n.uid else uid, gid := if gid == -1 then n.gid else gid }

/-- fillStatFrom -/
def fillStatO (s : OStore) (i : Ino) (name : Bytes) : Option Info :=
  (s.get i).map fun n =>
    ⟨name, if n.isDir then 0 else 1, n.perm, n.uid, n.gid, n.nlink, if n.isDir then n.nkids else n.data.length, n.id, n.mtime⟩

/-- the `for !parentOk { dirName, _ = SplitAbs(dirName); parent, parentOk = nodes[dirName] }` loop of Mkdir
    (`none`: SplitAbs panicked on a path without separator) -/
def ancestorLoop (s : OStore) : Nat → Bytes → Option Ino
  | 0, _ => none
  | fuel + 1, dir =>
    match splitAbsO dir with
    | none => none
    | some (d, _) =>
      match s.at d with
      | some i => some i
      | none => ancestorLoop s fuel d

/-- Mkdir -/
def mkdir (s : OStore) (v : OView) (name : Bytes) (perm : Nat) : OStore × Out :=
  if name.isEmpty then (s, .err .ENOENT) else
  let absPath := absOf v name
  match splitAbsO absPath with
  | none => (s, .panic)
  | some (dirName, fileName) =>
    if (s.at absPath).isSome then (s, .err .EEXIST) else
    match s.at dirName with
    | none =>
      match ancestorLoop s (dirName.length + 2) dirName with
      | some a => if isDirAt s a then (s, .err .ENOENT) else (s, .err .ENOTDIR)
      | none => (s, .panic)
    | some parent =>
      if !isDirAt s parent then (s, .err .ENOTDIR) else
      ((createNode s v parent absPath fileName true perm).1, .ok .unit)

inductive Chain
  | found (ds : List Bytes) (parent : Ino)
  | notDir
  | panic

/-- the ancestor search of MkdirAll: the missing paths, deepest first, and the existing ancestor -/
def missingChain (s : OStore) : Nat → Bytes → List Bytes → Chain
  | 0, _, _ => .panic
  | fuel + 1, dir, acc =>
    match s.at dir with
    | some i => if isDirAt s i then .found acc i else .notDir
    | none =>
      match splitAbsO dir with
      | none => .panic
      | some (d, _) => missingChain s fuel d (acc ++ [dir])

/-- MkdirAll: `for i := len(ds) - 1; i >= 0; i-- { parent = createDir(parent, ds[i], fileName, perm) }` walks `ds`
    (collected deepest first) backwards: the chain is created from the existing ancestor downwards -/
def mkdirAll (s : OStore) (v : OView) (path : Bytes) (perm : Nat) : OStore × Out :=
  let absPath := absOf v path
  match s.at absPath with
  | some c => if isDirAt s c then (s, .ok .unit) else (s, .err .ENOTDIR)
  | none =>
    match missingChain s (absPath.length + 2) absPath [] with
    | .panic => (s, .panic)
    | .notDir => (s, .err .ENOTDIR)
    | .found ds parent =>
      let (s', _) := ds.reverse.foldl (fun (acc : OStore × Ino) p =>
        match splitAbsO p with
        | some (_, fileName) => createNode acc.1 v acc.2 p fileName true perm
        | none => acc) (s, parent)
      (s', .ok .unit)

inductive OpenRes
  | ok (h : Handle)
  | err (e : Err)
  | panic
  deriving Repr

/-- OpenFile -/
def openFile (s : OStore) (v : OView) (name : Bytes) (flag perm : Nat) : OStore × OpenRes :=
  if name.isEmpty then (s, .err .ENOENT) else
  let om := toOpenMode flag
  let absPath := absOf v name
  let mk (nd : Ino) (pos : Nat) : Handle :=
    { nd := some nd, name := name, pos := pos, om := om, dirEntries := none, dirNames := none, dirIndex := 0, view := 0 }
  match splitAbsO absPath with
  | none => (s, .panic)
  | some (dirName, fileName) =>
    match s.at absPath with
    | none =>
      match s.at dirName with
      | none => (s, .err .ENOENT)
      | some parent =>
        if !isDirAt s parent then (s, .err .ENOTDIR) else
        if om &&& omCreate == 0 then (s, .err .ENOENT) else
        if om &&& omWrite == 0 then (s, .err .EACCES) else
        let (s1, c) := createNode s v parent absPath fileName false perm
        (s1, .ok (mk c 0))
    | some c =>
      match s.get c with
      | none => (s, .panic)
      | some n =>
        if n.isDir then
          if om &&& omWrite != 0 then (s, .err .EISDIR) else (s, .ok (mk c 0))
        else
          if om &&& omExcl != 0 then (s, .err .EEXIST) else
          let s1 := if om &&& omTrunc != 0 then s.set c { n with data := [] } else s
          (s1, .ok (mk c 0))

/-- stat (Stat, Lstat) -/
def statO (s : OStore) (v : OView) (path : Bytes) : Out :=
  let absPath := absOf v path
  match splitAbsO absPath with
  | none => .panic
  | some (dirName, fileName) =>
    match s.at absPath with
    | some c => (match fillStatO s c fileName with | some i => .ok (.info i) | none => .panic)
    | none =>
      match s.at dirName with
      | none => .err .ENOENT
      | some p => if isDirAt s p then .err .ENOENT else .err .ENOTDIR

/-- Chdir -/
def chdir (s : OStore) (v : OView) (dir : Bytes) : OView × Out :=
  let absPath := absOf v dir
  match s.at absPath with
  | none => (v, .err .ENOENT)
  | some c => if !isDirAt s c then (v, .err .ENOTDIR) else ({ v with cwd := absPath }, .ok .unit)

/-- Chmod / Chown / Lchown / Chtimes: index lookup, then the setter -/
def setAttr (s : OStore) (v : OView) (name : Bytes) (f : ONode → ONode) : OStore × Out :=
  match s.at (absOf v name) with
  | none => (s, .err .ENOENT)
  | some c =>
    match s.get c with
    | some n => (s.set c (f n), .ok .unit)
    | none => (s, .panic)

/-- Truncate (the modification time is not touched) -/
def truncate (s : OStore) (v : OView) (name : Bytes) (size : Int) : OStore × Out :=
  if size < 0 || size > maxFileSize then (s, .err .EINVAL) else       -- before the path is looked at (2 GiB limit: the content is one byte slice)
  match s.at (absOf v name) with
  | none => (s, .err .ENOENT)
  | some c =>
    match s.get c with
    | none => (s, .panic)
    | some n =>
      if n.isDir then (s, .err .EISDIR) else
      (s.set c { n with data := truncData n.data size.toNat }, .ok .unit)

/-- Remove: the root (the only node that is its own parent in the index) can't be removed -/
def remove (s : OStore) (v : OView) (name : Bytes) : OStore × Out :=
  let absPath := absOf v name
  match splitAbsO absPath with
  | none => (s, .panic)
  | some (dirName, fileName) =>
    match s.at absPath, s.at dirName with
    | some c, some p =>
      if c == p then (s, .err .EINVAL) else
      match s.get c with
      | none => (s, .panic)
      | some n =>
        if n.isDir && n.nkids != 0 then (s, .err .ENOTEMPTY) else
        ((delChild (removeNode s c) p fileName).unbind absPath, .ok .unit)
    | _, _ => (s, .err .ENOENT)

/-- removeAll(absPath, node): the children MAP of a directory is followed, the index entries deleted are those of
    the paths composed on the way. `none`: the recursion does not end (the fuel, one more than the number of nodes, is
    only exhausted when the children maps form a cycle) -/
def removeAllRec : Nat → OStore → Bytes → Ino → Option OStore
  | 0, _, _, _ => none
  | fuel + 1, s, absPath, i =>
    let s1 : Option OStore := match s.get i with
      | some n =>
        if n.isDir then
          n.names.foldl (fun acc nm =>
            match acc, AL.lookup nm n.kids with
            | some a, some c => removeAllRec fuel a (absPath ++ [SL] ++ nm) c
            | acc, _ => acc) (some s)
        else some s
      | none => some s
    s1.map fun s1 => (removeNode s1 i).unbind absPath

/-- RemoveAll: the node and everything below it are released (once) by removeAll, then the entry is deleted from the
    parent; on a cyclic children graph removeAll would recurse for ever (`.hang`; no call builds a cycle any more) -/
def removeAll (s : OStore) (v : OView) (path : Bytes) : OStore × Out :=
  if path.isEmpty then (s, .ok .unit) else
  let absPath := absOf v path
  match splitAbsO absPath with
  | none => (s, .panic)
  | some (dirName, fileName) =>
    match s.at absPath, s.at dirName with
    | some c, some p =>
      if c == p then (s, .err .EINVAL) else       -- the root can't be removed
      match removeAllRec (s.next + 1) s absPath c with
      | none => (s, .hang)
      | some s1 => (delChild s1 p fileName, .ok .unit)
    | _, _ => (s, .ok .unit)

/-- Link: the new parent must be a directory (ENOTDIR) and the old node a file (EPERM); both are checked before the
    two nodes are locked (a file and a directory: never the same node) -/
def link (s : OStore) (v : OView) (o n : Bytes) : OStore × Out :=
  let oAbs := absOf v o
  let nAbs := absOf v n
  match splitAbsO nAbs with
  | none => (s, .panic)
  | some (nDir, nFile) =>
    match s.at oAbs with
    | none => (s, .err .ENOENT)
    | some oc =>
      match s.at nDir with
      | none => (s, .err .ENOENT)
      | some np =>
        if !isDirAt s np then (s, .err .ENOTDIR) else
        if isDirAt s oc then (s, .err .EPERM) else
        if (s.at nAbs).isSome then (s, .err .EEXIST) else
        let s1 := addChildO (s.bind nAbs oc) np nFile oc
        match s1.get oc with
        | some on => (s1.set oc { on with nlink := on.nlink + 1 }, .ok .unit)
        | none => (s, .panic)

/-- the index rewrite of a directory rename: every key below the old path moves below the new one (the new path is
    never below the old one, so the keys the Go loop inserts are not candidates of the loop: its result does not depend
    on the map iteration order) -/
def reindex (idx : List (Bytes × Ino)) (oAbs nAbs : Bytes) : List (Bytes × Ino) :=
  let oRoot := oAbs ++ [SL]
  (alKeys idx).foldl (fun acc k =>
    if oRoot.isPrefixOf k then
      match AL.lookup k idx with
      | some i => AL.insert (nAbs ++ k.drop oAbs.length) i (AL.erase (nAbs ++ k.drop oAbs.length) (AL.erase k acc))
      | none => acc
    else acc) idx

/-- Rename: the old path must exist (also when both paths are the same), the new parent must be a directory (ENOTDIR),
    a directory is not moved below itself (EINVAL), a replaced file is released; the entry is added with addChild (which
    makes the map) -/
def rename (s : OStore) (v : OView) (o n : Bytes) : OStore × Out :=
  let oAbs := absOf v o
  let nAbs := absOf v n
  match splitAbsO oAbs, splitAbsO nAbs with
  | some (oDir, oFile), some (nDir, nFile) =>
    match s.at oAbs, s.at oDir, s.at nDir with
    | some oc, some op, some np =>
      if oAbs == nAbs then (s, .ok .unit) else
      if !isDirAt s np then (s, .err .ENOTDIR) else
      let nc := s.at nAbs
      let ocDir := isDirAt s oc
      -- the root is not moved; a directory is not moved into itself or below itself
      if oc == op || (ocDir && (oAbs ++ [SL]).isPrefixOf nAbs) then (s, .err .EINVAL) else
      if (ocDir && nc.isSome) || (!ocDir && (match nc with | some c => isDirAt s c | none => false)) then (s, .err .EEXIST) else
      -- old and new are hard links to the same file: nothing to do
      if nc == some oc then (s, .ok .unit) else
      -- the replaced file loses this name
      let s0 := match nc with | some c => removeNode s c | none => s
      let s1 := addChildO s0 np nFile oc
      let s2 := delChild s1 op oFile
      let s3 := (s2.bind nAbs oc).unbind oAbs
      let s4 := if ocDir then { s3 with index := reindex s3.index oAbs nAbs } else s3
      (s4, .ok .unit)
    | _, _, _ => (s, .err .ENOENT)
  | _, _ => (s, .panic)

/-! ### orefafs_file.go -/

/-- node.dirEntries(): sorted infos, nil when empty -/
def dirEntriesO (s : OStore) (n : ONode) : Option (List Info) :=
  if n.nkids == 0 then none else
  some (n.names.filterMap fun nm => (AL.lookup nm n.kids).bind fun c => fillStatO s c nm)

/-- node.dirNames() -/
def dirNamesO (n : ONode) : Option (List Bytes) := if n.nkids == 0 then none else some n.names

/-- the methods of OrefaFile; differences with MemFile: Chdir stores the absolute path the file had when it was opened
    (`ap`), Chmod / Chown check nothing -/
def fileStep (s : OStore) (v : OView) (h : Handle) (ap : Bytes) (op : FOp) : OStore × OView × Handle × Out :=
  let closedErr : Err := match op with
    | .stat | .readDir _ | .readdirnames _ => .fileClosing
    | _ => .closed
  match op with
  | .close =>
    match h.nd with
    | none => if h.name.isEmpty then (s, v, h, .err .invalid) else (s, v, h, .err .closed)
    | some _ => (s, v, { h with nd := none, dirEntries := none, dirNames := none }, .ok .unit)
  | _ =>
  if (match op with | .writeAt _ off => decide (off < 0) | _ => false) then (s, v, h, .err .negOffset) else
  if h.name.isEmpty then (s, v, h, .err .invalid) else
  match h.nd with
  | none => (s, v, h, .err closedErr)
  | some i =>
  match s.get i with
  | none => (s, v, h, .panic)
  | some n =>
  match op with
  | .read k =>
    if n.isDir then (s, v, h, .err .EISDIR) else
    if h.om &&& omRead == 0 then (s, v, h, .err .EBADF) else
    if h.pos < 0 then (s, v, h, .panic) else
    let bs := (n.data.drop h.pos.toNat).take k      -- nothing is copied at or beyond the end
    if bs.isEmpty && k != 0 then (s, v, h, .errN 0 [] .eof)
    else (s, v, { h with pos := h.pos + bs.length }, .ok (.num bs.length bs))
  | .readAt k off =>
    if n.isDir then (s, v, h, .err .EISDIR) else
    if off < 0 then (s, v, h, .err .negOffset) else
    if h.om &&& omRead == 0 then (s, v, h, .err .EBADF) else
    if k == 0 then (s, v, h, .ok (.num 0 [])) else
    if off.toNat > n.data.length then (s, v, h, .errN 0 [] .eof) else
    let bs := (n.data.drop off.toNat).take k
    if bs.length < k then (s, v, h, .errN bs.length bs .eof) else (s, v, h, .ok (.num bs.length bs))
  | .write b =>
    if n.isDir then (s, v, h, .err .EBADF) else
    if h.om &&& omWrite == 0 then (s, v, h, .err .EBADF) else
    if b.isEmpty then (s, v, h, .ok (.num 0 [])) else
    if h.pos < 0 then (s, v, h, .panic) else
    -- O_APPEND: every write lands at the current end of the file
    let pos := if h.om &&& omAppend != 0 then n.data.length else h.pos.toNat
    if pos + b.length > maxFileSize then (s, v, h, .err .EINVAL) else     -- the file would grow beyond the maximum size
    -- an offset beyond the end: the gap is filled with zeros
    let d1 := if pos > n.data.length then n.data ++ List.replicate (pos - n.data.length) 0 else n.data
    let d' := d1.take pos ++ b ++ d1.drop (pos + b.length)
    (s.set i { n with data := d', mtime := none }, v, { h with pos := (pos + b.length : Nat) }, .ok (.num b.length []))
  | .writeAt b off =>
    if n.isDir then (s, v, h, .err .EBADF) else
    if h.om &&& omWrite == 0 then (s, v, h, .err .EBADF) else
    if b.isEmpty then (s, v, h, .ok (.num 0 [])) else
    let pos := off.toNat
    if pos + b.length > maxFileSize then (s, v, h, .err .EINVAL) else
    let d1 := if pos + b.length > n.data.length then n.data ++ List.replicate (pos + b.length - n.data.length) 0 else n.data
    let d' := d1.take pos ++ b ++ d1.drop (pos + b.length)
    (s.set i { n with data := d', mtime := none }, v, h, .ok (.num b.length []))
  | .seek off whence =>
    if n.isDir then (s, v, h, .ok (.num 0 [])) else
    let size : Int := n.data.length
    if whence == 0 then
      if off < 0 || off > 9223372036854775807 then (s, v, h, .err .EINVAL) else (s, v, { h with pos := off }, .ok (.num off []))
    else if whence == 1 then
      if h.pos + off < 0 || h.pos + off > 9223372036854775807 then (s, v, h, .err .EINVAL)    -- int64 wrap-around
      else (s, v, { h with pos := h.pos + off }, .ok (.num (h.pos + off) []))
    else if whence == 2 then
      if size + off < 0 || size + off > 9223372036854775807 then (s, v, h, .err .EINVAL)
      else (s, v, { h with pos := size + off }, .ok (.num (size + off) []))
    else (s, v, h, .err .EINVAL)
  | .truncate size =>
    if n.isDir then (s, v, h, .err .EINVAL) else
    if h.om &&& omWrite == 0 then (s, v, h, .err .EINVAL) else
    if size < 0 || size > maxFileSize then (s, v, h, .err .EINVAL) else
    (s.set i { n with data := truncData n.data size.toNat, mtime := none }, v, h, .ok .unit)
  | .stat =>
    match fillStatO s i (base .linux h.name) with
    | some inf => (s, v, h, .ok (.info inf))
    | none => (s, v, h, .panic)
  | .sync => (s, v, h, .ok .unit)
  | .chmod mode => (s.set i { n with perm := mode &&& modeMask }, v, h, .ok .unit)
  | .chown uid gid => (s.set i (setOwnerO n uid gid), v, h, .ok .unit)
  | .chdir =>
    if !n.isDir then (s, v, h, .err .ENOTDIR) else (s, { v with cwd := ap }, h, .ok .unit)
  | .close => (s, v, h, .panic)       -- handled above
  | .readDir k =>
    if !n.isDir then (s, v, h, .err .ENOTDIR) else
    let fresh := k ≤ 0 || h.dirEntries.isNone
    let listing := if fresh then dirEntriesO s n else h.dirEntries
    let idx := if fresh then 0 else h.dirIndex
    if k ≤ 0 then (s, v, { h with dirIndex := 0, dirEntries := none }, .ok (.infos (listing.getD [])))
    else
      let l := listing.getD []
      if idx ≥ l.length then (s, v, { h with dirIndex := 0, dirEntries := none }, .errN 0 [] .eof)
      else
        let stop := min (idx + k.toNat) l.length
        (s, v, { h with dirIndex := stop, dirEntries := listing }, .ok (.infos ((l.take stop).drop idx)))
  | .readdirnames k =>
    if !n.isDir then (s, v, h, .err .ENOTDIR) else
    let fresh := k ≤ 0 || h.dirNames.isNone
    let listing := if fresh then dirNamesO n else h.dirNames
    let idx := if fresh then 0 else h.dirIndex
    if k ≤ 0 then (s, v, { h with dirIndex := 0, dirNames := none }, .ok (.names (listing.getD [])))
    else
      let l := listing.getD []
      if idx ≥ l.length then (s, v, { h with dirIndex := 0, dirNames := none }, .errN 0 [] .eof)
      else
        let stop := min (idx + k.toNat) l.length
        (s, v, { h with dirIndex := stop, dirNames := listing }, .ok (.names ((l.take stop).drop idx)))

/-! ### the composites of vfs.go on OrefaFS and the step function -/

def withStore (st : OState) (r : OStore × Out) : OState × Out := ({ st with store := r.1 }, r.2)

def registerHandle (st : OState) (s : OStore) (r : OpenRes) (ap : Bytes) : OState × Out :=
  match r with
  | .panic => (st, .panic)
  | .err e => ({ st with store := s }, .err e)
  | .ok h =>
    ({ st with store := s, handles := AL.insert st.nextHandle h st.handles,
               habs := AL.insert st.nextHandle ap st.habs, nextHandle := st.nextHandle + 1 },
      .ok (.handle st.nextHandle))

/-- avfs.ReadFile: Open, f.Stat() (its error is ignored, its panic is not), Read until io.EOF -/
def readFile (s : OStore) (v : OView) (name : Bytes) : Out :=
  match openFile s v name 0 0 with
  | (_, .panic) => .panic
  | (_, .err e) => .err e
  | (s1, .ok h) =>
    match (fileStep s1 v h (absOf v name) .stat).2.2.2 with
    | .panic => .panic
    | _ =>
      match (fileStep s1 v h (absOf v name) (.read 512)).2.2.2 with
      | .err e => .err e
      | .panic => .panic
      | _ =>
        match h.nd.bind s1.get with
        | some n => .ok (.bytes n.data)
        | none => .panic

/-- avfs.ReadDir: Open, f.ReadDir(-1) -/
def readDir (s : OStore) (v : OView) (name : Bytes) : Out :=
  match openFile s v name 0 0 with
  | (_, .panic) => .panic
  | (_, .err e) => .err e
  | (s1, .ok h) => (fileStep s1 v h (absOf v name) (.readDir (-1))).2.2.2

def step (st : OState) (c : Call) : OState × Out :=
  let s := st.store
  let v := st.view
  match c with
  | .mkdir p perm => withStore st (mkdir s v p perm)
  | .mkdirAll p perm => withStore st (mkdirAll s v p perm)
  | .openFile p flag perm => let (s1, r) := openFile s v p flag perm; registerHandle st s1 r (absOf v p)
  | .create p => let (s1, r) := openFile s v p oRDWR_CREATE_TRUNC 0o666; registerHandle st s1 r (absOf v p)
  | .remove p => withStore st (remove s v p)
  | .removeAll p => withStore st (removeAll s v p)
  | .rename o n => withStore st (rename s v o n)
  | .link o n => withStore st (link s v o n)
  | .symlink _ _ => (st, .err .EACCES)
  | .truncate p sz => withStore st (truncate s v p sz)
  | .chmod p m => withStore st (setAttr s v p fun n => { n with perm := m &&& modeMask })
  | .chown p u g => withStore st (setAttr s v p fun n => setOwnerO n u g)
  | .lchown p u g => withStore st (setAttr s v p fun n => setOwnerO n u g)
  | .chtimes p t => withStore st (setAttr s v p fun n => { n with mtime := some t })
  | .chdir p => let (v1, o) := chdir s v p; ({ st with view := v1 }, o)
  | .stat p => (st, statO s v p)
  | .lstat p => (st, statO s v p)
  | .readDir p => (st, readDir s v p)
  | .readFile p => (st, readFile s v p)
  | .readlink _ => (st, .err .EACCES)
  | .evalSymlinks _ => (st, .err .EACCES)
  | .getwd => (st, .ok (.bytes v.cwd))
  | .writeFile p data perm =>
    match openFile s v p oWRONLY_CREATE_TRUNC perm with
    | (_, .panic) => (st, .panic)
    | (s1, .err e) => ({ st with store := s1 }, .err e)
    | (s1, .ok h) =>
      let (s2, _, _, o) := fileStep s1 v h (absOf v p) (.write data)
      ({ st with store := s2 }, match o with | .ok _ => .ok .unit | o => o)
  | .mkdirTemp dir pat rnd =>
    let dir := if dir.isEmpty then tempDir else dir
    match prefixAndSuffix pat with
    | none => (st, .err .patternSep)
    | some (pre, suf) =>
      let name := joinPath dir pre ++ rnd ++ suf
      match mkdir s v name 0o700 with
      | (s1, .ok _) => ({ st with store := s1 }, .ok (.bytes name))
      | (_, o) => (st, o)          -- ENOENT: Stat(dir) is consulted, the error returned has the same kind
  | .createTemp dir pat rnd =>
    let dir := if dir.isEmpty then tempDir else dir
    match prefixAndSuffix pat with
    | none => (st, .err .patternSep)
    | some (pre, suf) =>
      let name := joinPath dir pre ++ rnd ++ suf
      let (s1, r) := openFile s v name oRDWR_CREATE_EXCL 0o600
      registerHandle st s1 r (absOf v name)
  | .sub _ => (st, .err .EACCES)
  | .setUser uid gid _ => ({ st with view := { v with uid := uid, gid := gid } }, .ok .unit)
  | .setUMask m => ({ st with view := { v with umask := m } }, .ok .unit)
  | .file hid op =>
    match AL.lookup hid st.handles with
    | none => (st, .err .invalid)
    | some h =>
      let (s1, v1, h1, o) := fileStep s v h ((AL.lookup hid st.habs).getD []) op
      ({ st with store := s1, view := v1, handles := AL.insert hid h1 (AL.erase hid st.handles) }, o)

/-- the uid and gid of avfs.NotImplementedIdm.AdminUser(): math.MaxInt -/
def dummyId : Int := 9223372036854775807

/-- the state `orefafs.New()` builds on Linux: the root node registered under "" (the parent SplitAbs gives for "/x") and
    under "/" (uid 0, gid 0, nlink 0, nil children),
    /home (0700), /root (0700), /tmp (0777) made by MkdirAll + Chmod with umask 0, current directory "/", umask 022 -/
def initState (uid gid : Int) : OState :=
  let root : ONode := { isDir := true, perm := 0o755, uid := 0, gid := 0, mtime := none, nlink := 0, id := 0, data := [], children := none }
  let st : OState := { store := { heap := [(0, root)], index := [([], 0), ([SL], 0)], next := 1, lastId := 0 },
                       view := { cwd := [SL], uid := uid, gid := gid, umask := 0 }, handles := [], habs := [], nextHandle := 0 }
  let mk (st : OState) (p : Bytes) (perm : Nat) : OState :=
    (step (step st (.mkdirAll p perm)).1 (.chmod p perm)).1
  let st := mk (mk (mk st [47, 104, 111, 109, 101] 0o700) [47, 114, 111, 111, 116] 0o700) [47, 116, 109, 112] 0o777
  (step st (.setUMask 0o022)).1

end Avfs.Orefa
