import Avfs.FS.State
/-
  Model of vfs/orefafs (orefafs.go, orefafs_internal.go, orefafs_file.go) emulating Linux: one node type, a flat index
  `nodes : absolute path ↦ node` next to the children maps, no permission checks, no symbolic links, no Sub.
  Transliteration, function by function (the root is registered under the key "" — addressing it as "/" fails, as in
  the Go code: recorded finding).
-/
namespace Avfs.Orefa
open Avfs.Path Avfs.FS

structure ONode where
  isDir : Bool
  perm : Nat
  uid : Int
  gid : Int
  mtime : Option Int
  nlink : Int
  id : Nat
  data : Bytes
  children : List (Bytes × Ino)
  deriving DecidableEq, Repr

structure OStore where
  heap : List (Ino × ONode)
  index : List (Bytes × Ino)       -- vfs.nodes
  next : Ino
  lastId : Nat
  deriving DecidableEq, Repr

structure OView where
  cwd : Bytes
  uid : Int
  gid : Int
  umask : Nat
  deriving DecidableEq, Repr

structure OState where
  store : OStore
  view : OView
  handles : List (Nat × Handle)
  nextHandle : Nat
  deriving DecidableEq, Repr

def OStore.get (s : OStore) (i : Ino) : Option ONode := AL.lookup i s.heap
def OStore.set (s : OStore) (i : Ino) (n : ONode) : OStore := { s with heap := AL.insert i n s.heap }
def OStore.at (s : OStore) (p : Bytes) : Option Ino := AL.lookup p s.index
def OStore.bind (s : OStore) (p : Bytes) (i : Ino) : OStore := { s with index := AL.insert p i s.index }
def OStore.unbind (s : OStore) (p : Bytes) : OStore := { s with index := AL.erase p s.index }

def absOf (v : OView) (p : Bytes) : Bytes := abs .linux p v.cwd

/-- SplitAbs; on a path without separator the Go slice expression panics -/
def splitAbsO (p : Bytes) : Option (Bytes × Bytes) := splitAbs .linux p

inductive Out
  | ok (v : Val)
  | err (e : Err)
  | errN (n : Int) (b : Bytes) (e : Err)
  | panic
  | hang
  deriving DecidableEq, Repr

def isDirAt (s : OStore) (i : Ino) : Bool := match s.get i with | some n => n.isDir | none => false

/-- createNode: locks the parent, allocates, links into the children map and the index -/
def createNode (s : OStore) (v : OView) (parent : Ino) (absPath name : Bytes) (isDir : Bool) (perm : Nat) : OStore × Ino :=
  let id := s.lastId + 1
  let nd : ONode := { isDir := isDir, perm := (perm &&& modeMask) &&& (modeMask ^^^ (v.umask &&& modeMask)),
                      uid := v.uid, gid := v.gid, mtime := none, nlink := 1, id := id, data := [], children := [] }
  let i := s.next
  let s1 : OStore := { s with heap := AL.insert i nd s.heap, next := s.next + 1, lastId := id }
  let s2 := match s1.get parent with
    | some pn => s1.set parent { pn with children := AL.insert name i pn.children }
    | none => s1
  (s2.bind absPath i, i)

/-- node.remove(): children = nil, nlink-- (the content is kept for open handles since the repair) -/
def removeNode (s : OStore) (i : Ino) : OStore :=
  match s.get i with
  | some n => s.set i { n with children := [], nlink := n.nlink - 1 }
  | none => s

def delChild (s : OStore) (parent : Ino) (name : Bytes) : OStore :=
  match s.get parent with
  | some pn => s.set parent { pn with children := AL.erase name pn.children }
  | none => s

def fillStatO (s : OStore) (i : Ino) (name : Bytes) : Option Info :=
  (s.get i).map fun n =>
    ⟨name, if n.isDir then 0 else 1, n.perm, n.uid, n.gid, n.nlink,
     if n.isDir then (alKeys n.children).length else n.data.length, n.id, n.mtime⟩

/-- the `for !parentOk { dirName, _ = SplitAbs(dirName); parent, parentOk = nodes[dirName] }` loop of Mkdir -/
def ancestorLoop (s : OStore) : Nat → Bytes → Option Ino
  | 0, _ => none
  | fuel + 1, dir =>
    match splitAbsO dir with
    | none => none
    | some (d, _) =>
      match s.at d with
      | some i => some i
      | none => ancestorLoop s fuel d

def mkdir (s : OStore) (v : OView) (name : Bytes) (perm : Nat) : OStore × Out :=
  if name.isEmpty then (s, .err .ENOENT) else
  let absPath := absOf v name
  match splitAbsO absPath with
  | none => (s, .panic)
  | some (dirName, fileName) =>
    if (s.at absPath).isSome then (s, .err .EEXIST) else
    match s.at dirName with
    | none =>
      match ancestorLoop s (dirName.length + 2) dirName with
      | some a => if isDirAt s a then (s, .err .ENOENT) else (s, .err .ENOTDIR)
      | none => (s, .panic)
    | some parent =>
      if !isDirAt s parent then (s, .err .ENOTDIR) else
      ((createNode s v parent absPath fileName true perm).1, .ok .unit)

/-- the ancestor search of MkdirAll: the missing paths (deepest first) and the existing ancestor -/
def missingChain (s : OStore) : Nat → Bytes → List Bytes → Option (List Bytes × Ino)
  | 0, _, _ => none
  | fuel + 1, dir, acc =>
    match s.at dir with
    | some i => some (acc, i)
    | none =>
      match splitAbsO dir with
      | none => none
      | some (d, _) => missingChain s fuel d (acc ++ [dir])

def mkdirAll (s : OStore) (v : OView) (path : Bytes) (perm : Nat) : OStore × Out :=
  let absPath := absOf v path
  match s.at absPath with
  | some c => if isDirAt s c then (s, .ok .unit) else (s, .err .ENOTDIR)
  | none =>
    match missingChain s (absPath.length + 2) absPath [] with
    | none => (s, .panic)
    | some (ds, parent) =>
      if !isDirAt s parent then (s, .err .ENOTDIR) else
      -- the missing directories are created from the existing ancestor downwards (since the repair)
      let (s', _) := ds.reverse.foldl (fun (acc : OStore × Ino) p =>
        match splitAbsO p with
        | some (_, fileName) => createNode acc.1 v acc.2 p fileName true perm
        | none => acc) (s, parent)
      (s', .ok .unit)

def openFile (s : OStore) (v : OView) (name : Bytes) (flag perm : Nat) : OStore × Except Err Handle ⊕ Unit :=
  let om := toOpenMode flag
  let absPath := absOf v name
  let mk (nd : Ino) : Handle :=
    { nd := some nd, name := name, pos := 0, om := om, dirEntries := none, dirNames := none, dirIndex := 0, view := 0 }
  match splitAbsO absPath with
  | none => (s, .inr ())
  | some (dirName, fileName) =>
    match s.at absPath with
    | none =>
      match s.at dirName with
      | none => (s, .inl (.error .ENOENT))
      | some parent =>
        if !isDirAt s parent then (s, .inl (.error .ENOTDIR)) else
        if om &&& omCreate == 0 then (s, .inl (.error .ENOENT)) else
        if om &&& omWrite == 0 then (s, .inl (.error .EACCES)) else
        let (s1, c) := createNode s v parent absPath fileName false perm
        (s1, .inl (.ok (mk c)))
    | some c =>
      match s.get c with
      | none => (s, .inr ())
      | some n =>
        if n.isDir then
          if om &&& omWrite != 0 then (s, .inl (.error .EISDIR)) else (s, .inl (.ok (mk c)))
        else
          if om &&& omExcl != 0 then (s, .inl (.error .EEXIST)) else
          let s1 := if om &&& omTrunc != 0 then s.set c { n with data := [] } else s
          (s1, .inl (.ok (mk c)))

def statO (s : OStore) (v : OView) (path : Bytes) : Out :=
  let absPath := absOf v path
  match splitAbsO absPath with
  | none => .panic
  | some (dirName, fileName) =>
    match s.at absPath with
    | some c => (match fillStatO s c fileName with | some i => .ok (.info i) | none => .panic)
    | none =>
      match s.at dirName with
      | none => .err .ENOENT
      | some p => if isDirAt s p then .err .ENOENT else .err .ENOTDIR

def chdir (s : OStore) (v : OView) (dir : Bytes) : OView × Out :=
  let absPath := absOf v dir
  match s.at absPath with
  | none => (v, .err .ENOENT)
  | some c => if !isDirAt s c then (v, .err .ENOTDIR) else ({ v with cwd := absPath }, .ok .unit)

def setAttr (s : OStore) (v : OView) (name : Bytes) (f : ONode → ONode) : OStore × Out :=
  match s.at (absOf v name) with
  | none => (s, .err .ENOENT)
  | some c =>
    match s.get c with
    | some n => (s.set c (f n), .ok .unit)
    | none => (s, .panic)

def truncate (s : OStore) (v : OView) (name : Bytes) (size : Int) : OStore × Out :=
  match s.at (absOf v name) with
  | none => (s, .err .ENOENT)
  | some c =>
    match s.get c with
    | none => (s, .panic)
    | some n =>
      if n.isDir then (s, .err .EISDIR) else
      if size < 0 then (s, .err .EINVAL) else
      (s.set c { n with data := truncData n.data size.toNat }, .ok .unit)

def remove (s : OStore) (v : OView) (name : Bytes) : OStore × Out :=
  let absPath := absOf v name
  match splitAbsO absPath with
  | none => (s, .panic)
  | some (dirName, fileName) =>
    match s.at absPath, s.at dirName with
    | some c, some p =>
      if c == p then (s, .hang) else
      match s.get c with
      | none => (s, .panic)
      | some n =>
        if n.isDir && (alKeys n.children).length != 0 then (s, .err .ENOTEMPTY) else
        ((delChild (removeNode s c) p fileName).unbind absPath, .ok .unit)
    | _, _ => (s, .err .ENOENT)

/-- removeAll(absPath, node): recursive release of a subtree, index entries included -/
def removeAllRec : Nat → OStore → Bytes → Ino → OStore
  | 0, s, _, _ => s
  | fuel + 1, s, absPath, i =>
    let s1 := match s.get i with
      | some n =>
        if n.isDir then
          (sortBytes (alKeys n.children)).foldl (fun acc nm =>
            match AL.lookup nm n.children with
            | some c => removeAllRec fuel acc (absPath ++ [SL] ++ nm) c
            | none => acc) s
        else s
      | none => s
    (removeNode s1 i).unbind absPath

def removeAll (s : OStore) (v : OView) (path : Bytes) : OStore × Out :=
  if path.isEmpty then (s, .ok .unit) else
  let absPath := absOf v path
  match splitAbsO absPath with
  | none => (s, .panic)
  | some (dirName, fileName) =>
    match s.at absPath, s.at dirName with
    | some c, some p =>
      let s1 := if isDirAt s c then removeAllRec s.next s absPath c else s
      ((delChild (removeNode s1 c) p fileName).unbind absPath, .ok .unit)
    | _, _ => (s, .ok .unit)

def link (s : OStore) (v : OView) (o n : Bytes) : OStore × Out :=
  let oAbs := absOf v o
  let nAbs := absOf v n
  match splitAbsO nAbs with
  | none => (s, .panic)
  | some (nDir, nFile) =>
    match s.at oAbs with
    | none => (s, .err .ENOENT)
    | some oc =>
      match s.at nDir with
      | none => (s, .err .ENOENT)
      | some np =>
        if isDirAt s oc then (s, .err .EPERM) else
        if (s.at nAbs).isSome then (s, .err .EEXIST) else
        match s.get oc, s.get np with
        | some on, some pn =>
          let s1 := (s.bind nAbs oc).set np { pn with children := AL.insert nFile oc pn.children }
          (s1.set oc { on with nlink := on.nlink + 1 }, .ok .unit)
        | _, _ => (s, .panic)

/-- the index rewrite of a directory rename: every key below the old path moves below the new one -/
def reindex (idx : List (Bytes × Ino)) (oAbs nAbs : Bytes) : List (Bytes × Ino) :=
  let oRoot := oAbs ++ [SL]
  (alKeys idx).filterMap fun k =>
    (AL.lookup k idx).map fun i => if oRoot.isPrefixOf k then (nAbs ++ k.drop oAbs.length, i) else (k, i)

def rename (s : OStore) (v : OView) (o n : Bytes) : OStore × Out :=
  let oAbs := absOf v o
  let nAbs := absOf v n
  if oAbs == nAbs then (s, .ok .unit) else
  match splitAbsO oAbs, splitAbsO nAbs with
  | some (oDir, oFile), some (nDir, nFile) =>
    match s.at oAbs, s.at oDir, s.at nDir with
    | some oc, some op, some np =>
      let nc := s.at nAbs
      let ocDir := isDirAt s oc
      if (ocDir && nc.isSome) || (!ocDir && (match nc with | some c => isDirAt s c | none => false)) then (s, .err .EEXIST) else
      match s.get np with
      | none => (s, .panic)
      | some npn =>
        let s1 := s.set np { npn with children := AL.insert nFile oc npn.children }
        let s2 := delChild s1 op oFile
        let s3 := (s2.bind nAbs oc).unbind oAbs
        let s4 := if ocDir then { s3 with index := reindex s3.index oAbs nAbs } else s3
        (s4, .ok .unit)
    | _, _, _ => (s, .err .ENOENT)
  | _, _ => (s, .panic)

end Avfs.Orefa
