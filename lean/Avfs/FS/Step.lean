import Avfs.FS.File
/-
  The composite helpers of vfs.go (Create, ReadDir, ReadFile, WriteFile, MkdirTemp, CreateTemp) instantiated on the
  MemFS model, and the single `step` function over all calls of a view.
-/
namespace Avfs.FS
open Avfs.Path

inductive Call
  | mkdir (p : Bytes) (perm : Nat)
  | mkdirAll (p : Bytes) (perm : Nat)
  | openFile (p : Bytes) (flag perm : Nat)
  | create (p : Bytes)
  | remove (p : Bytes)
  | removeAll (p : Bytes)
  | rename (o n : Bytes)
  | link (o n : Bytes)
  | symlink (o n : Bytes)
  | truncate (p : Bytes) (size : Int)
  | chmod (p : Bytes) (mode : Nat)
  | chown (p : Bytes) (uid gid : Int)
  | lchown (p : Bytes) (uid gid : Int)
  | chtimes (p : Bytes) (mtime : Int)
  | chdir (p : Bytes)
  | stat (p : Bytes)
  | lstat (p : Bytes)
  | readDir (p : Bytes)
  | readFile (p : Bytes)
  | readlink (p : Bytes)
  | evalSymlinks (p : Bytes)
  | getwd
  | writeFile (p : Bytes) (data : Bytes) (perm : Nat)
  | mkdirTemp (dir pat rnd : Bytes)
  | createTemp (dir pat rnd : Bytes)
  | sub (p : Bytes)
  | setUser (uid gid : Int) (admin : Bool)
  | setUMask (m : Nat)
  | file (h : Nat) (op : FOp)
  deriving DecidableEq, Repr

def oRDWR_CREATE_TRUNC : Nat := 0x242
def oWRONLY_CREATE_TRUNC : Nat := 0x241
def oRDWR_CREATE_EXCL : Nat := 0xC2

/-- prefixAndSuffix -/
def prefixAndSuffix (pat : Bytes) : Option (Bytes × Bytes) :=
  if pat.any (isSep .linux) then none else
  let suf := (pat.reverse.takeWhile (· != STAR)).reverse
  if suf.length == pat.length then some (pat, [])          -- no '*'
  else some (pat.take (pat.length - suf.length - 1), suf)

/-- joinPath -/
def joinPath (dir name : Bytes) : Bytes :=
  match dir.getLast? with
  | some c => if isSep .linux c then dir ++ name else dir ++ [SL] ++ name
  | none => [SL] ++ name

def tempDir : Bytes := join .linux [[], [SL, 116, 109, 112]]     -- "/tmp"

def FSState.view (st : FSState) (vid : Nat) : Option View := AL.lookup vid st.views
def FSState.setView (st : FSState) (vid : Nat) (v : View) : FSState := { st with views := AL.insert vid v st.views }
def FSState.handle (st : FSState) (h : Nat) : Option Handle := AL.lookup h st.handles

def withStore (st : FSState) (r : Store × Out) : FSState × Out := ({ st with store := r.1 }, r.2)

def registerHandle (st : FSState) (s : Store) (r : Except Err Handle) : FSState × Out :=
  match r with
  | .error e => ({ st with store := s }, .err e)
  | .ok h =>
    ({ st with store := s, handles := AL.insert st.nextHandle h st.handles, nextHandle := st.nextHandle + 1 },
      .ok (.handle st.nextHandle))

/-- ReadFile on the model: open read-only, read to EOF, close -/
def readFile (s : Store) (v : View) (vid : Nat) (name : Bytes) : Out :=
  match openFile s v vid name 0 0 with
  | (_, .error e) => .err e
  | (s1, .ok h) =>
    match (fileStep s1 v h (.read 1)).2.2.2 with
    | .err e => .err e                          -- Read on a directory handle
    | _ =>
      match h.nd.bind s1.get with
      | some (.file _ d _ _) => .ok (.bytes d)
      | _ => .err .EISDIR

def readDir (s : Store) (v : View) (vid : Nat) (name : Bytes) : Out :=
  match openFile s v vid name 0 0 with
  | (_, .error e) => .err e
  | (s1, .ok h) =>
    match (fileStep s1 v h (.readDir (-1))).2.2.2 with
    | .ok (.infos l) => .ok (.infos l)
    | o => o

def step (st : FSState) (vid : Nat) (c : Call) : FSState × Out :=
  match st.view vid with
  | none => (st, .err .invalid)
  | some v =>
    let s := st.store
    match c with
    | .mkdir p perm => withStore st (mkdir s v p perm)
    | .mkdirAll p perm => withStore st (mkdirAll s v p perm)
    | .openFile p flag perm => let (s1, r) := openFile s v vid p flag perm; registerHandle st s1 r
    | .create p => let (s1, r) := openFile s v vid p oRDWR_CREATE_TRUNC 0o666; registerHandle st s1 r
    | .remove p => withStore st (remove s v p)
    | .removeAll p => withStore st (removeAll s v p)
    | .rename o n => withStore st (rename s v o n)
    | .link o n => withStore st (link s v o n)
    | .symlink o n => withStore st (symlink s v o n)
    | .truncate p sz => withStore st (truncate s v p sz)
    | .chmod p m => withStore st (chmod s v p m)
    | .chown p u g => withStore st (chown s v p u g .eval)
    | .lchown p u g => withStore st (chown s v p u g .lstat)
    | .chtimes p t => withStore st (chtimes s v p t)
    | .chdir p => let (v1, o) := chdir s v p; (st.setView vid v1, o)
    | .stat p => withStore st (stat s v p .stat)
    | .lstat p => withStore st (stat s v p .lstat)
    | .readDir p => (st, readDir s v vid p)
    | .readFile p => (st, readFile s v vid p)
    | .readlink p => withStore st (readlink s v p)
    | .evalSymlinks p => withStore st (evalSymlinks s v p)
    | .getwd => (st, .ok (.bytes v.cwd))
    | .writeFile p data perm =>
      match openFile s v vid p oWRONLY_CREATE_TRUNC perm with
      | (s1, .error e) => ({ st with store := s1 }, .err e)
      | (s1, .ok h) =>
        let (s2, _, _, o) := fileStep s1 v h (.write data)
        ({ st with store := s2 }, match o with | .ok _ => .ok .unit | o => o)
    | .mkdirTemp dir pat rnd =>
      let dir := if dir.isEmpty then tempDir else dir
      match prefixAndSuffix pat with
      | none => (st, .err .patternSep)
      | some (pre, suf) =>
        let name := joinPath dir pre ++ rnd ++ suf
        match mkdir s v name 0o700 with
        | (s1, .ok _) => ({ st with store := s1 }, .ok (.bytes name))
        | (_, .err .ENOENT) =>
          -- `if IsNotExist(err) { _, err := Stat(dir); if IsNotExist(err) { return "", err } }; return "", err`
          (st, .err .ENOENT)
        | (_, o) => (st, o)
    | .createTemp dir pat rnd =>
      let dir := if dir.isEmpty then tempDir else dir
      match prefixAndSuffix pat with
      | none => (st, .err .patternSep)
      | some (pre, suf) =>
        let name := joinPath dir pre ++ rnd ++ suf
        let (s1, r) := openFile s v vid name oRDWR_CREATE_EXCL 0o600
        registerHandle st s1 r
    | .sub p =>
      match sub s v p with
      | .error e => (st, .err e)
      | .ok nv => ({ st with views := AL.insert st.nextView nv st.views, nextView := st.nextView + 1 }, .ok (.view st.nextView))
    | .setUser uid gid admin => (st.setView vid { v with uid := uid, gid := gid, admin := admin }, .ok .unit)
    | .setUMask m => (st.setView vid { v with umask := m }, .ok .unit)
    | .file hid op =>
      match st.handle hid with
      | none => (st, .err .invalid)
      | some h =>
        -- a handle acts with the user / cwd of the view it was opened through (`f.vfs`)
        match st.view h.view with
        | none => (st, .err .invalid)
        | some hv =>
          let (s1, hv1, h1, o) := fileStep s hv h op
          ({ (st.setView h.view hv1) with store := s1, handles := AL.insert hid h1 st.handles }, o)

def run (st : FSState) : List (Nat × Call) → FSState × List Out
  | [] => (st, [])
  | (vid, c) :: cs =>
    let (st1, o) := step st vid c
    let (st2, os) := run st1 cs
    (st2, o :: os)

end Avfs.FS
