import Avfs.FS.Step
/-
  Model of the enumeration helpers of vfs.go / vfs_aferoutils.go over the MemFS model: Glob / glob / hasMeta /
  cleanGlobPath, WalkDir / walkDir with the callback given as a list of actions (one per visit), Exists / DirExists /
  IsDir / IsEmpty.
-/
namespace Avfs.FS
open Avfs.Path

def hasMeta (p : Bytes) : Bool := p.any fun c => c == STAR || c == QM || c == LB || c == BS

def cleanGlobPath (p : Bytes) : Bytes :=
  if p.isEmpty then [DOT] else if p == [SL] then p else p.dropLast

inductive GOut | ok (l : List Bytes) | badPattern | panic
  deriving DecidableEq, Repr

/-- glob(dir, pattern, matches): the matching names of one directory, appended in name order -/
def globDir (s : Store) (v : View) (vid : Nat) (dir pattern : Bytes) (acc : List Bytes) : GOut :=
  match (stat s v dir .stat).2 with
  | .ok (.info i) =>
    if i.kind != 0 then .ok acc else
    match openFile s v vid dir 0 0 with
    | (_, .error _) => .ok acc
    | (s1, .ok h) =>
      match (fileStep s1 v h (.readdirnames (-1))).2.2.2 with
      | .ok (.names ns) =>
        let rec go : List Bytes → List Bytes → GOut
          | [], acc => .ok acc
          | n :: rest, acc =>
            match pmatch .linux pattern n with
            | .badPattern => .badPattern
            | .panic => .panic
            | .ok true => go rest (acc ++ [join .linux [dir, n]])
            | .ok false => go rest acc
        go (sortBytes ns) acc
      | _ => .ok acc
  | _ => .ok acc

/-- Glob -/
def glob (s : Store) (v : View) (vid : Nat) : Nat → Bytes → GOut
  | 0, _ => .panic
  | fuel + 1, pattern =>
    match pmatch .linux pattern [] with
    | .badPattern => .badPattern
    | .panic => .panic
    | .ok _ =>
      if !hasMeta pattern then
        match (stat s v pattern .lstat).2 with
        | .ok _ => .ok [pattern]
        | _ => .ok []
      else
        let (dir0, file) := split .linux pattern
        let dir := cleanGlobPath dir0
        if !hasMeta dir then globDir s v vid dir file []
        else if dir == pattern then .badPattern
        else
          match glob s v vid fuel dir with
          | .ok ms =>
            let rec each : List Bytes → List Bytes → GOut
              | [], acc => .ok acc
              | d :: ds, acc =>
                match globDir s v vid d file acc with
                | .ok acc' => each ds acc'
                | o => o
            each ms []
          | o => o

/-! ### WalkDir -/

inductive WAct | cont | skipDir | skipAll | fail
  deriving DecidableEq, Repr

inductive WErr | none | skipDir | skipAll | fail | other (e : Err)
  deriving DecidableEq, Repr

structure WState where
  acts : List WAct
  visited : List (Bytes × Nat × Option Err)     -- path, kind (9: no entry), error handed to the callback
  deriving DecidableEq, Repr

/-- one call of the callback: consumes the next action (default: continue) -/
def callFn (st : WState) (path : Bytes) (kind : Nat) (err : Option Err) : WState × WErr :=
  let a := st.acts.headD .cont
  let st' : WState := { acts := st.acts.tail, visited := st.visited ++ [(path, kind, err)] }
  (st', match a with | .cont => .none | .skipDir => .skipDir | .skipAll => .skipAll | .fail => .fail)

/-- walkDir -/
def walkDir (s : Store) (v : View) (vid : Nat) : Nat → WState → Bytes → Nat → WState × WErr
  | 0, st, _, _ => (st, .other .ELOOP)
  | fuel + 1, st, path, kind =>
    let isDir := kind == 0
    let (st1, e1) := callFn st path kind none
    if e1 != .none || !isDir then (st1, if e1 == .skipDir && isDir then .none else e1) else
    let (st2, dirs, stop) : WState × List Info × Option WErr :=
      match readDir s v vid path with
      | .ok (.infos l) => (st1, l, none)
      | .err e =>
        let (st2, e2) := callFn st1 path kind (some e)
        -- a SkipDir answer to the report of the ReadDir error skips this directory only (as filepath.WalkDir)
        (st2, [], if e2 != .none then some (if e2 == .skipDir then .none else e2) else none)
      | _ => (st1, [], none)
    match stop with
    | some e => (st2, e)
    | none =>
      let rec each : List Info → WState → WState × WErr
        | [], st => (st, .none)
        | d :: ds, st =>
          let (st', e) := walkDir s v vid fuel st (join .linux [path, d.name]) d.kind
          if e != .none then (if e == .skipDir then (st', .none) else (st', e)) else each ds st'
      each dirs st2

/-- WalkDir -/
def walkDirTop (s : Store) (v : View) (vid : Nat) (root : Bytes) (acts : List WAct) : WState × WErr :=
  let st : WState := { acts := acts, visited := [] }
  let (st', e) :=
    match (stat s v root .lstat).2 with
    | .ok (.info i) => walkDir s v vid (s.next + 2) st root i.kind
    | .err e => callFn st root 9 (some e)
    | _ => (st, .other .invalid)
  (st', if e == .skipDir || e == .skipAll then .none else e)

/-! ### existence helpers (vfs_aferoutils.go): (answer, error) -/

def pathExists (s : Store) (v : View) (p : Bytes) : Bool × Option Err :=
  match (stat s v p .stat).2 with
  | .ok _ => (true, none)
  | .err .ENOENT => (false, none)
  | .err e => (false, some e)
  | _ => (false, some .invalid)

def dirExists (s : Store) (v : View) (p : Bytes) : Bool × Option Err :=
  match (stat s v p .stat).2 with
  | .ok (.info i) => if i.kind == 0 then (true, none) else (false, none)
  | .err .ENOENT => (false, none)
  | .err e => (false, some e)
  | _ => (false, some .invalid)

def isDir (s : Store) (v : View) (p : Bytes) : Bool × Option Err :=
  match (stat s v p .stat).2 with
  | .ok (.info i) => (i.kind == 0, none)
  | .err e => (false, some e)
  | _ => (false, some .invalid)

end Avfs.FS
