import Avfs.FS.MemFS
/-
  Model of memfs_file.go: the methods of an open handle. `fileStep` returns the new store, view (Chdir),
  handle and outcome. Reads/writes beyond EOF and O_APPEND follow the repaired code (see known_findings).
-/
namespace Avfs.FS
open Avfs.Path

inductive FOp
  | read (n : Nat)
  | readAt (n : Nat) (off : Int)
  | write (b : Bytes)
  | writeAt (b : Bytes) (off : Int)
  | seek (off : Int) (whence : Int)
  | truncate (size : Int)
  | stat
  | sync
  | chmod (mode : Nat)
  | chown (uid gid : Int)
  | chdir
  | close
  | readDir (n : Int)
  | readdirnames (n : Int)
  deriving DecidableEq, Repr

/-- dirNode.dirEntries(): sorted infos, `none` (nil) when empty -/
def dirEntriesOf (s : Store) (d : Ino) : Option (List Info) :=
  let names := s.names d
  if names.isEmpty then none else
  some (names.filterMap fun nm => (s.child d nm).bind fun c => fillStat s c nm)

def dirNamesOf (s : Store) (d : Ino) : Option (List Bytes) :=
  let names := s.names d
  if names.isEmpty then none else some names

def writeData (d : Bytes) (pos : Nat) (b : Bytes) : Bytes :=
  if b.isEmpty then d else
  let d1 := if pos > d.length then d ++ List.replicate (pos - d.length) 0 else d
  d1.take pos ++ b ++ d1.drop (pos + b.length)

def fileStep (s : Store) (v : View) (h : Handle) : FOp → Store × View × Handle × Out
  | .read n =>
    if h.name.isEmpty then (s, v, h, .err .invalid) else
    match h.nd with
    | none => (s, v, h, .err .closed)
    | some i =>
      match s.get i with
      | some (.file _ d _ _) =>
        if h.om &&& omRead == 0 then (s, v, h, .err .EBADF) else
        let avail := if h.pos.toNat ≥ d.length then 0 else d.length - h.pos.toNat
        let k := min n avail
        if k == 0 && n != 0 then (s, v, h, .errN 0 [] .eof)
        else (s, v, { h with pos := h.pos + k }, .ok (.num k ((d.drop h.pos.toNat).take k)))
      | _ => (s, v, h, .err .EISDIR)
  | .readAt n off =>
    if h.name.isEmpty then (s, v, h, .err .invalid) else
    match h.nd with
    | none => (s, v, h, .err .closed)
    | some i =>
      if off < 0 then (s, v, h, .err .negOffset) else
      match s.get i with
      | some (.file _ d _ _) =>
        if h.om &&& omRead == 0 then (s, v, h, .err .EBADF) else
        if n == 0 then (s, v, h, .ok (.num 0 [])) else
        if off.toNat > d.length then (s, v, h, .errN 0 [] .eof) else
        let k := min n (d.length - off.toNat)
        let bs := (d.drop off.toNat).take k
        if k < n then (s, v, h, .errN k bs .eof) else (s, v, h, .ok (.num k bs))
      | _ => (s, v, h, .err .EISDIR)
  | .write b =>
    if h.name.isEmpty then (s, v, h, .err .invalid) else
    match h.nd with
    | none => (s, v, h, .err .closed)
    | some i =>
      match s.get i with
      | some (.file m d nl id) =>
        if h.om &&& omWrite == 0 then (s, v, h, .err .EBADF) else
        if b.isEmpty then (s, v, h, .ok (.num 0 [])) else
        let pos := if h.om &&& omAppend != 0 then d.length else h.pos.toNat
        if pos + b.length > maxFileSize then (s, v, h, .err .EINVAL) else     -- the file would grow beyond the maximum size
        let d' := writeData d pos b
        (s.set i (.file { m with mtime := none } d' nl id), v, { h with pos := (pos + b.length : Nat) }, .ok (.num b.length []))
      | _ => (s, v, h, .err .EBADF)
  | .writeAt b off =>
    if off < 0 then (s, v, h, .err .negOffset) else
    if h.name.isEmpty then (s, v, h, .err .invalid) else
    match h.nd with
    | none => (s, v, h, .err .closed)
    | some i =>
      match s.get i with
      | some (.file m d nl id) =>
        if h.om &&& omWrite == 0 then (s, v, h, .err .EBADF) else
        if b.isEmpty then (s, v, h, .ok (.num 0 [])) else
        if off.toNat + b.length > maxFileSize then (s, v, h, .err .EINVAL) else
        (s.set i (.file { m with mtime := none } (writeData d off.toNat b) nl id), v, h, .ok (.num b.length []))
      | _ => (s, v, h, .err .EBADF)
  | .seek off whence =>
    if h.name.isEmpty then (s, v, h, .err .invalid) else
    match h.nd with
    | none => (s, v, h, .err .closed)
    | some i =>
      match s.get i with
      | some (.file _ d _ _) =>
        let size : Int := d.length
        if whence == 0 then
          if off < 0 || off > 9223372036854775807 then (s, v, h, .err .EINVAL) else (s, v, { h with pos := off }, .ok (.num off []))
        else if whence == 1 then
          if h.pos + off < 0 || h.pos + off > 9223372036854775807 then (s, v, h, .err .EINVAL)    -- int64 wrap-around
          else (s, v, { h with pos := h.pos + off }, .ok (.num (h.pos + off) []))
        else if whence == 2 then
          if size + off < 0 || size + off > 9223372036854775807 then (s, v, h, .err .EINVAL)
          else (s, v, { h with pos := size + off }, .ok (.num (size + off) []))
        else (s, v, h, .err .EINVAL)
      | _ => (s, v, h, .ok (.num 0 []))
  | .truncate size =>
    if h.name.isEmpty then (s, v, h, .err .invalid) else
    match h.nd with
    | none => (s, v, h, .err .closed)
    | some i =>
      if size < 0 || size > maxFileSize then (s, v, h, .err .EINVAL) else
      match s.get i with
      | some (.file m d nl id) =>
        if h.om &&& omWrite == 0 then (s, v, h, .err .EINVAL) else
        (s.set i (.file { m with mtime := none } (truncData d size.toNat) nl id), v, h, .ok .unit)
      | _ => (s, v, h, .err .EINVAL)
  | .stat =>
    if h.name.isEmpty then (s, v, h, .err .invalid) else
    match h.nd with
    | none => (s, v, h, .err .fileClosing)
    | some i =>
      match fillStat s i (base .linux h.name) with
      | some inf => (s, v, h, .ok (.info inf))
      | none => (s, v, h, .panic)
  | .sync =>
    if h.name.isEmpty then (s, v, h, .err .invalid) else
    match h.nd with
    | none => (s, v, h, .err .closed)
    | some _ => (s, v, h, .ok .unit)
  | .chmod mode =>
    if h.name.isEmpty then (s, v, h, .err .invalid) else
    match h.nd with
    | none => (s, v, h, .err .closed)
    | some i =>
      match s.get i with
      | some n =>
        match setMode n mode v with
        | some n' => (s.set i n', v, h, .ok .unit)
        | none => (s, v, h, .err .EPERM)       -- neither the owner nor the administrator (fchmod(2): EPERM)
      | none => (s, v, h, .panic)
  | .chown uid gid =>
    if h.name.isEmpty then (s, v, h, .err .invalid) else
    match h.nd with
    | none => (s, v, h, .err .closed)
    | some i =>
      match s.get i with
      | some n =>
        -- baseNode.mayChown: the administrator; or the owner, leaving the owner as it is and setting the group to the
        -- node's group or to its own (write permission on the file is not what allows it), as fchown(2)
        if !(v.admin || (n.meta.uid == v.uid && (uid == -1 || uid == n.meta.uid) && (gid == -1 || gid == n.meta.gid || gid == v.gid))) then
          (s, v, h, .err .EPERM)
        else (s.set i (n.setMeta { n.meta with uid := (if uid == -1 then n.meta.uid else uid), gid := (if gid == -1 then n.meta.gid else gid) }), v, h, .ok .unit)
      | none => (s, v, h, .panic)
  | .chdir =>
    if h.name.isEmpty then (s, v, h, .err .invalid) else
    match h.nd with
    | none => (s, v, h, .err .closed)
    | some i =>
      match s.get i with
      | some (.dir _ _) => (s, { v with cwd := abs .linux h.name v.cwd }, h, .ok .unit)
      | _ => (s, v, h, .err .ENOTDIR)
  | .close =>
    match h.nd with
    | none => if h.name.isEmpty then (s, v, h, .err .invalid) else (s, v, h, .err .closed)
    | some _ => (s, v, { h with nd := none, dirEntries := none, dirNames := none }, .ok .unit)
  | .readDir n =>
    if h.name.isEmpty then (s, v, h, .err .invalid) else
    match h.nd with
    | none => (s, v, h, .err .fileClosing)
    | some i =>
      match s.get i with
      | some (.dir _ _) =>
        let fresh := n ≤ 0 || h.dirEntries.isNone
        let listing := if fresh then dirEntriesOf s i else h.dirEntries
        let idx := if fresh then 0 else h.dirIndex
        if n ≤ 0 then (s, v, { h with dirIndex := 0, dirEntries := none }, .ok (.infos (listing.getD [])))
        else
          let l := listing.getD []
          if idx ≥ l.length then (s, v, { h with dirIndex := 0, dirEntries := none }, .errN 0 [] .eof)
          else
            let stop := min (idx + n.toNat) l.length
            (s, v, { h with dirIndex := stop, dirEntries := listing }, .ok (.infos ((l.take stop).drop idx)))
      | _ => (s, v, h, .err .ENOTDIR)
  | .readdirnames n =>
    if h.name.isEmpty then (s, v, h, .err .invalid) else
    match h.nd with
    | none => (s, v, h, .err .fileClosing)
    | some i =>
      match s.get i with
      | some (.dir _ _) =>
        let fresh := n ≤ 0 || h.dirNames.isNone
        let listing := if fresh then dirNamesOf s i else h.dirNames
        let idx := if fresh then 0 else h.dirIndex
        if n ≤ 0 then (s, v, { h with dirIndex := 0, dirNames := none }, .ok (.names (listing.getD [])))
        else
          let l := listing.getD []
          if idx ≥ l.length then (s, v, { h with dirIndex := 0, dirNames := none }, .errN 0 [] .eof)
          else
            let stop := min (idx + n.toNat) l.length
            (s, v, { h with dirIndex := stop, dirNames := listing }, .ok (.names ((l.take stop).drop idx)))
      | _ => (s, v, h, .err .ENOTDIR)

end Avfs.FS
