import Avfs.FS.WF
/-
  What the callers of `searchNode` rely on, bundled as one predicate so that the per-call proofs (C05, C07) and
  the proof that the walk provides it (Lemmas/Search.lean) can be developed independently.
-/
namespace Avfs.FS
open Avfs.Path

/-- a view is usable on a heap: its root is a directory and its current directory is an absolute path -/
structure ViewOK (s : Store) (v : View) : Prop where
  rootDir : isDirAt s v.root = true
  cwdAbs : isAbs .linux v.cwd = true

structure SearchOK (s : Store) (v : View) : Prop where
  /-- the returned parent is always a directory -/
  parentDir : ∀ p m, isDirAt s (searchNode s v p m).parent = true
  /-- "exists": a child is returned and it is allocated -/
  existsChild : ∀ p m, (searchNode s v p m).err = .exists →
    ∃ c, (searchNode s v p m).child = some c ∧ (s.get c).isSome = true
  /-- "exists" without following the last link: the child is the entry `Part()` of the parent … -/
  existsEdge : ∀ p m c, m ≠ .stat → (searchNode s v p m).err = .exists → (searchNode s v p m).child = some c →
    c ≠ (searchNode s v p m).parent → Edge s (searchNode s v p m).parent (partOf (searchNode s v p m).pi) c
  /-- … unless the whole path resolved to the root of the view -/
  existsRoot : ∀ p m c, (searchNode s v p m).err = .exists → (searchNode s v p m).child = some c →
    c = (searchNode s v p m).parent → c = v.root
  /-- "no such file": no child, and (when the last link is not followed with a restored iterator, i.e. outside
      `slmStat`) the parent has no entry `Part()` -/
  noentChild : ∀ p m, (searchNode s v p m).err = .noent →
    (searchNode s v p m).child = none ∧
    (m ≠ .stat → s.child (searchNode s v p m).parent (partOf (searchNode s v p m).pi) = none)
  /-- the walk never indexes out of range and never runs out of fuel -/
  noPanic : ∀ p m, (searchNode s v p m).err ≠ .panic
  /-- the name of a missing last element is a valid entry name -/
  noentName : ∀ p m, (searchNode s v p m).err = .noent → (searchNode s v p m).pi.isLast = true →
    validName (partOf (searchNode s v p m).pi) = true

end Avfs.FS
