import Avfs.FS.File
/-
  Reference semantics of open-file I/O (C02), written from POSIX read/pread/write/pwrite/lseek/ftruncate and the
  documentation of os.File, independently of the Go code: a regular file is a byte array, an open file description is an
  offset plus access flags.  A byte of the file is described POINTWISE (`byteAt`), not by list surgery:

    after pwrite(off, b) with b non-empty:  byte i = b[i-off] if off ≤ i < off+|b|,  the old byte if i < old length,
                                           0 inside the gap;  the length is max(old length, off+|b|)
    after ftruncate(n): byte i = the old byte if i < min(n, old length), 0 up to n;  length n
  Sizes are limited by `maxFileSize` (the file size limit of the file system; POSIX reports EFBIG, MemFS EINVAL).

  `refRun` runs a history of operations issued on several descriptions of ONE file; `modelRun` runs the same history
  on the MemFS model (`fileStep`); `C02_history_refines` (Lemmas/FileSpec.lean) says they agree on every result and on
  the final content and offsets, for all histories.
-/
namespace Avfs.FS
open Avfs.Path

/-- an open file description of the reference -/
structure FDesc where
  off : Int
  rd : Bool
  wr : Bool
  app : Bool
  deriving DecidableEq, Repr

/-- the operations of the data path -/
inductive IOp
  | read (n : Nat)
  | pread (n : Nat) (off : Int)
  | write (b : Bytes)
  | pwrite (b : Bytes) (off : Int)
  | lseek (off : Int) (whence : Int)
  | ftruncate (size : Int)
  deriving DecidableEq, Repr

/-- byte `i` of the file after writing `b` at `off` -/
def writtenByte (f : Bytes) (off : Nat) (b : Bytes) (i : Nat) : Option UInt8 :=
  if off ≤ i ∧ i < off + b.length then b[i - off]?
  else if i < f.length then f[i]?
  else if i < off then some 0
  else none

/-- the file after pwrite: defined pointwise over its new length -/
def refPwrite (f : Bytes) (off : Nat) (b : Bytes) : Bytes :=
  if b.isEmpty then f else
  (List.range (max f.length (off + b.length))).filterMap (writtenByte f off b)

def refTruncate (f : Bytes) (n : Nat) : Bytes :=
  (List.range n).map fun i => (f[i]?).getD 0

/-- the bytes pread delivers: at most `n`, from `off`, up to the end of the file -/
def refPread (f : Bytes) (n off : Nat) : Bytes := (List.range (min n (f.length - off))).filterMap fun k => f[off + k]?

/-- results, in the vocabulary of the model's outcomes -/
def refStep (f : Bytes) (d : FDesc) : IOp → Bytes × FDesc × Out
  | .read n =>
    if !d.rd then (f, d, .err .EBADF) else
    let bs := refPread f n d.off.toNat
    if bs.isEmpty && n != 0 then (f, d, .errN 0 [] .eof)          -- end of file
    else (f, { d with off := d.off + bs.length }, .ok (.num bs.length bs))
  | .pread n off =>
    if off < 0 then (f, d, .err .negOffset) else
    if !d.rd then (f, d, .err .EBADF) else
    if n == 0 then (f, d, .ok (.num 0 [])) else
    let bs := refPread f n off.toNat
    if bs.length < n then (f, d, .errN bs.length bs .eof)          -- io.ReaderAt: short read reports EOF
    else (f, d, .ok (.num bs.length bs))
  | .write b =>
    if !d.wr then (f, d, .err .EBADF) else
    if b.isEmpty then (f, d, .ok (.num 0 [])) else
    let pos := if d.app then f.length else d.off.toNat            -- O_APPEND: the current end of the file
    if pos + b.length > maxFileSize then (f, d, .err .EINVAL) else -- beyond the file size limit (EFBIG in POSIX)
    (refPwrite f pos b, { d with off := (pos + b.length : Nat) }, .ok (.num b.length []))
  | .pwrite b off =>
    if off < 0 then (f, d, .err .negOffset) else
    if !d.wr then (f, d, .err .EBADF) else
    if b.isEmpty then (f, d, .ok (.num 0 [])) else
    if off.toNat + b.length > maxFileSize then (f, d, .err .EINVAL) else
    (refPwrite f off.toNat b, d, .ok (.num b.length []))
  | .lseek off whence =>
    let base : Option Int := if whence == 0 then some 0 else if whence == 1 then some d.off else if whence == 2 then some (f.length : Int) else none
    -- a resulting offset beyond the largest file offset is EOVERFLOW in POSIX
    match base with
    | none => (f, d, .err .EINVAL)
    | some b => if b + off < 0 || b + off > 9223372036854775807 then (f, d, .err .EINVAL) else (f, { d with off := b + off }, .ok (.num (b + off) []))
  | .ftruncate size =>
    if size < 0 || size > maxFileSize then (f, d, .err .EINVAL) else
    if !d.wr then (f, d, .err .EINVAL) else
    (refTruncate f size.toNat, d, .ok .unit)

/-- a history: (index of the description, operation) -/
def refRun (f : Bytes) (ds : List FDesc) : List (Nat × IOp) → Bytes × List FDesc × List Out
  | [] => (f, ds, [])
  | (k, op) :: rest =>
    match ds[k]? with
    | none => refRun f ds rest
    | some d =>
      let (f1, d1, o) := refStep f d op
      let (f2, ds2, os) := refRun f1 (ds.set k d1) rest
      (f2, ds2, o :: os)

def IOp.toFOp : IOp → FOp
  | .read n => .read n
  | .pread n off => .readAt n off
  | .write b => .write b
  | .pwrite b off => .writeAt b off
  | .lseek off w => .seek off w
  | .ftruncate n => .truncate n

/-- the same history on the model: handles `hs` on the store `s` -/
def modelRun (s : Store) (v : View) (hs : List Handle) : List (Nat × IOp) → Store × List Handle × List Out
  | [] => (s, hs, [])
  | (k, op) :: rest =>
    match hs[k]? with
    | none => modelRun s v hs rest
    | some h =>
      let (s1, _, h1, o) := fileStep s v h op.toFOp
      let (s2, hs2, os) := modelRun s1 v (hs.set k h1) rest
      (s2, hs2, o :: os)

/-- a handle of the model stands for a description: open on inode `i`, usable, offset and flags as the description -/
def Handle.repr (h : Handle) (i : Ino) (d : FDesc) : Prop :=
  h.nd = some i ∧ h.name ≠ [] ∧ h.pos = d.off ∧ 0 ≤ h.pos ∧
  d.rd = (h.om &&& omRead != 0) ∧ d.wr = (h.om &&& omWrite != 0) ∧ d.app = (h.om &&& omAppend != 0)

/-- the content of the regular file `i` -/
def Store.fileData (s : Store) (i : Ino) : Option Bytes :=
  match s.get i with
  | some (.file _ d _ _) => some d
  | _ => none

end Avfs.FS
