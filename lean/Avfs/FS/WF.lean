import Avfs.FS.Step
import Avfs.FS.Init
/-
  Well-formedness of the node heap (property C05): the namespace is a tree of directories with exact link
  counts. Stated through a depth witness (DESIGN Appendix C); `wfCheck` is the executable version that is also run
  on the graph dumped from the implementation.
-/
namespace Avfs.FS
open Avfs.Path

/-- `d` has an entry `n` pointing at `c` (effective entry: first match of the association list) -/
def Edge (s : Store) (d : Ino) (n : Bytes) (c : Ino) : Prop := s.child d n = some c

def isDirAt (s : Store) (i : Ino) : Bool :=
  match s.get i with
  | some (.dir _ _) => true
  | _ => false

/-- distinct inode numbers bound in the heap -/
def Store.inos (s : Store) : List Ino := alKeys s.nodes

/-- number of directory entries (over the whole heap) that point at `i` -/
def linkCount (s : Store) (i : Ino) : Nat :=
  ((s.inos.map fun d => ((alKeys (s.children d)).filter fun n => s.child d n == some i).length)).sum

def validName (n : Bytes) : Bool := !n.isEmpty && !n.contains SL

structure WF (s : Store) (root : Ino) : Prop where
  /-- the root is a directory and nothing points at it -/
  rootDir : isDirAt s root = true
  rootNoParent : ∀ d n, ¬ Edge s d n root
  /-- entries point at allocated inodes; allocation is below `next` -/
  alloc : ∀ d n c, Edge s d n c → (s.get c).isSome = true
  bound : ∀ i, (s.get i).isSome = true → i < s.next
  /-- directories form a forest ordered by a depth function (no cycle) … -/
  depth : ∃ depth : Ino → Nat, ∀ d n c, Edge s d n c → isDirAt s c = true → depth c = depth d + 1
  /-- … in which a directory has exactly one entry pointing at it -/
  uniqueParent : ∀ d n d' n' c, Edge s d n c → Edge s d' n' c → isDirAt s c = true → d = d' ∧ n = n'
  /-- no orphan subtree: a directory that still has entries is the root or is itself an entry of a directory -/
  attached : ∀ d n c, Edge s d n c → d = root ∨ ∃ p pn, Edge s p pn d
  /-- link counts are exact -/
  nlink : ∀ i m data nl id, s.get i = some (.file m data nl id) → nl = (linkCount s i : Int)
  /-- file ids identify files -/
  ids : ∀ i j m d nl id m' d' nl', s.get i = some (.file m d nl id) → s.get j = some (.file m' d' nl' id) → i = j
  idBound : ∀ i m d nl id, s.get i = some (.file m d nl id) → id ≤ s.lastId

/-- entry names are non-empty and separator-free (kept apart from `WF`: it needs the iterator lemmas of C13) -/
def NamesOK (s : Store) : Prop := ∀ d n c, Edge s d n c → validName n = true

/-! ### executable check -/

/-- all effective entries of the heap: (dir, name, child) -/
def allEdges (s : Store) : List (Ino × Bytes × Ino) :=
  s.inos.flatMap fun d => (alKeys (s.children d)).filterMap fun n => (s.child d n).map fun c => (d, n, c)

/-- depths of the directories reachable from the root, breadth first, `fuel` rounds -/
def bfsDepth (s : Store) (edges : List (Ino × Bytes × Ino)) : Nat → List (Ino × Nat) → List (Ino × Nat)
  | 0, acc => acc
  | fuel + 1, acc =>
    let new := edges.filterMap fun (d, _, c) =>
      match AL.lookup d acc, AL.lookup c acc with
      | some k, none => if isDirAt s c then some (c, k + 1) else none
      | _, _ => none
    match new with
    | [] => acc
    | _ => bfsDepth s edges fuel (new.eraseDups ++ acc)

def wfCheck (s : Store) (root : Ino) : Bool :=
  let edges := allEdges s
  let depths := bfsDepth s edges (s.inos.length + 1) [(root, 0)]
  isDirAt s root
  && edges.all (fun (_, _, c) => c != root)
  && edges.all (fun (_, _, c) => (s.get c).isSome)
  && s.inos.all (fun i => i < s.next)
  -- depth witness on every directory entry, and every directory with entries is reachable
  && edges.all (fun (d, _, c) =>
      match AL.lookup d depths with
      | none => false
      | some k => if isDirAt s c then AL.lookup c depths == some (k + 1) else true)
  -- unique parent of directories
  && edges.all (fun (d, n, c) => !isDirAt s c || edges.all (fun (d', n', c') => c' != c || (d' == d && n' == n)))
  && edges.all (fun (_, n, _) => validName n)
  && s.inos.all (fun i =>
      match s.get i with
      | some (.file _ _ nl id) =>
        nl == (linkCount s i : Int) && id ≤ s.lastId &&
        s.inos.all (fun j => match s.get j with
          | some (.file _ _ _ id') => id' != id || i == j
          | _ => true)
      | _ => true)

end Avfs.FS
