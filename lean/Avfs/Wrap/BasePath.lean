import Avfs.Path.Spec
import Avfs.Wrap.Shape
/-
  Model of vfs/basepathfs/basepathfs_cfg.go (Linux): the translation between the virtual namespace of a BasePathFS
  and the paths of its base file system.
-/
namespace Avfs.Wrap
open Avfs.Path

/-- ToBasePath: `base` is the (absolute, clean) base path, `cwd` the current directory of the view (virtual) -/
def toBasePath (base cwd p : Bytes) : Bytes :=
  if p == [SL] then base else
  let p1 := if !isAbs .linux p then join .linux [cwd, p] else p
  let c := clean .linux p1
  if c.length == 1 then base else base ++ c

/-- FromBasePath; `none` = the explicit panic for a path that does not start with the base path -/
def fromBasePath (base p : Bytes) : Option Bytes :=
  if base.isPrefixOf p then some (join .linux [[], p.drop base.length, [SL]]) else none

/-- BasePathFS.inBasePath: `p` is the base path or a path below it ("/base/path2" starts with "/base/path" but is not
    below it): after the prefix comes nothing, a separator, or the base path itself ends with a separator -/
def inBase (base p : Bytes) : Bool :=
  base.isPrefixOf p &&
    (match p.drop base.length with
     | [] => true
     | c :: _ => c == SL || base.getLast? == some SL)

/-- Getwd of the view given the base's current directory -/
def getwd (base baseCwd : Bytes) : Option Bytes :=
  fromBasePath base (if inBase base baseCwd then baseCwd else base)

/-- `q` is the base directory or lies lexically below it without any ".." element -/
def Within (base q : Bytes) : Prop :=
  q = base ∨ ∃ rest, q = base ++ SL :: rest ∧ Spec.DD ∉ Spec.comps rest ∧ [DOT] ∉ Spec.comps rest

/-- substring test on character lists (kernel-reducible, unlike `String.splitOn`) -/
def infixL : List Char → List Char → Bool
  | pat, [] => pat.isEmpty
  | pat, c :: cs => pat.isPrefixOf (c :: cs) || infixL pat cs
def hasSub (s pat : String) : Bool := infixL pat.toList s.toList

/-- names of method parameters that are paths of the virtual namespace -/
def pathParams : List String :=
  ["path", "name", "dir", "oldname", "newname", "pattern", "dirname", "filename"]

/-- a BasePathFS method that reaches the base: every path parameter goes through ToBasePath, no path parameter is
    passed bare, errors come back through FromPathError / FromLinkError -/
def bpMethodOK (s : Shape) : Bool :=
  if s.kind == "forward" || s.kind == "openwrap" then
    s.args.all (fun a => !pathParams.contains a)
    && s.params.all (fun p => !pathParams.contains p || s.args.contains ("vfs.ToBasePath(" ++ p ++ ")"))
    && (s.params.all (fun p => !pathParams.contains p)
        || hasSub s.wrapRes "FromPathError(err)" || hasSub s.wrapRes "FromLinkError(err)"
        || s.base == "Glob")
  else s.kind == "refuse" || s.kind == "composite" || s.kind == "selfcall" || s.kind == "pure"

/-- file methods only forward to the base file (no paths), translating errors -/
def bpFileMethodOK (s : Shape) : Bool :=
  (s.kind == "forward" && s.args == s.params) || s.kind == "selfcall" || s.kind == "pure"

def bpTableOK (t : List (String × Shape)) : Bool :=
  t.all (fun (n, s) => bpMethodOK s || ["FromBasePath", "FromPathError", "FromLinkError", "ToBasePath", "Name", "OSType", "Type", "SetUserByName"].contains n)

def bpFileTableOK (t : List (String × Shape)) : Bool :=
  t.all (fun (n, s) => bpFileMethodOK s || n == "Name")

end Avfs.Wrap
