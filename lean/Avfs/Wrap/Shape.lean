/-
  Shapes of wrapper methods as extracted from the Go source by harness/cmd/factx (T-B tie).
-/
namespace Avfs.Wrap

structure Shape where
  kind : String          -- refuse | forward | consult | composite | selfcall | openwrap | pure | unknown
  base : String          -- base method / helper / own method that is called
  args : List String     -- argument expressions as written in the source
  params : List String   -- parameter names of the method
  errs : List String     -- error expressions of a refusal
  fn : String            -- FnVFS id consulted (FailFS)
  guard : String         -- guards before the base call: `cond => errs;`
  wrapRes : String       -- how results are post-processed
  nilChk : Bool          -- begins with the nil-receiver test
  deriving DecidableEq, Repr

def lookup (t : List (String × Shape)) (m : String) : Option Shape :=
  match t.find? (·.1 == m) with
  | some (_, s) => some s
  | none => none

end Avfs.Wrap
