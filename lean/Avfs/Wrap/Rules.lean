import Avfs.Wrap.Shape
/-
  Decidable rules over the extracted method shapes, and the abstract semantics that gives them meaning.
  A wrapper method is modelled by what it does to an abstract base: nothing (refuse / pure), one base call
  (forward), a consultation followed by one base call (consult), or a helper running over the wrapper itself.
-/
namespace Avfs.Wrap

/-- identity forwarding: the arguments are the parameters, in order (variadic `elem...` included) -/
def argsIdentity (s : Shape) : Bool :=
  s.args == s.params || s.args == (s.params.dropLast ++ (s.params.getLast?.map (· ++ "...")).toList)

/-! ### RoFS (C09) -/

/-- base methods that never change the tree (proved on the base models: they return the store unchanged) -/
def readOnlyBase : List String :=
  ["Abs", "Base", "Clean", "Dir", "EvalSymlinks", "FromSlash", "Getwd", "Glob", "IsAbs", "IsPathSeparator", "Join",
   "Lstat", "Match", "PathSeparator", "ReadDir", "ReadFile", "Readlink", "Rel", "SameFile", "Split", "Stat", "TempDir",
   "ToSlash", "ToSysStat", "UMask", "User", "WalkDir", "Name", "OSType", "Features", "HasFeature", "Type",
   -- file methods
   "Close", "Fd", "Read", "ReadAt", "Readdirnames", "Seek"]

/-- base methods that only change the state of the view (current directory, umask), never the tree -/
def viewOnlyBase : List String := ["Chdir", "SetUMask"]

def permErrs : List String :=
  ["vfs.errPermDenied", "vfs.errOpNotPermitted", "f.vfs.errPermDenied", "f.vfs.errOpNotPermitted", "avfs.ErrPermDenied",
   "avfs.ErrWinPrivilegeNotHeld", "avfs.ErrWinAccessDenied"]

/-- the methods of avfs.VFS / avfs.File that can change the tree: each must be refused -/
def mutatingVFS : List String :=
  ["Chmod", "Chown", "Chtimes", "Create", "CreateTemp", "Lchown", "Link", "Mkdir", "MkdirAll", "MkdirTemp", "Remove",
   "RemoveAll", "Rename", "Symlink", "Truncate", "WriteFile"]
def mutatingFile : List String := ["Chmod", "Chown", "Sync", "Truncate", "Write", "WriteAt"]

def isRefusal (s : Shape) : Bool := s.kind == "refuse" && !s.errs.isEmpty && s.errs.all (permErrs.contains ·)

/-- what a read-only wrapper method may be -/
def roMethodOK (name : String) (s : Shape) : Bool :=
  isRefusal s
  || (s.kind == "forward" && s.base == name && argsIdentity s && s.wrapRes == "" &&
        (readOnlyBase.contains name || viewOnlyBase.contains name))
  || (s.kind == "selfcall" && ((name == "Open" && s.base == "OpenFile" && s.args == ["name", "os.O_RDONLY", "0"])
        || (name == "WriteString" && s.base == "Write")))
  || (s.kind == "pure")
  -- OpenFile: only flag == O_RDONLY is admitted and the base is opened read-only; the result is wrapped
  || (name == "OpenFile" && s.kind == "openwrap" && s.base == "OpenFile" && s.args == ["name", "os.O_RDONLY", "0"]
        && s.guard == "flag != os.O_RDONLY => vfs.errPermDenied;"
        && s.wrapRes == "{ return (*RoFile)(nil), err } | f := &RoFile{baseFile: bf, vfs: vfs} | return f, nil")
  -- Sub: the sub file system of the base is wrapped again
  || (name == "Sub" && s.kind == "openwrap" && s.base == "Sub" && argsIdentity s
        && s.wrapRes == "{ return nil, err } | return New(subFS), nil")

def roTableOK (t : List (String × Shape)) (mutating : List String) : Bool :=
  t.all (fun (n, s) => roMethodOK n s || n == "name" || n == "Name")
  && mutating.all (fun m => match lookup t m with | some s => isRefusal s | none => false)

/-! ### FailFS (C12) -/

/-- the FnVFS id a method must consult (fnvfs.go) -/
def fnOf (isFile : Bool) (name : String) : String := if isFile then "FnFile" ++ name else "Fn" ++ name

/-- methods of FailFS that reach the base file system and therefore must consult the failure function first -/
def mustConsultVFS : List String :=
  ["Abs", "Chdir", "Chmod", "Chown", "Chtimes", "CreateTemp", "EvalSymlinks", "Getwd", "Lchown", "Link", "Lstat", "Mkdir",
   "MkdirAll", "MkdirTemp", "OpenFile", "ReadDir", "ReadFile", "Readlink", "Remove", "RemoveAll", "Rename", "SetUser",
   "SetUserByName", "Stat", "Sub", "Symlink", "Truncate", "WalkDir"]
def mustConsultFile : List String :=
  ["Chdir", "Chmod", "Chown", "Close", "Read", "ReadAt", "ReadDir", "Readdirnames", "Seek", "Stat", "Sync", "Truncate", "Write", "WriteAt"]

/-- composites re-implemented over the wrapper (their inner primitives are consulted one by one) -/
def compositeOverWrapper : List String := ["Create", "WriteFile", "Glob", "ReadFile", "ReadDir", "MkdirTemp"]

def consultOK (isFile : Bool) (name : String) (s : Shape) : Bool :=
  s.kind == "consult" && s.fn == fnOf isFile name && s.base == name && argsIdentity s && s.guard == ""

/-- a consulted call whose result is a file or a file system must hand out a wrapped object -/
def wrapsResult (name : String) (s : Shape) : Bool :=
  if name == "OpenFile" || name == "CreateTemp" then
    s.wrapRes == "openwrap { return (*FailFile)(nil), err } | f := &FailFile{baseFile: bf, vfs: vfs} | return f, err"
    || s.wrapRes == "openwrap { return (*FailFile)(nil), err } | f := &FailFile{baseFile: bf, vfs: vfs} | return f, nil"
  else if name == "Sub" then
    s.wrapRes == "openwrap { return nil, err } | f := &FailFS{baseFS: subFS, failFunc: vfs.failFunc, FeaturesFn: vfs.FeaturesFn} | return f, nil"
  else true

def failTableOK (isFile : Bool) (t : List (String × Shape)) : Bool :=
  (if isFile then mustConsultFile else mustConsultVFS).all (fun m =>
      match lookup t m with
      | some s => consultOK isFile m s && wrapsResult m s
      | none => false)
  && (isFile || compositeOverWrapper.all (fun m =>
      match lookup t m with
      | some s => (s.kind == "composite" || (s.kind == "consult" && s.wrapRes.startsWith "composite")) && s.base == m && argsIdentity s
      | none => false))
  -- nothing else reaches the base with a mutating method
  && t.all (fun (n, s) => s.kind != "unknown" || n == "name" || n == "Name" || n == "fail")

/-! ### abstract semantics and the generic theorems -/

/-- an abstract base file system: a state and one transition per (method, arguments) -/
structure Base (σ α ρ : Type) where
  call : String → α → σ → σ × ρ
  /-- the observable tree (contents, modes, owners, times) -/
  tree : σ → σ

/-- one call through a wrapper described by `t`; `refused` is the result of a refusal, `consult` the failure function -/
def wrapCall {σ α ρ : Type} (b : Base σ α ρ) (t : List (String × Shape)) (refused : String → ρ)
    (consult : String → α → Option ρ) (m : String) (a : α) (s : σ) : σ × ρ :=
  match lookup t m with
  | none => (s, refused m)
  | some sh =>
    if sh.kind == "refuse" then (s, refused m)
    else if sh.kind == "forward" then b.call sh.base a s
    else if sh.kind == "consult" then
      match consult sh.fn a with
      | some e => (s, e)
      | none => b.call sh.base a s
    else (s, refused m)

/-- C09, generic: if every method of the table is a refusal or a forward to a base method that leaves the tree
    unchanged, no history of calls through the wrapper changes the tree of the base. -/
theorem ro_history_unchanged {σ α ρ : Type} (b : Base σ α ρ) (t : List (String × Shape)) (refused : String → ρ)
    (okm : ∀ m sh, lookup t m = some sh → sh.kind = "forward" → ∀ a s, b.tree (b.call sh.base a s).1 = b.tree s)
    (hnc : ∀ m sh, lookup t m = some sh → sh.kind ≠ "consult")
    (h : List (String × α)) (s : σ) :
    b.tree (h.foldl (fun s (m, a) => (wrapCall b t refused (fun _ _ => none) m a s).1) s) = b.tree s := by
  induction h generalizing s with
  | nil => rfl
  | cons c cs ih =>
    obtain ⟨m, a⟩ := c
    simp only [List.foldl]
    rw [ih]
    unfold wrapCall
    split
    · rfl
    · rename_i sh hl
      by_cases h1 : (sh.kind == "refuse") = true
      · simp [h1]
      · by_cases h2 : (sh.kind == "forward") = true
        · simp only [h1, h2, if_true]
          exact okm m sh hl (by simpa using h2) a s
        · by_cases h3 : (sh.kind == "consult") = true
          · exact absurd (by simpa using h3) (hnc m sh hl)
          · simp [h1, h2, h3]

/-- C12, generic (transparent): with a failure function that never fails, a consult-then-forward method whose
    base method is the method itself behaves exactly as the base. -/
theorem consult_transparent {σ α ρ : Type} (b : Base σ α ρ) (t : List (String × Shape)) (refused : String → ρ)
    (m : String) (sh : Shape) (hl : lookup t m = some sh) (hk : sh.kind = "consult") (hb : sh.base = m) (a : α) (s : σ) :
    wrapCall b t refused (fun _ _ => none) m a s = b.call m a s := by
  unfold wrapCall
  simp [hl, hk, hb]

/-- C12, generic (injected failure): when the failure function returns an error for the consulted id, exactly that
    error is returned and the base state is untouched. -/
theorem consult_injected {σ α ρ : Type} (b : Base σ α ρ) (t : List (String × Shape)) (refused : String → ρ)
    (consult : String → α → Option ρ) (m : String) (sh : Shape) (hl : lookup t m = some sh) (hk : sh.kind = "consult")
    (a : α) (s : σ) (e : ρ) (he : consult sh.fn a = some e) :
    wrapCall b t refused consult m a s = (s, e) := by
  unfold wrapCall
  simp [hl, hk, he]

end Avfs.Wrap
