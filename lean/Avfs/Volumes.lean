import Avfs.Bytes
import Avfs.Path.Model
/-
  Model of the volume management of a Windows-typed MemFS (memfs_cfg.go: VolumeAdd, VolumeDelete, VolumeList) with the
  observable content of each volume reduced to the names of the files in its root directory.
  A volume is identified by its name (`VolumeName(path)`: "D:" for "D:", "D:\x", "d:/y" keeps its case);
  the default volume "C:" exists from the start and holds the system directories.
-/
namespace Avfs.Volumes
open Avfs.Path

inductive VErr | notWindows | nameInvalid | alreadyExists | noSuchDir
  deriving DecidableEq, Repr

structure VState where
  vols : List (Bytes × List Bytes)        -- volume name ↦ names in its root directory
  deriving DecidableEq, Repr

/-- the default volume "C:" with the system directories the constructor creates in it -/
def defaultVolume : Bytes := [67, 58]
def init (sys : List Bytes) : VState := { vols := [(defaultVolume, sys)] }

/-- VolumeAdd: a new, EMPTY volume -/
def add (s : VState) (path : Bytes) : VState × Option VErr :=
  let vol := volumeName .windows path
  if vol.isEmpty then (s, some .nameInvalid)
  else if (AL.lookup vol s.vols).isSome then (s, some .alreadyExists)
  else ({ vols := AL.insert vol [] s.vols }, none)

/-- VolumeDelete: the volume and everything on it go away -/
def delete (s : VState) (path : Bytes) : VState × Option VErr :=
  let vol := volumeName .windows path
  if vol.isEmpty then (s, some .nameInvalid)
  else if (AL.lookup vol s.vols).isNone then (s, some .nameInvalid)
  else ({ vols := AL.erase vol s.vols }, none)

def dedup : List Bytes → List Bytes
  | [] => []
  | a :: l => if a ∈ l then dedup l else a :: dedup l

def list (s : VState) : List Bytes := dedup (s.vols.map (·.1))

/-- create a file named `n` in the root directory of volume `vol` -/
def touch (s : VState) (vol n : Bytes) : VState × Option VErr :=
  match AL.lookup vol s.vols with
  | none => (s, some .noSuchDir)
  | some ns => ({ vols := AL.insert vol (if ns.contains n then ns else n :: ns) (AL.erase vol s.vols) }, none)

/-- the names in the root directory of a volume -/
def names (s : VState) (vol : Bytes) : Option (List Bytes) := AL.lookup vol s.vols

end Avfs.Volumes
