import Avfs.Bytes
/-
  Model of copy.go: CopyFile / CopyFileHash / HashFile, with the io.CopyBuffer loop and io.MultiWriter
  (standard library, modelled) and a fault plan over the primitive invocations the functions make
  (exactly the calls a FailFS wrapped around either file system consults).

  `plan k = true` means: the k-th primitive invocation (counted over both file systems, from 0) is made to fail.
  A failed primitive has no effect (FailFS consults before forwarding).
-/
namespace Avfs.Copy

inductive Ev
  | openSrc | createDst | read | write | sync | stat | chmod | closeDst | closeSrc
  deriving DecidableEq, Repr

structure Res where
  err : Bool                      -- returned error is non-nil
  trace : List (Ev × Bool)        -- primitive invocations in order, with "was made to fail"
  dst : Option (Bytes × Nat)      -- destination file after the call: content, permission bits (none: not created)
  sum : Option Bytes              -- the bytes whose digest is returned (none: nil digest)
  deriving DecidableEq, Repr

def defaultPerm : Nat := 0o666    -- Create: mode 0666 before umask (the umask is not part of this model)

/-- io.CopyBuffer(dst, src, buf) where `src` still has `rem` to deliver, every Read returns
    `min chunk remaining` bytes (then `0, io.EOF`), `dstOn`: the writer includes the destination file (always, here).
    Returns (bytes written to the writer(s), error?, next counter, trace). -/
def copyLoop (plan : Nat → Bool) (chunk : Nat) : Nat → Bytes → Bytes → Nat → List (Ev × Bool) →
    Bytes × Bool × Nat × List (Ev × Bool)
  | 0, _, acc, k, tr => (acc, true, k, tr)          -- fuel exhausted: unreachable (see copyLoop_fuel)
  | fuel + 1, rem, acc, k, tr =>
    if plan k then (acc, true, k + 1, tr ++ [(.read, true)])           -- er != nil, er != EOF
    else
      let nr := min chunk rem.length
      if nr = 0 then (acc, false, k + 1, tr ++ [(.read, false)])       -- (0, io.EOF): clean end
      else if plan (k + 1) then (acc, true, k + 2, tr ++ [(.read, false), (.write, true)])
      else copyLoop plan chunk fuel (rem.drop nr) (acc ++ rem.take nr) (k + 2) (tr ++ [(.read, false), (.write, false)])

/-- CopyFileHash(dstFs, srcFs, dstPath, srcPath, hasher). `hasher = false` is the `nil` hasher (CopyFile). -/
def copyFileHash (plan : Nat → Bool) (chunk : Nat) (hasher : Bool) (src : Bytes) (srcPerm : Nat) : Res :=
  -- src, err := srcFs.OpenFile(srcPath, os.O_RDONLY, 0)
  if plan 0 then { err := true, trace := [(.openSrc, true)], dst := none, sum := none } else
  -- defer src.Close()    (error ignored)
  -- dst, err := dstFs.Create(dstPath)
  if plan 1 then
    { err := true, trace := [(.openSrc, false), (.createDst, true), (.closeSrc, plan 2)], dst := none, sum := none }
  else
  let tr0 : List (Ev × Bool) := [(.openSrc, false), (.createDst, false)]
  -- defer func() { cerr := dst.Close(); if cerr != nil && err == nil { err = cerr } }()
  let finish (err : Bool) (k : Nat) (tr : List (Ev × Bool)) (content : Bytes) (perm : Nat) (sum : Option Bytes) : Res :=
    let cerr := plan k
    { err := err || cerr, trace := tr ++ [(.closeDst, cerr), (.closeSrc, plan (k + 1))],
      dst := some (content, perm), sum := if err then none else sum }
  -- _, err = copyBufPool(out, src)
  let (written, cerr, k1, tr1) := copyLoop plan chunk (src.length + 1) src [] 2 tr0
  if cerr then finish true k1 tr1 written defaultPerm none else
  -- err = dst.Sync()
  if plan k1 then finish true (k1 + 1) (tr1 ++ [(.sync, true)]) written defaultPerm none else
  -- info, err := srcFs.Stat(srcPath)
  if plan (k1 + 1) then finish true (k1 + 2) (tr1 ++ [(.sync, false), (.stat, true)]) written defaultPerm none else
  -- err = dstFs.Chmod(dstPath, info.Mode())
  if plan (k1 + 2) then
    finish true (k1 + 3) (tr1 ++ [(.sync, false), (.stat, false), (.chmod, true)]) written defaultPerm none
  else
    finish false (k1 + 3) (tr1 ++ [(.sync, false), (.stat, false), (.chmod, false)]) written srcPerm
      (if hasher then some written else none)

/-- HashFile(vfs, name, hasher): (error?, hashed bytes, trace) -/
def hashFile (plan : Nat → Bool) (chunk : Nat) (src : Bytes) : Bool × Option Bytes × List (Ev × Bool) :=
  if plan 0 then (true, none, [(.openSrc, true)]) else
  -- io.CopyBuffer(hasher, f): the hasher's Write never fails; only reads are primitives
  let rec loop : Nat → Bytes → Bytes → Nat → List (Ev × Bool) → Bytes × Bool × Nat × List (Ev × Bool)
    | 0, _, acc, k, tr => (acc, true, k, tr)
    | fuel + 1, rem, acc, k, tr =>
      if plan k then (acc, true, k + 1, tr ++ [(.read, true)])
      else
        let nr := min chunk rem.length
        if nr = 0 then (acc, false, k + 1, tr ++ [(.read, false)])
        else loop fuel (rem.drop nr) (acc ++ rem.take nr) (k + 1) (tr ++ [(.read, false)])
  let (hashed, err, k, tr) := loop (src.length + 1) src [] 1 [(.openSrc, false)]
  let tr' := tr ++ [(.closeSrc, plan k)]
  if err then (true, none, tr') else (false, some hashed, tr')

end Avfs.Copy
