import Avfs.Volumes
import Avfs.FS.State
/- line protocol: `vol new <hexname>* | add <hexpath> | del <hexpath> | list | touch <hexvol> <hexname> | names <hexvol>` -/
namespace Avfs.Volumes
open Avfs.FS

def errStr : VErr → String
  | .notWindows => "notwindows" | .nameInvalid => "nameinvalid" | .alreadyExists => "exists" | .noSuchDir => "ENOENT"

def showNames (l : List Bytes) : String := ",".intercalate ((sortBytes l).map Bytes.toHex)

def exec (s : VState) (args : List String) : VState × String :=
  match args with
  | "new" :: sys => match sys.mapM Bytes.ofHex with
    | some l => (init l, "ok")
    | none => (s, "bad-op")
  | ["add", p] => match Bytes.ofHex p with
    | some b => let (s', e) := add s b; (s', match e with | none => "ok" | some e => "err " ++ errStr e)
    | none => (s, "bad-op")
  | ["del", p] => match Bytes.ofHex p with
    | some b => let (s', e) := delete s b; (s', match e with | none => "ok" | some e => "err " ++ errStr e)
    | none => (s, "bad-op")
  | ["list"] => (s, "ok " ++ showNames (list s))
  | ["touch", v, n] => match Bytes.ofHex v, Bytes.ofHex n with
    | some vb, some nb => let (s', e) := touch s vb nb; (s', match e with | none => "ok" | some e => "err " ++ errStr e)
    | _, _ => (s, "bad-op")
  | ["names", v] => match Bytes.ofHex v with
    | some vb => (s, match names s vb with | some ns => "ok " ++ showNames ns | none => "err ENOENT")
    | none => (s, "bad-op")
  | _ => (s, "bad-op")

end Avfs.Volumes
