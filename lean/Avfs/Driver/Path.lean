import Avfs.Path.Model
import Avfs.Path.Spec
/- line-protocol front end: `path <linux|windows> <fn> <args>` -/
namespace Avfs.Path

def hx (b : Bytes) : String := Bytes.toHex b

def optHex (o : Option Bytes) : String := match o with | some b => hx b | none => "!"

def iterShow (it : Iter) (flag : String) : String :=
  s!"{flag}:{it.start}:{(it.stop1 : Int) - 1}:{optHex it.left}:{optHex it.part}:{optHex it.right}:{it.isLast}"

def iterRun (os : OS) : Iter → List String → List String → String
  | _, [], acc => " ".intercalate acc.reverse
  | it, op :: ops, acc =>
    if op == "n" then
      let (it', more) := it.next os
      iterRun os it' ops (iterShow it' (if more then "T" else "F") :: acc)
    else if op.startsWith "r:" then
      match Bytes.ofHex (op.drop 2).toString with
      | none => "bad-op"
      | some np =>
        match it.replacePart os np with
        | none => " ".intercalate (("panic" :: acc).reverse)
        | some (it', rs) => iterRun os it' ops ((iterShow it' (if rs then "R" else "K") ++ ":" ++ hx it'.path) :: acc)
    else "bad-op"

def showRel (r : RelOut) : String := match r with | .ok r => hx r | .err => "!err" | .hang => "!hang"
def showMatch (r : MOut Bool) : String :=
  match r with | .ok b => toString b | .badPattern => "!bad" | .panic => "!panic"

/-- all one-argument functions on one line -/
def all1 (os : OS) (p : Bytes) : String :=
  let (d, f) := split os p
  let sa := match splitAbs os p with | some (d, f) => s!"{hx d},{hx f}" | none => "!panic"
  let fu := match fromUnixPath os p with | some r => hx r | none => "!panic"
  s!"clean={hx (clean os p)} base={hx (base os p)} dir={hx (dir os p)} split={hx d},{hx f} isabs={isAbs os p} vol={hx (volumeName os p)} vlen={volumeNameLen os p} fs={hx (fromSlash os p)} ts={hx (toSlash os p)} sa={sa} fu={fu}"

def all2 (os : OS) (a b : Bytes) : String :=
  s!"join={hx (join os [a, b])} rel={showRel (rel os a b)} match={showMatch (pmatch os a b)} abs={hx (abs os a b)}"

def exec (args : List String) : String :=
  match args with
  | osn :: fn :: rest =>
    let os? : Option OS := if osn == "linux" then some .linux else if osn == "windows" then some .windows else none
    match os?, rest.mapM Bytes.ofHex with
    | some os, some bs =>
      match fn, bs with
      | "clean", [p] => s!"ok {hx (clean os p)}"
      | "base", [p] => s!"ok {hx (base os p)}"
      | "dir", [p] => s!"ok {hx (dir os p)}"
      | "fromslash", [p] => s!"ok {hx (fromSlash os p)}"
      | "toslash", [p] => s!"ok {hx (toSlash os p)}"
      | "volumename", [p] => s!"ok {hx (volumeName os p)}"
      | "volumenamelen", [p] => s!"ok {volumeNameLen os p}"
      | "isabs", [p] => s!"ok {isAbs os p}"
      | "split", [p] => let (d, f) := split os p; s!"ok {hx d} {hx f}"
      | "splitabs", [p] => (match splitAbs os p with | some (d, f) => s!"ok {hx d} {hx f}" | none => "panic")
      | "fromunix", [p] => (match fromUnixPath os p with | some r => s!"ok {hx r}" | none => "panic")
      | "abs", [p, c] => s!"ok {hx (abs os p c)}"
      | "rel", [b, t] => (match rel os b t with | .ok r => s!"ok {hx r}" | .err => "err rel" | .hang => "hang")
      | "match", [pat, n] => (match pmatch os pat n with
          | .ok b => s!"ok {b}" | .badPattern => "err badpattern" | .panic => "panic")
      | "all1", [p] => all1 os p
      | "all2", [a, b] => all2 os a b
      | "join", es => s!"ok {hx (join os es)}"
      | _, _ => "bad-op"
    | some os, none =>
      -- iterator scripts carry non-hex tokens
      match fn, rest with
      | "iter", p :: ops =>
        (match Bytes.ofHex p with
         | some pb => iterRun os (Iter.new os pb) ops []
         | none => "bad-op")
      | _, _ => "bad-op"
    | _, _ => "bad-op"
  | _ => "bad-op"

/-- reference semantics (Linux) on the same line format; fields without a spec are `~` -/
def specExec (args : List String) : String :=
  match args with
  | fn :: rest =>
    match fn, rest.mapM Bytes.ofHex with
    | "all1", some [p] =>
      let (d, f) := Spec.split p
      s!"clean={hx (Spec.clean p)} base={hx (Spec.base p)} dir={hx (Spec.dir p)} split={hx d},{hx f} isabs={Spec.isAbs p} vol=- vlen=0 fs={hx p} ts={hx p} sa=~ fu=~"
    | "all2", some [a, b] =>
      let ab := if Spec.isAbs a then Spec.clean a else Spec.join [b, a]
      s!"join={hx (Spec.join [a, b])} rel=~ match=~ abs={hx ab}"
    | _, _ => "bad-op"
  | _ => "bad-op"

end Avfs.Path
