import Avfs.Copy
/- line protocol: `copy cfh <hasher 0|1> <size> <failIndex|-1> [<failIndex2>]` and `copy hash <size> <failIndex|-1>` -/
namespace Avfs.Copy

def pattern (n : Nat) : Bytes := (List.range n).map fun i => UInt8.ofNat ((i * 7 + 3) % 251)

def evName : Ev → String
  | .openSrc => "openSrc" | .createDst => "createDst" | .read => "read" | .write => "write" | .sync => "sync"
  | .stat => "stat" | .chmod => "chmod" | .closeDst => "closeDst" | .closeSrc => "closeSrc"

/-- run-length compressed trace: `read,write` pairs are counted -/
def showTrace (tr : List (Ev × Bool)) : String :=
  let rec go : List (Ev × Bool) → Nat → List String → List String
    | (.read, false) :: (.write, false) :: rest, n, acc => go rest (n + 1) acc
    | e :: rest, n, acc =>
      let acc := if n > 0 then s!"rw*{n}" :: acc else acc
      go rest 0 ((evName e.1 ++ (if e.2 then "!" else "")) :: acc)
    | [], n, acc => (if n > 0 then s!"rw*{n}" :: acc else acc).reverse
  ",".intercalate (go tr 0 [])

def srcPerm : Nat := 0o600
def chunkSize : Nat := 32768

def exec (args : List String) : String :=
  match args with
  | "cfh" :: h :: size :: fails =>
    match size.toNat?, fails.mapM String.toInt? with
    | some n, some fs =>
      let plan : Nat → Bool := fun k => fs.contains (k : Int)
      let src := pattern n
      let r := copyFileHash plan chunkSize (h == "1") src srcPerm
      let dstS := match r.dst with
        | none => "dst=none"
        | some (c, p) => s!"dst={c.length}:{c == src}:{if p == srcPerm then "src" else "other"}"
      let sumS := match r.sum with
        | none => "sum=none"
        | some b => s!"sum={if b == src then "ok" else "bad"}"
      s!"err={r.err} {dstS} {sumS} trace={showTrace r.trace}"
    | _, _ => "bad-op"
  | ["hash", size, f] =>
    match size.toNat?, f.toInt? with
    | some n, some fi =>
      let plan : Nat → Bool := fun k => (k : Int) == fi
      let src := pattern n
      let (e, s, tr) := hashFile plan chunkSize src
      let sumS := match s with | none => "sum=none" | some b => s!"sum={if b == src then "ok" else "bad"}"
      s!"err={e} {sumS} trace={showTrace tr}"
    | _, _ => "bad-op"
  | _ => "bad-op"

end Avfs.Copy
