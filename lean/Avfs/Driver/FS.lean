import Avfs.FS.Step
import Avfs.FS.WF
import Avfs.FS.Enum
import Avfs.FS.Init
/- line protocol for the MemFS model: `fs <view> <call> <args…>`, `fs new`, `fs <view> dump` -/
namespace Avfs.FS
open Avfs.Path

def errName : Err → String
  | .ENOENT => "ENOENT" | .EEXIST => "EEXIST" | .ENOTDIR => "ENOTDIR" | .EISDIR => "EISDIR"
  | .ENOTEMPTY => "ENOTEMPTY" | .EACCES => "EACCES" | .EPERM => "EPERM" | .EINVAL => "EINVAL"
  | .ELOOP => "ELOOP" | .EBADF => "EBADF" | .closed => "closed" | .invalid => "invalid" | .eof => "EOF"
  | .negOffset => "negoffset" | .fileClosing => "fileclosing" | .patternSep => "patternsep"

def oct (n : Nat) : String := String.ofList (Nat.toDigits 8 n)

def showMtime (m : Option Int) : String := match m with | none => "m-" | some t => s!"m{t}"

def showInfo (i : Info) : String :=
  s!"{Bytes.toHex i.name}:{i.kind}:{oct i.perm}:{i.uid}:{i.gid}:{i.nlink}:{i.size}:{showMtime i.mtime}"

def showOut : Out → String
  | .ok .unit => "ok"
  | .ok (.info i) => s!"ok i {showInfo i}"
  | .ok (.bytes b) => s!"ok b {Bytes.toHex b}"
  | .ok (.names l) => s!"ok n {",".intercalate (l.map Bytes.toHex)}"
  | .ok (.infos l) => s!"ok l {";".intercalate (l.map showInfo)}"
  | .ok (.handle h) => s!"ok h {h}"
  | .ok (.num n b) => s!"ok k {n} {Bytes.toHex b}"
  | .ok (.view v) => s!"ok v {v}"
  | .err e => s!"err {errName e}"
  | .errN n b e => s!"errn {n} {Bytes.toHex b} {errName e}"
  | .panic => "panic"
  | .hang => "hang"

/-- graph dump from a root in first-visit numbering, children in name order -/
def dumpGraph (s : Store) (root : Ino) : String :=
  let rec go : Nat → List Ino → List (Ino × Nat) → Nat → List String → List String × List (Ino × Nat) × Nat
    | 0, _, seen, n, acc => (acc, seen, n)
    | _, [], seen, n, acc => (acc, seen, n)
    | fuel + 1, i :: queue, seen, n, acc =>
      match AL.lookup i seen with
      | some _ => go fuel queue seen n acc           -- already printed (queued twice)
      | none =>
        let me := n
        let seen := AL.insert i me seen
        match s.get i with
        | none => go fuel queue seen (n + 1) (s!"{me}:?" :: acc)
        | some (.file m d nl id) =>
          go fuel queue seen (n + 1) (s!"{me}:f:{oct m.perm}:{m.uid}:{m.gid}:{showMtime m.mtime}:{nl}:{id}:{Bytes.toHex d}" :: acc)
        | some (.symlink m l) =>
          go fuel queue seen (n + 1) (s!"{me}:l:{oct m.perm}:{m.uid}:{m.gid}:{showMtime m.mtime}:{Bytes.toHex l}" :: acc)
        | some (.dir m _) =>
          -- depth-first: children are numbered in name order at first visit
          let names := s.names i
          let kids := names.filterMap fun nm => (s.child i nm).map fun c => (nm, c)
          -- assign numbers to unseen kids lazily: we do a DFS by processing kids immediately (stack discipline)
          let line := s!"{me}:d:{oct m.perm}:{m.uid}:{m.gid}:{showMtime m.mtime}"
          go fuel (kids.map (·.2) ++ queue) seen (n + 1) ((line ++ "[" ++ ",".intercalate (kids.map fun (nm, c) => s!"{Bytes.toHex nm}>{c}") ++ "]") :: acc)
  let (lines, seen, _) := go 100000 [root] [] 0 []
  -- second pass: rewrite raw inode references `>ino` into first-visit numbers
  let fix (l : String) : String :=
    match l.splitOn "[" with
    | [hd, tl] =>
      let body := (tl.dropEnd 1).toString
      let ents := if body.isEmpty then [] else body.splitOn ","
      let ents := ents.map fun e =>
        match e.splitOn ">" with
        | [nm, c] => (match c.toNat? with
            | some ci => (match AL.lookup ci seen with | some k => s!"{nm}>{k}" | none => s!"{nm}>?")
            | none => e)
        | _ => e
      hd ++ "[" ++ ",".intercalate ents ++ "]"
    | _ => l
  "dump " ++ " ".intercalate (lines.reverse.map fix)

def pb (s : String) : Option Bytes := Bytes.ofHex s

def parseFOp : List String → Option FOp
  | ["read", n] => n.toNat?.map .read
  | ["readat", n, off] => do pure (.readAt (← n.toNat?) (← off.toInt?))
  | ["write", b] => (pb b).map .write
  | ["writeat", b, off] => do pure (.writeAt (← pb b) (← off.toInt?))
  | ["seek", off, wh] => do pure (.seek (← off.toInt?) (← wh.toInt?))
  | ["truncate", sz] => sz.toInt?.map .truncate
  | ["stat"] => some .stat
  | ["sync"] => some .sync
  | ["chmod", m] => m.toNat?.map .chmod
  | ["chown", u, g] => do pure (.chown (← u.toInt?) (← g.toInt?))
  | ["chdir"] => some .chdir
  | ["close"] => some .close
  | ["readdir", n] => n.toInt?.map .readDir
  | ["readdirnames", n] => n.toInt?.map .readdirnames
  | _ => none

def parseCall : List String → Option Call
  | ["mkdir", p, perm] => do pure (.mkdir (← pb p) (← perm.toNat?))
  | ["mkdirall", p, perm] => do pure (.mkdirAll (← pb p) (← perm.toNat?))
  | ["openfile", p, flag, perm] => do pure (.openFile (← pb p) (← flag.toNat?) (← perm.toNat?))
  | ["create", p] => (pb p).map .create
  | ["remove", p] => (pb p).map .remove
  | ["removeall", p] => (pb p).map .removeAll
  | ["rename", o, n] => do pure (.rename (← pb o) (← pb n))
  | ["link", o, n] => do pure (.link (← pb o) (← pb n))
  | ["symlink", o, n] => do pure (.symlink (← pb o) (← pb n))
  | ["truncate", p, sz] => do pure (.truncate (← pb p) (← sz.toInt?))
  | ["chmod", p, m] => do pure (.chmod (← pb p) (← m.toNat?))
  | ["chown", p, u, g] => do pure (.chown (← pb p) (← u.toInt?) (← g.toInt?))
  | ["lchown", p, u, g] => do pure (.lchown (← pb p) (← u.toInt?) (← g.toInt?))
  | ["chtimes", p, t] => do pure (.chtimes (← pb p) (← t.toInt?))
  | ["chdir", p] => (pb p).map .chdir
  | ["stat", p] => (pb p).map .stat
  | ["lstat", p] => (pb p).map .lstat
  | ["readdir", p] => (pb p).map .readDir
  | ["readfile", p] => (pb p).map .readFile
  | ["readlink", p] => (pb p).map .readlink
  | ["evalsymlinks", p] => (pb p).map .evalSymlinks
  | ["getwd"] => some .getwd
  | ["writefile", p, d, perm] => do pure (.writeFile (← pb p) (← pb d) (← perm.toNat?))
  | ["mkdirtemp", d, pat, rnd] => do pure (.mkdirTemp (← pb d) (← pb pat) (← pb rnd))
  | ["createtemp", d, pat, rnd] => do pure (.createTemp (← pb d) (← pb pat) (← pb rnd))
  | ["sub", p] => (pb p).map .sub
  | ["setuser", u, g, a] => do pure (.setUser (← u.toInt?) (← g.toInt?) (a == "1"))
  | ["setumask", m] => m.toNat?.map .setUMask
  | "file" :: h :: rest => do pure (.file (← h.toNat?) (← parseFOp rest))
  | _ => none

/-- parse one token of a graph dump (`k:d:perm:uid:gid:mT[name>j,…]`, `k:f:perm:uid:gid:mT:nlink:id:data`,
    `k:l:perm:uid:gid:mT:link`) into a heap cell -/
def parseDumpTok (t : String) : Option (Ino × Node) :=
  let (hd, ents) := match t.splitOn "[" with
    | [hd, tl] => (hd, some (tl.dropEnd 1).toString)
    | _ => (t, none)
  let f := hd.splitOn ":"
  let octNat (x : String) : Option Nat := x.toList.foldlM (fun acc c => if '0' ≤ c ∧ c ≤ '7' then some (acc * 8 + (c.toNat - 48)) else none) 0
  match f with
  | k :: kind :: perm :: uid :: gid :: _mt :: rest =>
    match k.toNat?, octNat perm, uid.toInt?, gid.toInt? with
    | some k, some perm, some uid, some gid =>
      let m : Meta := ⟨perm, uid, gid, none⟩
      if kind == "d" then
        let body := ents.getD ""
        let es := if body.isEmpty then [] else body.splitOn ","
        let ch := es.filterMap fun e =>
          match e.splitOn ">" with
          | [nm, c] => (match Bytes.ofHex nm, c.toNat? with | some n, some ci => some (n, ci) | _, _ => none)
          | _ => none
        some (k, .dir m ch)
      else if kind == "f" then
        match rest with
        | [nl, id, data] =>
          (match nl.toInt?, id.toNat?, Bytes.ofHex data with
           | some nl, some id, some d => some (k, .file m d nl id)
           | _, _, _ => none)
        | _ => none
      else if kind == "l" then
        match rest with
        | [l] => (Bytes.ofHex l).map fun lb => (k, .symlink m lb)
        | _ => none
      else none
    | _, _, _, _ => none
  | _ => none

/-- `wfcheck <dump tokens…>`: evaluate `wfCheck` on a dumped graph (used on the implementation's own graph) -/
def wfOfDump (toks : List String) : String :=
  match toks.mapM parseDumpTok with
  | none => "bad-dump"
  | some cells =>
    let lastId := cells.foldl (fun acc (_, n) => match n with | .file _ _ _ id => max acc id | _ => acc) 0
    let s : Store := { nodes := cells, next := cells.length, lastId := lastId }
    s!"ok {wfCheck s 0}"

def parseActs (a : String) : List WAct :=
  if a == "-" then [] else
  (a.splitOn ",").map fun x => if x == "d" then .skipDir else if x == "a" then .skipAll else if x == "e" then .fail else .cont

def showWErr : WErr → String
  | .none => "none" | .skipDir => "skipdir" | .skipAll => "skipall" | .fail => "fail" | .other e => errName e

def enumExec (st : FSState) (vid : Nat) (v : View) (args : List String) : Option String :=
  match args with
  | ["glob", pat] =>
    (pb pat).map fun p =>
      match glob st.store v vid (p.length + 2) p with
      | .ok l => s!"ok n {",".intercalate (l.map Bytes.toHex)}"
      | .badPattern => "err badpattern"
      | .panic => "panic"
  | ["walk", root, acts] =>
    (pb root).map fun r =>
      let (ws, e) := walkDirTop st.store v vid r (parseActs acts)
      let vis := ws.visited.map fun (p, k, er) => s!"{Bytes.toHex p}:{k}:{match er with | some x => errName x | none => "-"}"
      s!"ok w {";".intercalate vis} {showWErr e}"
  | ["exists", p] => (pb p).map fun p => let (b, e) := pathExists st.store v p; s!"ok x {b} {match e with | some x => errName x | none => "-"}"
  | ["direxists", p] => (pb p).map fun p => let (b, e) := dirExists st.store v p; s!"ok x {b} {match e with | some x => errName x | none => "-"}"
  | ["isdir", p] => (pb p).map fun p => let (b, e) := isDir st.store v p; s!"ok x {b} {match e with | some x => errName x | none => "-"}"
  | _ => none

def showView (v : View) : String := s!"view {v.root} {Bytes.toHex v.cwd} {v.uid} {v.gid} {v.admin} {oct v.umask}"

def exec (st : FSState) (args : List String) : FSState × String :=
  match args with
  | ["new"] => (initState, "ok")
  | "wfcheck" :: "dump" :: toks => (st, wfOfDump toks)
  | [vid, "wf"] =>
    match vid.toNat?.bind st.view with
    | some v => (st, s!"ok {wfCheck st.store v.root}")
    | none => (st, "bad-op")
  | [vid, "dump"] =>
    match vid.toNat?.bind st.view with
    | some v => (st, dumpGraph st.store v.root)
    | none => (st, "bad-op")
  | [vid, "viewinfo"] =>
    match vid.toNat?.bind st.view with
    | some v => (st, "ok " ++ s!"{Bytes.toHex v.cwd} {v.uid} {v.gid} {oct v.umask}")
    | none => (st, "bad-op")
  | vid :: rest =>
    match vid.toNat?, parseCall rest with
    | some vid, some c => let (st1, o) := step st vid c; (st1, showOut o)
    | some vid, none =>
      match st.view vid with
      | some v => (st, (enumExec st vid v rest).getD "bad-op")
      | none => (st, "bad-op")
    | _, _ => (st, "bad-op")
  | _ => (st, "bad-op")

end Avfs.FS
