import Avfs.FS.Orefa
import Avfs.Driver.FS
/- line protocol for the OrefaFS model: `ofs new`, `ofs 0 <call> <args…>` (vocabulary, argument encoding and result
   format of the domain `fs`), `ofs 0 dump` (format of OrefaFS.VerifDump) -/
namespace Avfs.Orefa
open Avfs.Path Avfs.FS

/-- OrefaInfo.Nlink() is `uint64(info.nlink)` -/
def fixInfo (i : Info) : Info := { i with nlink := if i.nlink < 0 then i.nlink + 18446744073709551616 else i.nlink }

def fixOut : Out → Out
  | .ok (.info i) => .ok (.info (fixInfo i))
  | .ok (.infos l) => .ok (.infos (l.map fixInfo))
  | o => o

/-- first-visit order (depth first, children in name order) from a list of start nodes, visited one after the other -/
def visitOrder (s : OStore) : Nat → List Ino → List Ino → List Ino
  | 0, _, seen => seen.reverse
  | _, [], seen => seen.reverse
  | fuel + 1, i :: queue, seen =>
    if seen.contains i then visitOrder s fuel queue seen else
    let kids := match s.get i with
      | some n => n.names.filterMap fun nm => AL.lookup nm n.kids
      | none => []
    visitOrder s fuel (kids ++ queue) (i :: seen)

def numberOf (order : List Ino) (i : Ino) : String :=
  match order.idxOf? i with
  | some k => toString k
  | none => "?"

/-- the dump of OrefaFS.VerifDump: `k:d|f:perm:uid:gid:mT:nlink:id:data[name>j,…]` per node, then `index:path=j,…` -/
def dump (s : OStore) : String :=
  let keys := sortBytes (alKeys s.index)
  let starts := (s.at []).toList ++ keys.filterMap s.at
  let edges := s.heap.foldl (fun acc (_, n) => acc + n.kids.length) 0
  let order := visitOrder s (edges + starts.length + s.heap.length + 2) starts []
  let line (i : Ino) : String :=
    match s.get i with
    | none => s!"{numberOf order i}:?"
    | some n =>
      let hd := s!"{numberOf order i}:{if n.isDir then "d" else "f"}:{oct n.perm}:{n.uid}:{n.gid}:{showMtime n.mtime}:{n.nlink}:{n.id}:{Bytes.toHex n.data}"
      let ents := n.names.filterMap fun nm => (AL.lookup nm n.kids).map fun c => s!"{Bytes.toHex nm}>{numberOf order c}"
      match n.children with
      | some _ => hd ++ "[" ++ ",".intercalate ents ++ "]"
      | none => if n.isDir then hd ++ "[nil]" else hd
  let idx := keys.filterMap fun k => (s.at k).map fun i => s!"{Bytes.toHex k}={numberOf order i}"
  "dump " ++ " ".intercalate (order.map line) ++ " index:" ++ ",".intercalate idx

def exec (st : OState) (args : List String) : OState × String :=
  match args with
  | ["new"] => (initState dummyId dummyId, "ok")
  | ["0", "dump"] => (st, dump st.store)
  | ["0", "viewinfo"] => (st, "ok " ++ s!"{Bytes.toHex st.view.cwd} {st.view.uid} {st.view.gid} {oct st.view.umask}")
  | ["0", "file", h, "name"] =>
    match h.toNat?.bind fun k => AL.lookup k st.handles with
    | some hd => (st, s!"ok b {Bytes.toHex hd.name}")
    | none => (st, "err invalid")
  | "0" :: rest =>
    match parseCall rest with
    | some c => let (st1, o) := step st c; (st1, showOut (fixOut o))
    | none => (st, "bad-op")
  | _ => (st, "bad-op")

end Avfs.Orefa
