import Avfs.Idm
/- line-protocol front end for the Idm model: `idm <op> <args>` -/
namespace Avfs.Idm

def errName : Err → String
  | .groupExists => "AlreadyExistsGroup"
  | .userExists => "AlreadyExistsUser"
  | .unknownGroup => "UnknownGroup"
  | .unknownUser => "UnknownUser"
  | .unknownGroupId => "UnknownGroupId"
  | .unknownUserId => "UnknownUserId"

def showOut : Out → String
  | .grp g => s!"ok g {Bytes.toHex g.name} {g.gid}"
  | .usr u => s!"ok u {Bytes.toHex u.name} {u.uid} {u.gid}"
  | .unit => "ok"
  | .bool b => s!"ok b {b}"
  | .err e => s!"err {errName e}"

def parseOp : List String → Option Op
  | ["addgroup", n] => (Bytes.ofHex n).map .addGroup
  | ["adduser", n, g] => do let n ← Bytes.ofHex n; let g ← Bytes.ofHex g; pure (.addUser n g)
  | ["delgroup", n] => (Bytes.ofHex n).map .delGroup
  | ["deluser", n] => (Bytes.ofHex n).map .delUser
  | ["lookupgroup", n] => (Bytes.ofHex n).map .lookupGroup
  | ["lookupgroupid", i] => i.toInt?.map .lookupGroupId
  | ["lookupuser", n] => (Bytes.ofHex n).map .lookupUser
  | ["lookupuserid", i] => i.toInt?.map .lookupUserId
  | ["isadmin", n] => (Bytes.ofHex n).map .isAdmin
  | _ => none

/-- canonical dump of the four maps: sorted by key on the harness side; here in id order by probing -/
def dump (s : State) : String :=
  let gs := (s.gByName.map (·.1)).eraseDups.filterMap fun n => (AL.lookup n s.gByName).map fun g => s!"{Bytes.toHex n}={Bytes.toHex g.name}:{g.gid}"
  let gi := (s.gById.map (·.1)).eraseDups.filterMap fun i => (AL.lookup i s.gById).map fun g => s!"{i}={Bytes.toHex g.name}:{g.gid}"
  let us := (s.uByName.map (·.1)).eraseDups.filterMap fun n => (AL.lookup n s.uByName).map fun u => s!"{Bytes.toHex n}={Bytes.toHex u.name}:{u.uid}:{u.gid}"
  let ui := (s.uById.map (·.1)).eraseDups.filterMap fun i => (AL.lookup i s.uById).map fun u => s!"{i}={Bytes.toHex u.name}:{u.uid}:{u.gid}"
  let srt (l : List String) := (l.toArray.qsort (· < ·)).toList
  s!"dump gn[{",".intercalate (srt gs)}] gi[{",".intercalate (srt gi)}] un[{",".intercalate (srt us)}] ui[{",".intercalate (srt ui)}] max {s.maxGid} {s.maxUid}"

def exec (s : State) (args : List String) : State × String :=
  match args with
  | ["new", an, gn] =>
    match Bytes.ofHex an, Bytes.ofHex gn with
    | some a, some g => (init a g, "ok")
    | _, _ => (s, "bad-op")
  | ["dump"] => (s, dump s)
  | _ =>
    match parseOp args with
    | some op => let (s', o) := step s op; (s', showOut o)
    | none => (s, "bad-op")

def specExec (s : Spec) (args : List String) : Spec × String :=
  match args with
  | ["new", an, gn] =>
    match Bytes.ofHex an, Bytes.ofHex gn with
    | some a, some g => (Spec.init a g, "ok")
    | _, _ => (s, "bad-op")
  | ["dump"] => (s, "dump")
  | _ =>
    match parseOp args with
    | some op => let (s', o) := Spec.step s op; (s', showOut o)
    | none => (s, "bad-op")

end Avfs.Idm
