import Avfs.OSType
namespace Avfs.OSType
def parseOS (s : String) : Option OS :=
  if s == "unknown" then some .unknown else if s == "linux" then some .linux else if s == "windows" then some .windows
  else if s == "darwin" then some .darwin else none
def osStr : OS → String
  | .unknown => "unknown" | .linux => "linux" | .windows => "windows" | .darwin => "darwin"
/-- `ostype set <tagon|tagoff> <host> <req>` -/
def exec (args : List String) : String :=
  match args with
  | ["set", tag, host, req] =>
    match parseOS host, parseOS req with
    | some h, some r =>
      match setOSType (tag == "tagon") h r with
      | some o => s!"ok {osStr o} {pathSeparator o}"
      | none => "none"
    | _, _ => "bad-op"
  | _ => "bad-op"
end Avfs.OSType
