// Package lib: shared pieces of the correspondence harness: PRNG, driver pipe, differ, shrinker, stats.
package lib

import (
	"bufio"
	"bytes"
	"encoding/hex"
	"encoding/json"
	"fmt"
	"os"
	"os/exec"
	"sort"
	"strings"
)

// ---------- PRNG (splitmix64), every random choice derives from one state ----------

type Rng struct{ s uint64 }

func NewRng(seed uint64) *Rng { return &Rng{s: seed*0x9E3779B97F4A7C15 + 0x1234567} }

func (r *Rng) Next() uint64 {
	r.s += 0x9E3779B97F4A7C15
	z := r.s
	z = (z ^ (z >> 30)) * 0xBF58476D1CE4E5B9
	z = (z ^ (z >> 27)) * 0x94D049BB133111EB
	return z ^ (z >> 31)
}
func (r *Rng) Intn(n int) int {
	if n <= 0 {
		return 0
	}
	return int(r.Next() % uint64(n))
}
func (r *Rng) Bool(pct int) bool   { return r.Intn(100) < pct }
func (r *Rng) Split() *Rng         { return NewRng(r.Next()) }
func Pick[T any](r *Rng, xs []T) T { return xs[r.Intn(len(xs))] }

// ---------- hex ----------

func Hex(s string) string {
	if s == "" {
		return "-"
	}
	return hex.EncodeToString([]byte(s))
}
func UnHex(s string) string {
	if s == "-" {
		return ""
	}
	b, err := hex.DecodeString(s)
	if err != nil {
		panic("bad hex " + s)
	}
	return string(b)
}

// ---------- driver ----------

// DriverPath is the native Lean driver.
var DriverPath = func() string {
	if p := os.Getenv("AVFSDRV"); p != "" {
		return p
	}
	return "/verif/lean/.lake/build/bin/avfsdrv"
}()

// RunDriver feeds lines to the Lean model driver and returns one output line per input line.
func RunDriver(lines []string) ([]string, error) {
	cmd := exec.Command(DriverPath)
	var in bytes.Buffer
	for _, l := range lines {
		in.WriteString(l)
		in.WriteByte('\n')
	}
	cmd.Stdin = &in
	var out bytes.Buffer
	cmd.Stdout = &out
	cmd.Stderr = os.Stderr
	if err := cmd.Run(); err != nil {
		return nil, fmt.Errorf("driver: %w", err)
	}
	var res []string
	sc := bufio.NewScanner(&out)
	sc.Buffer(make([]byte, 1<<20), 1<<28)
	for sc.Scan() {
		res = append(res, sc.Text())
	}
	if len(res) != len(lines) {
		return res, fmt.Errorf("driver returned %d lines for %d inputs", len(res), len(lines))
	}
	return res, nil
}

// ---------- histories ----------

// History is a list of protocol lines starting from a fresh state (the first lines create it).
type History []string

// Exec runs one history on some side and returns one result line per op.
type Exec func(h History) []string

// ModelExec runs histories through the driver (each history starts with its own "new"/"reset" lines).
func ModelExec(h History) []string {
	out, err := RunDriver(h)
	if err != nil {
		res := make([]string, len(h))
		copy(res, out)
		for i := len(out); i < len(h); i++ {
			res[i] = "driver-error " + err.Error()
		}
		return res
	}
	return out
}

// ModelExecAll runs many histories in one driver process.
func ModelExecAll(hs []History) ([][]string, error) {
	var all []string
	for _, h := range hs {
		all = append(all, h...)
	}
	out, err := RunDriver(all)
	if err != nil {
		return nil, err
	}
	res := make([][]string, len(hs))
	k := 0
	for i, h := range hs {
		res[i] = out[k : k+len(h)]
		k += len(h)
	}
	return res, nil
}

// FirstDiff returns the index of the first differing line or -1.
func FirstDiff(a, b []string) int {
	n := len(a)
	if len(b) < n {
		n = len(b)
	}
	for i := 0; i < n; i++ {
		if a[i] != b[i] {
			return i
		}
	}
	if len(a) != len(b) {
		return n
	}
	return -1
}

// Shrink minimizes h (keeping the first `keep` lines) while differs(h) stays true. Greedy ddmin.
func Shrink(h History, keep int, differs func(History) bool) History {
	cur := append(History{}, h...)
	chunk := (len(cur) - keep) / 2
	for {
		if chunk < 1 {
			chunk = 1
		}
		removed := false
		for i := keep; i+chunk <= len(cur); {
			cand := append(append(History{}, cur[:i]...), cur[i+chunk:]...)
			if differs(cand) {
				cur = cand
				removed = true
			} else {
				i += chunk
			}
		}
		if chunk == 1 {
			if !removed {
				break
			}
		} else {
			chunk /= 2
		}
	}
	return cur
}

// ---------- stats / evidence ----------

type Stats struct {
	Evaluations int            `json:"evaluations"`
	Distinct    map[string]int `json:"-"`
	Dist        map[string]int `json:"distribution"`
	Samples     []any          `json:"samples"`
}

func NewStats() *Stats {
	return &Stats{Distinct: map[string]int{}, Dist: map[string]int{}}
}

// Count records one evaluated case: kind = coarse class for the distribution, key = distinctness key
// ("" = trivial, not counted as distinct non-trivial).
func (s *Stats) Count(kind, key string) {
	s.Evaluations++
	s.Dist[kind]++
	if key != "" {
		s.Distinct[key]++
	}
}
func (s *Stats) Sample(x any) {
	if len(s.Samples) < 6 {
		s.Samples = append(s.Samples, x)
	}
}

// Result is what a corr subcommand prints (JSON) for bin/check.
type Result struct {
	Property    string         `json:"property"`
	Part        string         `json:"part"`
	Seed        uint64         `json:"seed"`
	Evaluations int            `json:"evaluations"`
	Distinct    int            `json:"distinct_nontrivial"`
	Rule        string         `json:"rule"`
	Dist        map[string]int `json:"distribution"`
	Samples     []any          `json:"samples"`
	Exhaustive  bool           `json:"exhaustive"`
	Mismatches  []Mismatch     `json:"mismatches"`
	Notes       []string       `json:"notes,omitempty"`
}

// Mismatch describes one disagreement after shrinking and classification.
type Mismatch struct {
	Kind     string   `json:"kind"`  // "violation" (impl breaks the property's oracle) | "unproved" (model/impl differ, no failing input) | "known"
	Class    string   `json:"class"` // ledger class key for known findings / name of the correspondence
	What     string   `json:"what"`
	History  []string `json:"history"`
	Impl     []string `json:"impl"`
	Model    []string `json:"model"`
	Expected []string `json:"expected,omitempty"`
	Index    int      `json:"index"`
}

func (s *Stats) Fill(r *Result) {
	r.Evaluations = s.Evaluations
	r.Distinct = len(s.Distinct)
	// keep distribution small: top 60 kinds
	type kv struct {
		k string
		v int
	}
	var kvs []kv
	for k, v := range s.Dist {
		kvs = append(kvs, kv{k, v})
	}
	sort.Slice(kvs, func(i, j int) bool { return kvs[i].v > kvs[j].v || (kvs[i].v == kvs[j].v && kvs[i].k < kvs[j].k) })
	r.Dist = map[string]int{}
	for i, e := range kvs {
		if i >= 80 {
			break
		}
		r.Dist[e.k] = e.v
	}
	r.Samples = s.Samples
}

func (r *Result) Emit() {
	if r.Mismatches == nil {
		r.Mismatches = []Mismatch{}
	}
	b, _ := json.Marshal(r)
	fmt.Println(string(b))
}

// OutcomeClass maps a result line to a coarse class: "ok" or "err X".
func OutcomeClass(line string) string {
	f := strings.Fields(line)
	if len(f) == 0 {
		return "empty"
	}
	if f[0] == "err" && len(f) > 1 {
		return "err:" + f[1]
	}
	return f[0]
}
