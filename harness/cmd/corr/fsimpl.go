package main

import (
	"bufio"
	"errors"
	"fmt"
	"io"
	"io/fs"
	"os"
	"os/exec"
	"path/filepath"
	"regexp"
	"runtime"
	"sort"
	"strconv"
	"strings"
	"syscall"
	"time"

	"github.com/avfs/avfs"
	"github.com/avfs/avfs/vfs/memfs"
	"github.com/avfs/avfs/vfs/orefafs"
	"github.com/avfs/avfs/vfs/osfs"

	"verifharness/lib"
)

// ---------- canonicalisation shared by the impl and oracle interpreters ----------

func errName(err error) string {
	if err == nil {
		return ""
	}
	var le avfs.LinuxError
	if errors.As(err, &le) {
		switch le {
		case avfs.ErrNoSuchFileOrDir:
			return "ENOENT"
		case avfs.ErrFileExists:
			return "EEXIST"
		case avfs.ErrNotADirectory:
			return "ENOTDIR"
		case avfs.ErrIsADirectory:
			return "EISDIR"
		case avfs.ErrDirNotEmpty:
			return "ENOTEMPTY"
		case avfs.ErrPermDenied:
			return "EACCES"
		case avfs.ErrOpNotPermitted:
			return "EPERM"
		case avfs.ErrInvalidArgument:
			return "EINVAL"
		case avfs.ErrTooManySymlinks:
			return "ELOOP"
		case avfs.ErrBadFileDesc:
			return "EBADF"
		case avfs.ErrCrossDevLink:
			return "EXDEV"
		}
		return fmt.Sprintf("errno%d", uintptr(le))
	}
	var se syscall.Errno
	if errors.As(err, &se) {
		switch se {
		case syscall.ENOENT:
			return "ENOENT"
		case syscall.EEXIST:
			return "EEXIST"
		case syscall.ENOTDIR:
			return "ENOTDIR"
		case syscall.EISDIR:
			return "EISDIR"
		case syscall.ENOTEMPTY:
			return "ENOTEMPTY"
		case syscall.EACCES:
			return "EACCES"
		case syscall.EPERM:
			return "EPERM"
		case syscall.EINVAL:
			return "EINVAL"
		case syscall.ELOOP:
			return "ELOOP"
		case syscall.EBADF:
			return "EBADF"
		case syscall.EXDEV:
			return "EXDEV"
		case syscall.EBUSY:
			return "EBUSY"
		}
		return fmt.Sprintf("errno%d", int(se))
	}
	switch {
	case errors.Is(err, avfs.ErrFileClosing):
		return "fileclosing"
	case errors.Is(err, fs.ErrClosed) || strings.HasSuffix(err.Error(), "use of closed file"):
		return "closed"
	case strings.HasSuffix(err.Error(), "too many links"):
		return "ELOOP" // filepath.EvalSymlinks reports its own budget; same error kind
	case strings.HasSuffix(err.Error(), "negative offset"):
		return "negoffset"
	case errors.Is(err, io.EOF):
		return "EOF"
	case errors.Is(err, avfs.ErrNegativeOffset):
		return "negoffset"
	case errors.Is(err, avfs.ErrPatternHasSeparator) || strings.HasSuffix(err.Error(), "pattern contains path separator"):
		return "patternsep"
	case errors.Is(err, fs.ErrInvalid):
		return "invalid"
	}
	return "other:" + strings.ReplaceAll(err.Error(), " ", "_")
}

func permBits(m fs.FileMode) uint32 {
	p := uint32(m.Perm())
	if m&fs.ModeSticky != 0 {
		p |= 0o1000
	}
	if m&fs.ModeSetgid != 0 {
		p |= 0o2000
	}
	if m&fs.ModeSetuid != 0 {
		p |= 0o4000
	}
	return p
}

func toFileMode(p uint32) fs.FileMode {
	m := fs.FileMode(p & 0o777)
	if p&0o1000 != 0 {
		m |= fs.ModeSticky
	}
	if p&0o2000 != 0 {
		m |= fs.ModeSetgid
	}
	if p&0o4000 != 0 {
		m |= fs.ModeSetuid
	}
	return m
}

type verifUser struct {
	name     string
	uid, gid int
}

func (u *verifUser) Name() string  { return u.name }
func (u *verifUser) Uid() int      { return u.uid }
func (u *verifUser) Gid() int      { return u.gid }
func (u *verifUser) IsAdmin() bool { return u.uid == 0 }

var mtimeRe = regexp.MustCompile(`m(-?\d+)`)

// normMtime keeps only modification times that were set by a Chtimes call of this history.
func normMtime(s string, known map[int64]bool) string {
	return mtimeRe.ReplaceAllStringFunc(s, func(m string) string {
		v, _ := strconv.ParseInt(m[1:], 10, 64)
		if known[v] {
			return m
		}
		return "m-"
	})
}

// ---------- the implementation interpreter ----------

type fsImpl struct {
	winVol  string // Windows emulation: volume the virtual paths are mapped to ("" = the default volume)
	win     bool   // Windows-typed file system: virtual unix paths are mapped with FromUnixPath / back with ToSlash
	osMode  bool   // kernel oracle: OsFS on a tmpfs directory, paths re-rooted at `root`, virtual cwd
	root    string
	vcwd    string
	views   map[int]avfs.VFS
	handles map[int]avfs.File
	nextV   int
	nextH   int
	mtimes  map[int64]bool
	fsuid   int
	fsgid   int
	leak    string // base-path prefix that must never show up in errors or results (BasePathFS)
	leaked  string
	dead    bool          // a call hung or panicked while holding locks: the instance is unusable
	dom     string        // protocol domain of the lines ("" = "fs"; "ofs" for OrefaFS)
	orefa   bool          // OrefaFS: the root is not addressable, the tree is looked at through the verif hook
	watch   time.Duration // watchdog of one call (0 = 1500ms)
}

// prefix is the first word of the protocol lines this interpreter executes (and its generator emits).
func (m *fsImpl) prefix() string {
	if m.dom == "" {
		return "fs"
	}
	return m.dom
}

func newFsImpl() *fsImpl {
	_ = avfs.SetUMask(0o022)
	vfs := memfs.New()
	return &fsImpl{views: map[int]avfs.VFS{0: vfs}, handles: map[int]avfs.File{}, nextV: 1, mtimes: map[int64]bool{}}
}

// newFsImplOrefa: the interpreter over orefafs.New() (domain `ofs`).
func newFsImplOrefa() *fsImpl {
	_ = avfs.SetUMask(0o022)
	return &fsImpl{views: map[int]avfs.VFS{0: orefafs.New()}, handles: map[int]avfs.File{}, nextV: 1, mtimes: map[int64]bool{},
		dom: "ofs", orefa: true, watch: 400 * time.Millisecond}
}

// newFsImplOrefaRoot: OrefaFS acting as uid 0 / gid 0 from its creation on (comparison with the kernel oracle, which runs as root).
func newFsImplOrefaRoot() *fsImpl {
	m := newFsImplOrefa()
	m.views[0] = orefafs.NewWithOptions(&orefafs.Options{User: &verifUser{name: "root", uid: 0, gid: 0}})
	return m
}

// fsOracle is the kernel oracle: a child process of this binary, chroot-ed into a fresh tmpfs directory that
// holds the Linux system directories, interpreting the same protocol lines through OsFS / package os.
type fsOracle struct {
	cmd *exec.Cmd
	in  io.WriteCloser
	out *bufio.Reader
	dir string
}

func newFsOracle() *fsOracle {
	d, err := os.MkdirTemp("/dev/shm", "avfs-verif-fs-")
	if err != nil {
		panic(err)
	}
	self, _ := os.Executable()
	cmd := exec.Command(self, "__oracle", d)
	in, _ := cmd.StdinPipe()
	outp, _ := cmd.StdoutPipe()
	cmd.Stderr = os.Stderr
	if err := cmd.Start(); err != nil {
		panic(err)
	}
	return &fsOracle{cmd: cmd, in: in, out: bufio.NewReaderSize(outp, 1<<20), dir: d}
}

func (o *fsOracle) call(line string) string {
	if _, err := io.WriteString(o.in, line+"\n"); err != nil {
		return "oracle-dead"
	}
	s, err := o.out.ReadString('\n')
	if err != nil {
		return "oracle-dead"
	}
	return strings.TrimRight(s, "\n")
}

func (o *fsOracle) cleanup() {
	_ = o.in.Close()
	_ = o.cmd.Wait()
	if strings.HasPrefix(o.dir, "/dev/shm/avfs-verif-fs-") {
		_ = os.RemoveAll(o.dir)
	}
}

// oracleMain is the child: chroot, create the system directories, serve lines.
func oracleMain(dir string) {
	// the file-system identity (fsuid / fsgid) is per thread: stay on one OS thread for the whole session
	runtime.LockOSThread()
	_ = syscall.Setgroups([]int{})
	if err := syscall.Chroot(dir); err != nil {
		fmt.Println("chroot failed:", err)
		os.Exit(3)
	}
	_ = os.Chdir("/")
	syscall.Umask(0o022)
	_ = os.Chmod("/", 0o755)
	for _, sd := range []struct {
		n string
		p fs.FileMode
	}{{"/home", 0o700}, {"/root", 0o700}, {"/tmp", 0o777}} {
		_ = os.Mkdir(sd.n, sd.p)
		_ = os.Chmod(sd.n, sd.p)
	}
	m := &fsImpl{osMode: true, root: "", vcwd: "/", views: map[int]avfs.VFS{0: osfs.New()}, handles: map[int]avfs.File{}, nextV: 1, mtimes: map[int64]bool{}}
	sc := bufio.NewScanner(os.Stdin)
	sc.Buffer(make([]byte, 1<<20), 1<<26)
	w := bufio.NewWriter(os.Stdout)
	for sc.Scan() {
		fmt.Fprintln(w, m.call(sc.Text()))
		w.Flush()
	}
}

func newFsOracleInProcess() *fsImpl {
	_ = avfs.SetUMask(0o022)
	d, err := os.MkdirTemp("/dev/shm", "avfs-verif-fs-")
	if err != nil {
		panic(err)
	}
	_ = os.Chmod(d, 0o755)
	for _, sd := range []struct {
		n string
		p fs.FileMode
	}{{"home", 0o700}, {"root", 0o700}, {"tmp", 0o777}} {
		_ = os.Mkdir(d+"/"+sd.n, sd.p)
		_ = os.Chmod(d+"/"+sd.n, sd.p)
	}
	return &fsImpl{osMode: true, root: d, vcwd: "/", views: map[int]avfs.VFS{0: osfs.New()}, handles: map[int]avfs.File{}, nextV: 1, mtimes: map[int64]bool{}}
}

func (m *fsImpl) cleanup() {
	if m.osMode && strings.HasPrefix(m.root, "/dev/shm/avfs-verif-fs-") {
		_ = os.RemoveAll(m.root)
	}
}

// in maps a virtual path to the path given to the file system.
func (m *fsImpl) in(p string) string {
	if m.win {
		if p == "" {
			return p
		}
		s := avfs.FromUnixPath(m.views[0], p)
		if m.winVol != "" && len(s) >= 2 && s[1] == ':' {
			s = m.winVol + s[2:] // work on another volume than the default one
		}
		return s
	}
	if !m.osMode || p == "" || m.root == "" {
		return p
	}
	if strings.HasPrefix(p, "/") {
		return m.root + p
	}
	if m.vcwd == "/" {
		return m.root + "/" + p
	}
	return m.root + m.vcwd + "/" + p
}

func (m *fsImpl) inLink(p string) string {
	if m.win {
		return m.in(p)
	}
	if m.osMode && m.root != "" && strings.HasPrefix(p, "/") {
		return m.root + p
	}
	return p
}

// out maps a path returned by the file system back to the virtual namespace.
func (m *fsImpl) out(p string) string {
	if m.win {
		s := m.views[0].ToSlash(p)
		if len(s) >= 2 && s[1] == ':' {
			s = s[2:]
		}
		return s
	}
	if !m.osMode || m.root == "" {
		return p
	}
	if p == m.root {
		return "/"
	}
	if strings.HasPrefix(p, m.root+"/") {
		return p[len(m.root):]
	}
	return p
}

func infoStr(name string, fi fs.FileInfo, vfs avfs.VFS) string {
	kind := 1
	if fi.IsDir() {
		kind = 0
	} else if fi.Mode()&fs.ModeSymlink != 0 {
		kind = 2
	}
	st := vfs.ToSysStat(fi)
	return fmt.Sprintf("%s:%d:%o:%d:%d:%d:%d:m%d", lib.Hex(name), kind, permBits(fi.Mode()), st.Uid(), st.Gid(), st.Nlink(), fi.Size(), fi.ModTime().UnixNano())
}

// checkLeak records a path embedded in an error that reveals the base path.
func (m *fsImpl) checkLeak(err error) {
	if m.leak == "" || err == nil {
		return
	}
	var pe *fs.PathError
	var le *os.LinkError
	switch {
	case errors.As(err, &pe):
		if strings.HasPrefix(pe.Path, m.leak) {
			m.leaked = "PathError.Path=" + pe.Path
		}
	case errors.As(err, &le):
		if strings.HasPrefix(le.Old, m.leak) || strings.HasPrefix(le.New, m.leak) {
			m.leaked = "LinkError=" + le.Old + "," + le.New
		}
	}
}

var leakSink *fsImpl

// rawSetFsIds changes the file-system identity of the CURRENT OS thread only (raw syscalls; the syscall package's
// wrappers go through AllThreadsSyscall, which is unavailable in cgo binaries).
func rawSetFsIds(uid, gid int) {
	_, _, _ = syscall.RawSyscall(syscall.SYS_SETFSGID, uintptr(gid), 0, 0)
	_, _, _ = syscall.RawSyscall(syscall.SYS_SETFSUID, uintptr(uid), 0, 0)
}

func okOrErr(err error) string {
	if leakSink != nil {
		leakSink.checkLeak(err)
	}
	if err != nil {
		return "err " + errName(err)
	}
	return "ok"
}

// call executes one protocol line; watchdog and recover included.
func (m *fsImpl) call(line string) string {
	if m.dead {
		return "dead"
	}
	if m.osMode {
		// the oracle child: stay on the locked OS thread (fsuid / fsgid are per thread)
		return normMtime(m.exec(line), m.mtimes)
	}
	ch := make(chan string, 1)
	go func() {
		defer func() {
			if r := recover(); r != nil {
				ch <- "panic"
			}
		}()
		ch <- m.exec(line)
	}()
	select {
	case s := <-ch:
		if s == "panic" {
			m.dead = true
		}
		return normMtime(s, m.mtimes)
	case <-time.After(m.watchdog()):
		m.dead = true
		return "hang"
	}
}

func (m *fsImpl) watchdog() time.Duration {
	if m.watch == 0 {
		return 1500 * time.Millisecond
	}
	return m.watch
}

func atoiS(s string) int { n, _ := strconv.Atoi(s); return n }

func (m *fsImpl) exec(line string) string {
	leakSink = nil
	if m.leak != "" {
		leakSink = m
	}
	f := strings.Fields(line)
	if len(f) < 2 || f[0] != m.prefix() {
		return "bad-op"
	}
	if f[1] == "new" {
		return "ok"
	}
	vid := atoiS(f[1])
	vfs, ok := m.views[vid]
	if !ok {
		return "err invalid"
	}
	a := f[3:]
	raw := func(i int) string { return lib.UnHex(a[i]) }
	p := func(i int) string { return m.in(lib.UnHex(a[i])) }
	switch f[2] {
	case "dump":
		if m.osMode {
			return "dump -"
		}
		if d, ok := vfs.(*orefafs.OrefaFS); ok {
			return d.VerifDump()
		}
		return vfs.(*memfs.MemFS).VerifDump()
	case "snapo":
		// the snapshot without the line of the root itself (OrefaFS cannot address its root)
		if m.osMode {
			rawSetFsIds(0, 0)
			defer rawSetFsIds(m.fsuid, m.fsgid)
		}
		return m.snapBelowRoot(vfs)
	case "snap":
		// the tree is always looked at as the administrator, whoever is acting
		if m.osMode {
			rawSetFsIds(0, 0)
			defer rawSetFsIds(m.fsuid, m.fsgid)
		} else if mv, ok := vfs.(*memfs.MemFS); ok {
			u := mv.User()
			_ = mv.SetUser(&verifUser{name: "root", uid: 0, gid: 0})
			defer func() { _ = mv.SetUser(u) }()
		}
		return m.snap(vfs)
	case "viewinfo":
		cwd, _ := vfs.Getwd()
		return fmt.Sprintf("ok %s %d %d %o", lib.Hex(cwd), vfs.User().Uid(), vfs.User().Gid(), vfs.UMask())
	case "mkdir":
		return okOrErr(vfs.Mkdir(p(0), toFileMode(uint32(atoiS(a[1])))))
	case "mkdirall":
		return okOrErr(vfs.MkdirAll(p(0), toFileMode(uint32(atoiS(a[1])))))
	case "openfile":
		if atoiS(a[1]) == 0 { // a plain read-only open goes through Open, the entry point most callers use
			fl, err := vfs.Open(p(0))
			return m.reg(fl, err)
		}
		fl, err := vfs.OpenFile(p(0), atoiS(a[1]), toFileMode(uint32(atoiS(a[2]))))
		return m.reg(fl, err)
	case "create":
		fl, err := vfs.Create(p(0))
		return m.reg(fl, err)
	case "remove":
		return okOrErr(vfs.Remove(p(0)))
	case "removeall":
		if ov, ok := vfs.(*orefafs.OrefaFS); ok && orefaCycleBelow(ov, p(0)) {
			// OrefaFS.removeAll recurses for ever on a cyclic children graph, allocating longer and longer paths; the
			// goroutine could not be stopped: the call is NOT executed and reported as what it is
			m.dead = true
			return "hang"
		}
		return okOrErr(vfs.RemoveAll(p(0)))
	case "rename":
		return okOrErr(vfs.Rename(p(0), p(1)))
	case "link":
		return okOrErr(vfs.Link(p(0), p(1)))
	case "symlink":
		return okOrErr(vfs.Symlink(m.inLink(raw(0)), p(1)))
	case "truncate":
		n, _ := strconv.ParseInt(a[1], 10, 64)
		return okOrErr(vfs.Truncate(p(0), n))
	case "chmod":
		return okOrErr(vfs.Chmod(p(0), toFileMode(uint32(atoiS(a[1])))))
	case "chown":
		return okOrErr(vfs.Chown(p(0), atoiS(a[1]), atoiS(a[2])))
	case "lchown":
		return okOrErr(vfs.Lchown(p(0), atoiS(a[1]), atoiS(a[2])))
	case "chtimes":
		t, _ := strconv.ParseInt(a[1], 10, 64)
		if t == 0 { // the zero time.Time (only generated for the read-only wrapper)
			return okOrErr(vfs.Chtimes(p(0), time.Time{}, time.Time{}))
		}
		m.mtimes[t] = true
		return okOrErr(vfs.Chtimes(p(0), time.Unix(0, t), time.Unix(0, t)))
	case "chdir":
		return okOrErr(vfs.Chdir(p(0)))
	case "stat":
		fi, err := vfs.Stat(p(0))
		if err != nil {
			return "err " + errName(err)
		}
		return "ok i " + infoStr(fi.Name(), fi, vfs)
	case "lstat":
		fi, err := vfs.Lstat(p(0))
		if err != nil {
			return "err " + errName(err)
		}
		return "ok i " + infoStr(fi.Name(), fi, vfs)
	case "readdir":
		des, err := vfs.ReadDir(p(0))
		if err != nil {
			return "err " + errName(err)
		}
		return "ok l " + dirEntriesStr(des, vfs)
	case "readfile":
		b, err := vfs.ReadFile(p(0))
		if err != nil {
			return "err " + errName(err)
		}
		return "ok b " + lib.Hex(string(b))
	case "readlink":
		s, err := vfs.Readlink(p(0))
		if err != nil {
			return "err " + errName(err)
		}
		if m.osMode {
			return "ok b " + lib.Hex(filepath.Clean(m.out(s)))
		}
		return "ok b " + lib.Hex(s)
	case "evalsymlinks":
		s, err := vfs.EvalSymlinks(p(0))
		if err != nil {
			return "err " + errName(err)
		}
		return "ok b " + lib.Hex(m.out(s))
	case "getwd":
		s, err := vfs.Getwd()
		if err != nil {
			return "err " + errName(err)
		}
		return "ok b " + lib.Hex(s)
	case "writefile":
		return okOrErr(vfs.WriteFile(p(0), []byte(raw(1)), toFileMode(uint32(atoiS(a[2])))))
	case "mkdirtemp":
		d0 := raw(0)
		if m.osMode && d0 == "" {
			d0 = "/tmp"
		}
		s, err := vfs.MkdirTemp(m.in(d0), raw(1))
		if err != nil {
			return "err " + errName(err)
		}
		return "ok b " + lib.Hex(m.out(s))
	case "createtemp":
		d0 := raw(0)
		if m.osMode && d0 == "" {
			d0 = "/tmp"
		}
		fl, err := vfs.CreateTemp(m.in(d0), raw(1))
		return m.reg(fl, err)
	case "sub":
		if m.osMode {
			return "err nosub"
		}
		sv, err := vfs.Sub(p(0))
		if err != nil {
			return "err " + errName(err)
		}
		id := m.nextV
		m.nextV++
		m.views[id] = sv
		return fmt.Sprintf("ok v %d", id)
	case "setuser":
		if m.osMode {
			// act as that user for file-system access checks (the process stays root otherwise)
			m.fsuid, m.fsgid = atoiS(a[0]), atoiS(a[1])
			rawSetFsIds(m.fsuid, m.fsgid)
			return "ok"
		}
		_ = vfs.SetUser(&verifUser{name: "u" + a[0], uid: atoiS(a[0]), gid: atoiS(a[1])})
		return "ok"
	case "setumask":
		n, _ := strconv.ParseUint(a[0], 10, 32)
		if m.osMode {
			syscall.Umask(int(n & 0o777))
			return "ok"
		}
		_ = vfs.SetUMask(toFileMode(uint32(n)))
		return "ok"
	case "glob":
		ms, err := vfs.Glob(p(0))
		if err != nil {
			return "err badpattern"
		}
		hx := make([]string, len(ms))
		for i, x := range ms {
			hx[i] = lib.Hex(m.out(x))
		}
		return "ok n " + strings.Join(hx, ",")
	case "walk":
		acts := []string{}
		if a[1] != "-" {
			acts = strings.Split(a[1], ",")
		}
		var vis []string
		errStop := errors.New("stop")
		ferr := vfs.WalkDir(p(0), func(path string, d fs.DirEntry, err error) error {
			kind := 9
			if d != nil {
				switch {
				case d.IsDir():
					kind = 0
				case d.Type()&fs.ModeSymlink != 0:
					kind = 2
				default:
					kind = 1
				}
			}
			es := "-"
			if err != nil {
				es = errName(err)
				if leakSink != nil {
					leakSink.checkLeak(err) // the error handed to the callback must speak of virtual paths too
				}
			}
			vis = append(vis, fmt.Sprintf("%s:%d:%s", lib.Hex(m.out(path)), kind, es))
			act := "c"
			if len(acts) > 0 {
				act, acts = acts[0], acts[1:]
			}
			switch act {
			case "d":
				return filepath.SkipDir
			case "a":
				return filepath.SkipAll
			case "e":
				return errStop
			}
			return nil
		})
		fin := "none"
		if leakSink != nil && ferr != nil && ferr != errStop {
			leakSink.checkLeak(ferr)
		}
		switch {
		case ferr == nil:
		case ferr == errStop:
			fin = "fail"
		case ferr == filepath.SkipAll:
			fin = "skipall"
		case ferr == filepath.SkipDir:
			fin = "skipdir"
		default:
			fin = errName(ferr)
		}
		return "ok w " + strings.Join(vis, ";") + " " + fin
	case "exists", "direxists", "isdir":
		var b bool
		var err error
		switch f[2] {
		case "exists":
			b, err = avfs.Exists(vfs, p(0))
		case "direxists":
			b, err = avfs.DirExists(vfs, p(0))
		default:
			b, err = avfs.IsDir(vfs, p(0))
		}
		es := "-"
		if err != nil {
			es = errName(err)
		}
		return fmt.Sprintf("ok x %v %s", b, es)
	case "file":
		h, ok := m.handles[atoiS(a[0])]
		if !ok {
			return "err invalid"
		}
		return m.fileOp(vfs, h, a[1:])
	}
	return "bad-op"
}

func dirEntriesStr(des []fs.DirEntry, vfs avfs.VFS) string {
	var out []string
	for _, de := range des {
		fi, err := de.Info()
		if err != nil {
			out = append(out, lib.Hex(de.Name())+":?")
			continue
		}
		out = append(out, infoStr(de.Name(), fi, vfs))
	}
	return strings.Join(out, ";")
}

func (m *fsImpl) reg(fl avfs.File, err error) string {
	if err != nil {
		return "err " + errName(err)
	}
	id := m.nextH
	m.nextH++
	m.handles[id] = fl
	return fmt.Sprintf("ok h %d", id)
}

func (m *fsImpl) fileOp(vfs avfs.VFS, h avfs.File, a []string) string {
	switch a[0] {
	case "read":
		buf := make([]byte, atoiS(a[1]))
		n, err := h.Read(buf)
		if err != nil {
			if n > 0 || errName(err) == "EOF" {
				return fmt.Sprintf("errn %d %s %s", n, lib.Hex(string(buf[:n])), errName(err))
			}
			return "err " + errName(err)
		}
		return fmt.Sprintf("ok k %d %s", n, lib.Hex(string(buf[:n])))
	case "readat":
		buf := make([]byte, atoiS(a[1]))
		off, _ := strconv.ParseInt(a[2], 10, 64)
		n, err := h.ReadAt(buf, off)
		if err != nil {
			if n > 0 || errName(err) == "EOF" {
				return fmt.Sprintf("errn %d %s %s", n, lib.Hex(string(buf[:n])), errName(err))
			}
			return "err " + errName(err)
		}
		return fmt.Sprintf("ok k %d %s", n, lib.Hex(string(buf[:n])))
	case "write":
		n, err := h.Write([]byte(lib.UnHex(a[1])))
		if err != nil {
			return "err " + errName(err)
		}
		return fmt.Sprintf("ok k %d -", n)
	case "writeat":
		off, _ := strconv.ParseInt(a[2], 10, 64)
		n, err := h.WriteAt([]byte(lib.UnHex(a[1])), off)
		if err != nil {
			return "err " + errName(err)
		}
		return fmt.Sprintf("ok k %d -", n)
	case "seek":
		off, _ := strconv.ParseInt(a[1], 10, 64)
		n, err := h.Seek(off, atoiS(a[2]))
		if err != nil {
			return "err " + errName(err)
		}
		return fmt.Sprintf("ok k %d -", n)
	case "truncate":
		sz, _ := strconv.ParseInt(a[1], 10, 64)
		return okOrErr(h.Truncate(sz))
	case "stat":
		fi, err := h.Stat()
		if err != nil {
			return "err " + errName(err)
		}
		return "ok i " + infoStr(fi.Name(), fi, vfs)
	case "sync":
		return okOrErr(h.Sync())
	case "chmod":
		return okOrErr(h.Chmod(toFileMode(uint32(atoiS(a[1])))))
	case "chown":
		return okOrErr(h.Chown(atoiS(a[1]), atoiS(a[2])))
	case "chdir":
		return okOrErr(h.Chdir())
	case "close":
		return okOrErr(h.Close())
	case "name":
		return "ok b " + lib.Hex(h.Name())
	case "readdir":
		des, err := h.ReadDir(atoiS(a[1]))
		if err != nil {
			if errName(err) == "EOF" {
				return "errn 0 - EOF"
			}
			return "err " + errName(err)
		}
		return "ok l " + dirEntriesStr(des, vfs)
	case "readdirnames":
		ns, err := h.Readdirnames(atoiS(a[1]))
		if err != nil {
			if errName(err) == "EOF" {
				return "errn 0 - EOF"
			}
			return "err " + errName(err)
		}
		hx := make([]string, len(ns))
		for i, n := range ns {
			hx[i] = lib.Hex(n)
		}
		return "ok n " + strings.Join(hx, ",")
	}
	return "bad-op"
}

// existingPaths walks the implementation's tree through the API (no symlink following), bounded.
func (m *fsImpl) existingPaths() (dirs, files, links []string) { return m.existingPathsIn(0) }

// existingPathsIn: the tree as seen through view vid.
func (m *fsImpl) existingPathsIn(vid int) (dirs, files, links []string) {
	vfs, ok := m.views[vid]
	if !ok {
		return
	}
	if m.orefa {
		return m.orefaPaths(vfs.(*orefafs.OrefaFS))
	}
	var walk func(p string, depth int)
	walk = func(p string, depth int) {
		if depth > 6 {
			return
		}
		des, err := vfs.ReadDir(p)
		if err != nil {
			return
		}
		for _, de := range des {
			cp := vfs.Join(p, de.Name())
			switch {
			case de.IsDir():
				dirs = append(dirs, cp)
				walk(cp, depth+1)
			case de.Type()&fs.ModeSymlink != 0:
				links = append(links, cp)
			default:
				files = append(files, cp)
			}
		}
	}
	walk("/", 0)
	sort.Strings(dirs)
	sort.Strings(files)
	sort.Strings(links)
	return
}

// snap: API-level canonical snapshot of the whole tree (Lstat / ReadDir / ReadFile / Readlink, no link following):
// path kind perm uid gid [nlink size content | target]; what C01 says must be indistinguishable.
func (m *fsImpl) snap(vfs avfs.VFS) string {
	return "snap " + strings.Join(m.snapWalk(vfs, nil, "/", 0), " ")
}

// snapWalk appends the snapshot lines of vp and of everything below it.
func (m *fsImpl) snapWalk(vfs avfs.VFS, out []string, vp string, depth int) []string {
	var walk func(vp string, depth int)
	walk = func(vp string, depth int) {
		rp := m.in(vp)
		fi, err := vfs.Lstat(rp)
		if err != nil {
			out = append(out, lib.Hex(vp)+":?"+errName(err))
			return
		}
		st := vfs.ToSysStat(fi)
		base := fmt.Sprintf("%s:%o:%d:%d:m%d", lib.Hex(vp), permBits(fi.Mode()), st.Uid(), st.Gid(), fi.ModTime().UnixNano())
		switch {
		case fi.IsDir():
			out = append(out, base+":d")
			if depth > 8 {
				out = append(out, lib.Hex(vp)+":deep")
				return
			}
			des, err := vfs.ReadDir(rp)
			if err != nil {
				out = append(out, lib.Hex(vp)+":?readdir:"+errName(err))
				return
			}
			for _, de := range des {
				cp := vp + "/" + de.Name()
				if vp == "/" {
					cp = "/" + de.Name()
				}
				walk(cp, depth+1)
			}
		case fi.Mode()&fs.ModeSymlink != 0:
			t, _ := vfs.Readlink(rp)
			t = m.out(t)
			out = append(out, base+":l:"+lib.Hex(filepath.Clean(t)))
		default:
			b, _ := vfs.ReadFile(rp)
			out = append(out, fmt.Sprintf("%s:f:%d:%d:%s", base, st.Nlink(), fi.Size(), lib.Hex(string(b))))
		}
	}
	walk(vp, depth)
	return out
}

// orefaIndex parses the verif dump of an OrefaFS: the kind of every numbered node, the names in the children map
// of the root node, and the index map (path -> node number).
func orefaIndex(vfs *orefafs.OrefaFS) (kinds map[string]string, rootNames []string, index map[string]string) {
	kinds, index = map[string]string{}, map[string]string{}
	for _, t := range strings.Fields(vfs.VerifDump())[1:] {
		if strings.HasPrefix(t, "index:") {
			for _, e := range strings.Split(t[len("index:"):], ",") {
				if kv := strings.SplitN(e, "=", 2); len(kv) == 2 {
					index[lib.UnHex(kv[0])] = kv[1]
				}
			}
			continue
		}
		c := strings.SplitN(t, ":", 3)
		if len(c) < 3 {
			continue
		}
		kinds[c[0]] = c[1]
		if i := strings.Index(t, "["); c[0] == "0" && i >= 0 && t[i:] != "[nil]" && t[i:] != "[]" {
			for _, e := range strings.Split(t[i+1:len(t)-1], ",") {
				rootNames = append(rootNames, lib.UnHex(strings.SplitN(e, ">", 2)[0]))
			}
		}
	}
	return
}

// orefaPaths: the paths the API of an OrefaFS resolves (the keys of its index), by kind of node.
func (m *fsImpl) orefaPaths(vfs *orefafs.OrefaFS) (dirs, files, links []string) {
	kinds, _, index := orefaIndex(vfs)
	for p, k := range index {
		switch {
		case p == "" || p == "/":
		case kinds[k] == "d":
			dirs = append(dirs, p)
		default:
			files = append(files, p)
		}
	}
	sort.Strings(dirs)
	sort.Strings(files)
	return
}

// snapBelowRoot: the API-level snapshot of snap for every entry of the root directory (the names come from ReadDir("/"),
// from the verif hook on OrefaFS), without the line of the root.
func (m *fsImpl) snapBelowRoot(vfs avfs.VFS) string {
	var names []string
	if ov, ok := vfs.(*orefafs.OrefaFS); ok {
		_, names, _ = orefaIndex(ov)
	} else {
		des, err := vfs.ReadDir(m.in("/"))
		if err != nil {
			return "snap ?readdir:" + errName(err)
		}
		for _, de := range des {
			names = append(names, de.Name())
		}
	}
	sort.Strings(names)
	var out []string
	for _, n := range names {
		out = m.snapWalk(vfs, out, "/"+n, 1)
	}
	return "snap " + strings.Join(out, " ")
}

// orefaCycleBelow: the directory the index of an OrefaFS has for a path reaches itself through children maps of
// directories (the graph OrefaFS.removeAll walks).
func orefaCycleBelow(vfs *orefafs.OrefaFS, path string) bool {
	abs, _ := vfs.Abs(path)
	kinds, _, index := orefaIndex(vfs)
	kids := map[string][]string{}
	for _, t := range strings.Fields(vfs.VerifDump())[1:] {
		i := strings.Index(t, "[")
		if strings.HasPrefix(t, "index:") || i < 0 || t[i:] == "[nil]" || t[i:] == "[]" {
			continue
		}
		k := t[:strings.Index(t, ":")]
		for _, e := range strings.Split(t[i+1:len(t)-1], ",") {
			kids[k] = append(kids[k], strings.SplitN(e, ">", 2)[1])
		}
	}
	onPath := map[string]bool{}
	done := map[string]bool{}
	var cyc func(k string) bool
	cyc = func(k string) bool {
		if onPath[k] {
			return true
		}
		if done[k] || kinds[k] != "d" {
			return false
		}
		onPath[k] = true
		for _, c := range kids[k] {
			if cyc(c) {
				return true
			}
		}
		onPath[k] = false
		done[k] = true
		return false
	}
	k, ok := index[abs]
	if _, pok := index[abs[:max(strings.LastIndex(abs, "/"), 0)]]; !pok || path == "" || !strings.HasPrefix(abs, "/") {
		return false // RemoveAll returns (or panics in SplitAbs) before it walks
	}
	return ok && cyc(k)
}
