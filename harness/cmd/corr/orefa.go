package main

import (
	"fmt"
	"sort"
	"strconv"
	"strings"

	"github.com/avfs/avfs/vfs/orefafs"

	"verifharness/lib"
)

func init() {
	parts["orefa"] = corrOrefa
	parts["kernel-orefa"] = kernelOrefa
}

var kOrefa = kImpl{mk: newFsImplOrefaRoot, snap: "ofs 0 snapo", name: "OrefaFS", class: "orefa."}

// ---------- readable form of protocol lines ----------

// hexArgs: the positions of the hex-encoded operands (paths, names, data) of every call of the protocol.
var hexArgs = map[string][]int{"mkdir": {0}, "mkdirall": {0}, "openfile": {0}, "create": {0}, "remove": {0}, "removeall": {0}, "rename": {0, 1},
	"link": {0, 1}, "symlink": {0, 1}, "truncate": {0}, "chmod": {0}, "chown": {0}, "lchown": {0}, "chtimes": {0}, "chdir": {0}, "stat": {0}, "lstat": {0},
	"readdir": {0}, "readfile": {0}, "readlink": {0}, "evalsymlinks": {0}, "writefile": {0, 1}, "mkdirtemp": {0, 1, 2}, "createtemp": {0, 1, 2}, "sub": {0},
	"file.write": {0}, "file.writeat": {0}}

// pathArgs: the positions of the path operands among them.
var pathArgs = map[string][]int{"writefile": {0}, "mkdirtemp": {0}, "createtemp": {0}, "file.write": {}, "file.writeat": {}}

func isIn(xs []int, i int) bool {
	for _, x := range xs {
		if x == i {
			return true
		}
	}
	return false
}

// decodeLine renders a protocol line as a call: hex operands become quoted strings.
func decodeLine(l string) string {
	f := strings.Fields(l)
	if len(f) < 3 {
		return l
	}
	op, name, a := f[2], f[2], f[3:]
	if op == "file" && len(a) >= 2 {
		op, name, a = "file."+a[1], fmt.Sprintf("h%s.%s", a[0], a[1]), a[2:]
	}
	var args []string
	for i, x := range a {
		switch {
		case isIn(hexArgs[op], i):
			args = append(args, strconv.Quote(lib.UnHex(x)))
		case op == "openfile" && i == 1:
			args = append(args, fmt.Sprintf("0x%x", atoiS(x)))
		case (op == "mkdir" || op == "mkdirall" || op == "chmod" || op == "file.chmod" || op == "writefile" || op == "openfile") && x != "0":
			args = append(args, fmt.Sprintf("0%o", atoiS(x)))
		default:
			args = append(args, x)
		}
	}
	return name + "(" + strings.Join(args, ", ") + ")"
}

func decodeHistory(h lib.History) string {
	var out []string
	for _, l := range h {
		f := strings.Fields(l)
		if len(f) >= 3 && (f[2] == "dump" || f[2] == "snap" || f[2] == "snapo") || len(f) == 2 {
			continue
		}
		out = append(out, decodeLine(l))
	}
	return strings.Join(out, "; ")
}

// ol builds a line of the domain `ofs`: strings are hex encoded, raw words and integers are copied.
type raw string

func ol(op string, a ...any) string {
	w := []string{"ofs", "0", op}
	for _, x := range a {
		switch v := x.(type) {
		case string:
			w = append(w, lib.Hex(v))
		case raw:
			w = append(w, string(v))
		default:
			w = append(w, fmt.Sprint(v))
		}
	}
	return strings.Join(w, " ")
}

// ---------- the index / tree consistency oracle on a verif dump ----------

// orefaConsistent: the index map of a dumped OrefaFS names exactly the paths of the tree below the root (and the root
// itself as "" and as "/"), with the same nodes. Returns a description of the first difference ("" when consistent).
func orefaConsistent(dump string) string {
	kids := map[string][][2]string{}
	index := map[string]string{}
	for _, t := range strings.Fields(dump)[1:] {
		if strings.HasPrefix(t, "index:") {
			for _, e := range strings.Split(t[len("index:"):], ",") {
				if kv := strings.SplitN(e, "=", 2); len(kv) == 2 {
					index[lib.UnHex(kv[0])] = kv[1]
				}
			}
			continue
		}
		k := t[:strings.Index(t, ":")]
		if i := strings.Index(t, "["); i >= 0 && t[i:] != "[nil]" && t[i:] != "[]" {
			for _, e := range strings.Split(t[i+1:len(t)-1], ",") {
				nv := strings.SplitN(e, ">", 2)
				kids[k] = append(kids[k], [2]string{lib.UnHex(nv[0]), nv[1]})
			}
		}
	}
	tree := map[string]string{}
	var walk func(p, k string, depth int)
	walk = func(p, k string, depth int) {
		tree[p] = k
		if depth > 12 {
			return
		}
		for _, c := range kids[k] {
			walk(p+"/"+c[0], c[1], depth+1)
		}
	}
	walk("", "0", 0)
	tree["/"] = "0" // the root is indexed under "" (the parent of "/x") and under its own path
	var ps []string
	for p := range tree {
		ps = append(ps, p)
	}
	for p := range index {
		if _, ok := tree[p]; !ok {
			ps = append(ps, p)
		}
	}
	sort.Strings(ps)
	for _, p := range ps {
		t, tok := tree[p]
		x, xok := index[p]
		switch {
		case !tok:
			return fmt.Sprintf("the index has %q (node %s), the tree has no such path", p, x)
		case !xok:
			return fmt.Sprintf("the tree has %q (node %s), the index does not", p, t)
		case t != x:
			return fmt.Sprintf("%q is node %s in the tree and node %s in the index", p, t, x)
		}
	}
	return ""
}

// ---------- part orefa: implementation ≟ Lean model ----------

// renameIntoSubtree: the line renames a path to a path below itself (the final state of OrefaFS then depends on Go's
// map iteration order).
func renameIntoSubtree(m *fsImpl, l string) bool {
	f := strings.Fields(l)
	if len(f) != 5 || f[2] != "rename" {
		return false
	}
	o, _ := m.views[0].Abs(lib.UnHex(f[3]))
	n, _ := m.views[0].Abs(lib.UnHex(f[4]))
	return strings.HasPrefix(n, o+"/")
}

func callsOnly(h lib.History) lib.History {
	var out lib.History
	for _, l := range h {
		if !strings.HasSuffix(l, " dump") {
			out = append(out, l)
		}
	}
	return out
}

// withDumps inserts a dump after every call (not after the first line, not after a call that ended the instance).
func withDumps(h lib.History) lib.History {
	var out lib.History
	for i, l := range h {
		out = append(out, l)
		if i > 0 && !strings.HasSuffix(l, " dump") {
			out = append(out, "ofs 0 dump")
		}
	}
	return out
}

// runOrefa executes a history on a fresh OrefaFS; it stops after a panic or a hang (the later lines are dropped).
func runOrefa(h lib.History) (lib.History, []string) {
	_, fx, out := orefaReplay(h, len(h))
	return fx[:len(out)], out
}

// orefaReplay executes the first `upto` lines of a history on a fresh OrefaFS (it stops after a panic or a hang) and
// returns the instance, the lines and the outputs. The random part of a temporary name is chosen anew by the
// implementation on every run: the later lines that mention the name of the recorded run (those not executed included)
// are rewritten to the name of this run.
func orefaReplay(h lib.History, upto int) (*fsImpl, lib.History, []string) {
	m := newFsImplOrefa()
	fixed := append(lib.History{}, h...)
	var out []string
	for i := 0; i < len(fixed) && i < upto; i++ {
		l := fixed[i]
		f := strings.Fields(l)
		var res string
		if len(f) >= 6 && (f[2] == "mkdirtemp" || f[2] == "createtemp") {
			old := f[5]
			f[5] = "?"
			res = m.call(strings.Join(f, " "))
			rnd := "0"
			if strings.HasPrefix(res, "ok b ") {
				rnd = tempRnd(lib.UnHex(f[3]), lib.UnHex(f[4]), lib.UnHex(strings.Fields(res)[2]))
			} else if strings.HasPrefix(res, "ok h ") {
				rnd = tempRnd(lib.UnHex(f[3]), lib.UnHex(f[4]), m.handles[atoiS(strings.Fields(res)[2])].Name())
			}
			f[5] = lib.Hex(rnd)
			fixed[i] = strings.Join(f, " ")
			if len(old) >= 12 && len(f[5]) >= 12 && old != f[5] {
				for j := i + 1; j < len(fixed); j++ {
					fixed[j] = strings.ReplaceAll(fixed[j], old, f[5])
				}
			}
		} else {
			res = m.call(l)
		}
		out = append(out, res)
		if res == "panic" || res == "hang" {
			break
		}
	}
	return m, fixed, out
}

func corrOrefa(seed uint64, tier string, replay []string) *lib.Result {
	res := &lib.Result{Property: "OREFA",
		Rule: "template-driven random histories on a fresh OrefaFS (operands chosen from the paths its index resolves: existing dir/file, missing name, missing parent, below a file, \"/\", \"\", relative to the current directory, unclean forms; handle operations on the open files); after EVERY call the node graph and the index map of impl (verif hook) are compared with the model's; a history ends at the first panic or hang; plus the bounded-exhaustive scenarios file-admin and dir-handle of small.go (every sequence of ≤ 3 / ≤ 5 calls, thorough 4 / 6); a case is one call; distinct non-trivial = distinct (call kind, outcome, position bucket)"}
	st := lib.NewStats()
	opts := fsGenOpts{files: true, unclean: true, aliasing: true, orefa: true}
	nh, nl := 600, 40
	if tier == "thorough" {
		nh, nl = 3000, 60
	}
	var hs []lib.History
	var impls [][]string
	var nondet lib.History
	cov := map[string]int{}
	if replay != nil {
		fx, out := runOrefa(replay)
		hs, impls = []lib.History{fx}, [][]string{out}
	} else {
		r := lib.NewRng(seed*7919 + 21)
		for k := 0; k < nh; k++ {
			m := newFsImplOrefa()
			g := &fsGen{r: r.Split(), impl: m, opts: opts, nviews: 1}
			h := lib.History{"ofs new"}
			out := []string{"ok"}
			opened, unlinked, appendH := map[int]string{}, map[int]bool{}, map[int]bool{}
			for i := 0; i < nl && !m.dead; i++ {
				l := g.next()
				f := strings.Fields(l)
				sub := renameIntoSubtree(m, l)
				note := orefaSituations(m, f, unlinked, appendH)
				o := m.call(l)
				orefaCover(cov, m, f, o, note, opened, unlinked, appendH)
				if f[2] == "mkdirtemp" || f[2] == "createtemp" {
					rnd := "0"
					if strings.HasPrefix(o, "ok b ") {
						rnd = tempRnd(lib.UnHex(f[3]), lib.UnHex(f[4]), lib.UnHex(strings.Fields(o)[2]))
					} else if strings.HasPrefix(o, "ok h ") {
						rnd = tempRnd(lib.UnHex(f[3]), lib.UnHex(f[4]), m.handles[atoiS(strings.Fields(o)[2])].Name())
					}
					f[5] = lib.Hex(rnd)
					l = strings.Join(f, " ")
				}
				if strings.HasPrefix(o, "ok h ") {
					g.open = append(g.open, atoiS(strings.Fields(o)[2]))
				}
				h = append(h, l)
				out = append(out, o)
				if sub && o == "ok" {
					// the index now depends on Go's map iteration order: the history ends here (finding)
					if nondet == nil {
						nondet = append(lib.History{}, h...)
					}
					break
				}
				if !m.dead {
					h = append(h, "ofs 0 dump")
					out = append(out, m.call("ofs 0 dump"))
				}
			}
			hs = append(hs, h)
			impls = append(impls, out)
		}
		// bounded-exhaustive scenarios (small.go) that need neither users nor symbolic links: one file through its name
		// and two handles, one directory through a handle while it changes
		for _, scn := range []string{"file-admin", "dir-handle"} {
			sh, _ := smallHistories(tier, scn)
			for _, h0 := range sh {
				m := newFsImplOrefa()
				h, out := lib.History{}, []string{}
				for _, l := range h0 {
					if m.dead {
						break
					}
					l = "o" + l
					h = append(h, l)
					out = append(out, m.call(l))
				}
				hs = append(hs, h)
				impls = append(impls, out)
			}
		}
	}
	model, err := lib.ModelExecAll(hs)
	if err != nil {
		res.Mismatches = append(res.Mismatches, lib.Mismatch{Kind: "unproved", Class: "corr-impl orefa", What: "driver failure " + err.Error()})
		return res
	}
	seen := map[string]bool{}
	nPanic, nHang, nIncons := 0, 0, 0
	shrinks := 0
	for k, h := range hs {
		for i, l := range h {
			if i == 0 || strings.HasSuffix(l, " dump") {
				continue
			}
			kind, key := fsKey(l, impls[k][i])
			st.Count(kind, key+fmt.Sprintf("|%d", i/16))
		}
		if k < 2 {
			n := min(len(h), 9)
			st.Sample(map[string]any{"history": h[:n], "impl": impls[k][:n]})
		}
		// (1) implementation ≟ model
		if d := lib.FirstDiff(impls[k], model[k]); d >= 0 && shrinks < 60 {
			shrinks++ // enough representatives after 60 minimisations (each costs many driver runs)
			cut := h[:d+1]
			small := lib.Shrink(cut, 1, func(c lib.History) bool {
				fx, io := runOrefa(c)
				return lib.FirstDiff(io, lib.ModelExec(fx)) >= 0
			})
			fx, si := runOrefa(small)
			sm := lib.ModelExec(fx)
			if di := lib.FirstDiff(si, sm); di >= 0 && di < len(fx) {
				lf := strings.Fields(fx[di])
				sig := lf[2] + "|" + lib.OutcomeClass(si[di]) + "|" + lib.OutcomeClass(sm[min(di, len(sm)-1)])
				if lf[2] == "dump" && di > 0 {
					pf := strings.Fields(fx[di-1])
					sig = "dump-after-" + pf[2] + "|" + lib.OutcomeClass(si[di-1])
				}
				if !seen[sig] && len(res.Mismatches) < 40 {
					seen[sig] = true
					kind := "unproved"
					if extra := orefaSearch(fx, si); extra != nil {
						kind = "explained"
						res.Mismatches = append(res.Mismatches, *extra)
					}
					res.Mismatches = append(res.Mismatches, lib.Mismatch{Kind: kind, Class: "corr-impl orefa " + sig,
						What:    fmt.Sprintf("implementation and Lean model differ at %s: impl %q model %q [%s]", decodeLine(fx[di]), trunc(si[di]), trunc(sm[min(di, len(sm)-1)]), decodeHistory(fx[:di+1])),
						History: fx, Impl: si, Model: sm, Index: di})
				}
			}
			continue
		}
		// (2) a call that does not return: finding, minimised per (call kind, outcome, operand situation)
		last := len(h) - 1
		if o := impls[k][last]; o == "panic" || o == "hang" {
			if o == "panic" {
				nPanic++
			} else {
				nHang++
			}
			sig := orefaSig(h, last, o)
			if !seen[sig] && len(res.Mismatches) < 40 {
				seen[sig] = true
				small := lib.Shrink(callsOnly(h), 1, func(c lib.History) bool {
					_, io := runOrefa(c)
					return len(io) == len(c) && io[len(io)-1] == o
				})
				fx, si := runOrefa(withDumps(small))
				sm := lib.ModelExec(fx)
				agree := "the Lean model predicts it"
				if lib.FirstDiff(si, sm) >= 0 {
					agree = "the Lean model DIFFERS on the minimised history"
				}
				res.Mismatches = append(res.Mismatches, lib.Mismatch{Kind: "violation", Class: "orefa." + orefaSig(fx, len(fx)-1, o),
					What:    fmt.Sprintf("%s %ss on OrefaFS (every call must return); %s [%s]", decodeLine(fx[len(fx)-1]), o, agree, decodeHistory(fx)),
					History: fx, Impl: si, Model: sm, Index: len(fx) - 1})
			}
		}
		// (3) the index map and the tree name the same nodes after every call
		for i, l := range h {
			if !strings.HasSuffix(l, " dump") || !strings.HasPrefix(impls[k][i], "dump ") {
				continue
			}
			why := orefaConsistent(impls[k][i])
			if why == "" {
				continue
			}
			nIncons++
			pf := strings.Fields(h[i-1])
			sig := "index-tree|" + pf[2] + "|" + lib.OutcomeClass(impls[k][i-1])
			if !seen[sig] && len(res.Mismatches) < 40 {
				seen[sig] = true
				op, oc := pf[2], lib.OutcomeClass(impls[k][i-1])
				small := lib.Shrink(callsOnly(h[:i]), 1, func(c lib.History) bool {
					fx, io := runOrefa(withDumps(c))
					n := len(io)
					if n < 4 || len(fx) != n || !strings.HasPrefix(io[n-1], "dump ") || !strings.HasPrefix(io[n-3], "dump ") {
						return false
					}
					return strings.Fields(fx[n-2])[2] == op && lib.OutcomeClass(io[n-2]) == oc && orefaConsistent(io[n-1]) != "" && orefaConsistent(io[n-3]) == ""
				})
				fx, si := runOrefa(withDumps(small))
				if n := len(si); n >= 2 && strings.HasPrefix(si[n-1], "dump ") {
					if w := orefaConsistent(si[n-1]); w != "" {
						why = w
					}
				}
				res.Mismatches = append(res.Mismatches, lib.Mismatch{Kind: "violation", Class: "orefa.index-tree-inconsistent-after-" + op + "." + oc,
					What:    fmt.Sprintf("after %s (%s) the index map and the tree of OrefaFS disagree: %s [%s]", decodeLine(fx[len(fx)-2]), oc, why, decodeHistory(fx)),
					History: fx, Impl: si, Index: len(fx) - 1})
			}
			break
		}
	}
	if nondet != nil {
		// Rename of a directory to a path below itself succeeds; the keys the rewriting loop inserts are themselves
		// candidates of the same loop: the resulting index differs from run to run.
		small := lib.Shrink(callsOnly(nondet), 1, func(c lib.History) bool {
			m := newFsImplOrefa()
			for i, l := range c {
				sub := i == len(c)-1 && renameIntoSubtree(m, l)
				if o := m.call(l); i == len(c)-1 {
					return sub && o == "ok"
				}
			}
			return false
		})
		variants := map[string]bool{}
		for i := 0; i < 30; i++ {
			_, io := runOrefa(append(append(lib.History{}, small...), "ofs 0 dump"))
			variants[io[len(io)-1]] = true
		}
		var vs []string
		for v := range variants {
			vs = append(vs, v)
		}
		sort.Strings(vs)
		res.Mismatches = append(res.Mismatches, lib.Mismatch{Kind: "violation", Class: "orefa.rename-into-own-subtree",
			What:    fmt.Sprintf("%s succeeds (Linux: EINVAL); the directory becomes its own descendant and the index rewritten by the loop over vfs.nodes took %d different values in 30 runs [%s]", decodeLine(small[len(small)-1]), len(vs), decodeHistory(small)),
			History: small, Impl: vs[:min(len(vs), 4)], Index: len(small) - 1})
	}
	if len(cov) > 0 {
		var cs []string
		for k, n := range cov {
			cs = append(cs, fmt.Sprintf("%s=%d", k, n))
		}
		sort.Strings(cs)
		res.Notes = append(res.Notes, "situations reached (calls): "+strings.Join(cs, ", "))
	}
	res.Notes = append(res.Notes, fmt.Sprintf("%d histories; %d ended by a panic, %d by a hang; %d reached a state whose index and tree disagree", len(hs), nPanic, nHang, nIncons))
	st.Fill(res)
	return res
}

// orefaSituations names, in the state BEFORE a call, the situations of interest its operands are in.
func orefaSituations(m *fsImpl, f []string, unlinked, appendH map[int]bool) []string {
	var out []string
	vfs := m.views[0]
	op := f[2]
	cwd, _ := vfs.Getwd()
	_, _, index := orefaIndex(vfs.(*orefafs.OrefaFS))
	kind := func(p string) string {
		a, _ := vfs.Abs(p)
		if _, ok := index[a]; !ok {
			return ""
		}
		if fi, err := vfs.Stat(a); err == nil && fi.IsDir() {
			return "d"
		}
		return "f"
	}
	if op == "file" && len(f) > 4 {
		hid := atoiS(f[3])
		if unlinked[hid] {
			out = append(out, "handle-op-after-unlink")
		}
		if appendH[hid] && f[4] == "write" {
			out = append(out, "write-on-O_APPEND-handle")
		}
		if ((f[4] == "read" || f[4] == "readat") && f[5] == "0") || ((f[4] == "write" || f[4] == "writeat") && f[5] == "-") {
			out = append(out, "zero-length-io")
		}
		return out
	}
	pa, ok := pathArgs[op]
	if !ok {
		pa = hexArgs[op]
	}
	for i, x := range f[3:] {
		if !isIn(pa, i) {
			continue
		}
		p := lib.UnHex(x)
		switch {
		case p == "/":
			out = append(out, "operand-slash")
		case p == "":
			out = append(out, "operand-empty")
		case !strings.HasPrefix(p, "/") && cwd != "/":
			out = append(out, "relative-operand-cwd-changed")
		case !strings.HasPrefix(p, "/"):
			out = append(out, "relative-operand")
		}
	}
	switch op {
	case "rename":
		o, _ := vfs.Abs(lib.UnHex(f[3]))
		if kind(o) == "d" {
			for k := range index {
				if strings.HasPrefix(k, o+"/") {
					out = append(out, "rename-dir-with-descendants")
					break
				}
			}
		}
		if k := kind(lib.UnHex(f[4])); k != "" && kind(o) != "" {
			out = append(out, "rename-onto-existing-"+k)
		}
	case "link":
		if kind(lib.UnHex(f[3])) == "d" {
			out = append(out, "link-of-dir")
		}
	case "mkdirall":
		a, _ := vfs.Abs(lib.UnHex(f[3]))
		missing := 0
		for a != "" && a != "/" {
			if _, ok := index[a]; ok {
				break
			}
			missing++
			a = a[:max(strings.LastIndex(a, "/"), 0)]
		}
		if missing >= 2 {
			out = append(out, fmt.Sprintf("mkdirall-%d-missing", min(missing, 4)))
		}
	}
	return out
}

// orefaCover counts the situations a call was in by outcome class, and follows the handles (name opened, unlinked,
// opened with O_APPEND).
func orefaCover(cov map[string]int, m *fsImpl, f []string, o string, sits []string, opened map[int]string, unlinked, appendH map[int]bool) {
	oc := lib.OutcomeClass(o)
	for _, s := range sits {
		cov[s+"/"+oc]++
	}
	vfs := m.views[0]
	switch f[2] {
	case "openfile", "create", "createtemp":
		if strings.HasPrefix(o, "ok h ") {
			hid := atoiS(strings.Fields(o)[2])
			a, _ := vfs.Abs(m.handles[hid].Name())
			opened[hid] = a
			appendH[hid] = f[2] == "openfile" && atoiS(f[4])&0x400 != 0
		}
	case "remove", "removeall", "rename":
		if o == "ok" {
			a, _ := vfs.Abs(lib.UnHex(f[len(f)-1]))
			for hid, p := range opened {
				if p == a || (f[2] == "removeall" && strings.HasPrefix(p, a+"/")) {
					unlinked[hid] = true
				}
			}
		}
	case "file":
		if len(f) > 5 && (f[4] == "readdir" || f[4] == "readdirnames") && atoiS(f[5]) > 0 {
			cov["readdir-batch/"+oc]++
		}
		if f[4] == "close" && o == "ok" {
			delete(opened, atoiS(f[3]))
			delete(unlinked, atoiS(f[3]))
		}
	}
}

// orefaSig: the class of a call that did not return: call kind, outcome, and what the operands are in the state before
// the call (for Rename and Link: what the parent of the new name is).
func orefaSig(h lib.History, at int, outcome string) string {
	m, fx, _ := orefaReplay(callsOnly(h[:at+1]), len(callsOnly(h[:at])))
	f := strings.Fields(fx[len(fx)-1])
	op := f[2]
	vfs := m.views[0]
	var sits []string
	switch {
	case op == "file" && len(f) > 4:
		op = "file." + f[4]
		if hd, ok := m.handles[atoiS(f[3])]; ok {
			switch {
			case f[4] == "stat" && !strings.Contains(hd.Name(), "/"):
				sits = append(sits, "name-without-separator")
			case f[4] == "read" || f[4] == "write":
				sits = append(sits, "offset-beyond-eof")
			}
		}
	case (op == "rename" || op == "link") && len(f) == 5:
		o, _ := vfs.Abs(lib.UnHex(f[3]))
		n, _ := vfs.Abs(lib.UnHex(f[4]))
		par := n[:max(strings.LastIndex(n, "/"), 0)]
		ps := "root"
		if par != "" {
			ps = situation(m, par)
		}
		switch {
		case par == o:
			ps = "old"
		case orefaNilMap(m, par):
			ps += "-that-never-had-a-child"
		case op == "link" && orefaNode(m, par) == orefaNode(m, o):
			ps = "hard-link-of-old"
		}
		sits = append(sits, situation(m, o), "new-parent="+ps)
	default:
		cwd, _ := vfs.Getwd()
		pa, ok := pathArgs[op]
		if !ok {
			pa = hexArgs[op]
		}
		for i, x := range f[3:] {
			if !isIn(pa, i) {
				continue
			}
			p := lib.UnHex(x)
			s := situation(m, p)
			if op == "readfile" && !strings.Contains(p, "/") {
				s = "name-without-separator"
			}
			if !strings.HasPrefix(cwd, "/") && !strings.HasPrefix(p, "/") {
				s = "relative-cwd"
			}
			sits = append(sits, s)
		}
	}
	return op + "(" + strings.Join(sits, ";") + ")." + outcome
}

// orefaNode: the number of the node the index of an OrefaFS has for a path ("" when it has none).
func orefaNode(m *fsImpl, path string) string {
	_, _, index := orefaIndex(m.views[0].(*orefafs.OrefaFS))
	return index[path]
}

// orefaNilMap: the index has a directory for the path and its children map is nil (no child was ever added).
func orefaNilMap(m *fsImpl, path string) bool {
	k := orefaNode(m, path)
	if k == "" {
		return false
	}
	for _, t := range strings.Fields(m.views[0].(*orefafs.OrefaFS).VerifDump())[1:] {
		if strings.HasPrefix(t, k+":") {
			return strings.HasSuffix(t, "[nil]")
		}
	}
	return false
}

// ---------- part kernel-orefa: OrefaFS ≟ Linux kernel ----------

// orefaSuspects: short scripted histories around the suspected defects of OrefaFS; each is run on OrefaFS and on the
// kernel oracle like a generated history (it ends at the first disagreement).
var orefaSuspects = []struct {
	name string
	h    lib.History
}{
	{"stat-root", lib.History{ol("stat", "/")}},
	{"lstat-root", lib.History{ol("lstat", "/")}},
	{"readdir-root", lib.History{ol("readdir", "/")}},
	{"open-root", lib.History{ol("openfile", "/", 0, 0)}},
	{"chdir-root", lib.History{ol("chdir", "/tmp"), ol("chdir", "/")}},
	{"chdir-dotdot", lib.History{ol("chdir", "/tmp"), ol("chdir", "..")}},
	{"chmod-root", lib.History{ol("chmod", "/", 0o700)}},
	{"mkdir-root", lib.History{ol("mkdir", "/", 0o755)}},
	{"mkdirall-root", lib.History{ol("mkdirall", "/", 0o755)}},
	{"create-root", lib.History{ol("openfile", "/", 0x42, 0o644)}},
	{"remove-root", lib.History{ol("remove", "/")}},
	{"removeall-root", lib.History{ol("removeall", "/tmp/.."), ol("stat", "/tmp")}},
	{"link-dir-below-itself", lib.History{ol("mkdir", "/a", 0o755), ol("link", "/a", "/a/x")}},
	{"link-file-below-itself", lib.History{ol("writefile", "/f", "x", 0o644), ol("link", "/f", "/f/x")}},
	{"link-dir", lib.History{ol("mkdir", "/a", 0o755), ol("link", "/a", "/b")}},
	{"link-below-file", lib.History{ol("writefile", "/f", "x", 0o644), ol("writefile", "/g", "y", 0o644), ol("link", "/f", "/g/x")}},
	{"rename-into-fresh-dir", lib.History{ol("mkdir", "/a", 0o755), ol("writefile", "/f", "x", 0o644), ol("rename", "/f", "/a/f")}},
	{"rename-into-emptied-dir", lib.History{ol("mkdir", "/a", 0o755), ol("writefile", "/a/g", "x", 0o644), ol("remove", "/a/g"), ol("writefile", "/f", "x", 0o644), ol("rename", "/f", "/a/f")}},
	{"rename-below-file", lib.History{ol("writefile", "/f", "x", 0o644), ol("writefile", "/g", "y", 0o644), ol("rename", "/f", "/g/x")}},
	{"rename-dir-with-descendants", lib.History{ol("mkdir", "/a", 0o755), ol("mkdir", "/a/b", 0o755), ol("writefile", "/a/b/f", "x", 0o644), ol("rename", "/a", "/c"), ol("readfile", "/c/b/f"), ol("stat", "/a/b/f")}},
	{"rename-dir-onto-empty-dir", lib.History{ol("mkdir", "/a", 0o755), ol("mkdir", "/b", 0o755), ol("rename", "/a", "/b")}},
	{"rename-file-onto-dir", lib.History{ol("writefile", "/f", "x", 0o644), ol("mkdir", "/b", 0o755), ol("rename", "/f", "/b")}},
	{"rename-dir-onto-file", lib.History{ol("writefile", "/f", "x", 0o644), ol("mkdir", "/b", 0o755), ol("rename", "/b", "/f")}},
	{"rename-onto-hard-linked-file", lib.History{ol("writefile", "/f", "x", 0o644), ol("link", "/f", "/g"), ol("writefile", "/h", "y", 0o644), ol("rename", "/h", "/g")}},
	{"rename-missing-onto-itself", lib.History{ol("rename", "/nope", "/nope")}},
	{"rename-into-own-subtree", lib.History{ol("mkdir", "/a", 0o755), ol("mkdir", "/a/b", 0o755), ol("rename", "/a", "/a/x")}},
	{"mkdirall-chain", lib.History{ol("mkdirall", "/a/b/c", 0o755)}},
	{"mkdirall-one", lib.History{ol("mkdirall", "/a", 0o755), ol("mkdirall", "/a/b", 0o755), ol("stat", "/a/b")}},
	{"handle-stat-relative-name", lib.History{ol("chdir", "/tmp"), ol("writefile", "f", "x", 0o644), ol("openfile", "f", 0, 0), ol("file", 0, raw("stat"))}},
	{"readfile-relative-name", lib.History{ol("chdir", "/tmp"), ol("writefile", "f", "x", 0o644), ol("readfile", "f")}},
	{"handle-chdir-relative-name", lib.History{ol("openfile", "tmp", 0, 0), ol("file", 0, raw("chdir")), ol("getwd"), ol("mkdir", "x", 0o755)}},
	{"read-beyond-eof", lib.History{ol("writefile", "/f", "hello", 0o644), ol("openfile", "/f", 2, 0), ol("file", 0, raw("seek"), 10, 0), ol("file", 0, raw("read"), 1)}},
	{"write-beyond-eof", lib.History{ol("writefile", "/f", "hello", 0o644), ol("openfile", "/f", 2, 0), ol("file", 0, raw("seek"), 10, 0), ol("file", 0, raw("write"), "Z")}},
	{"read-after-truncate", lib.History{ol("writefile", "/f", "hello", 0o644), ol("openfile", "/f", 2, 0), ol("file", 0, raw("read"), 5), ol("truncate", "/f", 1), ol("file", 0, raw("read"), 1)}},
	{"append-after-seek", lib.History{ol("writefile", "/f", "hello", 0o644), ol("openfile", "/f", 0x401, 0), ol("file", 0, raw("seek"), 0, 0), ol("file", 0, raw("write"), "A")}},
	{"append-after-growth", lib.History{ol("writefile", "/f", "hello", 0o644), ol("openfile", "/f", 0x401, 0), ol("openfile", "/f", 1, 0), ol("file", 1, raw("write"), "0123456789"), ol("file", 0, raw("write"), "A")}},
	{"read-after-unlink", lib.History{ol("writefile", "/f", "hello", 0o644), ol("openfile", "/f", 0, 0), ol("remove", "/f"), ol("file", 0, raw("read"), 5)}},
	{"read-zero-length", lib.History{ol("writefile", "/f", "hello", 0o644), ol("openfile", "/f", 0, 0), ol("file", 0, raw("read"), 0)}},
	{"read-at-eof", lib.History{ol("writefile", "/f", "hello", 0o644), ol("openfile", "/f", 0, 0), ol("file", 0, raw("read"), 5), ol("file", 0, raw("read"), 5), ol("file", 0, raw("read"), 0)}},
	{"writeat-zero-length-beyond-eof", lib.History{ol("writefile", "/f", "hello", 0o644), ol("openfile", "/f", 2, 0), ol("file", 0, raw("writeat"), "", 9)}},
	{"chown-minus-one", lib.History{ol("chown", "/tmp", -1, -1)}},
	{"removeall-tree", lib.History{ol("mkdir", "/a", 0o755), ol("mkdir", "/a/b", 0o755), ol("writefile", "/a/b/f", "x", 0o644), ol("writefile", "/a/g", "y", 0o644), ol("removeall", "/a"), ol("stat", "/a/b/f"), ol("mkdir", "/a", 0o755), ol("readdir", "/a")}},
}

func kernelOrefa(seed uint64, tier string, replay []string) *lib.Result {
	opts := fsGenOpts{files: true, kernel: true, orefa: true}
	res := corrKernelWith(kOrefa, seed, tier, replay, "OREFA", opts, 22)
	if replay != nil {
		return res
	}
	seen := map[string]bool{}
	for _, m := range res.Mismatches {
		seen[m.Class] = true
	}
	agreeing := []string{}
	for _, s := range orefaSuspects {
		l, a, b := runBothWith(kOrefa, append(lib.History{"ofs new"}, s.h...))
		di := lib.FirstDiff(a, b)
		if di < 0 {
			agreeing = append(agreeing, s.name)
			continue
		}
		cls := kernelClassWith(kOrefa, l, a, b, di)
		if seen[cls+"#"+s.name] {
			continue
		}
		seen[cls+"#"+s.name] = true
		res.Mismatches = append(res.Mismatches, lib.Mismatch{Kind: "known", Class: cls,
			What:    fmt.Sprintf("suspect %q: OrefaFS and the Linux kernel disagree at %s: OrefaFS %q, kernel %q [%s]", s.name, decodeLine(l[di]), trunc(a[di]), trunc(b[di]), decodeHistory(l)),
			History: l, Impl: a, Expected: b, Index: di})
	}
	res.Notes = append(res.Notes, fmt.Sprintf("%d scripted suspect histories; OrefaFS and the kernel agree on: %s", len(orefaSuspects), strings.Join(agreeing, ", ")))
	return res
}

// orefaSearch looks for a failing input of the properties themselves on a (shrunk) history on which OrefaFS and its
// model disagree: (1) the consistency of the tree and the path index on the implementation's dumps, (2) the Linux
// kernel on the same history, then on the same state with read-only calls on the operands of the last call and on the
// entries of their directories (a wrong index key shows as a name ReadDir lists but Lstat does not find).
func orefaSearch(h lib.History, impl []string) *lib.Mismatch {
	for i, l := range h {
		if strings.HasSuffix(l, " dump") && i < len(impl) && strings.HasPrefix(impl[i], "dump ") {
			if bad := orefaConsistent(impl[i]); bad != "" {
				return &lib.Mismatch{Kind: "violation", Class: "orefa.index-tree-inconsistent", What: fmt.Sprintf("after %s the path index and the tree of OrefaFS disagree: %s [%s]", decodeLine(h[max(i-1, 0)]), bad, decodeHistory(h[:i+1])),
					History: h[:i+1], Impl: []string{impl[i]}, Index: i}
			}
		}
	}
	var calls lib.History
	for _, l := range h {
		if !strings.HasSuffix(l, " dump") {
			calls = append(calls, l)
		}
	}
	try := func(c lib.History) *lib.Mismatch {
		l, a, b := runBothWith(kOrefa, c)
		if d := lib.FirstDiff(a, b); d >= 0 {
			cls := kernelClassWith(kOrefa, l, a, b, d)
			if ledgerKnown(cls) {
				return nil
			}
			return &lib.Mismatch{Kind: "known", Class: cls, What: fmt.Sprintf("OrefaFS and the Linux kernel disagree at %s: OrefaFS %q, kernel %q [%s]", decodeLine(l[d]), trunc(a[d]), trunc(b[d]), decodeHistory(l[:d+1])),
				History: l, Impl: a, Expected: b, Index: d}
		}
		return nil
	}
	if m := try(calls); m != nil {
		return m
	}
	if len(calls) < 2 {
		return nil
	}
	f := strings.Fields(calls[len(calls)-1])
	pre := strings.Join(f[:2], " ")
	var probes []string
	for _, x := range f[3:] {
		if strings.HasPrefix(x, "2f") {
			p := lib.UnHex(x)
			probes = append(probes, "lstat "+x, "readdir "+x, "readfile "+x, "walk "+x+" -")
			for _, n := range fsNames {
				probes = append(probes, "lstat "+lib.Hex(p+"/"+n), "readdir "+lib.Hex(p+"/"+n))
				for _, n2 := range fsNames {
					probes = append(probes, "lstat "+lib.Hex(p+"/"+n+"/"+n2))
				}
			}
		}
	}
	for _, q := range probes {
		for _, base := range []lib.History{calls, calls[:len(calls)-1]} {
			if m := try(append(append(lib.History{}, base...), pre+" "+q)); m != nil {
				m.What = "found next to the model/implementation disagreement at " + decodeLine(calls[len(calls)-1]) + ": " + m.What
				return m
			}
		}
	}
	return nil
}
