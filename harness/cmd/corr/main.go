// corr: correspondence driver. `corr <part> [-seed N] [-tier quick|thorough] [-replay file]`
// Runs generated (or replayed) histories on the Go implementation in /repo and on the Lean model
// driver, compares the canonical result lines, shrinks and classifies every disagreement, and prints
// one JSON Result on stdout.
package main

import (
	"encoding/json"
	"flag"
	"fmt"
	"os"
	"strings"

	"verifharness/lib"
)

type part func(seed uint64, tier string, replay []string) *lib.Result

var parts = map[string]part{}

func main() {
	if len(os.Args) < 2 {
		fmt.Fprintln(os.Stderr, "usage: corr <part> [-seed N] [-tier quick|thorough] [-replay file]")
		os.Exit(2)
	}
	name := os.Args[1]
	if name == "__oracle" {
		oracleMain(os.Args[2])
		return
	}
	fs := flag.NewFlagSet("corr", flag.ExitOnError)
	seed := fs.Uint64("seed", 1, "seed")
	tier := fs.String("tier", "quick", "tier")
	replay := fs.String("replay", "", "replay file (JSON with a `history` array)")
	drv := fs.String("driver", "", "path of the Lean driver")
	scn := fs.String("scn", "", "bounded-exhaustive scenarios to run (comma separated; default: all of the part)")
	_ = fs.Parse(os.Args[2:])
	if *drv != "" {
		lib.DriverPath = *drv
	}
	if *scn != "" {
		smallFilter = strings.Split(*scn, ",")
	}
	p, ok := parts[name]
	if !ok {
		fmt.Fprintln(os.Stderr, "unknown part", name)
		os.Exit(2)
	}
	var rp []string
	if *replay != "" {
		b, err := os.ReadFile(*replay)
		if err != nil {
			fmt.Fprintln(os.Stderr, err)
			os.Exit(2)
		}
		var obj struct {
			History []string `json:"history"`
		}
		if err := json.Unmarshal(b, &obj); err != nil {
			fmt.Fprintln(os.Stderr, err)
			os.Exit(2)
		}
		rp = obj.History
	}
	res := p(*seed, *tier, rp)
	res.Part = name
	res.Seed = *seed
	res.Emit()
}
