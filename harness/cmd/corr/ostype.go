package main

import (
	"fmt"
	"regexp"
	"strings"

	"github.com/avfs/avfs"
	"github.com/avfs/avfs/vfs/memfs"
	"github.com/avfs/avfs/vfs/orefafs"

	"verifharness/lib"
)

func init() { parts["ostype"] = corrOstype }

func osName(t avfs.OSType) string {
	switch t {
	case avfs.OsLinux:
		return "linux"
	case avfs.OsWindows:
		return "windows"
	case avfs.OsDarwin:
		return "darwin"
	}
	return "unknown"
}

var permFields = regexp.MustCompile(`:[0-7]+:-?\d+:-?\d+:m[-_0-9]+`)

// portable: strip what C17 documents as OS-specific (permission bits, owners, times) from a snapshot / result
func portable(s string) string {
	return permFields.ReplaceAllString(s, ":P")
}

func okness(s string) string {
	f := strings.Fields(s)
	if len(f) == 0 {
		return ""
	}
	if f[0] == "err" || f[0] == "errn" {
		return "err"
	}
	return f[0]
}

func corrOstype(seed uint64, tier string, replay []string) *lib.Result {
	res := &lib.Result{Property: "C17",
		Rule: "(1) construction matrix {MemFS, OrefaFS} × requested OSType {Unknown, Linux, Windows} in this binary (tag on or off, as reported by BuildFeatures) against the Lean decision table setOSType; (2) with the tag on: random histories of portable calls, symbolic links included (paths built from components under the root / the default volume / for half of the MemFS histories an added volume D:) on the Windows-typed and the Linux-typed instance of each file system in lockstep: success/failure call by call and isomorphic trees (names, types, contents, link counts); then the bounded-exhaustive scenarios namespace and file-admin of small.go (every sequence of ≤ 2 calls, thorough ≤ 3) in the same lockstep; a case is one call; distinct non-trivial = distinct (fs, call kind, outcome)"}
	st := lib.NewStats()
	tagOn := avfs.BuildFeatures()&avfs.FeatSetOSType != 0
	tag := "tagoff"
	if tagOn {
		tag = "tagon"
	}
	// (1) matrix
	var lines, impl []string
	for _, fsn := range []string{"memfs", "orefafs"} {
		for _, req := range []avfs.OSType{avfs.OsUnknown, avfs.OsLinux, avfs.OsWindows} {
			var got avfs.OSType
			var sep uint8
			if fsn == "memfs" {
				v := memfs.NewWithOptions(&memfs.Options{OSType: req})
				got, sep = v.OSType(), v.PathSeparator()
			} else {
				v := orefafs.NewWithOptions(&orefafs.Options{OSType: req})
				got, sep = v.OSType(), v.PathSeparator()
			}
			lines = append(lines, fmt.Sprintf("ostype set %s linux %s", tag, osName(req)))
			// a refused request leaves the zero OSType: report it as the model's "none"
			r := fmt.Sprintf("ok %s %d", osName(got), sep)
			if got == avfs.OsUnknown {
				r = "none"
			}
			impl = append(impl, r)
			st.Count("matrix|"+fsn+"|"+osName(req)+"|"+r, "matrix|"+fsn+"|"+osName(req)+"|"+r)
		}
	}
	model, err := lib.RunDriver(lines)
	if err != nil {
		res.Mismatches = append(res.Mismatches, lib.Mismatch{Kind: "unproved", Class: "corr-impl ostype", What: "driver failure " + err.Error()})
		return res
	}
	for i := range lines {
		if impl[i] != model[i] {
			res.Mismatches = append(res.Mismatches, lib.Mismatch{Kind: "violation", Class: "ostype.matrix", What: fmt.Sprintf("%s: file system reports %q, SetOSType decision table says %q", lines[i], impl[i], model[i]),
				History: []string{lines[i]}, Impl: []string{impl[i]}, Model: []string{model[i]}})
			break
		}
	}
	st.Sample(map[string]any{"lines": lines[:3], "impl": impl[:3]})
	if !tagOn {
		st.Fill(res)
		return res
	}
	// (2) Windows vs Linux in lockstep
	nh, nl := 100, 40
	if tier == "thorough" {
		nh, nl = 1500, 60
	}
	r := lib.NewRng(seed*911 + 17)
	seen := map[string]bool{}
	skip := map[string]bool{"chown": true, "lchown": true, "chmod": true, "setuser": true, "setumask": true, "sub": true, "mkdirtemp": true, "createtemp": true, "chtimes": true}
	// after the random histories: the bounded-exhaustive scenarios namespace and file-admin of small.go (one level shallower)
	var scripts []lib.History
	if replay == nil {
		for _, scn := range []string{"namespace", "file-admin"} {
			sh, _ := smallHistoriesDepth(tier, scn, -1)
			for _, h := range sh {
				scripts = append(scripts, h[1:len(h)-1])
			}
		}
	}
	for k := 0; k < nh+len(scripts); k++ {
		var script lib.History
		if k >= nh {
			script = scripts[k-nh]
		}
		for _, fsn := range []string{"memfs", "orefafs"} {
			_ = avfs.SetUMask(0o022)
			var lin, win avfs.VFS
			if fsn == "memfs" {
				lin, win = memfs.NewWithOptions(&memfs.Options{OSType: avfs.OsLinux}), memfs.NewWithOptions(&memfs.Options{OSType: avfs.OsWindows})
			} else {
				lin, win = orefafs.NewWithOptions(&orefafs.Options{OSType: avfs.OsLinux}), orefafs.NewWithOptions(&orefafs.Options{OSType: avfs.OsWindows})
			}
			ml, mw := newFsOn(lin), newFsOn(win)
			mw.win = true
			vol := ""
			if wm, ok := win.(*memfs.MemFS); ok && r.Bool(50) {
				// half of the MemFS histories run on an added volume: its root is not the root node of the file system
				if err := wm.VolumeAdd("D:"); err == nil {
					mw.winVol, vol = "D:", "|vol"
				}
			}
			// the two types create different system directories: work below a common directory
			ml.call("fs 0 mkdirall " + lib.Hex("/w") + " 511")
			mw.call("fs 0 mkdirall " + lib.Hex("/w") + " 511")
			g := &fsGen{r: r.Split(), impl: ml, opts: fsGenOpts{files: true, kernel: true, symlinks: fsn == "memfs"}, nviews: 1}
			var hist lib.History
			for i := 0; i < nl || (script != nil && i < len(script)); i++ {
				var l string
				if script != nil {
					if i >= len(script) {
						break
					}
					l = script[i]
					if fsn == "orefafs" && strings.Fields(l)[2] == "symlink" {
						continue
					}
				} else {
					l = g.next()
				}
				if replay != nil {
					if i >= len(replay) {
						break
					}
					l = replay[i]
				}
				f := strings.Fields(l)
				if skip[f[2]] || (f[2] == "file" && len(f) > 4 && (f[4] == "chmod" || f[4] == "chown" || f[4] == "stat" || f[4] == "readdir")) || f[2] == "stat" || f[2] == "lstat" || f[2] == "readdir" {
					continue
				}
				// keep the history inside /w: a link target with ".." elements leads out of it, to the system directories that
				// differ between the two types (and between the volumes of the Windows-typed one)
				if f[2] == "symlink" && len(f) > 3 && strings.Contains(lib.UnHex(f[3]), "..") {
					continue
				}
				l = strings.ReplaceAll(l, " 2f", " 2f772f")
				if strings.Contains(l, " 2f772f ") || strings.HasSuffix(l, " 2f772f") {
					continue
				}
				hist = append(hist, l)
				a, b := ml.call(l), mw.call(l)
				if strings.HasPrefix(a, "ok h ") {
					g.open = append(g.open, atoiS(strings.Fields(a)[2]))
				}
				st.Count(fsn+vol+"|"+f[2]+"|"+okness(a), fsn+vol+"|"+f[2]+"|"+okness(a))
				bad := ""
				if (a == "panic" || a == "hang") && a == b {
					break // both emulations fail alike: a C07 finding of the file system, not an OS-type disagreement
				}
				if b == "panic" || b == "hang" {
					bad = "the Windows-typed file system " + b + "s"
				} else if okness(a) != okness(b) {
					bad = fmt.Sprintf("Linux-typed %q, Windows-typed %q", a, b)
				} else if strings.HasPrefix(a, "ok b ") && f[2] == "readfile" && a != b {
					bad = fmt.Sprintf("contents differ: %q vs %q", a, b)
				} else {
					sa, sb := ml.call("fs 0 snap"), mw.call("fs 0 snap")
					sa, sb = portable(subtree(sa, "2f77")), portable(subtree(sb, "2f77"))
					if sa != sb {
						bad = fmt.Sprintf("trees below /w differ: linux %q windows %q", trunc(sa), trunc(sb))
					}
				}
				if bad != "" {
					sig := fsn + "|" + f[2] + "|" + okness(a) + okness(b)
					if !seen[sig] {
						seen[sig] = true
						res.Mismatches = append(res.Mismatches, lib.Mismatch{Kind: "known", Class: "ostype." + fsn + "." + f[2] + "." + okness(a) + "-vs-" + okness(b),
							What: fsn + ": Linux-typed and Windows-typed emulation disagree at " + l + ": " + bad, History: append(lib.History{}, hist...), Impl: []string{a, b}})
					}
					break
				}
				if ml.dead || mw.dead {
					break
				}
			}
		}
		if replay != nil {
			break
		}
	}
	st.Fill(res)
	return res
}

// subtree keeps the snapshot entries at or below the hex path prefix.
func subtree(snap, hexPrefix string) string {
	var keep []string
	for _, e := range strings.Fields(snap) {
		if strings.HasPrefix(e, hexPrefix+":") || strings.HasPrefix(e, hexPrefix+"2f") {
			keep = append(keep, e)
		}
	}
	return strings.Join(keep, " ")
}
